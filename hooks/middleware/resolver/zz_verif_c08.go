//go:build verif

package resolver

import (
	"time"

	"github.com/miekg/dns"
	"github.com/semihalev/sdns/internal/cache"
)

// Overlay hooks for /verif/harness/c08 (delegation leases). Read-only.

// VerifC08Lease is the stored state of one delegation-cache entry.
type VerifC08Lease struct {
	Present   bool
	ExpiresAt time.Time
	Servers   int
	Hosts     int
	DS        int
}

// VerifC08DelegationKey is the delegation-cache key of a zone cut for a
// client CD bit — the same derivation processDelegation / searchCache use.
func VerifC08DelegationKey(zone string, cd bool) uint64 {
	return cache.Key(dns.Question{Name: zone, Qtype: dns.TypeNS, Qclass: dns.ClassINET}, cd)
}

// VerifC08Lease reads the delegation stored for (zone, cd) without applying
// the expiry filter of authority.Cache.Get, so an already lapsed lease is
// still reported (with ExpiresAt in the past).
func (h *DNSHandler) VerifC08Lease(zone string, cd bool) VerifC08Lease {
	key := VerifC08DelegationKey(zone, cd)
	exp, ok := h.resolver.delegations.VerifExpiries()[key]
	if !ok {
		return VerifC08Lease{}
	}
	out := VerifC08Lease{Present: true, ExpiresAt: exp}
	if d, err := h.resolver.delegations.Get(key); err == nil && d != nil {
		out.DS = len(d.DSSet)
		if d.Servers != nil {
			d.Servers.RLock()
			out.Servers = len(d.Servers.List)
			out.Hosts = len(d.Servers.Hosts)
			d.Servers.RUnlock()
		}
	}
	return out
}

// VerifC08GlueLen reports the sizes of the NS-address (glue) caches. They
// carry no lifetime at all (name → addresses), which is why they are not part
// of the virtual clock.
func (h *DNSHandler) VerifC08GlueLen() (v4, v6 int) {
	r := h.resolver
	if r.glueV4 != nil {
		v4 = r.glueV4.Len()
	}
	if r.glueV6 != nil {
		v6 = r.glueV6.Len()
	}
	return
}
