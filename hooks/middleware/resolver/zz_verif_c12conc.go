//go:build verif

package resolver

import (
	"context"

	"github.com/semihalev/sdns/middleware/resolver/dnssec"
)

// Overlay hook for /verif/harness/c12 (never compiled without -tags verif).
// Additive; changes no behaviour.

// VerifC12Work is the method set of the work governor the resolver hands the
// dnssec package for one request tree.
type VerifC12Work interface {
	dnssec.SignatureWork
	dnssec.DSDigestWork
	dnssec.NSEC3Work
	dnssec.NSEC3HashMemoProvider
}

// VerifC12DNSSECWork returns exactly what (*Resolver).dnssecWork(ctx) returns
// for a Resolver whose resolver-wide crypto gate is limiter: the adapter that
// debits the request-tree ledger carried by ctx, waits for a crypto slot and
// exposes the request tree's NSEC3 hash memo. The C12 monitor uses it to run
// several validations of one request tree concurrently against the real
// ledger, the real gate and the real memo without a socket in between.
func VerifC12DNSSECWork(ctx context.Context, limiter *dnssec.CryptoLimiter) VerifC12Work {
	return dnssecWorkBudget{ctx: ctx, limiter: limiter}
}
