//go:build verif

package resolver

// Overlay hook for /verif/harness/c11 (DESIGN.md §4/C11). Read-only: reports
// how many tokens of every resolver capacity limiter are held right now, so
// the monitor can assert "no leaked limiter slot" once the server is quiet.

// VerifC11SlotCounts is a snapshot of the resolver's capacity limiters.
type VerifC11SlotCounts struct {
	MaxConcurrent    int `json:"max_concurrent"`     // per-upstream-attempt semaphore (Resolver.maxConcurrent)
	MaxConcurrentCap int `json:"max_concurrent_cap"` //
	Resolution       int `json:"resolution"`         // in-flight zone lookups (Resolver.resolutionSlots)
	ResolutionCap    int `json:"resolution_cap"`     //
	Probe            int `json:"probe"`              // exploration probes outliving their lookup (Resolver.probeSlots)
	ProbeCap         int `json:"probe_cap"`          //
	V6Lookup         int `json:"v6_lookup"`          // detached IPv6 NS enrichment jobs (Resolver.v6LookupSlots)
	ZoneInflight     int `json:"zone_inflight"`      // sum over the per-zone in-flight buckets
	ZonePerZone      int `json:"zone_per_zone"`      // per-zone quota
}

// Total is the number of tokens held across all limiters.
func (c VerifC11SlotCounts) Total() int {
	return c.MaxConcurrent + c.Resolution + c.Probe + c.V6Lookup + c.ZoneInflight
}

// VerifC11Slots reports the in-use counts of the resolver's limiters.
func (h *DNSHandler) VerifC11Slots() VerifC11SlotCounts {
	r := h.resolver
	c := VerifC11SlotCounts{
		MaxConcurrent:    len(r.maxConcurrent),
		MaxConcurrentCap: cap(r.maxConcurrent),
		Resolution:       len(r.resolutionSlots),
		ResolutionCap:    cap(r.resolutionSlots),
		Probe:            len(r.probeSlots),
		ProbeCap:         cap(r.probeSlots),
		V6Lookup:         len(r.v6LookupSlots),
	}
	if z := r.zoneInflight; z != nil {
		c.ZonePerZone = int(z.perZone)
		for i := range z.buckets {
			c.ZoneInflight += int(z.buckets[i].Load())
		}
	}
	return c
}
