//go:build verif

package resolver

// Overlay hooks for /verif/harness/c12 (never compiled without -tags verif).
// Read-only; no behaviour changes.

// VerifC12TARefreshRuns returns how many trust-anchor refresh runs
// ((*Resolver).AutoTA) have COMPLETED in this process, whatever their outcome
// (AutoTA increments exactly one outcome counter in a deferred call). The C12
// monitor uses it to know that the start-up request trees (root priming, then
// the trust-anchor refresh) are over before it starts counting upstream
// packets per client query.
func VerifC12TARefreshRuns() int64 {
	return taRefreshSuccess.Value() + taRefreshWorkBudget.Value() + taRefreshTimeout.Value() +
		taRefreshQueryError.Value() + taRefreshValidationError.Value() + taRefreshPersistenceError.Value()
}
