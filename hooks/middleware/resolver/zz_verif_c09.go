//go:build verif

package resolver

import "github.com/miekg/dns"

// Read-only observation hooks of the C09 monitor (root trust anchors change
// only as RFC 5011 permits). They never change behaviour: the trust-anchor
// refresh itself is driven through the exported, synchronous (*Resolver).AutoTA
// and the on-disk state is decoded through the exported gob types
// (TrustAnchors, Tombstones).

// VerifC09RootKeys returns a copy of the live root trust set and whether the
// underlying slice is non-nil (nil = the fail-closed clear).
func (r *Resolver) VerifC09RootKeys() (keys []dns.RR, nonNil bool) {
	r.RLock()
	defer r.RUnlock()
	if r.rootKeys == nil {
		return nil, false
	}
	return append([]dns.RR{}, r.rootKeys...), true
}

// VerifC09ConfiguredRootKeys returns a copy of the immutable startup snapshot
// of cfg.RootKeys.
func (r *Resolver) VerifC09ConfiguredRootKeys() []dns.RR {
	r.RLock()
	defer r.RUnlock()
	return append([]dns.RR{}, r.configuredRootKeys...)
}

// VerifC09HasTrustAnchors is the predicate the validation paths consult.
func (r *Resolver) VerifC09HasTrustAnchors() bool { return r.hasTrustAnchors() }

// VerifC09StateFiles names the two files AutoTA persists under cfg.Directory.
func VerifC09StateFiles() (state, tombstones string) { return stateFile, tombstoneFile }

// VerifC09RefreshResults reads the package's dns_trust_anchor_refresh_total
// counters (one terminal result per AutoTA run).
func VerifC09RefreshResults() map[string]int64 {
	return map[string]int64{
		"success":           taRefreshSuccess.Value(),
		"work_budget":       taRefreshWorkBudget.Value(),
		"timeout":           taRefreshTimeout.Value(),
		"query_error":       taRefreshQueryError.Value(),
		"validation_error":  taRefreshValidationError.Value(),
		"persistence_error": taRefreshPersistenceError.Value(),
	}
}
