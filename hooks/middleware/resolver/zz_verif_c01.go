//go:build verif

package resolver

import "github.com/miekg/dns"

// Hooks of the C01 monitor (validating clients get only authenticated data).
//
// The property says "when no trust anchor is available the answer is SERVFAIL
// rather than unvalidated data". The only way the live trust set becomes empty
// in production is AutoTA's fail-closed path (`r.Lock(); r.rootKeys = nil;
// r.Unlock()`: unreadable tombstone store, a new revocation that could not be
// persisted, every anchor revoked). VerifC01ClearTrustAnchors performs exactly
// that assignment, at a quiescent point chosen by the harness (no request in
// flight, the start-up AutoTA run finished), and hands back the slice it
// replaced so the harness can put it back later (what the next successful
// AutoTA run does: `r.rootKeys = finalRootKeys`). No code path is altered.

// VerifC01ClearTrustAnchors empties the live trust set the way AutoTA's
// fail-closed path does and returns the slice that was live before.
func (r *Resolver) VerifC01ClearTrustAnchors() []dns.RR {
	r.Lock()
	saved := r.rootKeys
	r.rootKeys = nil
	r.Unlock()
	return saved
}

// VerifC01RestoreTrustAnchors republishes a trust set saved by
// VerifC01ClearTrustAnchors.
func (r *Resolver) VerifC01RestoreTrustAnchors(saved []dns.RR) {
	r.Lock()
	r.rootKeys = saved
	r.Unlock()
}

// VerifC01TrustAnchorCount is the size of the live trust set (0 = the
// validation paths must fail closed).
func (r *Resolver) VerifC01TrustAnchorCount() int {
	r.RLock()
	defer r.RUnlock()
	return len(r.rootKeys)
}

// VerifC01RefreshRuns is the number of AutoTA runs that have ended in this
// process (one terminal result is counted per run). The harness waits for the
// start-up run of a fresh resolver to end before it touches the trust set, so
// that run's final publication cannot undo the simulated outage.
func VerifC01RefreshRuns() int64 {
	return taRefreshSuccess.Value() + taRefreshWorkBudget.Value() + taRefreshTimeout.Value() +
		taRefreshQueryError.Value() + taRefreshValidationError.Value() + taRefreshPersistenceError.Value()
}
