//go:build verif

package resolver

import (
	"slices"
	"time"

	"github.com/miekg/dns"
)

// Overlay hooks for /verif/harness/authsim (DESIGN.md §2.3). They read state,
// install the dial-target remapper the repo's own hermetic tests install, or
// rewrite stored instants at a quiescent point. No behaviour changes.

// VerifSetResolveTarget installs (or with nil removes) the upstream address
// remapper — the same atomic the hermetic tests Store into.
func (h *DNSHandler) VerifSetResolveTarget(f func(string) string) {
	if f == nil {
		h.resolver.resolveTarget.Store(nil)
		return
	}
	h.resolver.resolveTarget.Store(&f)
}

// VerifResolver exposes the resolver behind the handler.
func (h *DNSHandler) VerifResolver() *Resolver { return h.resolver }

// VerifRootKeys returns a copy of the live trust set.
func (h *DNSHandler) VerifRootKeys() []dns.RR { return h.resolver.VerifRootKeys() }

// VerifRootKeys returns a copy of the live trust set.
func (r *Resolver) VerifRootKeys() []dns.RR {
	r.RLock()
	defer r.RUnlock()
	return slices.Clone(r.rootKeys)
}

// VerifAdvance moves every stored delegation lease back by d (virtual clock
// step). Call only when no request is in flight.
func (h *DNSHandler) VerifAdvance(d time.Duration) { h.resolver.delegations.VerifAdvance(d) }

// VerifDelegationCount reports the number of cached delegations.
func (h *DNSHandler) VerifDelegationCount() int { return h.resolver.delegations.VerifLen() }

// VerifSlots reports how many tokens of each limiter are currently held.
func (h *DNSHandler) VerifSlots() (maxConcurrent, resolution, probe, v6 int) {
	r := h.resolver
	return len(r.maxConcurrent), len(r.resolutionSlots), len(r.probeSlots), len(r.v6LookupSlots)
}

// VerifRelease drops the resolver's references to its caches and to the
// pipeline so a closed harness stack can be collected even though the
// resolver's 12-hour maintenance goroutine keeps the Resolver itself alive.
// Teardown only: the handler must not serve afterwards.
func (h *DNSHandler) VerifRelease() {
	r := h.resolver
	r.store.Store(nil)
	r.queryer.Store(nil)
	r.resolveTarget.Store(nil)
}
