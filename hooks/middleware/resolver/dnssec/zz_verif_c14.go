//go:build verif

package dnssec

// Read-only wrappers for the C14 differential monitor (/verif/harness/c14).
// They forward to the unexported primitives unchanged; none of them alters
// behaviour or state.

import (
	"math/big"

	"github.com/miekg/dns"
)

// VerifC14VerifySignature is verifySignature (binding preflight + canonical
// signed data + algorithm dispatch).
func VerifC14VerifySignature(k *dns.DNSKEY, sig *dns.RRSIG, rrset []dns.RR) error {
	return verifySignature(k, sig, rrset)
}

// VerifC14CryptoVerify is cryptoVerify (own verifier for implemented
// algorithms, the library's for the rest).
func VerifC14CryptoVerify(k *dns.DNSKEY, sig *dns.RRSIG, rrset []dns.RR) error {
	return cryptoVerify(k, sig, rrset)
}

// VerifC14SignatureBinding is signatureBinding (the preflight alone).
func VerifC14SignatureBinding(k *dns.DNSKEY, sig *dns.RRSIG, rrset []dns.RR) error {
	return signatureBinding(k, sig, rrset)
}

// VerifC14SignedData is rrsigSignedData (the bytes that get hashed).
func VerifC14SignedData(sig *dns.RRSIG, rrset []dns.RR) ([]byte, error) {
	return rrsigSignedData(sig, rrset)
}

// VerifC14DSDigestMatches is dsDigestMatches.
func VerifC14DSDigestMatches(key *dns.DNSKEY, digestType uint8, want []byte) bool {
	return dsDigestMatches(key, digestType, want)
}

// VerifC14OversizedKeyMaterial is oversizedKeyMaterial.
func VerifC14OversizedKeyMaterial(publicKey string) bool {
	return oversizedKeyMaterial(publicKey)
}

// VerifC14RSAMD5KeyTag is rsamd5KeyTag.
func VerifC14RSAMD5KeyTag(publicKey string) uint16 {
	return rsamd5KeyTag(publicKey)
}

// VerifC14ParseRSAPublicKey is parseRSAPublicKey.
func VerifC14ParseRSAPublicKey(pubkey string) (n, e *big.Int, ok bool) {
	return parseRSAPublicKey(pubkey)
}

// VerifC14UsableRSAKey is usableRSAKey.
func VerifC14UsableRSAKey(n, e *big.Int) bool {
	return usableRSAKey(n, e)
}

// VerifC14RSAExponentExceedsStdlib is rsaExponentExceedsStdlib.
func VerifC14RSAExponentExceedsStdlib(pubkey string) bool {
	return rsaExponentExceedsStdlib(pubkey)
}

// VerifC14RSAVerifyPKCS1v15 is rsaVerifyPKCS1v15 with the DigestInfo prefix
// sdns itself selects for the algorithm (rsaHash); ok=false when sdns has no
// prefix for it.
func VerifC14RSAVerifyPKCS1v15(n, e *big.Int, alg uint8, hashed, sig []byte) (err error, ok bool) {
	_, prefix, ok := rsaHash(alg)
	if !ok {
		return nil, false
	}
	return rsaVerifyPKCS1v15(n, e, prefix, hashed, sig), true
}

// VerifC14RSALimits reports the key bounds the raw path states for itself.
func VerifC14RSALimits() (minModBits, maxModBits, maxExpBits int, maxStdlibExp int64, maxDSKey int) {
	return minRSAModulusBits, maxRSAModulusBits, maxRSAExponentBits, maxStdlibRSAExponent, maxDSKeyMaterial
}

// VerifC14UsableSignatureCandidate is usableSignatureCandidate.
func VerifC14UsableSignatureCandidate(sig *dns.RRSIG, key *dns.DNSKEY) bool {
	return usableSignatureCandidate(sig, key)
}

// VerifC14SignatureMatchesRRset is signatureMatchesRRset.
func VerifC14SignatureMatchesRRset(sig *dns.RRSIG, set []dns.RR) bool {
	return signatureMatchesRRset(sig, set)
}
