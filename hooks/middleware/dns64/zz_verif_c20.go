//go:build verif

package dns64

// Read-only accessors for the C20 monitor (/verif/harness/c20). Thin wrappers
// around the unexported RFC 6052 functions and the compiled configuration;
// nothing here changes behaviour.

import "net"

// VerifC20ValidatePrefix is validatePrefix.
func VerifC20ValidatePrefix(p *net.IPNet) error { return validatePrefix(p) }

// VerifC20Embed is embedIPv4.
func VerifC20Embed(prefix *net.IPNet, v4 net.IP) net.IP { return embedIPv4(prefix, v4) }

// VerifC20Extract is extractIPv4.
func VerifC20Extract(prefix *net.IPNet, addr net.IP) (net.IP, bool) {
	return extractIPv4(prefix, addr)
}

// VerifC20ParseIP6Arpa is parseIP6ArpaName.
func VerifC20ParseIP6Arpa(qname string) (net.IP, bool) { return parseIP6ArpaName(qname) }

// VerifC20InAddrArpa is inAddrArpa.
func VerifC20InAddrArpa(v4 net.IP) string { return inAddrArpa(v4) }

// VerifC20Compiled is a string snapshot of the compiled configuration.
type VerifC20Compiled struct {
	Prefixes       []string
	WellKnown      []bool
	ClientNetworks []string
	ExcludeZones   []string
	ExcludeAv4     []string
	ExcludeAAAA    []string
}

// VerifC20Config returns the compiled configuration of d (nil for a disabled
// handler).
func VerifC20Config(d *DNS64) *VerifC20Compiled {
	if d == nil || d.cfg == nil {
		return nil
	}
	out := &VerifC20Compiled{}
	for _, p := range d.cfg.prefixes {
		out.Prefixes = append(out.Prefixes, p.net.String())
		out.WellKnown = append(out.WellKnown, p.wellKnown)
	}
	for _, n := range d.cfg.clientNetworks {
		out.ClientNetworks = append(out.ClientNetworks, n.String())
	}
	out.ExcludeZones = append(out.ExcludeZones, d.cfg.excludeZones...)
	for _, n := range d.cfg.excludeAv4 {
		out.ExcludeAv4 = append(out.ExcludeAv4, n.String())
	}
	for _, n := range d.cfg.excludeAAAA {
		out.ExcludeAAAA = append(out.ExcludeAAAA, n.String())
	}
	return out
}
