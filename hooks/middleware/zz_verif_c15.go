//go:build verif

package middleware

import "github.com/miekg/dns"

// Verification hook for property C15: the negative-proof seal, one of the
// consumers of the pooled packer (hashes the packed form in place).

// VerifC15NegProofFingerprint exposes validatedNegativeProofFingerprint.
func VerifC15NegProofFingerprint(proof *dns.Msg) ([32]byte, bool) {
	return validatedNegativeProofFingerprint(proof)
}
