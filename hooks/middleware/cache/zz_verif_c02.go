//go:build verif

package cache

import (
	"context"
	"sort"
	"time"
)

// VerifC02Advance emulates the passage of d for the RFC 8020 cut index and the
// RFC 8198 proof index of s: every stored expiry instant (and conflict
// tombstone) is moved d into the past. Must be called at a quiescent point —
// no lookup or admission in flight. It changes no decision logic.
func VerifC02Advance(s *Store, d time.Duration) {
	if s == nil {
		return
	}
	if c := s.nxDomainCuts; c != nil {
		c.mu.Lock()
		for _, e := range c.entries {
			e.expires = e.expires.Add(-d)
			e.stored = e.stored.Add(-d)
		}
		c.mu.Unlock()
	}
	if p := s.denialProofs; p != nil {
		p.mu.Lock()
		for _, e := range p.byID {
			e.expires = e.expires.Add(-d)
		}
		for k, t := range p.nsec3Conflicts {
			p.nsec3Conflicts[k] = t.Add(-d)
		}
		if !p.nsec3ConflictOverflowUntil.IsZero() {
			p.nsec3ConflictOverflowUntil = p.nsec3ConflictOverflowUntil.Add(-d)
		}
		p.mu.Unlock()
	}
}

// VerifC02BypassContext marks ctx the way Cache.ServeDNS marks the request
// tree of a CD=1 / ECS client.
func VerifC02BypassContext(ctx context.Context) context.Context {
	return withSharedDenialBypass(ctx)
}

// VerifC02ProofSeq returns the proof index's admission sequence number (it
// grows by one per admitted RRset entry, replacements included).
func VerifC02ProofSeq(s *Store) uint64 {
	if s == nil || s.denialProofs == nil {
		return 0
	}
	s.denialProofs.mu.RLock()
	defer s.denialProofs.mu.RUnlock()
	return s.denialProofs.sequence
}

// VerifC02Cuts lists the denied names currently held by the cut index with
// the instant each was stored (a replacement changes the instant).
func VerifC02Cuts(s *Store) (names []string, stamp int64) {
	if s == nil || s.nxDomainCuts == nil {
		return nil, 0
	}
	c := s.nxDomainCuts
	c.mu.RLock()
	for _, e := range c.entries {
		names = append(names, e.deniedName)
		stamp += e.stored.UnixNano() % 1000003
	}
	c.mu.RUnlock()
	sort.Strings(names)
	return names, stamp
}
