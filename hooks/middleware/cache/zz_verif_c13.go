//go:build verif

package cache

import "time"

// Verification hooks for property C13 (RFC 9520 cached failures). Read-only
// views of the failure cache; nothing here changes behaviour. Call them at
// quiescent points only (VerifAdvance rewrites retryAfter in place).

// VerifC13Entry describes one retained failure state (active or expired).
type VerifC13Entry struct {
	Kind       string // "question" | "zone"
	Name       string // question name or zone
	Qtype      uint16 // question kind only
	Qclass     uint16
	CD         bool   // question kind only
	Scope      string // question kind only; "" = global audience
	Streak     uint32
	Remaining  time.Duration // retryAfter - now (negative once expired)
	Provenance string
}

// VerifC13Failures lists every retained failure state, bypassing the
// rfc9520 kill switch (Store.FailureLen reports 0 when the switch is off).
func (c *Cache) VerifC13Failures() []VerifC13Entry {
	if c == nil || c.failure == nil || c.failure.entries == nil {
		return nil
	}
	now := c.failure.now()
	var out []VerifC13Entry
	c.failure.entries.ForEach(func(_ uint64, v any) bool {
		e, ok := v.(*failureEntry)
		if !ok || e == nil {
			return true
		}
		info := VerifC13Entry{
			Streak:     e.streak,
			Remaining:  e.retryAfter.Sub(now),
			Provenance: string(e.provenance),
		}
		switch e.kind {
		case FailureKindQuestion:
			info.Kind = "question"
			info.Name = e.question.Question.Name
			info.Qtype = e.question.Question.Qtype
			info.Qclass = e.question.Question.Qclass
			info.CD = e.question.CD
			if e.question.Scope.IsValid() {
				info.Scope = e.question.Scope.String()
			}
		case FailureKindZone:
			info.Kind = "zone"
			info.Name = e.zone.Zone
			info.Qclass = e.zone.Qclass
		default:
			info.Kind = "unknown"
		}
		out = append(out, info)
		return true
	})
	return out
}

// VerifC13RawFailureLen is the number of retained failure states regardless
// of the rfc9520 kill switch.
func (c *Cache) VerifC13RawFailureLen() int {
	if c == nil || c.failure == nil {
		return 0
	}
	return c.failure.Len()
}

// VerifC13FailureCache exposes the bounded failure cache itself, so a harness
// can pre-seed state through its exported Record* API (the only way to test
// the serving half of the kill switch independently of the recording half).
func (c *Cache) VerifC13FailureCache() *FailureCache {
	if c == nil {
		return nil
	}
	return c.failure
}

// VerifC13Bounds returns the effective (initial, max) backoff and whether the
// rfc9520 kill switch is engaged.
func (c *Cache) VerifC13Bounds() (initial, max time.Duration, disabled bool) {
	if c == nil || c.failure == nil {
		return 0, 0, true
	}
	return c.failure.initialTTL, c.failure.maxTTL, c.store != nil && c.store.failureCacheDisabled
}
