//go:build verif

package cache

import "time"

// Shared virtual-clock hook (DESIGN.md §2.3). sdns reads time.Now() directly, so
// instead of replacing the clock VerifAdvance moves every *stored* instant of the
// cache middleware back by d — observationally the same as the wall clock jumping
// forward by d for everything the lifetime properties talk about (entry age,
// delegation-cut deadlines, subtree-cut and denial-proof expiry, failure backoff).
//
// MUST be called only at a quiescent point: no request in flight, prefetch queue
// idle. It changes no behaviour: it only rewrites timestamps.

// VerifAdvance advances the virtual clock of every sub-cache of c by d.
func (c *Cache) VerifAdvance(d time.Duration) {
	if c == nil || c.store == nil {
		return
	}
	c.store.VerifAdvance(d)
}

// VerifStore exposes the cache's Store facade.
func (c *Cache) VerifStore() *Store { return c.store }

// VerifAdvance advances the virtual clock of the store's sub-caches by d.
func (s *Store) VerifAdvance(d time.Duration) {
	if d == 0 {
		return
	}
	s.ForEach(func(_ bool, _ uint64, e *CacheEntry) bool {
		e.stored = e.stored.Add(-d)
		if !e.cutUntil.IsZero() {
			e.cutUntil = e.cutUntil.Add(-d)
		}
		return true
	})
	if c := s.nxDomainCuts; c != nil {
		c.mu.Lock()
		for _, e := range c.entries {
			e.stored = e.stored.Add(-d)
			e.expires = e.expires.Add(-d)
		}
		c.mu.Unlock()
	}
	if c := s.denialProofs; c != nil {
		c.mu.Lock()
		for _, e := range c.byID {
			e.expires = e.expires.Add(-d)
		}
		for k, t := range c.nsec3Conflicts {
			c.nsec3Conflicts[k] = t.Add(-d)
		}
		if !c.nsec3ConflictOverflowUntil.IsZero() {
			c.nsec3ConflictOverflowUntil = c.nsec3ConflictOverflowUntil.Add(-d)
		}
		c.mu.Unlock()
	}
	if f := s.failure; f != nil && f.entries != nil {
		f.entries.ForEach(func(_ uint64, v any) bool {
			if e, ok := v.(*failureEntry); ok && e != nil {
				e.retryAfter = e.retryAfter.Add(-d)
			}
			return true
		})
	}
}

// VerifEntryInfo is a read-only description of one answer-cache entry.
type VerifEntryInfo struct {
	Positive  bool
	Key       uint64
	Question  string
	Qtype     uint16
	Qclass    uint16
	CD        bool
	Scope     string
	Remaining time.Duration
	TTL       time.Duration
	CutUntil  time.Time
	Prefetch  bool
}

// VerifDump lists the answer-cache entries (positive and negative).
func (s *Store) VerifDump() []VerifEntryInfo {
	now := time.Now()
	var out []VerifEntryInfo
	s.ForEach(func(pos bool, key uint64, e *CacheEntry) bool {
		info := VerifEntryInfo{
			Positive: pos, Key: key, Question: e.question.Name, Qtype: e.question.Qtype,
			Qclass: e.question.Qclass, CD: e.cd, Remaining: e.remaining(now), TTL: e.ttl,
			CutUntil: e.cutUntil, Prefetch: e.prefetch.Load(),
		}
		if e.scope.IsValid() {
			info.Scope = e.scope.String()
		}
		out = append(out, info)
		return true
	})
	return out
}
