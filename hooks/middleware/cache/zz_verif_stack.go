//go:build verif

package cache

// Overlay hook for /verif/harness/stack: read-only view of the prefetch
// queue depth, so a harness can wait for background refreshes to drain
// before judging state. Changes no behaviour.

// VerifStackPrefetchBacklog reports how many prefetch requests are queued
// (not yet picked up by a worker); 0 when prefetch is disabled.
func (c *Cache) VerifStackPrefetchBacklog() int {
	if c == nil || c.prefetchQueue == nil {
		return 0
	}
	return len(c.prefetchQueue.items)
}
