//go:build verif

package cache

// Verification hook for property C15: the bytes a cache entry stores.

// VerifC15EntryWire returns the packed body an entry stores and its
// DNSSEC-stripped variant (nil if none). Read-only; callers must not modify
// the returned slices.
func VerifC15EntryWire(e *CacheEntry) (wire, stripped []byte) {
	if e == nil {
		return nil, nil
	}
	return e.wire, e.stripped
}
