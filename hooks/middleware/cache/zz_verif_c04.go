//go:build verif

package cache

import "github.com/miekg/dns"

// Verification hooks for property C04 (lifetimes). Read-only: nothing here
// changes behaviour or rewrites state.

// VerifC04PrefetchClaimed reports whether a background refresh currently holds
// the claim on e (set by the hit that queued the refresh, released by the
// prefetch worker on every exit path, after its write-back). The C04 harness
// polls it to find the quiescent point after which the virtual clock may step.
func VerifC04PrefetchClaimed(e *CacheEntry) bool {
	return e != nil && e.prefetch.Load()
}

// VerifC04Counters returns the live values of the cache package's serve-route
// counters (process-global, monotonic: take deltas). The single-threaded C04
// history runner uses the delta across one request to attribute the reply to
// the route that produced it (exact entry / wire copy / wire chase / subtree
// cut / aggressive denial / miss).
func VerifC04Counters() map[string]int64 {
	return map[string]int64{
		"hits":               cacheHits.Value(),
		"misses":             cacheMisses.Value(),
		"prefetches":         cachePrefetches.Value(),
		"failure_hits":       failureCacheHits.Value(),
		"wire_served":        wireFastServed.Value(),
		"wire_fallback":      wireFastFallback.Value(),
		"wire_chase_served":  wireChaseServed.Value(),
		"wire_cut_served":    wireCutServed.Value(),
		"wire_skip_chase":    wireSkipChase.Value(),
		"wire_skip_entry":    wireSkipEntry.Value(),
		"wire_skip_internal": wireSkipInternal.Value(),
		"wire_skip_dnssec":   wireSkipDNSSEC.Value(),
		"wire_skip_writer":   wireSkipWriter.Value(),
		"cut_hits":           nxDomainCutHits.Value(),
		"proof_nsec_nx":      aggressiveNSECNXDomainHits.Value(),
		"proof_nsec_nodata":  aggressiveNSECNODATAHits.Value(),
		"ecs_hit_scoped":     ecsLookupHitScoped.Value(),
		"ecs_hit_shared":     ecsLookupHitShared.Value(),
	}
}

// VerifC04EntryMsg decodes the body an entry stores, whatever lifetime the
// entry has left (ToMsg declines once it ran out). The C04 concurrent-history
// monitor uses it to read the provenance marker of an entry a Lookup returned,
// including one that expires right after. Read-only; nil if e is nil or the
// stored bytes do not unpack.
func VerifC04EntryMsg(e *CacheEntry) *dns.Msg {
	if e == nil {
		return nil
	}
	m := new(dns.Msg)
	if err := m.Unpack(e.wire); err != nil {
		return nil
	}
	return m
}
