//go:build verif

package cache

import (
	"github.com/miekg/dns"
)

// Verification hooks for property C03 (a cached response only answers the
// exact question and audience it was stored for).
//
// The answer cache has exported pre-keyed writers (Store.SetFromResponseWithKey
// etc.), so a 64-bit key collision can be simulated there without a hook. The
// RFC 9520 failure cache and the RFC 8020 cut cache's wire index compute their
// own hash from the entry, so a collision can only be simulated by filing an
// entry under ANOTHER preimage's hash. The two Forge hooks below do exactly
// that — through the caches' own internal writers, at a quiescent point — and
// nothing else: they never touch an existing code path. The remaining hooks
// are read-only.

// VerifC03WireCounters reads the byte-path outcome counters (process-global,
// monotonic): which rung of the wire ladder served.
func VerifC03WireCounters() map[string]int64 {
	return map[string]int64{
		"served":         wireFastServed.Value(),
		"fallback":       wireFastFallback.Value(),
		"chase_served":   wireChaseServed.Value(),
		"cut_served":     wireCutServed.Value(),
		"failure_served": wireFailureServed.Value(),
		"skip_chase":     wireSkipChase.Value(),
		"skip_entry":     wireSkipEntry.Value(),
		"skip_writer":    wireSkipWriter.Value(),
		"ecs_hit_scoped": ecsLookupHitScoped.Value(),
		"ecs_hit_shared": ecsLookupHitShared.Value(),
		"ecs_miss":       ecsLookupMiss.Value(),
		"failure_hits":   failureCacheHits.Value(),
		"cut_hits":       nxDomainCutHits.Value(),
	}
}

// VerifC03FailureQuestionHash is the failure cache's private hash of a
// question-kind key (normalised the way the cache normalises it).
func VerifC03FailureQuestionHash(key FailureQuestionKey) uint64 {
	return failureQuestionHash(normalizeFailureQuestionKey(key))
}

// VerifC03FailureZoneHash is the failure cache's private hash of a zone key.
func VerifC03FailureZoneHash(key FailureZoneKey) uint64 {
	return failureZoneHash(normalizeFailureZoneKey(key))
}

// VerifC03ForgeFailure files an active question-kind failure whose identity
// is `identity` under `hash` — i.e. what the failure cache would hold if
// `identity` collided with the preimage `hash` was computed from. It uses the
// cache's own record routine. Returns false when the failure cache is off.
func (s *Store) VerifC03ForgeFailure(hash uint64, identity FailureQuestionKey) bool {
	if s == nil || s.failureCacheDisabled || s.failure == nil {
		return false
	}
	identity = normalizeFailureQuestionKey(identity)
	s.failure.record(hash, &failureEntry{
		kind:       FailureKindQuestion,
		provenance: FailureProvenance("verif-c03-forged"),
		question:   identity,
	})
	return true
}

// VerifC03FailureAt describes what the failure cache holds under hash.
func (s *Store) VerifC03FailureAt(hash uint64) (identity FailureQuestionKey, kind FailureKind, ok bool) {
	if s == nil || s.failure == nil {
		return FailureQuestionKey{}, 0, false
	}
	e, found := s.failure.loadEntry(hash)
	if !found || e == nil {
		return FailureQuestionKey{}, 0, false
	}
	return e.question, e.kind, true
}

// VerifC03CutHash is the cut cache's wire-index hash of (deniedName, qclass).
func VerifC03CutHash(deniedName string, qclass uint16) uint64 {
	return nxDomainCutHash(dns.CanonicalName(deniedName), qclass)
}

// VerifC03ForgeCut makes the recorded cut (deniedName, qclass) ALSO reachable
// under `hash` in the wire lookup's hash index — what the index would hold if
// that cut collided with the identity `hash` was computed from (the index is
// "last write wins"). The string-keyed truth map is untouched. Returns false
// when there is no such cut or it has no wire template.
func (s *Store) VerifC03ForgeCut(hash uint64, deniedName string, qclass uint16) bool {
	if s == nil || s.nxDomainCuts == nil {
		return false
	}
	c := s.nxDomainCuts
	c.mu.Lock()
	defer c.mu.Unlock()
	e := c.entries[nxDomainCutID{deniedName: dns.CanonicalName(deniedName), qclass: qclass}]
	if e == nil || e.wireFull == nil {
		return false
	}
	c.byHash[hash] = e
	return true
}

// VerifC03UnforgeCut removes a forged alias again (only if it still points at
// an entry whose own hash differs, i.e. a forged one).
func (s *Store) VerifC03UnforgeCut(hash uint64) {
	if s == nil || s.nxDomainCuts == nil {
		return
	}
	c := s.nxDomainCuts
	c.mu.Lock()
	if e := c.byHash[hash]; e != nil && e.hash != hash {
		delete(c.byHash, hash)
	}
	c.mu.Unlock()
}

// VerifC03CutAt reports the identity of the cut the wire index holds under hash.
func (s *Store) VerifC03CutAt(hash uint64) (deniedName string, qclass uint16, ok bool) {
	if s == nil || s.nxDomainCuts == nil {
		return "", 0, false
	}
	c := s.nxDomainCuts
	c.mu.RLock()
	defer c.mu.RUnlock()
	e := c.byHash[hash]
	if e == nil {
		return "", 0, false
	}
	return e.deniedName, e.qclass, true
}

// VerifC03EntryIdentity returns the identity an answer-cache entry carries.
func VerifC03EntryIdentity(e *CacheEntry) (q dns.Question, cd bool, scope string) {
	if e == nil {
		return dns.Question{}, false, ""
	}
	if e.scope.IsValid() {
		scope = e.scope.String()
	}
	return e.question, e.cd, scope
}
