//go:build verif

package cache

// Verification hooks for property C05 (wire fast path vs decoded path).
// Read-only views of the wire-ladder serve counters, plus a reset of the
// process-global per-entry limiter pools that may only be called while NO
// cache instance is live (between two sequential Stack lifetimes): it makes a
// freshly built pipeline start with full token buckets exactly as a fresh
// process would, and changes nothing for a running one.

// VerifC05WireCounters returns the current values of the cache's wire
// fast-path outcome counters (process-global, monotonic — take deltas).
func VerifC05WireCounters() map[string]int64 {
	return map[string]int64{
		"served":         wireFastServed.Value(),
		"fallback":       wireFastFallback.Value(),
		"skip_internal":  wireSkipInternal.Value(),
		"skip_entry":     wireSkipEntry.Value(),
		"skip_writer":    wireSkipWriter.Value(),
		"skip_dnssec":    wireSkipDNSSEC.Value(),
		"skip_size":      wireSkipSize.Value(),
		"skip_build":     wireSkipBuild.Value(),
		"skip_chase":     wireSkipChase.Value(),
		"chase_served":   wireChaseServed.Value(),
		"cut_served":     wireCutServed.Value(),
		"failure_served": wireFailureServed.Value(),
	}
}

// VerifC05ResetEntryLimiters forgets the shared per-entry rate limiter pools
// (package-global, keyed by the configured rate). Entries look their limiter
// up by (rate, key) on every use, so nothing holds a stale pointer. Call only
// at a quiescent point with no live cache.
func VerifC05ResetEntryLimiters() {
	poolsMu.Lock()
	rateLimiterPools = make(map[int]*sharedRateLimiterPool)
	poolsMu.Unlock()
}

// VerifC05PrefetchBusy reports whether a prefetch refresh is queued or being
// processed: the queue depth plus the number of live entries whose prefetch
// claim is currently held (the claim is released when the worker finishes).
func (c *Cache) VerifC05PrefetchBusy() int {
	if c == nil || c.prefetchQueue == nil {
		return 0
	}
	n := len(c.prefetchQueue.items)
	c.store.ForEach(func(_ bool, _ uint64, e *CacheEntry) bool {
		if e.prefetch.Load() {
			n++
		}
		return true
	})
	return n
}

// VerifC05LiveSizes counts the answer-cache entries a query can still be
// served from (not expired), positive and negative. Stats()'s *_size counts
// include entries that ran out but were not looked up since (eviction is lazy:
// a lookup that finds an expired entry deletes it), so those sizes depend on
// which expired entries happened to be touched — not on what is cached.
// Read-only; call at a quiescent point.
func (c *Cache) VerifC05LiveSizes() (positive, negative int64) {
	if c == nil || c.store == nil {
		return 0, 0
	}
	c.store.ForEach(func(pos bool, _ uint64, e *CacheEntry) bool {
		if e == nil || e.IsExpired() {
			return true
		}
		if pos {
			positive++
		} else {
			negative++
		}
		return true
	})
	return positive, negative
}
