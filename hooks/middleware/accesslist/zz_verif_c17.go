//go:build verif

package accesslist

// Overlay hook for /verif/harness/c17 (never compiled without -tags verif):
// read-only view of the package's "denied" counter, so the monitor can tell
// that a socket probe from a denied source was actually seen and refused by
// the access list (server-side confirmation; no wall-clock inference).
// Changes no behaviour.

// VerifC17Denied returns the live value of dns_accesslist_denied_total
// (process-global, monotonic).
func VerifC17Denied() int64 { return accessDenied.Value() }
