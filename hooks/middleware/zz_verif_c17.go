//go:build verif

package middleware

// Overlay hook for /verif/harness/c17 (never compiled without -tags verif):
// read-only view of the handler list of the sub-pipeline behind a Queryer
// built by Setup/autoWire. Changes no behaviour.

// VerifC17QueryerHandlers returns the names of the handlers, in order, an
// internal sub-query dispatched through q traverses; nil when q is not the
// in-tree pipeline queryer.
func VerifC17QueryerHandlers(q Queryer) []string {
	pq, ok := q.(*pipelineQueryer)
	if !ok || pq == nil || pq.sub == nil {
		return nil
	}
	out := make([]string, 0, len(pq.sub.handlers))
	for _, h := range pq.sub.handlers {
		out = append(out, h.Name())
	}
	return out
}
