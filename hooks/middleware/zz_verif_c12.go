//go:build verif

package middleware

import (
	dto "github.com/prometheus/client_model/go"
)

// Overlay hooks for /verif/harness/c12 (never compiled without -tags verif).
// Read-only views of the recursion-firewall metrics that every completed
// request-tree ledger publishes in RecursionWorkLedger.release. They change
// no behaviour.

// VerifC12Reasons lists the exhaustion reasons the ledger publishes.
var VerifC12Reasons = []string{
	"outbound_queries", "internal_queries", "dnskey_candidates",
	"rrset_signature_checks", "signature_checks", "ds_digests",
	"nsec3_hashes", "concurrent_crypto",
}

// VerifC12Exhaustions returns, per reason, how many completed request trees
// crossed that budget so far in this process under mode ("shadow" or
// "enforce"). Live values (not the flushed Prometheus mirror).
func VerifC12Exhaustions(mode string) map[string]int64 {
	out := make(map[string]int64, len(VerifC12Reasons))
	for _, reason := range VerifC12Reasons {
		out[reason] = recursionFirewallExhaustions.WithLabelValues(reason, mode).Value()
	}
	return out
}

// VerifC12Fanout returns how many request-tree ledgers have been published so
// far in this process and the sum of their accepted (enforce) or observed
// (shadow) outbound-attempt debits.
func VerifC12Fanout() (trees uint64, outboundDebits float64) {
	var m dto.Metric
	if err := recursionFanoutRatio.Write(&m); err != nil || m.Histogram == nil {
		return 0, 0
	}
	return m.Histogram.GetSampleCount(), m.Histogram.GetSampleSum()
}

// VerifC12DNSSECOps lists the DNSSEC operations whose accepted (enforce) or
// observed (shadow) totals every completed ledger publishes.
var VerifC12DNSSECOps = []string{"signature_checks", "ds_digests", "nsec3_hashes"}

// VerifC12DNSSECWork returns, per operation, the sum over all request-tree
// ledgers published so far in this process under mode of the DNSSEC
// operations they accounted. Live values.
func VerifC12DNSSECWork(mode string) map[string]int64 {
	out := make(map[string]int64, len(VerifC12DNSSECOps))
	for _, op := range VerifC12DNSSECOps {
		out[op] = dnssecWorkTotal.WithLabelValues(op, mode).Value()
	}
	return out
}
