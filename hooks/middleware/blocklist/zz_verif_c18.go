//go:build verif

package blocklist

import (
	"reflect"
	"sort"
)

// VerifC18Snapshot returns sorted copies of the three lists exactly as they
// are held in memory: plain entries (keys of m), wildcard entries rendered as
// "*."+suffix (keys of wild) and whitelist entries (keys of w). Read-only.
func (b *BlockList) VerifC18Snapshot() (exact, wild, white []string) {
	b.mu.RLock()
	defer b.mu.RUnlock()
	exact = make([]string, 0, len(b.m))
	for k := range b.m {
		exact = append(exact, k)
	}
	wild = make([]string, 0, len(b.wild))
	for k := range b.wild {
		wild = append(wild, "*."+k)
	}
	white = make([]string, 0, len(b.w))
	for k := range b.w {
		white = append(white, k)
	}
	sort.Strings(exact)
	sort.Strings(wild)
	sort.Strings(white)
	return exact, wild, white
}

// VerifC18PersistState waits for any persist() in flight (persistence is
// synchronous inside the mutating call, serialised by saveMu) and returns the
// newest snapshot version handed out and the newest version that reached disk.
// Read-only. The two counters are read through reflection so that the hook
// keeps compiling whether they are plain integers or sync/atomic values.
func (b *BlockList) VerifC18PersistState() (version, lastPersisted uint64) {
	rv := reflect.ValueOf(b).Elem()
	b.saveMu.Lock()
	lastPersisted = verifC18Uint(rv.FieldByName("lastPersisted"))
	b.saveMu.Unlock()
	b.mu.RLock()
	version = verifC18Uint(rv.FieldByName("version"))
	b.mu.RUnlock()
	return version, lastPersisted
}

func verifC18Uint(v reflect.Value) uint64 {
	if !v.IsValid() {
		return 0
	}
	switch v.Kind() {
	case reflect.Uint, reflect.Uint32, reflect.Uint64:
		return v.Uint()
	case reflect.Int, reflect.Int32, reflect.Int64:
		return uint64(v.Int())
	case reflect.Struct: // sync/atomic.Uint64 and friends keep the value in field "v"
		if f := v.FieldByName("v"); f.IsValid() {
			return verifC18Uint(f)
		}
	}
	return 0
}
