//go:build verif

package wire

// Verification hook for property C15 (read-only view of the pooled pack state).

// VerifC15PoolProbe borrows one state from the packer's pool at a quiescent
// point, reports what a released state still carries and puts it back
// unchanged. used reports whether the buffer was ever packed into (any
// non-zero byte among the first 64), so the caller can tell a recycled
// state from a freshly allocated one. stale names the first field that
// release() should have cleared and did not ("" if the state is clean).
func VerifC15PoolProbe() (used bool, stale string) {
	state := packStatePool.Get().(*packState)
	for _, b := range state.buf[:64] {
		if b != 0 {
			used = true
			break
		}
	}
	switch {
	case state.rr.RR != nil:
		stale = "rr.RR"
	case state.rr.hdr.Name != "" || state.rr.hdr.Rrtype != 0 || state.rr.hdr.Class != 0 ||
		state.rr.hdr.Ttl != 0 || state.rr.hdr.Rdlength != 0:
		stale = "rr.hdr"
	case state.opt.Option != nil || state.opt.Hdr.Name != "" || state.opt.Hdr.Rrtype != 0 ||
		state.opt.Hdr.Class != 0 || state.opt.Hdr.Ttl != 0 || state.opt.Hdr.Rdlength != 0:
		stale = "opt"
	case len(state.compression) != 0:
		stale = "compression"
	}
	packStatePool.Put(state)
	return used, stale
}

// VerifC15PackBufferSize is the pooled buffer size (the handled/declined boundary).
const VerifC15PackBufferSize = packBufferSize
