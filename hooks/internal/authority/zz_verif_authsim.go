//go:build verif

package authority

import "time"

// VerifAdvance subtracts d from every stored delegation's ExpiresAt — the
// virtual clock jumping forward by d. Delegation values are immutable and
// shared with in-flight readers, so each entry is replaced by a shifted copy.
// Call only at a quiescent point.
func (n *Cache) VerifAdvance(d time.Duration) {
	if n == nil || d == 0 {
		return
	}
	type kv struct {
		k uint64
		v *Delegation
	}
	var all []kv
	n.cache.ForEach(func(k uint64, v any) bool {
		if dl, ok := v.(*Delegation); ok && dl != nil {
			all = append(all, kv{k, dl})
		}
		return true
	})
	for _, e := range all {
		nd := &Delegation{Servers: e.v.Servers, DSSet: e.v.DSSet, ExpiresAt: e.v.ExpiresAt.Add(-d)}
		n.cache.CompareAndSwap(e.k, e.v, nd)
	}
}

// VerifLen reports the number of stored delegations (expired ones included).
func (n *Cache) VerifLen() int { return n.cache.Len() }

// VerifExpiries lists key → ExpiresAt for evidence.
func (n *Cache) VerifExpiries() map[uint64]time.Time {
	out := map[uint64]time.Time{}
	n.cache.ForEach(func(k uint64, v any) bool {
		if dl, ok := v.(*Delegation); ok && dl != nil {
			out[k] = dl.ExpiresAt
		}
		return true
	})
	return out
}
