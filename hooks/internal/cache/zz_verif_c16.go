//go:build verif

package cache

// Verification hooks for property C16 (overlay file, never part of /repo).
// Everything here only READS table state, or takes/releases one segment lock on
// behalf of the harness (the "no global lock" monitor). Nothing changes the
// behaviour of any table operation.

// VerifC16Shape describes the slot array of one open-addressing table.
type VerifC16Shape struct {
	Buckets  int  // len(data)
	Occupied int  // slots with a non-zero key
	Wrapped  int  // entries stored at a slot index below their primary index (chain crossed the array end)
	MaxProbe int  // longest displacement from the primary index
	HasZero  bool // out-of-band zero key present
	Size     int  // the table's own size field
}

// VerifC16PrimaryIndex exposes the index function at the table's current mask.
func (m *UInt64Map[V]) VerifC16PrimaryIndex(key uint64) int { return m.primaryIndex(key) }

// VerifC16Buckets is len(data).
func (m *UInt64Map[V]) VerifC16Buckets() int { return len(m.data) }

// VerifC16Shape scans the slot array (caller guarantees no concurrent writer).
func (m *UInt64Map[V]) VerifC16Shape() VerifC16Shape {
	s := VerifC16Shape{Buckets: len(m.data), HasZero: m.hasZeroKey, Size: m.size}
	for i := range m.data {
		k := m.data[i].Key
		if k == 0 {
			continue
		}
		s.Occupied++
		p := m.primaryIndex(k)
		d := i - p
		if d < 0 {
			s.Wrapped++
			d += len(m.data)
		}
		if d > s.MaxProbe {
			s.MaxProbe = d
		}
	}
	return s
}

// VerifC16Stored is the number of stored entries found by walking the slot
// array directly (occupied slots + the zero key), independent of size/count.
func (m *UInt64Map[V]) VerifC16Stored() int {
	n := 0
	if m.hasZeroKey {
		n++
	}
	for i := range m.data {
		if m.data[i].Key != 0 {
			n++
		}
	}
	return n
}

// VerifC16Reachable is the number of stored slots that a lookup of their key
// arrives at: walking the probe sequence from the key's primary index reaches
// this very slot before an empty slot or another slot holding the same key
// (plus the zero key if Get finds it). A ghost (probe chain broken) or a
// duplicate slot is stored but not counted here. Read-only, no allocation.
func (m *UInt64Map[V]) VerifC16Reachable() int {
	n := 0
	if m.hasZeroKey {
		if _, ok := m.Get(0); ok {
			n++
		}
	}
	for i := range m.data {
		k := m.data[i].Key
		if k == 0 {
			continue
		}
		idx := m.primaryIndex(k)
		for step := 0; step < len(m.data); step++ {
			if idx == i {
				if _, ok := m.Get(k); ok {
					n++
				}
				break
			}
			if kk := m.data[idx].Key; kk == 0 || kk == k {
				break
			}
			idx = (idx + 1) & m.mask
		}
	}
	return n
}

// VerifC16SegmentOf is the segment index of key.
func (m *SegmentUInt64Map[V]) VerifC16SegmentOf(key uint64) int { return int(m.getSegmentIndex(key)) }

// VerifC16LockSegment takes the write lock of segment idx exactly as a writer
// would and returns the function releasing it.
func (m *SegmentUInt64Map[V]) VerifC16LockSegment(idx int) (unlock func()) {
	s := m.segments[idx&m.segmentMask]
	s.rwlock.Lock()
	return s.rwlock.Unlock
}

// VerifC16Shape sums the per-segment shapes (each read under that segment's
// read lock) and reports the largest single-segment array.
func (m *SegmentUInt64Map[V]) VerifC16Shape() (sum VerifC16Shape, maxBuckets int) {
	for _, s := range m.segments {
		s.rwlock.RLock()
		sh := s.data.VerifC16Shape()
		s.rwlock.RUnlock()
		sum.Buckets += sh.Buckets
		sum.Occupied += sh.Occupied
		sum.Wrapped += sh.Wrapped
		sum.Size += sh.Size
		if sh.MaxProbe > sum.MaxProbe {
			sum.MaxProbe = sh.MaxProbe
		}
		if sh.HasZero {
			sum.HasZero = true
		}
		if sh.Buckets > maxBuckets {
			maxBuckets = sh.Buckets
		}
	}
	return sum, maxBuckets
}

// VerifC16SegmentShape is the shape of one segment's table.
func (m *SegmentUInt64Map[V]) VerifC16SegmentShape(idx int) VerifC16Shape {
	s := m.segments[idx&m.segmentMask]
	s.rwlock.RLock()
	defer s.rwlock.RUnlock()
	return s.data.VerifC16Shape()
}

// VerifC16PrimaryIndex is the slot index key would have in its segment's table
// at that table's current size.
func (m *SegmentUInt64Map[V]) VerifC16PrimaryIndex(key uint64) int {
	s := m.getSegment(key)
	s.rwlock.RLock()
	defer s.rwlock.RUnlock()
	return s.data.primaryIndex(key)
}

// VerifC16Stored / VerifC16Reachable: see the UInt64Map methods; summed over
// segments, each under its read lock.
func (m *SegmentUInt64Map[V]) VerifC16Stored() int {
	n := 0
	for _, s := range m.segments {
		s.rwlock.RLock()
		n += s.data.VerifC16Stored()
		s.rwlock.RUnlock()
	}
	return n
}

func (m *SegmentUInt64Map[V]) VerifC16Reachable() int {
	n := 0
	for _, s := range m.segments {
		s.rwlock.RLock()
		n += s.data.VerifC16Reachable()
		s.rwlock.RUnlock()
	}
	return n
}

// VerifC16Inner exposes the wrapped segmented map.
func (m *SyncUInt64Map[V]) VerifC16Inner() *SegmentUInt64Map[V] { return m.data }

// VerifC16Inner exposes the table behind a Cache.
func (c *Cache) VerifC16Inner() *SegmentUInt64Map[any] { return c.data.data }

// VerifC16Capacity is the configured capacity.
func (c *Cache) VerifC16Capacity() int64 { return c.maxSize }

// VerifC16SegmentOf is the segment index of key.
func (c *Cache) VerifC16SegmentOf(key uint64) int { return c.data.data.VerifC16SegmentOf(key) }

// VerifC16LockSegment write-locks the segment of key; the result unlocks it.
func (c *Cache) VerifC16LockSegment(key uint64) (unlock func()) {
	return c.data.data.VerifC16LockSegment(c.data.data.VerifC16SegmentOf(key))
}

// VerifC16Reachable is the number of distinct stored keys Get can find.
func (c *Cache) VerifC16Reachable() int { return c.data.data.VerifC16Reachable() }

// VerifC16Stored is the number of stored slots (+ zero keys).
func (c *Cache) VerifC16Stored() int { return c.data.data.VerifC16Stored() }
