//go:build verif

package server

// Overlay hook for /verif C10 (never compiled without -tags verif).
// Read-only views of the owned engines' admission state, so the C10 monitor
// can state as an OBSERVATION (not an inference from configuration) that
// slabs were reused and that its workload ran against the bounds it asked
// for. Nothing here changes behaviour.

import (
	"sync"
	"sync/atomic"
)

// VerifC10EngineStats is a snapshot of one Server's owned engines.
type VerifC10EngineStats struct {
	// UDP engine
	UDPSockets  int   // reuseport sockets (= batch readers)
	UDPWorkers  int   // fixed pool size
	UDPQueue    int   // ready-queue depth
	UDPSlabCap  int64 // admission cap: most slabs that can exist at once
	UDPLeased   int64 // slabs leased right now (readers' armed holdovers included)
	UDPInFlight int64 // slabs between enqueue/inline-serve and release
	UDPParked   int   // scrubbed slabs waiting in the idle cache
	UDPInline   bool  // the reader fast path is armed
	UDPBatched  bool  // send handles resolved (recvmmsg/sendmmsg path armed)

	// TCP and DoT engines (index 0 = "tcp", 1 = "tls" when configured)
	Stream []VerifC10StreamStats
}

// VerifC10StreamStats is one tcpEngine.
type VerifC10StreamStats struct {
	Proto       string
	MaxConns    int64
	Active      int64
	SmallTokens int // capacity of the small class
	SmallFree   int
	LargeTokens int
	LargeFree   int
	SmallParked int
	LargeParked int
	// StreamAllocs is how many per-connection framing buffers (tcpStream) the
	// engine's pool had to allocate since VerifC10CountStreamAllocs was called
	// on the server (-1: not counting). Every served connection takes exactly
	// one stream from that pool, so (connections served) - StreamAllocs is a
	// lower bound of the connections that ran on a RECYCLED stream.
	StreamAllocs int64
}

// verifC10StreamAllocs maps *tcpEngine to its allocation counter.
var verifC10StreamAllocs sync.Map

// VerifC10CountStreamAllocs makes the tcpStream pools of s count their
// allocations. The pool's New function is replaced by one that does exactly
// what the engine's own does (new(tcpStream)) and increments a counter. It
// must be called after Run and BEFORE the first connection is dialled: the
// assignment is made under the engine lock, which every connection passes
// (register) before its goroutine touches the pool, so it is ordered before
// every pool access.
func VerifC10CountStreamAllocs(s *Server) {
	s.listenersMu.Lock()
	ls := append([]Listener(nil), s.listeners...)
	s.listenersMu.Unlock()
	for _, l := range ls {
		var e *tcpEngine
		switch v := l.(type) {
		case *tcpListener:
			v.mu.Lock()
			e = v.engine
			v.mu.Unlock()
		case *tlsListener:
			v.mu.Lock()
			e = v.engine
			v.mu.Unlock()
		}
		if e == nil {
			continue
		}
		if _, done := verifC10StreamAllocs.Load(e); done {
			continue
		}
		ctr := new(atomic.Int64)
		e.mu.Lock()
		e.streams.New = func() any {
			ctr.Add(1)
			return new(tcpStream)
		}
		e.mu.Unlock()
		verifC10StreamAllocs.Store(e, ctr)
	}
}

// VerifC10Stats reads the engines of s. Safe to call at any time after Run.
func VerifC10Stats(s *Server) VerifC10EngineStats {
	var out VerifC10EngineStats
	s.listenersMu.Lock()
	ls := append([]Listener(nil), s.listeners...)
	s.listenersMu.Unlock()
	for _, l := range ls {
		switch v := l.(type) {
		case *udpListener:
			v.mu.Lock()
			e := v.engine
			v.mu.Unlock()
			if e == nil {
				continue
			}
			out.UDPSockets = len(e.pcs)
			out.UDPWorkers = e.workers
			out.UDPQueue = cap(e.ready)
			out.UDPSlabCap = e.slabCap
			out.UDPLeased = e.leased.Load()
			out.UDPInFlight = e.inFlight.Load()
			out.UDPParked = e.cache.size()
			out.UDPInline = e.inline != nil
			out.UDPBatched = e.txConns != nil
		case *tcpListener:
			v.mu.Lock()
			e := v.engine
			v.mu.Unlock()
			if e != nil {
				out.Stream = append(out.Stream, verifC10Stream(e))
			}
		case *tlsListener:
			v.mu.Lock()
			e := v.engine
			v.mu.Unlock()
			if e != nil {
				out.Stream = append(out.Stream, verifC10Stream(e))
			}
		}
	}
	return out
}

func verifC10Stream(e *tcpEngine) VerifC10StreamStats {
	allocs := int64(-1)
	if c, ok := verifC10StreamAllocs.Load(e); ok {
		allocs = c.(*atomic.Int64).Load()
	}
	return VerifC10StreamStats{
		StreamAllocs: allocs,
		Proto:       e.proto,
		MaxConns:    e.maxConns,
		Active:      e.active.Load(),
		SmallTokens: cap(e.smallTokens),
		SmallFree:   len(e.smallTokens),
		LargeTokens: cap(e.largeTokens),
		LargeFree:   len(e.largeTokens),
		SmallParked: e.smallCache.size(),
		LargeParked: e.largeCache.size(),
	}
}

// Sizes of the per-connection stream buffers (tcp_stream.go), read by the C10
// drain-boundary sweep so its bursts follow the tree's own constants.
const (
	VerifC10StreamDrainSize = tcpDrainSize
	VerifC10StreamFillSize  = tcpFillSize
)
