//go:build verif

package server

// Overlay hook for /verif (never compiled without -tags verif): an exported
// twin of the tests' strictTestJob so harnesses outside package server can
// drive Server.ServeRaw / ServeRawInline / ServeRawReplay through the exact
// strict-slot path the owned UDP/TCP jobs use, with an arbitrary client
// address, and read-only access to the package's ingress counters.
// Nothing here changes behaviour of existing code.

import (
	"net"

	"github.com/miekg/dns"

	"github.com/semihalev/sdns/internal/dnsclient"
	"github.com/semihalev/sdns/internal/wire"
	"github.com/semihalev/sdns/middleware"
	"github.com/semihalev/sdns/middleware/edns"
)

// VerifStrictJob is a middleware.Transport that offers the strict-path job
// slots (StrictSlots), the body lease (LeaseWire) and the staged-flush hook,
// exactly like udpJob / tcpJob. The flavour follows the type of Remote:
// *net.UDPAddr → "udp" (4096-byte slab, like udpJobBufSize), *net.TCPAddr →
// "tcp" (65535-byte frame limit, lease region like the large class).
//
// A job must be used by one goroutine at a time (as the real jobs are). It
// may be reused for any number of requests; call ResetCapture between them.
type VerifStrictJob struct {
	Remote net.Addr // *net.UDPAddr or *net.TCPAddr (required)
	Local  net.Addr // optional; defaults to 127.0.0.1:53 of the same flavour

	// Writes holds a private copy of every Write the pipeline performed
	// (a correct pipeline writes at most once per request).
	Writes [][]byte
	// WriteErrs counts Write calls refused because the payload exceeded the
	// transport's frame limit (dnsclient.ErrFrameTooLarge on the real jobs).
	WriteErrs int
	// Flushes counts FlushStaged calls (strict-path detach points).
	Flushes int
	// Leases counts LeaseWire calls that were granted.
	Leases int

	tx []byte

	req        middleware.Request
	chain      middleware.Chain
	carrier    jobCarrier
	ednsWriter edns.ResponseWriter
}

// VerifNewStrictJob returns a job whose client is remote.
func VerifNewStrictJob(remote net.Addr) *VerifStrictJob {
	return &VerifStrictJob{Remote: remote}
}

func (j *VerifStrictJob) isTCP() bool {
	_, ok := j.Remote.(*net.TCPAddr)
	return ok
}

func (j *VerifStrictJob) limit() int {
	if j.isTCP() {
		return tcpJobBufSize
	}
	return udpJobBufSize
}

func (j *VerifStrictJob) buf() []byte {
	if j.tx == nil {
		n := j.limit()
		if j.isTCP() {
			n += dnsclient.FramePrefixLen
		}
		j.tx = make([]byte, n)
	}
	return j.tx
}

// ResetCapture forgets recorded writes (the strict slots are reset by the
// server itself on every serve).
func (j *VerifStrictJob) ResetCapture() {
	j.Writes = nil
	j.WriteErrs = 0
	j.Flushes = 0
	j.Leases = 0
}

// Last returns the last recorded write, or nil.
func (j *VerifStrictJob) Last() []byte {
	if len(j.Writes) == 0 {
		return nil
	}
	return j.Writes[len(j.Writes)-1]
}

// VerifUsedStrict reports whether the last serve parsed the packet into the
// job's strict slots (i.e. took the wire-born branch rather than the decoded
// fallback).
func (j *VerifStrictJob) VerifUsedStrict() bool { return j.req.Raw() != nil }

// LeaseWire mirrors the real jobs' body lease.
func (j *VerifStrictJob) LeaseWire(capacity int) []byte {
	b := j.buf()
	if j.isTCP() {
		// tcpJob: payload region behind the frame-prefix headroom.
		if capacity > len(b)-dnsclient.FramePrefixLen {
			return nil
		}
		j.Leases++
		return b[dnsclient.FramePrefixLen:dnsclient.FramePrefixLen]
	}
	if capacity > len(b) {
		return nil
	}
	j.Leases++
	return b[:0]
}

func (j *VerifStrictJob) LocalAddr() net.Addr {
	if j.Local != nil {
		return j.Local
	}
	if j.isTCP() {
		return &net.TCPAddr{IP: net.IPv4(127, 0, 0, 1), Port: 53}
	}
	return &net.UDPAddr{IP: net.IPv4(127, 0, 0, 1), Port: 53}
}

func (j *VerifStrictJob) RemoteAddr() net.Addr { return j.Remote }
func (j *VerifStrictJob) Close() error         { return nil }

func (j *VerifStrictJob) Write(b []byte) (int, error) {
	if len(b) > j.limit() {
		j.WriteErrs++
		return 0, errVerifFrameTooLarge
	}
	j.Writes = append(j.Writes, append([]byte(nil), b...))
	return len(b), nil
}

func (j *VerifStrictJob) WriteMsg(m *dns.Msg) error {
	out, err := m.PackBuffer(j.buf())
	if err != nil {
		return err
	}
	_, err = j.Write(out)
	return err
}

// FlushStaged satisfies middleware.StagedFlusher like the real jobs.
func (j *VerifStrictJob) FlushStaged() { j.Flushes++ }

func (j *VerifStrictJob) StrictSlots() (*middleware.Request, *middleware.Chain, *jobCarrier, *edns.ResponseWriter) {
	return &j.req, &j.chain, &j.carrier, &j.ednsWriter
}

type verifErr string

func (e verifErr) Error() string { return string(e) }

const errVerifFrameTooLarge = verifErr("verif strict job: frame exceeds transport limit")

var (
	_ strictSlots                    = (*VerifStrictJob)(nil)
	_ middleware.Transport           = (*VerifStrictJob)(nil)
	_ middleware.StagedFlusher       = (*VerifStrictJob)(nil)
	_ middleware.WireTransportLeaser = (*VerifStrictJob)(nil)
)

// VerifAcceptHeader exposes the engines' header-level accept verdict for a
// raw packet: "ok", "ignore", "notimp", "formerr", or "malformed" when the
// 12-byte header cannot be parsed. Read-only.
func VerifAcceptHeader(pkt []byte) string {
	h, ok := wire.ParseHeader(pkt)
	if !ok {
		return "malformed"
	}
	switch acceptHeader(h) {
	case acceptOK:
		return "ok"
	case acceptIgnore:
		return "ignore"
	case acceptNotImplemented:
		return "notimp"
	case acceptFormatError:
		return "formerr"
	}
	return "unknown"
}

// VerifCounters returns the current values of the package's unexported
// ingress counters (names: udp_drop_<reason>, udp_overflow_served,
// udp_inline_served, udp_inline_handoff, tcp_drop_<reason>).
func VerifCounters() map[string]int64 {
	return map[string]int64{
		"udp_drop_full":       udpDropFull.Value(),
		"udp_drop_trunc":      udpDropTrunc.Value(),
		"udp_drop_ctrunc":     udpDropCtrunc.Value(),
		"udp_drop_malformed":  udpDropMalformed.Value(),
		"udp_drop_ignored":    udpDropIgnored.Value(),
		"udp_drop_error":      udpDropError.Value(),
		"udp_drop_panic":      udpDropPanic.Value(),
		"udp_drop_tx_error":   udpTXError.Value(),
		"udp_overflow_served": udpOverflowServed.Value(),
		"udp_inline_served":   udpInlineServed.Value(),
		"udp_inline_handoff":  udpInlineHandoff.Value(),
		"tcp_drop_conncap":    tcpDropConnCap.Value(),
		"tcp_drop_ignored":    tcpDropIgnored.Value(),
		"tcp_drop_panic":      tcpDropPanic.Value(),
		"tcp_drop_jobwait":    tcpDropJobWait.Value(),
	}
}
