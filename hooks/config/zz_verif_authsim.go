//go:build verif

package config

import "fmt"

// VerifDefaultConfigText returns the text of the configuration file sdns
// generates on first start, so a harness can load production defaults.
func VerifDefaultConfigText() string { return fmt.Sprintf(defaultConfig, configver) }
