package main

// Scenario shed-nsaddr-multi: scenario shed-nsaddr (load shedding that strikes
// a REQUIRED SUB-LOOKUP: the address of a glue-less name server) generalised
// to delegations with TWO OR MORE glue-less NS hosts living in different
// helper zones, so that each host's address lookup can be shed (its helper
// zone is at the per-zone in-flight quota: 16 lookups parked at a gated
// authority) or fail for real (the helper zone answers SERVFAIL / REFUSED for
// the host name, or the host does not exist: NXDOMAIN) independently, in both
// orders of the resolver's host walk (closest suffix first, then
// alphabetical — the hosts are named a-…, b-…, c-… and share only "test."
// with the delegated zone, so the prefix decides):
//
//	(i)   an EARLIER host is shed, a LATER host fails for real
//	(ii)  an EARLIER host fails for real, a LATER host is shed
//	(iii) every host is shed
//	(iv)  every host fails for real                     (control)
//
// No address is learned in any of them. A shared zone failure for the
// delegated zone (and EDE 13 for other clients' names under it) is legal only
// in (iv): in (i)-(iii) at least one server of the zone was never tried
// because of THIS request's local shed, so nothing may be recorded for the
// delegated zone and the follow-up clients must reach its authority.
//
// What happened is established from observations, never from timing: the
// quota of every helper zone to be shed was full before the victim started
// and still full after it returned (the gates open only afterwards); the
// victim fetched the referral; no packet for a shed host left the resolver;
// every really-failing host's helper authority was asked and answered the
// scripted failure; no packet reached the delegated zone's own server; the
// victim got SERVFAIL.

import (
	"fmt"
	"net"
	"strings"
	"time"

	"github.com/miekg/dns"
	"github.com/semihalev/sdns/zzverif/authsim"
	zm "github.com/semihalev/sdns/zzverif/zonemodel"
)

type nsHost struct {
	name   string
	helper string // apex of the zone the host name lives in
	kind   string // shed | rcode | nx
}

type nsRound struct {
	class string // i | ii | iii | iv
	apex  string
	hosts []nsHost // in the resolver's walk order
	gs    *authsim.Server
}

// buildNSMulti adds the helper zones and one delegated zone per round.
func (f *fullRun) buildNSMulti(tld *zm.Zone) {
	helper := func(apex, mode string) *fullZone {
		s := f.u.AddServer(strings.TrimSuffix(apex, ".test."))
		z := f.u.AddZone(zm.Spec{Apex: apex}, s)
		f.u.Delegate(tld, z, authsim.DelegOpts{})
		for i := 0; i < 4; i++ {
			z.AddMarked(fmt.Sprintf("h%d.%s", i, apex), dns.TypeA, 300)
		}
		fz := &fullZone{apex: apex, servers: []*authsim.Server{s}, zone: z, mode: mode}
		f.zones[apex] = fz
		return fz
	}
	// ha / hb: healthy zones that can be put at their in-flight quota;
	// hn: healthy, the hosts named in it do not exist;
	// hf1..hf3: answer a failure rcode for the host names (and thereby, as far
	// as the resolver can tell, fail as zones: mode perq)
	helper("ha.test.", "honest")
	helper("hb.test.", "honest")
	helper("hn.test.", "honest")
	for i := 1; i <= 3; i++ {
		helper(fmt.Sprintf("hf%d.test.", i), "perq")
	}
	plans := []struct {
		class string
		hosts []nsHost
	}{
		{"i", []nsHost{{helper: "ha.test.", kind: "shed"}, {helper: "hf1.test.", kind: "rcode"}}},
		{"ii", []nsHost{{helper: "hn.test.", kind: "nx"}, {helper: "hb.test.", kind: "shed"}}},
		{"iii", []nsHost{{helper: "ha.test.", kind: "shed"}, {helper: "hb.test.", kind: "shed"}}},
		{"i", []nsHost{{helper: "hb.test.", kind: "shed"}, {helper: "hn.test.", kind: "nx"}, {helper: "hf2.test.", kind: "rcode"}}},
		{"ii", []nsHost{{helper: "hn.test.", kind: "nx"}, {helper: "ha.test.", kind: "shed"}, {helper: "hb.test.", kind: "shed"}}},
		{"iv", []nsHost{{helper: "hf3.test.", kind: "rcode"}, {helper: "hn.test.", kind: "nx"}}},
	}
	for ri, p := range plans {
		apex := fmt.Sprintf("gm%d.test.", ri+1)
		gs := f.u.AddServer(fmt.Sprintf("gm%d", ri+1))
		var names []string
		var ns []zm.NSHost
		for hi := range p.hosts {
			h := &p.hosts[hi]
			h.name = fmt.Sprintf("%c-ns%d.%s", 'a'+hi, ri+1, h.helper)
			names = append(names, h.name)
			ns = append(ns, zm.NSHost{Name: h.name}) // no glue
			if h.kind != "nx" {
				for _, a := range gs.Addrs {
					f.zones[h.helper].zone.AddAddr(h.name, net.IP(a.AsSlice()), 300)
				}
			}
		}
		z := f.u.AddZone(zm.Spec{Apex: apex, NSHosts: names}, gs)
		f.u.Delegate(tld, z, authsim.DelegOpts{NS: ns})
		for i := 0; i < 4; i++ {
			z.AddMarked(fmt.Sprintf("h%d.%s", i, apex), dns.TypeA, 300)
		}
		f.zones[apex] = &fullZone{apex: apex, servers: []*authsim.Server{gs}, zone: z, mode: "honest"}
		f.nsr = append(f.nsr, &nsRound{class: p.class, apex: apex, hosts: p.hosts, gs: gs})
	}
}

func (f *fullRun) scenarioShedNSAddrMulti() {
	f.warm()
	// the helper zones' delegations are known to the resolver (like ok.test.
	// in scenario shed-nsaddr)
	for _, apex := range []string{"ha.test.", "hb.test.", "hn.test."} {
		f.Q("warm", f.client(), "h0."+apex, dns.TypeA, false, qmods{})
	}
	order := append([]*nsRound(nil), f.nsr...)
	f.rng.Shuffle(len(order), func(i, j int) { order[i], order[j] = order[j], order[i] })
	for _, rd := range order {
		if f.dead {
			return
		}
		f.nsRoundRun(rd)
	}
}

func (f *fullRun) nsRoundRun(rd *nsRound) {
	const hold = 16
	const cause = "shed-ns-address"
	r := f.r
	rc := []int{dns.RcodeServerFailure, dns.RcodeRefused}[f.rng.IntN(2)]
	shape := ""
	for _, h := range rd.hosts {
		shape += h.kind + ","
		if h.kind == "rcode" {
			for _, s := range f.zones[h.helper].servers {
				s.On(h.name, 0, authsim.Rcode(rc))
			}
		}
	}
	r.Count("full_nsmulti_rounds", 1)
	r.Count("full_nsmulti_rounds_class_"+rd.class, 1)
	victim := "h0." + rd.apex

	if rd.class == "iv" {
		// control: every host fails for real -> "no reachable authority" is a
		// fact about the delegation; the zone failure is legitimate
		z := f.zones[rd.apex]
		z.mode = "nsdead"
		f.failed[rd.apex] = true
		o := f.Q("zone-fail", f.client(), victim, dns.TypeA, false, qmods{})
		zoneState := false
		for _, e := range f.rs.Cache().VerifC13Failures() {
			if e.Kind == "zone" && canon(e.Name) == rd.apex {
				zoneState = true
			}
		}
		if o.HasReply && o.Rcode == dns.RcodeServerFailure && o.Packets > 0 {
			r.Count("full_nsmulti_control_failed", 1)
			if zoneState {
				r.Count("full_nsmulti_control_zone_failure_recorded", 1)
			}
		}
		o2 := f.Q("zone-descendant", f.client(), "h1."+rd.apex, dns.TypeA, false, qmods{})
		if o2.Suppressed {
			r.Count("full_nsmulti_control_descendant_suppressed", 1)
		}
		return
	}

	// park `hold` resolutions at the gated authority of every helper zone whose host is to be shed
	type park struct {
		apex string
		g    *authsim.Gate
		srv  *authsim.Server
	}
	var parks []*park
	seen := map[string]bool{}
	for _, h := range rd.hosts {
		if h.kind == "shed" && !seen[h.helper] {
			seen[h.helper] = true
			parks = append(parks, &park{apex: h.helper, g: authsim.NewGate(), srv: f.zones[h.helper].servers[0]})
		}
	}
	total := 0
	results := make(chan int, hold*len(parks))
	for _, p := range parks {
		for i := 0; i < hold; i++ {
			hn := f.fresh(p.apex)
			p.srv.On(hn, 0, authsim.Honest().Gated(p.g))
			cl := f.client()
			total++
			go func() {
				q := new(dns.Msg)
				q.SetQuestion(hn, dns.TypeA)
				q.SetEdns0(1232, false)
				m := f.rs.Query(cl, q)
				rcode := -1
				if m != nil {
					rcode = m.Rcode
				}
				results <- rcode
			}()
		}
	}
	slots := func() int {
		_, resolution, _, _ := f.rs.Handler.VerifSlots()
		return resolution
	}
	full := func() bool {
		if slots() < total {
			return false
		}
		for _, p := range parks {
			if p.g.Waiting() < hold {
				return false
			}
		}
		return true
	}
	formed := false
	deadline := time.Now().Add(10 * time.Second)
	for time.Now().Before(deadline) {
		if full() {
			formed = true
			break
		}
		time.Sleep(500 * time.Microsecond)
	}
	struck := false
	if formed {
		r.Count("full_nsmulti_barriers_formed", 1)
		// everything the shed sub-lookups could (wrongly) leave behind
		f.zlocals[rd.apex] = cause
		for _, h := range rd.hosts {
			if h.kind == "shed" {
				for _, cd := range []bool{false, true} {
					f.locals[f.key(h.name, dns.TypeA, cd)] = cause
					f.locals[f.key(h.name, dns.TypeAAAA, cd)] = cause
				}
			}
		}
		from := f.u.Log.Len()
		out := f.qNoQuiesce("local-"+cause, f.client(), victim, dns.TypeA, cause)
		// authsim notes a packet's outcome AFTER sending the reply: give its
		// server goroutines a moment to finish the bookkeeping of what the
		// resolver has already received (decides only whether the round counts)
		for settle := time.Now().Add(2 * time.Second); time.Now().Before(settle); time.Sleep(200 * time.Microsecond) {
			pending := false
			for _, p := range f.u.Log.Since(from) {
				for _, h := range rd.hosts {
					if p.QNameL == h.name && p.Outcome == "" {
						pending = true
					}
				}
			}
			if !pending {
				break
			}
		}
		referral, toZone := 0, 0
		perHost := map[string]int{}
		failedAs := map[string]bool{}
		for _, p := range f.u.Log.Since(from) {
			if dns.IsSubDomain(rd.apex, p.QNameL) && p.Server == "tld" {
				referral++
			}
			if p.Server == rd.gs.Name {
				toZone++
			}
			for _, h := range rd.hosts {
				if p.QNameL != h.name {
					continue
				}
				perHost[h.name]++
				switch h.kind {
				case "rcode":
					if p.Outcome == "answered:"+dns.RcodeToString[rc] {
						failedAs[h.name] = true
					}
				case "nx":
					if p.Outcome == "answered:NXDOMAIN" {
						failedAs[h.name] = true
					}
				}
			}
		}
		ok := full() && referral > 0 && toZone == 0 && out.HasReply && out.Rcode == dns.RcodeServerFailure
		for _, h := range rd.hosts {
			if h.kind == "shed" {
				ok = ok && perHost[h.name] == 0
			} else {
				ok = ok && failedAs[h.name]
			}
		}
		struck = ok
		if struck {
			r.Count("full_nsmulti_struck", 1)
			r.Count("full_nsmulti_struck_class_"+rd.class, 1)
			r.Distinct("full-nsmulti|" + rd.class + "|" + shape + dns.RcodeToString[rc])
			f.c.Ops[len(f.c.Ops)-1].Got += fmt.Sprintf(" class=(%s) hosts_in_walk_order=%v referral_packets=%d packets_per_host=%v really_failed=%v packets_to_delegated_zone=%d quotas_full_throughout=true",
				rd.class, rd.hosts, referral, perHost, failedAs, toZone)
		} else {
			// answered, or failed for another reason: nothing request-local happened
			delete(f.m.local, f.key(victim, dns.TypeA, false))
			delete(f.locals, f.key(victim, dns.TypeA, false))
			delete(f.zlocals, rd.apex)
			for _, h := range rd.hosts {
				for _, cd := range []bool{false, true} {
					delete(f.locals, f.key(h.name, dns.TypeA, cd))
					delete(f.locals, f.key(h.name, dns.TypeAAAA, cd))
				}
			}
			r.Count("full_nsmulti_victim_not_struck", 1)
			f.c.Ops[len(f.c.Ops)-1].Got += fmt.Sprintf(" NOT-STRUCK class=(%s) referral_packets=%d packets_per_host=%v really_failed=%v packets_to_delegated_zone=%d quotas_full=%v",
				rd.class, referral, perHost, failedAs, toZone, full())
		}
	} else {
		r.Count("full_nsmulti_barrier_not_formed", 1)
	}
	for _, p := range parks {
		p.g.Release()
	}
	for i := 0; i < total; i++ {
		<-results
	}
	for _, p := range parks {
		p.srv.ClearScript(false)
	}
	if !f.rs.Quiesce(15 * time.Second) {
		r.Inconclusive(fmt.Sprintf("full case %d: pipeline did not quiesce after the NS-address shed round (%s)", f.c.Index, rd.apex))
		f.dead = true
		return
	}
	if !struck {
		return
	}
	// white box: nothing about the delegated zone (zone or question) may be retained
	f.checkState(len(f.c.Ops)-1, "after-shed-ns-address-multi")
	zoneState := false
	for _, e := range f.rs.Cache().VerifC13Failures() {
		if e.Kind == "zone" && canon(e.Name) == rd.apex {
			zoneState = true
		}
	}
	if !zoneState {
		r.Count("full_nsmulti_no_zone_state", 1)
		r.Count("full_nsmulti_no_zone_state_class_"+rd.class, 1)
	}
	// black box: other clients, the load is gone — a sibling name first (only
	// zone-wide state could cover it), then the victim's own question
	sib := "h1." + rd.apex
	f.m.local[f.key(sib, dns.TypeA, false)] = cause
	o1 := f.Q("local-followup-sibling", f.client(), sib, dns.TypeA, false, qmods{})
	o2 := f.Q("local-followup", f.client(), victim, dns.TypeA, false, qmods{})
	for _, o := range []fout{o1, o2} {
		if o.Packets > 0 && o.HasReply && o.Rcode == dns.RcodeSuccess && !o.EDE13 {
			r.Count("full_nsmulti_followup_resolved", 1)
		}
	}
}
