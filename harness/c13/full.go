package main

// Part (iii) + the pipeline-level half of part (ii): the REAL resolver behind
// the production chain, resolving against scripted authorities (authsim).
//
//	zone failure   recorded only for a zone EVERY one of whose servers failed
//	               (REFUSED / SERVFAIL / no reply): names under it may be
//	               suppressed; siblings, look-alike labels, the parent zone and
//	               a zone one of whose servers still answers must not be;
//	envelope       a probe placed after r1 + bound(k) + eps reaches the
//	               authorities (packet log);
//	reset          authorities recover -> a useful answer -> nothing suppressed;
//	local causes   client cancel / deadline at a gated authority, load shedding
//	               (global in-flight capacity, per-zone quota), enforce-mode work
//	               budget: a DIFFERENT client asking afterwards reaches the
//	               authorities, gets no EDE 13, and nothing was recorded;
//	               the same shedding striking a REQUIRED SUB-LOOKUP (the address
//	               of the only, glue-less name server of a delegation, whose
//	               host lives in a zone at its in-flight quota): nothing may be
//	               recorded for the delegated zone, other clients resolve it;
//	kill switch    rfc9520=false: every query reaches the authorities, nothing
//	               is recorded.
//	lame           (full_ext.go) zones with 2..6 server addresses, k failing
//	               (rcode / silent), h healthy, the healthy reply held back
//	               until every failure reply was sent: zone failure only if h = 0;
//	cdfail         (full_ext.go) question failures from resolver errors that
//	               are no zone failures (unusable referrals, max depth, DS
//	               mismatch), dnssec on and off: filed under, and suppressing,
//	               exactly the CD value that failed;
//	shed-nsaddr-multi (full_nsmulti.go) shed-nsaddr with >= 2 glue-less NS
//	               hosts: shed and really failing address lookups in both
//	               walk orders; zone failure only if every host really failed.
//
// "Went upstream" = at least one packet in the authsim packet log during the
// request. "Suppressed" = SERVFAIL reply with zero packets.
//
// Load robustness. The only wall-clock element of the real resolver that can
// turn an honest authority into a failed one is its upstream timeout (1 s). A
// request that lasted less than that cannot contain an expired timeout, so its
// observed failures are exactly the scripted ones. For a request that lasted
// longer, every zone whose HONEST server received a packet during it is marked
// tainted and no longer carries must-reach demands (counted, never judged).
// Requests to all-dead zones are slow by construction; they are issued only
// with the delegation already cached, so the slow request touches dead servers
// only.

import (
	"context"
	"fmt"
	"math/rand/v2"
	"net"
	"os"
	"strings"
	"time"

	"github.com/miekg/dns"
	"github.com/semihalev/sdns/config"
	"github.com/semihalev/sdns/zzverif/authsim"
	"github.com/semihalev/sdns/zzverif/vlib"
	zm "github.com/semihalev/sdns/zzverif/zonemodel"
)

type fullSpec struct {
	Scenario string `json:"scenario"` // zones | dead | client | shed-global | shed-zone | enforce | killswitch | enrich | shed-nsaddr | lame | cdfail | shed-nsaddr-multi
	MinMS    int64  `json:"min_ms"`   // 0 = default
	MaxMS    int64  `json:"max_ms"`
	Half     string `json:"half"`             // behaviour of the failing server of the partly-alive zone: refused | servfail | drop
	Seed     uint64 `json:"seed"`             // every later choice derives from this
	DNSSEC   string `json:"dnssec,omitempty"` // cdfail: "off" runs the resolver with dnssec = "off" ("" = on)
	Alt      bool   `json:"alt,omitempty"`    // lame: the second zone mix (see buildLame)
}

type fullOp struct {
	Tag    string `json:"tag"`
	Client string `json:"client,omitempty"`
	Name   string `json:"name,omitempty"`
	Qtype  uint16 `json:"qtype,omitempty"`
	CD     bool   `json:"cd,omitempty"`
	AdvNS  int64  `json:"adv_ns,omitempty"`
	Got    string `json:"got,omitempty"`
}

type fullCase struct {
	Kind  string   `json:"kind"` // "full"
	Index int      `json:"index"`
	Spec  fullSpec `json:"spec"`
	Ops   []fullOp `json:"ops,omitempty"` // what was executed (evidence; regenerated on replay)
}

type fullZone struct {
	apex    string
	servers []*authsim.Server
	zone    *zm.Zone
	mode    string // honest | refused | servfail | mixed | dead | half | lame
	// mode "lame" (full_ext.go): one behaviour per server ADDRESS —
	// healthy | refused | servfail | notimp | drop — applied once lameOn
	beh    []string
	lameOn bool
	prime  bool
	nhosts int
	nexist int
}

type fullRun struct {
	r       *vlib.Run
	c       fullCase
	rng     *rand.Rand
	u       *authsim.Universe
	rs      *authsim.RStack
	m       *model
	zones   map[string]*fullZone
	failed  map[string]bool   // zones every server of which is scripted to fail right now or was at some point
	partly  map[string]bool   // zones with a failing and an honest server
	tainted map[string]bool   // see "Load robustness"
	locals  map[qkey]string   // every key a request-local cause was injected for (white-box attribution)
	zlocals map[string]string // zones only a request-local / optional resolution failed in
	timeout time.Duration     // the resolver's upstream timeout
	nclient int
	nname   int
	dead    bool
	lame    []*fullZone       // scenario lame: zones with 2..6 server addresses, k of them failing
	broken  map[string]string // scenario cdfail: apex -> variant of zones whose servers only send unusable referrals
	cdv     []*cdVariant
	nsr     []*nsRound // scenario shed-nsaddr-multi
}

type fout struct {
	HasReply   bool
	Rcode      int
	EDE        []uint16
	EDEText    string
	EDE13      bool
	Packets    int
	Suppressed bool
	Wall       time.Duration
	MustReach  bool
}

var fullQtypes = []uint16{dns.TypeA, dns.TypeAAAA, dns.TypeTXT, dns.TypeMX}

func scriptFor(mode string) authsim.Action {
	switch mode {
	case "refused":
		return authsim.Rcode(dns.RcodeRefused)
	case "servfail":
		return authsim.Rcode(dns.RcodeServerFailure)
	case "notimp":
		return authsim.Rcode(dns.RcodeNotImplemented)
	case "drop":
		return authsim.Drop()
	}
	return authsim.Honest()
}

func newFullRun(r *vlib.Run, c fullCase) (*fullRun, error) {
	f := &fullRun{r: r, c: c, rng: rand.New(rand.NewPCG(c.Spec.Seed, 0xC13)),
		zones: map[string]*fullZone{}, failed: map[string]bool{}, partly: map[string]bool{},
		tainted: map[string]bool{}, locals: map[qkey]string{}, zlocals: map[string]string{}, broken: map[string]string{}}
	u := authsim.New()
	f.u = u
	sr, st := u.AddServer("root"), u.AddServer("tld")
	root := u.AddZone(zm.Spec{Apex: ".", Signed: true}, sr)
	tld := u.AddZone(zm.Spec{Apex: "test.", Signed: true}, st)
	u.Delegate(root, tld, authsim.DelegOpts{})
	f.zones["."] = &fullZone{apex: ".", servers: []*authsim.Server{sr}, zone: root, mode: "honest"}
	f.zones["test."] = &fullZone{apex: "test.", servers: []*authsim.Server{st}, zone: tld, mode: "honest"}
	add := func(parent *zm.Zone, apex, mode string, n int) *fullZone {
		var ss []*authsim.Server
		for i := 0; i < n; i++ {
			ss = append(ss, u.AddServer(fmt.Sprintf("%s%d", strings.ReplaceAll(strings.TrimSuffix(apex, ".test."), ".", "-"), i+1)))
		}
		z := u.AddZone(zm.Spec{Apex: apex}, ss...)
		u.Delegate(parent, z, authsim.DelegOpts{})
		for i := 0; i < 12; i++ {
			z.AddMarked(fmt.Sprintf("h%d.%s", i, apex), dns.TypeA, 300)
		}
		fz := &fullZone{apex: apex, servers: ss, zone: z, mode: mode}
		f.zones[apex] = fz
		return fz
	}
	ok := add(tld, "ok.test.", "honest", 1)
	add(tld, "rf.test.", "refused", 2)
	add(tld, "sf.test.", "servfail", 2)
	add(tld, "mix.test.", "mixed", 2)
	add(tld, "half.test.", "half", 2)
	add(tld, "dead.test.", "refused", 2) // starts as REFUSED (fast), switched to drop with the delegation cached
	add(ok.zone, "bad.ok.test.", "refused", 2)
	if c.Spec.Scenario == "client" {
		// gl.test.: delegated WITHOUT glue to a name server named in ok.test., so
		// resolving anything in it first needs that host's address (a required
		// sub-resolution the client's departure can interrupt)
		g1 := u.AddServer("gl1")
		z := u.AddZone(zm.Spec{Apex: "gl.test.", NSHosts: []string{"nsgl.ok.test."}}, g1)
		u.Delegate(tld, z, authsim.DelegOpts{NS: []zm.NSHost{{Name: "nsgl.ok.test."}}})
		for _, a := range g1.Addrs {
			ok.zone.AddAddr("nsgl.ok.test.", net.IP(a.AsSlice()), 300)
		}
		for i := 0; i < 4; i++ {
			z.AddMarked(fmt.Sprintf("h%d.gl.test.", i), dns.TypeA, 300)
		}
		f.zones["gl.test."] = &fullZone{apex: "gl.test.", servers: []*authsim.Server{g1}, zone: z, mode: "honest"}
	}
	if c.Spec.Scenario == "shed-nsaddr" {
		// gl1.test., gl2.test.: each delegated WITHOUT glue to a single name
		// server whose host name lives in ok.test. — a healthy zone reachable
		// only through a required NS-address sub-lookup into ok.test.
		for _, n := range []string{"1", "2"} {
			apex, host := "gl"+n+".test.", "nsgl"+n+".ok.test."
			gs := u.AddServer("gl" + n)
			z := u.AddZone(zm.Spec{Apex: apex, NSHosts: []string{host}}, gs)
			u.Delegate(tld, z, authsim.DelegOpts{NS: []zm.NSHost{{Name: host}}})
			for _, a := range gs.Addrs {
				ok.zone.AddAddr(host, net.IP(a.AsSlice()), 300)
			}
			for i := 0; i < 4; i++ {
				z.AddMarked(fmt.Sprintf("h%d.%s", i, apex), dns.TypeA, 300)
			}
			f.zones[apex] = &fullZone{apex: apex, servers: []*authsim.Server{gs}, zone: z, mode: "honest"}
		}
	}
	if c.Spec.Scenario == "enrich" {
		// v4-only glue: the resolver will try to learn the NS hosts' AAAA in the
		// background (optional enrichment), and that lookup fails at every server
		v1, v2 := u.AddV4Only("v6a"), u.AddV4Only("v6b")
		z := u.AddZone(zm.Spec{Apex: "v6.test."}, v1, v2)
		u.Delegate(tld, z, authsim.DelegOpts{})
		for i := 0; i < 4; i++ {
			z.AddMarked(fmt.Sprintf("h%d.v6.test.", i), dns.TypeA, 300)
		}
		f.zones["v6.test."] = &fullZone{apex: "v6.test.", servers: []*authsim.Server{v1, v2}, zone: z, mode: "honest"}
		for _, h := range u.NSHosts("v6.test.") {
			v1.On(h.Name, dns.TypeAAAA, authsim.Rcode(dns.RcodeServerFailure))
			v2.On(h.Name, dns.TypeAAAA, authsim.Rcode(dns.RcodeServerFailure))
		}
	}
	switch c.Spec.Scenario {
	case "lame":
		f.buildLame(tld)
	case "cdfail":
		f.buildCDFail(root, tld)
	case "shed-nsaddr-multi":
		f.buildNSMulti(tld)
	}
	for _, z := range f.zones {
		f.applyMode(z)
	}
	f.timeout = time.Second
	off := c.Spec.Scenario == "killswitch"
	rs, err := u.NewResolverStack(func(cfg *config.Config) {
		if c.Spec.MinMS > 0 {
			cfg.RecursionFirewall.FailureCacheMinTTL.Duration = time.Duration(c.Spec.MinMS) * time.Millisecond
		}
		if c.Spec.MaxMS > 0 {
			cfg.RecursionFirewall.FailureCacheMaxTTL.Duration = time.Duration(c.Spec.MaxMS) * time.Millisecond
		}
		switch c.Spec.Scenario {
		case "shed-global":
			cfg.MaxConcurrentQueries = 6
		case "shed-zone", "shed-nsaddr", "shed-nsaddr-multi":
			cfg.MaxConcurrentQueries = 256 // per-zone quota max(256/16,16) = 16
		case "enforce":
			cfg.RecursionFirewall.Mode = config.RecursionFirewallModeEnforce
			cfg.RecursionFirewall.MaxOutboundQueries = uint32(1 + c.Spec.Seed%3)
		case "killswitch":
			no := false
			cfg.RFC9520 = &no
		case "cdfail":
			if c.Spec.DNSSEC == "off" {
				cfg.DNSSEC = "off"
			}
			// small enough for the scripted chain of ever deeper referrals
			// (variant maxdepth) to run into it, large enough for every
			// honest path of this universe (root -> test. -> zone)
			cfg.Maxdepth = cdMaxdepth
		}
		cfg.Prefetch = 0
		// IPv6 NS-address enrichment sleeps a fixed 2 s (holding a limiter slot)
		// after every newly learned delegation; only the enrichment scenario
		// pays for that.
		cfg.IPv6Access = c.Spec.Scenario == "enrich"
		f.timeout = cfg.Timeout.Duration
	})
	if err != nil {
		u.Close()
		return nil, err
	}
	f.rs = rs
	if rs.Cache() == nil {
		f.close()
		return nil, fmt.Errorf("no cache middleware in the production chain")
	}
	imin, imax, disabled := rs.Cache().VerifC13Bounds()
	if disabled != off {
		f.close()
		return nil, fmt.Errorf("kill switch state %v, configured %v", disabled, off)
	}
	f.m = newModel(imin, imax, off)
	cs := cfgSpec{MinMS: c.Spec.MinMS, MaxMS: c.Spec.MaxMS}
	if wmin, wmax := cs.effective(); wmin != imin || wmax != imax {
		r.Violation("config/bounds-not-applied", fmt.Sprintf("full pipeline runs with initial=%v max=%v although min=%dms max=%dms was configured", imin, imax, c.Spec.MinMS, c.Spec.MaxMS), c)
	}
	return f, nil
}

func (f *fullRun) applyMode(z *fullZone) {
	if z.apex == "v6.test." {
		return // keeps its per-question rules
	}
	for _, s := range z.servers {
		s.ClearScript(false)
	}
	switch z.mode {
	case "honest":
	case "mixed":
		z.servers[0].SetDefault(scriptFor("refused"))
		z.servers[1].SetDefault(scriptFor("servfail"))
		f.failed[z.apex] = true
	case "lame":
		f.applyLame(z)
	case "half":
		z.servers[0].SetDefault(scriptFor(f.c.Spec.Half))
		if f.c.Spec.Half != "drop" {
			// the failing server answers first, the healthy one a moment later
			z.servers[1].SetDefault(authsim.Delay(15 * time.Millisecond))
		}
		f.partly[z.apex] = true
	case "dead":
		for _, s := range z.servers {
			s.SetDefault(scriptFor("drop"))
		}
		f.failed[z.apex] = true
	default:
		for _, s := range z.servers {
			s.SetDefault(scriptFor(z.mode))
		}
		f.failed[z.apex] = true
	}
}

func (f *fullRun) close() {
	if f.rs != nil {
		f.rs.Close()
	}
	f.u.Close()
}

func (f *fullRun) client() string {
	f.nclient++
	return fmt.Sprintf("198.51.100.%d:%d", 1+f.nclient%250, 3000+f.nclient)
}

// fresh returns a name under apex never used before in this universe.
func (f *fullRun) fresh(apex string) string {
	f.nname++
	return fmt.Sprintf("n%d.%s", f.nname, apex)
}

func (f *fullRun) qtype() uint16 { return fullQtypes[f.rng.IntN(len(fullQtypes))] }

// failedZoneOf is the deepest zone at/above name every server of which is
// scripted to fail ("" if none).
func (f *fullRun) failedZoneOf(name string) string {
	for _, z := range zonesOf(name) {
		if fz := f.zones[z]; fz != nil {
			if f.failed[z] && fz.mode != "honest" && fz.mode != "half" {
				return z
			}
			return "" // the deepest hosted zone answers (or partly answers)
		}
	}
	return ""
}

func (f *fullRun) taintedAbove(name string) bool {
	for _, z := range zonesOf(name) {
		if f.tainted[z] {
			return true
		}
	}
	return false
}

type qmods struct {
	ctx   context.Context
	local string // request-local cause this request is subjected to ("" = none)
	// localIf (optional) decides from the observed reply whether the cause
	// really struck this request; otherwise the request is an ordinary one
	localIf func(fout) bool
	proto   string
}

func (f *fullRun) key(name string, qtype uint16, cd bool) qkey {
	return qkey{Name: canon(name), Qtype: qtype, Qclass: dns.ClassINET, CD: cd}
}

// Q serves one client query through the production chain and judges it.
func (f *fullRun) Q(tag, client, name string, qtype uint16, cd bool, mods qmods) fout {
	f.c.Ops = append(f.c.Ops, fullOp{Tag: tag, Client: client, Name: name, Qtype: qtype, CD: cd})
	idx := len(f.c.Ops) - 1
	if f.dead {
		return fout{}
	}
	r := f.r
	k := f.key(name, qtype, cd)
	q := new(dns.Msg)
	q.SetQuestion(name, qtype)
	q.CheckingDisabled = cd
	q.SetEdns0(1232, f.rng.IntN(3) == 0)
	ctx := mods.ctx
	if ctx == nil {
		ctx = context.Background()
	}
	proto := mods.proto
	if proto == "" {
		proto = []string{"tcp", "udp", "doh"}[f.rng.IntN(3)]
	}
	from := f.u.Log.Len()
	p0 := time.Now()
	cov := f.m.covering(k, p0)
	mustReach := (f.m.disabled || !cov.possiblyActive) && !f.taintedAbove(name)
	replies := f.rs.QueryProto(ctx, proto, client, q)
	wall := time.Since(p0)
	if !f.rs.Quiesce(15 * time.Second) {
		r.Inconclusive(fmt.Sprintf("full case %d: pipeline did not quiesce after op %d (%s)", f.c.Index, idx, tag))
		f.dead = true
		return fout{}
	}
	p1 := time.Now()
	if os.Getenv("C13_DEBUG") != "" {
		fmt.Fprintf(os.Stderr, "full %d/%s op %-24s %-28s query=%v quiesce=%v\n", f.c.Index, f.c.Spec.Scenario, tag, name, wall.Round(time.Millisecond), (p1.Sub(p0) - wall).Round(time.Millisecond))
	}
	pk := f.u.Log.Since(from)
	out := fout{Packets: len(pk), Wall: wall, MustReach: mustReach}
	own := 0 // packets asking for the name itself or (qname minimisation, DS/DNSKEY) an ancestor
	for _, p := range pk {
		if dns.IsSubDomain(p.QNameL, k.Name) {
			own++
		}
	}
	if len(replies) > 0 && replies[0] != nil {
		m := replies[0]
		out.HasReply, out.Rcode = true, m.Rcode
		if opt := m.IsEdns0(); opt != nil {
			for _, e := range opt.Option {
				if x, ok := e.(*dns.EDNS0_EDE); ok {
					out.EDE = append(out.EDE, x.InfoCode)
					out.EDEText += x.ExtraText + ";"
					if x.InfoCode == dns.ExtendedErrorCodeCachedError {
						out.EDE13 = true
					}
				}
			}
		}
	}
	// In the real pipeline a SERVFAIL without upstream traffic can have other
	// sources than failure state (e.g. an open circuit breaker); only a reply
	// that itself claims "Cached Error" (every query here carries EDNS) is
	// attributed to it.
	out.Suppressed = out.Packets == 0 && out.HasReply && out.Rcode == dns.RcodeServerFailure && out.EDE13
	if out.Packets == 0 && out.HasReply && out.Rcode == dns.RcodeServerFailure && !out.EDE13 {
		f.r.Count("full_servfail_without_packets_not_from_failure_state", 1)
	}
	f.c.Ops[idx].Got = fmt.Sprintf("packets=%d rcode=%d ede=%v(%s) wall=%v must=%v", out.Packets, out.Rcode, out.EDE, out.EDEText, out.Wall.Round(time.Millisecond), mustReach)

	// load robustness: a slow request may contain an expired upstream timeout
	if out.Wall >= f.timeout*8/10 {
		r.Count("full_slow_requests", 1)
		for _, p := range pk {
			if honestLabel(p.Action) && p.Zone != "" && !f.tainted[p.Zone] {
				f.tainted[p.Zone] = true
				r.Count("full_zones_tainted_by_slow_request", 1)
				if os.Getenv("C13_DEBUG") != "" {
					fmt.Fprintf(os.Stderr, "full %d/%s op %s tainted %s by %s\n", f.c.Index, f.c.Spec.Scenario, tag, p.Zone, p.String())
				}
			}
		}
	}

	r.Eval(1)
	r.Count("full_q_total", 1)
	desc := fmt.Sprintf("%s %s cd=%v (%s)", k.Name, dns.TypeToString[qtype], cd, tag)
	switch {
	case out.Suppressed && mustReach:
		switch {
		case f.m.disabled:
			r.Violation("killswitch/served", "full pipeline, rfc9520=false, yet "+desc+" was answered SERVFAIL without any packet to an authority", f.replay())
		case f.m.local[k] != "":
			c := f.m.local[k]
			r.Violation("local/"+c+"/suppressed-other-client", fmt.Sprintf("full pipeline: a request-local failure (%s) of one client suppressed %s for another client: SERVFAIL EDE=%v %q, no packet to any authority", c, desc, out.EDE, out.EDEText), f.replay())
		case cov.live > 0:
			sig := "envelope/more-than-doubles"
			if cov.tightK == 1 {
				sig = "envelope/first-interval-exceeds-min"
			} else if cov.tightBound >= f.m.max {
				sig = "envelope/exceeds-max"
			}
			r.Violation(sig, fmt.Sprintf("full pipeline: %s still suppressed %v after the envelope of its covering %s failure ended (streak<=%d, bound %v)", desc, cov.tightOver, cov.tightKind, cov.tightK, cov.tightBound), f.replay())
		case cov.tomb:
			r.Violation("reset/suppressed-after-useful-answer", "full pipeline: "+desc+" suppressed although the authorities had recovered and a useful answer had reset the state", f.replay())
		case strings.HasPrefix(tag, "partly-alive"):
			r.Violation("zone/partly-alive-suppressed", "full pipeline: "+desc+" answered from failure state although one server of its zone answers every query", f.replay())
		case strings.HasPrefix(tag, "nearmiss:"):
			r.Violation("bleed/"+strings.TrimPrefix(tag, "nearmiss:"), "full pipeline: "+desc+" answered from failure state although no zone at or above it failed", f.replay())
		default:
			r.Violation("bleed/unrelated", "full pipeline: "+desc+" answered from failure state although nothing covering it failed", f.replay())
		}
	case out.Suppressed:
		r.Count("full_q_suppressed", 1)
		if cov.byZone != "" && !cov.exactActive {
			r.Count("full_suppressed_by_zone_state", 1)
			if f.zones[cov.byZone] != nil && f.zones[cov.byZone].mode == "dead" {
				r.Count("full_suppressed_by_dead_zone_state", 1)
			}
			sampleOnce(r, "full-zone-suppression", map[string]any{"part": "iii full pipeline", "what": "name under a zone all of whose servers failed is answered from failure state",
				"zone": cov.byZone, "query": desc, "reply": f.c.Ops[idx].Got})
		}
		r.Count("full_q_suppressed_ede13", 1)
	}
	if mustReach {
		r.Count("full_must_reach_checks", 1)
		if out.Packets > 0 {
			r.Count("full_must_reach_held", 1)
		} else if !out.Suppressed {
			r.Count("full_must_reach_answered_locally_not_failure", 1)
		}
		switch {
		case f.m.disabled:
			r.Count("full_killswitch_queries", 1)
		case cov.live > 0:
			r.Count("full_probes_after_expiry", 1)
			r.Max("full_envelope_probe_streak_max", int64(cov.tightK))
			r.Distinct(fmt.Sprintf("full-expiry|%d|%d|k%d|%s", f.c.Spec.MinMS, f.c.Spec.MaxMS, cov.tightK, cov.tightKind))
		case cov.tomb:
			r.Count("full_probes_after_reset", 1)
		}
		if tag == "nearmiss:cd" && out.EDE13 && !out.Suppressed {
			// reached upstream AND claims a cached error: failure state of the other CD value leaked
			r.Violation("bleed/cd", fmt.Sprintf("full pipeline: %s was answered with EDE 13 (Cached Error) although only the same question with the OTHER CD value had failed", desc), f.replay())
		}
		if strings.HasPrefix(tag, "nearmiss:") && !f.m.disabled {
			r.Count("full_nearmiss_"+strings.TrimPrefix(tag, "nearmiss:"), 1)
			r.Distinct("full-nearmiss|" + strings.TrimPrefix(tag, "nearmiss:") + "|" + f.c.Spec.Scenario)
		}
		if strings.HasPrefix(tag, "partly-alive") && !f.m.disabled {
			r.Count("full_partly_alive_queries", 1)
			if out.HasReply && out.Rcode == dns.RcodeSuccess {
				r.Count("full_partly_alive_answered", 1)
			}
		}
		if c, ok := f.m.local[k]; ok && mods.local == "" {
			r.Count("full_local_followup_"+c, 1)
			if out.Packets > 0 {
				r.Count("full_local_followup_reached_"+c, 1)
				sampleOnce(r, "full-local-followup", map[string]any{"part": "ii full pipeline", "what": "after a request-local failure another client asking the same question reached the authorities",
					"cause": c, "scenario": f.c.Spec, "query": desc, "reply": f.c.Ops[idx].Got})
			}
			if out.EDE13 {
				// reached upstream AND claims a cached error: still a leak of failure state
				r.Violation("local/"+c+"/suppressed-other-client", fmt.Sprintf("full pipeline: after a request-local failure (%s) another client's %s was answered with EDE 13", c, desc), f.replay())
			}
			delete(f.m.local, k)
		}
	} else if f.taintedAbove(name) {
		r.Count("full_checks_skipped_tainted", 1)
	} else {
		r.Count("full_may_suppress_probes", 1)
	}

	// model update from what was observed at the authorities
	switch {
	case mods.local != "" && !(out.HasReply && out.Rcode != dns.RcodeServerFailure) && (mods.localIf == nil || mods.localIf(out)):
		f.m.local[k] = mods.local
		f.locals[k] = mods.local
		r.Count("full_local_injected_"+mods.local, 1)
	case out.Packets > 0 && out.HasReply && out.Rcode == dns.RcodeServerFailure:
		r.Count("full_failures_upstream", 1)
		if !f.m.disabled {
			e := f.m.recordQuestion(k, p1)
			r.Max("full_streak_depth_model_max", int64(e.K))
			// every scripted-failing zone the request sent a packet into, plus the
			// deepest one enclosing the name (superset of what may be recorded)
			zs := map[string]bool{}
			if z := f.failedZoneOf(name); z != "" {
				zs[z] = true
			}
			for _, p := range pk {
				for apex, fz := range f.zones {
					if f.failed[apex] && fz.mode != "honest" && fz.mode != "half" {
						for _, s := range fz.servers {
							if s.Name == p.Server {
								zs[apex] = true
							}
						}
					}
				}
			}
			for z := range zs {
				ze := f.m.recordZone(zkey{z, dns.ClassINET}, p1)
				r.Count("full_zone_failures_recorded", 1)
				r.Max("full_zone_streak_depth_model_max", int64(ze.K))
				r.Count("full_zone_failure_mode_"+f.zones[z].mode, 1)
			}
		}
	case own > 0 && out.HasReply && (out.Rcode == dns.RcodeSuccess || out.Rcode == dns.RcodeNameError):
		if n := f.m.useful(k); n > 0 {
			r.Count("full_useful_answers_resetting_state", 1)
		}
		r.Count("full_useful_answers", 1)
	}
	f.checkState(idx, tag)
	return out
}

// checkState: every retained failure entry of the real pipeline must be
// explained by what the authorities were scripted to do.
func (f *fullRun) checkState(idx int, tag string) {
	r := f.r
	r.Count("full_state_checks", 1)
	for _, e := range f.rs.Cache().VerifC13Failures() {
		name := canon(e.Name)
		desc := fmt.Sprintf("%s %s type %d cd=%v streak=%d remaining=%v provenance=%s", e.Kind, e.Name, e.Qtype, e.CD, e.Streak, e.Remaining.Round(time.Millisecond), e.Provenance)
		if f.m.disabled {
			r.Violation("killswitch/recorded", "full pipeline, rfc9520=false, yet failure state was recorded: "+desc, f.replay())
			continue
		}
		if e.Kind == "zone" {
			me := f.m.z[zkey{name, e.Qclass}]
			switch {
			case f.tainted[name] || f.taintedAbove(name):
				r.Count("full_state_skipped_tainted", 1)
			case f.zlocals[name] == "shed-ns-address":
				r.Violation("local/shed-ns-address/zone-recorded", "full pipeline: load shedding of a required NS-address sub-lookup (the name server's host zone was at its in-flight quota) became a shared zone failure for the healthy delegated zone: "+desc, f.replay())
			case f.zlocals[name] != "":
				r.Violation("local/"+f.zlocals[name]+"/recorded", "full pipeline: a failure of "+f.zlocals[name]+" work became a shared zone failure: "+desc, f.replay())
			case f.partly[name]:
				r.Violation("zone/recorded-partly-alive", "full pipeline: a zone failure was recorded for a zone one server of which answers every query: "+desc, f.replay())
			case !f.failed[name]:
				r.Violation("zone/recorded-healthy", "full pipeline: a zone failure was recorded for a zone none of whose servers is scripted to fail: "+desc, f.replay())
			case f.zones[name] != nil && f.zones[name].mode == "perq":
				// a helper zone scripted to fail single questions (NS host
				// addresses): internal sub-lookups record it on their own
				// schedule; it is not the subject of any verdict
				r.Count("full_state_helper_zone_failure_seen", 1)
			case me == nil || !me.Ever:
				r.Violation("state/unexplained-failure-entry", "full pipeline: zone failure state without any failed resolution observed at its authorities: "+desc, f.replay())
			case me.Tomb:
			default:
				r.Max("full_zone_streak_depth_impl_max", int64(e.Streak))
				if int(e.Streak) > me.K {
					r.Violation("state/streak-exceeds-consecutive-failures", fmt.Sprintf("full pipeline: %s — only %d failed resolutions were observed", desc, me.K), f.replay())
				}
				if b := f.m.bound(me.K); e.Remaining > b {
					r.Violation("state/backoff-more-than-doubles", fmt.Sprintf("full pipeline: %s — envelope for %d consecutive failures is %v", desc, me.K, b), f.replay())
				}
			}
			continue
		}
		k := qkey{Name: name, Qtype: e.Qtype, Qclass: e.Qclass, CD: e.CD, Scope: e.Scope}
		me := f.m.q[k]
		if me != nil && me.Ever {
			if !me.Tomb {
				if c := f.locals[k]; c != "" && int(e.Streak) > me.K {
					r.Violation("local/"+c+"/recorded", "full pipeline: a request-local failure ("+c+") renewed shared failure state: "+desc, f.replay())
				}
				if b := f.m.bound(me.K); e.Remaining > b {
					r.Violation("state/backoff-more-than-doubles", fmt.Sprintf("full pipeline: %s — envelope for %d consecutive failures is %v", desc, me.K, b), f.replay())
				}
			}
			continue
		}
		other := k
		other.CD = !k.CD
		switch {
		case f.locals[k] != "":
			c := f.locals[k]
			r.Violation("local/"+c+"/recorded", "full pipeline: a request-local failure ("+c+") became shared failure state: "+desc, f.replay())
		case f.m.q[other] != nil && f.m.q[other].Ever:
			// "a question failure applies to exactly that ... CD value": this
			// (name,type,class) failed for clients asking with the other CD value only
			r.Violation("state/question-failure-filed-under-other-cd", fmt.Sprintf("full pipeline (dnssec=%s): the only failed resolutions of this question were asked with cd=%v, yet the failure is filed under cd=%v: %s", f.dnssecMode(), other.CD, k.CD, desc), f.replay())
		case f.brokenZoneOf(name) != "":
			// internal sub-queries into a zone that only sends unusable referrals may fail on their own
			r.Count("full_state_unmodelled_question_under_broken_zone", 1)
		case f.failedZoneOf(name) != "" || f.taintedAbove(name):
			// internal sub-queries into a failing zone may fail on their own
			r.Count("full_state_unmodelled_question_under_failed_zone", 1)
		default:
			r.Violation("state/unexplained-failure-entry", "full pipeline: failure state for a question that never failed at the authorities: "+desc, f.replay())
		}
	}
}

func (f *fullRun) Adv(d time.Duration) {
	f.c.Ops = append(f.c.Ops, fullOp{Tag: "advance", AdvNS: int64(d)})
	if f.dead || d <= 0 {
		return
	}
	if !f.rs.Quiesce(15 * time.Second) {
		f.r.Inconclusive(fmt.Sprintf("full case %d: not quiescent before advance", f.c.Index))
		f.dead = true
		return
	}
	f.rs.Cache().VerifAdvance(d) // failure backoff + answer cache; delegations stay cached
	f.m.adv += d
	f.r.Count("full_virtual_advances", 1)
}

// expire steps the virtual clock to the end of the envelope of everything
// that covers name.
func (f *fullRun) expire(name string, qtype uint16, cd bool) {
	need := time.Duration(0)
	look := func(e *mEntry) {
		if f.m.live(e) {
			if n := f.m.bound(e.K) - (f.m.adv - e.RecAdv); n > need {
				need = n
			}
		}
	}
	look(f.m.q[f.key(name, qtype, cd)])
	for _, z := range zonesOf(canon(name)) {
		look(f.m.z[zkey{z, dns.ClassINET}])
	}
	if need > 0 {
		f.Adv(need + time.Duration(f.rng.IntN(3))*time.Millisecond)
	}
}

func (f *fullRun) replay() fullCase {
	c := f.c
	c.Ops = append([]fullOp(nil), f.c.Ops...)
	return c
}

// ---------------------------------------------------------------- scenarios

// warm resolves one name of the healthy zone (delegations, keys).
func (f *fullRun) warm() {
	f.Q("warm", f.client(), "h0.ok.test.", dns.TypeA, false, qmods{})
}

// zoneEpisode: zone z (all servers failing) fails; names under it may be
// suppressed; siblings / look-alikes / the parent must not; the backoff ends
// inside the envelope; depth consecutive failures.
func (f *fullRun) zoneEpisode(apex string, depth int) {
	parent := strings.SplitN(apex, ".", 2)[1]
	sibling := "ok.test."
	for i := 0; i < depth; i++ {
		n1, t1, cd1 := f.fresh(apex), f.qtype(), f.rng.IntN(4) == 0
		f.Q("zone-fail", f.client(), n1, t1, cd1, qmods{})
		// descendants: any name / type / CD
		for j, n := 0, 1+f.rng.IntN(3); j < n; j++ {
			f.Q("zone-descendant", f.client(), f.fresh(apex), f.qtype(), f.rng.IntN(2) == 0, qmods{})
		}
		f.Q("zone-descendant-deep", f.client(), "x.y."+f.fresh(apex), f.qtype(), false, qmods{})
		if i == 0 || f.rng.IntN(2) == 0 {
			f.Q("nearmiss:zone-sibling", f.client(), f.fresh(sibling), f.qtype(), f.rng.IntN(4) == 0, qmods{})
			label := strings.SplitN(apex, ".", 2)[0]
			f.Q("nearmiss:zone-label", f.client(), "a.x"+label+"."+parent, dns.TypeA, false, qmods{})
			f.Q("nearmiss:zone-parent", f.client(), f.fresh(parent), f.qtype(), false, qmods{})
			if parent != "test." {
				f.Q("nearmiss:zone-parent", f.client(), parent, dns.TypeTXT, f.rng.IntN(2) == 0, qmods{})
			}
		}
		f.expire(n1, t1, cd1)
		f.expire("zz."+apex, dns.TypeA, false)
	}
	f.Q("probe-after", f.client(), f.fresh(apex), f.qtype(), f.rng.IntN(3) == 0, qmods{})
}

func (f *fullRun) partlyAlive(n int) {
	if f.c.Spec.Half == "drop" {
		// detached probes to the silent server keep limiter slots for a full
		// upstream timeout: quiescence costs about a second per request
		f.Q("partly-alive", f.client(), fmt.Sprintf("h%d.half.test.", f.rng.IntN(12)), f.qtype(), false, qmods{})
		return
	}
	for i := 0; i < n; i++ {
		f.Q("partly-alive", f.client(), fmt.Sprintf("h%d.half.test.", f.rng.IntN(12)), f.qtype(), f.rng.IntN(4) == 0, qmods{})
		f.Q("partly-alive-fresh", f.client(), f.fresh("half.test."), f.qtype(), false, qmods{})
	}
}

// recovery: the authorities of apex come back; a useful answer resets the
// state; they fail again and the backoff restarts at the minimum.
func (f *fullRun) recovery(apex string) {
	z := f.zones[apex]
	old := z.mode
	n1, t1 := f.fresh(apex), dns.TypeA
	f.Q("zone-fail", f.client(), n1, t1, false, qmods{})
	f.expire(n1, t1, false)
	f.expire("zz."+apex, dns.TypeA, false)
	f.Q("zone-fail", f.client(), f.fresh(apex), dns.TypeA, false, qmods{})
	f.expire("zz."+apex, dns.TypeA, false)
	f.expire(n1, t1, false)
	z.mode = "honest"
	f.applyMode(z)
	f.Q("useful", f.client(), "h1."+apex, dns.TypeA, false, qmods{})
	for i := 0; i < 2; i++ {
		f.Q("after-useful", f.client(), f.fresh(apex), f.qtype(), f.rng.IntN(3) == 0, qmods{})
	}
	z.mode = old
	f.applyMode(z)
	n2 := f.fresh(apex)
	f.Q("zone-fail-after-useful", f.client(), n2, dns.TypeA, false, qmods{})
	f.expire(n2, dns.TypeA, false)
	f.expire("zz."+apex, dns.TypeA, false)
	f.Q("probe-after-reset", f.client(), f.fresh(apex), f.qtype(), false, qmods{})
}

func (f *fullRun) scenarioZones() {
	f.warm()
	order := []string{"rf.test.", "sf.test.", "mix.test.", "bad.ok.test."}
	f.rng.Shuffle(len(order), func(i, j int) { order[i], order[j] = order[j], order[i] })
	toMax := 1
	for b := f.m.min; b < f.m.max; b *= 2 {
		toMax++
	}
	for i, z := range order[:2+f.rng.IntN(3)] {
		d := 1 + f.rng.IntN(2)
		if i == 0 {
			d = min(toMax+1, 4)
		}
		f.zoneEpisode(z, d)
		f.partlyAlive(1 + f.rng.IntN(2))
	}
	f.recovery(order[len(order)-1])
	f.partlyAlive(2)
}

// scenarioDead: servers that never reply. The delegation is cached by a fast
// (REFUSED) failure first, so the slow requests touch the dead servers only.
func (f *fullRun) scenarioDead() {
	f.warm()
	apex := "dead.test."
	n0 := f.fresh(apex)
	f.Q("zone-fail", f.client(), n0, dns.TypeA, false, qmods{})
	z := f.zones[apex]
	z.mode = "dead"
	f.applyMode(z)
	f.expire(n0, dns.TypeA, false)
	f.expire("zz."+apex, dns.TypeA, false)
	n1 := f.fresh(apex)
	f.Q("zone-fail-dead", f.client(), n1, dns.TypeA, false, qmods{})
	f.Q("zone-descendant", f.client(), f.fresh(apex), f.qtype(), true, qmods{})
	f.Q("zone-descendant", f.client(), f.fresh(apex), f.qtype(), false, qmods{})
	f.Q("nearmiss:zone-sibling", f.client(), f.fresh("ok.test."), dns.TypeA, false, qmods{})
	f.Q("nearmiss:zone-parent", f.client(), f.fresh("test."), dns.TypeA, false, qmods{})
	f.partlyAlive(1)
	f.expire(n1, dns.TypeA, false)
	f.expire("zz."+apex, dns.TypeA, false)
	f.Q("probe-after-dead", f.client(), f.fresh(apex), dns.TypeA, false, qmods{})
}

// scenarioClient: the client goes away / its deadline expires while the
// resolution waits at a gated authority. The gate stays closed until the
// client request is over, so the failure that client saw can only be its own.
func (f *fullRun) scenarioClient() {
	f.warm()
	ok := f.zones["ok.test."]
	for i := 0; i < 3; i++ {
		cause := []string{"cancel", "deadline"}[(i+f.c.Index)%2]
		name, qt := fmt.Sprintf("h%d.ok.test.", 2+i), dns.TypeA
		g := authsim.NewGate()
		ok.servers[0].ClearScript(false)
		ok.servers[0].On(name, 0, authsim.Honest().Gated(g))
		var ctx context.Context
		var cancel context.CancelFunc
		if cause == "deadline" {
			ctx, cancel = context.WithTimeout(context.Background(), 50*time.Millisecond)
		} else {
			ctx, cancel = context.WithCancel(context.Background())
		}
		stop := make(chan struct{})
		go func() {
			// the client leaves once its query is parked at the authority
			t := time.NewTicker(200 * time.Microsecond)
			defer t.Stop()
			for {
				select {
				case <-stop:
					return
				case <-t.C:
					if g.Waiting() > 0 {
						if cause == "cancel" {
							cancel()
						}
						return
					}
				}
			}
		}()
		out := f.Q("local-"+cause, f.client(), name, qt, false, qmods{ctx: ctx, local: cause, proto: "tcp"})
		close(stop)
		cancel()
		if g.Waiting() > 0 {
			f.r.Count("full_client_left_while_parked_at_authority", 1)
		}
		g.Release()
		ok.servers[0].ClearScript(false)
		if f.dead {
			return
		}
		if !f.rs.Quiesce(15 * time.Second) {
			f.r.Inconclusive(fmt.Sprintf("full case %d: pipeline did not quiesce after the client left", f.c.Index))
			f.dead = true
			return
		}
		_ = out
		f.Q("local-followup", f.client(), name, qt, false, qmods{})
		f.Q("local-sibling", f.client(), f.fresh("ok.test."), dns.TypeA, false, qmods{})
	}

	// The client leaves while the resolver is still finding the address of the
	// only name server of a glueless delegation: "no reachable authority for
	// gl.test." is then this client's problem, not a fact about gl.test.
	g := authsim.NewGate()
	ok.servers[0].ClearScript(false)
	ok.servers[0].On("nsgl.ok.test.", 0, authsim.Honest().Gated(g))
	ctx, cancel := context.WithCancel(context.Background())
	stop := make(chan struct{})
	go func() {
		t := time.NewTicker(200 * time.Microsecond)
		defer t.Stop()
		for {
			select {
			case <-stop:
				return
			case <-t.C:
				if g.Waiting() > 0 {
					cancel()
					return
				}
			}
		}
	}()
	f.zlocals["gl.test."] = "cancel"
	f.Q("local-cancel-glueless", f.client(), "h0.gl.test.", dns.TypeA, false, qmods{ctx: ctx, local: "cancel", proto: "tcp"})
	close(stop)
	cancel()
	if g.Waiting() > 0 {
		f.r.Count("full_client_left_during_ns_address_lookup", 1)
	}
	g.Release()
	ok.servers[0].ClearScript(false)
	if f.dead {
		return
	}
	if !f.rs.Quiesce(15 * time.Second) {
		f.r.Inconclusive(fmt.Sprintf("full case %d: pipeline did not quiesce after the client left", f.c.Index))
		f.dead = true
		return
	}
	f.checkState(len(f.c.Ops)-1, "after-glueless-cancel")
	f.Q("local-followup", f.client(), "h0.gl.test.", dns.TypeA, false, qmods{})
	f.Q("local-sibling", f.client(), "h1.gl.test.", dns.TypeA, false, qmods{})
}

// scenarioShed: every in-flight slot (global pool or the zone's quota) is
// pinned by resolutions parked at a gated authority; one more client is shed.
// Afterwards a DIFFERENT client asks the same question.
func (f *fullRun) scenarioShed(zoneQuota bool) {
	f.warm()
	f.Q("warm", f.client(), "h1.ok.test.", dns.TypeA, false, qmods{})
	ok := f.zones["ok.test."]
	hold := 6
	cause := "shed"
	if zoneQuota {
		hold = 16
	}
	for round := 0; round < 2; round++ {
		g := authsim.NewGate()
		ok.servers[0].ClearScript(false)
		var held []string
		for i := 0; i < hold; i++ {
			n := f.fresh("ok.test.")
			held = append(held, n)
			ok.servers[0].On(n, 0, authsim.Honest().Gated(g))
		}
		type res struct{ rc int }
		results := make(chan res, hold)
		for _, n := range held {
			n := n
			cl := f.client()
			go func() {
				q := new(dns.Msg)
				q.SetQuestion(n, dns.TypeA)
				q.SetEdns0(1232, false)
				m := f.rs.Query(cl, q)
				rc := -1
				if m != nil {
					rc = m.Rcode
				}
				results <- res{rc}
			}()
		}
		// barrier: every slot of the limiter under test is taken
		formed := false
		deadline := time.Now().Add(10 * time.Second)
		for time.Now().Before(deadline) {
			_, resolution, _, _ := f.rs.Handler.VerifSlots()
			if resolution >= hold {
				formed = true
				break
			}
			time.Sleep(500 * time.Microsecond)
		}
		victim, vt := f.fresh("ok.test."), dns.TypeA
		if formed {
			f.r.Count("full_shed_barriers_formed", 1)
			out := f.qNoQuiesce("local-"+cause, f.client(), victim, vt, cause)
			if out.HasReply && out.Rcode == dns.RcodeServerFailure && out.Packets == 0 && strings.Contains(out.EDEText, "capacity") {
				f.r.Count("full_shed_replies_observed", 1)
				if zoneQuota {
					f.r.Count("full_shed_zone_quota_replies", 1)
				} else {
					f.r.Count("full_shed_global_pool_replies", 1)
				}
			} else {
				// the victim was not shed (answered, or failed differently): nothing request-local happened
				delete(f.m.local, f.key(victim, vt, false))
				delete(f.locals, f.key(victim, vt, false))
				f.r.Count("full_shed_victim_not_shed", 1)
			}
		} else {
			f.r.Count("full_shed_barrier_not_formed", 1)
		}
		g.Release()
		for range held {
			<-results
		}
		ok.servers[0].ClearScript(false)
		if !f.rs.Quiesce(15 * time.Second) {
			f.r.Inconclusive(fmt.Sprintf("full case %d: pipeline did not quiesce after the shed round", f.c.Index))
			f.dead = true
			return
		}
		if formed {
			f.checkState(len(f.c.Ops)-1, "after-shed")
			f.Q("local-followup", f.client(), victim, vt, false, qmods{})
			f.Q("local-sibling", f.client(), f.fresh("ok.test."), dns.TypeA, false, qmods{})
		}
	}
}

// scenarioShedNSAddr: load shedding that strikes a REQUIRED SUB-LOOKUP of the
// victim's resolution instead of the victim's own lookup. glN.test. is healthy
// and delegated without glue to nsglN.ok.test.; while the victim needs that
// host's address, ok.test. is at its per-zone in-flight quota (16 lookups
// parked at a gated authority), so the address lookup is shed. That is load,
// not a fact about glN.test.: once the load is gone a DIFFERENT client must
// find no failure state for glN.test. and must reach its authorities.
//
// "Struck" is established from observations, not timing: the quota was full
// before the victim started and still full after it returned (the gate is
// released only afterwards), the victim fetched the referral (a packet for a
// name at/below glN.test. reached the tld server), no packet for the NS host
// left the resolver, and the victim got SERVFAIL.
func (f *fullRun) scenarioShedNSAddr() {
	f.warm()
	f.Q("warm", f.client(), "h1.ok.test.", dns.TypeA, false, qmods{})
	ok := f.zones["ok.test."]
	const hold = 16
	const cause = "shed-ns-address"
	for _, n := range []string{"1", "2"} {
		apex, host := "gl"+n+".test.", "nsgl"+n+".ok.test."
		g := authsim.NewGate()
		ok.servers[0].ClearScript(false)
		var held []string
		for i := 0; i < hold; i++ {
			hn := f.fresh("ok.test.")
			held = append(held, hn)
			ok.servers[0].On(hn, 0, authsim.Honest().Gated(g))
		}
		results := make(chan int, hold)
		for _, hn := range held {
			hn := hn
			cl := f.client()
			go func() {
				q := new(dns.Msg)
				q.SetQuestion(hn, dns.TypeA)
				q.SetEdns0(1232, false)
				m := f.rs.Query(cl, q)
				rc := -1
				if m != nil {
					rc = m.Rcode
				}
				results <- rc
			}()
		}
		slots := func() int {
			_, resolution, _, _ := f.rs.Handler.VerifSlots()
			return resolution
		}
		formed := false
		deadline := time.Now().Add(10 * time.Second)
		for time.Now().Before(deadline) {
			if slots() >= hold && g.Waiting() >= hold {
				formed = true
				break
			}
			time.Sleep(500 * time.Microsecond)
		}
		victim := "h0." + apex
		struck := false
		if formed {
			f.r.Count("full_shed_nsaddr_barriers_formed", 1)
			// everything the shed sub-lookup could (wrongly) leave behind
			f.zlocals[apex] = cause
			for _, cd := range []bool{false, true} {
				f.locals[f.key(host, dns.TypeA, cd)] = cause
				f.locals[f.key(host, dns.TypeAAAA, cd)] = cause
			}
			from := f.u.Log.Len()
			out := f.qNoQuiesce("local-"+cause, f.client(), victim, dns.TypeA, cause)
			referral, hostPackets := 0, 0
			for _, p := range f.u.Log.Since(from) {
				if dns.IsSubDomain(apex, p.QNameL) && p.Server == "tld" {
					referral++
				}
				if p.QNameL == host {
					hostPackets++
				}
			}
			stillFull := slots() >= hold && g.Waiting() >= hold
			struck = stillFull && referral > 0 && hostPackets == 0 && out.HasReply && out.Rcode == dns.RcodeServerFailure
			if struck {
				f.r.Count("full_shed_nsaddr_struck", 1)
				f.c.Ops[len(f.c.Ops)-1].Got += fmt.Sprintf(" referral_packets=%d ns_host_packets=%d quota_full_throughout=%v", referral, hostPackets, stillFull)
			} else {
				// answered, or failed for another reason: nothing request-local happened
				delete(f.m.local, f.key(victim, dns.TypeA, false))
				delete(f.locals, f.key(victim, dns.TypeA, false))
				delete(f.zlocals, apex)
				f.r.Count("full_shed_nsaddr_victim_not_struck", 1)
			}
		} else {
			f.r.Count("full_shed_nsaddr_barrier_not_formed", 1)
		}
		g.Release()
		for range held {
			<-results
		}
		ok.servers[0].ClearScript(false)
		if !f.rs.Quiesce(15 * time.Second) {
			f.r.Inconclusive(fmt.Sprintf("full case %d: pipeline did not quiesce after the NS-address shed round", f.c.Index))
			f.dead = true
			return
		}
		if !struck {
			continue
		}
		// white box: nothing about glN.test. (zone or question) may be retained
		f.checkState(len(f.c.Ops)-1, "after-shed-ns-address")
		zoneState := false
		for _, e := range f.rs.Cache().VerifC13Failures() {
			if e.Kind == "zone" && canon(e.Name) == apex {
				zoneState = true
			}
		}
		if !zoneState {
			f.r.Count("full_shed_nsaddr_no_zone_state", 1)
		}
		// black box: other clients, the load is gone — a sibling name first (only
		// zone-wide state could cover it), then the victim's own question
		sib := "h1." + apex
		f.m.local[f.key(sib, dns.TypeA, false)] = cause
		o1 := f.Q("local-followup-sibling", f.client(), sib, dns.TypeA, false, qmods{})
		o2 := f.Q("local-followup", f.client(), victim, dns.TypeA, false, qmods{})
		for _, o := range []fout{o1, o2} {
			if o.Packets > 0 && o.HasReply && o.Rcode == dns.RcodeSuccess && !o.EDE13 {
				f.r.Count("full_shed_nsaddr_followup_resolved", 1)
			}
		}
	}
}

// qNoQuiesce serves a query while other requests are deliberately parked; it
// is judged only for what it returns (the follow-up carries the verdict).
func (f *fullRun) qNoQuiesce(tag, client, name string, qtype uint16, cause string) fout {
	f.c.Ops = append(f.c.Ops, fullOp{Tag: tag, Client: client, Name: name, Qtype: qtype})
	idx := len(f.c.Ops) - 1
	q := new(dns.Msg)
	q.SetQuestion(name, qtype)
	q.SetEdns0(1232, false)
	from := f.u.Log.Len()
	m := f.rs.Query(client, q)
	var out fout
	for _, p := range f.u.Log.Since(from) {
		if p.QNameL == canon(name) {
			out.Packets++
		}
	}
	if m != nil {
		out.HasReply, out.Rcode = true, m.Rcode
		if opt := m.IsEdns0(); opt != nil {
			for _, e := range opt.Option {
				if x, ok := e.(*dns.EDNS0_EDE); ok {
					out.EDE = append(out.EDE, x.InfoCode)
					out.EDEText += x.ExtraText + ";"
				}
			}
		}
	}
	f.c.Ops[idx].Got = fmt.Sprintf("packets_for_name=%d rcode=%d ede=%v(%s)", out.Packets, out.Rcode, out.EDE, out.EDEText)
	k := f.key(name, qtype, false)
	f.m.local[k] = cause
	f.locals[k] = cause
	f.r.Count("full_local_injected_"+cause, 1)
	return out
}

// scenarioEnforce: recursion_firewall mode=enforce with a 1-query budget: a
// resolution that needs a referral runs out of budget; that is the requesting
// client's problem.
func (f *fullRun) scenarioEnforce() {
	for i, name := range []string{"h0.ok.test.", "h1.half.test.", "h2.ok.test.", "h3.bad.ok.test."} {
		_ = i
		qt := dns.TypeA
		budget := func(o fout) bool {
			return o.HasReply && o.Rcode == dns.RcodeServerFailure && strings.Contains(o.EDEText, "budget")
		}
		out := f.Q("local-budget", f.client(), name, qt, false, qmods{local: "budget", localIf: budget})
		if !budget(out) {
			// the budget was enough, or the failure is the authorities' own
			f.r.Count("full_budget_not_exhausted", 1)
			continue
		}
		f.r.Count("full_budget_exhausted_replies", 1)
		f.Q("local-followup", f.client(), name, qt, false, qmods{})
	}
}

// scenarioEnrich: optional enrichment. The delegation of v6.test. carries
// IPv4 glue only; with ipv6access on the resolver looks the NS hosts' AAAA up
// in a detached best-effort task, and every server answers that SERVFAIL.
// Nothing of it may become shared state: the zone keeps resolving, and a
// client asking the very same AAAA question reaches the authorities.
func (f *fullRun) scenarioEnrich() {
	f.warm()
	var hosts []string
	for _, h := range f.u.NSHosts("v6.test.") {
		hosts = append(hosts, canon(h.Name))
	}
	for _, h := range hosts {
		for _, cd := range []bool{false, true} {
			f.locals[f.key(h, dns.TypeAAAA, cd)] = "enrichment"
			f.m.local[f.key(h, dns.TypeAAAA, cd)] = "enrichment"
		}
	}
	f.zlocals["v6.test."] = "enrichment"
	from := f.u.Log.Len()
	f.Q("enrich-trigger", f.client(), "h0.v6.test.", dns.TypeA, false, qmods{})
	// the detached task starts after a fixed 2 s pause; Quiesce (inside Q and
	// here) waits for its limiter slot to be returned
	seen := 0
	deadline := time.Now().Add(12 * time.Second)
	for time.Now().Before(deadline) {
		seen = 0
		for _, p := range f.u.Log.Since(from) {
			if p.QType == dns.TypeAAAA && strings.HasPrefix(p.QNameL, "ns") && strings.HasSuffix(p.QNameL, ".v6.test.") {
				seen++
			}
		}
		if seen > 0 && f.rs.Quiesce(5*time.Second) {
			break
		}
		time.Sleep(20 * time.Millisecond)
	}
	if seen == 0 {
		f.r.Count("full_enrichment_not_observed", 1)
		return
	}
	f.r.Count("full_enrichment_failures_observed", 1)
	f.checkState(len(f.c.Ops)-1, "after-enrichment")
	f.Q("enrich-sibling", f.client(), "h1.v6.test.", dns.TypeA, false, qmods{})
	// A client asking the same AAAA question is a required resolution: it must
	// reach the authorities, and ITS failure (every server answers SERVFAIL to
	// this question) may be recorded like any other.
	delete(f.zlocals, "v6.test.")
	f.zones["v6.test."].mode = "perq"
	f.failed["v6.test."] = true
	f.Q("local-followup", f.client(), hosts[f.rng.IntN(len(hosts))], dns.TypeAAAA, f.rng.IntN(2) == 0, qmods{})
}

// scenarioKill: rfc9520=false in the real pipeline.
func (f *fullRun) scenarioKill() {
	f.warm()
	for _, apex := range []string{"rf.test.", "sf.test.", "mix.test."} {
		n := f.fresh(apex)
		for i := 0; i < 2; i++ {
			f.Q("zone-fail", f.client(), n, dns.TypeA, false, qmods{})
		}
		f.Q("zone-descendant", f.client(), f.fresh(apex), f.qtype(), f.rng.IntN(2) == 0, qmods{})
	}
}

func runFullCase(r *vlib.Run, c fullCase) {
	f, err := newFullRun(r, c)
	if err != nil {
		r.Inconclusive(fmt.Sprintf("full case %d: %v", c.Index, err))
		return
	}
	defer f.close()
	r.Count("full_cases", 1)
	r.Count("full_scenario_"+c.Spec.Scenario, 1)
	switch c.Spec.Scenario {
	case "zones":
		f.scenarioZones()
	case "dead":
		f.scenarioDead()
	case "client":
		f.scenarioClient()
	case "shed-global":
		f.scenarioShed(false)
	case "shed-zone":
		f.scenarioShed(true)
	case "enforce":
		f.scenarioEnforce()
	case "killswitch":
		f.scenarioKill()
	case "enrich":
		f.scenarioEnrich()
	case "shed-nsaddr":
		f.scenarioShedNSAddr()
	case "lame":
		f.scenarioLame()
	case "cdfail":
		f.scenarioCDFail()
	case "shed-nsaddr-multi":
		f.scenarioShedNSAddrMulti()
	}
	if r.ReplayCase() != nil {
		for _, o := range f.c.Ops {
			if o.Tag == "advance" {
				fmt.Printf("replay: advance %v\n", time.Duration(o.AdvNS))
			} else {
				fmt.Printf("replay: %-24s %-28s %-5s cd=%-5v -> %s\n", o.Tag, o.Name, dns.TypeToString[o.Qtype], o.CD, o.Got)
			}
		}
	}
}

var fullBounds = [][2]int64{{0, 0}, {1000, 4000}, {2000, 0}, {1000, 1000}, {3000, 300000}, {1500, 6000}}

func fullSpecFor(r *vlib.Run, i int) fullSpec {
	rng := r.RandN("full", i)
	// the scenario mix is a fixed function of the index
	scens := []string{"zones", "client", "shed-global", "shed-zone", "enforce", "killswitch", "zones", "dead", "enrich", "shed-nsaddr",
		"lame", "cdfail", "lame", "cdfail", "shed-nsaddr-multi"}
	scen := scens[i%len(scens)]
	b := fullBounds[rng.IntN(len(fullBounds))]
	sp := fullSpec{Scenario: scen, MinMS: b[0], MaxMS: b[1], Half: []string{"refused", "servfail", "drop"}[rng.IntN(3)], Seed: rng.Uint64()}
	switch i % len(scens) {
	case 11:
		sp.DNSSEC = "off"
	case 12:
		sp.Alt = true
	}
	return sp
}

func runFullChild(r *vlib.Run) {
	n := r.N(15, 420)
	for i := 0; i < n; i++ {
		runFullCase(r, fullCase{Kind: "full", Index: i, Spec: fullSpecFor(r, i)})
		r.Progress("full case %d/%d", i+1, n)
	}
	authsim.SweepTemp()
}
