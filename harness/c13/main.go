// C13 — cached failures (RFC 9520) suppress only what failed, for a bounded time.
//
//	part (i)   hist.go/gen.go/model.go  edns+cache+stub histories under virtual time
//	part (ii)  gen.go localEpisode      request-local causes, then another client
//	bursts     burst.go                 probe election after expiry (race child)
//	part (iii) full.go                  real resolver + scripted authorities (authsim)
package main

import (
	"encoding/json"
	"fmt"
	"os"
	"time"

	"github.com/semihalev/sdns/zzverif/vlib"
)

const rule = "safety direction only: a query MUST reach resolution (stub call / authority packet) unless an observed cacheable failure " +
	"for exactly its (name,type,class,CD,ECS audience) or for a zone at/above it may still be inside min(min*2^(k-1),max) of virtual time since " +
	"the recording request ended; request-local failures, the kill switch and useful answers leave nothing behind; after expiry a burst of N " +
	"parked followers causes at most 2 upstream calls and never two at once"

// every valid shape of (failure_cache_min_ttl, failure_cache_max_ttl), ms; 0 = omitted
var bounds = [][2]int64{
	{0, 0}, {1000, 1000}, {1000, 2000}, {1000, 300000}, {2000, 7000}, {3000, 10000}, {5000, 300000},
	{7000, 60000}, {30000, 45000}, {60000, 60000}, {150000, 300000}, {300000, 300000}, {1500, 100000},
	{0, 8000}, {2000, 0}, {1000, 1001}, {299999, 300000},
}

var sizes = []int{0, 0, 4, 8, 16, 48, 256}

func histCfg(r *vlib.Run, i int) cfgSpec {
	rng := r.RandN("hist-cfg", i)
	cs := cfgSpec{}
	if i%4 == 3 {
		// any other valid pair
		mn := 1000 + rng.Int64N(299000)
		mx := mn + rng.Int64N(300000-mn+1)
		cs.MinMS, cs.MaxMS = mn, mx
	} else {
		b := bounds[(i-i/4)%len(bounds)]
		cs.MinMS, cs.MaxMS = b[0], b[1]
	}
	cs.Size = sizes[rng.IntN(len(sizes))]
	cs.ECS = rng.IntN(2) == 0
	cs.Enforce = rng.IntN(3) == 0
	cs.Off = i%9 == 8
	return cs
}

func runHistories(r *vlib.Run) {
	n := r.N(140, 6000)
	for i := 0; i < n; i++ {
		runOneHistory(r, i, histCfg(r, i), r.RandN("hist", i))
		r.Progress("history %d/%d", i+1, n)
	}
}

// runBurstChild is the race-instrumented half: follower bursts plus a slice of
// the ordinary histories (virtual-clock steps, client cancellations) under
// the race detector.
func runBurstChild(r *vlib.Run) {
	n := r.N(70, 2500)
	for i := 0; i < n; i++ {
		rng := r.RandN("burst", i)
		cs := histCfg(r, 100000+i)
		cs.Off = false
		cs.Size = 0 // no evictions: the retained generation is what elects the probe
		h, err := newHist(r, 100000+i, cs)
		if err != nil {
			r.Inconclusive(fmt.Sprintf("burst history %d: %v", i, err))
			continue
		}
		g := &gen{h: h, rng: rng}
		r.Count("burst_histories", 1)
		g.burstHistory()
		h.close()
		r.Progress("burst history %d/%d", i+1, n)
	}
	m := r.N(25, 400)
	for i := 0; i < m; i++ {
		runOneHistory(r, 200000+i, histCfg(r, 200000+i), r.RandN("hist-race", i))
	}
}

func replay(r *vlib.Run, raw json.RawMessage) {
	var k struct {
		Kind string `json:"kind"`
	}
	_ = json.Unmarshal(raw, &k)
	switch k.Kind {
	case "hist":
		var c histCase
		if err := json.Unmarshal(raw, &c); err != nil {
			r.Fatalf("replay: %v", err)
		}
		replayHist(r, c)
	default:
		r.Fatalf("replay: unknown case kind %q", k.Kind)
	}
	if r.Violations() == 0 {
		fmt.Println("replay: no violation reproduced")
	}
}

func main() {
	r := vlib.Start("C13", "exploration")
	r.Assume("virtual time = monotonic real time + the sum of (*Cache).VerifAdvance steps taken at quiescent points; a step rewrites every stored failure retryAfter and is observationally a clock jump")
	r.Assume("the terminal stub stands in for the resolver: SERVFAIL/REFUSED/… from it is a resolution failure, Store.RecordZoneFailure called from it is the resolver's 'every server of the zone failed' report, request-local causes use the same exported marking API the real layers use")
	r.Assume("ECS audience = client subnet clamped to the forwarding ceiling (/24, /56); with [ecs] off every client is the global audience")
	if raw := r.ReplayCase(); raw != nil {
		replay(r, raw)
		r.Finish(rule)
	}
	if os.Getenv("C13_MODE") == "burst" {
		runBurstChild(r)
		r.Finish(rule)
	}
	runHistories(r)

	pfx := r.RacePrefix("burst")
	res := r.Child("burst", nil, vlib.BinPath("c13", "race"), nil,
		[]string{vlib.RaceEnv(pfx), "C13_MODE=burst"}, time.Duration(r.N(150, 1500))*time.Second)
	if !res.HasState {
		r.Inconclusive(fmt.Sprintf("race child did not finish (exit=%d timeout=%v err=%v log=%s)", res.ExitCode, res.TimedOut, res.Err, res.Output))
	}
	r.ScanRaceLogs(pfx)
	r.Finish(rule)
}
