// C13 — cached failures (RFC 9520) suppress only what failed, for a bounded time.
//
//	part (i)   hist.go/gen.go/model.go  edns+cache+stub histories under virtual time
//	part (ii)  gen.go localEpisode      request-local causes, then another client
//	bursts     burst.go                 probe election after expiry (race child): same name, sibling names,
//	                                    and requests mixed in ECS audience / type / CD under one failed zone
//	part (iii) full.go                  real resolver + scripted authorities (authsim)
package main

import (
	"encoding/json"
	"fmt"
	"os"
	"sync"
	"time"

	"github.com/semihalev/sdns/zzverif/vlib"
)

const rule = "safety direction only: a query MUST reach resolution (stub call / authority packet) unless an observed cacheable failure " +
	"for exactly its (name,type,class,CD,ECS audience) or for a zone at/above it may still be inside min(min*2^(k-1),max) of virtual time since " +
	"the recording request ended; request-local failures, the kill switch and useful answers leave nothing behind; after expiry a burst of N " +
	"parked followers causes at most 2 upstream calls and never two at once"

// every valid shape of (failure_cache_min_ttl, failure_cache_max_ttl), ms; 0 = omitted
var bounds = [][2]int64{
	{0, 0}, {1000, 1000}, {1000, 2000}, {1000, 300000}, {2000, 7000}, {3000, 10000}, {5000, 300000},
	{7000, 60000}, {30000, 45000}, {60000, 60000}, {150000, 300000}, {300000, 300000}, {1500, 100000},
	{0, 8000}, {2000, 0}, {1000, 1001}, {299999, 300000},
}

var sizes = []int{0, 0, 4, 8, 16, 48, 256}

func histCfg(r *vlib.Run, i int) cfgSpec {
	rng := r.RandN("hist-cfg", i)
	cs := cfgSpec{}
	if i%4 == 3 {
		// any other valid pair
		mn := 1000 + rng.Int64N(299000)
		mx := mn + rng.Int64N(300000-mn+1)
		cs.MinMS, cs.MaxMS = mn, mx
	} else {
		b := bounds[(i-i/4)%len(bounds)]
		cs.MinMS, cs.MaxMS = b[0], b[1]
	}
	cs.Size = sizes[rng.IntN(len(sizes))]
	cs.ECS = rng.IntN(2) == 0
	cs.Enforce = rng.IntN(3) == 0
	cs.Off = i%9 == 8
	return cs
}

func runHistories(r *vlib.Run) {
	n := r.N(140, 12000)
	for i := 0; i < n; i++ {
		runOneHistory(r, i, histCfg(r, i), r.RandN("hist", i))
		r.Progress("history %d/%d", i+1, n)
	}
}

// runBurstChild is the race-instrumented half: follower bursts plus a slice of
// the ordinary histories (virtual-clock steps, client cancellations) under
// the race detector.
func runBurstChild(r *vlib.Run) {
	n := r.N(70, 3500)
	for i := 0; i < n; i++ {
		rng := r.RandN("burst", i)
		cs := histCfg(r, 100000+i)
		cs.Off = false
		cs.Size = 0 // no evictions: the retained generation is what elects the probe
		h, err := newHist(r, 100000+i, cs)
		if err != nil {
			r.Inconclusive(fmt.Sprintf("burst history %d: %v", i, err))
			continue
		}
		g := &gen{h: h, rng: rng}
		r.Count("burst_histories", 1)
		g.burstHistory()
		h.close()
		r.Progress("burst history %d/%d", i+1, n)
	}
	m := r.N(25, 600)
	for i := 0; i < m; i++ {
		runOneHistory(r, 200000+i, histCfg(r, 200000+i), r.RandN("hist-race", i))
	}
}

func replay(r *vlib.Run, raw json.RawMessage) {
	var k struct {
		Kind string `json:"kind"`
	}
	_ = json.Unmarshal(raw, &k)
	r.Sample(map[string]any{"replayed_case_kind": k.Kind})
	switch k.Kind {
	case "hist":
		var c histCase
		if err := json.Unmarshal(raw, &c); err != nil {
			r.Fatalf("replay: %v", err)
		}
		replayHist(r, c)
	case "full":
		var c fullCase
		if err := json.Unmarshal(raw, &c); err != nil {
			r.Fatalf("replay: %v", err)
		}
		c.Ops = nil
		runFullCase(r, c)
	default:
		r.Fatalf("replay: unknown case kind %q", k.Kind)
	}
	if r.Violations() == 0 {
		fmt.Println("replay: no unlisted violation (a reproduced known finding is reported by its KNOWN-FINDING line above)")
	}
}

func main() {
	r := vlib.Start("C13", "exploration")
	r.Assume("virtual time = monotonic real time + the sum of (*Cache).VerifAdvance steps taken at quiescent points; a step rewrites every stored failure retryAfter and is observationally a clock jump")
	r.Assume("the terminal stub stands in for the resolver: SERVFAIL/REFUSED/… from it is a resolution failure, Store.RecordZoneFailure called from it is the resolver's 'every server of the zone failed' report, request-local causes use the same exported marking API the real layers use")
	r.Assume("ECS audience = client subnet clamped to the forwarding ceiling (/24, /56); with [ecs] off every client is the global audience")
	if raw := r.ReplayCase(); raw != nil {
		replay(r, raw)
		r.Finish(rule)
	}
	switch os.Getenv("C13_MODE") {
	case "burst":
		runBurstChild(r)
		requireBurst(r)
		r.Finish(rule)
	case "full":
		runFullChild(r)
		requireFull(r)
		r.Finish(rule)
	}

	// The three parts are independent processes' worth of state (the
	// middleware registry is process-global): the race-instrumented burst
	// child and the full-pipeline child run next to the histories.
	var wg sync.WaitGroup
	pfx := r.RacePrefix("burst")
	wg.Add(2)
	go func() {
		defer wg.Done()
		res := r.Child("burst", nil, vlib.BinPath("c13", "race"), nil,
			[]string{vlib.RaceEnv(pfx), "C13_MODE=burst"}, time.Duration(r.N(240, 2400))*time.Second)
		if !res.HasState {
			r.Inconclusive(fmt.Sprintf("race child did not finish (exit=%d timeout=%v err=%v log=%s)", res.ExitCode, res.TimedOut, res.Err, res.Output))
		}
	}()
	go func() {
		defer wg.Done()
		res := r.Child("full", nil, vlib.BinPath("c13", "plain"), nil,
			[]string{"C13_MODE=full"}, time.Duration(r.N(240, 2400))*time.Second)
		if !res.HasState {
			r.Inconclusive(fmt.Sprintf("full-pipeline child did not finish (exit=%d timeout=%v err=%v log=%s)", res.ExitCode, res.TimedOut, res.Err, res.Output))
		}
	}()
	runHistories(r)
	requireHist(r)
	wg.Wait()
	r.ScanRaceLogs(pfx)
	r.Finish(rule)
}

var (
	sampleMu   sync.Mutex
	sampleSeen = map[string]bool{}
	// which process contributes which real cases to evidence.samples (6 slots)
	sampleKinds = map[string]map[string]bool{
		"":      {"hist-suppressed": true, "hist-expiry-probe": true},
		"burst": {"burst": true, "local-followup": true},
		"full":  {"full-zone-suppression": true, "full-local-followup": true},
	}
)

// sampleOnce keeps the first real case of each kind (two kinds per process, so
// the evidence shows cases from every part).
func sampleOnce(r *vlib.Run, kind string, v any) {
	sampleMu.Lock()
	defer sampleMu.Unlock()
	if sampleSeen[kind] || !sampleKinds[os.Getenv("C13_MODE")][kind] {
		return
	}
	sampleSeen[kind] = true
	r.Sample(v)
}

// Required observations (AUTHORING rule 6): every path a verdict rests on must
// have been exercised, with margin, or the run is inconclusive.
func requireHist(r *vlib.Run) {
	for k, v := range map[string]int64{
		"histories": 100, "failures_recorded": 1000, "zone_failures_recorded": 150,
		"q_suppressed": 300, "q_suppressed_ede13": 250, "q_suppressed_wire_entry": 80,
		"suppressed_by_question_state": 80, "suppressed_by_zone_state": 150,
		"suppressed_by_zone_state_cd": 40, "suppressed_by_zone_state_scoped": 30,
		"must_reach_checks": 2500, "must_reach_held": 2500, "may_suppress_probes": 300,
		"probes_after_expiry": 500, "envelope_probe_first_interval": 250, "envelope_probe_growth": 100,
		"envelope_probe_at_max": 100, "envelope_probe_streak_max": 6, "streak_depth_impl_max": 5,
		"probes_after_reset": 40, "useful_answers_resetting_state": 100,
		"nearmiss_name": 200, "nearmiss_type": 40, "nearmiss_class": 40, "nearmiss_cd": 40, "nearmiss_scope": 20,
		"nearmiss_zone-sibling": 80, "nearmiss_zone-label": 40, "nearmiss_zone-parent": 80, "nearmiss_zone-class": 40, "nearmiss_zone-above-cut": 4,
		"killswitch_histories": 8, "killswitch_queries": 60, "killswitch_queries_over_seeded_state": 16,
		"state_checks": 2500, "state_checks_after_eviction_or_reset": 300, "virtual_advances": 500,
		"local_failures_injected": 60,
		// "a useful answer resets the backoff", for every kind of state incl. what
		// only FailureCache.ResetMatching clears: fail.. -> expiry -> useful ->
		// fail: white-box dump judged, then the black-box probe at the minimum
		"restart_state_checked_question": 6, "restart_state_checked_scoped-question": 5, "restart_state_checked_zone": 20,
		"restart_probe_at_min_question": 6, "restart_probe_at_min_scoped-question": 5, "restart_probe_at_min_zone": 15,
	} {
		r.Require(k, v)
	}
	for _, c := range append(append([]string{}, localCauses...), localBudget...) {
		r.Require("local_followup_"+c, 3)
	}
	r.Require("flood_evictions_observed", 3)
}

func requireBurst(r *vlib.Run) {
	for k, v := range map[string]int64{
		"burst_histories": 50, "bursts_judged": 120, "bursts_count_bound_checked": 60,
		"bursts_with_successful_probe": 20, "burst_same-name": 30, "burst_siblings": 30, "burst_mixed": 30,
		// probe election for requests that carry an ECS audience
		"bursts_judged_mixed_scoped_audiences": 8, "bursts_count_bound_checked_mixed_scoped_audiences": 3,
		"bursts_judged_one_scoped_audience_siblings": 8, "bursts_count_bound_checked_one_scoped_audience": 10,
		"burst_parked_followers_max": 40, "burst_reply_cached_failure": 300, "burst_reply_shed_or_local": 100,
		"burst_upstream_calls_1": 20, "burst_upstream_calls_2": 20,
	} {
		r.Require(k, v)
	}
}

func requireFull(r *vlib.Run) {
	for k, v := range map[string]int64{
		"full_cases": 15, "full_q_total": 200, "full_failures_upstream": 15, "full_zone_failures_recorded": 12,
		"full_q_suppressed": 15, "full_suppressed_by_zone_state": 12, "full_suppressed_by_dead_zone_state": 1,
		"full_must_reach_checks": 60, "full_must_reach_held": 50, "full_probes_after_expiry": 6,
		"full_probes_after_reset": 2, "full_useful_answers_resetting_state": 1,
		"full_nearmiss_zone-sibling": 4, "full_nearmiss_zone-label": 4, "full_nearmiss_zone-parent": 4,
		"full_partly_alive_queries": 6, "full_partly_alive_answered": 6,
		"full_killswitch_queries": 6, "full_state_checks": 100,
		"full_local_followup_shed": 2, "full_shed_global_pool_replies": 1, "full_shed_zone_quota_replies": 1,
		"full_local_followup_budget": 1, "full_budget_exhausted_replies": 1,
		"full_client_left_while_parked_at_authority": 2, "full_client_left_during_ns_address_lookup": 1,
		"full_enrichment_failures_observed": 1, "full_local_followup_enrichment": 1,
		"full_shed_nsaddr_struck": 1, "full_local_followup_shed-ns-address": 2,
		// scenario lame: zones with 2..6 server addresses, k failing (rcode / silent), h healthy; the healthy
		// reply is the last thing the resolver hears
		"full_scenario_lame": 2, "full_lame_zones": 10, "full_lame_allfail_zones": 2, "full_lame_zones_multi_host": 2,
		"full_lame_zones_multi_address_host": 2, "full_lame_partly_queries": 20, "full_lame_partly_answered": 18,
		"full_lame_partly_no_zone_state": 18, "full_lame_gated_requests": 15, "full_lame_gate_all-failures-sent": 12,
		"full_lame_healthy_reply_after_every_failure_reply": 12, "full_lame_healthy_reply_after_3plus_failure_replies": 6,
		// scenario cdfail: question failures from resolver errors that are not zone failures, dnssec on and off,
		// CD=0 first and the mirror image; white-box filing + the other CD value reaching the authorities
		"full_scenario_cdfail": 2, "full_cdfail_first_failed": 18, "full_cdfail_no_zone_state": 18,
		"full_cdfail_first_failed_dnssec_off_cd0": 4, "full_cdfail_first_failed_dnssec_off_cd1": 4,
		"full_cdfail_first_failed_dnssec_on_cd0": 4, "full_cdfail_first_failed_dnssec_on_cd1": 4,
		"full_cdfail_filed_under_asked_cd_dnssec_off_cd0": 4, "full_cdfail_filed_under_asked_cd_dnssec_off_cd1": 4,
		"full_cdfail_filed_under_asked_cd_dnssec_on_cd0": 4, "full_cdfail_filed_under_asked_cd_dnssec_on_cd1": 4,
		"full_cdfail_other_cd_reached_upstream_dnssec_off_cd0": 4, "full_cdfail_other_cd_reached_upstream_dnssec_off_cd1": 4,
		"full_cdfail_other_cd_reached_upstream_dnssec_on_cd0": 4, "full_cdfail_other_cd_reached_upstream_dnssec_on_cd1": 4,
		"full_nearmiss_cd": 18, "full_cdfail_same_cd_suppressed": 12, "full_cdfail_error_delegation-loop": 10,
		"full_cdfail_error_max-depth": 1, "full_cdfail_variant_bogus": 1,
		// scenario shed-nsaddr-multi: >= 2 glue-less NS hosts, shed / really failing address lookups in both walk orders
		"full_scenario_shed-nsaddr-multi": 1, "full_nsmulti_struck": 3, "full_nsmulti_struck_class_i": 1,
		"full_nsmulti_struck_class_ii": 1, "full_nsmulti_struck_class_iii": 1, "full_nsmulti_no_zone_state": 3,
		"full_nsmulti_followup_resolved": 5, "full_nsmulti_control_failed": 1, "full_nsmulti_control_zone_failure_recorded": 1,
	} {
		r.Require(k, v)
	}
}
