package main

import (
	"context"
	"fmt"
	"time"

	"github.com/miekg/dns"
	"github.com/semihalev/sdns/config"
	"github.com/semihalev/sdns/middleware"
	"github.com/semihalev/sdns/zzverif/stack"
)

func q(name string, t uint16, cd bool) *dns.Msg {
	m := new(dns.Msg)
	m.SetQuestion(name, t)
	m.SetEdns0(1232, false)
	m.CheckingDisabled = cd
	return m
}

func show(tag string, r stack.Result, st *stack.Stack) {
	if r.Msg == nil {
		fmt.Println(tag, "no reply wrote=", r.Wrote, "total", st.Stub().Total())
		return
	}
	ede := ""
	if o := r.Msg.IsEdns0(); o != nil {
		for _, e := range o.Option {
			if x, ok := e.(*dns.EDNS0_EDE); ok {
				ede += fmt.Sprintf(" EDE%d(%s)", x.InfoCode, x.ExtraText)
			}
		}
	}
	fmt.Println(tag, dns.RcodeToString[r.Msg.Rcode], ede, "ans", len(r.Msg.Answer), "total", st.Stub().Total())
}

func main() {
	cfg := stack.DefaultConfig()
	cfg.RecursionFirewall.Mode = config.RecursionFirewallModeEnforce
	cfg.RecursionFirewall.MaxOutboundQueries = 1
	cfg.RecursionFirewall.FailureCacheMinTTL.Duration = 2 * time.Second
	cfg.RecursionFirewall.FailureCacheMaxTTL.Duration = 7 * time.Second
	mode := "fail"
	st := stack.MustNew(stack.Options{Config: cfg, Stub: func(ctx context.Context, req *stack.StubRequest) *stack.StubReply {
		switch mode {
		case "fail":
			return &stack.StubReply{Rcode: dns.RcodeServerFailure}
		case "budget":
			e1 := middleware.DebitRecursionWork(ctx, middleware.RecursionWorkOutboundQuery)
			e2 := middleware.DebitRecursionWork(ctx, middleware.RecursionWorkOutboundQuery)
			fmt.Println("debit", e1, e2, "enf", middleware.RecursionWorkEnforcementError(ctx))
			return &stack.StubReply{Rcode: dns.RcodeServerFailure}
		case "gate":
			return &stack.StubReply{Rcode: dns.RcodeServerFailure, Gate: make(chan struct{})}
		}
		return nil
	}})
	defer st.Close()
	c := st.Cache()
	fmt.Println(c.VerifC13Bounds())
	show("1 fail", st.ServeMsg("203.0.113.9:4000", "udp", q("a.example.", dns.TypeA, false)), st)
	show("2 supp", st.ServeMsg("203.0.113.10:4000", "udp", q("a.example.", dns.TypeA, false)), st)
	pkt, _ := q("a.example.", dns.TypeA, false).Pack()
	show("2b raw", st.ServeRaw("203.0.113.10:4000", "udp", pkt), st)
	show("2c cd", st.ServeMsg("203.0.113.10:4000", "udp", q("a.example.", dns.TypeA, true)), st)
	fmt.Printf("%+v\n", c.VerifC13Failures())
	c.VerifAdvance(2 * time.Second)
	show("3 after", st.ServeMsg("203.0.113.10:4000", "udp", q("a.example.", dns.TypeA, false)), st)
	fmt.Printf("%+v\n", c.VerifC13Failures())
	mode = "budget"
	show("4 budget", st.ServeMsg("203.0.113.10:4000", "udp", q("b.example.", dns.TypeA, false)), st)
	mode = "fail"
	fmt.Printf("%+v\n", c.VerifC13Failures())
	mode = "gate"
	ctx, cancel := context.WithTimeout(context.Background(), 50*time.Millisecond)
	show("5 deadline", st.ServeMsgCtx(ctx, "203.0.113.10:4000", "udp", q("c.example.", dns.TypeA, false)), st)
	cancel()
	fmt.Printf("%+v\n", c.VerifC13Failures())
}
