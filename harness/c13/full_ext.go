package main

// Two more scenarios of the full-pipeline part (real resolver + authsim).
//
// lame    Zones with 2..6 server ADDRESSES (several NS hosts, several
//         addresses per host, IPv4) of which k answer a failure rcode
//         (REFUSED / SERVFAIL / NOTIMP, uniform or mixed), some are silent and
//         h are healthy. "A zone failure [applies] only to names at or below
//         a zone EVERY ONE of whose servers failed": with h >= 1 nothing may
//         be recorded for the zone and every other client's name under it
//         must reach the authorities — however many servers failed first.
//         The healthy servers' replies are held back (authsim gate) until
//         every rcode-failing server of the zone has sent its failure reply
//         for this request, plus a small delay, so the healthy reply is the
//         LAST thing the resolver hears. With h == 0 the zone failure is
//         legitimate and the ordinary zone episode (descendants, near misses,
//         envelope probe) runs against it.
//
// cdfail  Question failures that come from a RESOLVER ERROR, not from a
//         failed zone: every server of the zone sends a referral the resolver
//         cannot use (to the zone itself, naming two owners, upwards, to a
//         sibling, around a ring) or the chain of delegations is deeper than
//         maxdepth; with dnssec = "on" additionally a zone whose DS does not
//         match (validation failure for CD=0 only). Run with the resolver's
//         dnssec "on" and "off" (off: the resolver sets CD=1 on its own
//         upstream queries and has to put the client's CD value back).
//         "A question failure applies to exactly that ... CD value": fail with
//         CD=x, dump the failure state (white box: filed under exactly
//         (name,type,class,CD=x)), ask the same question with CD=!x from
//         another client (must reach the authorities, no EDE 13), then CD=x
//         again (may be suppressed); x = 0 and the mirror image x = 1.

import (
	"fmt"
	"math/rand/v2"
	"net"
	"strings"
	"time"

	"github.com/miekg/dns"
	"github.com/semihalev/sdns/zzverif/authsim"
	zm "github.com/semihalev/sdns/zzverif/zonemodel"
)

const cdMaxdepth = 5

// honestLabel: packet-log action labels of servers that answer honestly
// (possibly late). A slow request that touched one of them may contain an
// expired upstream timeout (see "Load robustness" in full.go).
func honestLabel(a string) bool {
	switch a {
	case "honest", "delay", "gate", "gate+delay":
		return true
	}
	return false
}

func (f *fullRun) dnssecMode() string {
	if f.c.Spec.DNSSEC == "off" {
		return "off"
	}
	return "on"
}

func (f *fullRun) brokenZoneOf(name string) string {
	for _, z := range zonesOf(name) {
		if f.broken[z] != "" {
			return z
		}
	}
	return ""
}

func (z *fullZone) count(kinds ...string) int {
	n := 0
	for _, b := range z.beh {
		for _, k := range kinds {
			if b == k {
				n++
			}
		}
	}
	return n
}

func (z *fullZone) healthyN() int { return z.count("healthy") }
func (z *fullZone) silentN() int  { return z.count("drop") }
func (z *fullZone) rcodeN() int   { return len(z.beh) - z.healthyN() - z.silentN() }

func (z *fullZone) shape() string {
	return fmt.Sprintf("%s: %d addresses on %d NS hosts %v", z.apex, len(z.beh), z.nhosts, z.beh)
}

// ------------------------------------------------------------------- lame

type lamePlan struct {
	n, healthy, silent int
	notimp             bool
	hosts              int // NS hosts: 0 = any number 1..n, -1 = one per address, k = exactly k
}

// buildLame adds l1.test. .. l6.test. Every server address is its own authsim
// server (so it can behave on its own); NS hosts own one or more of them.
func (f *fullRun) buildLame(tld *zm.Zone) {
	lr := rand.New(rand.NewPCG(f.c.Spec.Seed, 0x1A3E))
	plans := []lamePlan{
		{n: 4 + lr.IntN(3), healthy: 1},            // a lame majority (>= 3 failure rcodes) next to ONE healthy address
		{n: 5 + lr.IntN(2), healthy: 2, hosts: 1},  // >= 3 failing, two healthy; every address belongs to ONE NS host
		{n: 2 + lr.IntN(2), healthy: 1, hosts: -1}, // small; one NS host per address
		{n: 3 + lr.IntN(3), healthy: 1, silent: 1}, // failure rcodes + a silent address + one healthy
		{n: 2 + lr.IntN(5), healthy: 0},            // every address answers a failure rcode: the zone HAS failed
	}
	if f.c.Spec.Alt {
		plans = append(plans, lamePlan{n: 2 + lr.IntN(3), healthy: 0, silent: 1}) // all failed, one of them silently
	} else {
		plans = append(plans, lamePlan{n: 4 + lr.IntN(3), healthy: 1, notimp: true})
	}
	for zi, p := range plans {
		apex := fmt.Sprintf("l%d.test.", zi+1)
		beh := make([]string, 0, p.n)
		for i := 0; i < p.healthy; i++ {
			beh = append(beh, "healthy")
		}
		for i := 0; i < p.silent; i++ {
			beh = append(beh, "drop")
		}
		style := lr.IntN(3) // all REFUSED | all SERVFAIL | mixed
		for len(beh) < p.n {
			k := []string{"refused", "servfail"}[lr.IntN(2)]
			switch {
			case style == 0:
				k = "refused"
			case style == 1:
				k = "servfail"
			case p.notimp && lr.IntN(3) == 0:
				k = "notimp"
			}
			beh = append(beh, k)
		}
		lr.Shuffle(len(beh), func(i, j int) { beh[i], beh[j] = beh[j], beh[i] })
		var ss []*authsim.Server
		for i := range beh {
			ss = append(ss, f.u.AddV4Only(fmt.Sprintf("l%d-%d", zi+1, i+1)))
		}
		// NS hosts: the first m addresses belong to ns1..nsm, the others to any of them
		m := 1 + lr.IntN(p.n)
		switch {
		case p.hosts < 0:
			m = p.n
		case p.hosts > 0:
			m = min(p.hosts, p.n)
		}
		names := make([]string, m)
		hosts := make([]zm.NSHost, m)
		for h := range names {
			names[h] = fmt.Sprintf("ns%d.%s", h+1, apex)
			hosts[h].Name = names[h]
		}
		z := f.u.AddZone(zm.Spec{Apex: apex, NSHosts: names}, ss...) // publishes ns<i+1> A <address i>
		for i, s := range ss {
			h := i
			if i >= m {
				h = lr.IntN(m)
				z.AddAddr(names[h], net.IP(s.Addrs[0].AsSlice()), 0)
			}
			hosts[h].Addrs = append(hosts[h].Addrs, net.IP(s.Addrs[0].AsSlice()))
		}
		f.u.Delegate(tld, z, authsim.DelegOpts{NS: hosts})
		for i := 0; i < 8; i++ {
			z.AddMarked(fmt.Sprintf("h%d.%s", i, apex), dns.TypeA, 300)
		}
		fz := &fullZone{apex: apex, servers: ss, zone: z, mode: "lame", beh: beh, nhosts: m}
		// zones with a silent address are always met with the delegation
		// cached (the slow requests then touch nothing but that zone)
		fz.prime = p.silent > 0 || lr.IntN(2) == 0
		fz.lameOn = !fz.prime
		f.zones[apex] = fz
		f.lame = append(f.lame, fz)
	}
}

func (f *fullRun) applyLame(z *fullZone) {
	delete(f.failed, z.apex)
	delete(f.partly, z.apex)
	if !z.lameOn {
		return // every address still answers honestly
	}
	for i, s := range z.servers {
		if z.beh[i] != "healthy" {
			s.SetDefault(scriptFor(z.beh[i]))
		}
	}
	if z.healthyN() == 0 {
		f.failed[z.apex] = true
	} else {
		f.partly[z.apex] = true
	}
}

// lameQ is Q against a zone some of whose addresses still answer: for the
// duration of the request the healthy addresses answer only after every
// rcode-failing address has SENT a failure reply for this request (and then
// another 20 ms later). The hold is bounded (600 ms << upstream timeout); how
// it ended is counted, never judged.
func (f *fullRun) lameQ(z *fullZone, tag, name string, qtype uint16, cd bool) fout {
	if f.dead {
		return f.Q(tag, f.client(), name, qtype, cd, qmods{})
	}
	gated := z.lameOn && z.healthyN() > 0 && z.rcodeN() > 0
	var g *authsim.Gate
	stop, done := make(chan struct{}), make(chan string, 1)
	from := f.u.Log.Len()
	if gated {
		g = authsim.NewGate()
		failing := map[string]bool{}
		for i, s := range z.servers {
			if z.beh[i] == "healthy" {
				s.SetDefault(authsim.Delay(20 * time.Millisecond).Gated(g))
			} else if z.beh[i] != "drop" {
				failing[s.Name] = true
			}
		}
		go func() {
			t := time.NewTicker(300 * time.Microsecond)
			defer t.Stop()
			limit := time.After(600 * time.Millisecond)
			for {
				select {
				case <-stop:
					g.Release()
					done <- "request-over"
					return
				case <-limit:
					g.Release()
					done <- "bounded-hold"
					return
				case <-t.C:
					seen := map[string]bool{}
					for _, p := range f.u.Log.Since(from) {
						if failing[p.Server] && strings.HasPrefix(p.Outcome, "answered:") {
							seen[p.Server] = true
						}
					}
					if len(seen) >= len(failing) {
						g.Release()
						done <- "all-failures-sent"
						return
					}
				}
			}
		}()
	}
	out := f.Q(tag, f.client(), name, qtype, cd, qmods{})
	if !gated {
		return out
	}
	close(stop)
	how := <-done
	for i, s := range z.servers {
		if z.beh[i] == "healthy" {
			s.SetDefault(authsim.Honest())
		}
	}
	if f.dead {
		return out
	}
	r := f.r
	r.Count("full_lame_gated_requests", 1)
	r.Count("full_lame_gate_"+how, 1)
	// what this request saw at the zone's addresses
	failReplies, healthyReplies := map[string]bool{}, 0
	for _, p := range f.u.Log.Since(from) {
		for i, s := range z.servers {
			if s.Name != p.Server || !strings.HasPrefix(p.Outcome, "answered:") {
				continue
			}
			if z.beh[i] == "healthy" {
				healthyReplies++
			} else {
				failReplies[p.Server] = true
			}
		}
	}
	useful := out.HasReply && (out.Rcode == dns.RcodeSuccess || out.Rcode == dns.RcodeNameError)
	if how == "all-failures-sent" && healthyReplies > 0 && useful {
		r.Count("full_lame_healthy_reply_after_every_failure_reply", 1)
		if len(failReplies) >= 3 {
			r.Count("full_lame_healthy_reply_after_3plus_failure_replies", 1)
			r.Distinct(fmt.Sprintf("full-lame-majority|n%d|fail%d|healthy%d|hosts%d", len(z.beh), len(failReplies), z.healthyN(), z.nhosts))
		}
	}
	if idx := len(f.c.Ops) - 1; idx >= 0 {
		f.c.Ops[idx].Got += fmt.Sprintf(" zone=[%s] gate=%s failure_replies_from=%d healthy_replies=%d", z.shape(), how, len(failReplies), healthyReplies)
	}
	return out
}

func (f *fullRun) lameName(z *fullZone, i int) string {
	if i%3 == 1 || z.silentN() > 0 {
		// exists: NOERROR. (Next to a silent address only such names are asked: a
		// name error from a zone two or more labels deep makes the resolver wait
		// for every other server, i.e. for the silent one's whole timeout.)
		z.nexist++
		return fmt.Sprintf("h%d.%s", 1+(z.nexist-1)%7, z.apex)
	}
	return f.fresh(z.apex) // does not exist: NXDOMAIN, just as useful
}

// lamePartly: clients ask names under a zone k of whose addresses fail while
// h >= 1 answer. Nothing may be recorded, nobody may be suppressed.
func (f *fullRun) lamePartly(z *fullZone, n int, tag string) {
	for i := 0; i < n; i++ {
		out := f.lameQ(z, tag, f.lameName(z, i), f.qtype(), f.rng.IntN(4) == 0)
		if f.dead {
			return
		}
		f.r.Count("full_lame_partly_queries", 1)
		if out.Packets > 0 && out.HasReply && (out.Rcode == dns.RcodeSuccess || out.Rcode == dns.RcodeNameError) {
			f.r.Count("full_lame_partly_answered", 1)
		}
		f.r.Distinct(fmt.Sprintf("full-lame-partly|n%d|rcode%d|silent%d|healthy%d|hosts%d", len(z.beh), z.rcodeN(), z.silentN(), z.healthyN(), z.nhosts))
		zoneState := false
		for _, e := range f.rs.Cache().VerifC13Failures() {
			if e.Kind == "zone" && canon(e.Name) == z.apex {
				zoneState = true
			}
		}
		if !zoneState {
			f.r.Count("full_lame_partly_no_zone_state", 1)
		}
	}
}

func (f *fullRun) scenarioLame() {
	f.warm()
	order := append([]*fullZone(nil), f.lame...)
	f.rng.Shuffle(len(order), func(i, j int) { order[i], order[j] = order[j], order[i] })
	// A zone that failed with a silent address among its servers costs whole
	// upstream timeouts per request, and the resolver may answer such a failure
	// by walking down from the root again (slow request touching honest root /
	// tld servers => those zones stop carrying must-reach demands, see "Load
	// robustness"): it comes last, when nothing else is left to judge.
	var fast, slow []*fullZone
	for _, z := range order {
		if z.healthyN() == 0 && z.silentN() > 0 {
			slow = append(slow, z)
		} else {
			fast = append(fast, z)
		}
	}
	f.lameZones(fast)
	// after everything: other clients, names under every partly-alive zone
	for _, z := range fast {
		if z.healthyN() > 0 && z.silentN() == 0 && !f.dead {
			f.lamePartly(z, 1, "partly-alive-lame-later")
		}
	}
	f.lameZones(slow)
}

func (f *fullRun) lameZones(order []*fullZone) {
	for _, z := range order {
		if f.dead {
			return
		}
		if z.prime {
			f.Q("lame-prime", f.client(), "h0."+z.apex, dns.TypeA, false, qmods{})
			z.lameOn = true
			f.applyMode(z)
			f.r.Count("full_lame_zones_met_with_cached_delegation", 1)
		} else {
			f.r.Count("full_lame_zones_met_cold", 1)
		}
		f.r.Count("full_lame_zones", 1)
		f.r.Count(fmt.Sprintf("full_lame_zone_addresses_%d", len(z.beh)), 1)
		if z.nhosts < len(z.beh) {
			f.r.Count("full_lame_zones_multi_address_host", 1)
		}
		if z.nhosts > 1 {
			f.r.Count("full_lame_zones_multi_host", 1)
		}
		if z.healthyN() == 0 {
			// every address failed: the zone failure is legitimate
			f.r.Count("full_lame_allfail_zones", 1)
			f.zoneEpisode(z.apex, 1)
			continue
		}
		n := 3
		if z.silentN() > 0 {
			n = 2 // quiescence costs an upstream timeout per request (detached probe to the silent address)
		}
		f.lamePartly(z, n, "partly-alive-lame")
	}
}

// ----------------------------------------------------------------- cdfail

type cdVariant struct {
	kind  string
	apex  string
	under string // names are asked under this (at or below apex)
	types []uint16
	n     int
}

func cdReferral(q *dns.Msg, zone, nsName string, glue ...net.IP) *dns.Msg {
	m := new(dns.Msg)
	m.SetReply(q)
	m.Authoritative = false
	m.Ns = []dns.RR{&dns.NS{Hdr: dns.RR_Header{Name: zone, Rrtype: dns.TypeNS, Class: dns.ClassINET, Ttl: 300}, Ns: nsName}}
	for _, ip := range glue {
		if v4 := ip.To4(); v4 != nil {
			m.Extra = append(m.Extra, &dns.A{Hdr: dns.RR_Header{Name: nsName, Rrtype: dns.TypeA, Class: dns.ClassINET, Ttl: 300}, A: v4})
		}
	}
	if opt := q.IsEdns0(); opt != nil {
		m.SetEdns0(1232, opt.Do())
	}
	return m
}

func v4Of(ss ...*authsim.Server) []net.IP {
	var out []net.IP
	for _, s := range ss {
		for _, a := range s.Addrs {
			if a.Is4() {
				out = append(out, net.IP(a.AsSlice()))
			}
		}
	}
	return out
}

// buildCDFail adds one zone per kind of unusable authority. None of them is a
// "failed zone" in the statement's sense (its servers answer, with rcode
// NOERROR), so only QUESTION failures may come of them.
func (f *fullRun) buildCDFail(root, tld *zm.Zone) {
	lr := rand.New(rand.NewPCG(f.c.Spec.Seed, 0xCD0F))
	sroot := f.zones["."].servers[0]
	sok := f.zones["ok.test."].servers[0]
	// delegate apex (insecure) from test. to servers that host no zone at all
	deleg := func(apex string, ss ...*authsim.Server) []zm.NSHost {
		var hosts []zm.NSHost
		for i, s := range ss {
			hosts = append(hosts, zm.NSHost{Name: fmt.Sprintf("ns%d.%s", i+1, apex), Addrs: v4Of(s)})
		}
		tld.Delegate(zm.DelegationSpec{Child: apex, NS: hosts, NSTTL: 300})
		return hosts
	}
	simple := func(kind string, reply func(q *dns.Msg, apex string, self []net.IP) *dns.Msg) {
		apex := kind + ".test."
		n := 1 + lr.IntN(2)
		var ss []*authsim.Server
		for i := 0; i < n; i++ {
			ss = append(ss, f.u.AddV4Only(fmt.Sprintf("%s%d", kind, i+1)))
		}
		deleg(apex, ss...)
		for _, s := range ss {
			self := v4Of(s)
			s.SetDefault(authsim.Tamper(kind+"-referral", func(q, _ *dns.Msg) *dns.Msg { return reply(q, apex, self) }))
		}
		f.broken[apex] = kind
		f.cdv = append(f.cdv, &cdVariant{kind: kind, apex: apex, under: apex, types: fullQtypes})
	}
	// the zone refers to itself
	simple("self", func(q *dns.Msg, apex string, self []net.IP) *dns.Msg {
		return cdReferral(q, apex, "ns1."+apex, self...)
	})
	// an Authority section naming two different owners
	simple("incoherent", func(q *dns.Msg, apex string, _ []net.IP) *dns.Msg {
		m := new(dns.Msg)
		m.SetReply(q)
		m.Ns = []dns.RR{
			&dns.NS{Hdr: dns.RR_Header{Name: "child." + apex, Rrtype: dns.TypeNS, Class: dns.ClassINET, Ttl: 300}, Ns: "ns.child." + apex},
			&dns.NS{Hdr: dns.RR_Header{Name: "sibling." + apex, Rrtype: dns.TypeNS, Class: dns.ClassINET, Ttl: 300}, Ns: "ns.evil." + apex},
		}
		if opt := q.IsEdns0(); opt != nil {
			m.SetEdns0(1232, opt.Do())
		}
		return m
	})
	f.cdv[len(f.cdv)-1].under = "child.incoherent.test."
	// a referral upwards, to the root
	simple("upward", func(q *dns.Msg, _ string, _ []net.IP) *dns.Msg {
		return cdReferral(q, ".", "ns1.", v4Of(sroot)...)
	})
	// a referral sideways, to a zone that is not on the way to the name
	simple("sideways", func(q *dns.Msg, _ string, _ []net.IP) *dns.Msg {
		return cdReferral(q, "ok.test.", "ns1.ok.test.", v4Of(sok)...)
	})
	// a ring: ring.test. refers down to sub.ring.test., whose server refers back up
	{
		apex, sub := "ring.test.", "sub.ring.test."
		s1, s2 := f.u.AddV4Only("ring1"), f.u.AddV4Only("ring2")
		deleg(apex, s1)
		s1.SetDefault(authsim.Tamper("ring-down", func(q, _ *dns.Msg) *dns.Msg {
			if dns.IsSubDomain(sub, strings.ToLower(q.Question[0].Name)) {
				return cdReferral(q, sub, "ns."+sub, v4Of(s2)...)
			}
			return cdReferral(q, apex, "ns1."+apex, v4Of(s1)...)
		}))
		s2.SetDefault(authsim.Tamper("ring-up", func(q, _ *dns.Msg) *dns.Msg {
			return cdReferral(q, apex, "ns1."+apex, v4Of(s1)...)
		}))
		f.broken[apex] = "ring"
		f.cdv = append(f.cdv, &cdVariant{kind: "ring", apex: apex, under: sub, types: fullQtypes})
	}
	// deeper and deeper: level i refers one label further down than the zone
	// it serves; the chain root -> test. -> deep.test. -> a.deep.test. -> ...
	// is longer than maxdepth
	{
		base := "deep.test."
		const levels = 5
		ss := make([]*authsim.Server, levels)
		for i := range ss {
			ss[i] = f.u.AddV4Only(fmt.Sprintf("deep%d", i))
		}
		tld.Delegate(zm.DelegationSpec{Child: base, NS: []zm.NSHost{{Name: "ns." + base, Addrs: v4Of(ss[0])}}, NSTTL: 300})
		baseLabels := dns.CountLabel(base)
		for i := range ss {
			lvl := i
			next := ss[(i+1)%levels]
			ss[i].SetDefault(authsim.Tamper(fmt.Sprintf("deeper-%d", lvl), func(q, _ *dns.Msg) *dns.Msg {
				qn := strings.ToLower(q.Question[0].Name)
				extra := dns.CountLabel(qn) - baseLabels
				if !dns.IsSubDomain(base, qn) {
					m := new(dns.Msg)
					m.SetRcode(q, dns.RcodeRefused)
					return m
				}
				if extra <= lvl {
					// at or above the zone this level serves: nothing there
					labels := dns.SplitDomainName(qn)
					zone := strings.Join(labels[len(labels)-baseLabels-extra:], ".") + "."
					m := new(dns.Msg)
					m.SetReply(q)
					m.Authoritative = true
					m.Ns = []dns.RR{&dns.SOA{Hdr: dns.RR_Header{Name: zone, Rrtype: dns.TypeSOA, Class: dns.ClassINET, Ttl: 300}, Ns: "ns." + zone, Mbox: "h." + zone, Serial: 1, Refresh: 3600, Retry: 600, Expire: 86400, Minttl: 60}}
					if opt := q.IsEdns0(); opt != nil {
						m.SetEdns0(1232, opt.Do())
					}
					return m
				}
				labels := dns.SplitDomainName(qn)
				child := strings.Join(labels[len(labels)-baseLabels-lvl-1:], ".") + "."
				return cdReferral(q, child, "ns."+child, v4Of(next)...)
			}))
		}
		f.broken[base] = "maxdepth"
		f.cdv = append(f.cdv, &cdVariant{kind: "maxdepth", apex: base, under: strings.Repeat("a.", 7) + base, types: fullQtypes})
	}
	// dnssec on: a signed zone whose DS in the parent matches none of its keys
	if f.c.Spec.DNSSEC != "off" {
		apex := "bogus.test."
		s := f.u.AddV4Only("bogus1")
		z := f.u.AddZone(zm.Spec{Apex: apex, Signed: true}, s)
		f.u.Delegate(tld, z, authsim.DelegOpts{DS: authsim.DSWrong})
		for i := 0; i < 8; i++ {
			z.AddMarked(fmt.Sprintf("h%d.%s", i, apex), dns.TypeA, 300)
		}
		f.zones[apex] = &fullZone{apex: apex, servers: []*authsim.Server{s}, zone: z, mode: "honest"}
		f.broken[apex] = "bogus"
		f.cdv = append(f.cdv, &cdVariant{kind: "bogus", apex: apex, under: apex, types: []uint16{dns.TypeA}})
	}
}

func (v *cdVariant) name(f *fullRun) string {
	v.n++
	if v.kind == "bogus" {
		return fmt.Sprintf("h%d.%s", v.n%8, v.apex) // exists: with CD=1 it resolves
	}
	return f.fresh(v.under)
}

// filedUnder lists the CD values of the retained QUESTION failures for exactly
// (name, type, IN, global audience).
func (f *fullRun) filedUnder(name string, qtype uint16) (cds []bool) {
	for _, e := range f.rs.Cache().VerifC13Failures() {
		if e.Kind == "question" && canon(e.Name) == canon(name) && e.Qtype == qtype && e.Qclass == dns.ClassINET && e.Scope == "" {
			cds = append(cds, e.CD)
		}
	}
	return cds
}

func cdErrorKind(ede string) string {
	switch {
	case strings.Contains(ede, "Delegation loop"):
		return "delegation-loop"
	case strings.Contains(ede, "Maximum recursion depth"):
		return "max-depth"
	case ede == "":
		return "no-ede"
	}
	return "other"
}

// cdSequence: fail with CD=first, look at the state, ask with the other CD
// value (another client), ask with CD=first again (a third client).
func (f *fullRun) cdSequence(v *cdVariant, first bool) {
	if f.dead {
		return
	}
	r := f.r
	mode := f.dnssecMode()
	name, qt := v.name(f), v.types[f.rng.IntN(len(v.types))]
	cdn := map[bool]string{false: "cd0", true: "cd1"}
	r.Count("full_cdfail_sequences", 1)
	o1 := f.Q("cdfail-first", f.client(), name, qt, first, qmods{})
	if f.dead {
		return
	}
	if !(o1.HasReply && o1.Rcode == dns.RcodeServerFailure && o1.Packets > 0 && !o1.EDE13) {
		// did not fail (e.g. the DS mismatch does not matter to a CD=1 client)
		r.Count("full_cdfail_first_did_not_fail_"+v.kind+"_"+cdn[first], 1)
		return
	}
	r.Count("full_cdfail_first_failed", 1)
	r.Count("full_cdfail_first_failed_dnssec_"+mode+"_"+cdn[first], 1)
	r.Count("full_cdfail_variant_"+v.kind, 1)
	r.Count("full_cdfail_error_"+cdErrorKind(o1.EDEText), 1)
	r.Distinct(fmt.Sprintf("full-cdfail|%s|dnssec-%s|%s|%s", v.kind, mode, cdn[first], cdErrorKind(o1.EDEText)))
	// white box: under which CD value was the failure filed? (a wrong one is
	// reported by checkState: state/question-failure-filed-under-other-cd)
	asked, other := false, false
	for _, cd := range f.filedUnder(name, qt) {
		if cd == first {
			asked = true
		} else {
			other = true
		}
	}
	zoneState := false
	for _, e := range f.rs.Cache().VerifC13Failures() {
		if e.Kind == "zone" && dns.IsSubDomain(canon(e.Name), canon(name)) {
			zoneState = true
		}
	}
	switch {
	case asked && !other:
		r.Count("full_cdfail_filed_under_asked_cd", 1)
		r.Count("full_cdfail_filed_under_asked_cd_dnssec_"+mode+"_"+cdn[first], 1)
	case !asked && !other:
		r.Count("full_cdfail_not_recorded", 1) // nothing demands that a failure be recorded
	}
	if !zoneState {
		r.Count("full_cdfail_no_zone_state", 1) // the failure is a pure question failure
	}
	o2 := f.Q("nearmiss:cd", f.client(), name, qt, !first, qmods{})
	if f.dead {
		return
	}
	if o2.Packets > 0 && !o2.EDE13 {
		r.Count("full_cdfail_other_cd_reached_upstream", 1)
		r.Count("full_cdfail_other_cd_reached_upstream_dnssec_"+mode+"_"+cdn[!first], 1)
	}
	o3 := f.Q("cdfail-again", f.client(), name, qt, first, qmods{})
	switch {
	case o3.Suppressed:
		r.Count("full_cdfail_same_cd_suppressed", 1)
	case o3.Packets > 0:
		r.Count("full_cdfail_same_cd_went_upstream_again", 1) // allowed (safety direction only)
	}
	if idx := len(f.c.Ops) - 1; idx >= 2 {
		f.c.Ops[idx-2].Got += fmt.Sprintf(" variant=%s dnssec=%s filed_under_asked_cd=%v filed_under_other_cd=%v zone_state=%v", v.kind, mode, asked, other, zoneState)
	}
}

func (f *fullRun) scenarioCDFail() {
	f.warm()
	order := append([]*cdVariant(nil), f.cdv...)
	f.rng.Shuffle(len(order), func(i, j int) { order[i], order[j] = order[j], order[i] })
	for _, v := range order {
		// CD=0 first, then the mirror image on another name
		firsts := []bool{false, true}
		if f.rng.IntN(2) == 0 {
			firsts = []bool{true, false}
		}
		for _, first := range firsts {
			f.cdSequence(v, first)
		}
	}
	// a healthy name still resolves
	f.Q("nearmiss:zone-sibling", f.client(), f.fresh("ok.test."), dns.TypeA, false, qmods{})
}
