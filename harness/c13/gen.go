package main

// Adaptive history generator: episodes composed of primitive ops. Every
// random choice comes from the per-history PRNG; the model is consulted only
// to size the virtual-clock steps (bound(k) of what was just recorded).

import (
	"fmt"
	"math/rand/v2"
	"strings"
	"time"

	"github.com/miekg/dns"
	"github.com/semihalev/sdns/zzverif/vlib"
)

type gen struct {
	h    *hist
	rng  *rand.Rand
	zone int
}

var (
	qtypes    = []uint16{dns.TypeA, dns.TypeAAAA, dns.TypeTXT, dns.TypeMX, dns.TypeNS, dns.TypeSRV}
	failCodes = []int{dns.RcodeServerFailure, dns.RcodeServerFailure, dns.RcodeServerFailure, dns.RcodeRefused, dns.RcodeNotImplemented, dns.RcodeNotAuth}
	entries   = []string{"msg/udp", "msg/udp", "msg/tcp", "msg/doh", "raw/udp", "raw/udp", "raw/tcp"}
	// what clients send; several map to the same audience after clamping
	ecsSent = []string{"", "", "198.51.100.0/24", "198.51.100.77/32", "198.51.101.0/24", "198.51.0.0/16",
		"198.51.100.128/25", "2001:db8:aa::/48", "2001:db8:aa:bb00::/56", "2001:db8:aa:bb00::1/128", "0.0.0.0/0"}
	otherClasses = []uint16{dns.ClassHESIOD, dns.ClassCSNET, dns.ClassCHAOS}
	localCauses  = []string{"deadline", "cancel", "besteffort", "mark-attempt", "mark-maxrec", "mark-work", "mark-deadline", "mark-canceled", "mark-probe"}
	localBudget  = []string{"budget", "budget-internal"}
)

func (g *gen) client() string {
	if g.rng.IntN(5) == 0 {
		return fmt.Sprintf("[2001:db8:c::%x]:%d", 1+g.rng.IntN(0xfffe), 1024+g.rng.IntN(60000))
	}
	return fmt.Sprintf("203.0.113.%d:%d", 1+g.rng.IntN(254), 1024+g.rng.IntN(60000))
}

func (g *gen) entry() string { return entries[g.rng.IntN(len(entries))] }

func (g *gen) freshZone() string {
	g.zone++
	return fmt.Sprintf("z%d.test.", g.zone)
}

func (g *gen) ecs() string {
	if !g.h.c.Cfg.ECS {
		// ECS handling off: whatever the client sends is the global audience
		if g.rng.IntN(4) == 0 {
			return ecsSent[g.rng.IntN(len(ecsSent))]
		}
		return ""
	}
	return ecsSent[g.rng.IntN(len(ecsSent))]
}

// scopedECS prefers an ECS option that maps to a scoped audience when ECS
// handling is on (3 of 4); otherwise like ecs().
func (g *gen) scopedECS() string {
	e := g.ecs()
	if g.h.c.Cfg.ECS && g.rng.IntN(4) != 0 {
		for i := 0; i < 20 && audience(true, e) == ""; i++ {
			e = ecsSent[g.rng.IntN(len(ecsSent))]
		}
	}
	return e
}

func (g *gen) mixCase(name string) string {
	if g.rng.IntN(3) != 0 {
		return name
	}
	b := []byte(name)
	for i, c := range b {
		if c >= 'a' && c <= 'z' && g.rng.IntN(2) == 0 {
			b[i] = c - 32
		}
	}
	return string(b)
}

func (g *gen) failPlan() plan {
	p := plan{Kind: "fail", Rcode: failCodes[g.rng.IntN(len(failCodes))]}
	if g.rng.IntN(3) == 0 {
		p.EDE = 1 + []int{22, 23, 0, 9, 6}[g.rng.IntN(5)]
	}
	return p
}

func (g *gen) okPlan() plan {
	return plan{Kind: "ok", OK: []string{"a", "a", "nx", "nodata"}[g.rng.IntN(4)]}
}

// base returns a query op for (name, type, cd, ecs) from a fresh client.
func (g *gen) base(name string, qtype uint16, cd bool, ecs string) op {
	return op{Client: g.client(), Entry: g.entry(), Name: g.mixCase(name), Qtype: qtype, Qclass: dns.ClassINET,
		CD: cd, ECS: ecs, EDNS: g.rng.IntN(6) != 0, DO: g.rng.IntN(3) == 0}
}

func (g *gen) again(o op, p plan, tag string) op {
	n := g.base(o.Name, o.Qtype, o.CD, o.ECS)
	n.Name = g.mixCase(canon(o.Name))
	n.Qclass = o.Qclass
	n.Plan, n.Tag = p, tag
	return n
}

func (g *gen) eps() time.Duration {
	switch g.rng.IntN(3) {
	case 0:
		return 0
	case 1:
		return time.Duration(1 + g.rng.IntN(1000))
	}
	return time.Duration(1+g.rng.IntN(2000)) * time.Microsecond
}

// expire steps the virtual clock to the end of the envelope of what covers k
// (never further than eps beyond it).
func (g *gen) expire(k qkey) {
	need := time.Duration(0)
	m := g.h.m
	look := func(e *mEntry) {
		if m.live(e) {
			if n := m.bound(e.K) - (m.adv - e.RecAdv); n > need {
				need = n
			}
		}
	}
	look(m.q[k])
	for _, z := range zonesOf(k.Name) {
		look(m.z[zkey{z, k.Qclass}])
	}
	if need > 0 {
		g.h.Adv(need + g.eps())
	} else if g.rng.IntN(4) == 0 {
		g.h.Adv(g.eps() + 1)
	}
}

// gap advances either exactly to the envelope end, stops short of it (a
// may-suppress probe follows) or far beyond it.
func (g *gen) gap(o op) {
	k := g.h.keyOf(&o)
	m := g.h.m
	switch g.rng.IntN(7) {
	case 0: // stop short, probe, then finish
		e := m.q[k]
		if m.live(e) {
			b := m.bound(e.K)
			g.h.Adv(time.Duration(float64(b) * (0.2 + 0.7*g.rng.Float64())))
			g.h.Q(g.again(o, g.failPlan(), "within-partial"))
		}
		g.expire(k)
	case 1: // far beyond (the implementation restarts the streak after a quiet max)
		g.expire(k)
		g.h.Adv(time.Duration(g.rng.Int64N(int64(2*m.max) + 1)))
	default:
		g.expire(k)
	}
}

func altAudience(rng *rand.Rand, ecsOn bool, cur string) (string, bool) {
	if !ecsOn {
		return "", false
	}
	a := audience(true, cur)
	for i := 0; i < 20; i++ {
		c := ecsSent[rng.IntN(len(ecsSent))]
		if audience(true, c) != a {
			return c, true
		}
	}
	return "", false
}

// nearMisses probes, right after o failed, questions that differ from it in
// exactly one dimension.
func (g *gen) nearMisses(o op, prob float64) {
	name := canon(o.Name)
	labels := dns.SplitDomainName(name)
	dims := []string{"name-sibling", "name-child", "name-parent", "name-label", "type", "class", "cd", "scope"}
	g.rng.Shuffle(len(dims), func(i, j int) { dims[i], dims[j] = dims[j], dims[i] })
	for _, d := range dims {
		if g.rng.Float64() > prob {
			continue
		}
		n := g.base(name, o.Qtype, o.CD, o.ECS)
		n.Qclass = o.Qclass
		n.Tag = "nearmiss:" + strings.SplitN(d, "-", 2)[0]
		switch d {
		case "name-sibling":
			if len(labels) < 2 {
				continue
			}
			n.Name = "sib" + labels[0] + "." + strings.Join(labels[1:], ".") + "."
		case "name-child":
			n.Name = "sub." + name
		case "name-parent":
			if len(labels) < 2 {
				continue
			}
			n.Name = strings.Join(labels[1:], ".") + "."
		case "name-label":
			n.Name = "x" + name // shares the suffix string, not the label boundary
		case "type":
			for n.Qtype == o.Qtype {
				n.Qtype = qtypes[g.rng.IntN(len(qtypes))]
			}
		case "class":
			n.Qclass = otherClasses[g.rng.IntN(len(otherClasses))]
		case "cd":
			n.CD = !o.CD
		case "scope":
			alt, ok := altAudience(g.rng, g.h.c.Cfg.ECS, o.ECS)
			if !ok {
				continue
			}
			n.ECS = alt
		}
		n.Name = g.mixCase(n.Name)
		if g.rng.IntN(10) < 7 {
			n.Plan = g.okPlan()
		} else {
			n.Plan = g.failPlan()
		}
		g.h.Q(n)
	}
}

// exactStreak: one question fails depth times in a row, every retry placed at
// the end of the doubling envelope.
func (g *gen) exactStreak(maxDepth int) {
	z := g.freshZone()
	name := []string{"a." + z, z, "deep.a." + z}[g.rng.IntN(3)]
	o := g.base(name, qtypes[g.rng.IntN(len(qtypes))], g.rng.IntN(3) == 0, g.ecs())
	depth := 1 + g.rng.IntN(maxDepth)
	for i := 0; i < depth; i++ {
		g.h.Q(g.again(o, g.failPlan(), "fail"))
		if g.rng.IntN(2) == 0 {
			g.h.Q(g.again(o, g.failPlan(), "within"))
		}
		if i == 0 || g.rng.IntN(4) == 0 {
			g.nearMisses(o, 0.6)
		}
		g.gap(o)
	}
	p := g.okPlan()
	if g.rng.IntN(2) == 0 {
		p = g.failPlan()
	}
	g.h.Q(g.again(o, p, "probe-after"))
}

// zoneStreak: the stub reports "every server of zone Z failed" the way the
// resolver does; descendants may be suppressed, siblings / the parent / other
// classes / look-alike labels must not.
func (g *gen) zoneStreak(maxDepth int) {
	z := g.freshZone()
	depth := 1 + g.rng.IntN(maxDepth)
	under := func(i int) string {
		return []string{"a." + z, "b." + z, "c.d." + z, z, fmt.Sprintf("n%d.%s", i, z), fmt.Sprintf("m%d.d.%s", i, z)}[g.rng.IntN(6)]
	}
	sticky := g.rng.IntN(3) == 0
	first := g.base("f0."+z, qtypes[g.rng.IntN(len(qtypes))], g.rng.IntN(4) == 0, g.ecs())
	for i := 0; i < depth; i++ {
		f := first
		if !sticky {
			f = g.base(fmt.Sprintf("f%d.%s", i, z), qtypes[g.rng.IntN(len(qtypes))], g.rng.IntN(4) == 0, g.ecs())
		}
		p := g.failPlan()
		p.ZoneFail = z
		if g.rng.IntN(5) == 0 {
			// a deeper zone cut fails as well
			f.Name = fmt.Sprintf("f%d.d.%s", i, z)
			if g.rng.IntN(2) == 0 {
				p.ZoneFail = "d." + z
			}
		}
		g.h.Q(g.again(f, p, "zone-fail"))
		// descendants: any type / CD / audience may be suppressed
		for j, n := 0, 1+g.rng.IntN(4); j < n; j++ {
			d := g.base(under(i*7+j), qtypes[g.rng.IntN(len(qtypes))], g.rng.IntN(2) == 0, g.ecs())
			d.Plan, d.Tag = g.okPlanOrFail(), "zone-descendant"
			if p.ZoneFail != z {
				d.Name = "q." + p.ZoneFail
			}
			g.h.Q(d)
		}
		if i == 0 || g.rng.IntN(3) == 0 {
			g.zoneNearMisses(z, p.ZoneFail)
		}
		g.expire(g.h.keyOf(&f))
		// the zone entry itself may outlast the question's
		g.expire(qkey{Name: canon("zz." + p.ZoneFail), Qclass: dns.ClassINET})
	}
	last := g.base(fmt.Sprintf("last.%s", z), qtypes[g.rng.IntN(len(qtypes))], g.rng.IntN(2) == 0, g.ecs())
	last.Plan, last.Tag = g.okPlanOrFail(), "probe-after"
	g.h.Q(last)
}

func (g *gen) okPlanOrFail() plan {
	if g.rng.IntN(3) == 0 {
		return g.failPlan()
	}
	return g.okPlan()
}

func (g *gen) zoneNearMisses(z, failed string) {
	labels := dns.SplitDomainName(z)
	type nm struct {
		name  string
		class uint16
		tag   string
	}
	cands := []nm{
		{"a.sib" + z, dns.ClassINET, "nearmiss:zone-sibling"},
		{"sib" + z, dns.ClassINET, "nearmiss:zone-sibling"},
		{"a.x" + z, dns.ClassINET, "nearmiss:zone-label"},
		{strings.Join(labels[1:], ".") + ".", dns.ClassINET, "nearmiss:zone-parent"},
		{"other." + strings.Join(labels[1:], ".") + ".", dns.ClassINET, "nearmiss:zone-parent"},
		{"a." + z, otherClasses[g.rng.IntN(len(otherClasses))], "nearmiss:zone-class"},
	}
	if failed != z {
		// only the deeper cut failed: the rest of z is alive
		cands = append(cands, nm{"alive." + z, dns.ClassINET, "nearmiss:zone-above-cut"}, nm{z, dns.ClassINET, "nearmiss:zone-above-cut"})
	}
	for _, c := range cands {
		if g.rng.IntN(3) == 0 {
			continue
		}
		n := g.base(c.name, qtypes[g.rng.IntN(len(qtypes))], g.rng.IntN(3) == 0, g.ecs())
		n.Qclass, n.Tag = c.class, c.tag
		n.Plan = g.okPlan() // a useful answer here resets only zones at/above ITS name
		if strings.HasSuffix(c.tag, "zone-parent") || strings.HasSuffix(c.tag, "zone-above-cut") {
			// an answer for the parent is at/above nothing that failed, but one
			// for z itself would reset z: keep z's state by failing instead
			n.Plan = g.failPlan()
		}
		g.h.Q(n)
	}
}

// resetEpisode: a useful answer must restart the backoff at the minimum.
func (g *gen) resetEpisode() {
	z := g.freshZone()
	if g.rng.IntN(2) == 0 {
		// the failing question belongs to one audience; with ECS handling on
		// mostly a scoped one (state only ResetMatching clears)
		o := g.base("r."+z, qtypes[g.rng.IntN(3)], g.rng.IntN(3) == 0, g.scopedECS())
		// sometimes the zone fails along with it: the one useful answer must
		// reset the audience's question state AND the shared zone history
		withZone := g.rng.IntN(3) == 0
		fail := func() plan {
			p := g.failPlan()
			if withZone {
				p.ZoneFail = z
			}
			return p
		}
		for i, n := 0, 2+g.rng.IntN(3); i < n; i++ {
			g.h.Q(g.again(o, fail(), "fail"))
			g.expire(g.h.keyOf(&o))
		}
		g.h.Q(g.again(o, g.okPlan(), "useful"))
		// let the useful answer itself leave the answer cache (5 s floor)
		g.h.Adv(5*time.Second + time.Duration(g.rng.IntN(1500))*time.Millisecond + time.Millisecond)
		g.h.Q(g.again(o, fail(), "fail-after-useful"))
		g.expire(g.h.keyOf(&o))
		g.h.Q(g.again(o, g.okPlanOrFail(), "probe-after-reset"))
		return
	}
	for i, n := 0, 2+g.rng.IntN(3); i < n; i++ {
		f := g.base(fmt.Sprintf("f%d.%s", i, z), qtypes[g.rng.IntN(3)], false, g.ecs())
		p := g.failPlan()
		p.ZoneFail = z
		f.Plan, f.Tag = p, "zone-fail"
		g.h.Q(f)
		g.expire(g.h.keyOf(&f))
	}
	u := g.base("useful."+z, dns.TypeA, g.rng.IntN(2) == 0, g.ecs())
	u.Plan, u.Tag = g.okPlan(), "useful"
	g.h.Q(u)
	// right away: nothing covers other names under z any more
	n1 := g.base("n1."+z, dns.TypeA, false, g.ecs())
	p := g.failPlan()
	p.ZoneFail = z
	n1.Plan, n1.Tag = p, "zone-fail-after-useful"
	g.h.Q(n1)
	g.expire(g.h.keyOf(&n1))
	n2 := g.base("n2."+z, dns.TypeAAAA, g.rng.IntN(2) == 0, g.ecs())
	n2.Plan, n2.Tag = g.okPlanOrFail(), "probe-after-reset"
	g.h.Q(n2)
}

// localEpisode (part ii): a failure that belongs to one request, then a
// DIFFERENT client asks the same question.
func (g *gen) localEpisode() {
	z := g.freshZone()
	causes := localCauses
	if g.h.c.Cfg.Enforce && g.rng.IntN(2) == 0 {
		causes = localBudget
	}
	cause := causes[g.rng.IntN(len(causes))]
	o := g.base("l."+z, qtypes[g.rng.IntN(3)], g.rng.IntN(3) == 0, g.ecs())
	prior := g.rng.IntN(3) == 0
	if prior {
		// the question has an expired genuine failure: the local one must not renew it
		g.h.Q(g.again(o, g.failPlan(), "fail"))
		g.expire(g.h.keyOf(&o))
	}
	g.h.Q(g.again(o, plan{Kind: "local", Local: cause}, "local"))
	f := g.again(o, g.okPlanOrFail(), "local-followup")
	g.h.Q(f)
	if g.rng.IntN(2) == 0 {
		// and a sibling name: nothing zone-wide may have been recorded either
		s := g.base("other."+z, dns.TypeA, false, g.ecs())
		s.Plan, s.Tag = g.okPlan(), "local-sibling"
		g.h.Q(s)
	}
}

// floodEpisode: more failing names than the failure cache holds.
func (g *gen) floodEpisode() {
	size := g.h.c.Cfg.Size
	if size == 0 || size > 128 {
		size = 24
	}
	z := g.freshZone()
	n := size*2 + g.rng.IntN(size+1)
	var fired []op
	for i := 0; i < n; i++ {
		o := g.base(fmt.Sprintf("e%d.%s", i, z), qtypes[g.rng.IntN(2)], false, "")
		o.Plan, o.Tag = g.failPlan(), "flood"
		g.h.Q(o)
		fired = append(fired, o)
		if g.rng.IntN(8) == 0 {
			nm := g.base(fmt.Sprintf("never%d.%s", i, z), dns.TypeA, false, "")
			nm.Plan, nm.Tag = g.okPlan(), "nearmiss:name"
			g.h.Q(nm)
		}
	}
	if kept := g.h.cache.VerifC13RawFailureLen(); kept < len(fired) {
		g.h.r.Count("flood_evictions_observed", 1)
		g.h.r.Max("flood_evicted_entries_max", int64(len(fired)-kept))
	}
	for i := 0; i < 6 && len(fired) > 0; i++ {
		o := fired[g.rng.IntN(len(fired))]
		g.h.Q(g.again(o, g.failPlan(), "after-flood"))
	}
	o := fired[g.rng.IntN(len(fired))]
	g.expire(g.h.keyOf(&o))
	g.h.Q(g.again(o, g.okPlanOrFail(), "probe-after"))
}

// killSwitchHistory: rfc9520=false — nothing is recorded, nothing is served,
// not even state planted behind the switch.
func (g *gen) killSwitchHistory() {
	z := g.freshZone()
	o := g.base("k."+z, dns.TypeA, false, g.ecs())
	for i := 0; i < 3; i++ {
		g.h.Q(g.again(o, g.failPlan(), "fail"))
	}
	zf := g.base("zf."+z, dns.TypeA, false, "")
	p := g.failPlan()
	p.ZoneFail = z
	zf.Plan, zf.Tag = p, "zone-fail"
	g.h.Q(zf)
	d := g.base("under."+z, dns.TypeAAAA, g.rng.IntN(2) == 0, g.ecs())
	d.Plan, d.Tag = g.okPlanOrFail(), "zone-descendant"
	g.h.Q(d)
	// planted state
	s := g.base("seeded."+z, dns.TypeA, g.rng.IntN(2) == 0, g.ecs())
	g.h.SeedQ(s)
	g.h.Q(g.again(s, g.failPlan(), "over-seeded"))
	z2 := g.freshZone()
	g.h.SeedZ(z2, dns.ClassINET)
	u := g.base("under."+z2, dns.TypeA, false, "")
	u.Plan, u.Tag = g.okPlan(), "over-seeded-zone"
	g.h.Q(u)
	g.h.Q(g.again(u, g.failPlan(), "over-seeded-zone"))
}

func runOneHistory(r *vlib.Run, idx int, cs cfgSpec, rng *rand.Rand) {
	h, err := newHist(r, idx, cs)
	if err != nil {
		r.Inconclusive(fmt.Sprintf("history %d: %v", idx, err))
		return
	}
	defer h.close()
	g := &gen{h: h, rng: rng}
	r.Count("histories", 1)
	r.DistinctIn("configs", cs.String())
	if cs.Off {
		r.Count("killswitch_histories", 1)
		g.killSwitchHistory()
		return
	}
	// enough doublings to reach the configured maximum in at least one episode
	toMax := 1
	for b := h.m.min; b < h.m.max; b *= 2 {
		toMax++
	}
	g.exactStreak(toMax + 1)
	for i, n := 0, 2+rng.IntN(3); i < n; i++ {
		switch rng.IntN(9) {
		case 0, 1:
			g.exactStreak(4)
		case 2, 3:
			g.zoneStreak(min(toMax+1, 6))
		case 4, 5:
			g.resetEpisode()
		case 6, 7:
			g.localEpisode()
		case 8:
			if cs.Size > 0 && cs.Size <= 128 {
				g.floodEpisode()
			} else {
				g.zoneStreak(3)
			}
		}
	}
	g.localEpisode()
	if rng.IntN(2) == 0 {
		g.zoneStreak(min(toMax+1, 12))
	}
}
