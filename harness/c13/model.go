package main

// Reference model of "what may legitimately be suppressed right now".
//
// SAFETY DIRECTION ONLY. The model keeps a SUPERSET of the failure state the
// implementation may hold and an UPPER bound on every backoff:
//   - an entry exists for a key only after a cacheable failure for exactly
//     that key reached the stub (or the stub called Store.RecordZoneFailure
//     like the resolver does);
//   - K counts those recordings since the last useful answer, so K >= the
//     implementation's streak (which also restarts after eviction or a long
//     quiet gap);
//   - bound(K) = min(configured_min * 2^(K-1), configured_max) — exactly the
//     envelope of the statement;
//   - an entry stops covering anything once a lower bound on the virtual time
//     elapsed since the END of the recording request reaches bound(K).
// A query the model says nothing may cover MUST reach the stub.

import (
	"net/netip"
	"strings"
	"time"

	"github.com/miekg/dns"
)

type qkey struct {
	Name   string
	Qtype  uint16
	Qclass uint16
	CD     bool
	Scope  string // "" = shared global audience
}

type zkey struct {
	Zone   string
	Qclass uint16
}

type mEntry struct {
	K      int
	RecEnd time.Time     // real instant after the last recording request returned
	RecAdv time.Duration // model.adv at that instant
	Tomb   bool          // deleted by a useful answer (kept for diagnosis)
	Ever   bool          // was recorded at least once
	Seeded bool          // planted by the harness through the exported FailureCache API
	Resets int           // useful answers that reset this entry so far
}

type model struct {
	min, max time.Duration
	disabled bool // rfc9520 = false
	adv      time.Duration
	q        map[qkey]*mEntry
	z        map[zkey]*mEntry
	local    map[qkey]string // last request-local cause injected for the key
	maxK     int
}

func newModel(min, max time.Duration, disabled bool) *model {
	return &model{min: min, max: max, disabled: disabled,
		q: map[qkey]*mEntry{}, z: map[zkey]*mEntry{}, local: map[qkey]string{}}
}

// bound is the statement's envelope for the k-th consecutive failure.
func (m *model) bound(k int) time.Duration {
	if k < 1 {
		return 0
	}
	b := m.min
	for i := 1; i < k && b < m.max; i++ {
		b *= 2
	}
	if b > m.max {
		b = m.max
	}
	return b
}

// elapsed is a LOWER bound on the virtual time between the recording and now.
func (m *model) elapsed(e *mEntry, now time.Time) time.Duration {
	return now.Sub(e.RecEnd) + (m.adv - e.RecAdv)
}

func (m *model) live(e *mEntry) bool { return e != nil && !e.Tomb && e.K > 0 }

// zonesOf lists name itself and every ancestor down to the root.
func zonesOf(name string) []string {
	name = dns.CanonicalName(name)
	out := []string{name}
	for name != "." {
		i, end := dns.NextLabel(name, 0)
		if end {
			name = "."
		} else {
			name = name[i:]
		}
		out = append(out, name)
	}
	return out
}

type cover struct {
	live           int // covering live entries
	possiblyActive bool
	tomb           bool   // a covering tombstone (useful answer seen) exists
	seeded         bool   // a covering harness-seeded entry exists
	byZone         string // zone of a possibly-active covering zone entry
	exactActive    bool
	// the covering entry that expired last (largest remaining envelope), for
	// the signature of an envelope violation
	tightK      int
	tightOver   time.Duration // elapsed - bound (>= 0 when surely expired)
	tightKind   string
	tightBound  time.Duration
	tightResets int // useful answers that had reset that entry before its current streak
}

func (m *model) covering(k qkey, now time.Time) cover {
	var c cover
	first := true
	consider := func(e *mEntry, kind, zone string) {
		if e == nil {
			return
		}
		if e.Tomb {
			c.tomb = true
			return
		}
		if e.K < 1 {
			return
		}
		c.live++
		if e.Seeded {
			c.seeded = true
		}
		b := m.bound(e.K)
		over := m.elapsed(e, now) - b
		if over < 0 {
			c.possiblyActive = true
			if kind == "zone" {
				c.byZone = zone
			} else {
				c.exactActive = true
			}
		}
		if first || over < c.tightOver {
			first = false
			c.tightK, c.tightOver, c.tightKind, c.tightBound, c.tightResets = e.K, over, kind, b, e.Resets
		}
	}
	consider(m.q[k], "question", "")
	for _, z := range zonesOf(k.Name) {
		consider(m.z[zkey{z, k.Qclass}], "zone", z)
	}
	return c
}

func (m *model) recordQuestion(k qkey, end time.Time) *mEntry {
	e := m.q[k]
	if e == nil {
		e = &mEntry{}
		m.q[k] = e
	}
	m.bump(e, end)
	return e
}

func (m *model) recordZone(z zkey, end time.Time) *mEntry {
	e := m.z[z]
	if e == nil {
		e = &mEntry{}
		m.z[z] = e
	}
	m.bump(e, end)
	return e
}

func (m *model) bump(e *mEntry, end time.Time) {
	if e.Tomb {
		e.Tomb = false
		e.K = 0
	}
	e.K++
	e.Ever = true
	e.RecEnd = end
	e.RecAdv = m.adv
	if e.K > m.maxK {
		m.maxK = e.K
	}
}

// useful applies "a useful answer resets the backoff": the exact question of
// this audience and every zone at or above the name.
func (m *model) useful(k qkey) (reset int) {
	if e := m.q[k]; e != nil && !e.Tomb {
		e.Tomb = true
		e.K = 0
		e.Resets++
		reset++
	}
	for _, z := range zonesOf(k.Name) {
		if e := m.z[zkey{z, k.Qclass}]; e != nil && !e.Tomb {
			e.Tomb = true
			e.K = 0
			e.Resets++
			reset++
		}
	}
	return reset
}

// audience maps the ECS option a client sent to the cache audience sdns files
// it under: nothing when ECS handling is off, otherwise the source prefix
// clamped to the forwarding ceiling (/24, /56 by default); /0 is the shared
// global audience.
func audience(ecsOn bool, ecs string) string {
	if !ecsOn || ecs == "" {
		return ""
	}
	p, err := netip.ParsePrefix(ecs)
	if err != nil {
		return ""
	}
	bits := p.Bits()
	a := p.Addr()
	if a.Is4In6() {
		a = a.Unmap()
	}
	ceil := 24
	if a.Is6() {
		ceil = 56
	}
	if bits > ceil {
		bits = ceil
	}
	if bits == 0 {
		return ""
	}
	q, err := a.Prefix(bits)
	if err != nil {
		return ""
	}
	return q.Masked().String()
}

func canon(name string) string { return strings.ToLower(dns.CanonicalName(name)) }
