package main

// History engine for parts (i) and (ii): one real pipeline (… edns … cache,
// stub) per history, driven by primitive ops (query / advance / seed), every
// op judged against the model in model.go. The executed op list IS the replay
// case.

import (
	"context"
	"encoding/hex"
	"fmt"
	"net"
	"net/netip"
	"strings"
	"sync"
	"time"

	"github.com/miekg/dns"
	"github.com/semihalev/sdns/config"
	"github.com/semihalev/sdns/middleware"
	mcache "github.com/semihalev/sdns/middleware/cache"
	"github.com/semihalev/sdns/zzverif/replycontract"
	"github.com/semihalev/sdns/zzverif/stack"
	"github.com/semihalev/sdns/zzverif/vlib"
)

type cfgSpec struct {
	MinMS   int64 `json:"min_ms"` // 0 = field omitted (default 5 s)
	MaxMS   int64 `json:"max_ms"` // 0 = field omitted (default 5 min)
	Size    int   `json:"size"`   // 0 = field omitted (4096)
	ECS     bool  `json:"ecs"`
	Off     bool  `json:"rfc9520_off"`
	Enforce bool  `json:"enforce"` // recursion_firewall mode=enforce, max_outbound_queries=1, max_internal_queries=1
}

func (c cfgSpec) effective() (min, max time.Duration) {
	min, max = 5*time.Second, 5*time.Minute
	if c.MinMS > 0 {
		min = time.Duration(c.MinMS) * time.Millisecond
	}
	if c.MaxMS > 0 {
		max = time.Duration(c.MaxMS) * time.Millisecond
	}
	return
}

func (c cfgSpec) String() string {
	return fmt.Sprintf("min=%dms max=%dms size=%d ecs=%v off=%v enforce=%v", c.MinMS, c.MaxMS, c.Size, c.ECS, c.Off, c.Enforce)
}

func (c cfgSpec) build() *config.Config {
	cfg := stack.DefaultConfig()
	cfg.RecursionFirewall.FailureCacheMinTTL.Duration = time.Duration(c.MinMS) * time.Millisecond
	cfg.RecursionFirewall.FailureCacheMaxTTL.Duration = time.Duration(c.MaxMS) * time.Millisecond
	cfg.RecursionFirewall.FailureCacheSize = c.Size
	if c.Enforce {
		cfg.RecursionFirewall.Mode = config.RecursionFirewallModeEnforce
		cfg.RecursionFirewall.MaxOutboundQueries = 1
		cfg.RecursionFirewall.MaxInternalQueries = 1
	}
	if c.ECS {
		cfg.ECS.Enabled = true
	}
	if c.Off {
		off := false
		cfg.RFC9520 = &off
	}
	return cfg
}

type plan struct {
	Kind     string `json:"kind"` // fail | ok | local
	Rcode    int    `json:"rcode,omitempty"`
	EDE      int    `json:"ede,omitempty"` // upstream EDE info code + 1 (0 = none)
	OK       string `json:"ok,omitempty"`  // a | nx | nodata
	ZoneFail string `json:"zone_fail,omitempty"`
	Local    string `json:"local,omitempty"`
}

type op struct {
	Op     string     `json:"op"` // q | adv | seedq | seedz
	Client string     `json:"client,omitempty"`
	Entry  string     `json:"entry,omitempty"` // msg/udp msg/tcp msg/doh raw/udp raw/tcp
	Name   string     `json:"name,omitempty"`
	Qtype  uint16     `json:"qtype,omitempty"`
	Qclass uint16     `json:"qclass,omitempty"`
	CD     bool       `json:"cd,omitempty"`
	EDNS   bool       `json:"edns,omitempty"`
	DO     bool       `json:"do,omitempty"`
	ECS    string     `json:"ecs,omitempty"` // "addr/bits" as sent by the client
	Plan   plan       `json:"plan"`
	Tag    string     `json:"tag,omitempty"`
	AdvNS  int64      `json:"adv_ns,omitempty"`
	Burst  *burstSpec `json:"burst,omitempty"`
	// filled while executing (evidence in the replay file, ignored on replay)
	Got string `json:"got,omitempty"`
}

type histCase struct {
	Kind  string  `json:"kind"` // "hist"
	Index int     `json:"index"`
	Cfg   cfgSpec `json:"cfg"`
	Ops   []op    `json:"ops"`
	Upto  int     `json:"violating_op,omitempty"`
	// Repeat > 1 (replay only): re-execute the case up to that many times, on a
	// fresh pipeline each, until it reproduces — for cases that are schedules.
	Repeat int `json:"repeat,omitempty"`
}

type outcome struct {
	Reached    int
	HasReply   bool
	Rcode      int
	EDE        []uint16
	EDE13      bool
	Suppressed bool // no stub call, SERVFAIL reply
	Answers    int
	MustReach  bool
	Cover      cover
}

type hist struct {
	r     *vlib.Run
	c     histCase
	st    *stack.Stack
	cache *mcache.Cache
	m     *model

	mu      sync.Mutex
	cur     *op
	entered chan struct{}
	burst   *burstState // non-nil while a follower burst is in flight

	dead bool // a harness-level problem: stop judging this history
}

func newHist(r *vlib.Run, idx int, cs cfgSpec) (*hist, error) {
	h := &hist{r: r, c: histCase{Kind: "hist", Index: idx, Cfg: cs}}
	st, err := stack.New(stack.Options{Config: cs.build(), Stub: h.stub})
	if err != nil {
		return nil, err
	}
	h.st = st
	h.cache = st.Cache()
	if h.cache == nil {
		st.Close()
		return nil, fmt.Errorf("no cache middleware in chain")
	}
	min, max := cs.effective()
	imin, imax, disabled := h.cache.VerifC13Bounds()
	if disabled != cs.Off {
		st.Close()
		return nil, fmt.Errorf("kill switch state %v, configured %v", disabled, cs.Off)
	}
	h.m = newModel(min, max, cs.Off)
	if imin != min || imax != max {
		// Configured bounds not applied: the envelope of the statement is
		// the configured one, so this is a verdict, not a harness error.
		r.Violation("config/bounds-not-applied",
			fmt.Sprintf("failure cache runs with initial=%v max=%v although %s was configured", imin, imax, cs), h.c)
	}
	return h, nil
}

func (h *hist) close() { h.st.Close() }

// ---------------------------------------------------------------- stub

func soaFor(name string) dns.RR {
	zone := "test."
	if !dns.IsSubDomain(zone, name) {
		zone = "."
	}
	return &dns.SOA{Hdr: dns.RR_Header{Name: zone, Rrtype: dns.TypeSOA, Class: dns.ClassINET, Ttl: 1},
		Ns: "ns." + zone, Mbox: "h." + zone, Serial: 1, Refresh: 60, Retry: 60, Expire: 60, Minttl: 1}
}

func localErr(kind string, q dns.Question) error {
	switch kind {
	case "mark-attempt":
		return &middleware.ResolutionAttemptLimitError{Question: q, Endpoint: "192.0.2.1:53", Transport: "udp"}
	case "mark-maxrec":
		return middleware.ErrMaxRecursion
	case "mark-work":
		return &middleware.RecursionWorkLimitError{Kind: middleware.RecursionWorkOutboundQuery, Limit: 1}
	case "mark-deadline":
		return fmt.Errorf("upstream exchange: %w", context.DeadlineExceeded)
	case "mark-canceled":
		return context.Canceled
	case "mark-probe":
		return middleware.ErrFailureProbeLimit
	}
	return nil
}

func (h *hist) stub(ctx context.Context, req *stack.StubRequest) *stack.StubReply {
	h.mu.Lock()
	o := h.cur
	entered := h.entered
	b := h.burst
	h.mu.Unlock()
	if b != nil {
		return b.stub(ctx, req, h)
	}
	if o == nil {
		return &stack.StubReply{Rcode: dns.RcodeServerFailure}
	}
	return stubReply(ctx, req, o.Plan, h.cache, entered)
}

// stubReply plays one scripted upstream behaviour. It is shared by the
// sequential histories and the follower bursts.
func stubReply(ctx context.Context, req *stack.StubRequest, p plan, c *mcache.Cache, entered chan struct{}) *stack.StubReply {
	// every real resolution spends at least one outbound query
	_ = middleware.DebitRecursionWork(ctx, middleware.RecursionWorkOutboundQuery)
	withOPT := func(m *dns.Msg) *dns.Msg {
		if req.OPT != nil {
			m.Extra = append(m.Extra, dns.Copy(req.OPT))
		}
		return m
	}
	switch p.Kind {
	case "ok":
		m := new(dns.Msg)
		switch p.OK {
		case "nx":
			m.Rcode = dns.RcodeNameError
			m.Ns = []dns.RR{soaFor(req.Q.Name)}
		case "nodata":
			m.Ns = []dns.RR{soaFor(req.Q.Name)}
		default:
			if rr := stack.MarkerRR(1, req.Q.Name, req.Q.Qtype, 1); rr != nil && req.Q.Qclass == dns.ClassINET {
				m.Answer = []dns.RR{rr}
			} else {
				m.Ns = []dns.RR{soaFor(req.Q.Name)}
			}
		}
		return &stack.StubReply{Msg: withOPT(m)}
	case "local":
		rep := &stack.StubReply{Rcode: dns.RcodeServerFailure}
		switch p.Local {
		case "budget":
			// second outbound query of this request tree: over max_outbound_queries=1
			_ = middleware.DebitRecursionWork(ctx, middleware.RecursionWorkOutboundQuery)
		case "budget-internal":
			_ = middleware.DebitRecursionWork(ctx, middleware.RecursionWorkInternalQuery)
			_ = middleware.DebitRecursionWork(ctx, middleware.RecursionWorkInternalQuery)
		case "deadline", "cancel":
			if entered != nil {
				select {
				case entered <- struct{}{}:
				default:
				}
			}
			rep.Gate = make(chan struct{}) // returns when the client context ends
		case "besteffort":
			// the harness flagged the request context as optional enrichment
		default:
			if err := localErr(p.Local, req.Q); err != nil {
				rep.After = func(ctx context.Context, resp *dns.Msg) {
					// what resolver/handler.go, failover and dns64 do with a
					// terminal request-local error
					ctx, _ = middleware.EnsureResolutionAttemptGuard(ctx)
					middleware.MarkRequestLocalFailureResponse(ctx, resp, err)
				}
			}
		}
		return rep
	default: // fail
		rc := p.Rcode
		if rc == 0 {
			rc = dns.RcodeServerFailure
		}
		rep := &stack.StubReply{Rcode: rc}
		if p.ZoneFail != "" && c != nil {
			// what Resolver.recordResolutionZoneFailure does when every
			// server of the zone failed — at the END of the resolution
			// (after any gate), just before the SERVFAIL is written
			q, zone := req.Q, p.ZoneFail
			rep.After = func(context.Context, *dns.Msg) {
				if fs, ok := c.Store().(middleware.ResolutionFailureStore); ok {
					fs.RecordZoneFailure(q, zone)
				}
			}
		}
		if p.EDE > 0 {
			rep.EDE = &dns.EDNS0_EDE{InfoCode: uint16(p.EDE - 1), ExtraText: "upstream"}
		}
		return rep
	}
}

// ---------------------------------------------------------------- queries

func buildQuery(o *op) *dns.Msg {
	m := new(dns.Msg)
	m.Id = dns.Id()
	m.RecursionDesired = true
	m.CheckingDisabled = o.CD
	qc := o.Qclass
	if qc == 0 {
		qc = dns.ClassINET
	}
	m.Question = []dns.Question{{Name: o.Name, Qtype: o.Qtype, Qclass: qc}}
	if o.EDNS || o.ECS != "" {
		m.SetEdns0(1232, o.DO)
		if o.ECS != "" {
			if p, err := netip.ParsePrefix(o.ECS); err == nil {
				e := &dns.EDNS0_SUBNET{Code: dns.EDNS0SUBNET, SourceNetmask: uint8(p.Bits())}
				if p.Addr().Is4() {
					e.Family = 1
					e.Address = net.IP(p.Addr().AsSlice()).To4()
				} else {
					e.Family = 2
					e.Address = net.IP(p.Addr().AsSlice())
				}
				opt := m.IsEdns0()
				opt.Option = append(opt.Option, e)
			}
		}
	}
	return m
}

func (h *hist) keyOf(o *op) qkey {
	qc := o.Qclass
	if qc == 0 {
		qc = dns.ClassINET
	}
	return qkey{Name: canon(o.Name), Qtype: o.Qtype, Qclass: qc, CD: o.CD, Scope: audience(h.c.Cfg.ECS, o.ECS)}
}

func classify(res stack.Result) (out outcome) {
	if res.Msg == nil {
		return
	}
	out.HasReply = true
	out.Rcode = res.Msg.Rcode
	out.Answers = len(res.Msg.Answer)
	if opt := res.Msg.IsEdns0(); opt != nil {
		for _, e := range opt.Option {
			if x, ok := e.(*dns.EDNS0_EDE); ok {
				out.EDE = append(out.EDE, x.InfoCode)
				if x.InfoCode == dns.ExtendedErrorCodeCachedError {
					out.EDE13 = true
				}
			}
		}
	}
	return
}

func serveEntry(st *stack.Stack, ctx context.Context, entry, client string, m *dns.Msg) (stack.Result, []byte, string) {
	pkt, _ := m.Pack()
	switch entry {
	case "raw/udp":
		return st.ServeRaw(client, "udp", pkt), pkt, "udp"
	case "raw/tcp":
		return st.ServeRaw(client, "tcp", pkt), pkt, "tcp"
	case "msg/tcp":
		return st.ServeMsgCtx(ctx, client, "tcp", m), pkt, "tcp"
	case "msg/doh":
		return st.ServeMsgCtx(ctx, client, "doh", m), pkt, "doh"
	default:
		return st.ServeMsgCtx(ctx, client, "udp", m), pkt, "udp"
	}
}

// Q executes one query op and judges it.
func (h *hist) Q(o op) outcome {
	o.Op = "q"
	h.c.Ops = append(h.c.Ops, o)
	idx := len(h.c.Ops) - 1
	po := &h.c.Ops[idx]
	if h.dead {
		return outcome{}
	}
	r := h.r
	k := h.keyOf(po)
	m := buildQuery(po)

	entered := make(chan struct{}, 1)
	h.mu.Lock()
	h.cur = po
	h.entered = entered
	h.mu.Unlock()

	t0 := h.st.Stub().Total()
	p0 := time.Now()
	cov := h.m.covering(k, p0)
	mustReach := h.m.disabled || !cov.possiblyActive

	var (
		res   stack.Result
		pkt   []byte
		proto string
	)
	entry := po.Entry
	ctx := context.Background()
	switch {
	case po.Plan.Kind == "local" && po.Plan.Local == "deadline":
		c, cancel := context.WithTimeout(ctx, 50*time.Millisecond)
		if strings.HasPrefix(entry, "raw/") {
			entry = "msg/udp"
		}
		res, pkt, proto = serveEntry(h.st, c, entry, po.Client, m)
		cancel()
	case po.Plan.Kind == "local" && po.Plan.Local == "cancel":
		c, cancel := context.WithCancel(ctx)
		if strings.HasPrefix(entry, "raw/") {
			entry = "msg/tcp"
		}
		done := make(chan struct{})
		go func() {
			defer close(done)
			res, pkt, proto = serveEntry(h.st, c, entry, po.Client, m)
		}()
		select {
		case <-entered: // the request is inside the stub: the client goes away now
		case <-done:
		}
		cancel()
		<-done
	case po.Plan.Kind == "local" && po.Plan.Local == "besteffort":
		if strings.HasPrefix(entry, "raw/") {
			entry = "msg/udp"
		}
		res, pkt, proto = serveEntry(h.st, middleware.WithBestEffortRecursionWork(ctx), entry, po.Client, m)
	default:
		res, pkt, proto = serveEntry(h.st, ctx, entry, po.Client, m)
	}
	// ServeMsg / ServeRaw are synchronous and nothing runs in the background
	// (prefetch off); only the client-context ops need the full drain.
	if po.Plan.Kind == "local" || h.st.Stub().InFlight() != 0 {
		if !h.st.Quiesce(10 * time.Second) {
			r.Inconclusive(fmt.Sprintf("history %d: pipeline did not quiesce after op %d", h.c.Index, idx))
			h.dead = true
			return outcome{}
		}
	}
	p1 := time.Now()
	h.mu.Lock()
	h.cur = nil
	h.mu.Unlock()

	out := classify(res)
	out.Reached = int(h.st.Stub().Total() - t0)
	out.MustReach = mustReach
	out.Cover = cov
	out.Suppressed = out.Reached == 0 && out.HasReply && out.Rcode == dns.RcodeServerFailure
	if res.Panic != nil {
		r.Violation("panic/serve", fmt.Sprintf("the pipeline panicked serving a query: %v", res.Panic), h.replay(idx))
	}
	if res.Wrote {
		for _, b := range replycontract.Check(proto, pkt, res.Raw, replycontract.Options{ECSEnabled: h.c.Cfg.ECS}) {
			if !b.Info {
				r.Count("contract_breaches", 1)
				r.Count("contract_breach_"+b.Rule, 1)
			}
		}
	}
	po.Got = fmt.Sprintf("reached=%d rcode=%d ede=%v must=%v", out.Reached, out.Rcode, out.EDE, mustReach)

	r.Eval(1)
	r.Count("q_total", 1)
	r.Count("q_entry_"+entry, 1)
	dim := ""
	if strings.HasPrefix(po.Tag, "nearmiss:") {
		dim = strings.TrimPrefix(po.Tag, "nearmiss:")
	}

	switch {
	case out.Suppressed && mustReach:
		h.violateSuppressed(idx, po, k, cov, dim)
	case out.Suppressed:
		r.Count("q_suppressed", 1)
		if cov.exactActive {
			r.Count("suppressed_by_question_state", 1)
		} else if cov.byZone != "" {
			r.Count("suppressed_by_zone_state", 1)
			if po.CD {
				r.Count("suppressed_by_zone_state_cd", 1)
			}
			if k.Scope != "" {
				r.Count("suppressed_by_zone_state_scoped", 1)
			}
		}
		if strings.HasPrefix(entry, "raw/") {
			r.Count("q_suppressed_wire_entry", 1)
		}
		if (po.EDNS || po.ECS != "") && po.Plan.Kind != "local" {
			if out.EDE13 {
				r.Count("q_suppressed_ede13", 1)
				sampleOnce(r, "hist-suppressed", map[string]any{"part": "i stub histories", "what": "query answered from failure state: SERVFAIL + EDE 13, no stub call, while a covering failure may still be inside its envelope",
					"cfg": h.c.Cfg, "query": *po, "covering_streak": cov.tightK, "covering_kind": cov.tightKind, "covering_bound_ns": cov.tightBound, "history": h.c.Index, "op": idx})
			} else {
				r.Violation("suppressed/missing-ede13",
					fmt.Sprintf("an EDNS query was answered SERVFAIL from failure state (no stub call) without EDE 13; EDE=%v", out.EDE), h.replay(idx))
			}
		} else {
			r.Count("q_suppressed_no_edns", 1)
		}
		if out.Answers != 0 {
			r.Violation("suppressed/carries-answer", "a reply served from failure state carries answer records", h.replay(idx))
		}
	}
	if mustReach {
		r.Count("must_reach_checks", 1)
		if out.Reached > 0 {
			r.Count("must_reach_held", 1)
		} else if !out.Suppressed {
			r.Count("must_reach_served_locally_not_failure", 1) // positive cache / local answer: not a failure-state reply
		}
		switch {
		case h.m.disabled:
			r.Count("killswitch_queries", 1)
			if cov.seeded {
				r.Count("killswitch_queries_over_seeded_state", 1)
			}
		case cov.live > 0:
			// covering state existed, the envelope says it is over
			r.Count("probes_after_expiry", 1)
			switch {
			case cov.tightK == 1:
				r.Count("envelope_probe_first_interval", 1)
				if po.Tag == "probe-after-reset" && cov.tightResets > 0 {
					// fail ... useful, fail, wait the MINIMUM, probe: must reach
					kind := "question"
					switch {
					case cov.tightKind == "zone":
						kind = "zone"
					case k.Scope != "":
						kind = "scoped-question"
					}
					r.Count("restart_probe_at_min_"+kind, 1)
					if out.Reached > 0 {
						r.Count("restart_probe_at_min_reached_"+kind, 1)
					}
				}
			case cov.tightBound >= h.m.max:
				r.Count("envelope_probe_at_max", 1)
			default:
				r.Count("envelope_probe_growth", 1)
			}
			r.Max("envelope_probe_streak_max", int64(cov.tightK))
			if cov.tightK >= 3 && out.Reached > 0 {
				sampleOnce(r, "hist-expiry-probe", map[string]any{"part": "i stub histories", "what": "probe placed just after the envelope of the covering failure ended reached the stub",
					"cfg": h.c.Cfg, "query": *po, "covering_streak": cov.tightK, "covering_kind": cov.tightKind, "covering_bound_ns": cov.tightBound, "elapsed_beyond_bound_ns": cov.tightOver, "history": h.c.Index, "op": idx})
			}
			r.Distinct(fmt.Sprintf("expiry|%d|%d|k%d|%s", h.c.Cfg.MinMS, h.c.Cfg.MaxMS, cov.tightK, cov.tightKind))
		case cov.tomb:
			r.Count("probes_after_reset", 1)
		}
		if dim != "" && (len(h.m.q) > 0 || len(h.m.z) > 0) && !h.m.disabled {
			r.Count("nearmiss_"+dim, 1)
			r.Distinct(fmt.Sprintf("nearmiss|%s|%v|%v", dim, po.CD, k.Scope != ""))
		}
		if c, ok := h.m.local[k]; ok && !h.m.disabled {
			r.Count("local_followup_"+c, 1)
			if out.Reached > 0 {
				r.Count("local_followup_reached_"+c, 1)
				sampleOnce(r, "local-followup", map[string]any{"part": "ii request-local causes", "what": "after a request-local failure another client asking the same question reached the stub",
					"cause": c, "cfg": h.c.Cfg, "query": *po, "history": h.c.Index, "op": idx})
			}
			delete(h.m.local, k)
		}
	} else {
		r.Count("may_suppress_probes", 1)
	}

	// model update from what the stub was made to do
	if out.Reached > 0 {
		r.Count("q_reached_stub", 1)
		if out.Reached > 1 {
			r.Count("q_reached_stub_more_than_once", 1)
		}
		switch po.Plan.Kind {
		case "fail":
			r.Count("failures_upstream", 1)
			if !h.m.disabled {
				e := h.m.recordQuestion(k, p1)
				r.Count("failures_recorded", 1)
				r.Max("streak_depth_model_max", int64(e.K))
				r.Count(fmt.Sprintf("streak_depth_%02d", min(e.K, 12)), 1)
				if po.Plan.ZoneFail != "" {
					z := h.m.recordZone(zkey{canon(po.Plan.ZoneFail), k.Qclass}, p1)
					r.Count("zone_failures_recorded", 1)
					r.Max("zone_streak_depth_model_max", int64(z.K))
				}
			}
		case "ok":
			if n := h.m.useful(k); n > 0 {
				r.Count("useful_answers_resetting_state", 1)
			}
			r.Count("useful_answers", 1)
		case "local":
			r.Count("local_failures_injected", 1)
			r.Count("local_injected_"+po.Plan.Local, 1)
			h.m.local[k] = po.Plan.Local
		}
	}
	h.checkState(idx, po, k)
	if out.Reached > 0 && po.Plan.Kind == "fail" && !h.m.disabled && strings.HasSuffix(po.Tag, "fail-after-useful") {
		h.checkRestart(idx, po, k)
	}
	return out
}

// checkRestart is the white-box half of "a useful answer resets the backoff":
// right after the first failure that follows a useful answer, the retained
// state for what just failed must describe a FIRST failure — remaining backoff
// within the configured minimum (streak 1 unless the bounds make the streak
// unobservable). checkState has already judged the same entries against the
// model (state/streak-exceeds-consecutive-failures, state/first-backoff-
// exceeds-min); this names the clause and counts, per kind of state, that the
// path was really exercised — in particular for state only
// FailureCache.ResetMatching clears (ECS-scoped questions, zone history).
func (h *hist) checkRestart(idx int, po *op, k qkey) {
	r := h.r
	zone := canon(po.Plan.ZoneFail)
	for _, e := range h.cache.VerifC13Failures() {
		kind := ""
		switch {
		case e.Kind == "question" && canon(e.Name) == k.Name && e.Qtype == k.Qtype && e.Qclass == k.Qclass && e.CD == k.CD && e.Scope == k.Scope:
			kind = "question"
			if k.Scope != "" {
				kind = "scoped-question"
			}
		case e.Kind == "zone" && po.Plan.ZoneFail != "" && canon(e.Name) == zone && e.Qclass == k.Qclass:
			kind = "zone"
		default:
			continue
		}
		var me *mEntry
		if e.Kind == "zone" {
			me = h.m.z[zkey{zone, k.Qclass}]
		} else {
			me = h.m.q[k]
		}
		if me == nil || me.K != 1 || me.Resets == 0 || me.Seeded {
			continue // the model did not see a reset followed by exactly one failure
		}
		r.Count("restart_state_checked_"+kind, 1)
		if e.Streak == 1 {
			r.Count("restart_state_streak_1_"+kind, 1)
		}
		if e.Remaining > h.m.min {
			r.Violation("reset/backoff-not-restarted-at-min/"+kind,
				fmt.Sprintf("first failure after a useful answer: %s %s audience=%q retains streak=%d with %v of backoff left; the configured minimum is %v",
					e.Kind, e.Name, e.Scope, e.Streak, e.Remaining, h.m.min), h.replay(idx))
		}
	}
}

func (h *hist) violateSuppressed(idx int, po *op, k qkey, cov cover, dim string) {
	r := h.r
	desc := fmt.Sprintf("%s %s class %d cd=%v audience=%q", k.Name, dns.TypeToString[k.Qtype], k.Qclass, k.CD, k.Scope)
	switch {
	case h.m.disabled:
		r.Violation("killswitch/served", "rfc9520=false, yet "+desc+" was answered SERVFAIL without reaching resolution (served from failure state)", h.replay(idx))
	case h.m.local[k] != "":
		c := h.m.local[k]
		r.Violation("local/"+c+"/suppressed-other-client", "a request-local failure ("+c+") of one client suppressed "+desc+" for another client", h.replay(idx))
	case cov.live > 0:
		sig := "envelope/more-than-doubles"
		if cov.tightK == 1 {
			sig = "envelope/first-interval-exceeds-min"
		} else if cov.tightBound >= h.m.max {
			sig = "envelope/exceeds-max"
		}
		r.Violation(sig, fmt.Sprintf("%s still suppressed %v after the envelope of its covering %s failure ended (streak<=%d, bound %v, min %v, max %v)",
			desc, cov.tightOver, cov.tightKind, cov.tightK, cov.tightBound, h.m.min, h.m.max), h.replay(idx))
	case cov.tomb:
		r.Violation("reset/suppressed-after-useful-answer", desc+" suppressed although a useful answer had reset every failure state covering it", h.replay(idx))
	case dim != "":
		r.Violation("bleed/"+dim, desc+" answered from failure state although it differs from everything that failed in "+dim, h.replay(idx))
	default:
		r.Violation("bleed/unrelated", desc+" answered from failure state although nothing covering it failed", h.replay(idx))
	}
}

// checkState is the white-box half: every retained failure entry must be
// explained by a recording the model saw, with a streak and remaining backoff
// inside the envelope.
func (h *hist) checkState(idx int, po *op, k qkey) {
	r := h.r
	ents := h.cache.VerifC13Failures()
	r.Count("state_checks", 1)
	r.Max("failure_entries_max", int64(len(ents)))
	liveModel := 0
	for _, e := range h.m.q {
		if h.m.live(e) {
			liveModel++
		}
	}
	for _, e := range h.m.z {
		if h.m.live(e) {
			liveModel++
		}
	}
	if liveModel > len(ents) && !h.m.disabled {
		r.Count("state_checks_after_eviction_or_reset", 1)
	}
	for _, e := range ents {
		var me *mEntry
		if e.Kind == "zone" {
			me = h.m.z[zkey{canon(e.Name), e.Qclass}]
		} else {
			me = h.m.q[qkey{Name: canon(e.Name), Qtype: e.Qtype, Qclass: e.Qclass, CD: e.CD, Scope: e.Scope}]
		}
		if me != nil && me.Seeded {
			continue
		}
		desc := fmt.Sprintf("%s %s type %d class %d cd=%v audience=%q streak=%d remaining=%v", e.Kind, e.Name, e.Qtype, e.Qclass, e.CD, e.Scope, e.Streak, e.Remaining)
		switch {
		case h.m.disabled:
			r.Violation("killswitch/recorded", "rfc9520=false, yet failure state was recorded: "+desc, h.replay(idx))
		case me == nil || !me.Ever:
			if c := h.m.local[k]; c != "" && e.Kind == "question" && canon(e.Name) == k.Name {
				r.Violation("local/"+c+"/recorded", "a request-local failure ("+c+") became shared failure state: "+desc, h.replay(idx))
			} else {
				r.Violation("state/unexplained-failure-entry", "failure state exists for a key no cacheable failure was ever observed for: "+desc, h.replay(idx))
			}
		case me.Tomb:
			// black-box probes judge resets; nothing demanded of the retained bytes
		default:
			r.Max("streak_depth_impl_max", int64(e.Streak))
			if c := h.m.local[k]; c != "" && e.Kind == "question" && canon(e.Name) == k.Name && int(e.Streak) > me.K {
				r.Violation("local/"+c+"/recorded", "a request-local failure ("+c+") renewed shared failure state: "+desc, h.replay(idx))
			} else if int(e.Streak) > me.K {
				r.Violation("state/streak-exceeds-consecutive-failures",
					fmt.Sprintf("%s — only %d consecutive failures were observed since the last useful answer", desc, me.K), h.replay(idx))
			}
			if b := h.m.bound(me.K); e.Remaining > b {
				sig := "state/backoff-more-than-doubles"
				if me.K == 1 {
					sig = "state/first-backoff-exceeds-min"
				} else if b >= h.m.max {
					sig = "state/backoff-exceeds-max"
				}
				r.Violation(sig, fmt.Sprintf("%s — envelope for %d consecutive failures is %v (min %v max %v)", desc, me.K, b, h.m.min, h.m.max), h.replay(idx))
			}
		}
	}
}

// Adv advances the virtual clock (quiescent point).
func (h *hist) Adv(d time.Duration) {
	h.c.Ops = append(h.c.Ops, op{Op: "adv", AdvNS: int64(d)})
	if h.dead || d <= 0 {
		return
	}
	if h.st.Stub().InFlight() != 0 && !h.st.Quiesce(10*time.Second) {
		h.r.Inconclusive(fmt.Sprintf("history %d: not quiescent before advance", h.c.Index))
		h.dead = true
		return
	}
	h.cache.VerifAdvance(d)
	h.m.adv += d
	h.r.Count("virtual_advances", 1)
}

// SeedQ / SeedZ plant failure state directly through the exported
// FailureCache API (only used with the kill switch engaged, where nothing
// else can create state: the serving half must ignore it).
func (h *hist) SeedQ(o op) {
	o.Op = "seedq"
	h.c.Ops = append(h.c.Ops, o)
	if h.dead {
		return
	}
	fc := h.cache.VerifC13FailureCache()
	k := h.keyOf(&o)
	var scope netip.Prefix
	if k.Scope != "" {
		scope, _ = netip.ParsePrefix(k.Scope)
	}
	fc.RecordQuestion(mcache.FailureQuestionKey{
		Question: dns.Question{Name: k.Name, Qtype: k.Qtype, Qclass: k.Qclass}, CD: k.CD, Scope: scope,
	}, mcache.FailureProvenance("verif-seed"), nil)
	e := h.m.recordQuestion(k, time.Now())
	e.Seeded = true
	h.r.Count("seeded_entries", 1)
}

func (h *hist) SeedZ(zone string, qclass uint16) {
	h.c.Ops = append(h.c.Ops, op{Op: "seedz", Name: zone, Qclass: qclass})
	if h.dead {
		return
	}
	h.cache.VerifC13FailureCache().RecordZone(mcache.FailureZoneKey{Zone: zone, Qclass: qclass}, mcache.FailureProvenance("verif-seed"), nil)
	e := h.m.recordZone(zkey{canon(zone), qclass}, time.Now())
	e.Seeded = true
	h.r.Count("seeded_entries", 1)
}

func (h *hist) replay(idx int) histCase {
	c := h.c
	c.Ops = append([]op(nil), h.c.Ops[:idx+1]...)
	c.Upto = idx
	return c
}

// replayHist re-executes a recorded history verbatim.
func replayHist(r *vlib.Run, c histCase) {
	if c.Repeat > 1 {
		n := c.Repeat
		c.Repeat = 0
		for i := 1; i <= n; i++ {
			replayHistOnce(r, c, false)
			if r.Violations() > 0 || r.Counter("burst_stragglers_observed") > 0 {
				fmt.Printf("replay: reproduced at repetition %d of %d (burst_stragglers_observed=%d)\n", i, n, r.Counter("burst_stragglers_observed"))
				return
			}
		}
		fmt.Printf("replay: not reproduced in %d repetitions\n", n)
		return
	}
	replayHistOnce(r, c, true)
}

func replayHistOnce(r *vlib.Run, c histCase, verbose bool) {
	h, err := newHist(r, c.Index, c.Cfg)
	if err != nil {
		r.Inconclusive("replay: " + err.Error())
		return
	}
	defer h.close()
	for _, o := range c.Ops {
		o.Got = ""
		switch o.Op {
		case "q":
			out := h.Q(o)
			if !verbose {
				continue
			}
			fmt.Printf("replay: q %s %s cd=%v ecs=%q plan=%+v tag=%s -> reached=%d rcode=%d ede=%v must_reach=%v\n",
				o.Name, dns.TypeToString[o.Qtype], o.CD, o.ECS, o.Plan, o.Tag, out.Reached, out.Rcode, out.EDE, out.MustReach)
		case "adv":
			h.Adv(time.Duration(o.AdvNS))
			if verbose {
				fmt.Printf("replay: advance %v\n", time.Duration(o.AdvNS))
			}
		case "seedq":
			h.SeedQ(o)
		case "seedz":
			h.SeedZ(o.Name, o.Qclass)
		case "burst":
			if o.Burst != nil {
				h.Burst(*o.Burst)
				if verbose {
					fmt.Printf("replay: burst %+v\n", *o.Burst)
				}
			}
		}
	}
}

var _ = hex.EncodeToString
