package main

// Follower bursts (probe election after a backoff expires) — run in the
// race-instrumented child. The statement: "the first retry after a backoff is
// led by a single probe". What the code documents (cache.go ServeDNS,
// maxFailureProbeRegroups = 1): requests that find an EXPIRED failure
// generation join one waitgroup generation keyed by that failure state; one
// leader probes; if the probe ends request-locally the survivors re-elect ONCE;
// after that the rest is shed. So with N requests parked behind the probe:
//
//	R1  while the first probe is in flight no second upstream call is made;
//	R2  if every probe fails (cacheable or request-local) at most 2 upstream
//	    calls are made in total, whatever N is.
//
// When a probe succeeds the failure generation is deleted: other questions
// under the zone resolve on their own, and a straggler of the same question
// that re-checked the answer cache an instant before the answer landed falls
// through as an ordinary cache miss — R2 is not applied there.
//
// "Parked" is established without timing: the first request is started alone
// and held inside the stub; the others are started and the harness waits
// until a goroutine dump shows exactly N-1 goroutines blocked in the select
// of cache.(*Cache).ServeDNS (plus any that slipped into the stub — the R1
// violation). Only then is the probe released. A barrier that does not form
// within the watchdog is skipped, never judged.

import (
	"context"
	"fmt"
	"net/netip"
	"os"
	"runtime"
	"strings"
	"sync"
	"time"

	"github.com/miekg/dns"
	"github.com/semihalev/sdns/zzverif/stack"
)

type burstSpec struct {
	Scenario   string `json:"scenario"` // same-name | siblings
	N          int    `json:"n"`
	Zone       string `json:"zone"`
	Name       string `json:"name"` // same-name: the question; siblings: ignored
	Qtype      uint16 `json:"qtype"`
	CD         bool   `json:"cd"`
	ECS        string `json:"ecs,omitempty"`
	Leader     plan   `json:"leader"`
	Second     plan   `json:"second"`
	CancelLead bool   `json:"cancel_leader,omitempty"` // the probing client disconnects instead of getting an upstream reply
	// scenario "mixed" (requests that differ in everything a zone failure does
	// NOT partition by): follower i sends ECS Aud[i%len], asks type
	// Qtypes[i%len] and, with MixCD, sets CD on every third request. SameName:
	// all of them ask Name, otherwise each asks its own name under Zone.
	Aud      []string `json:"audiences,omitempty"`
	Qtypes   []uint16 `json:"qtypes,omitempty"`
	MixCD    bool     `json:"mix_cd,omitempty"`
	SameName bool     `json:"same_name,omitempty"`
}

// follower is the i-th request of a burst (a pure function of the spec).
func (spec burstSpec) follower(idx, i int) op {
	name := spec.Name
	if spec.Scenario == "siblings" || (spec.Scenario == "mixed" && !spec.SameName) {
		name = fmt.Sprintf("s%d-%d.%s", idx, i, spec.Zone)
	}
	entry := entries[(i*7+idx)%len(entries)]
	client := fmt.Sprintf("203.0.113.%d:%d", 1+i%250, 2000+i)
	o := op{Client: client, Entry: entry, Name: name, Qtype: spec.Qtype, Qclass: dns.ClassINET, CD: spec.CD, ECS: spec.ECS, EDNS: true}
	if spec.Scenario == "mixed" {
		if len(spec.Aud) > 0 {
			o.ECS = spec.Aud[i%len(spec.Aud)]
		}
		if len(spec.Qtypes) > 0 {
			o.Qtype = spec.Qtypes[i%len(spec.Qtypes)]
		}
		if spec.MixCD && i%3 == 2 {
			o.CD = !spec.CD
		}
	}
	return o
}

type burstCall struct {
	name  string
	qtype uint16
	cd    bool
	scope string // ECS audience of the request that made the call ("" = global)
	p     plan
	end   time.Time
	// an ACTIVE cached failure covered this very question when the call
	// entered the stub (Store.LookupFailure, the lookup the cache itself uses)
	activeAtEntry bool
}

type burstState struct {
	spec    burstSpec
	byAddr  map[string]op // client address -> the follower's request
	mu      sync.Mutex
	calls   []burstCall
	inStub  int
	maxIn   int
	gate    chan struct{}
	entered chan struct{}
}

func (b *burstState) stub(ctx context.Context, req *stack.StubRequest, h *hist) *stack.StubReply {
	// which follower is this? (every follower has its own client address)
	fo, known := b.byAddr[req.ClientAddr]
	if !known {
		fo = op{ECS: b.spec.ECS, CD: req.CD}
	}
	aud := audience(h.c.Cfg.ECS, fo.ECS)
	var scope netip.Prefix
	if aud != "" {
		scope, _ = netip.ParsePrefix(aud)
	}
	_, active := h.cache.VerifStore().LookupFailure(req.Msg, scope)
	b.mu.Lock()
	n := len(b.calls)
	p := b.spec.Leader
	if n > 0 {
		p = b.spec.Second
	}
	if b.spec.CancelLead && n == 0 {
		p = plan{Kind: "local", Local: "cancel"}
	}
	b.calls = append(b.calls, burstCall{name: canon(req.Q.Name), qtype: req.Q.Qtype, cd: req.CD, scope: aud, p: p, activeAtEntry: active})
	if !known {
		h.r.Count("burst_calls_from_unknown_client", 1)
	}
	b.inStub++
	if b.inStub > b.maxIn {
		b.maxIn = b.inStub
	}
	b.mu.Unlock()
	select {
	case b.entered <- struct{}{}:
	default:
	}
	rep := stubReply(ctx, req, p, h.cache, nil)
	// hold every call that arrives before the release on the same gate
	if rep.Gate == nil {
		rep.Gate = b.gate
	}
	prev := rep.After
	rep.After = func(ctx context.Context, resp *dns.Msg) {
		if prev != nil {
			prev(ctx, resp)
		}
		b.mu.Lock()
		b.inStub--
		b.calls[n].end = time.Now()
		b.mu.Unlock()
	}
	return rep
}

// parkedFollowers counts goroutines blocked in the dedup select of the cache
// middleware (top user frame cache.(*Cache).ServeDNS, state select).
func parkedFollowers() int {
	buf := make([]byte, 1<<20)
	for {
		n := runtime.Stack(buf, true)
		if n < len(buf) {
			buf = buf[:n]
			break
		}
		buf = make([]byte, 2*len(buf))
	}
	cnt := 0
	for _, g := range strings.Split(string(buf), "\n\n") {
		nl := strings.IndexByte(g, '\n')
		if nl < 0 {
			continue
		}
		hdr, rest := g[:nl], g[nl+1:]
		if !strings.HasPrefix(hdr, "goroutine ") || !strings.Contains(hdr, "[select") {
			continue
		}
		if strings.HasPrefix(rest, "github.com/semihalev/sdns/middleware/cache.(*Cache).ServeDNS(") {
			cnt++
		}
	}
	return cnt
}

// Burst runs one follower burst against the current (expired) failure state.
func (h *hist) Burst(spec burstSpec) {
	h.c.Ops = append(h.c.Ops, op{Op: "burst", Burst: &spec})
	idx := len(h.c.Ops) - 1
	if h.dead {
		return
	}
	r := h.r
	b := &burstState{spec: spec, gate: make(chan struct{}), entered: make(chan struct{}, 1), byAddr: map[string]op{}}
	auds := map[string]bool{}
	for i := 0; i < spec.N; i++ {
		fo := spec.follower(idx, i)
		b.byAddr[fo.Client] = fo
		auds[audience(h.c.Cfg.ECS, fo.ECS)] = true
	}
	scopedAuds := len(auds)
	if auds[""] {
		scopedAuds--
	}
	h.mu.Lock()
	h.burst = b
	h.mu.Unlock()
	defer func() {
		h.mu.Lock()
		h.burst = nil
		h.mu.Unlock()
	}()

	mk := func(i int) op { return spec.follower(idx, i) }

	type reply struct {
		out outcome
		o   op
	}
	replies := make([]reply, spec.N)
	var wg sync.WaitGroup
	lctx, lcancel := context.WithCancel(context.Background())
	defer lcancel()
	launch := func(i int, ctx context.Context) {
		wg.Add(1)
		go func() {
			defer wg.Done()
			o := mk(i)
			entry := o.Entry
			if i == 0 && spec.CancelLead {
				entry = "msg/tcp" // a caller-owned context needs the decoded entry
			}
			res, _, _ := serveEntry(h.st, ctx, entry, o.Client, buildQuery(&o))
			replies[i] = reply{out: classify(res), o: o}
		}()
	}
	p0 := time.Now()
	first := mk(0)
	cov := h.m.covering(h.keyOf(&first), p0)
	launch(0, lctx)
	formed := false
	select {
	case <-b.entered:
		for i := 1; i < spec.N; i++ {
			launch(i, context.Background())
		}
		allDone := make(chan struct{})
		go func() { wg.Wait(); close(allDone) }()
		deadline := time.Now().Add(10 * time.Second)
	poll:
		for time.Now().Before(deadline) {
			select {
			case <-allDone:
				break poll
			default:
			}
			b.mu.Lock()
			in := b.inStub
			b.mu.Unlock()
			if parkedFollowers()+in >= spec.N {
				formed = true
				break
			}
			time.Sleep(200 * time.Microsecond)
		}
	case <-time.After(10 * time.Second):
		// the first request never reached the stub (still suppressed?): nothing to judge
	}
	b.mu.Lock()
	atBarrier := b.inStub
	b.mu.Unlock()
	parkedNow := parkedFollowers()
	if spec.CancelLead {
		lcancel()
	}
	close(b.gate)
	wg.Wait()
	if !h.st.Quiesce(20 * time.Second) {
		r.Inconclusive(fmt.Sprintf("burst %d: pipeline did not quiesce", h.c.Index))
		h.dead = true
		return
	}
	end := time.Now()

	b.mu.Lock()
	calls := append([]burstCall(nil), b.calls...)
	b.mu.Unlock()
	r.Eval(1)
	r.Count("bursts", 1)
	r.Count("burst_"+spec.Scenario, 1)
	r.Count("burst_requests", spec.N)
	r.Max("burst_n_max", int64(spec.N))
	if cov.possiblyActive || cov.live == 0 {
		// not an expired generation (harness sequencing problem): no verdict
		r.Count("burst_not_on_expired_state", 1)
	} else if !formed {
		r.Count("burst_barrier_not_formed", 1)
		if os.Getenv("C13_DEBUG") != "" {
			fmt.Fprintf(os.Stderr, "NOTFORMED spec=%+v atBarrier=%d parked=%d calls=%d cfg=%s\n", spec, atBarrier, parkedNow, len(calls), h.c.Cfg)
		}
	} else {
		r.Count("bursts_judged", 1)
		// requests that carry an ECS audience (ECS handling on): the election
		// must not depend on the audience — a zone failure is shared by all of
		// them, a question failure of one audience is one generation
		switch {
		case scopedAuds >= 2:
			r.Count("bursts_judged_mixed_scoped_audiences", 1)
			r.Max("burst_distinct_scoped_audiences_max", int64(scopedAuds))
		case scopedAuds == 1 && !auds[""]:
			r.Count("bursts_judged_one_scoped_audience", 1)
			r.Count("bursts_judged_one_scoped_audience_"+spec.Scenario, 1)
		}
		if spec.N >= 8 {
			sampleOnce(r, "burst", map[string]any{"part": "probe election (race child)", "what": "N requests parked on one expired failure generation, then the probe was released",
				"cfg": h.c.Cfg, "burst": spec, "upstream_calls": len(calls), "in_stub_at_barrier": atBarrier, "history": h.c.Index, "op": idx})
		}
		r.Max("burst_parked_followers_max", int64(spec.N-atBarrier))
		r.Distinct(fmt.Sprintf("burst|%s|%s|%s|%v|n%d", spec.Scenario, spec.Leader.Kind+spec.Leader.Local, spec.Second.Kind+spec.Second.Local, spec.CancelLead, bucket(spec.N)))
		if atBarrier > 1 {
			r.Violation("burst/concurrent-probes",
				fmt.Sprintf("%d upstream calls in flight at once for one expired failure generation (%s, N=%d): the first retry was not led by a single probe", atBarrier, spec.Scenario, spec.N), h.replay(idx))
		}
		allFail := true
		for _, c := range calls {
			if c.p.Kind == "ok" {
				allFail = false
			}
		}
		// R2 only while the failure generation remains (no probe succeeded):
		// after a useful answer the state is gone, and a straggler that
		// re-checked the answer cache just before the answer landed resolves
		// as an ordinary miss (cache.go: "Ordinary followers that still see
		// a miss proceed to run the upstream chain themselves").
		if allFail {
			r.Count("bursts_count_bound_checked", 1)
			if scopedAuds >= 2 {
				r.Count("bursts_count_bound_checked_mixed_scoped_audiences", 1)
			} else if scopedAuds == 1 && !auds[""] {
				r.Count("bursts_count_bound_checked_one_scoped_audience", 1)
			}
			r.Count(fmt.Sprintf("burst_upstream_calls_%d", min(len(calls), 3)), 1)
			r.Max("burst_upstream_calls_all_failing_max", int64(len(calls)))
			bypass := len(calls) > 2
			for _, c := range calls[min(2, len(calls)):] {
				if !c.activeAtEntry {
					bypass = false
				}
			}
			if bypass {
				r.Count("burst_stragglers_observed", 1)
				r.Violation("burst/straggler-upstream-during-active-failure",
					fmt.Sprintf("%d upstream calls for a burst of %d parked followers of one expired failure generation (%s, leader %s%s, second %s%s): call(s) beyond the second entered resolution while an ACTIVE cached failure already covered their question",
						len(calls), spec.N, spec.Scenario, spec.Leader.Kind, spec.Leader.Local, spec.Second.Kind, spec.Second.Local), h.replay(idx))
			} else if len(calls) > 2 {
				r.Violation("burst/more-than-two-upstream-calls",
					fmt.Sprintf("%d upstream calls for a burst of %d parked followers of one expired failure generation (%s, leader %s%s, second %s%s)",
						len(calls), spec.N, spec.Scenario, spec.Leader.Kind, spec.Leader.Local, spec.Second.Kind, spec.Second.Local), h.replay(idx))
			}
		} else {
			r.Count("bursts_with_successful_probe", 1)
			r.Max("burst_upstream_calls_after_success_max", int64(len(calls)))
		}
	}
	for _, rp := range replies {
		switch {
		case !rp.out.HasReply:
			r.Count("burst_reply_none", 1)
		case rp.out.EDE13:
			r.Count("burst_reply_cached_failure", 1)
		case rp.out.Rcode == dns.RcodeServerFailure && hasEDE(rp.out.EDE, dns.ExtendedErrorCodeOther):
			r.Count("burst_reply_shed_or_local", 1)
		case rp.out.Rcode == dns.RcodeServerFailure:
			r.Count("burst_reply_servfail_upstream", 1)
		default:
			r.Count("burst_reply_answer", 1)
		}
	}

	// fold what happened into the model (completion order)
	for _, c := range calls {
		k := qkey{Name: c.name, Qtype: c.qtype, Qclass: dns.ClassINET, CD: c.cd, Scope: c.scope}
		t := c.end
		if t.IsZero() {
			t = end
		}
		switch c.p.Kind {
		case "fail":
			h.m.recordQuestion(k, end)
			if c.p.ZoneFail != "" {
				h.m.recordZone(zkey{canon(c.p.ZoneFail), dns.ClassINET}, end)
			}
		case "ok":
			h.m.useful(k)
		}
	}
	lo := first
	h.checkState(idx, &lo, h.keyOf(&first))
}

func hasEDE(l []uint16, c uint16) bool {
	for _, x := range l {
		if x == c {
			return true
		}
	}
	return false
}

func bucket(n int) int {
	switch {
	case n <= 2:
		return 2
	case n <= 8:
		return 8
	case n <= 24:
		return 24
	}
	return 64
}

// burstHistory: build an expired failure generation of some depth, then fire
// a burst at it; repeat a few times on fresh zones.
func (g *gen) burstHistory() {
	for round, rounds := 0, 2+g.rng.IntN(3); round < rounds; round++ {
		z := g.freshZone()
		spec := burstSpec{Zone: z, N: []int{2, 3, 5, 8, 13, 24, 48}[g.rng.IntN(7)], Qtype: qtypes[g.rng.IntN(3)], CD: g.rng.IntN(4) == 0, ECS: g.ecs()}
		switch g.rng.IntN(3) {
		case 0:
			spec.Scenario = "same-name"
			spec.Name = "p." + z
		case 1:
			spec.Scenario = "siblings"
		default:
			// requests that differ in audience, type and CD (none of which
			// partitions a zone failure) under one expired zone failure
			spec.Scenario = "mixed"
			spec.Name = "p." + z
			spec.SameName = g.rng.IntN(3) == 0
			spec.MixCD = g.rng.IntN(2) == 0
			for i, n := 0, 2+g.rng.IntN(5); i < n; i++ {
				spec.Aud = append(spec.Aud, g.ecs())
			}
			for i, n := 0, 1+g.rng.IntN(3); i < n; i++ {
				spec.Qtypes = append(spec.Qtypes, qtypes[g.rng.IntN(len(qtypes))])
			}
		}
		depth := 1 + g.rng.IntN(3)
		var last op
		for i := 0; i < depth; i++ {
			var o op
			if spec.Scenario == "same-name" {
				o = g.base(spec.Name, spec.Qtype, spec.CD, spec.ECS)
				o.Plan, o.Tag = g.failPlan(), "fail"
			} else {
				o = g.base(fmt.Sprintf("f%d.%s", i, z), spec.Qtype, spec.CD, spec.ECS)
				if spec.Scenario == "mixed" {
					// the zone's failures were seen by any audience / CD value
					o = g.base(fmt.Sprintf("f%d.%s", i, z), qtypes[g.rng.IntN(len(qtypes))], g.rng.IntN(3) == 0, g.ecs())
				}
				p := g.failPlan()
				p.ZoneFail = z
				o.Plan, o.Tag = p, "zone-fail"
			}
			g.h.Q(o)
			last = o
			g.expire(g.h.keyOf(&o))
			g.expire(qkey{Name: canon("zz." + z), Qclass: dns.ClassINET})
		}
		_ = last
		locals := []string{"mark-attempt", "mark-work", "mark-deadline", "mark-maxrec"}
		if g.h.c.Cfg.Enforce {
			locals = append(locals, "budget")
		}
		pick := func() plan {
			switch g.rng.IntN(4) {
			case 0:
				return g.okPlan()
			case 1:
				return plan{Kind: "local", Local: locals[g.rng.IntN(len(locals))]}
			case 2:
				if spec.Scenario != "same-name" {
					p := g.failPlan()
					p.ZoneFail = z
					return p
				}
			}
			return g.failPlan()
		}
		spec.Leader, spec.Second = pick(), pick()
		if g.rng.IntN(6) == 0 {
			spec.CancelLead = true
		}
		g.h.Burst(spec)
		// afterwards the state is whatever the probes left: one ordinary
		// question under the zone keeps the sequential oracle engaged
		a := g.base("after."+z, spec.Qtype, spec.CD, spec.ECS)
		a.Plan, a.Tag = g.okPlanOrFail(), "after-burst"
		g.h.Q(a)
	}
}
