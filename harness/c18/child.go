package main

// Child mode of part (iii): perform a logged op sequence on a real BlockList.
// The process is run under strace by the parent, which kills it (or fails a
// syscall) at a chosen point of the temp-file / sync / rename sequence.
//
// Every op is logged BEFORE it is executed and again after it returned. The op
// log is written with pwrite64 (File.WriteAt) so that the only write(2) calls
// the process issues on this thread are those of persist().

import (
	"encoding/json"
	"fmt"
	"os"
	"runtime"
)

type childSpec struct {
	Dir       string   `json:"dir"`
	OpLog     string   `json:"oplog"`
	Final     string   `json:"final"`
	Whitelist []string `json:"whitelist"`
	Ops       []op     `json:"ops"`
}

type childFinal struct {
	Entries       []string `json:"entries"`
	Version       uint64   `json:"version"`
	LastPersisted uint64   `json:"last_persisted"`
}

func childMain(specPath string) {
	runtime.LockOSThread() // keep persist()'s syscalls on one thread: strace's when=N counts per thread
	installLogTap()
	b, err := os.ReadFile(specPath)
	if err != nil {
		os.Exit(3)
	}
	var sp childSpec
	if json.Unmarshal(b, &sp) != nil {
		os.Exit(3)
	}
	bl := newInstance(sp.Dir, nil, sp.Whitelist)
	// the start-up refresh re-reads `local` one second after New; let it finish
	// so that it cannot interleave with the ops (it is not the subject here)
	waitRefreshedNoTimer()
	lg, err := os.OpenFile(sp.OpLog, os.O_CREATE|os.O_WRONLY, 0o644)
	if err != nil {
		os.Exit(3)
	}
	var off int64
	logf := func(format string, a ...any) {
		s := fmt.Sprintf(format, a...)
		n, _ := lg.WriteAt([]byte(s), off)
		off += int64(n)
	}
	logf("READY\n")
	for i, o := range sp.Ops {
		logf("S %d\n", i)
		pf := tap.persistFailed.Load()
		switch o.Kind {
		case "set":
			bl.Set(o.Keys[0])
		case "remove":
			bl.Remove(o.Keys[0])
		case "setbatch":
			bl.SetBatch(o.Keys)
		case "removebatch":
			bl.RemoveBatch(o.Keys)
		}
		logf("D %d %d\n", i, tap.persistFailed.Load()-pf)
	}
	ent, _ := snapshotEntries(bl)
	v, lp := bl.VerifC18PersistState()
	fb, _ := json.Marshal(childFinal{Entries: ent, Version: v, LastPersisted: lp})
	// temp + rename in another directory than `local` (does not match -P <local>)
	_ = os.WriteFile(sp.Final+".tmp", fb, 0o644)
	_ = os.Rename(sp.Final+".tmp", sp.Final)
	logf("END\n")
	os.Exit(0)
}
