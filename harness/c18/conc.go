package main

// Part (ii): concurrent API traffic, then convergence at quiescence:
//   * <dir>/local (independently parsed) == in-memory snapshot, as sets;
//   * every key's final state is the last write of some goroutine that touched
//     it (keys with a single owner end in that owner's last state);
//   * the instance decides every probe like the reference on its snapshot;
//   * a FRESH instance loaded from a verbatim copy of the directory holds the
//     same entry set and decides every probe identically — immediately and
//     after a follow-up Remove of each entry (parents first).
// Plus sequential rounds where memory and file are compared with the model
// after every single op.

import (
	"fmt"
	"math/rand/v2"
	"os"
	"path/filepath"
	"runtime"
	"sort"
	"strings"
	"sync"
	"sync/atomic"
	"time"

	"github.com/miekg/dns"
	"github.com/semihalev/sdns/middleware/blocklist"
	"github.com/semihalev/sdns/zzverif/vlib"
)

type roundSpec struct {
	Kind      string   `json:"kind"` // "conc" | "seq"
	Round     int      `json:"round"`
	Procs     int      `json:"gomaxprocs"`
	Whitelist []string `json:"whitelist"`
	Initial   []string `json:"initial"` // antichain entries pre-written to local
	Prog      [][]op   `json:"programs"`
	Universe  []string `json:"universe"`
}

type round struct {
	spec   roundSpec
	dir    string
	w      *blocklist.BlockList
	probes []string
	// reload phase
	rdir        string
	fresh       *blocklist.BlockList
	fileLines   []string
	coveredOnly bool // the set difference W\R consisted of covered entries only
	dropped     []string
	skipFollow  bool
}

func genUniverse(rng *rand.Rand) (keys []string, bases []string) {
	nb := 1 + rng.IntN(3)
	for i := 0; i < nb; i++ {
		b := randBase(rng)
		bases = append(bases, b)
		s1 := randLabel(rng) + "." + b
		s2 := randLabel(rng) + "." + s1
		keys = append(keys, b, s1, s2, "*."+b, "*."+s1, "not"+b, randLabel(rng)+"."+b)
	}
	seen := map[string]bool{}
	out := keys[:0]
	for _, k := range keys {
		c := canon(k)
		if !seen[c] {
			seen[c] = true
			out = append(out, k)
		}
	}
	return out, bases
}

func genRound(rng *rand.Rand, idx int, kind string, tierBig bool) roundSpec {
	sp := roundSpec{Kind: kind, Round: idx}
	sp.Procs = []int{2, 6, runtime.NumCPU()}[idx%3]
	uni, bases := genUniverse(rng)
	if rng.IntN(3) == 0 {
		for i := 0; i < 1+rng.IntN(2); i++ {
			k := strings.TrimPrefix(uni[rng.IntN(len(uni))], "*.")
			sp.Whitelist = append(sp.Whitelist, spell(rng, k))
		}
	}
	if rng.IntN(2) == 0 {
		for i := 0; i < 1+rng.IntN(3); i++ {
			sp.Initial = append(sp.Initial, fmt.Sprintf("init%d.test.", i))
		}
		uni = append(uni, sp.Initial...)
	}
	shared := append([]string(nil), uni...)
	g := 1
	if kind == "conc" {
		g = 8 + rng.IntN(25)
	}
	for gi := 0; gi < g; gi++ {
		// private keys of this goroutine (single owner), some hierarchical
		b := bases[rng.IntN(len(bases))]
		priv := []string{fmt.Sprintf("g%dk0.%s", gi, b), fmt.Sprintf("*.g%dk1.%s", gi, b), fmt.Sprintf("x.g%dk1.%s", gi, b)}
		nops := 4 + rng.IntN(13)
		if kind == "seq" {
			nops = 25 + rng.IntN(30)
		}
		if tierBig && rng.IntN(8) == 0 {
			nops *= 3
		}
		pickKey := func() string {
			if rng.IntN(4) == 0 {
				return spell(rng, priv[rng.IntN(len(priv))])
			}
			return spell(rng, shared[rng.IntN(len(shared))])
		}
		var prog []op
		for i := 0; i < nops; i++ {
			var o op
			switch x := rng.IntN(20); {
			case x < 7:
				o = op{Kind: "set", Keys: []string{pickKey()}}
			case x < 12:
				o = op{Kind: "remove", Keys: []string{pickKey()}}
			case x < 16:
				o.Kind = "setbatch"
				for j := 0; j < 1+rng.IntN(5); j++ {
					o.Keys = append(o.Keys, pickKey())
				}
			default:
				o.Kind = "removebatch"
				for j := 0; j < 1+rng.IntN(5); j++ {
					o.Keys = append(o.Keys, pickKey())
				}
			}
			prog = append(prog, o)
		}
		sp.Prog = append(sp.Prog, prog)
		uni = append(uni, priv...)
	}
	sp.Universe = uni
	return sp
}

func execOp(bl *blocklist.BlockList, o op) {
	switch o.Kind {
	case "set":
		bl.Set(o.Keys[0])
	case "remove":
		bl.Remove(o.Keys[0])
	case "setbatch":
		bl.SetBatch(o.Keys)
	case "removebatch":
		bl.RemoveBatch(o.Keys)
	}
}

func roundProbes(rng *rand.Rand, sp roundSpec) []string {
	var out []string
	seen := map[string]bool{}
	add := func(p string) {
		c := canon(p)
		if !seen[c] && !strings.Contains(c, "\\") {
			seen[c] = true
			out = append(out, p)
		}
	}
	add(".")
	for _, w := range sp.Whitelist {
		add(w)
		add("x." + strings.TrimSuffix(w, "."))
	}
	// every key itself, a child and a grandchild
	for _, k := range sp.Universe {
		b := strings.TrimSuffix(strings.TrimPrefix(canon(k), "*."), ".")
		add(b)
		add("x." + b)
		add("y.x." + b)
	}
	// near misses, until the cap
	const maxProbes = 450
	for _, i := range rng.Perm(len(sp.Universe)) {
		if len(out) >= maxProbes {
			break
		}
		for _, p := range nearMisses(rng, canon(sp.Universe[i])) {
			add(p)
		}
	}
	return out
}

func (rd *round) prepare() {
	rd.dir = newDir(true)
	if len(rd.spec.Initial) > 0 {
		_ = os.WriteFile(filepath.Join(rd.dir, "local"), []byte(renderLocal(rd.spec.Initial, nil)), 0o600)
	}
	rd.w = newInstance(rd.dir, nil, rd.spec.Whitelist)
}

// initialModel is the state a correct load of spec.Initial produces.
func (sp roundSpec) initialModel() *lists {
	m := listsFrom(nil, sp.Whitelist)
	for _, e := range sp.Initial {
		m.setKey(e)
	}
	return m
}

// ---- checks shared by conc and seq rounds ----

// checkFileVsMemory: the set of entries in <dir>/local must equal the snapshot.
func checkFileVsMemory(r *vlib.Run, rd *round, when string) (mem []string, lf localFile) {
	mem, _ = snapshotEntries(rd.w)
	lf = readLocal(filepath.Join(rd.dir, "local"))
	r.Eval(1)
	r.Count("persisted_vs_memory_comparisons", 1)
	switch {
	case !lf.Present:
		// legal only if nothing was ever persisted and memory is what it was at load
		if !sameStrings(mem, rd.spec.initialModel().entries()) || len(rd.spec.Initial) > 0 {
			r.Violation("persist/local-missing", fmt.Sprintf("%s: memory holds %v but <dir>/local does not exist", when, mem), rd.spec)
		}
	case !lf.Complete:
		r.Violation("persist/local-malformed", fmt.Sprintf("%s: <dir>/local is not a well-formed snapshot: %s", when, lf.Problem), withFile(rd.spec, lf))
	case !sameStrings(mem, lf.Entries):
		onlyMem, onlyFile := diff(mem, lf.Entries)
		r.Violation("persist/file-differs-from-memory", fmt.Sprintf("%s: all calls returned; memory has %d entries, <dir>/local has %d; only in memory %v, only in file %v", when, len(mem), len(lf.Entries), onlyMem, onlyFile), withFile(rd.spec, lf))
	default:
		r.Count("persisted_equals_memory", 1)
		if len(mem) > 0 {
			r.Count("persisted_equals_memory_nonempty", 1)
		}
	}
	return
}

func withFile(sp roundSpec, lf localFile) map[string]any {
	return map[string]any{"kind": sp.Kind, "round": sp.Round, "spec": sp, "local": lf.Raw}
}

// checkAgainstReference: the writer decides like the statement on its own snapshot.
func checkAgainstReference(r *vlib.Run, rd *round, mem []string) {
	ref := listsFrom(mem, rd.spec.Whitelist)
	mc := matchCase{Kind: "match", Case: rd.spec.Round, Via: "api", Entries: mem, Whitelist: rd.spec.Whitelist}
	nb, nu := 0, 0
	for i, p := range rd.probes {
		var qts []uint16
		if i%5 == 0 {
			qts = []uint16{probeTypes[i%len(probeTypes)]}
		}
		if judgeProbe(r, rd.w, ref, mc, p, qts) {
			nb++
		} else {
			nu++
		}
	}
	r.Count("quiescent_probes_blocked", nb)
	r.Count("quiescent_probes_unblocked", nu)
}

// ---- concurrent round ----

func runConcRound(r *vlib.Run, rd *round) {
	sp := rd.spec
	old := runtime.GOMAXPROCS(sp.Procs)
	defer runtime.GOMAXPROCS(old)
	var wg sync.WaitGroup
	var stop atomic.Bool
	start := make(chan struct{})
	var panics atomic.Int64
	for _, prog := range sp.Prog {
		wg.Add(1)
		go func(prog []op) {
			defer wg.Done()
			defer func() {
				if p := recover(); p != nil {
					panics.Add(1)
					r.Violation("panic/blocklist-mutation", fmt.Sprintf("mutation API panicked: %v", p), sp)
				}
			}()
			<-start
			for _, o := range prog {
				execOp(rd.w, o)
			}
		}(prog)
	}
	// readers: the query path runs concurrently (race detector watches; results
	// of transient states are not judged)
	var rwg sync.WaitGroup
	for i := 0; i < 2; i++ {
		rwg.Add(1)
		go func(i int) {
			defer rwg.Done()
			defer func() { _ = recover() }()
			<-start
			n := 0
			for !stop.Load() && n < 20000 {
				p := rd.probes[(n*7+i)%len(rd.probes)]
				if n%4 == 0 {
					fq := p
					if !strings.HasSuffix(fq, ".") {
						fq += "."
					}
					serve(rd.w, fq, dns.TypeA)
				} else {
					rd.w.Exists(p)
				}
				n++
			}
			r.Count("concurrent_reader_lookups", n)
		}(i)
	}
	close(start)
	wg.Wait()
	stop.Store(true)
	rwg.Wait()
	// all calls have returned; persistence is synchronous inside each call
	ver, lp := rd.w.VerifC18PersistState()
	nops, nkeys := 0, 0
	for _, p := range sp.Prog {
		nops += len(p)
		for _, o := range p {
			nkeys += len(o.Keys)
			r.Count("ops_"+o.Kind, 1)
		}
	}
	r.Count("concurrent_rounds", 1)
	r.Count("concurrent_ops", nops)
	r.Count("concurrent_goroutines", len(sp.Prog))
	r.Max("concurrent_goroutines_max", int64(len(sp.Prog)))
	r.Count("snapshots_versioned", int(ver))
	if lp == ver {
		r.Count("rounds_last_persisted_is_newest_version", 1)
	}
	r.DistinctIn("gomaxprocs", fmt.Sprint(sp.Procs))

	mem, _ := checkFileVsMemory(r, rd, "after concurrent traffic")

	// last-write check per key
	white := listsFrom(nil, sp.Whitelist)
	touch := map[string]map[int]bool{} // key -> goroutine -> last state
	for gi, prog := range sp.Prog {
		for _, o := range prog {
			for _, k := range o.Keys {
				c := canon(k)
				if touch[c] == nil {
					touch[c] = map[int]bool{}
				}
				present := (o.Kind == "set" || o.Kind == "setbatch") && !white.whitelisted(c)
				touch[c][gi] = present
			}
		}
	}
	memSet := map[string]bool{}
	for _, e := range mem {
		memSet[e] = true
	}
	init := sp.initialModel()
	initSet := map[string]bool{}
	for _, e := range init.entries() {
		initSet[e] = true
	}
	shared, single := 0, 0
	for k, gs := range touch {
		allowed := map[bool]bool{}
		for _, st := range gs {
			allowed[st] = true
		}
		r.Eval(1)
		if len(gs) == 1 {
			single++
		} else {
			shared++
		}
		if !allowed[memSet[k]] {
			sig := "api/final-state-not-a-last-write"
			if len(gs) == 1 {
				sig = "api/single-owner-key-wrong-final-state"
			}
			r.Violation(sig, fmt.Sprintf("key %q touched by %d goroutine(s) ends present=%v, but every toucher's last op leaves present=%v", k, len(gs), memSet[k], !memSet[k]), sp)
		}
	}
	for _, e := range mem {
		if touch[e] == nil && !initSet[e] {
			r.Violation("api/unknown-entry-in-memory", fmt.Sprintf("entry %q is in memory but was never set", e), sp)
		}
	}
	for e := range initSet {
		if touch[e] == nil && !memSet[e] {
			r.Violation("api/untouched-entry-lost", fmt.Sprintf("initial entry %q was never removed but is gone", e), sp)
		}
	}
	r.Count("keys_single_owner_checked", single)
	r.Count("keys_shared_checked", shared)
	if shared > 0 && len(mem) > 1 {
		r.Distinct(fmt.Sprintf("conc:%d:%d:%d", sp.Round, len(sp.Prog), nops))
	}
	checkAgainstReference(r, rd, mem)
	if sp.Round < 1 {
		r.Sample(map[string]any{"kind": "conc-round", "goroutines": len(sp.Prog), "ops": nops, "gomaxprocs": sp.Procs, "whitelist": sp.Whitelist, "final_entries": mem})
	}
}

// ---- sequential round: model comparison after every op ----

func runSeqRound(r *vlib.Run, rd *round) {
	sp := rd.spec
	model := sp.initialModel()
	persisted := len(sp.Initial) > 0
	for i, o := range sp.Prog[0] {
		func() {
			defer func() {
				if p := recover(); p != nil {
					r.Violation("panic/blocklist-mutation", fmt.Sprintf("%s%v panicked: %v", o.Kind, o.Keys, p), sp)
				}
			}()
			execOp(rd.w, o)
		}()
		if model.apply(o) {
			persisted = true
		}
		r.Count("ops_"+o.Kind, 1)
		r.Count("sequential_ops", 1)
		mem, _ := snapshotEntries(rd.w)
		r.Eval(1)
		if !sameStrings(mem, model.entries()) {
			miss, extra := diff(model.entries(), mem)
			r.Violation("api/sequential-state-differs-from-model", fmt.Sprintf("after op %d %s%v memory=%v model=%v (missing %v extra %v)", i, o.Kind, o.Keys, mem, model.entries(), miss, extra), sp)
			return
		}
		if persisted {
			checkFileVsMemory(r, rd, fmt.Sprintf("after sequential op %d %s%v", i, o.Kind, o.Keys))
		}
	}
	r.Count("sequential_rounds", 1)
	mem, _ := checkFileVsMemory(r, rd, "after sequential round")
	checkAgainstReference(r, rd, mem)
}

// ---- reload oracle ----

type reloadCase struct {
	Kind      string   `json:"kind"` // "reload"
	Round     int      `json:"round"`
	Whitelist []string `json:"whitelist"`
	FileLines []string `json:"file_lines"` // entry lines of <dir>/local in file order
	Memory    []string `json:"memory"`     // entries held by the instance that wrote the file
	Probes    []string `json:"probes,omitempty"`
	Removed   string   `json:"removed,omitempty"` // follow-up Remove that exposes the difference
	Name      string   `json:"name,omitempty"`
	Dropped   []string `json:"dropped,omitempty"`
}

func copyLocal(src, dst string) error {
	b, err := os.ReadFile(filepath.Join(src, "local"))
	if err != nil {
		return err
	}
	return os.WriteFile(filepath.Join(dst, "local"), b, 0o600)
}

// covered reports whether entry e is blocked, as a name, by the OTHER entries —
// i.e. whether a loader that skips names for which Exists() is already true
// would skip it.
func covered(all []string, white []string, e string) bool {
	var others []string
	for _, x := range all {
		if x != e {
			others = append(others, x)
		}
	}
	return listsFrom(others, white).blocked(e)
}

// reloadImmediate builds the fresh instance from a verbatim copy of the
// directory and compares entry sets and decisions.
func reloadImmediate(r *vlib.Run, rd *round) {
	lf := readLocal(filepath.Join(rd.dir, "local"))
	if !lf.Present {
		rd.skipFollow = true
		r.Count("reload_skipped_no_file", 1)
		return
	}
	rd.fileLines = lf.Lines
	rd.rdir = newDir(true)
	if err := copyLocal(rd.dir, rd.rdir); err != nil {
		r.Inconclusive("copy of local failed: " + err.Error())
		rd.skipFollow = true
		return
	}
	func() {
		defer func() {
			if p := recover(); p != nil {
				r.Violation("panic/blocklist.New-reload", fmt.Sprintf("loading the persisted directory panicked: %v", p), rd.reloadCase())
				rd.skipFollow = true
			}
		}()
		rd.fresh = newInstance(rd.rdir, nil, rd.spec.Whitelist)
	}()
	if rd.fresh == nil {
		return
	}
	mem, _ := snapshotEntries(rd.w)
	got, _ := snapshotEntries(rd.fresh)
	r.Count("reload_comparisons", 1)
	r.Eval(1)
	dropped, extra := diff(mem, got)
	rd.dropped = dropped
	rd.coveredOnly = false
	switch {
	case len(dropped) == 0 && len(extra) == 0:
		r.Count("reload_entry_sets_equal", 1)
	case len(extra) > 0:
		c := rd.reloadCase()
		r.Violation("reload/entry-extra", fmt.Sprintf("fresh instance holds entries the writer does not: %v", extra), c)
	default:
		allCovered := true
		for _, d := range dropped {
			if !covered(mem, rd.spec.Whitelist, d) {
				allCovered = false
			}
		}
		c := rd.reloadCase()
		c.Dropped = dropped
		if allCovered {
			rd.coveredOnly = true
			r.Count("reload_sets_differ_covered_entry_dropped", 1)
			r.Violation("reload/covered-entry-dropped", fmt.Sprintf("the persisted list does not reload to the in-memory list: memory/file hold %d entries, fresh instance %d; dropped (each covered by another entry that precedes it in the file): %v", len(mem), len(got), dropped), c)
		} else {
			r.Violation("reload/entry-missing", fmt.Sprintf("fresh instance lacks entries that no other entry covers: dropped=%v", dropped), c)
		}
	}
	// immediate decisions
	for _, p := range rd.probes {
		a, _ := safeExists(rd.w, p)
		b, _ := safeExists(rd.fresh, p)
		r.Eval(1)
		r.Count("reload_probe_comparisons", 1)
		if a != b {
			c := rd.reloadCase()
			c.Name = p
			r.Violation("reload/decision-differs", fmt.Sprintf("writer decides %q blocked=%v, the instance reloaded from its directory says %v", p, a, b), c)
		}
	}
}

func (rd *round) reloadCase() reloadCase {
	mem, _ := snapshotEntries(rd.w)
	return reloadCase{Kind: "reload", Round: rd.spec.Round, Whitelist: rd.spec.Whitelist, FileLines: rd.fileLines, Memory: mem, Probes: rd.probes}
}

// coverers orders entries so that those covering other entries come first.
func coverers(mem []string) []string {
	type sc struct {
		e string
		n int
	}
	var l []sc
	for _, p := range mem {
		n := 0
		only := listsFrom([]string{p}, nil)
		for _, e := range mem {
			if e != p && only.blocked(e) {
				n++
			}
		}
		l = append(l, sc{p, n})
	}
	sort.SliceStable(l, func(i, j int) bool { return l[i].n > l[j].n })
	out := make([]string, len(l))
	for i := range l {
		out[i] = l[i].e
	}
	return out
}

// reloadFollowUp removes each entry (parents first) from both instances and
// compares decisions, then restores it.
func reloadFollowUp(r *vlib.Run, rd *round, maxParents int) {
	if rd.skipFollow || rd.fresh == nil {
		return
	}
	mem, _ := snapshotEntries(rd.w)
	order := coverers(mem)
	if len(order) > maxParents {
		order = order[:maxParents]
	}
	for _, p := range order {
		rd.w.Remove(p)
		rd.fresh.Remove(p)
		wm, _ := snapshotEntries(rd.w)
		fm, _ := snapshotEntries(rd.fresh)
		wref := listsFrom(wm, rd.spec.Whitelist)
		fref := listsFrom(fm, rd.spec.Whitelist)
		r.Count("reload_followup_removes", 1)
		for _, n := range rd.probes {
			a, _ := safeExists(rd.w, n)
			b, _ := safeExists(rd.fresh, n)
			r.Eval(1)
			r.Count("reload_followup_probe_comparisons", 1)
			if a == b {
				continue
			}
			c := rd.reloadCase()
			c.Memory = mem
			c.Removed, c.Name, c.Dropped = p, n, rd.dropped
			explained := rd.coveredOnly && a == wref.blocked(n) && b == fref.blocked(n)
			if explained {
				r.Count("reload_followup_divergence_from_dropped_entry", 1)
				r.Violation("reload/covered-entry-dropped", fmt.Sprintf("after Remove(%q) the writer still blocks %q (=%v) but the instance restarted from its directory does not (=%v): the covered entry was dropped at load", p, n, a, b), c)
			} else {
				r.Violation("reload/decision-differs-after-remove", fmt.Sprintf("after Remove(%q): writer decides %q blocked=%v, reloaded instance %v", p, n, a, b), c)
			}
		}
		rd.w.Set(p)
		rd.fresh.Set(p)
	}
}

// ---- driver ----

func concurrentAndReload(r *vlib.Run) {
	nConc := r.N(200, 3000)
	nSeq := r.N(60, 1200)
	chunk := 130
	total := nConc + nSeq
	idx := 0
	for idx < total {
		end := idx + chunk
		if end > total {
			end = total
		}
		var rounds []*round
		for i := idx; i < end; i++ {
			kind := "conc"
			if i >= nConc {
				kind = "seq"
			}
			rng := r.RandN("round", i)
			rd := &round{spec: genRound(rng, i, kind, !r.Quick())}
			rd.probes = roundProbes(rng, rd.spec)
			rd.prepare()
			rounds = append(rounds, rd)
		}
		// the start-up refresh of every instance must be over before mutations begin
		if !waitRefreshed(90 * time.Second) {
			r.Inconclusive("start-up refresh of blocklist instances did not complete within 90s")
			return
		}
		for _, rd := range rounds {
			// the initial load itself is a reload of a hand-written antichain file
			if len(rd.spec.Initial) > 0 {
				mem, _ := snapshotEntries(rd.w)
				r.Eval(1)
				if !sameStrings(mem, rd.spec.initialModel().entries()) {
					r.Violation("reload/initial-file-not-loaded", fmt.Sprintf("local held %v, memory after New holds %v", rd.spec.Initial, mem), rd.spec)
				}
			}
			if rd.spec.Kind == "conc" {
				runConcRound(r, rd)
			} else {
				runSeqRound(r, rd)
			}
			reloadImmediate(r, rd)
			r.Progress("rounds %d/%d", rd.spec.Round, total)
		}
		if !waitRefreshed(90 * time.Second) {
			r.Inconclusive("start-up refresh of reloaded instances did not complete within 90s")
			return
		}
		for _, rd := range rounds {
			reloadFollowUp(r, rd, r.N(6, 12))
		}
		idx = end
	}
}

func replayReload(r *vlib.Run, rc reloadCase) {
	var plain, wild []string
	for _, l := range rc.FileLines {
		if strings.HasPrefix(l, "*.") {
			wild = append(wild, l)
		} else {
			plain = append(plain, l)
		}
	}
	rd := &round{spec: roundSpec{Kind: "reload", Round: rc.Round, Whitelist: rc.Whitelist}, probes: rc.Probes}
	rd.dir = newDir(true)
	rd.w = newInstance(rd.dir, nil, rc.Whitelist)
	waitRefreshed(60 * time.Second)
	rd.w.SetBatch(rc.Memory)
	// the recorded file, verbatim line order
	_ = os.WriteFile(filepath.Join(rd.dir, "local"), []byte(renderLocal(plain, wild)), 0o600)
	reloadImmediate(r, rd)
	waitRefreshed(60 * time.Second)
	reloadFollowUp(r, rd, 64)
	if rd.fresh != nil {
		got, _ := snapshotEntries(rd.fresh)
		fmt.Printf("replay reload: file lines %v\n  writer memory  %v\n  reloaded memory %v\n", rc.FileLines, rc.Memory, got)
	}
}
