package main

// Independent reference for C18: the matcher exactly as the property statement
// words it, a sequential model of the mutation API, an independent parser of
// the persisted `local` file, and the name generators.
//
// Nothing in this file calls into the blocklist package or miekg/dns.

import (
	"math/rand/v2"
	"os"
	"sort"
	"strings"
)

// canon is the reference canonical form: ASCII lower case, fully qualified.
func canon(s string) string {
	b := []byte(s)
	for i, c := range b {
		if c >= 'A' && c <= 'Z' {
			b[i] = c + 32
		}
	}
	s = string(b)
	if s == "" {
		return "."
	}
	if !endsWithUnescapedDot(s) {
		s += "."
	}
	return s
}

func endsWithUnescapedDot(s string) bool {
	if !strings.HasSuffix(s, ".") {
		return false
	}
	// count backslashes before the final dot
	n := 0
	for i := len(s) - 2; i >= 0 && s[i] == '\\'; i-- {
		n++
	}
	return n%2 == 0
}

// suffixes returns the name itself followed by every parent domain below the
// root, split on label boundaries (presentation-format escapes `\.` and `\DDD`
// do not end a label). Input must be canonical.
func suffixes(name string) []string {
	if name == "." {
		return nil
	}
	out := []string{name}
	for i := 0; i < len(name); i++ {
		switch name[i] {
		case '\\':
			if i+3 < len(name) && isDigit(name[i+1]) && isDigit(name[i+2]) && isDigit(name[i+3]) {
				i += 3
			} else {
				i++
			}
		case '.':
			if i+1 < len(name) {
				out = append(out, name[i+1:])
			}
		}
	}
	return out
}

func isDigit(c byte) bool { return c >= '0' && c <= '9' }

// lists is a set of blocklist entries in canonical form. Wildcards are keyed
// by "*.suffix." exactly as they are written by the user and in `local`.
type lists struct {
	Plain map[string]bool
	Wild  map[string]bool // key: "*.suffix."
	White map[string]bool
}

func newLists() *lists {
	return &lists{Plain: map[string]bool{}, Wild: map[string]bool{}, White: map[string]bool{}}
}

func (l *lists) clone() *lists {
	c := newLists()
	for k := range l.Plain {
		c.Plain[k] = true
	}
	for k := range l.Wild {
		c.Wild[k] = true
	}
	for k := range l.White {
		c.White[k] = true
	}
	return c
}

func (l *lists) whitelisted(name string) bool {
	if len(l.White) == 0 {
		return false
	}
	for _, s := range suffixes(name) {
		if l.White[s] {
			return true
		}
	}
	return false
}

// blocked is the property statement: (name or a parent is a plain entry, OR a
// STRICT parent is a wildcard entry) AND neither name nor any parent is
// whitelisted; whole labels, ASCII case-insensitive.
func (l *lists) blocked(name string) bool {
	n := canon(name)
	sfx := suffixes(n)
	hit := false
	for i, s := range sfx {
		if l.Plain[s] {
			hit = true
			break
		}
		if i > 0 && l.Wild["*."+s] {
			hit = true
			break
		}
	}
	if !hit {
		return false
	}
	for _, s := range sfx {
		if l.White[s] {
			return false
		}
	}
	return true
}

// ---- sequential model of the mutation API ----

type op struct {
	Kind string   `json:"kind"` // set | remove | setbatch | removebatch
	Keys []string `json:"keys"`
}

// setKey / removeKey return whether the real call is expected to persist.
func (l *lists) setKey(k string) bool {
	k = canon(k)
	if l.whitelisted(k) {
		return false
	}
	if strings.HasPrefix(k, "*.") {
		l.Wild[k] = true
	} else {
		l.Plain[k] = true
	}
	return true
}

func (l *lists) removeKey(k string) bool {
	k = canon(k)
	if l.Plain[k] {
		delete(l.Plain, k)
		return true
	}
	if strings.HasPrefix(k, "*.") && l.Wild[k] {
		delete(l.Wild, k)
		return true
	}
	return false
}

// apply executes op on the model; returns true when the real call persists.
func (l *lists) apply(o op) bool {
	n := 0
	for _, k := range o.Keys {
		switch o.Kind {
		case "set", "setbatch":
			if l.setKey(k) {
				n++
			}
		default:
			if l.removeKey(k) {
				n++
			}
		}
	}
	return n > 0
}

// entries returns the sorted union of plain and wildcard entries.
func (l *lists) entries() []string {
	out := make([]string, 0, len(l.Plain)+len(l.Wild))
	for k := range l.Plain {
		out = append(out, k)
	}
	for k := range l.Wild {
		out = append(out, k)
	}
	sort.Strings(out)
	return out
}

func sortedKeys(m map[string]bool) []string {
	out := make([]string, 0, len(m))
	for k := range m {
		out = append(out, k)
	}
	sort.Strings(out)
	return out
}

func listsFrom(entries, white []string) *lists {
	l := newLists()
	for _, w := range white {
		l.White[canon(w)] = true
	}
	for _, e := range entries {
		e = canon(e)
		if strings.HasPrefix(e, "*.") {
			l.Wild[e] = true
		} else {
			l.Plain[e] = true
		}
	}
	return l
}

func sameStrings(a, b []string) bool {
	if len(a) != len(b) {
		return false
	}
	for i := range a {
		if a[i] != b[i] {
			return false
		}
	}
	return true
}

// diff returns a\b and b\a for sorted string sets.
func diff(a, b []string) (onlyA, onlyB []string) {
	ma := map[string]bool{}
	for _, x := range a {
		ma[x] = true
	}
	mb := map[string]bool{}
	for _, x := range b {
		mb[x] = true
		if !ma[x] {
			onlyB = append(onlyB, x)
		}
	}
	for _, x := range a {
		if !mb[x] {
			onlyA = append(onlyA, x)
		}
	}
	return
}

// ---- independent parser of <dir>/local ----

type localFile struct {
	Present  bool     `json:"present"`
	Raw      string   `json:"raw,omitempty"`
	Lines    []string `json:"lines,omitempty"` // entry lines in file order
	Entries  []string `json:"-"`               // sorted, deduplicated
	Complete bool     `json:"complete"`        // header present, last byte is '\n', no duplicate / malformed line
	Problem  string   `json:"problem,omitempty"`
}

const localHeader = "# The file generated by auto. DO NOT EDIT"

// readLocal parses what persist() writes: the header comment, then one entry
// per line. Anything else (missing header, missing final newline, blank or
// duplicate lines, a line that is not a canonical name) marks the file as not
// a complete snapshot.
func readLocal(path string) localFile {
	b, err := os.ReadFile(path)
	if err != nil {
		return localFile{}
	}
	lf := localFile{Present: true, Raw: string(b), Complete: true}
	bad := func(p string) {
		if lf.Complete {
			lf.Complete = false
			lf.Problem = p
		}
	}
	s := string(b)
	if !strings.HasSuffix(s, "\n") {
		bad("file does not end in a newline")
	}
	parts := strings.Split(strings.TrimSuffix(s, "\n"), "\n")
	if len(parts) == 0 || parts[0] != localHeader {
		bad("header line missing")
	}
	seen := map[string]bool{}
	for i, ln := range parts {
		if i == 0 && ln == localHeader {
			continue
		}
		if ln == "" || strings.HasPrefix(ln, "#") || strings.ContainsAny(ln, " \t\r") || canon(ln) != ln {
			bad("malformed entry line " + strconvQuote(ln))
			if ln == "" {
				continue
			}
		}
		if seen[ln] {
			bad("duplicate entry line " + strconvQuote(ln))
			continue
		}
		seen[ln] = true
		lf.Lines = append(lf.Lines, ln)
	}
	lf.Entries = sortedKeys(seen)
	return lf
}

func strconvQuote(s string) string {
	if len(s) > 80 {
		s = s[:80] + "…"
	}
	return "\"" + strings.ReplaceAll(s, "\"", "\\\"") + "\""
}

// renderLocal writes entries in the format of persist(): header, all plain
// entries, then all wildcard entries; the order inside each group is the
// caller's (persist uses Go map iteration order, i.e. any order).
func renderLocal(plain, wild []string) string {
	var sb strings.Builder
	sb.WriteString(localHeader + "\n")
	for _, p := range plain {
		sb.WriteString(p + "\n")
	}
	for _, w := range wild {
		sb.WriteString(w + "\n")
	}
	return sb.String()
}

// ---- generators ----

var labelPool = []string{
	"example", "notexample", "ample", "xample", "examplee", "ex-ample", "e",
	"com", "co", "om", "org", "net", "uk", "au",
	"a", "b", "c", "www", "sub", "deep", "x", "ads", "tracker", "cdn", "0", "1", "_dmarc", "xn--bcher-kva",
}

var tlds = []string{"com", "co", "org", "net", "uk", "au", "om"}

func randLabel(rng *rand.Rand) string { return labelPool[rng.IntN(len(labelPool))] }

// randBase returns a 1–3 label registrable-looking domain (no trailing dot).
func randBase(rng *rand.Rand) string {
	switch rng.IntN(8) {
	case 0:
		return tlds[rng.IntN(len(tlds))]
	case 1:
		return randLabel(rng) + "." + randLabel(rng) + "." + tlds[rng.IntN(len(tlds))]
	default:
		return randLabel(rng) + "." + tlds[rng.IntN(len(tlds))]
	}
}

func randSub(rng *rand.Rand, base string, maxDepth int) string {
	d := rng.IntN(maxDepth + 1)
	for i := 0; i < d; i++ {
		base = randLabel(rng) + "." + base
	}
	return base
}

// spell renders a canonical-izable name in a random user spelling: mixed case,
// with or without the trailing dot.
func spell(rng *rand.Rand, s string) string {
	s = strings.TrimSuffix(s, ".")
	switch rng.IntN(4) {
	case 0:
		s = strings.ToUpper(s)
	case 1:
		b := []byte(s)
		for i := range b {
			if b[i] >= 'a' && b[i] <= 'z' && rng.IntN(2) == 0 {
				b[i] -= 32
			}
		}
		s = string(b)
	}
	if rng.IntN(2) == 0 {
		s += "."
	}
	return s
}

// nearMisses derives probe names around an entry name (canonical, may start
// with "*."): the name, children at several depths, every parent, label-
// boundary near misses on the first and on inner labels, sibling TLDs.
func nearMisses(rng *rand.Rand, entry string) []string {
	e := strings.TrimSuffix(strings.TrimPrefix(entry, "*."), ".")
	if e == "" {
		return nil
	}
	out := []string{e, "x." + e, "www." + e, "a.b.c.d.e.f." + e, "*." + e, "not" + e, e + "x", "x" + e, "x-" + e}
	labels := strings.Split(e, ".")
	for i := 1; i < len(labels); i++ {
		out = append(out, strings.Join(labels[i:], "."))
	}
	if len(labels) > 1 {
		// glue the first two labels, extend/shorten an inner label, drop a char
		out = append(out, labels[0]+strings.Join(labels[1:], "."))
		out = append(out, labels[0]+".x"+strings.Join(labels[1:], "."))
		out = append(out, labels[0]+"."+strings.Join(labels[1:], ".")+"x")
		out = append(out, "sub."+labels[0]+"x."+strings.Join(labels[1:], "."))
		if len(labels[0]) > 1 {
			out = append(out, labels[0][1:]+"."+strings.Join(labels[1:], "."))
		}
		// escaped dot: one label "<l0>.<l1>" is NOT a child of l1.<rest>
		out = append(out, "q\\."+e)
	}
	out = append(out, randSub(rng, e, 3))
	return out
}
