package main

// Construction of real BlockList instances, the log-based barrier that tells
// when their start-up refresh goroutine is done, and probing through Exists
// and through the handler chain.

import (
	"bytes"
	"context"
	"fmt"
	"net"
	"os"
	"path/filepath"
	"sync"
	"sync/atomic"
	"time"

	"github.com/miekg/dns"
	"github.com/semihalev/sdns/config"
	"github.com/semihalev/sdns/internal/mock"
	"github.com/semihalev/sdns/middleware"
	"github.com/semihalev/sdns/middleware/blocklist"
	"github.com/semihalev/zlog/v2"
)

const (
	null4 = "192.0.2.66"
	null6 = "2001:db8::66"
)

// logTap receives every sdns log line (logfmt text). blocklist.New starts a
// goroutine that, one second later, re-reads the blocklist directory and ends
// with the log line "Blocked domains loaded"; loadInitial emits the same line
// when the directory already exists at New. Counting those lines is the only
// behaviour-neutral way to know that an instance's start-up refresh is over
// (the refresh re-parses `local` and may re-add names, so mutation workloads
// must not overlap it).
type logTap struct {
	loaded        atomic.Int64 // "Blocked domains loaded"
	mkdirFailed   atomic.Int64 // "Create blocklist directory failed" (refresh ended early)
	persistFailed atomic.Int64 // "Blocklist persist failed"
	readFailed    atomic.Int64 // "Read ... blocklists ... failed"
	wake          chan struct{}
}

var tap = logTap{wake: make(chan struct{}, 1)}

func (t *logTap) Write(b []byte) (int, error) {
	switch {
	case bytes.Contains(b, []byte("Blocked domains loaded")):
		t.loaded.Add(1)
	case bytes.Contains(b, []byte("Create blocklist directory failed")):
		t.mkdirFailed.Add(1)
	case bytes.Contains(b, []byte("Blocklist persist failed")):
		t.persistFailed.Add(1)
	case bytes.Contains(b, []byte("blocklists failed")), bytes.Contains(b, []byte("blocklists after refresh failed")):
		t.readFailed.Add(1)
	default:
		return len(b), nil
	}
	select {
	case t.wake <- struct{}{}:
	default:
	}
	return len(b), nil
}

var expectedLoads atomic.Int64

func installLogTap() {
	lg := zlog.NewStructured()
	lg.SetWriter(zlog.NewLogfmtWriter(&tap))
	lg.SetLevel(zlog.LevelInfo)
	zlog.SetDefault(lg)
}

// newInstance builds a real BlockList on dir with no remote sources (nothing
// is downloaded). Entries/whitelist are the static config lists.
func newInstance(dir string, cfgBlock, cfgWhite []string) *blocklist.BlockList {
	cfg := new(config.Config)
	cfg.Nullroute = null4
	cfg.Nullroutev6 = null6
	cfg.BlockListDir = dir
	cfg.BlockLists = nil
	cfg.Blocklist = append([]string(nil), cfgBlock...)
	cfg.Whitelist = append([]string(nil), cfgWhite...)
	n := int64(1) // the refresh goroutine
	if _, err := os.Stat(dir); err == nil {
		n++ // loadInitial reads the existing directory
	}
	expectedLoads.Add(n)
	return blocklist.New(cfg)
}

// waitRefreshed blocks until every instance created so far has finished its
// start-up refresh. A timeout is a harness problem (inconclusive), never a
// verdict.
func waitRefreshed(max time.Duration) bool {
	deadline := time.Now().Add(max)
	for {
		if refreshedNow() {
			return true
		}
		if time.Now().After(deadline) {
			return false
		}
		time.Sleep(10 * time.Millisecond)
	}
}

func refreshedNow() bool {
	return tap.loaded.Load()+tap.mkdirFailed.Load()+tap.readFailed.Load() >= expectedLoads.Load()
}

// waitRefreshedNoTimer is waitRefreshed without any timer (timers make the Go
// runtime write to its netpoll eventfd, which would pollute the write(2)
// ordinal the child's strace injection counts). The parent's process timeout
// is the watchdog.
func waitRefreshedNoTimer() {
	for !refreshedNow() {
		<-tap.wake
	}
}

// ---- temp dirs ----

var (
	tmpRootOnce sync.Once
	tmpRoot     string
	dirSeq      atomic.Int64
)

// scratchRoot picks tmpfs when available (fsync-heavy concurrent rounds), else
// the build tmp dir. Always removed by cleanupScratch.
func scratchRoot() string {
	tmpRootOnce.Do(func() {
		for _, base := range []string{"/dev/shm", filepath.Join(envOr("VERIF_BUILD_DIR", "/verif/build"), "tmp")} {
			_ = os.MkdirAll(base, 0o755)
			// hygiene: a run killed by the outer watchdog cannot clean up after itself
			if old, _ := filepath.Glob(filepath.Join(base, "verif-c18-*")); len(old) > 0 {
				for _, o := range old {
					if fi, err := os.Stat(o); err == nil && time.Since(fi.ModTime()) > 3*time.Hour {
						_ = os.RemoveAll(o)
					}
				}
			}
			d, err := os.MkdirTemp(base, "verif-c18-")
			if err == nil {
				tmpRoot = d
				return
			}
		}
		panic("c18: no scratch directory")
	})
	return tmpRoot
}

func envOr(k, d string) string {
	if v := os.Getenv(k); v != "" {
		return v
	}
	return d
}

// newDir returns root/<seq>/bl; create=false leaves it absent.
func newDir(create bool) string {
	d := filepath.Join(scratchRoot(), fmt.Sprintf("d%06d", dirSeq.Add(1)), "bl")
	if create {
		_ = os.MkdirAll(d, 0o750)
	} else {
		_ = os.MkdirAll(filepath.Dir(d), 0o750)
	}
	return d
}

func cleanupScratch() {
	if tmpRoot != "" {
		waitRefreshed(20 * time.Second)
		for i := 0; i < 3; i++ {
			if os.RemoveAll(tmpRoot) == nil {
				break
			}
			time.Sleep(50 * time.Millisecond)
		}
	}
}

// ---- probing ----

type stubHandler struct {
	calls int
	last  *dns.Msg
}

func (s *stubHandler) Name() string { return "verifstub" }
func (s *stubHandler) ServeDNS(ctx context.Context, ch *middleware.Chain) {
	s.calls++
	s.last = ch.Request.Msg()
}

type served struct {
	Blocked  bool   // a reply was written by the blocklist
	Next     int    // times the next handler ran
	Problem  string // non-empty: the reply/forwarding contract of the statement is broken
	ProbKind string
}

// serve sends one query through [blocklist, stub] and judges the statement's
// reply contract for whichever branch the blocklist took.
func serve(bl *blocklist.BlockList, qname string, qtype uint16) served {
	stub := &stubHandler{}
	ch := middleware.NewChain([]middleware.Handler{bl, stub})
	req := new(dns.Msg)
	req.SetQuestion(qname, qtype)
	req.Id = 0x4242
	before, _ := req.Pack()
	mw := mock.NewWriter("udp", "192.0.2.1:5353")
	ch.Reset(mw, req)
	ch.Next(context.Background())
	ch.Finish()
	out := served{Next: stub.calls}
	resp := mw.Msg()
	if resp == nil {
		// not blocked: must have been handed on untouched, exactly once
		if stub.calls != 1 {
			out.ProbKind, out.Problem = "unblocked-not-forwarded", fmt.Sprintf("no reply written and next handler ran %d times", stub.calls)
			return out
		}
		after, _ := req.Pack()
		if !bytes.Equal(before, after) || stub.last != req {
			out.ProbKind, out.Problem = "unblocked-request-touched", "request changed on the way to the next handler"
		}
		return out
	}
	out.Blocked = true
	if stub.calls != 0 {
		out.ProbKind, out.Problem = "blocked-reached-next", fmt.Sprintf("blocked reply written but next handler ran %d times", stub.calls)
		return out
	}
	if resp.Id != req.Id || !resp.Response || len(resp.Question) != 1 || resp.Question[0] != req.Question[0] {
		out.ProbKind, out.Problem = "blocked-reply-header", "reply does not answer the request (id/QR/question)"
		return out
	}
	if resp.Rcode != dns.RcodeSuccess || !resp.Authoritative {
		out.ProbKind, out.Problem = "blocked-reply-not-authoritative", fmt.Sprintf("rcode=%d aa=%v", resp.Rcode, resp.Authoritative)
		return out
	}
	switch qtype {
	case dns.TypeA:
		if len(resp.Answer) != 1 {
			out.ProbKind, out.Problem = "blocked-a-nullroute", fmt.Sprintf("%d answers", len(resp.Answer))
			return out
		}
		a, ok := resp.Answer[0].(*dns.A)
		if !ok || !a.A.Equal(net.ParseIP(null4)) || !sameNameFold(a.Hdr.Name, qname) || a.Hdr.Class != dns.ClassINET {
			out.ProbKind, out.Problem = "blocked-a-nullroute", fmt.Sprintf("answer %v is not %s A %s", resp.Answer[0], qname, null4)
		}
	case dns.TypeAAAA:
		if len(resp.Answer) != 1 {
			out.ProbKind, out.Problem = "blocked-aaaa-nullroute", fmt.Sprintf("%d answers", len(resp.Answer))
			return out
		}
		a, ok := resp.Answer[0].(*dns.AAAA)
		if !ok || !a.AAAA.Equal(net.ParseIP(null6)) || !sameNameFold(a.Hdr.Name, qname) || a.Hdr.Class != dns.ClassINET {
			out.ProbKind, out.Problem = "blocked-aaaa-nullroute", fmt.Sprintf("answer %v is not %s AAAA %s", resp.Answer[0], qname, null6)
		}
	default:
		if len(resp.Answer) != 0 {
			out.ProbKind, out.Problem = "blocked-other-not-empty", fmt.Sprintf("type %d got %d answers", qtype, len(resp.Answer))
		}
	}
	return out
}

func sameNameFold(a, b string) bool { return canon(a) == canon(b) }

var probeTypes = []uint16{dns.TypeA, dns.TypeAAAA, dns.TypeMX, dns.TypeTXT, dns.TypeNS, dns.TypeSOA, dns.TypeCNAME, dns.TypeHTTPS, dns.TypeANY, dns.TypeDS}

// safeExists wraps Exists in recover: hostile names must not kill the run.
func safeExists(bl *blocklist.BlockList, name string) (res bool, panicked any) {
	defer func() {
		if p := recover(); p != nil {
			panicked = p
		}
	}()
	return bl.Exists(name), nil
}

func snapshotEntries(bl *blocklist.BlockList) (entries, white []string) {
	ex, wi, wh := bl.VerifC18Snapshot()
	entries = append(append([]string{}, ex...), wi...)
	sortStrings(entries)
	return entries, wh
}
