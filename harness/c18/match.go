package main

// Part (i): matcher differential. Generated plain / wildcard / whitelist entry
// sets x query names; Exists(n) and the full ServeDNS behaviour against the
// reference that implements exactly the property statement.

import (
	"fmt"
	"math/rand/v2"
	"strings"

	"github.com/miekg/dns"
	"github.com/semihalev/sdns/middleware/blocklist"
	"github.com/semihalev/sdns/zzverif/vlib"
)

type matchCase struct {
	Kind      string   `json:"kind"` // "match"
	Case      int      `json:"case"`
	Via       string   `json:"via"` // config | api
	Entries   []string `json:"entries"`
	Whitelist []string `json:"whitelist"`
	Name      string   `json:"name,omitempty"`
	Qtype     uint16   `json:"qtype,omitempty"`
	Probes    []string `json:"probes,omitempty"`
}

// genLists draws the entry set of one case, in user spelling.
func genLists(rng *rand.Rand) (entries, white []string) {
	nb := 1 + rng.IntN(3)
	bases := make([]string, nb)
	for i := range bases {
		bases[i] = randBase(rng)
	}
	pick := func() string { return bases[rng.IntN(nb)] }
	ne := rng.IntN(9)
	if rng.IntN(12) == 0 {
		ne = 0
	}
	for i := 0; i < ne; i++ {
		b := pick()
		switch rng.IntN(7) {
		case 0, 1: // plain apex
			entries = append(entries, spell(rng, b))
		case 2: // plain deeper
			entries = append(entries, spell(rng, randSub(rng, randLabel(rng)+"."+b, 2)))
		case 3, 4: // wildcard on the base
			entries = append(entries, spell(rng, "*."+b))
		case 5: // wildcard deeper
			entries = append(entries, spell(rng, "*."+randSub(rng, randLabel(rng)+"."+b, 1)))
		case 6: // near-miss neighbour of a base as its own entry
			entries = append(entries, spell(rng, "not"+b))
		}
	}
	nw := 0
	switch rng.IntN(5) {
	case 0, 1:
		nw = 1
	case 2:
		nw = 1 + rng.IntN(3)
	}
	for i := 0; i < nw; i++ {
		b := pick()
		switch rng.IntN(6) {
		case 0: // the base itself
			white = append(white, spell(rng, b))
		case 1, 2: // one level below
			white = append(white, spell(rng, randLabel(rng)+"."+b))
		case 3: // deep below
			white = append(white, spell(rng, randSub(rng, randLabel(rng)+"."+randLabel(rng)+"."+b, 2)))
		case 4: // a parent of the base (when it has one)
			if i := strings.IndexByte(b, '.'); i >= 0 {
				white = append(white, spell(rng, b[i+1:]))
			} else {
				white = append(white, spell(rng, "www."+b))
			}
		case 5: // exactly an entry (minus wildcard star)
			if len(entries) > 0 {
				e := entries[rng.IntN(len(entries))]
				white = append(white, strings.TrimPrefix(e, "*."))
			}
		}
	}
	return
}

func genProbes(rng *rand.Rand, entries, white []string) []string {
	var out []string
	for _, e := range entries {
		out = append(out, nearMisses(rng, canon(e))...)
	}
	for _, w := range white {
		out = append(out, nearMisses(rng, canon(w))...)
	}
	out = append(out, ".", "com", "example.com", "notexample.com", "a.b.c.d.e.f.g.h.i.j.k.l.m.n.o.p.example.com")
	for i := 0; i < 6; i++ {
		out = append(out, randSub(rng, randBase(rng), 4))
	}
	// dedupe keeping order, then respell
	seen := map[string]bool{}
	res := out[:0]
	for _, p := range out {
		c := canon(p)
		if seen[c] {
			continue
		}
		seen[c] = true
		if c == "." {
			res = append(res, ".")
			continue
		}
		res = append(res, spell(rng, p))
	}
	return res
}

// mismatchSig names the way the real decision departs from the statement.
func mismatchSig(l *lists, name string, got bool) (string, string) {
	n := canon(name)
	if strings.Contains(n, "\\") {
		return "match/escaped-dot-label-boundary", "a '.' inside a label (presentation form \\.) is treated as a label boundary"
	}
	sfx := suffixes(n)
	if got { // blocked but must not be
		for i, s := range sfx {
			if l.White[s] {
				if i == 0 {
					return "match/blocked/whitelisted-self", "name is whitelisted itself yet blocked"
				}
				return "match/blocked/whitelisted-parent", "a parent of the name is whitelisted yet it is blocked"
			}
		}
		if l.Wild["*."+n] {
			return "match/blocked/wildcard-apex", "a wildcard entry blocked its own apex"
		}
		return "match/blocked/no-covering-entry", "no plain entry at the name or a parent and no wildcard at a strict parent (label-boundary near miss?)"
	}
	for i, s := range sfx {
		if l.Plain[s] {
			if i == 0 {
				return "match/not-blocked/plain-self", "name is listed as a plain entry but not blocked"
			}
			return "match/not-blocked/plain-parent", "a parent is listed as a plain entry but the name is not blocked"
		}
		if i > 0 && l.Wild["*."+s] {
			return "match/not-blocked/wildcard-parent", "a strict parent is listed as a wildcard but the name is not blocked"
		}
	}
	return "match/not-blocked/unknown", "reference says blocked"
}

// buildInstance makes a real BlockList holding entries/white, either through
// the static config lists or through the mutation API.
func buildInstance(via string, entries, white []string) *blocklist.BlockList {
	if via == "config" {
		return newInstance(newDir(false), entries, white)
	}
	bl := newInstance(newDir(true), nil, white)
	if len(entries) > 0 {
		half := len(entries) / 2
		bl.SetBatch(entries[:half])
		for _, e := range entries[half:] {
			bl.Set(e)
		}
	}
	return bl
}

// judgeProbe evaluates one (lists, name) pair through Exists and the handler.
func judgeProbe(r *vlib.Run, bl *blocklist.BlockList, ref *lists, mc matchCase, name string, qtypes []uint16) (want bool) {
	want = ref.blocked(name)
	got, pan := safeExists(bl, name)
	r.Eval(1)
	mk := func(qt uint16) matchCase {
		c := mc
		c.Name, c.Qtype, c.Probes = name, qt, nil
		return c
	}
	if pan != nil {
		r.Violation("panic/blocklist.Exists", fmt.Sprintf("Exists(%q) panicked: %v", name, pan), mk(0))
		return
	}
	if got != want {
		sig, why := mismatchSig(ref, name, got)
		r.Violation(sig, fmt.Sprintf("Exists(%q)=%v, statement says %v: %s (plain=%v wild=%v white=%v)", name, got, want, why,
			sortedKeys(ref.Plain), sortedKeys(ref.Wild), sortedKeys(ref.White)), mk(0))
	}
	fq := name
	if !endsWithUnescapedDot(fq) {
		fq += "."
	}
	if _, ok := dns.IsDomainName(fq); !ok {
		return
	}
	for _, qt := range qtypes {
		var sv served
		func() {
			defer func() {
				if p := recover(); p != nil {
					sv.ProbKind, sv.Problem = "panic", fmt.Sprint(p)
				}
			}()
			sv = serve(bl, fq, qt)
		}()
		r.Eval(1)
		if sv.ProbKind == "panic" {
			r.Violation("panic/blocklist.ServeDNS", fmt.Sprintf("ServeDNS(%q %d) panicked: %s", fq, qt, sv.Problem), mk(qt))
			continue
		}
		if sv.Blocked != want && sv.Problem == "" {
			sig, why := mismatchSig(ref, name, sv.Blocked)
			if sig != "match/escaped-dot-label-boundary" { // one defect, one signature
				sig = strings.Replace(sig, "match/", "serve/", 1)
			}
			r.Violation(sig, fmt.Sprintf("ServeDNS(%q type %d) blocked=%v, statement says %v: %s", fq, qt, sv.Blocked, want, why), mk(qt))
			continue
		}
		if sv.Problem != "" {
			r.Violation("serve/"+sv.ProbKind, fmt.Sprintf("ServeDNS(%q type %d): %s", fq, qt, sv.Problem), mk(qt))
			continue
		}
		switch {
		case !sv.Blocked:
			r.Count("served_passed_on_untouched", 1)
		case qt == dns.TypeA:
			r.Count("served_blocked_a_nullroute", 1)
		case qt == dns.TypeAAAA:
			r.Count("served_blocked_aaaa_nullroute", 1)
		default:
			r.Count("served_blocked_other_empty_authoritative", 1)
		}
	}
	return
}

func runMatchCase(r *vlib.Run, ci int, via string, entries, white, probes []string, rng *rand.Rand) {
	mc := matchCase{Kind: "match", Case: ci, Via: via, Entries: entries, Whitelist: white}
	ref := listsFrom(entries, white)
	bl := buildInstance(via, entries, white)
	// the instance must hold what was asked for, minus what the whitelist shadows
	ent, _ := snapshotEntries(bl)
	var wantEnt []string
	for _, e := range ref.entries() {
		if !ref.whitelisted(e) {
			wantEnt = append(wantEnt, e)
		}
	}
	r.Eval(1)
	if !sameStrings(ent, wantEnt) {
		miss, extra := diff(wantEnt, ent)
		c := mc
		c.Probes = probes
		r.Violation("api/"+via+"-entries-differ", fmt.Sprintf("after loading via %s memory holds %v; expected %v (missing %v, extra %v)", via, ent, wantEnt, miss, extra), c)
	}
	nb, nu, nwl := 0, 0, 0
	for pi, p := range probes {
		k := ci + pi
		if k < 0 {
			k = -k
		}
		qts := []uint16{probeTypes[k%len(probeTypes)]}
		if pi%3 == 0 {
			qts = append(qts, probeTypes[(k+1)%2]) // A or AAAA
		}
		if judgeProbe(r, bl, ref, mc, p, qts) {
			nb++
		} else {
			nu++
			if ref.whitelisted(canon(p)) {
				// would it be blocked without the whitelist?
				nowl := &lists{Plain: ref.Plain, Wild: ref.Wild, White: map[string]bool{}}
				if nowl.blocked(p) {
					nwl++
				}
			}
		}
	}
	r.Count("match_lists", 1)
	r.Count("match_probes_blocked", nb)
	r.Count("match_probes_unblocked", nu)
	r.Count("match_probes_whitelist_overrides_block", nwl)
	r.Count("match_entries_plain", len(ref.Plain))
	r.Count("match_entries_wildcard", len(ref.Wild))
	r.Count("match_entries_whitelist", len(ref.White))
	r.Count("match_lists_via_"+via, 1)
	kinds := 0
	for _, n := range []int{len(ref.Plain), len(ref.Wild), len(ref.White)} {
		if n > 0 {
			kinds++
		}
	}
	if nb > 0 && nu > 0 && kinds >= 2 {
		r.Distinct(fmt.Sprintf("match:%v|%v|%v", sortedKeys(ref.Plain), sortedKeys(ref.Wild), sortedKeys(ref.White)))
	}
	if ci < 2 {
		r.Sample(map[string]any{"kind": "match-list", "via": via, "entries": entries, "whitelist": white, "probes": len(probes), "blocked": nb, "unblocked": nu})
	}
}

func matcherDifferential(r *vlib.Run) {
	n := r.N(2500, 60000)
	for ci := 0; ci < n; ci++ {
		rng := r.RandN("match", ci)
		entries, white := genLists(rng)
		probes := genProbes(rng, entries, white)
		via := "config"
		if ci%2 == 1 {
			via = "api"
		}
		runMatchCase(r, ci, via, entries, white, probes, rng)
		r.Progress("matcher differential %d/%d", ci, n)
	}
	// fixed corner cases named by the property text
	fixed := []struct{ e, w, p []string }{
		{[]string{"example.com"}, nil, []string{"example.com", "EXAMPLE.COM.", "notexample.com", "sub.example.com", "a.b.example.com", "example.com.au", "com", ".", "xexample.com", "example.co"}},
		{[]string{"*.example.com"}, nil, []string{"example.com", "sub.example.com", "Sub.Example.Com", "deep.sub.example.com", "notexample.com", "sub.notexample.com", "*.example.com"}},
		{[]string{"example.com", "*.ads.net"}, []string{"ok.example.com", "net"}, []string{"example.com", "ok.example.com", "x.ok.example.com", "nok.example.com", "x.ads.net", "ads.net", "notok.example.com"}},
		{nil, []string{"example.com"}, []string{"example.com", "sub.example.com", "."}},
	}
	for i, f := range fixed {
		for _, via := range []string{"config", "api"} {
			runMatchCase(r, -1-i, via, f.e, f.w, f.p, r.RandN("match-fixed", i))
		}
	}
}

func replayMatch(r *vlib.Run, mc matchCase) {
	ref := listsFrom(mc.Entries, mc.Whitelist)
	bl := buildInstance(mc.Via, mc.Entries, mc.Whitelist)
	names := mc.Probes
	if mc.Name != "" {
		names = []string{mc.Name}
	}
	qts := probeTypes
	if mc.Qtype != 0 {
		qts = []uint16{mc.Qtype}
	}
	for _, n := range names {
		want := judgeProbe(r, bl, ref, mc, n, qts)
		got, _ := safeExists(bl, n)
		fmt.Printf("replay match: name=%q Exists=%v reference=%v\n", n, got, want)
	}
}
