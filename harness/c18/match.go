package main

// Part (i): matcher differential. Generated plain / wildcard / whitelist entry
// sets x query names; Exists(n) and the full ServeDNS behaviour against the
// reference that implements exactly the property statement.

import (
	"fmt"
	"math/rand/v2"
	"strings"
	"time"

	"github.com/miekg/dns"
	"github.com/semihalev/sdns/middleware/blocklist"
	"github.com/semihalev/sdns/zzverif/vlib"
)

type matchCase struct {
	Kind      string   `json:"kind"` // "match"
	Case      int      `json:"case"`
	Via       string   `json:"via"` // config | api
	Entries   []string `json:"entries"`
	Whitelist []string `json:"whitelist"`
	Name      string   `json:"name,omitempty"`
	Qtype     uint16   `json:"qtype,omitempty"`
	Probes    []string `json:"probes,omitempty"`
	Ops       []op     `json:"ops,omitempty"` // via=="seq": API calls made (after the start-up refresh) before probing
}

// genLists draws the entry set of one case, in user spelling.
func genLists(rng *rand.Rand) (entries, white []string) {
	nb := 1 + rng.IntN(3)
	bases := make([]string, nb)
	for i := range bases {
		bases[i] = randBase(rng)
	}
	pick := func() string { return bases[rng.IntN(nb)] }
	ne := rng.IntN(9)
	if rng.IntN(12) == 0 {
		ne = 0
	}
	wildOnly := rng.IntN(8) == 0 // lists holding ONLY wildcard entries (zero plain entries)
	if wildOnly && ne == 0 {
		ne = 1 + rng.IntN(3)
	}
	for i := 0; i < ne; i++ {
		b := pick()
		k := rng.IntN(7)
		if wildOnly {
			k = 3 + rng.IntN(3)
		}
		switch k {
		case 0, 1: // plain apex
			entries = append(entries, spell(rng, b))
		case 2: // plain deeper
			entries = append(entries, spell(rng, randSub(rng, randLabel(rng)+"."+b, 2)))
		case 3, 4: // wildcard on the base
			entries = append(entries, spell(rng, "*."+b))
		case 5: // wildcard deeper
			entries = append(entries, spell(rng, "*."+randSub(rng, randLabel(rng)+"."+b, 1)))
		case 6: // near-miss neighbour of a base as its own entry
			entries = append(entries, spell(rng, "not"+b))
		}
	}
	nw := 0
	switch rng.IntN(5) {
	case 0, 1:
		nw = 1
	case 2:
		nw = 1 + rng.IntN(3)
	}
	for i := 0; i < nw; i++ {
		b := pick()
		switch rng.IntN(6) {
		case 0: // the base itself
			white = append(white, spell(rng, b))
		case 1, 2: // one level below
			white = append(white, spell(rng, randLabel(rng)+"."+b))
		case 3: // deep below
			white = append(white, spell(rng, randSub(rng, randLabel(rng)+"."+randLabel(rng)+"."+b, 2)))
		case 4: // a parent of the base (when it has one)
			if i := strings.IndexByte(b, '.'); i >= 0 {
				white = append(white, spell(rng, b[i+1:]))
			} else {
				white = append(white, spell(rng, "www."+b))
			}
		case 5: // exactly an entry (minus wildcard star)
			if len(entries) > 0 {
				e := entries[rng.IntN(len(entries))]
				white = append(white, strings.TrimPrefix(e, "*."))
			}
		}
	}
	return
}

func genProbes(rng *rand.Rand, entries, white []string) []string {
	var out []string
	for _, e := range entries {
		out = append(out, nearMisses(rng, canon(e))...)
	}
	for _, w := range white {
		out = append(out, nearMisses(rng, canon(w))...)
	}
	out = append(out, ".", "com", "example.com", "notexample.com", "a.b.c.d.e.f.g.h.i.j.k.l.m.n.o.p.example.com")
	for i := 0; i < 6; i++ {
		out = append(out, randSub(rng, randBase(rng), 4))
	}
	// dedupe keeping order, then respell
	seen := map[string]bool{}
	res := out[:0]
	for _, p := range out {
		c := canon(p)
		if seen[c] {
			continue
		}
		seen[c] = true
		if c == "." {
			res = append(res, ".")
			continue
		}
		res = append(res, spell(rng, p))
	}
	return res
}

// mismatchSig names the way the real decision departs from the statement.
func mismatchSig(l *lists, name string, got bool) (string, string) {
	n := canon(name)
	if strings.Contains(n, "\\") {
		return "match/escaped-dot-label-boundary", "a '.' inside a label (presentation form \\.) is treated as a label boundary"
	}
	sfx := suffixes(n)
	if got { // blocked but must not be
		for i, s := range sfx {
			if l.White[s] {
				if i == 0 {
					return "match/blocked/whitelisted-self", "name is whitelisted itself yet blocked"
				}
				return "match/blocked/whitelisted-parent", "a parent of the name is whitelisted yet it is blocked"
			}
		}
		if l.Wild["*."+n] {
			return "match/blocked/wildcard-apex", "a wildcard entry blocked its own apex"
		}
		return "match/blocked/no-covering-entry", "no plain entry at the name or a parent and no wildcard at a strict parent (label-boundary near miss?)"
	}
	for i, s := range sfx {
		if l.Plain[s] {
			if i == 0 {
				return "match/not-blocked/plain-self", "name is listed as a plain entry but not blocked"
			}
			return "match/not-blocked/plain-parent", "a parent is listed as a plain entry but the name is not blocked"
		}
		if i > 0 && l.Wild["*."+s] {
			return "match/not-blocked/wildcard-parent", "a strict parent is listed as a wildcard but the name is not blocked"
		}
	}
	return "match/not-blocked/unknown", "reference says blocked"
}

// buildInstance makes a real BlockList holding entries/white, either through
// the static config lists or through the mutation API.
func buildInstance(via string, entries, white []string) *blocklist.BlockList {
	if via == "config" {
		return newInstance(newDir(false), entries, white)
	}
	bl := newInstance(newDir(true), nil, white)
	if len(entries) > 0 {
		half := len(entries) / 2
		bl.SetBatch(entries[:half])
		for _, e := range entries[half:] {
			bl.Set(e)
		}
	}
	return bl
}

// judgeProbe evaluates one (lists, name) pair through Exists and the handler.
func judgeProbe(r *vlib.Run, bl *blocklist.BlockList, ref *lists, mc matchCase, name string, qtypes []uint16) (want bool) {
	want = ref.blocked(name)
	got, pan := safeExists(bl, name)
	r.Eval(1)
	mk := func(qt uint16) matchCase {
		c := mc
		c.Name, c.Qtype, c.Probes = name, qt, nil
		return c
	}
	if pan != nil {
		r.Violation("panic/blocklist.Exists", fmt.Sprintf("Exists(%q) panicked: %v", name, pan), mk(0))
		return
	}
	if got != want {
		sig, why := mismatchSig(ref, name, got)
		r.Violation(sig, fmt.Sprintf("Exists(%q)=%v, statement says %v: %s (plain=%v wild=%v white=%v)", name, got, want, why,
			sortedKeys(ref.Plain), sortedKeys(ref.Wild), sortedKeys(ref.White)), mk(0))
	}
	fq := name
	if !endsWithUnescapedDot(fq) {
		fq += "."
	}
	if _, ok := dns.IsDomainName(fq); !ok {
		return
	}
	for _, qt := range qtypes {
		var sv served
		func() {
			defer func() {
				if p := recover(); p != nil {
					sv.ProbKind, sv.Problem = "panic", fmt.Sprint(p)
				}
			}()
			sv = serve(bl, fq, qt)
		}()
		r.Eval(1)
		if sv.ProbKind == "panic" {
			r.Violation("panic/blocklist.ServeDNS", fmt.Sprintf("ServeDNS(%q %d) panicked: %s", fq, qt, sv.Problem), mk(qt))
			continue
		}
		if sv.Blocked != want && sv.Problem == "" {
			sig, why := mismatchSig(ref, name, sv.Blocked)
			if sig != "match/escaped-dot-label-boundary" { // one defect, one signature
				sig = strings.Replace(sig, "match/", "serve/", 1)
			}
			r.Violation(sig, fmt.Sprintf("ServeDNS(%q type %d) blocked=%v, statement says %v: %s", fq, qt, sv.Blocked, want, why), mk(qt))
			continue
		}
		if sv.Problem != "" {
			r.Violation("serve/"+sv.ProbKind, fmt.Sprintf("ServeDNS(%q type %d): %s", fq, qt, sv.Problem), mk(qt))
			continue
		}
		switch {
		case !sv.Blocked:
			r.Count("served_passed_on_untouched", 1)
		case qt == dns.TypeA:
			r.Count("served_blocked_a_nullroute", 1)
		case qt == dns.TypeAAAA:
			r.Count("served_blocked_aaaa_nullroute", 1)
		default:
			r.Count("served_blocked_other_empty_authoritative", 1)
		}
	}
	return
}

func runMatchCase(r *vlib.Run, ci int, via string, entries, white, probes []string, rng *rand.Rand) {
	mc := matchCase{Kind: "match", Case: ci, Via: via, Entries: entries, Whitelist: white}
	ref := listsFrom(entries, white)
	bl := buildInstance(via, entries, white)
	// the instance must hold what was asked for, minus what the whitelist shadows
	ent, _ := snapshotEntries(bl)
	var wantEnt []string
	for _, e := range ref.entries() {
		if !ref.whitelisted(e) {
			wantEnt = append(wantEnt, e)
		}
	}
	r.Eval(1)
	if !sameStrings(ent, wantEnt) {
		miss, extra := diff(wantEnt, ent)
		c := mc
		c.Probes = probes
		r.Violation("api/"+via+"-entries-differ", fmt.Sprintf("after loading via %s memory holds %v; expected %v (missing %v, extra %v)", via, ent, wantEnt, miss, extra), c)
	}
	nb, nu, nwl := 0, 0, 0
	for pi, p := range probes {
		k := ci + pi
		if k < 0 {
			k = -k
		}
		qts := []uint16{probeTypes[k%len(probeTypes)]}
		if pi%3 == 0 {
			qts = append(qts, probeTypes[(k+1)%2]) // A or AAAA
		}
		if judgeProbe(r, bl, ref, mc, p, qts) {
			nb++
		} else {
			nu++
			if ref.whitelisted(canon(p)) {
				// would it be blocked without the whitelist?
				nowl := &lists{Plain: ref.Plain, Wild: ref.Wild, White: map[string]bool{}}
				if nowl.blocked(p) {
					nwl++
				}
			}
		}
	}
	r.Count("match_lists", 1)
	r.Count("match_probes_blocked", nb)
	r.Count("match_probes_unblocked", nu)
	r.Count("match_probes_whitelist_overrides_block", nwl)
	r.Count("match_entries_plain", len(ref.Plain))
	r.Count("match_entries_wildcard", len(ref.Wild))
	r.Count("match_entries_whitelist", len(ref.White))
	r.Count("match_lists_via_"+via, 1)
	if len(ref.Plain) == 0 && len(ref.Wild) > 0 {
		r.Count("match_lists_wildcard_only", 1)
		r.Count("wildcard_only_probes_blocked", nb)
		r.Count("wildcard_only_probes_unblocked", nu)
	}
	kinds := 0
	for _, n := range []int{len(ref.Plain), len(ref.Wild), len(ref.White)} {
		if n > 0 {
			kinds++
		}
	}
	if nb > 0 && nu > 0 && kinds >= 2 {
		r.Distinct(fmt.Sprintf("match:%v|%v|%v", sortedKeys(ref.Plain), sortedKeys(ref.Wild), sortedKeys(ref.White)))
	}
	if ci < 2 {
		r.Sample(map[string]any{"kind": "match-list", "via": via, "entries": entries, "whitelist": white, "probes": len(probes), "blocked": nb, "unblocked": nu})
	}
}

func matcherDifferential(r *vlib.Run) {
	n := r.N(2500, 60000)
	for ci := 0; ci < n; ci++ {
		rng := r.RandN("match", ci)
		entries, white := genLists(rng)
		probes := genProbes(rng, entries, white)
		via := "config"
		if ci%2 == 1 {
			via = "api"
		}
		runMatchCase(r, ci, via, entries, white, probes, rng)
		r.Progress("matcher differential %d/%d", ci, n)
	}
	// fixed corner cases named by the property text
	fixed := []struct{ e, w, p []string }{
		{[]string{"example.com"}, nil, []string{"example.com", "EXAMPLE.COM.", "notexample.com", "sub.example.com", "a.b.example.com", "example.com.au", "com", ".", "xexample.com", "example.co"}},
		{[]string{"*.example.com"}, nil, []string{"example.com", "sub.example.com", "Sub.Example.Com", "deep.sub.example.com", "notexample.com", "sub.notexample.com", "*.example.com"}},
		{[]string{"example.com", "*.ads.net"}, []string{"ok.example.com", "net"}, []string{"example.com", "ok.example.com", "x.ok.example.com", "nok.example.com", "x.ads.net", "ads.net", "notok.example.com"}},
		{nil, []string{"example.com"}, []string{"example.com", "sub.example.com", "."}},
	}
	for i, f := range fixed {
		for _, via := range []string{"config", "api"} {
			runMatchCase(r, -1-i, via, f.e, f.w, f.p, r.RandN("match-fixed", i))
		}
	}
}

// wildcardOnlySequences: lists that hold only wildcard entries, reached both
// directly and through Set(wild…), Set(plain), Remove(plain); every state is
// probed through Exists AND through the handler with A, AAAA and another type.
func wildcardOnlySequences(r *vlib.Run) {
	n := r.N(150, 3000)
	type wcase struct {
		ci     int
		rng    *rand.Rand
		wilds  []string
		white  []string
		plain  string
		bl     *blocklist.BlockList
		probes []string
	}
	cases := make([]*wcase, 0, n)
	for ci := 0; ci < n; ci++ {
		rng := r.RandN("wildseq", ci)
		c := &wcase{ci: ci, rng: rng}
		b := randBase(rng)
		for i := 0; i < 1+rng.IntN(3); i++ {
			switch rng.IntN(3) {
			case 0:
				c.wilds = append(c.wilds, spell(rng, "*."+b))
			case 1:
				c.wilds = append(c.wilds, spell(rng, "*."+randLabel(rng)+"."+b))
			default:
				c.wilds = append(c.wilds, spell(rng, "*."+randBase(rng)))
			}
		}
		apex := strings.TrimSuffix(strings.TrimPrefix(canon(c.wilds[0]), "*."), ".")
		switch rng.IntN(4) {
		case 0:
			c.plain = spell(rng, apex) // the wildcard's own apex
		case 1:
			c.plain = spell(rng, randLabel(rng)+"."+apex) // a name the wildcard already covers
		case 2:
			if i := strings.IndexByte(apex, '.'); i >= 0 {
				c.plain = spell(rng, apex[i+1:]) // a parent of the apex
			} else {
				c.plain = spell(rng, "not"+apex)
			}
		default:
			c.plain = spell(rng, randBase(rng))
		}
		if rng.IntN(4) == 0 {
			c.white = []string{spell(rng, randLabel(rng)+"."+apex)}
		}
		c.probes = genProbes(rng, append(append([]string{}, c.wilds...), c.plain), c.white)
		c.bl = newInstance(newDir(true), nil, c.white)
		cases = append(cases, c)
	}
	if !waitRefreshed(90 * time.Second) {
		r.Inconclusive("start-up refresh did not complete within 90s (wildcard-only sequences)")
		return
	}
	for _, c := range cases {
		model := listsFrom(nil, c.white)
		var ops []op
		do := func(o op) {
			execOp(c.bl, o)
			model.apply(o)
			ops = append(ops, o)
		}
		judge := func(state string) {
			mc := matchCase{Kind: "match", Case: c.ci, Via: "seq", Whitelist: c.white, Ops: append([]op(nil), ops...), Entries: model.entries()}
			ent, _ := snapshotEntries(c.bl)
			r.Eval(1)
			if !sameStrings(ent, model.entries()) {
				r.Violation("api/sequential-state-differs-from-model", fmt.Sprintf("after %v memory=%v model=%v", ops, ent, model.entries()), mc)
				return
			}
			nb, nu := 0, 0
			for pi, p := range c.probes {
				qts := []uint16{dns.TypeA, dns.TypeAAAA, probeTypes[2+(c.ci+pi)%(len(probeTypes)-2)]}
				if judgeProbe(r, c.bl, model, mc, p, qts) {
					nb++
				} else {
					nu++
				}
			}
			if len(model.Plain) == 0 && len(model.Wild) > 0 {
				r.Count("wildcard_only_states_served_"+state, 1)
				r.Count("wildcard_only_probes_blocked", nb)
				r.Count("wildcard_only_probes_unblocked", nu)
			}
		}
		do(op{Kind: "set", Keys: []string{c.wilds[0]}})
		if len(c.wilds) > 1 {
			do(op{Kind: "setbatch", Keys: c.wilds[1:]})
		}
		judge("initial")
		do(op{Kind: "set", Keys: []string{c.plain}})
		judge("plain-added")
		do(op{Kind: "remove", Keys: []string{c.plain}})
		judge("after-plain-removed")
		r.Count("wildcard_only_sequences", 1)
	}
}

func replayMatch(r *vlib.Run, mc matchCase) {
	ref := listsFrom(mc.Entries, mc.Whitelist)
	var bl *blocklist.BlockList
	if mc.Via == "seq" {
		bl = newInstance(newDir(true), nil, mc.Whitelist)
		waitRefreshed(90 * time.Second)
		ref = listsFrom(nil, mc.Whitelist)
		for _, o := range mc.Ops {
			execOp(bl, o)
			ref.apply(o)
		}
	} else {
		bl = buildInstance(mc.Via, mc.Entries, mc.Whitelist)
	}
	names := mc.Probes
	if mc.Name != "" {
		names = []string{mc.Name}
	}
	qts := probeTypes
	if mc.Qtype != 0 {
		qts = []uint16{mc.Qtype}
	}
	for _, n := range names {
		want := judgeProbe(r, bl, ref, mc, n, qts)
		got, _ := safeExists(bl, n)
		fmt.Printf("replay match: name=%q Exists=%v reference=%v\n", n, got, want)
	}
}
