// C18 — blocklist matching is exact and its persisted form converges to memory.
//
// Process layout (entry binary is the -race build):
//
//	parent            orchestrates; runs part (iii) itself (strace children)
//	└─ work child     this binary with C18_MODE=work and GORACE log_path: parts
//	                  (i) matcher differential and (ii) concurrent API +
//	                  convergence + reload, under the race detector
//	└─ strace → this binary --c18-child <spec>: logged op sequence (part iii)
package main

import (
	"encoding/json"
	"fmt"
	"os"
	"sort"
	"strings"
	"time"

	"github.com/semihalev/sdns/zzverif/vlib"
)

func sortStrings(s []string) { sort.Strings(s) }

const rule = "matcher: a generated list is distinct non-trivial when it mixes >=2 entry kinds (plain/wildcard/whitelist) and its probes fell on both sides; " +
	"concurrent: a round is distinct non-trivial when >=1 key was touched by several goroutines and >1 entry survived; " +
	"interruption points are enumerated exhaustively per scenario from an uninjected calibration run (every write / fsync / renameat of the persist path, each once with SIGKILL and once with an errno)"

func workMain(r *vlib.Run) {
	defer cleanupScratch()
	if rc := r.ReplayCase(); rc != nil {
		var k struct {
			Kind string `json:"kind"`
		}
		_ = json.Unmarshal(rc, &k)
		switch k.Kind {
		case "match":
			var mc matchCase
			_ = json.Unmarshal(rc, &mc)
			replayMatch(r, mc)
		case "reload":
			var c reloadCase
			_ = json.Unmarshal(rc, &c)
			replayReload(r, c)
		case "conc", "seq":
			var wrap struct {
				Spec *roundSpec `json:"spec"`
			}
			var sp roundSpec
			if json.Unmarshal(rc, &wrap) == nil && wrap.Spec != nil {
				sp = *wrap.Spec
			} else {
				_ = json.Unmarshal(rc, &sp)
			}
			replayRound(r, sp)
		default:
			r.Inconclusive("unknown replay case kind " + k.Kind)
		}
		cleanupScratch()
		r.Finish("replay of one recorded case")
	}
	matcherDifferential(r)
	wildcardOnlySequences(r)
	concurrentAndReload(r)
	cleanupScratch()
	r.Finish(rule)
}

func replayRound(r *vlib.Run, sp roundSpec) {
	// the schedule is not recorded: re-run the same programs a number of times
	for i := 0; i < 50; i++ {
		rd := &round{spec: sp}
		rd.probes = roundProbes(r.RandN("round", sp.Round), sp)
		rd.prepare()
		if !waitRefreshed(60 * time.Second) {
			r.Inconclusive("refresh barrier timed out")
			return
		}
		if sp.Kind == "seq" {
			runSeqRound(r, rd)
		} else {
			runConcRound(r, rd)
		}
		reloadImmediate(r, rd)
		waitRefreshed(60 * time.Second)
		reloadFollowUp(r, rd, 64)
	}
}

func main() {
	if len(os.Args) >= 3 && os.Args[1] == "--c18-child" {
		childMain(os.Args[2])
		return
	}
	r := vlib.Start("C18", "exploration")
	installLogTap()
	if os.Getenv("C18_MODE") == "work" {
		workMain(r)
		return
	}
	defer cleanupScratch()

	r.Assume("reference matcher = the property statement verbatim (plain entry at the name or a parent, wildcard at a STRICT parent, whitelist at the name or a parent wins; ASCII case folding; whole labels, escape-aware), implemented without the blocklist package or miekg/dns")
	r.Assume("entries are non-root names; a plain entry '.' or a wildcard '*.' is outside the generated domain (the real code lets them match nothing but the root itself)")
	r.Assume("<dir>/local is parsed by an independent reader: header line, one canonical entry per line, final newline; anything else counts as a partial/corrupt file")
	r.Assume("SIGKILL at a syscall boundary (strace injection, delivered on syscall entry) models the interruption; power loss / torn writes inside one write(2) are not modelled")
	r.Assume("blocklist.New starts a goroutine that re-reads the directory after 1s; mutation workloads start only after its 'Blocked domains loaded' log line was seen, so that start-up refresh never overlaps the judged traffic")

	args := []string{}
	if rc := r.ReplayCase(); rc != nil {
		var k struct {
			Kind string `json:"kind"`
		}
		_ = json.Unmarshal(rc, &k)
		if k.Kind == "interrupt" {
			var ic interruptCase
			_ = json.Unmarshal(rc, &ic)
			replayInterrupt(r, ic)
			cleanupScratch()
			r.Finish("replay of one recorded interruption case")
		}
		for i, a := range os.Args[1:] {
			if a == "--replay" || a == "-replay" {
				args = append(args, "--replay", os.Args[i+2])
			}
		}
	}

	pfx := r.RacePrefix("work")
	done := make(chan struct{})
	go func() {
		defer close(done)
		to := 280 * time.Second
		if !r.Quick() {
			to = 3400 * time.Second
		}
		res := r.Child("work", nil, selfExe(), args, []string{"C18_MODE=work", vlib.RaceEnv(pfx)}, to)
		if !res.HasState && res.Output != "" {
			// the workload killed the process: a runtime-detected concurrent map
			// access inside the blocklist is a refutation, not a harness problem
			if b, err := os.ReadFile(res.Output); err == nil {
				txt := string(b)
				if i := strings.Index(txt, "fatal error: concurrent map"); i >= 0 && strings.Contains(txt, "middleware/blocklist.") {
					end := i + 3000
					if end > len(txt) {
						end = len(txt)
					}
					r.Violation("crash/concurrent-map-access-in-blocklist", "the concurrent API workload crashed the process: "+strings.SplitN(txt[i:], "\n", 2)[0], map[string]any{"kind": "crash", "log": txt[i:end]})
				}
			}
		}
		if !res.HasState {
			r.Inconclusive(fmt.Sprintf("work child did not report (exit=%d timedOut=%v err=%v, log %s)", res.ExitCode, res.TimedOut, res.Err, res.Output))
		} else if res.Output != "" {
			_ = os.Remove(res.Output)
		}
		r.ScanRaceLogs(pfx)
	}()
	if len(args) == 0 {
		interruptionPart(r)
	}
	<-done
	cleanupScratch()

	if len(args) == 0 {
		// (i) matcher
		r.Require("match_probes_blocked", 5000)
		r.Require("match_probes_unblocked", 5000)
		r.Require("match_probes_whitelist_overrides_block", 200)
		r.Require("match_entries_plain", 500)
		r.Require("match_entries_wildcard", 500)
		r.Require("match_entries_whitelist", 300)
		r.Require("served_blocked_a_nullroute", 300)
		r.Require("served_blocked_aaaa_nullroute", 300)
		r.Require("served_blocked_other_empty_authoritative", 300)
		r.Require("served_passed_on_untouched", 1000)
		r.Require("match_lists_wildcard_only", 50)
		r.Require("wildcard_only_probes_blocked", 1000)
		r.Require("wildcard_only_probes_unblocked", 1000)
		r.Require("wildcard_only_states_served_initial", 100)
		r.Require("wildcard_only_states_served_after-plain-removed", 100)
		// (ii) concurrency / convergence / reload
		r.Require("concurrent_rounds", int64(r.N(200, 3000)))
		r.Require("concurrent_ops", 10000)
		r.Require("sequential_ops", 1000)
		r.Require("persisted_vs_memory_comparisons", 1000)
		r.Require("persisted_equals_memory_nonempty", 100)
		r.Require("keys_single_owner_checked", 1000)
		r.Require("keys_shared_checked", 1000)
		r.Require("reload_comparisons", 200)
		r.Require("reload_probe_comparisons", 10000)
		r.Require("reload_followup_removes", 300)
		// (iii) interruption: every syscall kind of the persist path hit at least once
		r.Require("interrupt_kill_write-header", 1)
		r.Require("interrupt_kill_write-entry", 1)
		r.Require("interrupt_kill_fsync", 1)
		r.Require("interrupt_kill_rename", 1)
		r.Require("interrupt_error_rename_EIO", 1)
		r.Require("interrupt_reload_comparisons", 10)
		r.Require("interrupt_reload_probe_comparisons", 1000)
	}
	r.Finish(rule)
}
