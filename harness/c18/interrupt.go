package main

// Part (iii): enumerated interruption of the temp-file / sync / rename
// sequence. A child process (this binary, --c18-child) performs a logged op
// sequence on a real BlockList under strace, which either SIGKILLs it on entry
// to the N-th write / fsync / renameat, or makes that syscall fail (renameat →
// EIO on <dir>/local, fsync → EIO, write → ENOSPC). The parent then inspects
// <dir>/local: it must be absent (only if nothing was ever persisted) or equal
// one COMPLETE earlier snapshot, and a fresh instance must load the directory.

import (
	"bufio"
	"context"
	"encoding/json"
	"fmt"
	"math/rand/v2"
	"os"
	"os/exec"
	"path/filepath"
	"regexp"
	"strconv"
	"strings"
	"sync"
	"syscall"
	"time"

	"github.com/semihalev/sdns/middleware/blocklist"
	"github.com/semihalev/sdns/zzverif/vlib"
)

type scenario struct {
	Index     int      `json:"index"`
	Whitelist []string `json:"whitelist"`
	Initial   []string `json:"initial"` // antichain entries pre-written to local
	Ops       []op     `json:"ops"`
	Universe  []string `json:"universe"`
}

type injection struct {
	Mode  string `json:"mode"` // none | kill | error
	Call  string `json:"call"` // write | fsync | renameat
	Errno string `json:"errno,omitempty"`
	When  int    `json:"when"`
}

type interruptCase struct {
	Kind     string            `json:"kind"` // "interrupt"
	Scenario scenario          `json:"scenario"`
	Inj      injection         `json:"injection"`
	OpLog    string            `json:"oplog,omitempty"`
	Local    string            `json:"local,omitempty"`
	Strace   string            `json:"strace_tail,omitempty"`
	Strays   map[string]string `json:"leftover_files,omitempty"`
}

func genScenario(rng *rand.Rand, idx int, nops int) scenario {
	sc := scenario{Index: idx}
	b := randBase(rng)
	o := randBase(rng)
	uni := []string{b, "sub." + b, "*." + b, "*.sub." + b, "deep.sub." + b, o, "x." + o, "not" + b, "w." + b}
	if idx%2 == 1 {
		sc.Initial = []string{"init1.test.", "init2.test."}
		uni = append(uni, sc.Initial...)
	}
	if rng.IntN(2) == 0 {
		sc.Whitelist = []string{"w." + b}
	}
	sc.Universe = uni
	pick := func() string { return spell(rng, uni[rng.IntN(len(uni))]) }
	m := listsFrom(nil, sc.Whitelist)
	for _, e := range sc.Initial {
		m.setKey(e)
	}
	for i := 0; i < nops; i++ {
		var op1 op
		switch {
		case i == 0:
			op1 = op{Kind: "setbatch", Keys: []string{pick(), pick(), pick()}}
		case i == 1:
			op1 = op{Kind: "set", Keys: []string{pick()}}
		case i == 2 && len(m.entries()) > 0:
			op1 = op{Kind: "remove", Keys: []string{m.entries()[rng.IntN(len(m.entries()))]}}
		case i == 3 && len(m.entries()) > 1:
			e := m.entries()
			op1 = op{Kind: "removebatch", Keys: []string{e[rng.IntN(len(e))], e[rng.IntN(len(e))], pick()}}
		default:
			switch rng.IntN(6) {
			case 0, 1:
				op1 = op{Kind: "set", Keys: []string{pick()}}
			case 2:
				op1 = op{Kind: "remove", Keys: []string{pick()}}
			case 3, 4:
				op1 = op{Kind: "setbatch", Keys: []string{pick(), pick()}}
			default:
				op1 = op{Kind: "removebatch", Keys: []string{pick(), pick()}}
			}
		}
		m.apply(op1)
		sc.Ops = append(sc.Ops, op1)
	}
	return sc
}

// states returns S_0..S_n (entries after each prefix) and, per op, whether the
// real call persists.
func (sc scenario) states() (st [][]string, persists []bool) {
	m := listsFrom(nil, sc.Whitelist)
	for _, e := range sc.Initial {
		m.setKey(e)
	}
	st = append(st, m.entries())
	for _, o := range sc.Ops {
		persists = append(persists, m.apply(o))
		st = append(st, m.entries())
	}
	return
}

type runResult struct {
	dir      string // blocklist dir
	work     string
	exit     int
	signaled bool
	timedOut bool
	started  int   // last op index logged "S"
	done     []int // per op: -1 not done, else persist-failure count
	ended    bool
	ready    bool
	oplogRaw string
	final    *childFinal
	trace    []string // strace lines of interest
	lastCall string   // the syscall that was interrupted ("= ?")
	injected []string // lines marked (INJECTED)
	strays   []string
}

var straceLineRe = regexp.MustCompile(`^(\d+)\s+(\w+)\((.*)$`)

func selfExe() string {
	if p, err := os.Executable(); err == nil {
		return p
	}
	return vlib.BinPath("c18", "race")
}

// runChild executes the scenario in a child under strace with one injection.
func runChild(sc scenario, inj injection, timeout time.Duration) (res runResult, err error) {
	work := filepath.Dir(newDir(true)) // root/dNNNNNN ; bl/ inside
	res.work = work
	res.dir = filepath.Join(work, "bl")
	if len(sc.Initial) > 0 {
		if err = os.WriteFile(filepath.Join(res.dir, "local"), []byte(renderLocal(sc.Initial, nil)), 0o600); err != nil {
			return
		}
	}
	spec := childSpec{Dir: res.dir, OpLog: filepath.Join(work, "oplog"), Final: filepath.Join(work, "final.json"), Whitelist: sc.Whitelist, Ops: sc.Ops}
	sb, _ := json.Marshal(spec)
	specPath := filepath.Join(work, "spec.json")
	if err = os.WriteFile(specPath, sb, 0o644); err != nil {
		return
	}
	stlog := filepath.Join(work, "strace.log")
	args := []string{"-f", "-qq", "-y", "-o", stlog, "-e", "trace=write,fsync,fdatasync,rename,renameat,renameat2"}
	switch inj.Mode {
	case "kill":
		args = append(args, "-e", fmt.Sprintf("inject=%s:signal=KILL:when=%d", inj.Call, inj.When))
	case "error":
		args = append(args, "-e", fmt.Sprintf("inject=%s:error=%s:when=%d", inj.Call, inj.Errno, inj.When))
		if inj.Call == "renameat" {
			args = append(args, "-P", filepath.Join(res.dir, "local"))
		}
	}
	args = append(args, selfExe(), "--c18-child", specPath)
	ctx, cancel := context.WithTimeout(context.Background(), timeout)
	defer cancel()
	cmd := exec.CommandContext(ctx, "strace", args...)
	cmd.SysProcAttr = &syscall.SysProcAttr{Setpgid: true}
	cmd.Cancel = func() error { return syscall.Kill(-cmd.Process.Pid, syscall.SIGKILL) }
	cmd.WaitDelay = 5 * time.Second
	cmd.Env = append(os.Environ(), "GORACE=halt_on_error=0 log_path="+filepath.Join(work, "race"))
	cmd.Stdout, cmd.Stderr = nil, nil
	runErr := cmd.Run()
	if ctx.Err() == context.DeadlineExceeded {
		res.timedOut = true
	}
	if cmd.Process != nil {
		_ = syscall.Kill(-cmd.Process.Pid, syscall.SIGKILL) // no stray tracee, whatever happened
	}
	if cmd.ProcessState != nil {
		res.exit = cmd.ProcessState.ExitCode()
		if ws, ok := cmd.ProcessState.Sys().(syscall.WaitStatus); ok && ws.Signaled() {
			res.signaled = true
		}
	} else if runErr != nil {
		err = runErr
		return
	}
	// op log
	res.started = -1
	res.done = make([]int, len(sc.Ops))
	for i := range res.done {
		res.done[i] = -1
	}
	if b, e := os.ReadFile(spec.OpLog); e == nil {
		res.oplogRaw = string(b)
		for _, ln := range strings.Split(string(b), "\n") {
			f := strings.Fields(ln)
			switch {
			case len(f) == 1 && f[0] == "READY":
				res.ready = true
			case len(f) == 1 && f[0] == "END":
				res.ended = true
			case len(f) == 2 && f[0] == "S":
				if n, e := strconv.Atoi(f[1]); e == nil && n < len(sc.Ops) {
					res.started = n
				}
			case len(f) == 3 && f[0] == "D":
				n, e1 := strconv.Atoi(f[1])
				k, e2 := strconv.Atoi(f[2])
				if e1 == nil && e2 == nil && n < len(sc.Ops) {
					res.done[n] = k
				}
			}
		}
	}
	if b, e := os.ReadFile(spec.Final); e == nil {
		var cf childFinal
		if json.Unmarshal(b, &cf) == nil {
			res.final = &cf
		}
	}
	// strace log: keep lines that touch the blocklist dir
	if fh, e := os.Open(stlog); e == nil {
		sc := bufio.NewScanner(fh)
		sc.Buffer(make([]byte, 1<<16), 1<<22)
		unfinished := map[string]string{}
		for sc.Scan() {
			ln := sc.Text()
			if strings.Contains(ln, "+++") || strings.Contains(ln, "--- SIG") || strings.TrimSpace(ln) == "" {
				continue
			}
			if strings.Contains(ln, "(INJECTED)") {
				res.injected = append(res.injected, ln)
			}
			// the interrupted syscall is printed either as "call(args) = ?" or as
			// "call(args <unfinished ...>" followed by "<... call resumed>) = ?"
			pid := strings.Fields(ln)[0]
			switch {
			case strings.Contains(ln, "<unfinished ...>"):
				unfinished[pid] = ln
			case strings.HasSuffix(strings.TrimSpace(ln), "= ?"):
				if strings.Contains(ln, " resumed>") {
					if u, ok := unfinished[pid]; ok {
						res.lastCall = u
					}
				} else {
					res.lastCall = ln
				}
			case strings.Contains(ln, " resumed>"):
				delete(unfinished, pid)
			}
			if strings.Contains(ln, res.dir) {
				res.trace = append(res.trace, ln)
			}
		}
		fh.Close()
	}
	ents, _ := os.ReadDir(res.dir)
	for _, e := range ents {
		if e.Name() != "local" {
			res.strays = append(res.strays, e.Name())
		}
	}
	return
}

// classify names the interrupted step from the strace line.
func classifyCall(line, dir string) string {
	m := straceLineRe.FindStringSubmatch(line)
	if m == nil {
		return "unknown"
	}
	call, rest := m[2], m[3]
	onTmp := strings.Contains(rest, filepath.Join(dir, "local.tmp."))
	onLocal := strings.Contains(rest, "\""+filepath.Join(dir, "local")+"\"") || strings.Contains(rest, "<"+filepath.Join(dir, "local")+">")
	switch call {
	case "write":
		switch {
		case onTmp && strings.Contains(rest, "\"# The file"):
			return "write-header"
		case onTmp:
			return "write-entry"
		case onLocal && strings.Contains(rest, "\"# The file"):
			return "write-header" // in-place writer (mutant)
		case onLocal:
			return "write-entry"
		}
		return "other-write"
	case "fsync", "fdatasync":
		if onTmp || onLocal {
			return "fsync"
		}
		return "other-fsync"
	case "rename", "renameat", "renameat2":
		if onLocal {
			return "rename"
		}
		return "other-rename"
	}
	return "unknown"
}

func tail(lines []string, n int) string {
	if len(lines) > n {
		lines = lines[len(lines)-n:]
	}
	return strings.Join(lines, "\n")
}

// probesFor derives the probe names for reload comparison.
func (sc scenario) probes(rng *rand.Rand) []string {
	seen := map[string]bool{}
	var out []string
	for _, k := range sc.Universe {
		for _, p := range nearMisses(rng, canon(k)) {
			c := canon(p)
			if !seen[c] && !strings.Contains(c, "\\") {
				seen[c] = true
				out = append(out, p)
			}
		}
	}
	return out
}

// reloadAfter loads a FRESH instance from the directory exactly as the
// interruption left it (nothing is cleaned first) and compares its decisions on
// every probe with the last complete snapshot, i.e. the entries of `local`.
// A divergence that is exactly explained by the lines of a leftover
// local.tmp.* file (the loader parses every file in the directory) gets the
// signature interrupt/leftover-tempfile-loaded; anything else
// interrupt/reload-differs.
func reloadAfter(r *vlib.Run, res runResult, sc scenario, probes []string, ic interruptCase, lf localFile, prev, next []string) {
	onDisk := append([]string{}, lf.Entries...)
	inLocal := map[string]bool{}
	for _, e := range lf.Entries {
		inLocal[e] = true
	}
	var strayOnly []string
	ic.Strays = map[string]string{}
	for _, s := range res.strays {
		sf := readLocal(filepath.Join(res.dir, s))
		ic.Strays[s] = sf.Raw
		for _, e := range sf.Lines {
			onDisk = append(onDisk, e)
			if !inLocal[e] {
				strayOnly = append(strayOnly, e)
			}
		}
	}
	refLocal := listsFrom(lf.Entries, sc.Whitelist)
	refDisk := listsFrom(onDisk, sc.Whitelist)
	var panicked any
	var fresh *blocklist.BlockList
	func() {
		defer func() {
			if p := recover(); p != nil {
				panicked = p
			}
		}()
		fresh = newInstance(res.dir, nil, sc.Whitelist)
	}()
	r.Eval(1)
	if panicked != nil || fresh == nil {
		r.Violation("interrupt/reload-panicked", fmt.Sprintf("loading the directory left by the interruption panicked: %v", panicked), ic)
		return
	}
	r.Count("interrupt_reload_comparisons", 1)
	if len(res.strays) > 0 {
		r.Count("interrupt_leftover_temp_files", len(res.strays))
	}
	leftoverName, other := "", ""
	for _, p := range probes {
		got := fresh.Exists(p)
		r.Eval(1)
		r.Count("interrupt_reload_probe_comparisons", 1)
		if got == refLocal.blocked(p) {
			continue
		}
		if len(res.strays) > 0 && got == refDisk.blocked(p) {
			if leftoverName == "" {
				leftoverName = p
			}
		} else if other == "" {
			other = p
		}
	}
	if other != "" {
		got := fresh.Exists(other)
		r.Violation("interrupt/reload-differs", fmt.Sprintf("after the interruption a fresh instance decides %q blocked=%v; the complete snapshot in <dir>/local says %v (leftover temp files: %v)", other, got, !got, res.strays), ic)
		return
	}
	if leftoverName != "" {
		r.Count("interrupt_leftover_tempfile_changes_decisions", 1)
		// is the leftover permanent? remove the extra entry, restart again
		resurrected := false
		if len(strayOnly) > 0 {
			e := strayOnly[0]
			func() {
				defer func() { _ = recover() }()
				fresh.Remove(e)
				again := newInstance(res.dir, nil, sc.Whitelist)
				if ok, _ := safeExists(again, e); ok && !listsFrom(readLocal(filepath.Join(res.dir, "local")).Entries, sc.Whitelist).blocked(e) {
					resurrected = true
					r.Count("interrupt_leftover_tempfile_resurrects_removed_entry", 1)
				}
			}()
		}
		kind := "previous"
		if prev != nil {
			rp, rn := listsFrom(prev, sc.Whitelist), listsFrom(next, sc.Whitelist)
			eqNew := true
			for _, p := range probes {
				if refDisk.blocked(p) != rn.blocked(p) {
					eqNew = false
				}
			}
			_ = rp
			if eqNew {
				kind = "the interrupted (never committed) snapshot"
				r.Count("interrupt_restart_decides_like_uncommitted_snapshot", 1)
			} else {
				kind = "neither the previous nor the new snapshot (part of a batch)"
				r.Count("interrupt_restart_decides_like_partial_batch", 1)
			}
		}
		r.Violation("interrupt/leftover-tempfile-loaded", fmt.Sprintf("killed during persist: <dir>/local is the previous complete snapshot %v, but the leftover %v is parsed at restart too: the fresh instance blocks %q (local alone: not blocked) and decides like %s; entries only in the leftover: %v; after Remove(%q)+restart it is blocked again: %v",
			lf.Entries, res.strays, leftoverName, kind, strayOnly, first(strayOnly), resurrected), ic)
		return
	}
	r.Count("interrupt_restart_decides_like_local_snapshot", 1)
}

func first(s []string) string {
	if len(s) == 0 {
		return ""
	}
	return s[0]
}

func judgeKill(r *vlib.Run, res runResult, sc scenario, inj injection, probes []string) {
	ic := interruptCase{Kind: "interrupt", Scenario: sc, Inj: inj, OpLog: res.oplogRaw, Strace: tail(res.trace, 6)}
	st, persists := sc.states()
	if res.timedOut {
		r.Inconclusive(fmt.Sprintf("interruption child timed out (scenario %d %+v)", sc.Index, inj))
		return
	}
	if !res.ready {
		r.Inconclusive(fmt.Sprintf("interruption child did not start (scenario %d %+v exit=%d)", sc.Index, inj, res.exit))
		return
	}
	if res.ended {
		r.Count("interrupt_kill_point_not_reached", 1)
		return
	}
	kind := classifyCall(res.lastCall, res.dir)
	r.Count("interrupt_kill_"+kind, 1)
	r.Count("interrupt_kill_points", 1)
	r.DistinctIn("interruption_points", fmt.Sprintf("%d/%s/%d", sc.Index, inj.Call, inj.When))
	i := res.started
	if i < 0 || res.done[i] >= 0 {
		// killed between ops (cannot happen: the kill is delivered inside a persist syscall)
		r.Inconclusive(fmt.Sprintf("kill landed outside an op (scenario %d %+v)", sc.Index, inj))
		return
	}
	lf := readLocal(filepath.Join(res.dir, "local"))
	ic.Local = lf.Raw
	r.Eval(1)
	anyPersistBefore := len(sc.Initial) > 0
	for j := 0; j < i; j++ {
		if persists[j] {
			anyPersistBefore = true
		}
	}
	switch {
	case !lf.Present:
		if anyPersistBefore {
			r.Violation("interrupt/local-missing", fmt.Sprintf("killed at %s during op %d; <dir>/local is gone although an earlier snapshot had been persisted", kind, i), ic)
		} else {
			r.Count("interrupt_local_absent_ok", 1)
		}
	case !lf.Complete:
		r.Violation("interrupt/local-partial", fmt.Sprintf("killed at %s during op %d (%s%v); <dir>/local is not a complete file: %s", kind, i, sc.Ops[i].Kind, sc.Ops[i].Keys, lf.Problem), ic)
	case sameStrings(lf.Entries, st[i]):
		r.Count("interrupt_local_is_previous_snapshot", 1)
	case sameStrings(lf.Entries, st[i+1]):
		r.Count("interrupt_local_is_new_snapshot", 1)
	default:
		older := -1
		for j := 0; j < i; j++ {
			if sameStrings(lf.Entries, st[j]) {
				older = j
			}
		}
		if older >= 0 {
			r.Violation("interrupt/local-stale-snapshot", fmt.Sprintf("killed at %s during op %d; <dir>/local equals the state after %d ops, not the previous (%d) or the new one", kind, i, older, i), ic)
		} else {
			r.Violation("interrupt/local-not-a-snapshot", fmt.Sprintf("killed at %s during op %d; <dir>/local=%v equals no state of the op sequence (previous %v, new %v)", kind, i, lf.Entries, st[i], st[i+1]), ic)
		}
	}
	if (lf.Present && lf.Complete) || (!lf.Present && !anyPersistBefore) {
		reloadAfter(r, res, sc, probes, ic, lf, st[i], st[i+1])
	}
}

func judgeError(r *vlib.Run, res runResult, sc scenario, inj injection, probes []string) {
	ic := interruptCase{Kind: "interrupt", Scenario: sc, Inj: inj, OpLog: res.oplogRaw, Strace: tail(res.trace, 6)}
	st, persists := sc.states()
	if res.timedOut {
		r.Inconclusive(fmt.Sprintf("fault-injection child timed out (scenario %d %+v)", sc.Index, inj))
		return
	}
	if !res.ready || !res.ended || res.final == nil {
		if res.ready && !res.ended && res.exit != 0 {
			r.Violation("ioerror/process-died", fmt.Sprintf("an injected %s %s made the process exit with %d during op %d", inj.Call, inj.Errno, res.exit, res.started), ic)
			return
		}
		r.Inconclusive(fmt.Sprintf("fault-injection child did not complete (scenario %d %+v exit=%d)", sc.Index, inj, res.exit))
		return
	}
	if inj.Mode != "none" {
		hit := ""
		for _, l := range res.injected {
			k := classifyCall(l, res.dir)
			if !strings.HasPrefix(k, "other") && k != "unknown" {
				hit = k
			}
		}
		if hit == "" {
			r.Count("interrupt_error_point_not_reached", 1)
			return
		}
		r.Count("interrupt_error_"+hit+"_"+inj.Errno, 1)
		r.Count("interrupt_error_points", 1)
		r.DistinctIn("interruption_points", fmt.Sprintf("%d/%s/%s/%d", sc.Index, inj.Call, inj.Errno, inj.When))
	}
	n := len(sc.Ops)
	r.Eval(1)
	if !sameStrings(res.final.Entries, st[n]) {
		r.Violation("ioerror/memory-differs-from-model", fmt.Sprintf("with %s→%s injected, memory after all ops is %v, model says %v", inj.Call, inj.Errno, res.final.Entries, st[n]), ic)
	}
	// the file must be the snapshot of the last op whose persist succeeded
	last := -1
	failed := 0
	for j := 0; j < n; j++ {
		if res.done[j] > 0 {
			failed++
		}
		if persists[j] && res.done[j] == 0 {
			last = j
		}
	}
	if inj.Mode != "none" && failed == 0 {
		r.Violation("ioerror/failure-not-reported", fmt.Sprintf("an injected %s %s on the persist path produced no 'Blocklist persist failed' log", inj.Call, inj.Errno), ic)
	}
	lf := readLocal(filepath.Join(res.dir, "local"))
	ic.Local = lf.Raw
	want := st[0]
	if last >= 0 {
		want = st[last+1]
	}
	r.Eval(1)
	switch {
	case !lf.Present:
		if last >= 0 || len(sc.Initial) > 0 {
			r.Violation("ioerror/local-missing", fmt.Sprintf("%s→%s: <dir>/local missing although op %d persisted successfully", inj.Call, inj.Errno, last), ic)
		}
	case !lf.Complete:
		r.Violation("ioerror/local-partial", fmt.Sprintf("%s→%s: <dir>/local is not a complete file: %s", inj.Call, inj.Errno, lf.Problem), ic)
	case !sameStrings(lf.Entries, want):
		r.Violation("ioerror/local-not-last-successful-snapshot", fmt.Sprintf("%s→%s (persist of %d op(s) failed): <dir>/local=%v, the last successfully persisted snapshot (after op %d) is %v", inj.Call, inj.Errno, failed, lf.Entries, last, want), ic)
	default:
		r.Count("interrupt_error_local_is_last_successful_snapshot", 1)
		if failed > 0 && last < n-1 && !sameStrings(want, st[n]) {
			r.Count("interrupt_error_local_legitimately_behind_memory", 1)
		}
	}
	if lf.Present && lf.Complete {
		reloadAfter(r, res, sc, probes, ic, lf, nil, nil)
	}
}

// hitUnrelated reports that the injection landed on a syscall that does not
// belong to the persist path (not on a file of the blocklist directory).
func hitUnrelated(res runResult, inj injection) bool {
	unrelated := func(l string) bool {
		k := classifyCall(l, res.dir)
		return strings.HasPrefix(k, "other") || k == "unknown"
	}
	switch inj.Mode {
	case "kill":
		return !res.ended && res.lastCall != "" && unrelated(res.lastCall)
	case "error":
		if len(res.injected) == 0 {
			return false
		}
		for _, l := range res.injected {
			if !unrelated(l) {
				return false
			}
		}
		return true
	}
	return false
}

// countCalls returns how many write / fsync / renameat calls the uninjected
// run issued on the blocklist directory.
func countCalls(res runResult) (w, f, rn int) {
	for _, l := range res.trace {
		switch k := classifyCall(l, res.dir); k {
		case "write-header", "write-entry":
			w++
		case "fsync":
			f++
		case "rename":
			rn++
		}
	}
	return
}

func interruptionPart(r *vlib.Run) {
	if _, err := exec.LookPath("strace"); err != nil {
		r.Inconclusive("strace not available: interruption part not run")
		return
	}
	nsc := r.N(2, 14)
	type job struct {
		sc     scenario
		inj    injection
		probes []string
	}
	var jobs []job
	for si := 0; si < nsc; si++ {
		rng := r.RandN("interrupt", si)
		sc := genScenario(rng, si, 5+rng.IntN(3))
		probes := sc.probes(rng)
		// calibration: uninjected run under the same tracer
		base, err := runChild(sc, injection{Mode: "none"}, 120*time.Second)
		if err != nil {
			r.Inconclusive("interruption calibration run failed: " + err.Error())
			return
		}
		judgeError(r, base, sc, injection{Mode: "none"}, probes)
		if !base.ended {
			r.Inconclusive(fmt.Sprintf("calibration child did not finish (exit %d)", base.exit))
			return
		}
		w, f, rn := countCalls(base)
		r.Count("interrupt_scenarios", 1)
		r.Count("interrupt_calibrated_writes", w)
		r.Count("interrupt_calibrated_fsyncs", f)
		r.Count("interrupt_calibrated_renames", rn)
		if si < 2 {
			r.Sample(map[string]any{"kind": "interrupt-scenario", "ops": sc.Ops, "initial": sc.Initial, "whitelist": sc.Whitelist, "writes": w, "fsyncs": f, "renames": rn})
		}
		for n := 1; n <= w; n++ {
			jobs = append(jobs, job{sc, injection{Mode: "kill", Call: "write", When: n}, probes})
			jobs = append(jobs, job{sc, injection{Mode: "error", Call: "write", Errno: "ENOSPC", When: n}, probes})
		}
		for n := 1; n <= f; n++ {
			jobs = append(jobs, job{sc, injection{Mode: "kill", Call: "fsync", When: n}, probes})
			jobs = append(jobs, job{sc, injection{Mode: "error", Call: "fsync", Errno: "EIO", When: n}, probes})
		}
		for n := 1; n <= rn; n++ {
			jobs = append(jobs, job{sc, injection{Mode: "kill", Call: "renameat", When: n}, probes})
			jobs = append(jobs, job{sc, injection{Mode: "error", Call: "renameat", Errno: "EIO", When: n}, probes})
		}
	}
	par := 12
	sem := make(chan struct{}, par)
	var wg sync.WaitGroup
	for _, j := range jobs {
		wg.Add(1)
		sem <- struct{}{}
		go func(j job) {
			defer wg.Done()
			defer func() { <-sem }()
			var res runResult
			var err error
			for attempt := 0; attempt < 4; attempt++ {
				res, err = runChild(j.sc, j.inj, 120*time.Second)
				if err != nil {
					r.Inconclusive("interruption child failed to run: " + err.Error())
					return
				}
				if !hitUnrelated(res, j.inj) {
					break
				}
				// when=N counts every write(2) of the thread; now and then the Go
				// runtime wakes its netpoller (eventfd write) on that thread first.
				// Such a run says nothing about persist(): repeat it.
				r.Count("interrupt_injection_hit_unrelated_syscall_retried", 1)
			}
			if hitUnrelated(res, j.inj) {
				r.Count("interrupt_injection_hit_unrelated_syscall_skipped", 1)
				return
			}
			if j.inj.Mode == "kill" {
				judgeKill(r, res, j.sc, j.inj, j.probes)
			} else {
				judgeError(r, res, j.sc, j.inj, j.probes)
			}
			r.Progress("interruption runs (%d jobs)", len(jobs))
		}(j)
	}
	wg.Wait()
}

func replayInterrupt(r *vlib.Run, ic interruptCase) {
	rng := r.RandN("interrupt-replay", 0)
	probes := ic.Scenario.probes(rng)
	res, err := runChild(ic.Scenario, ic.Inj, 120*time.Second)
	if err != nil {
		r.Inconclusive("replay child failed: " + err.Error())
		return
	}
	if ic.Inj.Mode == "kill" {
		judgeKill(r, res, ic.Scenario, ic.Inj, probes)
	} else {
		judgeError(r, res, ic.Scenario, ic.Inj, probes)
	}
	lf := readLocal(filepath.Join(res.dir, "local"))
	fmt.Printf("replay interrupt: %+v\n  oplog: %q\n  local: %q\n  strays: %v\n  interrupted: %s\n", ic.Inj, res.oplogRaw, lf.Raw, res.strays, res.lastCall)
}
