package main

// Canonical form of a reply and the comparison the property statement allows:
// "decodes to the same DNS message - header bits, rcode, question, every
// section's records and TTLs, EDNS version/size/DO/options - ... differing at
// most in name compression and letter case of owner names".

import (
	"encoding/hex"
	"fmt"
	"sort"
	"strings"

	"github.com/miekg/dns"
)

// RRc is one record in canonical form.
type RRc struct {
	Owner string `json:"o"` // lower-cased
	Type  uint16 `json:"t"`
	Class uint16 `json:"c"`
	TTL   uint32 `json:"ttl"`
	RData string `json:"rd"`           // hex of the uncompressed rdata
	RFold string `json:"rf,omitempty"` // same with embedded compressible names lower-cased (when different)
	// Names are the domain names inside the rdata of name-bearing types, exact spelling
	Names []string `json:"names,omitempty"`
}

func (r RRc) key(withTTL bool, fold bool) string {
	rd := r.RData
	if fold && r.RFold != "" {
		rd = r.RFold
	}
	if withTTL {
		return fmt.Sprintf("%s|%d|%d|%d|%s", r.Owner, r.Type, r.Class, r.TTL, rd)
	}
	return fmt.Sprintf("%s|%d|%d|%s", r.Owner, r.Type, r.Class, rd)
}

// EDNSc is the OPT pseudo-record in canonical form.
type EDNSc struct {
	Count    int      `json:"n"` // number of OPT records in the additional section
	Owner    string   `json:"owner,omitempty"`
	UDPSize  uint16   `json:"size"`
	ExtRcode uint8    `json:"ext"`
	Version  uint8    `json:"ver"`
	DO       bool     `json:"do"`
	Z        uint16   `json:"z"`    // remaining flag bits
	Options  []string `json:"opts"` // "code:hexdata", sorted (multiset); wire order kept in OptOrder
	OptOrder []string `json:"order,omitempty"`
}

// Canon is one observed reply (or its absence).
type Canon struct {
	Wrote    bool     `json:"wrote"`
	Writes   int      `json:"writes"`
	Unpack   bool     `json:"unpack"` // the written bytes decode
	Len      int      `json:"len"`
	ID       uint16   `json:"id"`
	Bits     string   `json:"bits"` // QR AA TC RD RA Z AD CD as 0/1 string
	Opcode   int      `json:"opcode"`
	Rcode    int      `json:"rcode"` // full 12-bit rcode
	QD       []string `json:"qd"`
	Answer   []RRc    `json:"an"`
	Ns       []RRc    `json:"ns"`
	Extra    []RRc    `json:"ar"` // without OPT
	EDNS     *EDNSc   `json:"edns,omitempty"`
	Panic    string   `json:"panic,omitempty"`
	RawHex   string   `json:"raw,omitempty"`
	Trailing bool     `json:"-"`
}

func lowerRDataNames(rr dns.RR) (dns.RR, []string) {
	c := dns.Copy(rr)
	var names []string
	low := func(p *string) {
		names = append(names, *p)
		*p = strings.ToLower(*p)
	}
	switch v := c.(type) {
	case *dns.CNAME:
		low(&v.Target)
	case *dns.NS:
		low(&v.Ns)
	case *dns.PTR:
		low(&v.Ptr)
	case *dns.MX:
		low(&v.Mx)
	case *dns.SOA:
		low(&v.Ns)
		low(&v.Mbox)
	case *dns.DNAME:
		low(&v.Target)
	case *dns.SRV:
		low(&v.Target)
	case *dns.MB:
		low(&v.Mb)
	case *dns.MG:
		low(&v.Mg)
	case *dns.MR:
		low(&v.Mr)
	case *dns.MF:
		low(&v.Mf)
	case *dns.MD:
		low(&v.Md)
	case *dns.MINFO:
		low(&v.Rmail)
		low(&v.Email)
	default:
		return nil, nil
	}
	return c, names
}

// packBuf is scratch for canonicalisation (the harness judges on one goroutine).
var packBuf = make([]byte, 70000)

func rdataHex(rr dns.RR) string {
	buf := packBuf
	h := *rr.Header()
	// pack with a root owner so the rdata starts at a fixed offset
	c := dns.Copy(rr)
	c.Header().Name = "."
	off, err := dns.PackRR(c, buf, 0, nil, false)
	if err != nil {
		return "packerr:" + h.String() + rr.String()
	}
	// root(1) + type(2) + class(2) + ttl(4) + rdlen(2)
	if off < 11 {
		return ""
	}
	return hex.EncodeToString(buf[11:off])
}

func canonRR(rr dns.RR) RRc {
	h := rr.Header()
	out := RRc{Owner: strings.ToLower(h.Name), Type: h.Rrtype, Class: h.Class, TTL: h.Ttl, RData: rdataHex(rr)}
	if l, names := lowerRDataNames(rr); l != nil {
		out.Names = names
		if f := rdataHex(l); f != out.RData {
			out.RFold = f
		}
	}
	return out
}

func canonSection(rrs []dns.RR) []RRc {
	out := make([]RRc, 0, len(rrs))
	for _, rr := range rrs {
		if rr.Header().Rrtype == dns.TypeOPT {
			continue
		}
		out = append(out, canonRR(rr))
	}
	return out
}

func optData(o dns.EDNS0) string {
	// pack a one-option OPT and cut the option payload out
	opt := &dns.OPT{Hdr: dns.RR_Header{Name: ".", Rrtype: dns.TypeOPT}}
	opt.Option = []dns.EDNS0{o}
	buf := packBuf
	off, err := dns.PackRR(opt, buf, 0, nil, false)
	if err != nil || off < 15 {
		return "packerr:" + o.String()
	}
	return hex.EncodeToString(buf[15:off]) // 11 fixed + code(2) + len(2)
}

func bit(b bool) byte {
	if b {
		return '1'
	}
	return '0'
}

// canonMemo remembers the canonical form of reply bytes already seen in the
// current group: the three worlds mostly write identical bytes for the
// history and for the probes, and canonReply is a pure function of its
// arguments. Reset per group (resetCanonMemo).
var canonMemo = map[string]Canon{}

func resetCanonMemo() { clear(canonMemo) }

// canonReply canonicalises what one serve wrote.
func canonReply(wrote bool, writes int, raw []byte, panicv any) Canon {
	if wrote && writes == 1 && panicv == nil {
		if c, ok := canonMemo[string(raw)]; ok {
			return c
		}
		c := canonReplyUncached(wrote, writes, raw, panicv)
		canonMemo[string(raw)] = c
		return c
	}
	return canonReplyUncached(wrote, writes, raw, panicv)
}

func canonReplyUncached(wrote bool, writes int, raw []byte, panicv any) Canon {
	c := Canon{Wrote: wrote, Writes: writes, Len: len(raw)}
	if panicv != nil {
		c.Panic = fmt.Sprint(panicv)
	}
	if !wrote {
		return c
	}
	m := new(dns.Msg)
	if err := m.Unpack(raw); err != nil {
		c.RawHex = hex.EncodeToString(raw)
		return c
	}
	c.Unpack = true
	c.ID = m.Id
	c.Bits = string([]byte{bit(m.Response), bit(m.Authoritative), bit(m.Truncated), bit(m.RecursionDesired),
		bit(m.RecursionAvailable), bit(m.Zero), bit(m.AuthenticatedData), bit(m.CheckingDisabled)})
	c.Opcode = m.Opcode
	c.Rcode = m.Rcode
	for _, q := range m.Question {
		c.QD = append(c.QD, fmt.Sprintf("%s|%d|%d", q.Name, q.Qtype, q.Qclass))
	}
	c.Answer = canonSection(m.Answer)
	c.Ns = canonSection(m.Ns)
	c.Extra = canonSection(m.Extra)
	for _, rr := range m.Extra {
		opt, ok := rr.(*dns.OPT)
		if !ok {
			continue
		}
		if c.EDNS == nil {
			e := &EDNSc{Owner: opt.Hdr.Name, UDPSize: opt.UDPSize(), Version: opt.Version(), DO: opt.Do(),
				ExtRcode: uint8(opt.Hdr.Ttl >> 24), Z: uint16(opt.Hdr.Ttl & 0x7FFF)}
			for _, o := range opt.Option {
				s := fmt.Sprintf("%d:%s", o.Option(), optData(o))
				e.Options = append(e.Options, s)
				e.OptOrder = append(e.OptOrder, s)
			}
			sort.Strings(e.Options)
			c.EDNS = e
		}
		c.EDNS.Count++
	}
	if len(raw) <= 4096 {
		c.RawHex = hex.EncodeToString(raw)
	}
	return c
}

// Diff is one difference between two canonical replies.
type Diff struct {
	Field  string // stable short id (goes into the violation signature)
	Detail string
	TTLOne bool // a uniform off-by-one-second TTL difference and nothing else
	// Soft: the difference cannot change later state (later steps of the
	// group stay comparable); Sig, when set, is the complete signature.
	Soft bool
	Sig  string
}

func multiset(rrs []RRc, withTTL, fold bool) map[string]int {
	m := map[string]int{}
	for _, r := range rrs {
		m[r.key(withTTL, fold)]++
	}
	return m
}

func sameMultiset(a, b map[string]int) bool {
	if len(a) != len(b) {
		return false
	}
	for k, v := range a {
		if b[k] != v {
			return false
		}
	}
	return true
}

func ttlMap(rrs []RRc) map[string][]uint32 {
	m := map[string][]uint32{}
	for _, r := range rrs {
		k := r.key(false, false)
		m[k] = append(m[k], r.TTL)
	}
	for _, v := range m {
		sort.Slice(v, func(i, j int) bool { return v[i] < v[j] })
	}
	return m
}

type secDiff struct {
	kind  string // "", "ttl", "rdata-name-case", "records"
	delta int64  // uniform TTL delta b-a when kind=="ttl" and uniform
	unif  bool
	what  string
}

func diffSection(a, b []RRc) secDiff {
	if sameMultiset(multiset(a, true, false), multiset(b, true, false)) {
		return secDiff{}
	}
	if sameMultiset(multiset(a, false, false), multiset(b, false, false)) {
		// same records, TTLs differ
		ta, tb := ttlMap(a), ttlMap(b)
		var delta int64
		first, unif := true, true
		for k, va := range ta {
			vb := tb[k]
			for i := range va {
				d := int64(vb[i]) - int64(va[i])
				if first {
					delta, first = d, false
				} else if d != delta {
					unif = false
				}
			}
		}
		return secDiff{kind: "ttl", delta: delta, unif: unif, what: fmt.Sprintf("ttl delta=%d uniform=%v", delta, unif)}
	}
	if sameMultiset(multiset(a, true, true), multiset(b, true, true)) {
		return secDiff{kind: "rdata-name-case", what: "records equal up to letter case of a compressible rdata name"}
	}
	return secDiff{kind: "records", what: fmt.Sprintf("%d vs %d records; only-in-A=%v only-in-B=%v", len(a), len(b),
		onlyIn(a, b), onlyIn(b, a))}
}

func onlyIn(a, b []RRc) []string {
	mb := multiset(b, true, false)
	var out []string
	for _, r := range a {
		k := r.key(true, false)
		if mb[k] > 0 {
			mb[k]--
			continue
		}
		if len(out) < 4 {
			if len(k) > 160 {
				k = k[:160] + "…"
			}
			out = append(out, k)
		}
	}
	return out
}

// compareCanon returns the differences between reply a (world under test)
// and reply b (decoded reference world), in a fixed order of severity.
func compareCanon(a, b Canon) []Diff {
	var ds []Diff
	add := func(f, d string) { ds = append(ds, Diff{Field: f, Detail: d}) }
	if a.Panic != "" || b.Panic != "" {
		if a.Panic != b.Panic {
			add("panic", fmt.Sprintf("%q vs %q", a.Panic, b.Panic))
		}
	}
	if a.Wrote != b.Wrote {
		add("written", fmt.Sprintf("wrote %v vs %v", a.Wrote, b.Wrote))
		return ds
	}
	if a.Writes != b.Writes {
		add("writes", fmt.Sprintf("%d vs %d transport writes", a.Writes, b.Writes))
	}
	if !a.Wrote {
		return ds
	}
	if a.Unpack != b.Unpack {
		add("undecodable", fmt.Sprintf("reply decodes: %v vs %v", a.Unpack, b.Unpack))
		return ds
	}
	if !a.Unpack {
		if a.RawHex != b.RawHex {
			add("undecodable-bytes", "both replies undecodable and different")
		}
		return ds
	}
	if a.ID != b.ID {
		add("id", fmt.Sprintf("%d vs %d", a.ID, b.ID))
	}
	if a.Opcode != b.Opcode {
		add("opcode", fmt.Sprintf("%d vs %d", a.Opcode, b.Opcode))
	}
	if a.Bits != b.Bits {
		names := []string{"QR", "AA", "TC", "RD", "RA", "Z", "AD", "CD"}
		for i := range names {
			if i < len(a.Bits) && i < len(b.Bits) && a.Bits[i] != b.Bits[i] {
				add("header."+names[i], fmt.Sprintf("%c vs %c", a.Bits[i], b.Bits[i]))
			}
		}
	}
	if a.Rcode != b.Rcode {
		add("rcode", fmt.Sprintf("%s vs %s", dns.RcodeToString[a.Rcode], dns.RcodeToString[b.Rcode]))
	}
	if strings.Join(a.QD, ";") != strings.Join(b.QD, ";") {
		if strings.EqualFold(strings.Join(a.QD, ";"), strings.Join(b.QD, ";")) {
			add("question-case", fmt.Sprintf("%v vs %v", a.QD, b.QD))
		} else {
			add("question", fmt.Sprintf("%v vs %v", a.QD, b.QD))
		}
	}
	// sections
	ttlOnly := true
	var ttlDelta int64
	ttlSeen := false
	for _, s := range []struct {
		n    string
		x, y []RRc
	}{{"answer", a.Answer, b.Answer}, {"authority", a.Ns, b.Ns}, {"additional", a.Extra, b.Extra}} {
		d := diffSection(s.x, s.y)
		switch d.kind {
		case "":
		case "ttl":
			if !d.unif || (ttlSeen && d.delta != ttlDelta) {
				ttlOnly = false
			}
			ttlDelta, ttlSeen = d.delta, true
			ds = append(ds, Diff{Field: "ttl." + s.n, Detail: d.what})
		case "rdata-name-case":
			qname := ""
			if len(a.QD) > 0 {
				qname = a.QD[0][:strings.IndexByte(a.QD[0], '|')]
			}
			if why, ok := caseViaQuestion(s.x, s.y, qname); ok {
				ds = append(ds, Diff{Field: "rdata-name-case", Soft: true, Sig: "rdata-name-case/via-question-pointer",
					Detail: s.n + ": " + why})
			} else {
				add("rdata-name-case-unexplained."+s.n, d.what+"; "+why)
			}
		default:
			add("section."+s.n, d.what)
		}
	}
	// EDNS
	switch {
	case (a.EDNS == nil) != (b.EDNS == nil):
		add("edns.present", fmt.Sprintf("%v vs %v", a.EDNS != nil, b.EDNS != nil))
	case a.EDNS != nil:
		x, y := a.EDNS, b.EDNS
		if x.Count != y.Count {
			add("edns.count", fmt.Sprintf("%d vs %d", x.Count, y.Count))
		}
		if !strings.EqualFold(x.Owner, y.Owner) {
			if x.Owner == "." && y.Owner != "." {
				ds = append(ds, Diff{Field: "edns.owner", Soft: true, Sig: "edns-owner/decoded-path-echoes-request-opt-owner",
					Detail: fmt.Sprintf("reply OPT owner %q (byte-built OPT) vs %q (decoded path re-uses the request's OPT record)", x.Owner, y.Owner)})
			} else {
				add("edns.owner", fmt.Sprintf("%q vs %q", x.Owner, y.Owner))
			}
		}
		if x.UDPSize != y.UDPSize {
			add("edns.size", fmt.Sprintf("%d vs %d", x.UDPSize, y.UDPSize))
		}
		if x.Version != y.Version {
			add("edns.version", fmt.Sprintf("%d vs %d", x.Version, y.Version))
		}
		if x.ExtRcode != y.ExtRcode && a.Rcode == b.Rcode {
			add("edns.extrcode", fmt.Sprintf("%d vs %d", x.ExtRcode, y.ExtRcode))
		}
		if x.DO != y.DO {
			add("edns.do", fmt.Sprintf("%v vs %v", x.DO, y.DO))
		}
		if x.Z != y.Z {
			add("edns.z", fmt.Sprintf("%#x vs %#x", x.Z, y.Z))
		}
		if strings.Join(x.Options, ",") != strings.Join(y.Options, ",") {
			// name the first differing option code
			add("edns.option."+firstOptDiff(x.Options, y.Options), fmt.Sprintf("%v vs %v", x.Options, y.Options))
		}
	}
	// classify the "uniform off-by-one TTL and nothing else" case
	if len(ds) > 0 && ttlSeen && ttlOnly && (ttlDelta == 1 || ttlDelta == -1) {
		all := true
		for _, d := range ds {
			if !strings.HasPrefix(d.Field, "ttl.") {
				all = false
			}
		}
		if all {
			for i := range ds {
				ds[i].TTLOne = true
			}
		}
	}
	return ds
}

func firstOptDiff(a, b []string) string {
	ca, cb := map[string]int{}, map[string]int{}
	for _, s := range a {
		ca[s]++
	}
	for _, s := range b {
		cb[s]++
	}
	var codes []string
	for s, n := range ca {
		if cb[s] != n {
			codes = append(codes, s[:strings.IndexByte(s, ':')])
		}
	}
	for s, n := range cb {
		if ca[s] != n {
			codes = append(codes, s[:strings.IndexByte(s, ':')])
		}
	}
	sort.Strings(codes)
	if len(codes) == 0 {
		return "order"
	}
	return codes[0]
}

// caseViaQuestion decides whether the letter-case differences between the
// rdata names of a (subject) and b (reference) are all explained by ONE
// mechanism: the subject's name ends in a label-aligned suffix that is spelled
// exactly like the same suffix of the question name the client sent (a
// compression pointer into the question section whose spelling was echoed),
// and is otherwise identical to the reference's name.
func caseViaQuestion(a, b []RRc, qname string) (string, bool) {
	group := func(rrs []RRc) map[string][]RRc {
		m := map[string][]RRc{}
		for _, r := range rrs {
			k := r.key(true, true)
			m[k] = append(m[k], r)
		}
		for _, v := range m {
			sort.Slice(v, func(i, j int) bool { return v[i].RData < v[j].RData })
		}
		return m
	}
	ga, gb := group(a), group(b)
	example := ""
	for k, la := range ga {
		lb := gb[k]
		if len(la) != len(lb) {
			return "multiset mismatch", false
		}
		// pair records whose exact rdata agrees first
		used := make([]bool, len(lb))
		var restA []RRc
		for _, ra := range la {
			found := false
			for j, rb := range lb {
				if !used[j] && rb.RData == ra.RData {
					used[j], found = true, true
					break
				}
			}
			if !found {
				restA = append(restA, ra)
			}
		}
		var restB []RRc
		for j, rb := range lb {
			if !used[j] {
				restB = append(restB, rb)
			}
		}
		for i, ra := range restA {
			rb := restB[i]
			if len(ra.Names) != len(rb.Names) || len(ra.Names) == 0 {
				return "no name-bearing rdata", false
			}
			for n := range ra.Names {
				s, t := ra.Names[n], rb.Names[n]
				if s == t {
					continue
				}
				if !strings.EqualFold(s, t) || !explainedByQuestion(s, t, qname) {
					return fmt.Sprintf("%q vs %q not explained by the question spelling %q", s, t, qname), false
				}
				if example == "" {
					example = fmt.Sprintf("rdata name %q (wire path) vs %q (decoded path), client asked %q", s, t, qname)
				}
			}
		}
	}
	return example, example != ""
}

func explainedByQuestion(s, t, qname string) bool {
	if len(s) != len(t) {
		return false
	}
	idx := []int{0}
	for i := 0; i < len(s); i++ {
		if s[i] == '\\' {
			i++
			continue
		}
		if s[i] == '.' && i+1 < len(s) {
			idx = append(idx, i+1)
		}
	}
	for _, k := range idx {
		suf := s[k:]
		if suf == "." || suf == "" {
			continue
		}
		if (qname == suf || strings.HasSuffix(qname, "."+suf)) && s[:k] == t[:k] {
			return true
		}
	}
	return false
}
