package main

// Workload generation: configurations, admission histories, query packets.
// Everything is a pure function of (*rand.Rand); a Group is fully
// serialisable (replay needs no RNG).

import (
	"encoding/binary"
	"encoding/hex"
	"fmt"
	"math/rand/v2"
	"strings"

	"github.com/miekg/dns"
)

// ---------------------------------------------------------------------
// Serialisable case description
// ---------------------------------------------------------------------

// ConfSpec is the configuration of both worlds of a group.
type ConfSpec struct {
	Name       string   `json:"name"`
	DNSSEC     string   `json:"dnssec"` // "on" | "off"
	Cookie     string   `json:"cookie,omitempty"`
	NSID       string   `json:"nsid,omitempty"`
	ClientRate int      `json:"client_rate,omitempty"`
	EntryRate  int      `json:"entry_rate,omitempty"`
	Prefetch   uint32   `json:"prefetch,omitempty"`
	RFC8198Off bool     `json:"rfc8198_off,omitempty"`
	RFC9520Off bool     `json:"rfc9520_off,omitempty"`
	Hosts      bool     `json:"hosts,omitempty"`
	EmptyZones []string `json:"empty_zones,omitempty"`
	ECS        bool     `json:"ecs,omitempty"`
}

// Op is one step of the admission history, executed identically (through
// the decoded entry) in every world.
type Op struct {
	Kind   string `json:"k"` // "q" query | "adv" advance clock | "zonefail" | "purge" (Cache.Purge of Name/Qtype, both CD partitions)
	Name   string `json:"n,omitempty"`
	Qtype  uint16 `json:"t,omitempty"`
	DO     bool   `json:"do,omitempty"`
	CD     bool   `json:"cd,omitempty"`
	NoEDNS bool   `json:"noedns,omitempty"`
	ECS    string `json:"ecs,omitempty"` // "192.0.2.0/24"
	Client string `json:"client,omitempty"`
	Secs   int    `json:"secs,omitempty"`
	Zone   string `json:"zone,omitempty"`
	State  string `json:"state,omitempty"` // state family this op establishes (evidence only)
}

// Pkt is one case packet.
type Pkt struct {
	Hex    string `json:"hex"`
	Client string `json:"client"`
	Target string `json:"target,omitempty"` // state family of the question it was derived from (evidence only)
	Shape  string `json:"shape,omitempty"`  // packet-shape tags (evidence only)
	Note   string `json:"note,omitempty"`   // what the generator knows about the targeted state (evidence only)
}

// Group is one differential case: a config, a transport flavour, a history
// and the packets served (each followed by the probe suffix).
type Group struct {
	Index   int      `json:"index"`
	Seed    uint64   `json:"seed"`
	Conf    ConfSpec `json:"conf"`
	Proto   string   `json:"proto"` // "udp" | "tcp"
	History []Op     `json:"history"`
	Pkts    []Pkt    `json:"pkts"`
	// Sessions are multi-step client conversations (one source address each),
	// served after the packets; see SessStep.
	Sessions []Session `json:"sessions,omitempty"`
}

// Session is a sequence of queries from ONE client address over changing
// transports and with changing DNS cookies. The packets of a step are built
// inside each world from that world's own earlier replies (a server cookie is
// parsed out of the reply of step k and echoed in a later step), exactly as a
// real client would.
type Session struct {
	Client string     `json:"client"` // IP only; each step adds its own port
	Steps  []SessStep `json:"steps"`
}

// SessStep is one query of a session.
type SessStep struct {
	Proto  string `json:"proto"` // "udp" | "tcp"
	Port   int    `json:"port"`
	ID     uint16 `json:"id"`
	Name   string `json:"n"`
	Qtype  uint16 `json:"t"`
	DO     bool   `json:"do,omitempty"`
	CD     bool   `json:"cd,omitempty"`
	AD     bool   `json:"ad,omitempty"`
	NoEDNS bool   `json:"noedns,omitempty"`
	NSID   bool   `json:"nsid,omitempty"`
	Case   int    `json:"case,omitempty"` // 0 as is, 1 upper-cased question
	// Cookie: "none" | "cc" (client cookie only) | "echo" (the complete cookie
	// of the most recent reply at or before step Ref that carried one) |
	// "graft" (this step's client cookie + the server half issued at Ref for
	// whatever client cookie that step used) | "wrong" (client cookie + Junk) |
	// "badlen" (client cookie + Junk of an illegal length)
	Cookie string `json:"cookie"`
	CC     string `json:"cc,omitempty"`   // client cookie, 16 hex digits
	Ref    int    `json:"ref,omitempty"`  // step index the server half is taken from
	Junk   string `json:"junk,omitempty"` // hex
	Kind   string `json:"kind"`           // evidence / signature label
	Target string `json:"target,omitempty"`
}

// ---------------------------------------------------------------------
// Configurations
// ---------------------------------------------------------------------

const cookieSecret = "c05-5ecret-c05-5ecret-c05-5ecret"

var confs = []ConfSpec{
	{Name: "base", DNSSEC: "on"},
	{Name: "cookie-nsid", DNSSEC: "on", Cookie: cookieSecret, NSID: "verif-c05"},
	{Name: "client-rate", DNSSEC: "on", Cookie: cookieSecret, ClientRate: 20},
	{Name: "entry-rate-1", DNSSEC: "on", EntryRate: 1},
	{Name: "entry-rate-2", DNSSEC: "on", EntryRate: 2, NSID: "n2"},
	{Name: "prefetch", DNSSEC: "on", Prefetch: 50},
	{Name: "rfc8198-off", DNSSEC: "on", RFC8198Off: true},
	{Name: "rfc9520-off", DNSSEC: "on", RFC9520Off: true},
	{Name: "hosts-as112", DNSSEC: "on", Hosts: true, EmptyZones: []string{"10.in-addr.arpa.", "168.192.IN-ADDR.ARPA.", "d.f.ip6.arpa."}},
	{Name: "dnssec-off", DNSSEC: "off", NSID: "off"},
	{Name: "ecs", DNSSEC: "on", ECS: true, Cookie: cookieSecret},
	{Name: "all", DNSSEC: "on", Cookie: cookieSecret, NSID: "all-in-one", ClientRate: 24, EntryRate: 2, Prefetch: 60, Hosts: true},
}

const hostsFileBody = `# c05 hosts
10.55.0.1   host1.hosts.c05 alias1.hosts.c05 ALIAS2.hosts.c05
10.55.0.2   host1.hosts.c05
2001:db8:55::1 host1.hosts.c05
2001:db8:55::6 six.hosts.c05
10.55.0.9   *.wild.hosts.c05
10.55.0.77  pos-h.u.c05
`

// ---------------------------------------------------------------------
// Histories
// ---------------------------------------------------------------------

// target is a question the packet generator may ask, tagged with the state
// family it probes.
type target struct {
	name  string
	qtype uint16
	state string
	// flags the packet generator should prefer for this target
	wantCD, wantECS, noCD bool
	class                 uint16
	note                  string // evidence only (Pkt.Note)
}

const adminClient = "198.51.100.7:5353"

func q(state, name string, qtype uint16) Op {
	return Op{Kind: "q", Name: name, Qtype: qtype, DO: true, Client: adminClient, State: state}
}

// genHistory builds the admission history and the target pool for a group.
func genHistory(rng *rand.Rand, conf ConfSpec) ([]Op, []target) {
	return genHistoryMixed(rng, nil, nil, conf)
}

// mixedChain draws one alias chain whose hops carry per-invocation attributes
// (see universe.go) plus the ops that admit it (phase 1) and later re-admit
// single hops (phase 2), so that the hops of the cached chain end up with
// different header bits, signatures, EDE and ages.
func mixedChain(rng *rand.Rand, conf ConfSpec) (phase1, phase2 []Op, targets []target) {
	nib := func() int {
		v := 0
		if rng.IntN(10) < 6 {
			v |= 1 // AD
		}
		if rng.IntN(10) < 4 {
			v |= 2 // RRSIG
		}
		if rng.IntN(4) == 0 {
			v |= 4 // EDE
		}
		if rng.IntN(4) == 0 {
			v |= 8 // short TTL
		}
		return v
	}
	spec := func() string {
		v := nib()
		out := fmt.Sprintf("%x", v)
		for g := 0; g < 2; g++ {
			// every re-admission changes something; the AD bit half of the time
			mask := 1 + rng.IntN(15)
			if rng.IntN(2) == 0 {
				mask |= 1
			} else {
				mask &^= 1
				if mask == 0 {
					mask = 2 << rng.IntN(3)
				}
			}
			v ^= mask
			out += fmt.Sprintf("%x", v)
		}
		return out
	}
	zone := zoneS
	if rng.IntN(2) == 0 {
		zone = zoneU
	}
	id := fmt.Sprintf("%d", 1+rng.IntN(900))
	// labels, terminal first
	label := "mt-" + spec() + "-" + id
	hops := []string{label + "." + zone}
	depth := 1
	if rng.IntN(10) < 3 {
		depth = 2
	}
	for d := 0; d < depth; d++ {
		label = "mc-" + spec() + "-" + label
		hops = append([]string{label + "." + zone}, hops...)
	}
	head := hops[0]
	withCD := rng.IntN(4) == 0
	mq := func(name string, cd bool) Op {
		o := q("chain-mixed", name, dns.TypeA)
		o.DO = rng.IntN(3) != 0
		o.CD = cd
		return o
	}
	phase1 = append(phase1, mq(head, false))
	if withCD {
		phase1 = append(phase1, mq(head, true))
	}
	n := 1 + rng.IntN(3)
	advAt := -1
	if rng.IntN(4) == 0 {
		advAt = rng.IntN(n + 1)
	}
	for a := 0; a <= n; a++ {
		if a == advAt {
			phase2 = append(phase2, Op{Kind: "adv", Secs: 1 + rng.IntN(45), State: "chain-mixed"})
		}
		if a == n {
			break
		}
		h := rng.IntN(len(hops))
		if rng.IntN(10) < 7 {
			phase2 = append(phase2, Op{Kind: "purge", Name: hops[h], Qtype: dns.TypeA, State: "chain-mixed"})
		}
		// re-admit: ask the hop itself, or the head of the chain (the chase
		// re-resolves whatever is missing)
		ask := hops[h]
		if rng.IntN(2) == 0 {
			ask = head
		}
		phase2 = append(phase2, mq(ask, false))
		if withCD && rng.IntN(2) == 0 {
			phase2 = append(phase2, mq(ask, true))
		}
	}
	for i, h := range hops {
		st := "chain-mixed"
		if i == len(hops)-1 {
			st = "chain-mixed-hop"
		}
		targets = append(targets, target{name: h, qtype: dns.TypeA, state: st})
	}
	if withCD {
		targets = append(targets, target{name: head, qtype: dns.TypeA, state: "chain-mixed", wantCD: true})
	}
	return phase1, phase2, targets
}

// richChain draws one bare-alias chain in front of a rich terminal (universe
// families cnr -> cnq -> rs) and the ops that admit it for a few question
// types. The upstream answers the alias only, so the alias entry of every asked
// type is cached WITHOUT its terminal and the terminal RRset is cached as an
// entry of its own: the state the wire composer completes from cache.
func richChain(rng *rand.Rand, conf ConfSpec) (ops []Op, targets []target) {
	zone := zoneU
	if rng.IntN(2) == 0 {
		zone = zoneS
	}
	id := fmt.Sprintf("%d", 1+rng.IntN(900))
	head := "cnq-" + id + "." + zone
	hops := 1
	if rng.IntN(4) == 0 {
		head, hops = "cnr-"+id+"."+zone, 2
	}
	ntypes := 2
	if conf.Prefetch > 0 {
		ntypes = 1
	}
	perm := rng.Perm(len(richTypes))
	for _, ti := range perm[:ntypes] {
		t := richTypes[ti]
		o := q("chain-rich", head, t)
		o.DO = rng.IntN(3) != 0
		ops = append(ops, o)
		note := fmt.Sprintf("qtype=%s hops=%d", dns.TypeToString[t], hops)
		targets = append(targets, target{name: head, qtype: t, state: "chain-rich", note: note})
		if rng.IntN(2) == 0 {
			targets = append(targets, target{name: "rs-" + id + "." + zone, qtype: t, state: "chain-rich-terminal", note: note})
		}
	}
	return ops, targets
}

// depthBlock draws the denial / failure interplay in ONE signed zone whose
// apex depth is drawn per group (root, top-level domain, two labels, four
// labels), with the failing questions 1 to 3 labels below that apex:
//
//  1. a question fails (RFC 9520 state; miss witness: the denial state of the
//     moment)                                         -> failure-denied-later
//  2. a validated denial for the zone is admitted whose NSEC range covers the
//     name that failed (first snapshot of the zone)
//  3. two more questions fail under that snapshot: one inside the range of a
//     SECOND denial, one outside every range
//  4. (2 in 3) the second denial is admitted: the zone's snapshot is REPLACED
//     -> failure-denied-by-replacement / failure-witness-replaced; otherwise the
//     witnesses keep holding -> failure-witness-depth
//
// While a denial covers a name with a live cached failure, both entries must
// answer from the denial (the decoded ladder consults RFC 8198 before RFC
// 9520); a failure whose witness holds is served from bytes.
func depthBlock(rng *rand.Rand, conf ConfSpec) (ops []Op, targets []target) {
	zone := depthZones[rng.IntN(len(depthZones))]
	depth := dns.CountLabel(zone)
	id := func() string { return fmt.Sprintf("%d", 1+rng.IntN(900)) }
	below := func(fam string) (string, int) {
		n := under(fam+"-"+id(), zone)
		switch rng.IntN(4) {
		case 0:
			return "host." + n, 2
		case 1:
			return "a.B." + n, 3
		}
		return n, 1
	}
	mk := func(state, name string) Op { return q(state, name, dns.TypeA) }
	add := func(state, name string, below int, extra string) {
		targets = append(targets, target{name: name, qtype: dns.TypeA, state: state, noCD: true,
			note: fmt.Sprintf("depth=%d below=%d%s", depth, below, extra)})
	}
	f1, b1 := below("nxsf")
	f2, b2 := below("nysf")
	f3, b3 := below("fail")
	nxs, nys := under("nxs-"+id(), zone), under("nys-"+id(), zone)
	replaced := rng.IntN(3) != 0
	// a second denial zone on the same ancestor path: the ROOT zone's snapshot
	// appears before the first failure (every witness then pins two zones) or
	// after the last one (a zone that covers nothing new moved: the witnesses no
	// longer hold, the decoded ladder re-evaluates and still serves the failure)
	outer := ""
	if zone != zoneRoot && rng.IntN(2) == 0 {
		outer = []string{"start", "end"}[rng.IntN(2)]
	}
	outerOp := mk("depth-denial-outer", under("nxs-"+id(), zoneRoot))
	extra := ""
	if outer != "" {
		extra = " outer=" + outer
	}
	if outer == "start" {
		ops = append(ops, outerOp)
	}
	ops = append(ops, mk("failure-denied-later", f1), mk("depth-denial", nxs))
	add("failure-denied-later", f1, b1, extra)
	switch {
	case replaced:
		ops = append(ops, mk("failure-denied-by-replacement", f2), mk("failure-witness-replaced", f3), mk("depth-denial", nys))
		add("failure-denied-by-replacement", f2, b2, extra)
		add("failure-witness-replaced", f3, b3, extra)
	case outer == "end":
		ops = append(ops, mk("failure-witness-replaced", f2), mk("failure-witness-replaced", f3))
		add("failure-witness-replaced", f2, b2, extra)
		add("failure-witness-replaced", f3, b3, extra)
	default:
		ops = append(ops, mk("failure-witness-depth", f2), mk("failure-witness-depth", f3))
		add("failure-witness-depth", f2, b2, extra)
		add("failure-witness-depth", f3, b3, extra)
	}
	if outer == "end" {
		ops = append(ops, outerOp)
	}
	add("depth-denial", nxs, 1, "")
	add("depth-cut", "sub."+nxs, 2, "")
	add("depth-denial-synth", under("nxs-"+id()+"x", zone), 1, "")
	return ops, targets
}

// genHistoryMixed is genHistory plus, when mrng is non-nil, mixed alias chains
// drawn from mrng (a separate stream: the base history stays what it was) and,
// when yrng is non-nil as well, the rich-terminal alias chain and the depth
// block drawn from yrng (a third stream, for the same reason).
func genHistoryMixed(rng, mrng, yrng *rand.Rand, conf ConfSpec) ([]Op, []target) {
	id := func() string { return fmt.Sprintf("%d", 1+rng.IntN(900)) }
	var early, late []Op // early ops come before the optional clock advance
	var pool []target
	add := func(list *[]Op, t []target, ops ...Op) {
		*list = append(*list, ops...)
		pool = append(pool, t...)
	}
	pick := func() *[]Op {
		if rng.IntN(2) == 0 {
			return &early
		}
		return &late
	}
	u := func(f, i string) string { return f + "-" + i + "." + zoneU }
	s := func(f, i string) string { return f + "-" + i + "." + zoneS }

	// positive
	i := id()
	add(pick(), []target{{name: u("pos", i), qtype: dns.TypeA, state: "positive"}, {name: u("pos", i), qtype: dns.TypeTXT, state: "positive"},
		{name: u("pos", i), qtype: dns.TypeAAAA, state: "miss"}, {name: u("pos", i), qtype: dns.TypeMX, state: "positive"}},
		q("positive", u("pos", i), dns.TypeA), q("positive", u("pos", i), dns.TypeTXT), q("positive", u("pos", i), dns.TypeMX))
	// NODATA / NXDOMAIN
	i = id()
	add(pick(), []target{{name: u("nod", i), qtype: dns.TypeA, state: "nodata"}, {name: u("nx", i), qtype: dns.TypeA, state: "nxdomain"},
		{name: u("nx", i), qtype: dns.TypeAAAA, state: "miss"}},
		q("nodata", u("nod", i), dns.TypeA), q("nxdomain", u("nx", i), dns.TypeA))
	// fully cached chain
	i = id()
	add(pick(), []target{{name: u("cna", i), qtype: dns.TypeA, state: "chain-full"}, {name: u("cnb", i), qtype: dns.TypeA, state: "chain-full"},
		{name: u("cna", i), qtype: dns.TypeCNAME, state: "miss"}},
		q("chain-full", u("cna", i), dns.TypeA), q("chain-full", u("cnb", i), dns.TypeA), q("chain-full", u("pos", i), dns.TypeA))
	// partly cached chain (terminal missing)
	i = id()
	add(pick(), []target{{name: u("cna", i), qtype: dns.TypeA, state: "chain-part"}, {name: u("cna", i), qtype: dns.TypeTXT, state: "miss"}},
		q("chain-part", u("cna", i), dns.TypeA), q("chain-part", u("cnb", i), dns.TypeA))
	// alias-only upstream answer (cache chases at admission)
	i = id()
	add(pick(), []target{{name: u("cnp", i), qtype: dns.TypeA, state: "chain-chased"}, {name: u("cnp", i), qtype: dns.TypeCNAME, state: "chain-chased"}},
		q("chain-chased", u("cnp", i), dns.TypeA), q("chain-chased", u("cnp", i), dns.TypeCNAME))
	// chain with a non-recomposable terminal, chain to NXDOMAIN, loop
	i = id()
	add(pick(), []target{{name: u("cmx", i), qtype: dns.TypeMX, state: "chain-mx"}, {name: u("cnx", i), qtype: dns.TypeA, state: "chain-nx"},
		{name: u("loop", i), qtype: dns.TypeA, state: "chain-loop"}},
		q("chain-mx", u("cmx", i), dns.TypeMX), q("chain-mx", u("pos", i), dns.TypeMX), q("chain-nx", u("cnx", i), dns.TypeA),
		q("chain-loop", u("loop", i), dns.TypeA))
	// EDE-bearing
	i = id()
	add(pick(), []target{{name: u("ede", i), qtype: dns.TypeA, state: "ede"}, {name: u("edn", i), qtype: dns.TypeA, state: "ede"}},
		q("ede", u("ede", i), dns.TypeA), q("ede", u("edn", i), dns.TypeA))
	// oversized
	i = id()
	add(pick(), []target{{name: u("big", i), qtype: dns.TypeTXT, state: "big"}, {name: u("big", i), qtype: dns.TypeA, state: "big"},
		{name: u("huge", i), qtype: dns.TypeTXT, state: "big"}},
		q("big", u("big", i), dns.TypeTXT), q("big", u("big", i), dns.TypeA), q("big", u("huge", i), dns.TypeTXT))
	// additional-section records
	i = id()
	add(pick(), []target{{name: u("add", i), qtype: dns.TypeMX, state: "additional"}, {name: u("add", i), qtype: dns.TypeA, state: "additional"}},
		q("additional", u("add", i), dns.TypeMX), q("additional", u("add", i), dns.TypeA))
	// upstream-asserted AD, both CD partitions
	i = id()
	cdq := q("ad", u("ad", i), dns.TypeA)
	cdq.CD = true
	add(pick(), []target{{name: u("ad", i), qtype: dns.TypeA, state: "ad"}, {name: u("ad", i), qtype: dns.TypeA, state: "ad", wantCD: true}},
		q("ad", u("ad", i), dns.TypeA), cdq)
	// signed positive, RRSIG qtype, signed alias with / without terminal
	i = id()
	sq := q("signed", s("sig", i), dns.TypeA)
	sq.DO = rng.IntN(2) == 0
	sqcd := q("signed", s("sig", i), dns.TypeA)
	sqcd.CD = true
	add(pick(), []target{{name: s("sig", i), qtype: dns.TypeA, state: "signed"}, {name: s("sig", i), qtype: dns.TypeRRSIG, state: "rrsig-qtype"},
		{name: s("sig", i), qtype: dns.TypeA, state: "signed", wantCD: true},
		{name: s("sigc", i), qtype: dns.TypeA, state: "signed-alias"}, {name: s("sigf", i), qtype: dns.TypeA, state: "signed-alias"},
		{name: s("sig", i), qtype: dns.TypeMX, state: "signed-nodata"}},
		sq, sqcd, q("rrsig-qtype", s("sig", i), dns.TypeRRSIG), q("signed-alias", s("sigc", i), dns.TypeA),
		q("signed-alias", s("sigf", i), dns.TypeA), q("signed-nodata", s("sig", i), dns.TypeMX))
	// signed NODATA / NXDOMAIN with validated-negative provenance: denial
	// proofs and a subtree cut
	i = id()
	j := id()
	denial := []Op{q("denial-proof", s("nds", i), dns.TypeA), q("cut", s("nxs", i), dns.TypeA)}
	denialTargets := []target{{name: s("nds", i), qtype: dns.TypeA, state: "denial-proof", noCD: true},
		{name: s("nxs", i), qtype: dns.TypeA, state: "cut", noCD: true},
		{name: "sub." + s("nxs", i), qtype: dns.TypeA, state: "cut", noCD: true},
		{name: "a.B.c." + s("nxs", i), qtype: dns.TypeTXT, state: "cut", noCD: true},
		{name: "sub." + s("nxs", i), qtype: dns.TypeRRSIG, state: "cut", noCD: true},
		{name: s("nxs", j), qtype: dns.TypeA, state: "denial-proof", noCD: true},
		{name: "sub." + s("nxs", i), qtype: dns.TypeA, state: "cut", wantCD: true}}
	// failures: before / after the denial admission (stale vs holding witness)
	k := id()
	failBefore := q("failure-witness-stale", s("fail", k+"a"), dns.TypeA)
	failAfter := q("failure-witness", s("fail", k+"b"), dns.TypeA)
	failCD := q("failure-cd", u("fail", k), dns.TypeA)
	failCD.CD = true
	failPlain := q("failure", u("fail", k), dns.TypeA)
	list := pick()
	add(list, []target{{name: s("fail", k+"a"), qtype: dns.TypeA, state: "failure-witness-stale", noCD: true}}, failBefore)
	add(list, denialTargets, denial...)
	add(list, []target{{name: s("fail", k+"b"), qtype: dns.TypeA, state: "failure-witness", noCD: true},
		{name: u("fail", k), qtype: dns.TypeA, state: "failure"},
		{name: u("fail", k), qtype: dns.TypeA, state: "failure-cd", wantCD: true},
		{name: "x." + u("fail", k), qtype: dns.TypeA, state: "miss"}},
		failAfter, failPlain, failCD)
	// zone-kind failure below a zone that also holds denial proofs
	i = id()
	zf := func(f, i string) string { return f + "-" + i + "." + zoneZF }
	add(pick(), []target{{name: zf("nxs", i+"7"), qtype: dns.TypeA, state: "zone-failure+denial", noCD: true},
		{name: zf("pos", i), qtype: dns.TypeA, state: "zone-failure", noCD: true},
		{name: zf("pos", i), qtype: dns.TypeTXT, state: "zone-failure", wantCD: true}},
		q("zone-failure+denial", zf("nxs", i), dns.TypeA),
		Op{Kind: "zonefail", Zone: zoneZF, State: "zone-failure"})
	// ECS-scoped entries
	if conf.ECS {
		i = id()
		e1 := q("ecs-scoped", u("ecs", i), dns.TypeA)
		e1.ECS = "192.0.2.0/24"
		e2 := q("ecs-scoped", u("ecs", i), dns.TypeA)
		e2.ECS = "2001:db8:77::/48"
		add(pick(), []target{{name: u("ecs", i), qtype: dns.TypeA, state: "ecs-scoped", wantECS: true},
			{name: u("ecs", i), qtype: dns.TypeA, state: "ecs-scoped"}, {name: u("pos", i), qtype: dns.TypeA, state: "ecs-scoped", wantECS: true}},
			e1, e2, q("ecs-scoped", u("ecs", i+"0"), dns.TypeA))
	}
	// local data: hosts file, empty zones, chaos
	pool = append(pool,
		target{name: "host1.hosts.c05.", qtype: dns.TypeA, state: "hosts"}, target{name: "HOST1.hosts.C05.", qtype: dns.TypeAAAA, state: "hosts"},
		target{name: "alias1.hosts.c05.", qtype: dns.TypeA, state: "hosts"}, target{name: "alias2.hosts.c05.", qtype: dns.TypeCNAME, state: "hosts"},
		target{name: "host1.hosts.c05.", qtype: dns.TypeMX, state: "hosts"}, target{name: "x.wild.hosts.c05.", qtype: dns.TypeA, state: "hosts"},
		target{name: "X.y.WILD.hosts.c05.", qtype: dns.TypeTXT, state: "hosts"}, target{name: "1.0.55.10.in-addr.arpa.", qtype: dns.TypePTR, state: "hosts"},
		target{name: "six.hosts.c05.", qtype: dns.TypeA, state: "hosts"}, target{name: "pos-h.u.c05.", qtype: dns.TypeA, state: "hosts"},
		target{name: "1.0.0.0.0.0.0.0.0.0.0.0.0.0.0.0.0.0.0.0.0.0.5.5.0.0.8.b.d.0.1.0.0.2.ip6.arpa.", qtype: dns.TypePTR, state: "hosts"},
		target{name: "5.4.3.10.in-addr.arpa.", qtype: dns.TypePTR, state: "as112"}, target{name: "10.IN-ADDR.ARPA.", qtype: dns.TypeSOA, state: "as112"},
		target{name: "10.in-addr.arpa.", qtype: dns.TypeNS, state: "as112"}, target{name: "1.168.192.in-addr.arpa.", qtype: dns.TypeDS, state: "as112"},
		target{name: "168.192.in-addr.arpa.", qtype: dns.TypeDS, state: "as112"}, target{name: "9.9.9.9.in-addr.arpa.", qtype: dns.TypePTR, state: "as112"},
		target{name: "0.d.f.ip6.arpa.", qtype: dns.TypeAAAA, state: "as112"}, target{name: "254.169.in-addr.arpa.", qtype: dns.TypeSOA, state: "as112"},
		target{name: "arpa.", qtype: dns.TypeNS, state: "as112"},
		target{name: "version.bind.", qtype: dns.TypeTXT, state: "chaos", class: dns.ClassCHAOS},
		target{name: "hostname.bind.", qtype: dns.TypeTXT, state: "chaos", class: dns.ClassCHAOS},
		target{name: "id.server.", qtype: dns.TypeTXT, state: "chaos", class: dns.ClassCHAOS},
		target{name: "other.bind.", qtype: dns.TypeTXT, state: "chaos", class: dns.ClassCHAOS},
		target{name: "version.bind.", qtype: dns.TypeA, state: "chaos", class: dns.ClassCHAOS},
		target{name: u("pos", "77"), qtype: dns.TypeA, state: "class", class: dns.ClassHESIOD},
		target{name: u("pos", "78"), qtype: dns.TypeA, state: "class", class: dns.ClassANY},
		target{name: u("pos", "79"), qtype: dns.TypeA, state: "class", class: 0},
		target{name: u("pos", "80"), qtype: dns.TypeA, state: "class", class: 4711},
		target{name: u("pos", id()), qtype: dns.TypeA, state: "miss"}, target{name: u("nx", id()), qtype: dns.TypeTXT, state: "miss"},
		target{name: "outside-" + id() + ".example.", qtype: dns.TypeA, state: "miss"},
		target{name: u("ref", id()), qtype: dns.TypeA, state: "miss"},
		target{name: ".", qtype: dns.TypeNS, state: "root"}, target{name: ".", qtype: dns.TypeA, state: "root"},
		target{name: u("pos", "81"), qtype: 65280, state: "unknown-type"}, target{name: u("pos", "82"), qtype: dns.TypeANY, state: "meta-type"},
		target{name: u("pos", "83"), qtype: dns.TypeAXFR, state: "meta-type"}, target{name: u("pos", "84"), qtype: dns.TypeOPT, state: "meta-type"},
		target{name: u("pos", "85"), qtype: 0, state: "meta-type"}, target{name: u("pos", "86"), qtype: dns.TypeDS, state: "miss"},
	)

	rng.Shuffle(len(early), func(a, b int) { early[a], early[b] = early[b], early[a] })
	rng.Shuffle(len(late), func(a, b int) { late[a], late[b] = late[b], late[a] })
	// the denial/failure block must keep its internal order: shuffle moved
	// whole ops, so restore by stable re-sorting those with an order tag
	early = restoreOrder(early)
	late = restoreOrder(late)

	var hist []Op
	hist = append(hist, early...)
	switch {
	case conf.Prefetch > 0:
		// everything admitted so far becomes prefetch-due
		hist = append(hist, Op{Kind: "adv", Secs: 150 + rng.IntN(29)})
	default:
		switch rng.IntN(4) {
		case 0:
			hist = append(hist, Op{Kind: "adv", Secs: 1 + rng.IntN(4)}) // failures still live
		case 1:
			hist = append(hist, Op{Kind: "adv", Secs: 6 + rng.IntN(200)}) // failures expired (retry probes)
		}
	}
	hist = append(hist, late...)
	if conf.Prefetch > 0 && rng.IntN(2) == 0 {
		hist = append(hist, Op{Kind: "adv", Secs: 1 + rng.IntN(30)})
	}
	if mrng != nil {
		// mixed chains: admitted before everything else, single hops re-admitted
		// after everything else (so the group's own clock advance ages them too)
		var first, last []Op
		chains := 2
		if conf.Prefetch > 0 {
			// every step that causes an internal request costs a full quiescence
			// wait where prefetch workers exist
			chains = 1
		}
		for c := 0; c < chains; c++ {
			p1, p2, ts := mixedChain(mrng, conf)
			first = append(first, p1...)
			last = append(last, p2...)
			pool = append(pool, ts...)
		}
		if yrng != nil {
			// rich-terminal alias chain: before everything (aged by the group's
			// clock advance; prefetch-due where prefetch is on) or after everything
			rops, rts := richChain(yrng, conf)
			pool = append(pool, rts...)
			if yrng.IntN(2) == 0 {
				first = append(first, rops...)
			} else {
				last = append(last, rops...)
			}
			// denial / failure interplay by zone depth: last, so the failures are
			// inside their first backoff interval when the case packets arrive
			dops, dts := depthBlock(yrng, conf)
			pool = append(pool, dts...)
			last = append(last, dops...)
		}
		hist = append(append(first, hist...), last...)
	}
	return hist, pool
}

// restoreOrder keeps the relative order of the ops whose order matters
// (witness-stale failure -> denial admission -> witness failure; zone
// admission -> zonefail) by moving each such op behind its predecessor.
func restoreOrder(ops []Op) []Op {
	rank := func(o Op) int {
		switch o.State {
		case "failure-witness-stale":
			return 1
		case "denial-proof", "cut":
			return 2
		case "failure-witness":
			return 3
		case "zone-failure+denial":
			return 2
		case "zone-failure":
			return 3
		}
		return 0
	}
	var plain, ordered []Op
	for _, o := range ops {
		if rank(o) == 0 {
			plain = append(plain, o)
		} else {
			ordered = append(ordered, o)
		}
	}
	// stable insertion sort by rank
	for a := 1; a < len(ordered); a++ {
		for b := a; b > 0 && rank(ordered[b-1]) > rank(ordered[b]); b-- {
			ordered[b-1], ordered[b] = ordered[b], ordered[b-1]
		}
	}
	return append(plain, ordered...)
}

// ---------------------------------------------------------------------
// Packets
// ---------------------------------------------------------------------

// wireName encodes a presentation name into uncompressed wire form.
func wireName(name string) []byte {
	buf := make([]byte, 300)
	off, err := dns.PackDomainName(name, buf, 0, nil, false)
	if err != nil {
		return []byte{0}
	}
	return buf[:off]
}

func mutateCase(rng *rand.Rand, w []byte, mode int) []byte {
	out := append([]byte(nil), w...)
	for i := 0; i < len(out); {
		l := int(out[i])
		if l == 0 || l&0xC0 != 0 || i+1+l > len(out) {
			break
		}
		for k := i + 1; k <= i+l; k++ {
			c := out[k]
			isL := c >= 'a' && c <= 'z'
			isU := c >= 'A' && c <= 'Z'
			switch mode {
			case 1: // upper
				if isL {
					out[k] = c - 32
				}
			case 2: // random
				if (isL || isU) && rng.IntN(2) == 0 {
					out[k] = c ^ 0x20
				}
			case 3: // lower
				if isU {
					out[k] = c + 32
				}
			}
		}
		i += 1 + l
	}
	return out
}

type optSpec struct {
	owner    []byte
	size     uint16
	extRcode uint8
	version  uint8
	z        uint16
	opts     [][2][]byte // (code as 2 bytes, data)
	rdlenAdj int
}

func (o *optSpec) bytes() []byte {
	var rd []byte
	for _, op := range o.opts {
		rd = append(rd, op[0]...)
		rd = binary.BigEndian.AppendUint16(rd, uint16(len(op[1])))
		rd = append(rd, op[1]...)
	}
	out := append([]byte(nil), o.owner...)
	out = binary.BigEndian.AppendUint16(out, dns.TypeOPT)
	out = binary.BigEndian.AppendUint16(out, o.size)
	out = append(out, o.extRcode, o.version)
	out = binary.BigEndian.AppendUint16(out, o.z)
	out = binary.BigEndian.AppendUint16(out, uint16(len(rd)+o.rdlenAdj))
	return append(out, rd...)
}

func code(c uint16) []byte { return []byte{byte(c >> 8), byte(c)} }

var optSizes = []uint16{0, 1, 511, 512, 513, 1231, 1232, 1233, 1452, 4095, 4096, 4097, 32768, 65535}

func ecsOption(rng *rand.Rand, valid bool) []byte {
	type e struct {
		fam         uint16
		mask, scope uint8
		addr        []byte
	}
	good := []e{
		{1, 24, 0, []byte{192, 0, 2}}, {1, 32, 0, []byte{198, 51, 100, 9}}, {1, 0, 0, nil}, {1, 16, 0, []byte{10, 1}},
		{2, 48, 0, []byte{0x20, 0x01, 0x0d, 0xb8, 0, 0x77}}, {2, 56, 0, []byte{0x20, 0x01, 0x0d, 0xb8, 0, 0x77, 1}}, {2, 128, 0, append([]byte{0x20, 0x01, 0x0d, 0xb8}, make([]byte, 12)...)},
		{0, 0, 0, nil}, {1, 24, 24, []byte{192, 0, 2}}, {1, 20, 0, []byte{192, 0, 0x20}},
	}
	bad := []e{
		{1, 33, 0, []byte{192, 0, 2, 1, 0}}, {1, 24, 33, []byte{192, 0, 2}}, {2, 129, 0, make([]byte, 17)}, {3, 8, 0, []byte{1}},
		{0, 8, 0, []byte{1}}, {1, 24, 0, []byte{192, 0}}, {1, 24, 0, []byte{192, 0, 2, 1}}, {1, 20, 0, []byte{192, 0, 0x2f}},
		{2, 48, 200, []byte{0x20, 0x01, 0x0d, 0xb8, 0, 0x77}}, {65535, 0, 0, nil},
	}
	var v e
	if valid {
		v = good[rng.IntN(len(good))]
	} else {
		v = bad[rng.IntN(len(bad))]
	}
	out := []byte{byte(v.fam >> 8), byte(v.fam), v.mask, v.scope}
	if !valid && rng.IntN(6) == 0 {
		return out[:rng.IntN(4)] // shorter than the fixed part
	}
	return append(out, v.addr...)
}

func randBytes(rng *rand.Rand, n int) []byte {
	b := make([]byte, n)
	for i := range b {
		b[i] = byte(rng.IntN(256))
	}
	return b
}

// genOPT draws an OPT shape; tags describes it.
func genOPT(rng *rand.Rand, t target, proto string, clean bool) (*optSpec, []string) {
	o := &optSpec{owner: []byte{0}, size: 1232}
	var tags []string
	hz := func(n int) bool { return !clean && rng.IntN(n) == 0 }
	switch rng.IntN(10) {
	case 0, 1, 2:
		o.size = optSizes[rng.IntN(len(optSizes))]
	case 3:
		o.size = uint16(rng.IntN(65536))
	}
	if rng.IntN(2) == 0 {
		o.z |= 0x8000
		tags = append(tags, "do")
	}
	if hz(25) {
		o.z |= uint16(1 << rng.IntN(15))
		tags = append(tags, "z-bits")
	}
	if hz(12) {
		o.version = uint8(1 + rng.IntN(255))
		tags = append(tags, "badvers")
	}
	if hz(25) {
		o.extRcode = uint8(1 + rng.IntN(255))
		tags = append(tags, "ext-rcode")
	}
	// options
	n := 0
	switch x := rng.IntN(10); {
	case x < 4:
	case x < 8:
		n = 1
	default:
		n = 2 + rng.IntN(3)
	}
	if t.wantECS {
		o.opts = append(o.opts, [2][]byte{code(dns.EDNS0SUBNET), ecsOption(rng, true)})
		tags = append(tags, "ecs")
	}
	for ; n > 0; n-- {
		kind := rng.IntN(12)
		if clean {
			// only options the strict parser admits, at most one cookie
			kind = []int{0, 0, 3, 7, 8, 5}[rng.IntN(6)]
			if kind == 0 && strings.Contains(strings.Join(tags, ","), "cookie") {
				kind = 3
			}
			if kind == 5 && rng.IntN(3) != 0 {
				kind = 7
			}
		}
		switch kind {
		case 0, 1, 2:
			lens := []int{8, 8, 8, 16, 24, 32, 40, 7, 9, 41, 0, 1}
			if clean {
				lens = []int{8, 8, 16, 24, 32, 40}
			}
			l := lens[rng.IntN(len(lens))]
			c := randBytes(rng, l)
			if l >= 8 {
				copy(c, []byte("c05cook1")) // fixed client half: cookie state is reproducible
			}
			o.opts = append(o.opts, [2][]byte{code(dns.EDNS0COOKIE), c})
			tags = append(tags, fmt.Sprintf("cookie%d", l))
		case 3:
			o.opts = append(o.opts, [2][]byte{code(dns.EDNS0NSID), nil})
			tags = append(tags, "nsid")
		case 4:
			o.opts = append(o.opts, [2][]byte{code(dns.EDNS0NSID), randBytes(rng, 1+rng.IntN(5))})
			tags = append(tags, "nsid-payload")
		case 5:
			o.opts = append(o.opts, [2][]byte{code(dns.EDNS0SUBNET), ecsOption(rng, true)})
			tags = append(tags, "ecs")
		case 6:
			o.opts = append(o.opts, [2][]byte{code(dns.EDNS0SUBNET), ecsOption(rng, false)})
			tags = append(tags, "ecs-invalid")
		case 7:
			o.opts = append(o.opts, [2][]byte{code(dns.EDNS0PADDING), make([]byte, rng.IntN(40))})
			tags = append(tags, "padding")
		case 8:
			ka := [][]byte{nil, {0, 100}, {0, 1, 2}, {9}}[rng.IntN(4)]
			if clean {
				ka = [][]byte{nil, {0, 100}}[rng.IntN(2)]
			}
			o.opts = append(o.opts, [2][]byte{code(dns.EDNS0TCPKEEPALIVE), ka})
			tags = append(tags, fmt.Sprintf("keepalive%d", len(ka)))
		case 9:
			codes := []uint16{dns.EDNS0EXPIRE, dns.EDNS0EDE, dns.EDNS0LLQ, dns.EDNS0UL, dns.EDNS0DAU, dns.EDNS0DHU, dns.EDNS0N3U, 17, 18, 20292, 65001, 65535, 0, 4}
			c := codes[rng.IntN(len(codes))]
			o.opts = append(o.opts, [2][]byte{code(c), randBytes(rng, rng.IntN(9))})
			tags = append(tags, fmt.Sprintf("opt%d", c))
		case 10:
			// well-formed payloads for known codes the wire parser does not admit
			switch rng.IntN(3) {
			case 0:
				o.opts = append(o.opts, [2][]byte{code(dns.EDNS0EXPIRE), {0, 0, 1, 0}})
			case 1:
				o.opts = append(o.opts, [2][]byte{code(dns.EDNS0EDE), {0, 3, 'h', 'i'}})
			default:
				o.opts = append(o.opts, [2][]byte{code(dns.EDNS0DAU), {8, 13}})
			}
			tags = append(tags, "opt-known-unadmitted")
		case 11:
			o.opts = append(o.opts, [2][]byte{code(dns.EDNS0COOKIE), append([]byte("c05cook1"), randBytes(rng, 8)...)},
				[2][]byte{code(dns.EDNS0COOKIE), randBytes(rng, 8)})
			tags = append(tags, "two-cookies")
		}
	}
	if hz(30) {
		o.rdlenAdj = []int{1, -1, 4, 300}[rng.IntN(4)]
		tags = append(tags, "rdlen-overrun")
	}
	if hz(30) {
		o.owner = [][]byte{{1, 'x', 0}, {0xC0, 12}, {3, 'o', 'p', 't', 0}}[rng.IntN(3)]
		tags = append(tags, "opt-owner")
	}
	return o, tags
}

// hostile question names (wire form)
func hostileName(rng *rand.Rand) ([]byte, string) {
	lab := func(n int, c byte) []byte { return append([]byte{byte(n)}, []byte(strings.Repeat(string(c), n))...) }
	switch rng.IntN(16) {
	case 0:
		return []byte{0}, "root"
	case 1:
		return append(lab(63, 'a'), wireName(zoneU)...), "label63"
	case 2:
		return append(lab(64, 'a'), wireName(zoneU)...), "label64"
	case 3:
		// 255 octets in total: 3*(1+62) + (1+61) + 1... built exactly
		n := append(append(append(lab(62, 'a'), lab(62, 'b')...), lab(62, 'c')...), lab(58, 'd')...)
		n = append(n, wireName("c05.")...)
		return n, fmt.Sprintf("name%d", len(n))
	case 4:
		n := append(append(append(lab(62, 'a'), lab(62, 'b')...), lab(62, 'c')...), lab(59, 'd')...)
		n = append(n, wireName("c05.")...)
		return n, fmt.Sprintf("name%d", len(n))
	case 5:
		return append([]byte{7, 'a', '.', 'b', '\\', 'c', ' ', 'd'}, wireName(zoneU)...), "escapes"
	case 6:
		return append([]byte{5, 0x00, 0x01, 0xff, 0xC3, 0x89}, wireName(zoneU)...), "binary-label"
	case 7:
		return append([]byte{4, 'P', 0xD6, 's', '-'}, wireName("1."+zoneU)...), "high-bit-case"
	case 8:
		return append([]byte{3, 'a', '"', ';'}, wireName("hosts.c05.")...), "quote-label"
	case 9:
		return []byte{3, 'w', 'w', 'w', 0xC0, 12}, "compressed-self"
	case 10:
		return []byte{3, 'w', 'w', 'w', 0xC0, 0xFF}, "compressed-forward"
	case 11:
		return []byte{5, 'a', 'b'}, "truncated-label"
	case 12:
		return []byte{2, '1', '.', 2, '1', '0', 7, 'i', 'n', '-', 'a', 'd', 'd', 'r', 4, 'a', 'r', 'p', 'a', 0}, "arpa-dot-label"
	case 13:
		return append([]byte{1, '*'}, wireName("wild.hosts.c05.")...), "star-label"
	case 14:
		return append([]byte{5, 'H', 'o', 'S', 't', '1'}, wireName("hosts.c05.")...), "hosts-case"
	default:
		return append([]byte{0x40, 'x'}, wireName(zoneU)...), "ext-label-type"
	}
}

// genPacket draws one query packet for a target.
func genPacket(rng *rand.Rand, t target, proto string) ([]byte, []string) {
	return genPacketShaped(rng, t, proto, false)
}

// genPacketShaped is genPacket; forceClean restricts the draw to packets the
// strict parser admits (used where the wire ladder itself is the subject).
func genPacketShaped(rng *rand.Rand, t target, proto string, forceClean bool) ([]byte, []string) {
	var tags []string
	clean := rng.IntN(100) < 55
	if forceClean {
		clean = true
	}
	hz := func(n int) bool { return !clean && rng.IntN(n) == 0 }
	if clean {
		tags = append(tags, "clean")
	}
	name := wireName(t.name)
	switch rng.IntN(6) {
	case 0:
		name = mutateCase(rng, name, 1)
		tags = append(tags, "upper")
	case 1, 2:
		name = mutateCase(rng, name, 2)
		tags = append(tags, "mixed-case")
	}
	qtype, qclass := t.qtype, t.class
	if qclass == 0 && t.state != "class" {
		qclass = dns.ClassINET
	}
	if hz(8) {
		var tag string
		name, tag = hostileName(rng)
		tags = append(tags, "name:"+tag)
	}

	// header
	flags := uint16(0x0100) // RD
	if hz(8) {
		flags &^= 0x0100
		tags = append(tags, "rd0")
	}
	switch {
	case t.wantCD:
		flags |= 0x0010
	case t.noCD:
		if rng.IntN(8) == 0 {
			flags |= 0x0010
		}
	case rng.IntN(4) == 0:
		flags |= 0x0010
	}
	if flags&0x0010 != 0 {
		tags = append(tags, "cd")
	}
	if rng.IntN(4) == 0 {
		flags |= 0x0020
		tags = append(tags, "ad")
	}
	if hz(10) {
		flags |= 0x0040
		tags = append(tags, "z")
	}
	if hz(12) {
		bits := []uint16{0x0400, 0x0200, 0x0080}
		names := []string{"aa", "tc", "ra"}
		b := rng.IntN(3)
		flags |= bits[b]
		tags = append(tags, names[b])
	}
	if hz(25) {
		flags |= uint16(1+rng.IntN(15)) << 11
		tags = append(tags, "opcode")
	}
	if hz(40) {
		flags |= 0x8000
		tags = append(tags, "qr")
	}
	if hz(25) {
		flags |= uint16(1 + rng.IntN(15))
		tags = append(tags, "rcode-in-query")
	}
	if hz(40) {
		flags = uint16(rng.IntN(65536))
		tags = append(tags, "flags-random")
	}

	pkt := make([]byte, 12, 512)
	binary.BigEndian.PutUint16(pkt[0:], uint16(rng.IntN(65536)))
	binary.BigEndian.PutUint16(pkt[2:], flags)
	qd, an, ns, ar := 1, 0, 0, 0
	pkt = append(pkt, name...)
	pkt = binary.BigEndian.AppendUint16(pkt, qtype)
	pkt = binary.BigEndian.AppendUint16(pkt, qclass)
	if hz(30) {
		// a second question
		pkt = append(pkt, wireName("second."+zoneU)...)
		pkt = binary.BigEndian.AppendUint16(pkt, dns.TypeA)
		pkt = binary.BigEndian.AppendUint16(pkt, dns.ClassINET)
		qd = 2
		tags = append(tags, "two-questions")
	}
	if hz(30) {
		// an answer / authority record in the query
		rr := append(wireName("x."+zoneU), 0, 1, 0, 1, 0, 0, 0, 60, 0, 4, 10, 0, 0, 1)
		pkt = append(pkt, rr...)
		if rng.IntN(2) == 0 {
			an = 1
			tags = append(tags, "answer-in-query")
		} else {
			ns = 1
			tags = append(tags, "authority-in-query")
		}
	}
	// OPT
	switch x := rng.IntN(100); {
	case x < 22:
		tags = append(tags, "no-opt")
		if t.wantECS {
			o, ot := genOPT(rng, t, proto, clean)
			pkt = append(pkt, o.bytes()...)
			ar++
			tags = append(tags[:len(tags)-1], ot...)
		}
	default:
		o, ot := genOPT(rng, t, proto, clean)
		pkt = append(pkt, o.bytes()...)
		ar++
		tags = append(tags, "opt")
		tags = append(tags, ot...)
		if hz(25) {
			o2, _ := genOPT(rng, t, proto, clean)
			pkt = append(pkt, o2.bytes()...)
			ar++
			tags = append(tags, "two-opts")
		}
	}
	if hz(25) {
		// a non-OPT additional record (before or after)
		rr := append(wireName("extra."+zoneU), 0, 16, 0, 1, 0, 0, 0, 1, 0, 3, 2, 'h', 'i')
		pkt = append(pkt, rr...)
		ar++
		tags = append(tags, "additional-rr")
	}
	if hz(25) {
		pkt = append(pkt, randBytes(rng, 1+rng.IntN(6))...)
		tags = append(tags, "trailing")
	}
	if hz(20) {
		// lying count fields
		switch rng.IntN(5) {
		case 0:
			qd = 0
		case 1:
			qd = 2
		case 2:
			an++
		case 3:
			ns++
		default:
			ar += 1 + rng.IntN(2)
		}
		tags = append(tags, "counts-lie")
	}
	binary.BigEndian.PutUint16(pkt[4:], uint16(qd))
	binary.BigEndian.PutUint16(pkt[6:], uint16(an))
	binary.BigEndian.PutUint16(pkt[8:], uint16(ns))
	binary.BigEndian.PutUint16(pkt[10:], uint16(ar))
	if hz(40) && len(pkt) > 13 {
		pkt = pkt[:12+rng.IntN(len(pkt)-12)]
		tags = append(tags, "cut-short")
	}
	return pkt, tags
}

func clientFor(rng *rand.Rand, i int) string {
	switch x := rng.IntN(20); {
	case x < 15:
		return fmt.Sprintf("203.0.113.%d:%d", 10+i%4, 1024+rng.IntN(60000))
	case x < 18:
		return fmt.Sprintf("[2001:db8:c05::%x]:%d", 1+i%2, 1024+rng.IntN(60000))
	case x < 19:
		return fmt.Sprintf("[::ffff:198.51.100.%d]:%d", 1+i%200, 1024+rng.IntN(60000))
	default:
		return fmt.Sprintf("127.0.0.1:%d", 1024+rng.IntN(60000))
	}
}

// Cookie labels of a session's client (fixed 8-octet client cookies).
var sessClientCookies = []string{"c05c11e47a000001", "c05c11e47b000002", "c05c11e47c000003"}

// sessionQuestions are the questions session steps draw from: cached state,
// misses (inline handoff + replay) and local data.
func sessionQuestions(pool []target) []target {
	var out []target
	for _, t := range pool {
		if t.class != 0 || t.wantECS {
			continue
		}
		switch t.state {
		case "positive", "nodata", "nxdomain", "chain-full", "chain-chased", "chain-mixed", "chain-mixed-hop", "miss", "signed", "ad", "hosts", "failure", "cut":
			out = append(out, t)
		}
	}
	return out
}

// genSession draws one client conversation. The limiter is keyed by source
// address, so every session has an address of its own (non-loopback: loopback
// is exempt from the client limiter) and starts with a full bucket.
func genSession(rng *rand.Rand, conf ConfSpec, pool []target, si int) Session {
	qs := sessionQuestions(pool)
	ss := Session{Client: fmt.Sprintf("192.0.2.%d", 20+si)}
	if rng.IntN(4) == 0 {
		ss.Client = fmt.Sprintf("2001:db8:5e55::%x", 1+si)
	}
	cur := rng.IntN(len(sessClientCookies))
	base := func() SessStep {
		t := qs[rng.IntN(len(qs))]
		st := SessStep{Proto: "udp", Port: 1024 + rng.IntN(60000), ID: uint16(rng.IntN(65536)), Name: t.name, Qtype: t.qtype,
			DO: rng.IntN(2) == 0, CD: rng.IntN(7) == 0, AD: rng.IntN(7) == 0, NSID: rng.IntN(6) == 0, Target: t.state}
		if rng.IntN(5) == 0 {
			st.Case = 1
		}
		return st
	}
	junk := func(n int) string { return hex.EncodeToString(randBytes(rng, n)) }
	cookieStep := func(k int) SessStep {
		st := base()
		if rng.IntN(100) < 35 {
			st.Proto = "tcp"
		}
		if rng.IntN(10) < 4 {
			cur = (cur + 1 + rng.IntN(len(sessClientCookies)-1)) % len(sessClientCookies)
		}
		st.CC = sessClientCookies[cur]
		st.Ref = k - 1
		switch x := rng.IntN(100); {
		case x < 38 && k > 0:
			st.Cookie = "echo"
			st.Kind = "echo-last"
		case x < 48 && k > 1:
			st.Cookie = "echo"
			st.Ref = rng.IntN(k - 1)
			st.Kind = "echo-earlier"
		case x < 68:
			st.Cookie = "cc"
			st.Kind = "cc"
		case x < 76:
			st.Cookie = "none"
			st.Kind = "none"
			if rng.IntN(3) == 0 {
				st.NoEDNS = true
				st.Kind = "noedns"
			}
		case x < 84 && k > 0:
			st.Cookie = "graft"
			st.Kind = "graft"
			if k > 1 && rng.IntN(2) == 0 {
				st.Ref = rng.IntN(k)
			}
		case x < 95:
			st.Cookie = "wrong"
			st.Junk = junk([]int{8, 16, 32, 32}[rng.IntN(4)])
			st.Kind = "wrong"
		default:
			st.Cookie = "badlen"
			st.Junk = junk([]int{1, 3, 7, 33}[rng.IntN(4)])
			st.Kind = "badlen"
		}
		st.Kind = st.Proto + "." + st.Kind
		return st
	}
	n := 6 + rng.IntN(12)
	burstAt := -1
	if conf.ClientRate > 0 {
		burstAt = n/2 + rng.IntN(n-n/2+1)
	}
	k := 0
	for i := 0; i <= n; i++ {
		if i == burstAt {
			// a burst sized to the limiter: one shape, one question, repeated
			// until the bucket must be empty
			tmpl := base()
			tmpl.CC = sessClientCookies[cur]
			switch rng.IntN(4) {
			case 0, 1:
				tmpl.Cookie, tmpl.Kind = "none", "burst-none"
			case 2:
				tmpl.Cookie, tmpl.Kind = "cc", "burst-cc"
				tmpl.CC = sessClientCookies[(cur+1)%len(sessClientCookies)]
			default:
				tmpl.Cookie, tmpl.Kind, tmpl.Junk = "wrong", "burst-wrong", junk(32)
			}
			if rng.IntN(5) == 0 {
				tmpl.Proto = "tcp"
			}
			tmpl.Kind = tmpl.Proto + "." + tmpl.Kind
			for b := 0; b < conf.ClientRate+2+rng.IntN(3); b++ {
				st := tmpl
				st.ID = uint16(rng.IntN(65536))
				st.Port = 1024 + rng.IntN(60000)
				ss.Steps = append(ss.Steps, st)
				k++
			}
		}
		if i == n {
			break
		}
		ss.Steps = append(ss.Steps, cookieStep(k))
		k++
	}
	return ss
}

// genGroup draws one complete group. yrng (may be nil) is a third stream for the
// rich-terminal alias chains, the depth block and their dedicated packets (the
// draws of the other two streams stay what they were). xrng (may be nil) is a second stream for
// the mixed alias chains, their dedicated packets and the client sessions.
func genGroup(rng, xrng, yrng *rand.Rand, index int, seed uint64, npkts int) *Group {
	g := &Group{Index: index, Seed: seed}
	g.Conf = confs[index%len(confs)]
	if (index/len(confs))%2 == 0 {
		g.Proto = "udp"
	} else {
		g.Proto = "tcp"
	}
	hist, pool := genHistoryMixed(rng, xrng, yrng, g.Conf)
	g.History = hist
	// local-data targets only make sense where the data is configured; keep
	// them everywhere anyway (they are plain misses elsewhere) but sample
	// state targets twice as often.
	var stateful, other, mixed, rich, deep []target
	for _, t := range pool {
		switch t.state {
		case "hosts", "as112", "chaos", "class", "miss", "root", "unknown-type", "meta-type":
			other = append(other, t)
		default:
			stateful = append(stateful, t)
		}
		switch t.state {
		case "chain-mixed":
			mixed = append(mixed, t)
		case "chain-rich":
			rich = append(rich, t)
		case "failure-denied-later", "failure-denied-by-replacement", "failure-witness-depth", "failure-witness-replaced":
			deep = append(deep, t)
		}
	}
	for i := 0; i < npkts; i++ {
		var t target
		if rng.IntN(10) < 7 {
			t = stateful[rng.IntN(len(stateful))]
		} else {
			t = other[rng.IntN(len(other))]
		}
		pkt, tags := genPacket(rng, t, g.Proto)
		g.Pkts = append(g.Pkts, Pkt{Hex: hex.EncodeToString(pkt), Client: clientFor(rng, i), Target: t.state, Shape: strings.Join(tags, ","), Note: t.note})
	}
	if xrng == nil {
		return g
	}
	// packets the strict parser admits, aimed at the heads of the mixed chains
	// (the wire composer has to serve them for the chains to be judged)
	nmixed := 2
	if g.Conf.Prefetch > 0 {
		// (every chase through the decoded entry costs a full quiescence wait
		// where prefetch workers exist)
		nmixed = 1
	}
	for i := 0; i < nmixed && len(mixed) > 0; i++ {
		t := mixed[xrng.IntN(len(mixed))]
		pkt, tags := genPacketShaped(xrng, t, g.Proto, true)
		g.Pkts = append(g.Pkts, Pkt{Hex: hex.EncodeToString(pkt), Client: clientFor(xrng, npkts+i), Target: t.state, Shape: strings.Join(tags, ",")})
	}
	// likewise for the rich-terminal alias chains and the depth block
	for _, set := range [][]target{rich, deep} {
		for i := 0; yrng != nil && i < nmixed && len(set) > 0; i++ {
			t := set[yrng.IntN(len(set))]
			pkt, tags := genPacketShaped(yrng, t, g.Proto, true)
			g.Pkts = append(g.Pkts, Pkt{Hex: hex.EncodeToString(pkt), Client: clientFor(yrng, len(g.Pkts)), Target: t.state, Shape: strings.Join(tags, ","), Note: t.note})
		}
	}
	if g.Conf.Cookie != "" {
		ns := 1
		if g.Conf.ClientRate > 0 {
			ns = 2
		}
		for si := 0; si < ns; si++ {
			g.Sessions = append(g.Sessions, genSession(xrng, g.Conf, pool, si))
		}
	}
	return g
}
