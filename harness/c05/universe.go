package main

// The scripted upstream ("universe"): the stub answers PURELY by question
// (lower-cased name, type, class) and, for the mixed-chain families only, by
// the per-question invocation ordinal (StubRequest.Nth), so that any admission
// history replays exactly in every world. The first label of the name selects the behaviour
// (family), the rest only makes names distinct:
//
//	<fam>-<id>.u.c05.   unsigned zone
//	<fam>-<id>.s.c05.   NSEC-signed zone (fake signatures; provenance is the
//	                    stub's validated-negative mark, as a validating
//	                    resolver would attach)
//	<fam>-<id>.zf.c05.  signed zone used for zone-kind failure state
//
// Families: see universe. The mixed-chain families carry their whole script
// in the name:
//
//	mt-<spec>-<id>          terminal owner
//	mc-<spec>-<rest>        alias whose target is <rest> (another mc-… or an mt-…)
//
// <spec> is a string of hex digits, one per upstream invocation for that
// question (the last digit repeats): bit 0 = AD asserted, bit 1 = RRset comes
// with an RRSIG, bit 2 = the reply carries an Extended DNS Error, bit 3 = short
// TTL (60 s instead of 300 s). Re-admitting one hop of a chain (after expiry or
// a purge) therefore yields a hop whose header bits, signatures, EDE and age
// differ from its neighbours'. Terminal markers embed the ordinal, so a reply
// shows which admission each hop came from.

import (
	"context"
	"encoding/base64"
	"fmt"
	"strings"

	"github.com/miekg/dns"

	"github.com/semihalev/sdns/middleware"
	"github.com/semihalev/sdns/zzverif/stack"
)

const (
	zoneU  = "u.c05."
	zoneS  = "s.c05."
	zoneZF = "zf.c05."
	// signed zones whose apex sits at other depths of the tree (the suffix
	// walks of the wire ladder visit every ancestor of a question down to the
	// root): the root zone itself, a top-level domain, a two-label and a four-label apex
	zoneRoot = "."
	zoneD1   = "d1c05."
	zoneD2   = "d2.c05."
	zoneD4   = "w.x.d.c05."
	posTTL   = 300
	// fixed absolute signature validity window: deterministic in every world
	sigInception  = 1767225600 // 2026-01-01
	sigExpiration = 2082758400 // 2036-01-01
)

// 64 octets, like an ECDSA P-256 signature
var fakeSignature = base64.StdEncoding.EncodeToString([]byte("c05-fake-signature-c05-fake-signature-c05-fake-signature-c05-fak"))

func mustRR(s string) dns.RR {
	rr, err := dns.NewRR(s)
	if err != nil {
		panic(fmt.Sprintf("universe: bad RR %q: %v", s, err))
	}
	return rr
}

// under returns label(s) + zone (the root zone has no label of its own).
func under(label, zone string) string {
	if zone == "." {
		return label + "."
	}
	return label + "." + zone
}

// depthZones are the signed zones by apex depth (0, 1, 2, 4 labels).
var depthZones = []string{zoneRoot, zoneD1, zoneD2, zoneD4}

// rootFamilies are the families the universe serves directly under the root
// (first label of a top-level name); every other name outside the universe's
// zones keeps the plain "outside" behaviour.
var rootFamilies = map[string]bool{"nxs": true, "nys": true, "nxsf": true, "nysf": true, "nds": true, "fail": true}

func soaFor(zone string) dns.RR {
	return mustRR(fmt.Sprintf("%s 300 IN SOA %s %s 2026092501 7200 900 1209600 300", zone, under("ns", zone), under("hostmaster", zone)))
}

// fakeSig builds an RRSIG covering rr's RRset (signatures are never verified
// by the cache; provenance comes from the stub's mark).
func fakeSig(rr dns.RR, zone string) dns.RR {
	h := rr.Header()
	sig := &dns.RRSIG{
		Hdr:         dns.RR_Header{Name: h.Name, Rrtype: dns.TypeRRSIG, Class: h.Class, Ttl: h.Ttl},
		TypeCovered: h.Rrtype,
		Algorithm:   dns.ECDSAP256SHA256,
		Labels:      uint8(dns.CountLabel(h.Name)),
		OrigTtl:     h.Ttl,
		Expiration:  sigExpiration,
		Inception:   sigInception,
		KeyTag:      4242,
		SignerName:  zone,
		Signature:   fakeSignature,
	}
	if strings.HasPrefix(h.Name, "*.") {
		sig.Labels--
	}
	return sig
}

func nsecRR(owner, next string, types ...uint16) dns.RR {
	return &dns.NSEC{
		Hdr:        dns.RR_Header{Name: owner, Rrtype: dns.TypeNSEC, Class: dns.ClassINET, Ttl: 300},
		NextDomain: next,
		TypeBitMap: types,
	}
}

// splitName returns family, the first label and the zone of a lower-cased
// name ("" zone when the name is not inside one of the universe's zones).
func splitName(lname string) (fam, first, zone string) {
	for _, z := range []string{zoneU, zoneS, zoneZF, zoneD1, zoneD2, zoneD4} {
		if lname == z {
			return "apex", "", z
		}
		if strings.HasSuffix(lname, "."+z) {
			zone = z
			break
		}
	}
	if zone == "" {
		// the root zone: only top-level labels of the root families
		all := dns.SplitDomainName(lname)
		if len(all) == 0 {
			return "", "", ""
		}
		tld := all[len(all)-1]
		i := strings.IndexByte(tld, '-')
		if i < 0 || !rootFamilies[tld[:i]] {
			return "", "", ""
		}
		zone = zoneRoot
	}
	rest := strings.TrimSuffix(lname, "."+zone)
	if zone == zoneRoot {
		rest = strings.TrimSuffix(lname, ".")
	}
	labels := dns.SplitDomainName(rest + ".")
	if len(labels) == 0 {
		return "", "", zone
	}
	first = labels[len(labels)-1] // the label directly under the zone apex
	fam = first
	if i := strings.IndexByte(first, '-'); i >= 0 {
		fam = first[:i]
	}
	if len(labels) > 1 {
		// names below a family label (sub.nxs-1.s.c05.) inherit the family of
		// the label under the apex, marked as descendants
		fam = "sub:" + fam
	}
	return fam, first, zone
}

func withOPT(m *dns.Msg, req *stack.StubRequest) {
	if req.OPT != nil {
		m.Extra = append(m.Extra, dns.Copy(req.OPT))
	}
}

// terminal builds the terminal RRset for pos-like owners.
func terminal(owner string, qtype uint16, zone string) []dns.RR {
	switch qtype {
	case dns.TypeA, dns.TypeAAAA, dns.TypeTXT:
		return []dns.RR{stack.MarkerRR(1, owner, qtype, posTTL)}
	case dns.TypeMX:
		return []dns.RR{
			mustRR(fmt.Sprintf("%s 300 IN MX 10 mx1.%s", owner, zone)),
			mustRR(fmt.Sprintf("%s 300 IN MX 20 mx2.%s", owner, zone)),
		}
	case dns.TypeNS:
		return []dns.RR{mustRR(fmt.Sprintf("%s 300 IN NS ns.%s", owner, zone))}
	}
	return nil
}

// richTypes are the question types the rich terminal (family rs) answers.
var richTypes = []uint16{dns.TypeA, dns.TypeNS, dns.TypeSOA, dns.TypePTR, dns.TypeHINFO, dns.TypeMX, dns.TypeTXT, dns.TypeRP, dns.TypeAFSDB,
	dns.TypeAAAA, dns.TypeSRV, dns.TypeNAPTR, dns.TypeKX, dns.TypeDNAME, dns.TypeDS, dns.TypeSSHFP, dns.TypeNSEC, dns.TypeDNSKEY, dns.TypeTLSA,
	dns.TypeSVCB, dns.TypeHTTPS, dns.TypeCAA, dns.TypeMB, dns.TypeMG, dns.TypeMR, dns.TypeMF, dns.TypeMD, dns.TypeMINFO, dns.TypeNSAPPTR, dns.TypeURI, dns.TypeLOC}

// richSet builds the terminal RRset of a rich owner: at least two records per
// type where the type allows it; every domain name inside rdata either ends
// in the owner / the zone (a packer may compress it against the owner or the
// question) or shares a forward-tree suffix with the name of a sibling record
// (a packer may compress the second against the first).
func richSet(owner string, qtype uint16, zone, id string) []dns.RR {
	fwd := "cust-" + id + ".example.net."
	var out []dns.RR
	add := func(rdata ...string) {
		for _, rd := range rdata {
			out = append(out, mustRR(fmt.Sprintf("%s %d IN %s %s", owner, posTTL, dns.TypeToString[qtype], rd)))
		}
	}
	switch qtype {
	case dns.TypeA, dns.TypeAAAA, dns.TypeTXT:
		out = []dns.RR{stack.MarkerRR(9, owner, qtype, posTTL), stack.MarkerRR(10, owner, qtype, posTTL)}
	case dns.TypePTR, dns.TypeNS, dns.TypeMB, dns.TypeMG, dns.TypeMR, dns.TypeMF, dns.TypeMD, dns.TypeNSAPPTR:
		add("host."+fwd, "www."+fwd, "ptr."+owner)
	case dns.TypeDNAME:
		add("dn." + fwd)
	case dns.TypeMX, dns.TypeKX, dns.TypeAFSDB:
		add("10 mx1."+fwd, "20 mx2."+fwd, "30 mx."+owner)
	case dns.TypeRP, dns.TypeMINFO:
		add("box."+fwd+" txt."+fwd, "box."+owner+" "+under("txt", zone))
	case dns.TypeSRV:
		add("0 5 5060 sip1."+fwd, "0 5 5061 sip2."+fwd, "1 1 5060 sip."+owner)
	case dns.TypeNAPTR:
		add(`100 10 "S" "SIP+D2U" "" _sip._udp.`+fwd, `100 20 "S" "SIP+D2T" "" _sip._tcp.`+fwd)
	case dns.TypeSOA:
		add(fmt.Sprintf("ns.%s hostmaster.%s 2026092502 7200 900 1209600 300", fwd, owner))
	case dns.TypeHINFO:
		add(`"c05" "verif"`)
	case dns.TypeDS:
		add("4242 13 2 "+strings.Repeat("ab", 32), "4243 13 2 "+strings.Repeat("cd", 32))
	case dns.TypeSSHFP:
		add("4 2 "+strings.Repeat("12", 32), "1 2 "+strings.Repeat("34", 32))
	case dns.TypeTLSA:
		add("3 1 1 "+strings.Repeat("56", 32), "2 1 1 "+strings.Repeat("78", 32))
	case dns.TypeDNSKEY:
		add("257 3 13 "+fakeSignature, "256 3 13 "+fakeSignature)
	case dns.TypeNSEC:
		out = []dns.RR{nsecRR(owner, "z."+owner, richTypes...)}
	case dns.TypeSVCB, dns.TypeHTTPS:
		add("1 svc1."+fwd+" alpn=h2 port=8443", "2 svc2."+fwd+" alpn=h3", "0 alt."+owner)
	case dns.TypeCAA:
		add(`0 issue "ca.example.net"`, `128 iodef "mailto:sec@example.net"`)
	case dns.TypeURI:
		add(`10 1 "https://`+fwd+`/a"`, `10 2 "https://`+fwd+`/b"`)
	case dns.TypeLOC:
		add("52 22 23.000 N 4 53 32.000 E -2.00m 0.00m 10000m 10m")
	}
	return out
}

func negative(m *dns.Msg, zone string, rcode int) {
	m.Rcode = rcode
	m.Ns = append(m.Ns, soaFor(zone))
}

// cname builds an alias; the TTL depends on the owner's family so the hops
// of a chain age differently (a composed reply carries per-hop TTLs).
func cname(owner, target string) dns.RR {
	ttl := uint32(posTTL)
	switch {
	case strings.HasPrefix(owner, "cna-"):
		ttl = 120
	case strings.HasPrefix(owner, "cnb-"):
		ttl = 180
	case strings.HasPrefix(owner, "cnp-"), strings.HasPrefix(owner, "sigc-"):
		ttl = 240
	case strings.HasPrefix(owner, "cnq-"):
		ttl = 200
	case strings.HasPrefix(owner, "cnr-"):
		ttl = 150
	}
	return &dns.CNAME{Hdr: dns.RR_Header{Name: owner, Rrtype: dns.TypeCNAME, Class: dns.ClassINET, Ttl: ttl}, Target: target}
}

// signedNegative fills a signed NXDOMAIN / NODATA authority section.
func signedNegative(m *dns.Msg, zone string, rcode int, proofs ...dns.RR) {
	m.Rcode = rcode
	m.AuthenticatedData = true
	soa := soaFor(zone)
	m.Ns = append(m.Ns, soa, fakeSig(soa, zone))
	for _, p := range proofs {
		m.Ns = append(m.Ns, p, fakeSig(p, zone))
	}
}

// mixedAttr is the attribute nibble of a mixed-chain owner for one invocation.
type mixedAttr struct{ ad, signed, ede, short bool }

func (a mixedAttr) ttl() uint32 {
	if a.short {
		return 60
	}
	return posTTL
}

// mixedAttrs decodes spec for the nth (1-based) invocation.
func mixedAttrs(spec string, nth int) (mixedAttr, bool) {
	if spec == "" {
		return mixedAttr{}, false
	}
	i := nth - 1
	if i < 0 {
		i = 0
	}
	if i >= len(spec) {
		i = len(spec) - 1
	}
	c := spec[i]
	var v int
	switch {
	case c >= '0' && c <= '9':
		v = int(c - '0')
	case c >= 'a' && c <= 'f':
		v = int(c-'a') + 10
	default:
		return mixedAttr{}, false
	}
	return mixedAttr{ad: v&1 != 0, signed: v&2 != 0, ede: v&4 != 0, short: v&8 != 0}, true
}

// mixedSplit splits "<spec>-<rest>" (what follows the family prefix).
func mixedSplit(id string) (spec, rest string) {
	if i := strings.IndexByte(id, '-'); i >= 0 {
		return id[:i], id[i+1:]
	}
	return id, ""
}

func apexNSEC(zone string) dns.RR {
	return nsecRR(zone, under("a", zone), dns.TypeNS, dns.TypeSOA, dns.TypeRRSIG, dns.TypeNSEC, dns.TypeDNSKEY)
}

// universe is the StubFunc.
func universe(_ context.Context, req *stack.StubRequest) *stack.StubReply {
	q := req.Q
	lname := strings.ToLower(q.Name)
	m := new(dns.Msg)
	rep := &stack.StubReply{Msg: m}
	defer withOPT(m, req)

	if q.Qclass != dns.ClassINET {
		m.Rcode = dns.RcodeRefused
		return rep
	}
	fam, first, zone := splitName(lname)
	if zone == "" {
		// outside the universe: plain marker answers, NODATA otherwise
		if rr := stack.MarkerRR(2, lname, q.Qtype, posTTL); rr != nil {
			m.Answer = []dns.RR{rr}
		}
		return rep
	}
	id := strings.TrimPrefix(first, strings.TrimPrefix(fam, "sub:")+"-")
	sibling := func(f string) string { return under(f+"-"+id, zone) }
	signed := zone != zoneU

	switch fam {
	case "apex":
		switch q.Qtype {
		case dns.TypeSOA:
			m.Answer = []dns.RR{soaFor(zone)}
		case dns.TypeNS:
			m.Answer = terminal(zone, dns.TypeNS, zone)
		default:
			negative(m, zone, dns.RcodeSuccess)
		}

	case "pos", "mx1", "mx2", "ns":
		if rrs := terminal(lname, q.Qtype, zone); rrs != nil {
			m.Answer = rrs
		} else {
			negative(m, zone, dns.RcodeSuccess)
		}

	case "cna", "cnb", "cmx":
		// full chain as a real resolver returns it: cna -> cnb -> pos
		chain := []dns.RR{}
		cur := lname
		for _, nxt := range map[string][]string{
			"cna": {sibling("cnb"), sibling("pos")},
			"cnb": {sibling("pos")},
			"cmx": {sibling("pos")},
		}[fam] {
			chain = append(chain, cname(cur, nxt))
			cur = nxt
		}
		if q.Qtype == dns.TypeCNAME {
			m.Answer = chain[:1]
			break
		}
		m.Answer = chain
		if rrs := terminal(cur, q.Qtype, zone); rrs != nil {
			m.Answer = append(m.Answer, rrs...)
		} else {
			negative(m, zone, dns.RcodeSuccess)
		}

	case "cnp":
		// partial: the alias only; the cache chases the target itself
		m.Answer = []dns.RR{cname(lname, sibling("pos"))}

	case "cnq", "cnr":
		// bare aliases in front of a rich terminal: cnr -> cnq -> rs. The
		// upstream answers every type with the alias only, so the alias and the
		// terminal RRset of each asked type are cached as separate entries
		nxt := sibling("rs")
		if fam == "cnr" {
			nxt = sibling("cnq")
		}
		c := cname(lname, nxt)
		m.Answer = []dns.RR{c}
		if signed {
			m.AuthenticatedData = true
			m.Answer = append(m.Answer, fakeSig(c, zone))
		}

	case "rs":
		// rich terminal: an RRset of (almost) any type, several records each,
		// with rdata names that share suffixes with one another and with the owner
		rrs := richSet(lname, q.Qtype, zone, id)
		if rrs == nil {
			if signed {
				signedNegative(m, zone, dns.RcodeSuccess,
					nsecRR(lname, under("rs-"+id+"!", zone), richTypes...))
			} else {
				negative(m, zone, dns.RcodeSuccess)
			}
			break
		}
		m.Answer = rrs
		if signed {
			m.AuthenticatedData = true
			m.Answer = append(m.Answer, fakeSig(rrs[0], zone))
		}

	case "cnx":
		// alias to a non-existent name
		m.Answer = []dns.RR{cname(lname, sibling("nx"))}
		if q.Qtype != dns.TypeCNAME {
			negative(m, zone, dns.RcodeNameError)
		}

	case "loop":
		m.Answer = []dns.RR{cname(lname, lname)}

	case "nx", "sub:nx":
		negative(m, zone, dns.RcodeNameError)

	case "nod":
		negative(m, zone, dns.RcodeSuccess)

	case "ede":
		if rr := stack.MarkerRR(3, lname, q.Qtype, posTTL); rr != nil {
			m.Answer = []dns.RR{rr}
		} else {
			negative(m, zone, dns.RcodeSuccess)
		}
		rep.EDE = &dns.EDNS0_EDE{InfoCode: dns.ExtendedErrorCodeStaleAnswer, ExtraText: "c05 stale " + id}

	case "edn":
		negative(m, zone, dns.RcodeNameError)
		rep.EDE = &dns.EDNS0_EDE{InfoCode: dns.ExtendedErrorCodeDNSSECIndeterminate, ExtraText: ""}

	case "big":
		// > 1232 bytes, < 4096
		switch q.Qtype {
		case dns.TypeTXT:
			for i := 0; i < 8; i++ {
				m.Answer = append(m.Answer, &dns.TXT{
					Hdr: dns.RR_Header{Name: lname, Rrtype: dns.TypeTXT, Class: dns.ClassINET, Ttl: posTTL},
					Txt: []string{fmt.Sprintf("%02d-", i) + strings.Repeat("x", 240)},
				})
			}
		case dns.TypeA:
			for i := 0; i < 100; i++ {
				m.Answer = append(m.Answer, mustRR(fmt.Sprintf("%s 300 IN A 10.77.%d.%d", lname, i/200, 1+i%200)))
			}
		default:
			negative(m, zone, dns.RcodeSuccess)
		}

	case "huge":
		// > 4096 bytes (the UDP job's slab), fits a TCP frame
		if q.Qtype == dns.TypeTXT {
			for i := 0; i < 22; i++ {
				m.Answer = append(m.Answer, &dns.TXT{
					Hdr: dns.RR_Header{Name: lname, Rrtype: dns.TypeTXT, Class: dns.ClassINET, Ttl: posTTL},
					Txt: []string{fmt.Sprintf("%02d-", i) + strings.Repeat("y", 240)},
				})
			}
		} else {
			negative(m, zone, dns.RcodeSuccess)
		}

	case "fail", "sub:fail", "nxsf", "sub:nxsf", "nysf", "sub:nysf":
		// nxsf / nysf sort inside the NSEC ranges the nxs / nys families prove
		// empty: resolution fails for them now, a denial admitted later covers them
		m.Rcode = dns.RcodeServerFailure

	case "ref":
		m.Rcode = dns.RcodeRefused

	case "ecs":
		if rr := stack.MarkerRR(4, lname, q.Qtype, posTTL); rr != nil {
			m.Answer = []dns.RR{rr}
		} else {
			negative(m, zone, dns.RcodeSuccess)
		}
		rep.HasECSScope, rep.ECSScope = true, 24

	case "ad":
		// unsigned data with AD asserted by the upstream (forwarder style)
		if rr := stack.MarkerRR(5, lname, q.Qtype, posTTL); rr != nil {
			m.Answer = []dns.RR{rr}
		} else {
			negative(m, zone, dns.RcodeSuccess)
		}
		m.AuthenticatedData = true

	case "add":
		// answer with real additional-section records
		if q.Qtype == dns.TypeMX {
			m.Answer = []dns.RR{mustRR(fmt.Sprintf("%s 300 IN MX 10 mx1-%s.%s", lname, id, zone))}
			m.Extra = append(m.Extra, stack.MarkerRR(6, "mx1-"+id+"."+zone, dns.TypeA, posTTL))
		} else if rr := stack.MarkerRR(6, lname, q.Qtype, posTTL); rr != nil {
			m.Answer = []dns.RR{rr}
			m.Ns = []dns.RR{mustRR(fmt.Sprintf("%s 300 IN NS ns.%s", zone, zone))}
			m.Extra = append(m.Extra, stack.MarkerRR(6, "ns."+zone, dns.TypeA, posTTL))
		} else {
			negative(m, zone, dns.RcodeSuccess)
		}

	// ---------------- mixed chains (per-invocation attributes) ----------------
	case "mt":
		spec, _ := mixedSplit(id)
		at, ok := mixedAttrs(spec, req.Nth)
		if !ok {
			negative(m, zone, dns.RcodeNameError)
			break
		}
		m.AuthenticatedData = at.ad
		gen := uint32(req.Nth)
		if gen > 200 {
			gen = 200
		}
		if rr := stack.MarkerRR(100+gen, lname, q.Qtype, at.ttl()); rr != nil {
			m.Answer = []dns.RR{rr}
			if at.signed {
				m.Answer = append(m.Answer, fakeSig(rr, zone))
			}
		} else {
			negative(m, zone, dns.RcodeSuccess)
		}
		if at.ede {
			rep.EDE = &dns.EDNS0_EDE{InfoCode: dns.ExtendedErrorCodeStaleAnswer, ExtraText: fmt.Sprintf("c05 mt n%d", gen)}
		}

	case "mc":
		spec, rest := mixedSplit(id)
		at, ok := mixedAttrs(spec, req.Nth)
		if !ok || !(strings.HasPrefix(rest, "mc-") || strings.HasPrefix(rest, "mt-")) {
			negative(m, zone, dns.RcodeNameError)
			break
		}
		// the alias only: the cache chases the target itself, so every hop is
		// admitted (and later re-admitted) as an entry of its own
		m.AuthenticatedData = at.ad
		c := &dns.CNAME{Hdr: dns.RR_Header{Name: lname, Rrtype: dns.TypeCNAME, Class: dns.ClassINET, Ttl: at.ttl()}, Target: rest + "." + zone}
		m.Answer = []dns.RR{c}
		if at.signed {
			m.Answer = append(m.Answer, fakeSig(c, zone))
		}
		if at.ede {
			rep.EDE = &dns.EDNS0_EDE{InfoCode: dns.ExtendedErrorCodeDNSSECIndeterminate, ExtraText: fmt.Sprintf("c05 mc n%d", req.Nth)}
		}

	// ---------------- signed families ----------------
	case "sig":
		m.AuthenticatedData = signed
		switch q.Qtype {
		case dns.TypeA, dns.TypeAAAA, dns.TypeTXT:
			rr := stack.MarkerRR(7, lname, q.Qtype, posTTL)
			m.Answer = []dns.RR{rr, fakeSig(rr, zone)}
		case dns.TypeRRSIG:
			for _, t := range []uint16{dns.TypeA, dns.TypeTXT} {
				m.Answer = append(m.Answer, fakeSig(stack.MarkerRR(7, lname, t, posTTL), zone))
			}
		default:
			n := nsecRR(lname, under("sig-"+id+"!", zone), dns.TypeA, dns.TypeTXT, dns.TypeAAAA, dns.TypeRRSIG, dns.TypeNSEC)
			signedNegative(m, zone, dns.RcodeSuccess, n)
		}

	case "sigc":
		// signed alias without terminal: DO=0 has no usable stripped body
		m.AuthenticatedData = signed
		c := cname(lname, sibling("sig"))
		m.Answer = []dns.RR{c, fakeSig(c, zone)}

	case "sigf":
		// signed alias + terminal (resolver-style full chain)
		m.AuthenticatedData = signed
		c := cname(lname, sibling("sig"))
		m.Answer = []dns.RR{c, fakeSig(c, zone)}
		if q.Qtype != dns.TypeCNAME {
			if rr := stack.MarkerRR(7, sibling("sig"), q.Qtype, posTTL); rr != nil {
				m.Answer = append(m.Answer, rr, fakeSig(rr, zone))
			}
		}

	case "nxs", "sub:nxs", "nys", "sub:nys":
		// signed NXDOMAIN with validated-negative provenance: every name in
		// (nxr, nxt) — for the nys family (nya, nyz) — does not exist; the
		// wildcard is covered by the apex NSEC
		base := strings.TrimPrefix(fam, "sub:")
		denied := under(base+"-"+id, zone)
		if fam == base {
			denied = lname
		}
		lo, hi := "nxr", "nxt"
		if base == "nys" {
			lo, hi = "nya", "nyz"
		}
		signedNegative(m, zone, dns.RcodeNameError,
			nsecRR(under(lo, zone), under(hi, zone), dns.TypeA, dns.TypeRRSIG, dns.TypeNSEC),
			apexNSEC(zone))
		rep.Negative = &middleware.ValidatedNegativeProof{
			Subject: denied, Zone: zone, Kind: middleware.ValidatedNegativeProofNSEC, Aggressive: true,
		}

	case "nds":
		// signed NODATA (the name exists with TXT only)
		if q.Qtype == dns.TypeTXT {
			rr := stack.MarkerRR(8, lname, q.Qtype, posTTL)
			m.AuthenticatedData = true
			m.Answer = []dns.RR{rr, fakeSig(rr, zone)}
			break
		}
		signedNegative(m, zone, dns.RcodeSuccess,
			nsecRR(lname, under("nds-"+id+"!", zone), dns.TypeTXT, dns.TypeRRSIG, dns.TypeNSEC))
		rep.Negative = &middleware.ValidatedNegativeProof{
			Subject: lname, Zone: zone, Kind: middleware.ValidatedNegativeProofNSEC, Aggressive: true,
		}

	default:
		if signed {
			// anything else in a signed zone: unsigned-looking NXDOMAIN without
			// provenance (never admitted to shared denial state)
			negative(m, zone, dns.RcodeNameError)
		} else {
			negative(m, zone, dns.RcodeNameError)
		}
	}
	return rep
}
