package main

// The scripted upstream ("universe"): the stub answers PURELY by question
// (lower-cased name, type, class) and, for the mixed-chain families only, by
// the per-question invocation ordinal (StubRequest.Nth), so that any admission
// history replays exactly in every world. The first label of the name selects the behaviour
// (family), the rest only makes names distinct:
//
//	<fam>-<id>.u.c05.   unsigned zone
//	<fam>-<id>.s.c05.   NSEC-signed zone (fake signatures; provenance is the
//	                    stub's validated-negative mark, as a validating
//	                    resolver would attach)
//	<fam>-<id>.zf.c05.  signed zone used for zone-kind failure state
//
// Families: see universe. The mixed-chain families carry their whole script
// in the name:
//
//	mt-<spec>-<id>          terminal owner
//	mc-<spec>-<rest>        alias whose target is <rest> (another mc-… or an mt-…)
//
// <spec> is a string of hex digits, one per upstream invocation for that
// question (the last digit repeats): bit 0 = AD asserted, bit 1 = RRset comes
// with an RRSIG, bit 2 = the reply carries an Extended DNS Error, bit 3 = short
// TTL (60 s instead of 300 s). Re-admitting one hop of a chain (after expiry or
// a purge) therefore yields a hop whose header bits, signatures, EDE and age
// differ from its neighbours'. Terminal markers embed the ordinal, so a reply
// shows which admission each hop came from.

import (
	"context"
	"encoding/base64"
	"fmt"
	"strings"

	"github.com/miekg/dns"

	"github.com/semihalev/sdns/middleware"
	"github.com/semihalev/sdns/zzverif/stack"
)

const (
	zoneU  = "u.c05."
	zoneS  = "s.c05."
	zoneZF = "zf.c05."
	posTTL = 300
	// fixed absolute signature validity window: deterministic in every world
	sigInception  = 1767225600 // 2026-01-01
	sigExpiration = 2082758400 // 2036-01-01
)

// 64 octets, like an ECDSA P-256 signature
var fakeSignature = base64.StdEncoding.EncodeToString([]byte("c05-fake-signature-c05-fake-signature-c05-fake-signature-c05-fak"))

func mustRR(s string) dns.RR {
	rr, err := dns.NewRR(s)
	if err != nil {
		panic(fmt.Sprintf("universe: bad RR %q: %v", s, err))
	}
	return rr
}

func soaFor(zone string) dns.RR {
	return mustRR(fmt.Sprintf("%s 300 IN SOA ns.%s hostmaster.%s 2026092501 7200 900 1209600 300", zone, zone, zone))
}

// fakeSig builds an RRSIG covering rr's RRset (signatures are never verified
// by the cache; provenance comes from the stub's mark).
func fakeSig(rr dns.RR, zone string) dns.RR {
	h := rr.Header()
	sig := &dns.RRSIG{
		Hdr:         dns.RR_Header{Name: h.Name, Rrtype: dns.TypeRRSIG, Class: h.Class, Ttl: h.Ttl},
		TypeCovered: h.Rrtype,
		Algorithm:   dns.ECDSAP256SHA256,
		Labels:      uint8(dns.CountLabel(h.Name)),
		OrigTtl:     h.Ttl,
		Expiration:  sigExpiration,
		Inception:   sigInception,
		KeyTag:      4242,
		SignerName:  zone,
		Signature:   fakeSignature,
	}
	if strings.HasPrefix(h.Name, "*.") {
		sig.Labels--
	}
	return sig
}

func nsecRR(owner, next string, types ...uint16) dns.RR {
	return &dns.NSEC{
		Hdr:        dns.RR_Header{Name: owner, Rrtype: dns.TypeNSEC, Class: dns.ClassINET, Ttl: 300},
		NextDomain: next,
		TypeBitMap: types,
	}
}

// splitName returns family, the first label and the zone of a lower-cased
// name ("" zone when the name is not inside one of the universe's zones).
func splitName(lname string) (fam, first, zone string) {
	for _, z := range []string{zoneU, zoneS, zoneZF} {
		if lname == z {
			return "apex", "", z
		}
		if strings.HasSuffix(lname, "."+z) {
			zone = z
			break
		}
	}
	if zone == "" {
		return "", "", ""
	}
	rest := strings.TrimSuffix(lname, "."+zone)
	labels := dns.SplitDomainName(rest + ".")
	if len(labels) == 0 {
		return "", "", zone
	}
	first = labels[len(labels)-1] // the label directly under the zone apex
	fam = first
	if i := strings.IndexByte(first, '-'); i >= 0 {
		fam = first[:i]
	}
	if len(labels) > 1 {
		// names below a family label (sub.nxs-1.s.c05.) inherit the family of
		// the label under the apex, marked as descendants
		fam = "sub:" + fam
	}
	return fam, first, zone
}

func withOPT(m *dns.Msg, req *stack.StubRequest) {
	if req.OPT != nil {
		m.Extra = append(m.Extra, dns.Copy(req.OPT))
	}
}

// terminal builds the terminal RRset for pos-like owners.
func terminal(owner string, qtype uint16, zone string) []dns.RR {
	switch qtype {
	case dns.TypeA, dns.TypeAAAA, dns.TypeTXT:
		return []dns.RR{stack.MarkerRR(1, owner, qtype, posTTL)}
	case dns.TypeMX:
		return []dns.RR{
			mustRR(fmt.Sprintf("%s 300 IN MX 10 mx1.%s", owner, zone)),
			mustRR(fmt.Sprintf("%s 300 IN MX 20 mx2.%s", owner, zone)),
		}
	case dns.TypeNS:
		return []dns.RR{mustRR(fmt.Sprintf("%s 300 IN NS ns.%s", owner, zone))}
	}
	return nil
}

func negative(m *dns.Msg, zone string, rcode int) {
	m.Rcode = rcode
	m.Ns = append(m.Ns, soaFor(zone))
}

// cname builds an alias; the TTL depends on the owner's family so the hops
// of a chain age differently (a composed reply carries per-hop TTLs).
func cname(owner, target string) dns.RR {
	ttl := uint32(posTTL)
	switch {
	case strings.HasPrefix(owner, "cna-"):
		ttl = 120
	case strings.HasPrefix(owner, "cnb-"):
		ttl = 180
	case strings.HasPrefix(owner, "cnp-"), strings.HasPrefix(owner, "sigc-"):
		ttl = 240
	}
	return &dns.CNAME{Hdr: dns.RR_Header{Name: owner, Rrtype: dns.TypeCNAME, Class: dns.ClassINET, Ttl: ttl}, Target: target}
}

// signedNegative fills a signed NXDOMAIN / NODATA authority section.
func signedNegative(m *dns.Msg, zone string, rcode int, proofs ...dns.RR) {
	m.Rcode = rcode
	m.AuthenticatedData = true
	soa := soaFor(zone)
	m.Ns = append(m.Ns, soa, fakeSig(soa, zone))
	for _, p := range proofs {
		m.Ns = append(m.Ns, p, fakeSig(p, zone))
	}
}

// mixedAttr is the attribute nibble of a mixed-chain owner for one invocation.
type mixedAttr struct{ ad, signed, ede, short bool }

func (a mixedAttr) ttl() uint32 {
	if a.short {
		return 60
	}
	return posTTL
}

// mixedAttrs decodes spec for the nth (1-based) invocation.
func mixedAttrs(spec string, nth int) (mixedAttr, bool) {
	if spec == "" {
		return mixedAttr{}, false
	}
	i := nth - 1
	if i < 0 {
		i = 0
	}
	if i >= len(spec) {
		i = len(spec) - 1
	}
	c := spec[i]
	var v int
	switch {
	case c >= '0' && c <= '9':
		v = int(c - '0')
	case c >= 'a' && c <= 'f':
		v = int(c-'a') + 10
	default:
		return mixedAttr{}, false
	}
	return mixedAttr{ad: v&1 != 0, signed: v&2 != 0, ede: v&4 != 0, short: v&8 != 0}, true
}

// mixedSplit splits "<spec>-<rest>" (what follows the family prefix).
func mixedSplit(id string) (spec, rest string) {
	if i := strings.IndexByte(id, '-'); i >= 0 {
		return id[:i], id[i+1:]
	}
	return id, ""
}

func apexNSEC(zone string) dns.RR {
	return nsecRR(zone, "a."+zone, dns.TypeNS, dns.TypeSOA, dns.TypeRRSIG, dns.TypeNSEC, dns.TypeDNSKEY)
}

// universe is the StubFunc.
func universe(_ context.Context, req *stack.StubRequest) *stack.StubReply {
	q := req.Q
	lname := strings.ToLower(q.Name)
	m := new(dns.Msg)
	rep := &stack.StubReply{Msg: m}
	defer withOPT(m, req)

	if q.Qclass != dns.ClassINET {
		m.Rcode = dns.RcodeRefused
		return rep
	}
	fam, first, zone := splitName(lname)
	if zone == "" {
		// outside the universe: plain marker answers, NODATA otherwise
		if rr := stack.MarkerRR(2, lname, q.Qtype, posTTL); rr != nil {
			m.Answer = []dns.RR{rr}
		}
		return rep
	}
	id := strings.TrimPrefix(first, strings.TrimPrefix(fam, "sub:")+"-")
	sibling := func(f string) string { return f + "-" + id + "." + zone }
	signed := zone != zoneU

	switch fam {
	case "apex":
		switch q.Qtype {
		case dns.TypeSOA:
			m.Answer = []dns.RR{soaFor(zone)}
		case dns.TypeNS:
			m.Answer = terminal(zone, dns.TypeNS, zone)
		default:
			negative(m, zone, dns.RcodeSuccess)
		}

	case "pos", "mx1", "mx2", "ns":
		if rrs := terminal(lname, q.Qtype, zone); rrs != nil {
			m.Answer = rrs
		} else {
			negative(m, zone, dns.RcodeSuccess)
		}

	case "cna", "cnb", "cmx":
		// full chain as a real resolver returns it: cna -> cnb -> pos
		chain := []dns.RR{}
		cur := lname
		for _, nxt := range map[string][]string{
			"cna": {sibling("cnb"), sibling("pos")},
			"cnb": {sibling("pos")},
			"cmx": {sibling("pos")},
		}[fam] {
			chain = append(chain, cname(cur, nxt))
			cur = nxt
		}
		if q.Qtype == dns.TypeCNAME {
			m.Answer = chain[:1]
			break
		}
		m.Answer = chain
		if rrs := terminal(cur, q.Qtype, zone); rrs != nil {
			m.Answer = append(m.Answer, rrs...)
		} else {
			negative(m, zone, dns.RcodeSuccess)
		}

	case "cnp":
		// partial: the alias only; the cache chases the target itself
		m.Answer = []dns.RR{cname(lname, sibling("pos"))}

	case "cnx":
		// alias to a non-existent name
		m.Answer = []dns.RR{cname(lname, sibling("nx"))}
		if q.Qtype != dns.TypeCNAME {
			negative(m, zone, dns.RcodeNameError)
		}

	case "loop":
		m.Answer = []dns.RR{cname(lname, lname)}

	case "nx", "sub:nx":
		negative(m, zone, dns.RcodeNameError)

	case "nod":
		negative(m, zone, dns.RcodeSuccess)

	case "ede":
		if rr := stack.MarkerRR(3, lname, q.Qtype, posTTL); rr != nil {
			m.Answer = []dns.RR{rr}
		} else {
			negative(m, zone, dns.RcodeSuccess)
		}
		rep.EDE = &dns.EDNS0_EDE{InfoCode: dns.ExtendedErrorCodeStaleAnswer, ExtraText: "c05 stale " + id}

	case "edn":
		negative(m, zone, dns.RcodeNameError)
		rep.EDE = &dns.EDNS0_EDE{InfoCode: dns.ExtendedErrorCodeDNSSECIndeterminate, ExtraText: ""}

	case "big":
		// > 1232 bytes, < 4096
		switch q.Qtype {
		case dns.TypeTXT:
			for i := 0; i < 8; i++ {
				m.Answer = append(m.Answer, &dns.TXT{
					Hdr: dns.RR_Header{Name: lname, Rrtype: dns.TypeTXT, Class: dns.ClassINET, Ttl: posTTL},
					Txt: []string{fmt.Sprintf("%02d-", i) + strings.Repeat("x", 240)},
				})
			}
		case dns.TypeA:
			for i := 0; i < 100; i++ {
				m.Answer = append(m.Answer, mustRR(fmt.Sprintf("%s 300 IN A 10.77.%d.%d", lname, i/200, 1+i%200)))
			}
		default:
			negative(m, zone, dns.RcodeSuccess)
		}

	case "huge":
		// > 4096 bytes (the UDP job's slab), fits a TCP frame
		if q.Qtype == dns.TypeTXT {
			for i := 0; i < 22; i++ {
				m.Answer = append(m.Answer, &dns.TXT{
					Hdr: dns.RR_Header{Name: lname, Rrtype: dns.TypeTXT, Class: dns.ClassINET, Ttl: posTTL},
					Txt: []string{fmt.Sprintf("%02d-", i) + strings.Repeat("y", 240)},
				})
			}
		} else {
			negative(m, zone, dns.RcodeSuccess)
		}

	case "fail", "sub:fail":
		m.Rcode = dns.RcodeServerFailure

	case "ref":
		m.Rcode = dns.RcodeRefused

	case "ecs":
		if rr := stack.MarkerRR(4, lname, q.Qtype, posTTL); rr != nil {
			m.Answer = []dns.RR{rr}
		} else {
			negative(m, zone, dns.RcodeSuccess)
		}
		rep.HasECSScope, rep.ECSScope = true, 24

	case "ad":
		// unsigned data with AD asserted by the upstream (forwarder style)
		if rr := stack.MarkerRR(5, lname, q.Qtype, posTTL); rr != nil {
			m.Answer = []dns.RR{rr}
		} else {
			negative(m, zone, dns.RcodeSuccess)
		}
		m.AuthenticatedData = true

	case "add":
		// answer with real additional-section records
		if q.Qtype == dns.TypeMX {
			m.Answer = []dns.RR{mustRR(fmt.Sprintf("%s 300 IN MX 10 mx1-%s.%s", lname, id, zone))}
			m.Extra = append(m.Extra, stack.MarkerRR(6, "mx1-"+id+"."+zone, dns.TypeA, posTTL))
		} else if rr := stack.MarkerRR(6, lname, q.Qtype, posTTL); rr != nil {
			m.Answer = []dns.RR{rr}
			m.Ns = []dns.RR{mustRR(fmt.Sprintf("%s 300 IN NS ns.%s", zone, zone))}
			m.Extra = append(m.Extra, stack.MarkerRR(6, "ns."+zone, dns.TypeA, posTTL))
		} else {
			negative(m, zone, dns.RcodeSuccess)
		}

	// ---------------- mixed chains (per-invocation attributes) ----------------
	case "mt":
		spec, _ := mixedSplit(id)
		at, ok := mixedAttrs(spec, req.Nth)
		if !ok {
			negative(m, zone, dns.RcodeNameError)
			break
		}
		m.AuthenticatedData = at.ad
		gen := uint32(req.Nth)
		if gen > 200 {
			gen = 200
		}
		if rr := stack.MarkerRR(100+gen, lname, q.Qtype, at.ttl()); rr != nil {
			m.Answer = []dns.RR{rr}
			if at.signed {
				m.Answer = append(m.Answer, fakeSig(rr, zone))
			}
		} else {
			negative(m, zone, dns.RcodeSuccess)
		}
		if at.ede {
			rep.EDE = &dns.EDNS0_EDE{InfoCode: dns.ExtendedErrorCodeStaleAnswer, ExtraText: fmt.Sprintf("c05 mt n%d", gen)}
		}

	case "mc":
		spec, rest := mixedSplit(id)
		at, ok := mixedAttrs(spec, req.Nth)
		if !ok || !(strings.HasPrefix(rest, "mc-") || strings.HasPrefix(rest, "mt-")) {
			negative(m, zone, dns.RcodeNameError)
			break
		}
		// the alias only: the cache chases the target itself, so every hop is
		// admitted (and later re-admitted) as an entry of its own
		m.AuthenticatedData = at.ad
		c := &dns.CNAME{Hdr: dns.RR_Header{Name: lname, Rrtype: dns.TypeCNAME, Class: dns.ClassINET, Ttl: at.ttl()}, Target: rest + "." + zone}
		m.Answer = []dns.RR{c}
		if at.signed {
			m.Answer = append(m.Answer, fakeSig(c, zone))
		}
		if at.ede {
			rep.EDE = &dns.EDNS0_EDE{InfoCode: dns.ExtendedErrorCodeDNSSECIndeterminate, ExtraText: fmt.Sprintf("c05 mc n%d", req.Nth)}
		}

	// ---------------- signed families ----------------
	case "sig":
		m.AuthenticatedData = signed
		switch q.Qtype {
		case dns.TypeA, dns.TypeAAAA, dns.TypeTXT:
			rr := stack.MarkerRR(7, lname, q.Qtype, posTTL)
			m.Answer = []dns.RR{rr, fakeSig(rr, zone)}
		case dns.TypeRRSIG:
			for _, t := range []uint16{dns.TypeA, dns.TypeTXT} {
				m.Answer = append(m.Answer, fakeSig(stack.MarkerRR(7, lname, t, posTTL), zone))
			}
		default:
			n := nsecRR(lname, "sig-"+id+"!."+zone, dns.TypeA, dns.TypeTXT, dns.TypeAAAA, dns.TypeRRSIG, dns.TypeNSEC)
			signedNegative(m, zone, dns.RcodeSuccess, n)
		}

	case "sigc":
		// signed alias without terminal: DO=0 has no usable stripped body
		m.AuthenticatedData = signed
		c := cname(lname, sibling("sig"))
		m.Answer = []dns.RR{c, fakeSig(c, zone)}

	case "sigf":
		// signed alias + terminal (resolver-style full chain)
		m.AuthenticatedData = signed
		c := cname(lname, sibling("sig"))
		m.Answer = []dns.RR{c, fakeSig(c, zone)}
		if q.Qtype != dns.TypeCNAME {
			if rr := stack.MarkerRR(7, sibling("sig"), q.Qtype, posTTL); rr != nil {
				m.Answer = append(m.Answer, rr, fakeSig(rr, zone))
			}
		}

	case "nxs", "sub:nxs":
		// signed NXDOMAIN with validated-negative provenance: every name in
		// (nxr, nxt) does not exist; the wildcard is covered by the apex NSEC
		denied := "nxs-" + id + "." + zone
		if fam == "nxs" {
			denied = lname
		}
		signedNegative(m, zone, dns.RcodeNameError,
			nsecRR("nxr."+zone, "nxt."+zone, dns.TypeA, dns.TypeRRSIG, dns.TypeNSEC),
			apexNSEC(zone))
		rep.Negative = &middleware.ValidatedNegativeProof{
			Subject: denied, Zone: zone, Kind: middleware.ValidatedNegativeProofNSEC, Aggressive: true,
		}

	case "nds":
		// signed NODATA (the name exists with TXT only)
		if q.Qtype == dns.TypeTXT {
			rr := stack.MarkerRR(8, lname, q.Qtype, posTTL)
			m.AuthenticatedData = true
			m.Answer = []dns.RR{rr, fakeSig(rr, zone)}
			break
		}
		signedNegative(m, zone, dns.RcodeSuccess,
			nsecRR(lname, "nds-"+id+"!."+zone, dns.TypeTXT, dns.TypeRRSIG, dns.TypeNSEC))
		rep.Negative = &middleware.ValidatedNegativeProof{
			Subject: lname, Zone: zone, Kind: middleware.ValidatedNegativeProofNSEC, Aggressive: true,
		}

	default:
		if signed {
			// anything else in a signed zone: unsigned-looking NXDOMAIN without
			// provenance (never admitted to shared denial state)
			negative(m, zone, dns.RcodeNameError)
		} else {
			negative(m, zone, dns.RcodeNameError)
		}
	}
	return rep
}
