package main

// One WORLD = one real sdns pipeline (stack) built from a group's config, the
// group's admission history replayed through the decoded entry, then every
// case packet served through the world's entry, each followed by the fixed
// probe suffix served through the SAME entries in every world.

import (
	"encoding/hex"
	"fmt"
	"net/netip"
	"os"
	"path/filepath"
	"reflect"
	"sort"
	"strings"
	"time"
	"unsafe"

	"github.com/fsnotify/fsnotify"
	"github.com/miekg/dns"

	"github.com/semihalev/sdns/config"
	"github.com/semihalev/sdns/middleware"
	"github.com/semihalev/sdns/middleware/cache"
	"github.com/semihalev/sdns/zzverif/stack"
)

const (
	worldRaw    = "raw"    // Server.ServeRaw (strict worker entry)
	worldInline = "inline" // Server.ServeRawInline, then ServeRawReplay on handoff (reader fast path)
	worldMsg    = "msg"    // Unpack + Server.ServeMsg (decoded reference)
)

// Step is what one serve produced in one world.
type Step struct {
	Label string   `json:"label"` // "h<i>" history, "P<i>" case packet, "P<i>.<probe>"
	Reply Canon    `json:"reply"`
	Stub  []string `json:"stub"`  // upstream requests caused by this step (sorted)
	State []int64  `json:"state"` // positive, negative, failure, cut, proof sizes after the step
	HitMs []int64  `json:"hm"`    // cache hits, misses deltas
	Skip  string   `json:"skip,omitempty"`
	// Kind labels a session step (same in every world; signature part)
	Kind string `json:"kind,omitempty"`
	// world-local facts (never compared)
	Rung    string `json:"rung,omitempty"`
	Decoded bool   `json:"-"`
	Note    string `json:"note,omitempty"`   // evidence: what the harness knows about the state the step met
	PktHex  string `json:"packet,omitempty"` // session steps: the packet this world built from its own replies
	Echoed  bool   `json:"echoed,omitempty"` // session steps: the cookie carried a server half parsed from an earlier reply
}

// Transcript is everything one world did for a group.
type Transcript struct {
	World   string
	Steps   []Step
	Elapsed time.Duration // wall time of the packet phase (limiter sanity only)
	// SessElapsed is the longest wall time any single session took (each
	// session has a limiter bucket of its own).
	SessElapsed time.Duration
	// WindowElapsed runs from the first case packet to the end of the last
	// session (entry limiters are shared by both phases).
	WindowElapsed time.Duration
	Err           string // harness-level failure (inconclusive)
}

func boolp(b bool) *bool { return &b }

func (c ConfSpec) build(dir string) (*config.Config, error) {
	cfg := stack.DefaultConfig()
	cfg.Directory = dir
	cfg.DNSSEC = c.DNSSEC
	cfg.CookieSecret = c.Cookie
	cfg.NSID = c.NSID
	cfg.ClientRateLimit = c.ClientRate
	cfg.RateLimit = c.EntryRate
	cfg.Prefetch = c.Prefetch
	if c.RFC8198Off {
		cfg.RFC8198 = boolp(false)
	}
	if c.RFC9520Off {
		cfg.RFC9520 = boolp(false)
	}
	cfg.EmptyZones = c.EmptyZones
	if c.Hosts {
		p := filepath.Join(dir, "hosts")
		if err := os.WriteFile(p, []byte(hostsFileBody), 0o644); err != nil {
			return nil, err
		}
		cfg.HostsFile = p
	}
	if c.ECS {
		cfg.ECS.Enabled = true
	}
	return cfg, nil
}

// closeHostsWatcher releases the inotify instance of a world's hosts-file
// middleware. The middleware has no Stop (a server keeps it for life), so every
// world with a hosts file would otherwise hold one of the box's 128 inotify
// instances until the process exits — thousands of worlds per run starve every
// other process that needs a watcher (TLS certificate managers of other
// checks). Closing the watcher ends its watch loop; it is done after the world's
// last serve and touches nothing the verdict depends on.
func closeHostsWatcher(h middleware.Handler) {
	if h == nil {
		return
	}
	v := reflect.ValueOf(h)
	if v.Kind() != reflect.Pointer || v.Elem().Kind() != reflect.Struct {
		return
	}
	f := v.Elem().FieldByName("watcher")
	if !f.IsValid() || f.Kind() != reflect.Pointer || f.IsNil() || f.Type() != reflect.TypeOf((*fsnotify.Watcher)(nil)) {
		return
	}
	w := (*fsnotify.Watcher)(unsafe.Pointer(f.Pointer())) //nolint:govet // same type, unexported field
	_ = w.Close()
}

func tempRoot() string {
	if b := os.Getenv("VERIF_BUILD_DIR"); b != "" {
		d := filepath.Join(b, "tmp")
		if os.MkdirAll(d, 0o755) == nil {
			return d
		}
	}
	return os.TempDir()
}

func stubLine(r *stack.StubRequest) string {
	var b strings.Builder
	fmt.Fprintf(&b, "%s|%d|%d|int=%v|rd=%v|cd=%v|ad=%v|op=%d", r.Q.Name, r.Q.Qtype, r.Q.Qclass, r.Internal, r.RD, r.CD, r.AD, r.Msg.Opcode)
	if !r.Internal {
		fmt.Fprintf(&b, "|id=%d|proto=%s|ip=%s|cecs=%v", r.ID, r.Proto, r.ClientIP, r.ClientECS)
	}
	if r.OPT != nil {
		fmt.Fprintf(&b, "|opt:size=%d,do=%v,ver=%d,ttl=%#x,codes=%v", r.OPT.UDPSize(), r.DO, r.OPT.Version(), r.OPT.Hdr.Ttl, r.Codes)
		if r.ECS != nil {
			fmt.Fprintf(&b, ",ecs=%d/%s/%d/%d", r.ECS.Family, r.ECS.Address, r.ECS.SourceNetmask, r.ECS.SourceScope)
		}
	} else {
		b.WriteString("|noopt")
	}
	fmt.Fprintf(&b, "|qd=%d,an=%d,ns=%d,ar=%d", len(r.Msg.Question), len(r.Msg.Answer), len(r.Msg.Ns), len(r.Msg.Extra))
	return b.String()
}

type runner struct {
	g       *Group
	world   string
	st      *stack.Stack
	tr      *Transcript
	lastSeq uint64
	hits    int64
	misses  int64
	wire0   map[string]int64
}

func (rn *runner) settle() bool {
	c := rn.st.Cache()
	deadline := time.Now().Add(10 * time.Second)
	for {
		if !rn.st.Quiesce(10 * time.Second) {
			return false
		}
		if c == nil || c.VerifC05PrefetchBusy() == 0 {
			if rn.g.Conf.Prefetch == 0 {
				return true
			}
			// prefetch workers publish after the stub returned: confirm idle twice
			time.Sleep(300 * time.Microsecond)
			if c.VerifC05PrefetchBusy() == 0 && rn.st.Quiesce(10*time.Second) {
				return true
			}
		}
		if time.Now().After(deadline) {
			return false
		}
		time.Sleep(200 * time.Microsecond)
	}
}

// settleStep waits for background refreshes a step may have started. A
// prefetch claim is taken synchronously inside the serve (CAS on the entry,
// before the request is queued) and released when the worker is done, so
// "no claim held, nothing queued, no internal upstream request since the
// last step" means the step started no refresh and there is nothing to wait
// for; anything else takes the full quiescence wait.
func (rn *runner) settleStep() bool {
	c := rn.st.Cache()
	if c.VerifC05PrefetchBusy() == 0 && rn.st.Stub().InFlight() == 0 {
		internal := false
		for _, r := range rn.st.Stub().LogSince(rn.lastSeq) {
			if r.Internal {
				internal = true
				break
			}
		}
		if !internal {
			return true
		}
	}
	return rn.settle()
}

func toI64(v any) int64 {
	switch x := v.(type) {
	case int:
		return int64(x)
	case int64:
		return x
	case uint64:
		return int64(x)
	case float64:
		return int64(x)
	}
	return 0
}

// finishStep attaches the stub log delta and the state snapshot.
func (rn *runner) finishStep(s *Step) bool {
	if rn.g.Conf.Prefetch > 0 {
		if !rn.settleStep() {
			return false
		}
	}
	for _, r := range rn.st.Stub().LogSince(rn.lastSeq) {
		s.Stub = append(s.Stub, stubLine(r))
		if r.Seq > rn.lastSeq {
			rn.lastSeq = r.Seq
		}
	}
	sort.Strings(s.Stub)
	if c := rn.st.Cache(); c != nil {
		stats := c.Stats()
		// live entries only: an expired entry answers nothing, and whether it was
		// already evicted depends on which lookups happened to touch it
		lp, ln := c.VerifC05LiveSizes()
		s.State = []int64{lp, ln, toI64(stats["failure_size"]),
			toI64(stats["nxdomain_cut_size"]), toI64(stats["denial_proof_size"])}
		h, m := toI64(stats["hits"]), toI64(stats["misses"])
		s.HitMs = []int64{h - rn.hits, m - rn.misses}
		rn.hits, rn.misses = h, m
	}
	return true
}

func buildQuery(name string, qtype uint16, id uint16, do, cd, noedns bool, ecs string) *dns.Msg {
	m := new(dns.Msg)
	m.Id = id
	m.RecursionDesired = true
	m.CheckingDisabled = cd
	m.Question = []dns.Question{{Name: name, Qtype: qtype, Qclass: dns.ClassINET}}
	if !noedns {
		m.SetEdns0(1232, do)
		if ecs != "" {
			if p, err := netip.ParsePrefix(ecs); err == nil {
				e := &dns.EDNS0_SUBNET{Code: dns.EDNS0SUBNET, SourceNetmask: uint8(p.Bits()), Address: p.Addr().AsSlice()}
				e.Family = 1
				if p.Addr().Is6() {
					e.Family = 2
				}
				opt := m.IsEdns0()
				opt.Option = append(opt.Option, e)
			}
		}
	}
	return m
}

// serveDecoded serves a message through the decoded entry.
func (rn *runner) serveDecoded(label, client, proto string, m *dns.Msg) (Step, bool) {
	res := rn.st.ServeMsg(client, proto, m)
	if res.Wrote && len(res.Raw) == 0 {
		// The recording transport counts a WriteMsg whose Pack failed (e.g. a reply that
		// cannot fit 65535 octets: a 253-octet owner repeated over a big answer) as a write
		// of zero bytes. A real transport sends nothing in that case — exactly what the
		// byte path's "no write" means — so this is "not written", not a difference.
		res.Wrote = false
		if res.Writes > 0 {
			res.Writes--
		}
	}
	s := Step{Label: label, Reply: canonReply(res.Wrote, res.Writes, res.Raw, res.Panic), Decoded: true, Rung: "decoded-entry"}
	return s, rn.finishStep(&s)
}

// serveStrict serves raw bytes through a strict wire entry.
func (rn *runner) serveStrict(label, client, proto string, pkt []byte, mode string) (Step, bool) {
	job := stack.NewJob(client, proto)
	before := cache.VerifC05WireCounters()
	var res stack.Result
	inlineServed, handoff := false, false
	switch mode {
	case worldInline:
		if rn.st.Server.InlineReady() {
			res = rn.st.ServeRawJob(job, stack.RawInline, pkt)
			// engine rule (udp_engine.serveInline): a staged reply is terminal
			// even when a handler also marked handoff
			if res.Handled || res.Wrote || res.Panic != nil {
				inlineServed = true
			} else {
				handoff = true
				flushes := job.Flushes
				res = rn.st.ServeRawJob(job, stack.RawReplay, pkt)
				job.Flushes += flushes
			}
		} else {
			res = rn.st.ServeRawJob(job, stack.RawServe, pkt)
		}
	default:
		res = rn.st.ServeRawJob(job, stack.RawServe, pkt)
	}
	s := Step{Label: label, Reply: canonReply(res.Wrote, res.Writes, res.Raw, res.Panic)}
	after := cache.VerifC05WireCounters()
	d := func(k string) int64 { return after[k] - before[k] }
	switch {
	case !res.Handled && !res.Wrote && !inlineServed:
		s.Rung = "undecodable"
	case !res.Strict:
		s.Rung = "declined-to-decode"
	case d("chase_served") > 0:
		s.Rung = "chase"
	case d("cut_served") > 0:
		s.Rung = "cut"
	case d("failure_served") > 0:
		s.Rung = "failure"
	case d("served") > 0 && job.Flushes == 0:
		s.Rung = "exact"
	case job.Flushes > 0:
		s.Rung = "materialized"
	case !res.Wrote:
		s.Rung = "strict-dropped"
	default:
		s.Rung = "strict-local" // answered before the cache without decoding (hosts, empty zones)
	}
	if mode == worldInline {
		if inlineServed {
			s.Rung += "/inline"
		} else if handoff {
			s.Rung += "/replay"
		}
	}
	if job.WriteErrs > 0 {
		s.Rung += "/write-refused"
	}
	return s, rn.finishStep(&s)
}

// probeSuffix is the fixed probe list after a case packet whose question is q.
type probe struct {
	label  string
	raw    []byte   // served through ServeRaw when non-nil
	msg    *dns.Msg // else through ServeMsg
	client string
}

func probesFor(g *Group, i int, pkt []byte, client string) []probe {
	var ps []probe
	// 1. the same packet again through the strict entry
	ps = append(ps, probe{label: "again-raw", raw: pkt, client: client})
	m := new(dns.Msg)
	if err := m.Unpack(pkt); err != nil || len(m.Question) == 0 {
		return ps
	}
	qn, qt, qc := m.Question[0].Name, m.Question[0].Qtype, m.Question[0].Qclass
	mk := func(name string, id uint16, do, cd bool) *dns.Msg {
		x := buildQuery(name, qt, id, do, cd, false, "")
		x.Question[0].Qclass = qc
		return x
	}
	// 2. a burst of plain questions sized to the limiters, decoded entry
	burst := 1
	if g.Conf.EntryRate > 0 {
		burst = g.Conf.EntryRate + 1
	}
	for b := 0; b < burst; b++ {
		ps = append(ps, probe{label: fmt.Sprintf("burst%d-msg", b), msg: mk(qn, uint16(1000+b), b%2 == 0, m.CheckingDisabled), client: client})
	}
	// 3. the same question, canonical packet, strict entry (DO set, other CD partition too)
	for k, cd := range []bool{m.CheckingDisabled, !m.CheckingDisabled} {
		x := mk(qn, uint16(2000+k), true, cd)
		if b, err := x.Pack(); err == nil {
			ps = append(ps, probe{label: fmt.Sprintf("canon-raw-cd%v", cd), raw: b, client: client})
		}
	}
	// 4. sibling and descendant names, strict entry
	labels := dns.SplitDomainName(qn)
	if len(labels) >= 1 {
		sib := "zz" + labels[0]
		if len(sib) > 63 {
			sib = sib[:63]
		}
		sibName := strings.Join(append([]string{sib}, labels[1:]...), ".") + "."
		if _, ok := dns.IsDomainName(sibName); ok {
			if b, err := mk(sibName, 3000, false, false).Pack(); err == nil {
				ps = append(ps, probe{label: "sibling-raw", raw: b, client: client})
			}
		}
	}
	if sub := "sub." + qn; len(qn) > 1 {
		if _, ok := dns.IsDomainName(sub); ok && len(sub) < 250 {
			if b, err := mk(sub, 3001, true, false).Pack(); err == nil {
				ps = append(ps, probe{label: "descendant-raw", raw: b, client: client})
			}
		}
	}
	return ps
}

// runWorld executes the group in one world.
func runWorld(g *Group, world string) *Transcript {
	tr := &Transcript{World: world}
	t0 := time.Now()
	var tNew, tHist time.Duration
	defer func() {
		if os.Getenv("C05_TIMING") != "" {
			fmt.Fprintf(os.Stderr, "world %s conf=%s total=%v packets=%v new=%v hist=%v\n", world, g.Conf.Name, time.Since(t0), tr.Elapsed, tNew, tHist)
		}
	}()
	dir, err := os.MkdirTemp(tempRoot(), "c05-")
	if err != nil {
		tr.Err = "tempdir: " + err.Error()
		return tr
	}
	defer os.RemoveAll(dir)
	cfg, err := g.Conf.build(dir)
	if err != nil {
		tr.Err = "config: " + err.Error()
		return tr
	}
	cache.VerifC05ResetEntryLimiters()
	st, err := stack.New(stack.Options{Config: cfg, Stub: universe})
	if err != nil {
		tr.Err = "stack: " + err.Error()
		return tr
	}
	hostsHandler := st.Handler("hostsfile")
	defer func() {
		closeHostsWatcher(hostsHandler)
		st.Close()
		cache.VerifC05ResetEntryLimiters()
	}()
	tNew = time.Since(t0)
	if st.Cache() == nil {
		tr.Err = "no cache in chain"
		return tr
	}
	rn := &runner{g: g, world: world, st: st, tr: tr}
	if g.Conf.Hosts && st.Handler("hostsfile") == nil {
		tr.Err = "hostsfile handler missing"
		return tr
	}

	// ---- admission history: identical in every world (decoded entry) ----
	for i, op := range g.History {
		label := fmt.Sprintf("h%d", i)
		tOp := time.Now()
		if os.Getenv("C05_TIMING") != "" {
			defer func(op Op) {
				_ = op
			}(op)
		}
		switch op.Kind {
		case "q":
			m := buildQuery(op.Name, op.Qtype, uint16(100+i), op.DO, op.CD, op.NoEDNS, op.ECS)
			s, ok := rn.serveDecoded(label, op.Client, "tcp", m)
			if !ok {
				tr.Err = "quiesce timeout in history"
				return tr
			}
			tr.Steps = append(tr.Steps, s)
		case "adv":
			if !rn.settle() {
				tr.Err = "quiesce timeout before clock advance"
				return tr
			}
			st.Cache().VerifAdvance(time.Duration(op.Secs) * time.Second)
		case "zonefail":
			if !rn.settle() {
				tr.Err = "quiesce timeout before zonefail"
				return tr
			}
			st.Cache().VerifStore().RecordZoneFailure(dns.Question{Name: op.Zone, Qtype: dns.TypeA, Qclass: dns.ClassINET}, op.Zone)
		case "purge":
			// the operator's purge (API endpoint → middleware.Purger): stands in
			// for one entry running out while its neighbours stay. The pipeline is
			// quiescent here: serves are synchronous and, where prefetch workers
			// exist, the previous step ended with settleStep.
			st.Cache().Purge(dns.Question{Name: op.Name, Qtype: op.Qtype, Qclass: dns.ClassINET})
		}
		if d := time.Since(tOp); d > 20*time.Millisecond && os.Getenv("C05_TIMING") != "" {
			fmt.Fprintf(os.Stderr, "slow history op %+v: %v\n", op, d)
		}
	}

	// ---- case packets + probe suffix ----
	tHist = time.Since(t0) - tNew
	start := time.Now()
	for i, p := range g.Pkts {
		pkt, err := hex.DecodeString(p.Hex)
		if err != nil {
			tr.Err = "bad packet hex"
			return tr
		}
		label := fmt.Sprintf("P%d", i)
		var s Step
		var ok bool
		switch world {
		case worldMsg:
			m := new(dns.Msg)
			if uerr := m.Unpack(pkt); uerr != nil {
				// nothing to serve through the decoded entry: the transports that
				// use it never get past their own decode either
				s = Step{Label: label, Skip: "library-unpack-failed", Decoded: true}
				ok = rn.finishStep(&s)
			} else {
				s, ok = rn.serveDecoded(label, p.Client, g.Proto, m)
			}
		default:
			note := ""
			if p.Target == "chain-mixed" {
				note = rn.mixedNote(pkt)
			}
			s, ok = rn.serveStrict(label, p.Client, g.Proto, pkt, world)
			s.Note = note
		}
		if !ok {
			tr.Err = "quiesce timeout"
			return tr
		}
		tr.Steps = append(tr.Steps, s)
		for _, pr := range probesFor(g, i, pkt, p.Client) {
			pl := label + "." + pr.label
			var ps Step
			if pr.raw != nil {
				ps, ok = rn.serveStrict(pl, pr.client, g.Proto, pr.raw, worldRaw)
			} else {
				ps, ok = rn.serveDecoded(pl, pr.client, g.Proto, pr.msg)
			}
			if !ok {
				tr.Err = "quiesce timeout"
				return tr
			}
			tr.Steps = append(tr.Steps, ps)
		}
	}
	tr.Elapsed = time.Since(start)

	// ---- client sessions ----
	for si := range g.Sessions {
		t1 := time.Now()
		if !rn.runSession(si, &g.Sessions[si]) {
			return tr
		}
		if d := time.Since(t1); d > tr.SessElapsed {
			tr.SessElapsed = d
		}
	}
	tr.WindowElapsed = time.Since(start)
	return tr
}

// mixedNote describes, for a question aimed at a mixed chain, which admission
// every hop currently stems from (upstream invocation ordinals) and the
// attribute nibbles those admissions carried. Evidence only.
func (rn *runner) mixedNote(pkt []byte) string {
	m := new(dns.Msg)
	if m.Unpack(pkt) != nil || len(m.Question) != 1 {
		return ""
	}
	name := strings.ToLower(m.Question[0].Name)
	if !strings.HasPrefix(name, "mc-") {
		return ""
	}
	var ads, sigs, edes, ttls []string
	for hop := 0; hop < 4; hop++ {
		fam, first, zone := splitName(name)
		if zone == "" || (fam != "mc" && fam != "mt") {
			break
		}
		spec, rest := mixedSplit(strings.TrimPrefix(first, fam+"-"))
		n := rn.st.Stub().Calls(name, m.Question[0].Qtype, dns.ClassINET)
		at, ok := mixedAttrs(spec, n)
		if !ok || n == 0 {
			return ""
		}
		b := func(v bool) string {
			if v {
				return "1"
			}
			return "0"
		}
		ads, sigs, edes, ttls = append(ads, b(at.ad)), append(sigs, b(at.signed)), append(edes, b(at.ede)), append(ttls, b(at.short))
		if fam == "mt" {
			return "ad=" + strings.Join(ads, "") + " sig=" + strings.Join(sigs, "") + " ede=" + strings.Join(edes, "") + " short=" + strings.Join(ttls, "")
		}
		name = rest + "." + zone
	}
	return ""
}

// sessionCookie builds the COOKIE option payload of a step from this world's
// own earlier replies. echoed reports whether a server half parsed from a reply
// went into it.
func sessionCookie(st *SessStep, issued []string) (cookie []byte, echoed bool) {
	cc, _ := hex.DecodeString(st.CC)
	lookup := func() []byte {
		for j := st.Ref; j >= 0; j-- {
			if j < len(issued) && issued[j] != "" {
				b, _ := hex.DecodeString(issued[j])
				return b
			}
		}
		return nil
	}
	junk, _ := hex.DecodeString(st.Junk)
	switch st.Cookie {
	case "cc":
		return cc, false
	case "echo":
		if full := lookup(); len(full) > 8 {
			return full, true
		}
		return cc, false
	case "graft":
		if full := lookup(); len(full) > 8 {
			return append(append([]byte(nil), cc...), full[8:]...), true
		}
		return cc, false
	case "wrong", "badlen":
		return append(append([]byte(nil), cc...), junk...), false
	}
	return nil, false
}

func sessionPacket(st *SessStep, cookie []byte) []byte {
	flags := uint16(0x0100)
	if st.CD {
		flags |= 0x0010
	}
	if st.AD {
		flags |= 0x0020
	}
	pkt := make([]byte, 12, 256)
	pkt[0], pkt[1] = byte(st.ID>>8), byte(st.ID)
	pkt[2], pkt[3] = byte(flags>>8), byte(flags)
	pkt[5] = 1
	name := wireName(st.Name)
	if st.Case == 1 {
		name = mutateCase(nil, name, 1)
	}
	pkt = append(pkt, name...)
	pkt = append(pkt, byte(st.Qtype>>8), byte(st.Qtype), 0, 1)
	if st.NoEDNS {
		return pkt
	}
	o := &optSpec{owner: []byte{0}, size: 1232}
	if st.DO {
		o.z = 0x8000
	}
	if cookie != nil {
		o.opts = append(o.opts, [2][]byte{code(dns.EDNS0COOKIE), cookie})
	}
	if st.NSID {
		o.opts = append(o.opts, [2][]byte{code(dns.EDNS0NSID), nil})
	}
	pkt = append(pkt, o.bytes()...)
	pkt[11] = 1
	return pkt
}

// replyCookie is the complete COOKIE option payload (hex) of a reply, "" if
// the reply carries none.
func replyCookie(c Canon) string {
	if c.EDNS == nil {
		return ""
	}
	for _, o := range c.EDNS.OptOrder {
		if strings.HasPrefix(o, "10:") {
			return o[3:]
		}
	}
	return ""
}

// runSession serves one session through this world's entry.
func (rn *runner) runSession(si int, ss *Session) bool {
	issued := make([]string, len(ss.Steps))
	for k := range ss.Steps {
		st := &ss.Steps[k]
		cookie, echoed := sessionCookie(st, issued)
		pkt := sessionPacket(st, cookie)
		client := ss.Client
		if strings.Contains(client, ":") {
			client = "[" + client + "]"
		}
		client = fmt.Sprintf("%s:%d", client, st.Port)
		label := fmt.Sprintf("S%d.%d", si, k)
		var s Step
		var ok bool
		switch rn.world {
		case worldMsg:
			m := new(dns.Msg)
			if uerr := m.Unpack(pkt); uerr != nil {
				s = Step{Label: label, Skip: "library-unpack-failed", Decoded: true}
				ok = rn.finishStep(&s)
			} else {
				s, ok = rn.serveDecoded(label, client, st.Proto, m)
			}
		default:
			s, ok = rn.serveStrict(label, client, st.Proto, pkt, rn.world)
		}
		if !ok {
			rn.tr.Err = "quiesce timeout in session"
			return false
		}
		s.Kind, s.PktHex, s.Echoed = st.Kind, hex.EncodeToString(pkt), echoed
		issued[k] = replyCookie(s.Reply)
		if os.Getenv("C05_DUMP") != "" {
			fmt.Fprintf(os.Stderr, "SESS %s %s %s %s q=%s/%d cookie=%x -> %s rung=%s issued=%.20s state=%v stub=%d\n", rn.world, label, st.Kind, client, st.Name, st.Qtype,
				cookie, rcodeClass(s.Reply), s.Rung, issued[k], s.State, len(s.Stub))
		}
		rn.tr.Steps = append(rn.tr.Steps, s)
	}
	return true
}
