// C05 — wire fast path and decoded path are observationally equivalent.
//
// Differential runtime monitor. For every generated GROUP (configuration,
// transport flavour, admission history, case packets) three WORLDS are built
// one after the other from the same config and the same history (the stub
// answers purely by question, so histories replay exactly):
//
//	raw     packet P → Server.ServeRaw on a strict-slot job
//	inline  packet P → Server.ServeRawInline, then ServeRawReplay on handoff
//	msg     Unpack(P) → Server.ServeMsg with a transport of the same proto/addr
//
// After each P a fixed probe suffix is served through the SAME entries in all
// worlds. Transcripts (decoded replies, upstream requests, cache state) of
// raw↔msg and inline↔msg are compared step by step.
package main

import (
	"encoding/hex"
	"encoding/json"
	"fmt"
	"os"
	"strings"
	"time"

	"github.com/miekg/dns"

	"github.com/semihalev/sdns/middleware"
	rc "github.com/semihalev/sdns/zzverif/replycontract"
	"github.com/semihalev/sdns/zzverif/vlib"
)

// replayCase is what a violation carries.
type replayCase struct {
	Group   *Group `json:"group"`
	World   string `json:"world"`
	Step    string `json:"step"`
	Field   string `json:"field"`
	Detail  string `json:"detail"`
	PktHex  string `json:"packet_hex,omitempty"`
	Client  string `json:"client,omitempty"`
	Subject any    `json:"subject_world,omitempty"`
	Ref     any    `json:"reference_world,omitempty"`
}

type outcome struct {
	violations int
	retry      bool   // first difference was a uniform ±1 s TTL shift
	slow       bool   // limiter-bearing group ran too slowly to trust token arithmetic
	hdiv       string // history diverged (nondeterminism): inconclusive
}

func probeClass(label string) (string, string) {
	// "P3" → ("P","") ; "P3.burst1-msg" → ("probe","burst-msg")
	i := strings.IndexByte(label, '.')
	if i < 0 {
		if strings.HasPrefix(label, "h") {
			return "history", ""
		}
		return "P", ""
	}
	p := label[i+1:]
	p = strings.Map(func(r rune) rune {
		if r >= '0' && r <= '9' {
			return -1
		}
		return r
	}, p)
	return "probe", p
}

func rungClass(r string) string {
	if i := strings.IndexByte(r, '/'); i >= 0 {
		return r[:i]
	}
	return r
}

// compareTranscripts judges world a (raw or inline) against the decoded
// reference m. report=false only classifies (first attempt).
func compareTranscripts(r *vlib.Run, g *Group, a, m *Transcript, report bool) outcome {
	var out outcome
	if len(a.Steps) != len(m.Steps) {
		out.hdiv = fmt.Sprintf("step counts differ: %d vs %d", len(a.Steps), len(m.Steps))
		return out
	}
	lastRung := ""
	lastPkt := -1
	for i := range a.Steps {
		x, y := a.Steps[i], m.Steps[i]
		kind, pclass := probeClass(x.Label)
		if kind == "P" {
			lastRung = rungClass(x.Rung)
			lastPkt++
		}
		var ds []Diff
		if y.Skip != "" {
			// the decoded world had nothing to serve (library cannot unpack P):
			// the strict entry must have refused it too
			if x.Reply.Wrote || rungClass(x.Rung) != "undecodable" {
				ds = append(ds, Diff{Field: "served-undecodable", Detail: "library cannot unpack the packet but the strict entry served it (" + x.Rung + ")"})
			}
		} else {
			ds = compareCanon(x.Reply, y.Reply)
		}
		if strings.Join(x.Stub, "\n") != strings.Join(y.Stub, "\n") {
			f := "upstream"
			if len(x.Stub) != len(y.Stub) {
				f = "upstream-count"
			}
			ds = append(ds, Diff{Field: f, Detail: fmt.Sprintf("requests handed to resolution differ: %v vs %v", x.Stub, y.Stub)})
		}
		if fmt.Sprint(x.State) != fmt.Sprint(y.State) {
			ds = append(ds, Diff{Field: "cache-state", Detail: fmt.Sprintf("sizes [positive negative failure cut proof] %v vs %v", x.State, y.State)})
		}
		if fmt.Sprint(x.HitMs) != fmt.Sprint(y.HitMs) && report {
			// informational only: the hit/miss statistics are not visible to later
			// queries, and the composer documents that hop entries do not tick
			// their own hit machinery (entry_wire_chase.go)
			r.Count("info_hitmiss_stat_diffs", 1)
		}
		if len(ds) == 0 {
			continue
		}
		if kind == "history" {
			ttlOnly := true
			for _, d := range ds {
				if !d.TTLOne {
					ttlOnly = false
				}
			}
			if ttlOnly {
				out.retry = true
			} else {
				out.hdiv = fmt.Sprintf("history step %s differs between worlds built identically: %s: %s", x.Label, ds[0].Field, ds[0].Detail)
			}
			return out
		}
		allTTL := true
		for _, d := range ds {
			if !d.TTLOne {
				allTTL = false
			}
		}
		if allTTL && !report {
			out.retry = true
			return out
		}
		if !report {
			soft := true
			for _, d := range ds {
				if !d.Soft {
					soft = false
				}
			}
			out.violations += len(ds)
			if soft {
				continue
			}
			return out
		}
		hard := false
		for _, d := range ds {
			var sig string
			if !d.Soft {
				hard = true
			}
			if d.Sig != "" {
				sig = d.Sig
			} else if kind == "P" {
				sig = vlib.Sig(a.World, "P", d.Field, "rung="+lastRung)
			} else {
				sig = vlib.Sig(a.World, "probe."+pclass, d.Field, "after="+lastRung)
			}
			c := replayCase{Group: g, World: a.World, Step: x.Label, Field: d.Field, Detail: d.Detail, Subject: x, Ref: y}
			if lastPkt >= 0 && lastPkt < len(g.Pkts) {
				c.PktHex, c.Client = g.Pkts[lastPkt].Hex, g.Pkts[lastPkt].Client
			}
			what := fmt.Sprintf("%s world vs decoded world, conf=%s proto=%s group=%d step=%s (packet %d, target %s, rung %s): %s — %s",
				a.World, g.Conf.Name, g.Proto, g.Index, x.Label, lastPkt, pktTarget(g, lastPkt), x.Rung+"|after:"+lastRung, d.Field, d.Detail)
			if len(what) > 900 {
				what = what[:900] + "…"
			}
			r.Violation(sig, what, c)
			out.violations++
		}
		// state may have diverged: later steps of this group are not independent evidence
		if hard {
			return out
		}
	}
	return out
}

func pktTarget(g *Group, i int) string {
	if i >= 0 && i < len(g.Pkts) {
		return g.Pkts[i].Target + "[" + g.Pkts[i].Shape + "]"
	}
	return "?"
}

func rcodeClass(c Canon) string {
	switch {
	case c.Panic != "":
		return "panic"
	case !c.Wrote:
		return "dropped"
	case !c.Unpack:
		return "garbage"
	case c.Bits != "" && c.Bits[2] == '1':
		return "truncated"
	}
	if c.Rcode == dns.RcodeBadVers {
		return "badvers"
	}
	if s, ok := dns.RcodeToString[c.Rcode]; ok {
		return strings.ToLower(s)
	}
	return fmt.Sprintf("rcode%d", c.Rcode)
}

// account records what the raw/inline worlds observed (evidence).
func account(r *vlib.Run, g *Group, raw, inl, msg *Transcript) {
	pi := -1
	for i := range raw.Steps {
		s := raw.Steps[i]
		kind, _ := probeClass(s.Label)
		switch kind {
		case "history":
			continue
		case "probe":
			r.Count("probe_pairs", 2)
			r.Count("probe_rung_"+rungClass(s.Rung), 1)
			continue
		}
		pi++
		p := g.Pkts[pi]
		r.Count("pairs_raw", 1)
		r.Count("pairs_inline", 1)
		r.Eval(2)
		rung := rungClass(s.Rung)
		r.Count("rung_"+rung, 1)
		cls := rcodeClass(s.Reply)
		r.Count("class_"+cls, 1)
		switch cls {
		case "formerr", "notimp", "badvers", "badcookie", "refused", "dropped":
			r.Count("rejected", 1)
		}
		if rung == "undecodable" {
			r.Count("rejected", 1)
		}
		if len(s.Stub) > 0 {
			r.Count("handed_to_resolution", 1)
		}
		if strings.Contains(s.Rung, "write-refused") {
			r.Count("write_refused", 1)
		}
		is := inl.Steps[i]
		switch {
		case strings.HasSuffix(is.Rung, "/inline"):
			r.Count("inline_served", 1)
			r.Count("inline_rung_"+rungClass(is.Rung), 1)
		case strings.Contains(is.Rung, "/replay"):
			r.Count("inline_handoff", 1)
		}
		r.DistinctIn("conf_x_state", g.Conf.Name+"/"+p.Target)
		r.DistinctIn("conf_x_state_x_rung", g.Conf.Name+"/"+p.Target+"/"+rung)
		r.DistinctIn("state_x_rung", p.Target+"/"+rung)
		r.Distinct(strings.Join([]string{g.Conf.Name, g.Proto, p.Target, rung, cls}, "/"))
		r.Count("state_"+p.Target+"_"+rung, 1)
		for _, tag := range strings.Split(p.Shape, ",") {
			if tag != "" {
				if j := strings.IndexAny(tag, "0123456789"); j > 0 && !strings.HasPrefix(tag, "name:") {
					tag = tag[:j]
				}
				r.DistinctIn("shape_tags", tag)
			}
		}
		// informational reply-contract monitor (C06 owns the verdict)
		pkt, _ := hex.DecodeString(p.Hex)
		host := p.Client
		if j := strings.LastIndexByte(host, ':'); j >= 0 {
			host = strings.Trim(host[:j], "[]")
		}
		opts := rc.Options{NSID: g.Conf.NSID, VerifyCookie: true, CookieSecret: g.Conf.Cookie, ClientIP: host, KeepaliveUnits: 80, ECSEnabled: g.Conf.ECS}
		for _, st := range []Step{s, msg.Steps[i]} {
			if st.Reply.Wrote && st.Reply.RawHex != "" {
				reply, _ := hex.DecodeString(st.Reply.RawHex)
				for _, b := range rc.Check(g.Proto, pkt, reply, opts) {
					if !b.Info {
						r.Count("contract_breaches", 1)
						r.DistinctIn("contract_breach_rules", b.Rule)
					}
				}
				r.Count("contract_checked", 1)
			}
		}
		if os.Getenv("C05_DUMP") != "" {
			fmt.Fprintf(os.Stderr, "DUMP g=%d conf=%s %s P%d target=%s shape=%s rung=%s inline=%s class=%s msgclass=%s stub=%d\n", g.Index, g.Conf.Name, g.Proto, pi,
				p.Target, p.Shape, s.Rung, is.Rung, cls, rcodeClass(msg.Steps[i].Reply), len(s.Stub))
		}
		if pi < 2 && g.Index < 3 {
			r.Sample(map[string]any{"conf": g.Conf.Name, "proto": g.Proto, "packet": p, "rung": s.Rung, "inline_rung": is.Rung,
				"reply_class": cls, "upstream": s.Stub})
		}
	}
}

// ---------------------------------------------------------------------
// Admission conservatism: ParseWire(P) true ⇒ the library unpacks P and
// yields the same question / OPT facts.
// ---------------------------------------------------------------------

func checkAdmission(r *vlib.Run, pkt []byte) {
	var req middleware.Request
	ok := false
	func() {
		defer func() {
			if p := recover(); p != nil {
				r.Violation("admission/panic/ParseWire", fmt.Sprintf("Request.ParseWire panicked: %v", p), map[string]string{"packet_hex": hex.EncodeToString(pkt)})
			}
		}()
		ok = req.ParseWire(pkt, time.Now(), nil)
	}()
	r.Count("admission_checked", 1)
	m := new(dns.Msg)
	err := m.Unpack(pkt)
	if !ok {
		if err == nil {
			r.Count("admission_declined_decodable", 1)
		} else {
			r.Count("admission_declined_undecodable", 1)
		}
		return
	}
	r.Count("admission_strict", 1)
	r.Eval(1)
	bad := func(field, detail string) {
		r.Violation("admission/"+field, "Request.ParseWire admitted a packet but "+detail,
			map[string]string{"packet_hex": hex.EncodeToString(pkt), "field": field})
	}
	if err != nil {
		bad("library-rejects", "the library refuses it: "+err.Error())
		return
	}
	if len(m.Question) != 1 || len(m.Answer) != 0 || len(m.Ns) != 0 {
		bad("sections", fmt.Sprintf("library sees qd=%d an=%d ns=%d", len(m.Question), len(m.Answer), len(m.Ns)))
		return
	}
	name, _, nerr := dns.UnpackDomainName(req.WireName(), 0)
	if nerr != nil || name != m.Question[0].Name {
		bad("qname", fmt.Sprintf("wire name %q (err %v) vs library %q", name, nerr, m.Question[0].Name))
	}
	if req.Qtype() != m.Question[0].Qtype || req.Qclass() != m.Question[0].Qclass {
		bad("qtype-qclass", fmt.Sprintf("%d/%d vs %d/%d", req.Qtype(), req.Qclass(), m.Question[0].Qtype, m.Question[0].Qclass))
	}
	if req.ID() != m.Id || req.RD() != m.RecursionDesired || req.CD() != m.CheckingDisabled || req.AD() != m.AuthenticatedData || req.Opcode() != m.Opcode {
		bad("header", fmt.Sprintf("id/rd/cd/ad/opcode %d %v %v %v %d vs %d %v %v %v %d", req.ID(), req.RD(), req.CD(), req.AD(), req.Opcode(),
			m.Id, m.RecursionDesired, m.CheckingDisabled, m.AuthenticatedData, m.Opcode))
	}
	if req.WireQuestionEnd() != 12+len(req.WireName())+4 {
		bad("question-end", "question end offset inconsistent")
	}
	opt := m.IsEdns0()
	if req.HasOPT() != (opt != nil) {
		bad("opt-presence", fmt.Sprintf("HasOPT=%v vs library OPT=%v", req.HasOPT(), opt != nil))
		return
	}
	want := 0
	if opt != nil {
		want = 1
	}
	if len(m.Extra) != want {
		bad("additional", fmt.Sprintf("library sees %d additional records", len(m.Extra)))
	}
	if opt == nil {
		if req.HasECS() || req.HasNSID() || req.HasTCPKeepalive() || req.CookieEcho() != nil || req.DO() || req.UDPSize() != 0 {
			bad("opt-facts-without-opt", "EDNS facts set although there is no OPT")
		}
		return
	}
	if opt.Hdr.Name != "." {
		bad("opt-owner", "OPT owner is "+opt.Hdr.Name)
	}
	if req.UDPSize() != opt.UDPSize() || req.DO() != opt.Do() || req.EDNSVersion() != opt.Version() {
		bad("opt-scalars", fmt.Sprintf("size/do/ver %d %v %d vs %d %v %d", req.UDPSize(), req.DO(), req.EDNSVersion(), opt.UDPSize(), opt.Do(), opt.Version()))
	}
	if uint8(opt.Hdr.Ttl>>24) != 0 {
		bad("opt-extrcode", "extended rcode non-zero")
	}
	var hasECS, hasNSID, hasKA bool
	var cookies []string
	for _, o := range opt.Option {
		switch v := o.(type) {
		case *dns.EDNS0_SUBNET:
			hasECS = true
		case *dns.EDNS0_NSID:
			hasNSID = true
		case *dns.EDNS0_TCP_KEEPALIVE:
			hasKA = true
		case *dns.EDNS0_COOKIE:
			cookies = append(cookies, v.Cookie)
		case *dns.EDNS0_PADDING:
		default:
			// not a fact the request tracks; the library accepted the payload
			r.Count("info_admitted_untracked_option", 1)
		}
	}
	if hasECS != req.HasECS() || hasNSID != req.HasNSID() || hasKA != req.HasTCPKeepalive() {
		bad("option-flags", fmt.Sprintf("ecs/nsid/keepalive %v %v %v vs %v %v %v", req.HasECS(), req.HasNSID(), req.HasTCPKeepalive(), hasECS, hasNSID, hasKA))
	}
	echo := req.CookieEcho()
	switch {
	case echo == nil && len(cookies) != 0, echo != nil && len(cookies) != 1:
		bad("cookie-count", fmt.Sprintf("echo=%x library cookies=%v", echo, cookies))
	case echo != nil:
		if hex.EncodeToString(echo) != cookies[0] {
			bad("cookie-bytes", fmt.Sprintf("%x vs %s", echo, cookies[0]))
		}
		if cc := req.ClientCookie(); hex.EncodeToString(cc) != cookies[0][:16] {
			bad("cookie-client-half", fmt.Sprintf("%x vs %s", cc, cookies[0][:16]))
		}
	}
}

// ---------------------------------------------------------------------

func hasLimiter(g *Group) bool { return g.Conf.EntryRate > 0 || g.Conf.ClientRate > 0 }

const slowLimit = 150 * time.Millisecond

// runGroup executes one group in the three worlds and judges it.
// Returns false on a harness-level problem (already reported).
func runGroup(r *vlib.Run, g *Group) bool {
	for attempt := 0; attempt < 2; attempt++ {
		msg := runWorld(g, worldMsg)
		raw := runWorld(g, worldRaw)
		inl := runWorld(g, worldInline)
		for _, t := range []*Transcript{msg, raw, inl} {
			if t.Err != "" {
				r.Inconclusive(fmt.Sprintf("group %d world %s: %s", g.Index, t.World, t.Err))
				return false
			}
		}
		if hasLimiter(g) && (msg.Elapsed > slowLimit || raw.Elapsed > slowLimit || inl.Elapsed > slowLimit) {
			// token buckets refill on the wall clock: a stalled run proves nothing
			r.Count("groups_too_slow_for_limiter", 1)
			if attempt == 0 {
				continue
			}
			r.Count("groups_skipped_slow", 1)
			return true
		}
		final := attempt == 1
		o1 := compareTranscripts(r, g, raw, msg, false)
		o2 := compareTranscripts(r, g, inl, msg, false)
		if o1.hdiv != "" || o2.hdiv != "" {
			r.Count("history_divergence", 1)
			if final {
				r.Inconclusive(fmt.Sprintf("group %d: %s%s", g.Index, o1.hdiv, o2.hdiv))
				return false
			}
			continue
		}
		if (o1.retry || o2.retry) && !final && o1.violations == 0 && o2.violations == 0 {
			r.Count("ttl_boundary_retries", 1)
			continue
		}
		// verdict pass (a TTL shift that persisted on the retry is reported too)
		compareTranscripts(r, g, raw, msg, true)
		compareTranscripts(r, g, inl, msg, true)
		account(r, g, raw, inl, msg)
		r.Count("groups", 1)
		r.Count("worlds_built", 3)
		r.Count("steps_compared", 2*len(msg.Steps))
		return true
	}
	return true
}

func main() {
	r := vlib.Start("C05", "exploration")
	r.Assume("the stub (scripted upstream) answers purely by question, so an admission history replays identically in every world")
	r.Assume("option ORDER inside the reply OPT and record order inside a section are not compared (multisets), as the statement allows")
	r.Assume("token buckets refill on the wall clock: a limiter-bearing group whose packet phase took > 150 ms is re-run once and otherwise skipped (counted), never judged")

	if raw := r.ReplayCase(); raw != nil {
		var c replayCase
		if err := json.Unmarshal(raw, &c); err != nil || c.Group == nil {
			var pk struct {
				PacketHex string `json:"packet_hex"`
			}
			if json.Unmarshal(raw, &pk) == nil && pk.PacketHex != "" {
				b, _ := hex.DecodeString(pk.PacketHex)
				checkAdmission(r, b)
				r.Finish("replay of one admission case")
			}
			r.Fatalf("replay: cannot decode case: %v", err)
		}
		runGroup(r, c.Group)
		for _, p := range c.Group.Pkts {
			b, _ := hex.DecodeString(p.Hex)
			checkAdmission(r, b)
		}
		r.Finish("replay of one group")
	}

	ngroups := r.N(300, 7200)
	if v := os.Getenv("C05_GROUPS"); v != "" { // development aid only; ./check never sets it
		fmt.Sscanf(v, "%d", &ngroups)
	}
	npkts := r.N(14, 16)
	start := time.Now()
	for i := 0; i < ngroups; i++ {
		rng := r.RandN("group", i)
		g := genGroup(rng, i, r.Seed, npkts)
		for _, p := range g.Pkts {
			b, _ := hex.DecodeString(p.Hex)
			checkAdmission(r, b)
		}
		if !runGroup(r, g) {
			break
		}
		r.Progress("group %d/%d pairs=%d", i+1, ngroups, r.Counter("pairs_raw"))
	}
	r.Note("wall_groups_s", time.Since(start).Seconds())

	// extra admission-only packets (cheap): the parser vs the library
	nadm := r.N(60000, 1500000)
	arng := r.Rand("admission")
	_, pool := genHistory(r.Rand("admission-pool"), confs[len(confs)-2])
	for i := 0; i < nadm; i++ {
		pkt, _ := genPacket(arng, pool[arng.IntN(len(pool))], "udp")
		checkAdmission(r, pkt)
	}

	for _, c := range []string{"rung_exact", "rung_chase", "rung_cut", "rung_failure", "rung_declined-to-decode", "rung_materialized",
		"rung_strict-local", "rejected", "handed_to_resolution", "inline_served", "inline_handoff"} {
		r.Require(c, 5)
	}
	for _, c := range []string{"class_badvers", "class_formerr", "class_notimp", "class_dropped", "class_truncated", "class_servfail",
		"class_nxdomain", "class_noerror", "rung_undecodable"} {
		r.Require(c, 2)
	}
	r.Require("pairs_raw", int64(r.N(3000, 80000)))
	r.Require("admission_strict", 5000)
	r.Require("admission_declined_decodable", 1000)
	r.Finish("distinct_nontrivial = distinct (config, transport, state family of the question, wire rung that served it in the raw world, reply class) tuples; " +
		"conf_x_state = (config, state family) pairs a case packet targeted")
}
