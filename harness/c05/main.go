// C05 — wire fast path and decoded path are observationally equivalent.
//
// Differential runtime monitor. For every generated GROUP (configuration,
// transport flavour, admission history, case packets) three WORLDS are built
// one after the other from the same config and the same history (the stub
// answers purely by question, so histories replay exactly):
//
//	raw     packet P → Server.ServeRaw on a strict-slot job
//	inline  packet P → Server.ServeRawInline, then ServeRawReplay on handoff
//	msg     Unpack(P) → Server.ServeMsg with a transport of the same proto/addr
//
// After each P a fixed probe suffix is served through the SAME entries in all
// worlds. Transcripts (decoded replies, upstream requests, cache state) of
// raw↔msg and inline↔msg are compared step by step.
package main

import (
	"encoding/hex"
	"encoding/json"
	"fmt"
	"os"
	"path/filepath"
	"sort"
	"strings"
	"time"

	"github.com/miekg/dns"

	"github.com/semihalev/sdns/middleware"
	rc "github.com/semihalev/sdns/zzverif/replycontract"
	"github.com/semihalev/sdns/zzverif/vlib"
)

// replayCase is what a violation carries.
type replayCase struct {
	Group   *Group `json:"group"`
	World   string `json:"world"`
	Step    string `json:"step"`
	Field   string `json:"field"`
	Detail  string `json:"detail"`
	PktHex  string `json:"packet_hex,omitempty"`
	Client  string `json:"client,omitempty"`
	Subject any    `json:"subject_world,omitempty"`
	Ref     any    `json:"reference_world,omitempty"`
}

type outcome struct {
	violations int
	retry      bool   // first difference was a uniform ±1 s TTL shift
	slow       bool   // limiter-bearing group ran too slowly to trust token arithmetic
	hdiv       string // history diverged (nondeterminism): inconclusive
}

func probeClass(label string) (string, string) {
	// "P3" → ("P","") ; "P3.burst1-msg" → ("probe","burst-msg")
	if strings.HasPrefix(label, "S") {
		return "session", ""
	}
	i := strings.IndexByte(label, '.')
	if i < 0 {
		if strings.HasPrefix(label, "h") {
			return "history", ""
		}
		return "P", ""
	}
	p := label[i+1:]
	p = strings.Map(func(r rune) rune {
		if r >= '0' && r <= '9' {
			return -1
		}
		return r
	}, p)
	return "probe", p
}

func rungClass(r string) string {
	if i := strings.IndexByte(r, '/'); i >= 0 {
		return r[:i]
	}
	return r
}

// compareTranscripts judges world a (raw or inline) against the decoded
// reference m. report=false only classifies (first attempt).
func compareTranscripts(r *vlib.Run, g *Group, a, m *Transcript, report bool) outcome {
	var out outcome
	if len(a.Steps) != len(m.Steps) {
		out.hdiv = fmt.Sprintf("step counts differ: %d vs %d", len(a.Steps), len(m.Steps))
		return out
	}
	lastRung := ""
	lastPkt := -1
	for i := range a.Steps {
		x, y := a.Steps[i], m.Steps[i]
		kind, pclass := probeClass(x.Label)
		if kind == "P" {
			lastRung = rungClass(x.Rung)
			lastPkt++
		}
		var ds []Diff
		if y.Skip != "" {
			// the decoded world had nothing to serve (library cannot unpack P):
			// the strict entry must have refused it too
			if x.Reply.Wrote || rungClass(x.Rung) != "undecodable" {
				ds = append(ds, Diff{Field: "served-undecodable", Detail: "library cannot unpack the packet but the strict entry served it (" + x.Rung + ")"})
			}
		} else {
			ds = compareCanon(x.Reply, y.Reply)
		}
		if strings.Join(x.Stub, "\n") != strings.Join(y.Stub, "\n") {
			f := "upstream"
			if len(x.Stub) != len(y.Stub) {
				f = "upstream-count"
			}
			ds = append(ds, Diff{Field: f, Detail: fmt.Sprintf("requests handed to resolution differ: %v vs %v", x.Stub, y.Stub)})
		}
		if fmt.Sprint(x.State) != fmt.Sprint(y.State) {
			ds = append(ds, Diff{Field: "cache-state", Detail: fmt.Sprintf("sizes [live positive, live negative, failure, cut, proof] %v vs %v", x.State, y.State)})
		}
		if fmt.Sprint(x.HitMs) != fmt.Sprint(y.HitMs) && report {
			// informational only: the hit/miss statistics are not visible to later
			// queries, and the composer documents that hop entries do not tick
			// their own hit machinery (entry_wire_chase.go)
			r.Count("info_hitmiss_stat_diffs", 1)
		}
		if len(ds) == 0 {
			continue
		}
		// differences with a proven, recorded explanation (FINDINGS.md #3, #4)
		switch kind {
		case "P":
			if lastPkt >= 0 && lastPkt < len(g.Pkts) {
				ds = explainTruncation(ds, x.Reply, y.Reply, g.Proto, g.Pkts[lastPkt].Hex)
			}
		case "session":
			ds = explainTruncation(ds, x.Reply, y.Reply, x.Kind[:strings.IndexByte(x.Kind+".", '.')], x.PktHex)
		}
		if kind == "P" || kind == "session" {
			ds = explainHopPrefetch(ds, g, x, y)
		}
		if kind == "history" {
			ttlOnly := true
			for _, d := range ds {
				if !d.TTLOne {
					ttlOnly = false
				}
			}
			if ttlOnly {
				out.retry = true
			} else {
				out.hdiv = fmt.Sprintf("history step %s differs between worlds built identically: %s: %s", x.Label, ds[0].Field, ds[0].Detail)
			}
			return out
		}
		allTTL := true
		for _, d := range ds {
			if !d.TTLOne {
				allTTL = false
			}
		}
		if allTTL && !report {
			out.retry = true
			return out
		}
		if !report && len(ds) == 1 && ds[0].Field == "cache-state" {
			// live-entry counts depend on the clock like TTLs do (an entry may run
			// out between two worlds' visits): rebuild once, report what persists
			out.retry = true
			return out
		}
		if !report {
			soft := true
			for _, d := range ds {
				if !d.Soft {
					soft = false
				}
			}
			out.violations += len(ds)
			if soft {
				continue
			}
			return out
		}
		hard := false
		for _, d := range ds {
			var sig string
			if !d.Soft {
				hard = true
			}
			if d.Sig != "" {
				sig = d.Sig
			} else if kind == "session" {
				sig = vlib.Sig(a.World, "session", d.Field, "step="+x.Kind)
			} else if kind == "P" {
				sig = vlib.Sig(a.World, "P", d.Field, "rung="+lastRung)
			} else {
				sig = vlib.Sig(a.World, "probe."+pclass, d.Field, "after="+lastRung)
			}
			c := replayCase{Group: g, World: a.World, Step: x.Label, Field: d.Field, Detail: d.Detail, Subject: x, Ref: y}
			if lastPkt >= 0 && lastPkt < len(g.Pkts) {
				c.PktHex, c.Client = g.Pkts[lastPkt].Hex, g.Pkts[lastPkt].Client
			}
			if kind == "session" {
				c.PktHex, c.Client = x.PktHex, sessionClient(g, x.Label)
				what := fmt.Sprintf("%s world vs decoded world, conf=%s group=%d session step %s (%s, client %s, rung %s): %s — %s; the session so far: %s",
					a.World, g.Conf.Name, g.Index, x.Label, x.Kind, c.Client, x.Rung, d.Field, d.Detail, sessionTrail(a, m, i))
				if len(what) > 1400 {
					what = what[:1400] + "…"
				}
				r.Violation(sig, what, c)
				out.violations++
				continue
			}
			what := fmt.Sprintf("%s world vs decoded world, conf=%s proto=%s group=%d step=%s (packet %d, target %s, rung %s): %s — %s",
				a.World, g.Conf.Name, g.Proto, g.Index, x.Label, lastPkt, pktTarget(g, lastPkt), x.Rung+"|after:"+lastRung, d.Field, d.Detail)
			if len(what) > 900 {
				what = what[:900] + "…"
			}
			r.Violation(sig, what, c)
			out.violations++
		}
		// state may have diverged: later steps of this group are not independent evidence
		if hard {
			return out
		}
	}
	return out
}

const (
	sigTruncation     = "truncation/decoded-path-length-estimate-exceeds-packed-size"
	sigTruncationCase = "truncation/decoded-path-case-sensitive-compression-over-limit"
	sigHopPrefetch    = "chase-hop-prefetch/wire-composer-skips-hop-refresh"
)

// udpLimit is the reply size the server allows a UDP client that sent pkt:
// the advertised EDNS size clamped to [512, 1232], 512 without an OPT.
func udpLimit(pkt []byte) (int, bool) {
	m := new(dns.Msg)
	if m.Unpack(pkt) != nil {
		return 0, false
	}
	opt := m.IsEdns0()
	if opt == nil {
		return dns.MinMsgSize, true
	}
	size := int(opt.UDPSize())
	if size < dns.MinMsgSize {
		size = dns.MinMsgSize
	}
	if size > 1232 {
		size = 1232
	}
	return size, true
}

// explainTruncation recognises ONE mechanism (FINDINGS.md #3): over UDP the
// decoded path truncated (TC=1, empty sections) a reply the byte path sent
// whole, although the reply fits the client's limit — as the byte path sent it
// AND as the library packs it — because the decoded path decides on
// dns.Msg.Len(), an estimate that exceeds the packed size. Everything is
// re-measured here; if any part of the explanation fails the differences stay
// what they are.
func explainTruncation(ds []Diff, x, y Canon, proto, reqHex string) []Diff {
	if proto != "udp" || !x.Wrote || !y.Wrote || !x.Unpack || !y.Unpack || len(x.Bits) != 8 || len(y.Bits) != 8 {
		return ds
	}
	if x.Bits[2] != '0' || y.Bits[2] != '1' || len(y.Answer)+len(y.Ns)+len(y.Extra) != 0 || x.RawHex == "" {
		return ds
	}
	req, err := hex.DecodeString(reqHex)
	if err != nil {
		return ds
	}
	limit, ok := udpLimit(req)
	if !ok {
		return ds
	}
	raw, _ := hex.DecodeString(x.RawHex)
	m := new(dns.Msg)
	if len(raw) > limit || m.Unpack(raw) != nil {
		return ds
	}
	// The decoded path's message is not the byte path's: names that the byte
	// path reads through a pointer into the question carry the client's letter
	// case there (FINDINGS #1) and the stored case on the decoded path, which
	// changes what the library's case-sensitive compression (and Len) makes of
	// them. Measure both spellings: as the byte path sent it, and with every
	// record name in the stored (lower-case) spelling under the client's
	// question.
	m.Compress = true
	// A second, different mechanism (FINDINGS.md #5) is recognised first: the
	// decoded path's own message — stored spelling under the client's
	// mixed-case question — really does not fit once packed, because the
	// library's compression is case-sensitive and none of the stored
	// (lower-case) names can point into the client's question, while the byte
	// path rewrites the stored question in place and keeps every pointer into
	// it. Accepted only when everything is re-measured: the question is not
	// all lower-case, the stored spelling packs over the limit, and the very
	// same message packs within it once the question is lower-cased too.
	if len(m.Question) == 1 && m.Question[0].Name != strings.ToLower(m.Question[0].Name) {
		stored := storedSpelling(m)
		sp, serr := stored.Pack()
		lowq := stored.Copy()
		lowq.Compress = true
		lowq.Question[0].Name = strings.ToLower(lowq.Question[0].Name)
		lp, lerr := lowq.Pack()
		if serr == nil && lerr == nil && len(sp) > limit && len(lp) <= limit {
			var out []Diff
			for _, d := range ds {
				switch {
				case d.Field == "header.TC", d.Field == "header.AD", strings.HasPrefix(d.Field, "section."), strings.HasPrefix(d.Field, "ttl."):
				default:
					out = append(out, d)
				}
			}
			return append(out, Diff{Field: "truncation", Soft: true, Sig: sigTruncationCase,
				Detail: fmt.Sprintf("byte path sent the whole reply (%d octets), decoded path sent TC=1 with empty sections; client limit %d; the decoded path's message (stored spelling under the client's mixed-case question %q) packs into %d octets because the library's compression is case-sensitive, and into %d octets under an all-lower-case question",
					len(raw), limit, m.Question[0].Name, len(sp), len(lp))})
		}
	}
	variants := []*dns.Msg{m, storedSpelling(m)}
	var est, packedLen int
	explained := false
	for _, v := range variants {
		e := v.Len()
		packed, perr := v.Pack()
		if perr == nil && len(packed) <= limit && e > limit {
			est, packedLen, explained = e, len(packed), true
			break
		}
	}
	if !explained {
		return ds
	}
	var out []Diff
	for _, d := range ds {
		switch {
		case d.Field == "header.TC", d.Field == "header.AD", strings.HasPrefix(d.Field, "section."), strings.HasPrefix(d.Field, "ttl."):
		default:
			out = append(out, d)
		}
	}
	return append(out, Diff{Field: "truncation", Soft: true, Sig: sigTruncation,
		Detail: fmt.Sprintf("byte path sent the whole reply (%d octets), decoded path sent TC=1 with empty sections; client limit %d, the library packs the reply into %d octets but Msg.Len() estimates %d",
			len(raw), limit, packedLen, est)})
}

// storedSpelling returns a copy of m whose record names (owners and the names
// inside rdata) are lower-cased; the question keeps the client's spelling.
func storedSpelling(m *dns.Msg) *dns.Msg {
	c := m.Copy()
	c.Compress = true
	low := func(rrs []dns.RR) {
		for _, rr := range rrs {
			if rr.Header().Rrtype == dns.TypeOPT {
				continue
			}
			rr.Header().Name = strings.ToLower(rr.Header().Name)
			switch v := rr.(type) {
			case *dns.CNAME:
				v.Target = strings.ToLower(v.Target)
			case *dns.DNAME:
				v.Target = strings.ToLower(v.Target)
			case *dns.NS:
				v.Ns = strings.ToLower(v.Ns)
			case *dns.PTR:
				v.Ptr = strings.ToLower(v.Ptr)
			case *dns.MX:
				v.Mx = strings.ToLower(v.Mx)
			case *dns.SRV:
				v.Target = strings.ToLower(v.Target)
			case *dns.MB:
				v.Mb = strings.ToLower(v.Mb)
			case *dns.MG:
				v.Mg = strings.ToLower(v.Mg)
			case *dns.MR:
				v.Mr = strings.ToLower(v.Mr)
			case *dns.MF:
				v.Mf = strings.ToLower(v.Mf)
			case *dns.MD:
				v.Md = strings.ToLower(v.Md)
			case *dns.MINFO:
				v.Rmail, v.Email = strings.ToLower(v.Rmail), strings.ToLower(v.Email)
			case *dns.SOA:
				v.Ns, v.Mbox = strings.ToLower(v.Ns), strings.ToLower(v.Mbox)
			case *dns.RRSIG:
				v.SignerName = strings.ToLower(v.SignerName)
			case *dns.NSEC:
				v.NextDomain = strings.ToLower(v.NextDomain)
			}
		}
	}
	low(c.Answer)
	low(c.Ns)
	low(c.Extra)
	return c
}

// explainHopPrefetch recognises ONE mechanism (FINDINGS.md #4): with prefetch
// on, the wire composer served an alias chain and did not start the background
// refresh of a prefetch-due HOP entry that the decoded chase (which reaches the
// hop through the internal pipeline) did start. Proven from the observation:
// the subject step was served by the composer, the replies are identical, and
// everything the decoded world sent upstream in addition is an internal request
// for a hop owner of the composed answer (never for the question itself).
func explainHopPrefetch(ds []Diff, g *Group, x, y Step) []Diff {
	if g.Conf.Prefetch == 0 || rungClass(x.Rung) != "chase" || len(x.Reply.QD) != 1 {
		return ds
	}
	for _, d := range ds {
		if d.Field != "upstream-count" && d.Field != "upstream" {
			return ds
		}
	}
	qname := strings.ToLower(x.Reply.QD[0][:strings.IndexByte(x.Reply.QD[0], '|')])
	hops := map[string]bool{}
	for _, rr := range x.Reply.Answer {
		if rr.Owner != qname {
			hops[rr.Owner] = true
		}
	}
	have := map[string]int{}
	for _, l := range x.Stub {
		have[l]++
	}
	extra := 0
	var names []string
	for _, l := range y.Stub {
		if have[l] > 0 {
			have[l]--
			continue
		}
		f := strings.SplitN(l, "|", 5)
		if len(f) < 5 || f[3] != "int=true" || !hops[strings.ToLower(f[0])] {
			return ds
		}
		extra++
		names = append(names, f[0])
	}
	for _, n := range have {
		if n != 0 {
			return ds
		}
	}
	if extra == 0 {
		return ds
	}
	return []Diff{{Field: "chase-hop-prefetch", Sig: sigHopPrefetch,
		Detail: fmt.Sprintf("the wire composer served %s from cached hops and started no refresh; the decoded chase refreshed the prefetch-due hop(s) %v in the background", qname, names)}}
}

func sessionClient(g *Group, label string) string {
	var si, k int
	if _, err := fmt.Sscanf(label, "S%d.%d", &si, &k); err == nil && si < len(g.Sessions) {
		return g.Sessions[si].Client
	}
	return "?"
}

// sessionTrail renders the steps of the session up to index i as
// "kind:class/class" (subject world / decoded world).
func sessionTrail(a, m *Transcript, i int) string {
	var b strings.Builder
	prefix := a.Steps[i].Label[:strings.IndexByte(a.Steps[i].Label, '.')+1]
	for j := 0; j <= i; j++ {
		if !strings.HasPrefix(a.Steps[j].Label, prefix) {
			continue
		}
		if i-j > 8 {
			continue
		}
		fmt.Fprintf(&b, " %s:%s/%s", a.Steps[j].Kind, rcodeClass(a.Steps[j].Reply), rcodeClass(m.Steps[j].Reply))
	}
	return b.String()
}

func pktTarget(g *Group, i int) string {
	if i >= 0 && i < len(g.Pkts) {
		return g.Pkts[i].Target + "[" + g.Pkts[i].Shape + "]"
	}
	return "?"
}

func rcodeClass(c Canon) string {
	switch {
	case c.Panic != "":
		return "panic"
	case !c.Wrote:
		return "dropped"
	case !c.Unpack:
		return "garbage"
	case c.Bits != "" && c.Bits[2] == '1':
		return "truncated"
	}
	if c.Rcode == dns.RcodeBadVers {
		return "badvers"
	}
	if s, ok := dns.RcodeToString[c.Rcode]; ok {
		return strings.ToLower(s)
	}
	return fmt.Sprintf("rcode%d", c.Rcode)
}

// account records what the raw/inline worlds observed (evidence).
func account(r *vlib.Run, g *Group, raw, inl, msg *Transcript) {
	pi := -1
	for i := range raw.Steps {
		s := raw.Steps[i]
		kind, _ := probeClass(s.Label)
		switch kind {
		case "history":
			continue
		case "probe":
			r.Count("probe_pairs", 2)
			r.Count("probe_rung_"+rungClass(s.Rung), 1)
			continue
		case "session":
			accountSession(r, g, s, inl.Steps[i], msg.Steps[i])
			continue
		}
		pi++
		p := g.Pkts[pi]
		r.Count("pairs_raw", 1)
		r.Count("pairs_inline", 1)
		r.Eval(2)
		rung := rungClass(s.Rung)
		r.Count("rung_"+rung, 1)
		cls := rcodeClass(s.Reply)
		r.Count("class_"+cls, 1)
		switch cls {
		case "formerr", "notimp", "badvers", "badcookie", "refused", "dropped":
			r.Count("rejected", 1)
		}
		if rung == "undecodable" {
			r.Count("rejected", 1)
		}
		if len(s.Stub) > 0 {
			r.Count("handed_to_resolution", 1)
		}
		if strings.Contains(s.Rung, "write-refused") {
			r.Count("write_refused", 1)
		}
		is := inl.Steps[i]
		switch {
		case strings.HasSuffix(is.Rung, "/inline"):
			r.Count("inline_served", 1)
			r.Count("inline_rung_"+rungClass(is.Rung), 1)
		case strings.Contains(is.Rung, "/replay"):
			r.Count("inline_handoff", 1)
		}
		r.DistinctIn("conf_x_state", g.Conf.Name+"/"+p.Target)
		r.DistinctIn("conf_x_state_x_rung", g.Conf.Name+"/"+p.Target+"/"+rung)
		r.DistinctIn("state_x_rung", p.Target+"/"+rung)
		r.Distinct(strings.Join([]string{g.Conf.Name, g.Proto, p.Target, rung, cls}, "/"))
		r.Count("state_"+p.Target+"_"+rung, 1)
		if p.Target == "chain-mixed" && rung == "chase" {
			accountMixed(r, s, msg.Steps[i])
		}
		if p.Target == "chain-rich" {
			accountRich(r, p, s, msg.Steps[i])
		}
		if strings.HasPrefix(p.Note, "depth=") {
			accountDepth(r, g, p, s, msg.Steps[i])
		}
		for _, tag := range strings.Split(p.Shape, ",") {
			if tag != "" {
				if j := strings.IndexAny(tag, "0123456789"); j > 0 && !strings.HasPrefix(tag, "name:") {
					tag = tag[:j]
				}
				r.DistinctIn("shape_tags", tag)
			}
		}
		// informational reply-contract monitor (C06 owns the verdict)
		pkt, _ := hex.DecodeString(p.Hex)
		host := p.Client
		if j := strings.LastIndexByte(host, ':'); j >= 0 {
			host = strings.Trim(host[:j], "[]")
		}
		opts := rc.Options{NSID: g.Conf.NSID, VerifyCookie: true, CookieSecret: g.Conf.Cookie, ClientIP: host, KeepaliveUnits: 80, ECSEnabled: g.Conf.ECS}
		for _, st := range []Step{s, msg.Steps[i]} {
			if st.Reply.Wrote && st.Reply.RawHex != "" {
				reply, _ := hex.DecodeString(st.Reply.RawHex)
				for _, b := range rc.Check(g.Proto, pkt, reply, opts) {
					if !b.Info {
						r.Count("contract_breaches", 1)
						r.DistinctIn("contract_breach_rules", b.Rule)
					}
				}
				r.Count("contract_checked", 1)
			}
		}
		if os.Getenv("C05_DUMP") != "" {
			fmt.Fprintf(os.Stderr, "DUMP g=%d conf=%s %s P%d target=%s shape=%s rung=%s inline=%s class=%s msgclass=%s stub=%d\n", g.Index, g.Conf.Name, g.Proto, pi,
				p.Target, p.Shape, s.Rung, is.Rung, cls, rcodeClass(msg.Steps[i].Reply), len(s.Stub))
		}
		if pi < 2 && g.Index < 3 {
			r.Sample(map[string]any{"conf": g.Conf.Name, "proto": g.Proto, "packet": p, "rung": s.Rung, "inline_rung": is.Rung,
				"reply_class": cls, "upstream": s.Stub})
		}
	}
}

// accountMixed records which kinds of hop-to-hop difference the wire composer
// actually served (s.Note: per-hop attribute bits of the admissions the hops
// stem from, head of the chain first).
func accountMixed(r *vlib.Run, s, ref Step) {
	r.Count("mixed_chase_served", 1)
	for _, f := range strings.Fields(s.Note) {
		k, v, ok := strings.Cut(f, "=")
		if !ok {
			continue
		}
		if strings.Contains(v, "0") && strings.Contains(v, "1") {
			r.Count("mixed_chase_hops_differ_"+k, 1)
			if k == "ad" {
				switch {
				case v[0] == '1':
					r.Count("mixed_chase_head_ad1_hop_ad0", 1)
				default:
					r.Count("mixed_chase_head_ad0_hop_ad1", 1)
				}
				// the client can see the AD verdict: DO or AD in the query, CD clear
				if e := s.Reply.EDNS; len(s.Reply.Bits) == 8 && s.Reply.Bits[7] == '0' && (e != nil && e.DO || ref.Reply.Bits != "" && ref.Reply.Bits[6] == '1') {
					r.Count("mixed_chase_ad_differs_visible", 1)
				}
			}
		}
		r.DistinctIn("mixed_chase_states", f)
	}
	if len(s.Reply.Bits) == 8 {
		r.Count("mixed_chase_reply_ad"+string(s.Reply.Bits[6]), 1)
	}
}

// wireBorn reports whether the strict parser admitted the step's packet (the
// wire ladder ran for it).
func wireBorn(s Step) bool {
	switch rungClass(s.Rung) {
	case "undecodable", "declined-to-decode":
		return false
	}
	return true
}

var richQtypesSeen = map[string]bool{}

// accountRich records a case packet aimed at a bare alias in front of a rich
// terminal (p.Note: "qtype=<T> hops=<n>"): which question types went through
// the wire ladder, which the composer served, and what the terminal RRset the
// client was owed looked like (taken from the decoded world's reply).
func accountRich(r *vlib.Run, p Pkt, s, ref Step) {
	if !wireBorn(s) || len(ref.Reply.QD) != 1 {
		return
	}
	var qt, hops string
	for _, f := range strings.Fields(p.Note) {
		if k, v, ok := strings.Cut(f, "="); ok && k == "qtype" {
			qt = v
		} else if ok && k == "hops" {
			hops = v
		}
	}
	// the packet may ask something else than the target (hostile name shapes)
	f := strings.Split(ref.Reply.QD[0], "|")
	if len(f) != 3 || f[1] != fmt.Sprint(dns.StringToType[qt]) || !strings.HasPrefix(strings.ToLower(f[0]), "cn") {
		return
	}
	rung := rungClass(s.Rung)
	r.Count("rich_alias_pairs", 1)
	r.Count("rich_alias_rung_"+rung, 1)
	r.Count("rich_alias_qtype_"+qt+"_"+rung, 1)
	r.DistinctIn("rich_alias_qtype_x_hops_x_rung", qt+"/"+hops+"/"+rung)
	if !richQtypesSeen[qt] {
		richQtypesSeen[qt] = true
		r.Count("rich_alias_qtypes_seen", 1)
	}
	if rung == "chase" {
		r.Count("rich_chase_served", 1)
	}
	if ref.Reply.Rcode != dns.RcodeSuccess {
		return
	}
	aliases, terminal, named := 0, 0, 0
	for _, rr := range ref.Reply.Answer {
		switch {
		case rr.Type == dns.TypeCNAME && qt != "CNAME":
			aliases++
		case dns.TypeToString[rr.Type] == qt:
			terminal++
			if len(rr.Names) > 0 {
				named++
			}
		}
	}
	if aliases == 0 || terminal == 0 {
		return
	}
	r.Count("rich_alias_answered", 1)
	if terminal >= 2 {
		r.Count("rich_alias_multi_record_terminal", 1)
	}
	if named >= 1 {
		// a terminal RRset whose rdata holds compressible domain names
		r.Count("rich_alias_compressible_terminal", 1)
		if named >= 2 {
			r.Count("rich_alias_compressible_terminal_multi", 1)
		}
	}
}

// accountDepth records a case packet aimed at the denial / failure interplay of
// the depth block (p.Note: "depth=<apex labels> below=<labels below the apex>").
func accountDepth(r *vlib.Run, g *Group, p Pkt, s, ref Step) {
	if !wireBorn(s) {
		return
	}
	var depth, below, outer string
	for _, f := range strings.Fields(p.Note) {
		if k, v, ok := strings.Cut(f, "="); ok && k == "depth" {
			depth = v
		} else if ok && k == "below" {
			below = v
		} else if ok && k == "outer" {
			outer = v
		}
	}
	rung, cls := rungClass(s.Rung), rcodeClass(ref.Reply)
	cd := len(ref.Reply.Bits) == 8 && ref.Reply.Bits[7] == '1'
	r.Count("depth_pairs", 1)
	r.Count("depth_"+p.Target+"_"+rung+"_"+cls, 1)
	r.DistinctIn("depth_x_below_x_state_x_rung", depth+"/"+below+"/"+p.Target+"/"+rung+"/"+cls)
	if outer != "" {
		// the root zone holds a denial snapshot as well (two zones on the path)
		r.Count("depth_outer_root_"+outer+"_"+p.Target+"_"+rung, 1)
		r.Count("depth_outer_root_"+outer, 1)
	}
	switch p.Target {
	case "failure-denied-later", "failure-denied-by-replacement":
		// the question failed, the failure is inside its first backoff interval
		// (the depth block closes the history) and a denial admitted since covers
		// the name: the decoded ladder answers from the denial
		if cls == "nxdomain" && !cd && len(s.Stub) == 0 {
			r.Count("denied_failure_shadowed", 1)
			r.Count("denied_failure_shadowed_depth"+depth, 1)
			r.Count("denied_failure_shadowed_below"+below, 1)
			r.Count("denied_failure_shadowed_"+p.Target, 1)
		}
	case "failure-witness-depth":
		// no denial state moved since the failure: served from bytes
		if rung == "failure" {
			r.Count("depth_failure_served_wire", 1)
			r.Count("depth_failure_served_wire_depth"+depth, 1)
		}
	case "failure-witness-replaced":
		if cls == "servfail" && len(s.Stub) == 0 {
			r.Count("depth_failure_witness_replaced_"+rung, 1)
		}
	}
	_ = g
}

// accountSession records what a session step observed (raw world s, inline
// world is, decoded world ms).
func accountSession(r *vlib.Run, g *Group, s, is, ms Step) {
	r.Count("session_steps", 1)
	r.Eval(2)
	cls := rcodeClass(s.Reply)
	r.Count("session_class_"+cls, 1)
	r.Count("session_"+s.Kind+"_"+cls, 1)
	r.DistinctIn("session_kind_x_class", s.Kind+"/"+cls)
	r.DistinctIn("session_kind_x_class_x_rung", s.Kind+"/"+cls+"/"+rungClass(s.Rung))
	r.Distinct(strings.Join([]string{g.Conf.Name, "session", s.Kind, rungClass(s.Rung), cls}, "/"))
	if s.Echoed {
		r.Count("session_echoed_server_cookie", 1)
		if cls != "badcookie" && cls != "dropped" {
			r.Count("session_echo_accepted", 1)
		}
	}
	if replyCookie(s.Reply) != "" {
		r.Count("session_replies_with_server_cookie", 1)
	}
	if strings.HasPrefix(s.Kind, "tcp.") {
		r.Count("session_tcp_steps", 1)
		// a cookie that cannot match what the server remembers, over a stream
		// transport, answered: the plain-limiter leg that refreshes the cookie
		for _, k := range []string{".cc", ".wrong", ".graft", ".burst-cc", ".burst-wrong"} {
			if strings.HasSuffix(s.Kind, k) && cls != "dropped" && g.Conf.ClientRate > 0 {
				r.Count("session_tcp_mismatch_answered", 1)
			}
		}
	}
	if strings.Contains(s.Kind, "burst") {
		r.Count("session_burst_steps", 1)
		if cls == "dropped" {
			r.Count("session_burst_dropped_by_limiter", 1)
		}
	} else if cls == "dropped" && g.Conf.ClientRate > 0 {
		r.Count("session_dropped_outside_burst", 1)
	}
	if len(s.Stub) > 0 {
		r.Count("session_handed_to_resolution", 1)
	}
	switch {
	case strings.HasSuffix(is.Rung, "/inline"):
		r.Count("session_inline_served", 1)
	case strings.Contains(is.Rung, "/replay"):
		r.Count("session_inline_handoff", 1)
	}
	if rungClass(s.Rung) != "declined-to-decode" && rungClass(s.Rung) != "undecodable" {
		r.Count("session_wire_born", 1)
	}
	_ = ms
}

// ---------------------------------------------------------------------
// Admission conservatism: ParseWire(P) true ⇒ the library unpacks P and
// yields the same question / OPT facts.
// ---------------------------------------------------------------------

func checkAdmission(r *vlib.Run, pkt []byte) {
	var req middleware.Request
	ok := false
	func() {
		defer func() {
			if p := recover(); p != nil {
				r.Violation("admission/panic/ParseWire", fmt.Sprintf("Request.ParseWire panicked: %v", p), map[string]string{"packet_hex": hex.EncodeToString(pkt)})
			}
		}()
		ok = req.ParseWire(pkt, time.Now(), nil)
	}()
	r.Count("admission_checked", 1)
	m := new(dns.Msg)
	err := m.Unpack(pkt)
	if !ok {
		if err == nil {
			r.Count("admission_declined_decodable", 1)
		} else {
			r.Count("admission_declined_undecodable", 1)
		}
		return
	}
	r.Count("admission_strict", 1)
	r.Eval(1)
	bad := func(field, detail string) {
		r.Violation("admission/"+field, "Request.ParseWire admitted a packet but "+detail,
			map[string]string{"packet_hex": hex.EncodeToString(pkt), "field": field})
	}
	if err != nil {
		bad("library-rejects", "the library refuses it: "+err.Error())
		return
	}
	if len(m.Question) != 1 || len(m.Answer) != 0 || len(m.Ns) != 0 {
		bad("sections", fmt.Sprintf("library sees qd=%d an=%d ns=%d", len(m.Question), len(m.Answer), len(m.Ns)))
		return
	}
	name, _, nerr := dns.UnpackDomainName(req.WireName(), 0)
	if nerr != nil || name != m.Question[0].Name {
		bad("qname", fmt.Sprintf("wire name %q (err %v) vs library %q", name, nerr, m.Question[0].Name))
	}
	if req.Qtype() != m.Question[0].Qtype || req.Qclass() != m.Question[0].Qclass {
		bad("qtype-qclass", fmt.Sprintf("%d/%d vs %d/%d", req.Qtype(), req.Qclass(), m.Question[0].Qtype, m.Question[0].Qclass))
	}
	if req.ID() != m.Id || req.RD() != m.RecursionDesired || req.CD() != m.CheckingDisabled || req.AD() != m.AuthenticatedData || req.Opcode() != m.Opcode {
		bad("header", fmt.Sprintf("id/rd/cd/ad/opcode %d %v %v %v %d vs %d %v %v %v %d", req.ID(), req.RD(), req.CD(), req.AD(), req.Opcode(),
			m.Id, m.RecursionDesired, m.CheckingDisabled, m.AuthenticatedData, m.Opcode))
	}
	if req.WireQuestionEnd() != 12+len(req.WireName())+4 {
		bad("question-end", "question end offset inconsistent")
	}
	opt := m.IsEdns0()
	if req.HasOPT() != (opt != nil) {
		bad("opt-presence", fmt.Sprintf("HasOPT=%v vs library OPT=%v", req.HasOPT(), opt != nil))
		return
	}
	want := 0
	if opt != nil {
		want = 1
	}
	if len(m.Extra) != want {
		bad("additional", fmt.Sprintf("library sees %d additional records", len(m.Extra)))
	}
	if opt == nil {
		if req.HasECS() || req.HasNSID() || req.HasTCPKeepalive() || req.CookieEcho() != nil || req.DO() || req.UDPSize() != 0 {
			bad("opt-facts-without-opt", "EDNS facts set although there is no OPT")
		}
		return
	}
	if opt.Hdr.Name != "." {
		bad("opt-owner", "OPT owner is "+opt.Hdr.Name)
	}
	if req.UDPSize() != opt.UDPSize() || req.DO() != opt.Do() || req.EDNSVersion() != opt.Version() {
		bad("opt-scalars", fmt.Sprintf("size/do/ver %d %v %d vs %d %v %d", req.UDPSize(), req.DO(), req.EDNSVersion(), opt.UDPSize(), opt.Do(), opt.Version()))
	}
	if uint8(opt.Hdr.Ttl>>24) != 0 {
		bad("opt-extrcode", "extended rcode non-zero")
	}
	var hasECS, hasNSID, hasKA bool
	var cookies []string
	for _, o := range opt.Option {
		switch v := o.(type) {
		case *dns.EDNS0_SUBNET:
			hasECS = true
		case *dns.EDNS0_NSID:
			hasNSID = true
		case *dns.EDNS0_TCP_KEEPALIVE:
			hasKA = true
		case *dns.EDNS0_COOKIE:
			cookies = append(cookies, v.Cookie)
		case *dns.EDNS0_PADDING:
		default:
			// not a fact the request tracks; the library accepted the payload
			r.Count("info_admitted_untracked_option", 1)
		}
	}
	if hasECS != req.HasECS() || hasNSID != req.HasNSID() || hasKA != req.HasTCPKeepalive() {
		bad("option-flags", fmt.Sprintf("ecs/nsid/keepalive %v %v %v vs %v %v %v", req.HasECS(), req.HasNSID(), req.HasTCPKeepalive(), hasECS, hasNSID, hasKA))
	}
	echo := req.CookieEcho()
	switch {
	case echo == nil && len(cookies) != 0, echo != nil && len(cookies) != 1:
		bad("cookie-count", fmt.Sprintf("echo=%x library cookies=%v", echo, cookies))
	case echo != nil:
		if hex.EncodeToString(echo) != cookies[0] {
			bad("cookie-bytes", fmt.Sprintf("%x vs %s", echo, cookies[0]))
		}
		if cc := req.ClientCookie(); hex.EncodeToString(cc) != cookies[0][:16] {
			bad("cookie-client-half", fmt.Sprintf("%x vs %s", cc, cookies[0][:16]))
		}
	}
}

// ---------------------------------------------------------------------

// dropSessions removes the session steps (not judged).
func (t *Transcript) dropSessions() {
	for i, s := range t.Steps {
		if strings.HasPrefix(s.Label, "S") {
			t.Steps = t.Steps[:i]
			return
		}
	}
}

func hasLimiter(g *Group) bool { return g.Conf.EntryRate > 0 || g.Conf.ClientRate > 0 }

const slowLimit = 150 * time.Millisecond

// runGroup executes one group in the three worlds and judges it.
// Returns false on a harness-level problem (already reported).
func runGroup(r *vlib.Run, g *Group) bool {
	for attempt := 0; attempt < 2; attempt++ {
		resetCanonMemo()
		msg := runWorld(g, worldMsg)
		raw := runWorld(g, worldRaw)
		inl := runWorld(g, worldInline)
		for _, t := range []*Transcript{msg, raw, inl} {
			if t.Err != "" {
				r.Inconclusive(fmt.Sprintf("group %d world %s: %s", g.Index, t.World, t.Err))
				return false
			}
		}
		if hasLimiter(g) && (msg.Elapsed > slowLimit || raw.Elapsed > slowLimit || inl.Elapsed > slowLimit) {
			// token buckets refill on the wall clock: a stalled run proves nothing
			r.Count("groups_too_slow_for_limiter", 1)
			if attempt == 0 {
				continue
			}
			r.Count("groups_skipped_slow", 1)
			return true
		}
		final := attempt == 1
		if len(g.Sessions) > 0 {
			// a session's verdict rests on token arithmetic of its own bucket
			// (client limiter: one token per 60/rate s; entry limiter: rate per
			// second): a session that stalled is re-run once, else not judged
			// client limiter: a bucket per session address, one token per 60/rate s
			// (>= 2.5 s here) — a session shorter than 1 s cannot regain a token.
			// entry limiters (rate per second, shared with the packet phase): no
			// bucket may regain a whole token between the first case packet and
			// the end of the last session — rate x window stays below 0.6.
			slow := func(t *Transcript) bool {
				if t.SessElapsed > time.Second {
					return true
				}
				return g.Conf.EntryRate > 0 && t.WindowElapsed > 2*slowLimit
			}
			if slow(msg) || slow(raw) || slow(inl) {
				r.Count("sessions_too_slow", 1)
				if !final {
					continue
				}
				r.Count("sessions_skipped_slow", 1)
				for _, t := range []*Transcript{msg, raw, inl} {
					t.dropSessions()
				}
			}
		}
		o1 := compareTranscripts(r, g, raw, msg, false)
		o2 := compareTranscripts(r, g, inl, msg, false)
		if o1.hdiv != "" || o2.hdiv != "" {
			r.Count("history_divergence", 1)
			if final {
				r.Inconclusive(fmt.Sprintf("group %d: %s%s", g.Index, o1.hdiv, o2.hdiv))
				return false
			}
			continue
		}
		if (o1.retry || o2.retry) && !final && o1.violations == 0 && o2.violations == 0 {
			r.Count("ttl_boundary_retries", 1)
			continue
		}
		// verdict pass (a TTL shift that persisted on the retry is reported too)
		compareTranscripts(r, g, raw, msg, true)
		compareTranscripts(r, g, inl, msg, true)
		account(r, g, raw, inl, msg)
		r.Count("groups", 1)
		r.Count("worlds_built", 3)
		r.Count("steps_compared", 2*len(msg.Steps))
		return true
	}
	return true
}

func main() {
	r := vlib.Start("C05", "exploration")
	r.Assume("the stub (scripted upstream) answers purely by question (mixed-chain families: question + per-question invocation ordinal), so an admission history replays identically in every world")
	r.Assume("client sessions are judged only when no limiter bucket they touch can have regained a whole token meanwhile (session < 1 s for the per-client limiter; first case packet to last session step < 300 ms where a per-entry limiter is configured); otherwise the group is re-run once and its sessions are then skipped (counted), never judged")
	r.Assume("a client session's packets are built inside each world from that world's own earlier replies (server cookies are parsed out of replies, never computed by the harness)")
	r.Assume("option ORDER inside the reply OPT and record order inside a section are not compared (multisets), as the statement allows")
	r.Assume("token buckets refill on the wall clock: a limiter-bearing group whose packet phase took > 150 ms is re-run once and otherwise skipped (counted), never judged")

	if raw := r.ReplayCase(); raw != nil {
		var c replayCase
		if err := json.Unmarshal(raw, &c); err != nil || c.Group == nil {
			var pk struct {
				PacketHex string `json:"packet_hex"`
			}
			if json.Unmarshal(raw, &pk) == nil && pk.PacketHex != "" {
				b, _ := hex.DecodeString(pk.PacketHex)
				checkAdmission(r, b)
				r.Finish("replay of one admission case")
			}
			r.Fatalf("replay: cannot decode case: %v", err)
		}
		runGroup(r, c.Group)
		for _, p := range c.Group.Pkts {
			b, _ := hex.DecodeString(p.Hex)
			checkAdmission(r, b)
		}
		r.Finish("replay of one group")
	}

	// the rich terminal's RRsets are written as zone-file text: build every one
	// once so a typo stops the run here (mustRR panics), not in a world
	for _, t := range richTypes {
		if len(richSet("rs-1."+zoneS, t, zoneS, "1")) == 0 {
			r.Fatalf("universe: rich terminal has no RRset for type %d", t)
		}
	}

	// regression corpus: the groups that exposed the defects listed in
	// FINDINGS.md (repaired or recorded) are run again in every run, so that a
	// repaired mechanism that returns is reported at every tier and seed, not
	// only when the generator happens to land on the boundary again
	if files, _ := filepath.Glob(filepath.Join(r.Dir, "harness", "c05", "repro", "*.json")); len(files) > 0 {
		sort.Strings(files)
		for _, f := range files {
			b, err := os.ReadFile(f)
			if err != nil {
				r.Fatalf("regression corpus: %v", err)
			}
			var env struct {
				Case replayCase `json:"case"`
			}
			if err := json.Unmarshal(b, &env); err != nil || env.Case.Group == nil {
				r.Fatalf("regression corpus: cannot decode %s: %v", f, err)
			}
			runGroup(r, env.Case.Group)
			r.Count("regression_corpus_groups", 1)
		}
	}
	r.Require("regression_corpus_groups", 3)

	ngroups := r.N(300, 7200)
	if v := os.Getenv("C05_GROUPS"); v != "" { // development aid only; ./check never sets it
		fmt.Sscanf(v, "%d", &ngroups)
	}
	npkts := r.N(14, 16)
	start := time.Now()
	for i := 0; i < ngroups; i++ {
		rng := r.RandN("group", i)
		g := genGroup(rng, r.RandN("group-x", i), r.RandN("group-y", i), i, r.Seed, npkts)
		for _, p := range g.Pkts {
			b, _ := hex.DecodeString(p.Hex)
			checkAdmission(r, b)
		}
		if !runGroup(r, g) {
			break
		}
		r.Progress("group %d/%d pairs=%d", i+1, ngroups, r.Counter("pairs_raw"))
	}
	r.Note("wall_groups_s", time.Since(start).Seconds())

	// extra admission-only packets (cheap): the parser vs the library
	nadm := r.N(60000, 1500000)
	arng := r.Rand("admission")
	_, pool := genHistory(r.Rand("admission-pool"), confs[len(confs)-2])
	for i := 0; i < nadm; i++ {
		pkt, _ := genPacket(arng, pool[arng.IntN(len(pool))], "udp")
		checkAdmission(r, pkt)
	}

	for _, c := range []string{"rung_exact", "rung_chase", "rung_cut", "rung_failure", "rung_declined-to-decode", "rung_materialized",
		"rung_strict-local", "rejected", "handed_to_resolution", "inline_served", "inline_handoff"} {
		r.Require(c, 5)
	}
	for _, c := range []string{"class_badvers", "class_formerr", "class_notimp", "class_dropped", "class_truncated", "class_servfail",
		"class_nxdomain", "class_noerror", "rung_undecodable"} {
		r.Require(c, 2)
	}
	// client sessions (cookie / limiter conversations)
	for c, min := range map[string]int64{"session_steps": 1500, "session_wire_born": 1500, "session_class_badcookie": 150,
		"session_burst_dropped_by_limiter": 200, "session_echoed_server_cookie": 200, "session_echo_accepted": 150,
		"session_tcp_steps": 250, "session_tcp_mismatch_answered": 40, "session_inline_handoff": 100, "session_handed_to_resolution": 100} {
		r.Require(c, min)
	}
	// alias chains whose hops differ, served by the wire composer
	for c, min := range map[string]int64{"mixed_chase_served": 80, "mixed_chase_hops_differ_ad": 30, "mixed_chase_head_ad1_hop_ad0": 10,
		"mixed_chase_head_ad0_hop_ad1": 10, "mixed_chase_ad_differs_visible": 10, "mixed_chase_hops_differ_ede": 30,
		"mixed_chase_hops_differ_sig": 30, "mixed_chase_hops_differ_short": 30} {
		r.Require(c, min)
	}
	// bare aliases in front of rich terminals (every question type, RRsets with
	// compressible rdata names) through the wire ladder
	for c, min := range map[string]int64{"rich_alias_pairs": 200, "rich_chase_served": 30, "rich_alias_qtypes_seen": 20, "rich_alias_answered": 100,
		"rich_alias_multi_record_terminal": 60, "rich_alias_compressible_terminal": 20, "rich_alias_compressible_terminal_multi": 10} {
		r.Require(c, min)
	}
	// cached failures shadowed by a denial admitted later, by apex depth of the
	// denial zone (0 = the root zone) and depth of the name below it
	for c, min := range map[string]int64{"depth_pairs": 300, "denied_failure_shadowed": 60, "denied_failure_shadowed_depth0": 8,
		"denied_failure_shadowed_depth1": 8, "denied_failure_shadowed_depth2": 8, "denied_failure_shadowed_depth4": 8,
		"denied_failure_shadowed_below1": 8, "denied_failure_shadowed_below2": 8, "denied_failure_shadowed_below3": 8,
		"denied_failure_shadowed_failure-denied-later": 20, "denied_failure_shadowed_failure-denied-by-replacement": 15,
		"depth_failure_served_wire": 15, "depth_failure_served_wire_depth0": 2, "depth_outer_root_start": 20, "depth_outer_root_end": 20} {
		r.Require(c, min)
	}
	r.Require("pairs_raw", int64(r.N(3000, 80000)))
	r.Require("admission_strict", 5000)
	r.Require("admission_declined_decodable", 1000)
	r.Finish("distinct_nontrivial = distinct (config, transport, state family of the question, wire rung that served it in the raw world, reply class) tuples; " +
		"conf_x_state = (config, state family) pairs a case packet targeted")
}
