package main

// Audience / lifetime / refresh judgements on provenance markers, shared by
// every part: each answer the stub produced carries a unique generation, so a
// client reply identifies which upstream answer it was built from.

import (
	"fmt"
	"net/netip"
	"strings"
	"time"

	"github.com/miekg/dns"
)

// effective returns the audience of an upstream answer: nil = everyone.
// The authority's declared scope, widened to what was forwarded and to the
// configured floor ("never more specific than what was forwarded or than the
// configured floor").
func (e *env) effective(s *seen) *ecsVal {
	if s == nil || s.Decl == nil || s.Req == nil {
		return nil
	}
	bits := s.Decl.Bits
	if s.Req.Bits < bits {
		bits = s.Req.Bits
	}
	if f := e.m.floor(s.Decl.Fam); f < bits {
		bits = f
	}
	if bits <= 0 {
		return nil
	}
	return newECSVal(s.Decl.Fam, bits, maskBytes(s.Decl.Addr, bits))
}

// identities: the subnets this client is known by upstream (nil: none).
func (e *env) identities(op *Op) []*ecsVal {
	var out []*ecsVal
	if !op.Q.EDNS {
		return nil
	}
	for _, o := range op.Q.Opts {
		if o.Code != dns.EDNS0SUBNET {
			continue
		}
		if v, ok := clientSubnet(o.bytes(), op.Entry != "msgstruct"); ok {
			if x := e.m.expectedUpstream(op.Client, v); x != nil {
				out = append(out, x)
			}
		}
	}
	return out
}

// scopeSig: a scoped answer that entered the cache through a background
// refresh (an internal request that carried ECS and was answered with a
// non-zero scope) sits in the SHARED entry it refreshed; every consequence of
// that one defect — served outside the scope, uncapped TTL, refreshed again —
// is reported under one signature. Answers made by client queries keep one
// signature per broken clause.
func scopeSig(clause string, s *seen) string {
	if s != nil && s.Internal {
		return "scope/tailored-refresh-answer-in-shared-entry"
	}
	return "scope/" + clause
}

func origin(s *seen) string {
	if s.Internal {
		return "internal-refresh"
	}
	return "client-query"
}

func (e *env) judgeAudience(idx int, op *Op, out *outcome) {
	r := e.r
	if !out.Sent || !out.Res.Wrote || out.Res.Msg == nil {
		return
	}
	gens, ttls := markers(out.Res.Msg)
	ids := e.identities(op)
	servedScoped := false
	var scopedGen *seen
	cacheServed := false
	for i, g := range gens {
		e.mu.Lock()
		s := e.gens[g]
		e.mu.Unlock()
		if s == nil {
			r.Count("markers_unknown", 1)
			continue
		}
		if s.OpIdx == idx {
			r.Count("answers_direct", 1)
			continue
		}
		r.Eval(1)
		r.Count("answers_from_cache", 1)
		if strings.EqualFold(s.Name, op.Q.Name) {
			cacheServed = true
		}
		eff := e.effective(s)
		if eff == nil {
			r.Count("cache_serves_of_global_answers", 1)
			continue
		}
		servedScoped = true
		scopedGen = s
		inside := false
		for _, id := range ids {
			if eff.contains(id) {
				inside = true
			}
		}
		ex := map[string]any{"generation": g, "made_in_op": s.OpIdx, "origin": origin(s),
			"forwarded": s.Req.String(), "declared": s.Decl.String(), "audience": eff.String(),
			"client_identities": fmt.Sprint(ids)}
		if inside {
			r.Count("scoped_serves_inside_scope", 1)
			r.Count(fmt.Sprintf("scoped_serves_inside_scope_fam%d", eff.Fam), 1)
			r.Distinct(fmt.Sprintf("aud/f%d/decl%d/src%d/eff%d", eff.Fam, s.Decl.Bits, s.Req.Bits, eff.Bits))
		} else {
			r.Violation(scopeSig("served-outside-scope", s),
				fmt.Sprintf("client %s (upstream identity %v) was served generation %d of %s from cache; that answer was declared for %s after %s was forwarded (audience %s, made by a %s in op %d)",
					op.Client, ids, g, s.Name, s.Decl, s.Req, eff, origin(s), s.OpIdx), caseOf(e, idx, op, ex))
		}
		if e.m.capSec > 0 {
			age := e.adv - s.AdvAt
			capD := time.Duration(e.m.capSec) * time.Second
			if age >= capD {
				r.Violation(scopeSig("served-past-ttl-cap", s),
					fmt.Sprintf("scoped generation %d of %s served %v (virtual) after admission; cache_limit_ttl is %ds", g, s.Name, age, e.m.capSec), caseOf(e, idx, op, ex))
			} else {
				r.Count("scoped_serves_within_cap", 1)
			}
			if int(ttls[i]) > e.m.capSec {
				r.Violation(scopeSig("ttl-above-cap", s),
					fmt.Sprintf("scoped generation %d of %s served from cache with TTL %d > cache_limit_ttl %ds", g, s.Name, ttls[i], e.m.capSec), caseOf(e, idx, op, ex))
			}
		}
	}

	// background refreshes: internal upstream requests for the very question
	// the client asked (alias chases ask for other names).
	for _, s := range out.Seen {
		if !s.Internal || !strings.EqualFold(s.Name, op.Q.Name) || s.Qtype != op.Q.Qtype {
			continue
		}
		if _, isAlias := e.cname[strings.ToLower(op.Q.Name)]; isAlias {
			continue
		}
		r.Eval(1)
		if servedScoped {
			r.Violation(scopeSig("background-refresh", scopedGen),
				fmt.Sprintf("a cache hit on a scoped answer for %s (client %s) started a background refresh (internal upstream request, ECS=%v)", s.Name, op.Client, s.Req),
				caseOf(e, idx, op, nil))
		} else if cacheServed {
			r.Count("background_refreshes_of_shared_entries", 1)
		} else {
			r.Count("internal_requests_same_question_other", 1)
		}
	}
	if servedScoped {
		r.Count("scoped_hits_checked_for_refresh", 1)
	}

	// a client outside every live scoped audience for this question that
	// caused a fresh upstream query: a refusal (evidence only).
	direct := false
	for _, s := range out.Seen {
		if !s.Internal && strings.EqualFold(s.Name, op.Q.Name) && s.Qtype == op.Q.Qtype {
			direct = true
		}
	}
	if direct {
		probed := false
		e.mu.Lock()
		for _, s := range e.log {
			if s.OpIdx >= idx || s.Qtype != op.Q.Qtype || s.CD != op.Q.CD || !strings.EqualFold(s.Name, op.Q.Name) {
				continue
			}
			eff := e.effective(s)
			if eff == nil {
				continue
			}
			in := false
			for _, id := range ids {
				in = in || eff.contains(id)
			}
			life := time.Duration(parseRule(s.Name).ttl) * time.Second
			capD := time.Duration(e.m.capSec) * time.Second
			if in && !probed && capD > 0 && capD < life && e.adv-s.AdvAt >= capD && e.adv-s.AdvAt < life {
				// the upstream TTL would still allow it; only the cap retired it
				r.Count("scoped_expiry_probes_after_cap", 1)
				probed = true
			}
			if capD > 0 && capD < life {
				life = capD
			}
			if e.adv-s.AdvAt >= life {
				continue
			}
			if !in {
				r.Count("scoped_refusals_outside_scope", 1)
				break
			}
		}
		e.mu.Unlock()
	}
}

// judgeStored: every scoped cache entry for the op's question must be
// justified by an authority answer and be no more specific than what was
// forwarded for that answer, than the declared scope, and than the floor.
func (e *env) judgeStored(idx int, op *Op, out *outcome) {
	r := e.r
	declared := false
	for _, s := range out.Seen {
		if s.Decl != nil && strings.EqualFold(s.Name, op.Q.Name) {
			declared = true
		}
	}
	if !declared {
		return
	}
	for _, d := range e.st.Cache().VerifStore().VerifDump() {
		if d.Scope == "" || d.Qtype != op.Q.Qtype || !strings.EqualFold(d.Question, op.Q.Name) {
			continue
		}
		pf, err := netip.ParsePrefix(d.Scope)
		if err != nil {
			continue
		}
		r.Eval(1)
		r.Count("scoped_entries_inspected", 1)
		fam := 1
		if pf.Addr().Is6() {
			fam = 2
		}
		ent := newECSVal(fam, pf.Bits(), pf.Addr().AsSlice())
		justified := false
		var best string
		e.mu.Lock()
		for _, s := range e.log {
			if s.Decl == nil || s.Req == nil || s.Qtype != d.Qtype || !strings.EqualFold(s.Name, d.Question) || s.Decl.Fam != fam {
				continue
			}
			lim := min(s.Decl.Bits, s.Req.Bits, e.m.floor(fam))
			best = fmt.Sprintf("declared %s, forwarded %s, floor /%d", s.Decl, s.Req, e.m.floor(fam))
			if ent.Bits <= lim && prefixHas(s.Decl.Addr, ent.Bits, ent.Addr) {
				justified = true
				break
			}
		}
		e.mu.Unlock()
		if justified {
			r.Count("scoped_entries_within_forwarded_and_floor", 1)
			r.DistinctIn("stored_scope_lengths", fmt.Sprintf("f%d/%d", fam, ent.Bits))
		} else {
			r.Violation("scope/stored-more-specific",
				fmt.Sprintf("cache holds %s keyed under scope %s, more specific than any authority answer justifies (%s)", d.Question, d.Scope, best),
				caseOf(e, idx, op, map[string]any{"entry_scope": d.Scope}))
		}
	}
}
