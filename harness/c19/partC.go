package main

// Part C — shared synthesised denials (RFC 8020 subtree cuts, RFC 8198
// denial proofs) are neither consumed nor created by request trees that
// carried ECS or CD: directly, through alias chases, through the background
// refresh of an exact entry, and through Store.GetWithContext (the
// resolver's internal sub-query read path).
//
// The cache is configured with DNSSEC "on" (shared denial enabled); the stub
// plays the validating resolver and marks its NXDOMAIN answers with
// locally-validated provenance. Observation: stub invocations per question
// and Store.NXDomainCutLen / DenialProofLen deltas.

import (
	"context"
	"fmt"
	"math/rand/v2"
	"strings"
	"time"

	"github.com/miekg/dns"

	"github.com/semihalev/sdns/middleware"
	"github.com/semihalev/sdns/zzverif/vlib"
)

func secs(n int) time.Duration { return time.Duration(n) * time.Second }

type denialSnap struct{ cuts, proofs int }

type denialState struct {
	e     *env
	asked map[string]bool
}

func newDenialState(e *env) *denialState { return &denialState{e: e, asked: map[string]bool{}} }

func (d *denialState) snap() denialSnap {
	st := d.e.st.Cache().VerifStore()
	return denialSnap{cuts: st.NXDomainCutLen(), proofs: st.DenialProofLen()}
}

func carriesECS(q QSpec) bool { return q.EDNS && q.hasOpt(dns.EDNS0SUBNET) }

func treeKind(q QSpec) string {
	switch {
	case carriesECS(q) && q.CD:
		return "ecs+cd"
	case carriesECS(q):
		return "ecs"
	case q.CD:
		return "cd"
	}
	return "plain"
}

func (d *denialState) judge(idx int, op *Op, out *outcome, pre denialSnap) {
	e, r := d.e, d.e.r
	if !out.Sent {
		return
	}
	post := d.snap()
	kind := treeKind(op.Q)
	name := strings.ToLower(op.Q.Name)
	key := fmt.Sprintf("%s/%d/%v", name, op.Q.Qtype, op.Q.CD)
	fresh := !d.asked[key]
	d.asked[key] = true
	target, isAlias := e.cname[name]
	target = strings.ToLower(target)

	reached := func(n string, internal bool) bool {
		for _, s := range out.Seen {
			if s.Name == n && s.Internal == internal {
				return true
			}
		}
		return false
	}
	created := post.cuts > pre.cuts || post.proofs > pre.proofs
	refreshed := reached(name, true) && !isAlias
	ex := map[string]any{"tree": kind, "cuts_before": pre.cuts, "cuts_after": post.cuts, "proofs_before": pre.proofs, "proofs_after": post.proofs}
	r.Eval(1)

	// ---- creation
	if kind != "plain" {
		how := "query"
		switch {
		case isAlias:
			how = "alias-chase"
		case refreshed:
			how = "background-refresh"
		}
		anyNX := false
		for _, s := range out.Seen {
			anyNX = anyNX || s.NX
		}
		if anyNX {
			r.Count("denial_ecs_cd_creation_probes", 1)
			r.Count("denial_creation_probes_"+how, 1)
			r.Distinct("deny-create/" + kind + "/" + how + "/" + op.Entry)
		}
		if created {
			r.Violation("denial/created-by-"+kind+"-tree/"+how,
				fmt.Sprintf("a %s request tree (%s, client %s, %s/%s) created shared synthesised denial state: subtree cuts %d→%d, denial proofs %d→%d",
					kind, op.Q.Name, op.Client, op.Entry, op.Proto, pre.cuts, post.cuts, pre.proofs, post.proofs), caseOf(e, idx, op, ex))
		}
	} else if created {
		r.Count("denial_plain_created_shared", 1)
	}

	// ---- consumption
	if !out.Res.Wrote || out.Res.Msg == nil {
		return
	}
	rcode := out.Res.Msg.Rcode
	if isAlias {
		ru := parseRule(target)
		if !ru.nx || !fresh {
			return
		}
		hit := !reached(target, true) && !reached(target, false)
		if kind == "plain" {
			if hit && rcode == dns.RcodeNameError {
				r.Count("denial_alias_plain_consumed", 1)
			}
			return
		}
		r.Count("denial_alias_probes", 1)
		if hit && rcode == dns.RcodeNameError {
			r.Violation("denial/consumed-by-"+kind+"-tree/alias-chase",
				fmt.Sprintf("the alias chase of a %s query (%s → %s) was answered NXDOMAIN without any upstream request for the target: shared denial state was consumed", kind, name, target),
				caseOf(e, idx, op, ex))
		}
		return
	}
	if !parseRule(name).nx || !fresh {
		return
	}
	hit := !reached(name, false)
	if kind == "plain" {
		if hit && rcode == dns.RcodeNameError {
			r.Count("denial_plain_consumed_shared", 1)
		}
		return
	}
	if pre.cuts+pre.proofs > 0 {
		r.Count("denial_ecs_cd_probes_bypassed", 1)
		r.Distinct("deny-consume/" + kind + "/" + op.Entry + "/" + op.Proto)
	}
	if hit && rcode == dns.RcodeNameError {
		r.Violation("denial/consumed-by-"+kind+"-tree/query",
			fmt.Sprintf("a %s query for the never-asked name %s (client %s, %s/%s) was answered NXDOMAIN without any upstream request: shared denial state was consumed",
				kind, name, op.Client, op.Entry, op.Proto), caseOf(e, idx, op, ex))
	}
}

// storeGet exercises Store.GetWithContext, the read path resolver-private
// sub-queries (DS / DNSKEY / NS lookups) use; their fresh messages carry no
// option, so only the context marker preserves the client's isolation.
func (d *denialState) storeGet(idx int, op *Op) {
	e, r := d.e, d.e.r
	st := e.st.Cache().VerifStore()
	req := new(dns.Msg)
	req.SetQuestion(op.Q.Name, op.Q.Qtype)
	req.RecursionDesired = true
	req.CheckingDisabled = op.Q.CD
	req.SetEdns0(1232, true)
	if carriesECS(op.Q) {
		opt := req.IsEdns0()
		opt.Option = append(opt.Option, &dns.EDNS0_SUBNET{Code: dns.EDNS0SUBNET, Family: 1, SourceNetmask: 24, Address: []byte{198, 51, 100, 0}})
	}
	ctx := context.Background()
	if op.MarkECS {
		ctx = middleware.MarkClientECS(ctx)
	}
	var (
		msg *dns.Msg
		ok  bool
	)
	func() {
		defer func() {
			if p := recover(); p != nil {
				r.Violation("panic/store-get", fmt.Sprintf("Store.GetWithContext panicked: %v", p), caseOf(e, idx, op, nil))
			}
		}()
		msg, ok = st.GetWithContext(ctx, req)
	}()
	r.Eval(1)
	isolated := op.MarkECS || op.Q.CD || carriesECS(op.Q)
	synth := ok && msg != nil && msg.Rcode == dns.RcodeNameError
	switch {
	case !isolated && synth:
		r.Count("denial_store_get_plain_hits", 1)
	case isolated && synth:
		why := "cd"
		if op.MarkECS {
			why = "client-ecs-mark"
		} else if carriesECS(op.Q) {
			why = "raw-ecs"
		}
		r.Violation("denial/store-get-consumed/"+why,
			fmt.Sprintf("Store.GetWithContext answered %s NXDOMAIN from shared denial state for a request tree isolated by %s", op.Q.Name, why), caseOf(e, idx, op, nil))
	case isolated:
		r.Count("denial_store_get_marked_misses", 1)
	}
}

func genScenarioC(r *vlib.Run, idx int) *Scenario {
	rng := r.RandN("C", idx)
	kind := []int{1, 1, 0, 1, 2}[idx%5]
	p := genPolicy(rng, kind)
	p.DNSSEC = true
	p.Prefetch = []int{0, 50}[idx%2]
	sc := &Scenario{Part: "C", Index: idx, Policy: p, CNAME: map[string]string{}}
	m := newModel(p)
	zone := func(k int) string { return fmt.Sprintf("z%dx%d.c19.test.", idx, k) }
	n := 0
	label := func(pfx string) string { n++; return fmt.Sprintf("%s%d", pfx, n) }

	mk := func(role string, name string) Op {
		entry, proto := genEntry(rng)
		q := QSpec{Name: name, Qtype: pick(rng, []uint16{dns.TypeA, dns.TypeA, dns.TypeAAAA, dns.TypeTXT}), ID: uint16(rng.UintN(65536)), RD: true, EDNS: true, UDPSize: 1232, DO: rng.IntN(2) == 0}
		client := genClient(rng, p)
		switch role {
		case "plain":
			if rng.IntN(4) == 0 {
				q.EDNS = false
			} else {
				q.Opts = genOtherOpts(rng)
			}
		case "cd":
			q.CD = true
			q.Opts = genOtherOpts(rng)
		case "ecs", "ecs+cd":
			q.CD = role == "ecs+cd"
			q.Opts = append(genOtherOpts(rng), optHex(dns.EDNS0SUBNET, wellFormedSubnet(rng, m)))
		case "ecs-odd": // decodable but useless: family 0 / source 0 (what dig +subnet=0 sends)
			q.Opts = []OptSpec{optHex(dns.EDNS0SUBNET, []byte{0, 0, 0, 0})}
		case "ecs-junk": // only a hand-built struct can carry it
			entry = "msgstruct"
			q.Opts = []OptSpec{optHex(dns.EDNS0SUBNET, append([]byte{0, 7, 99, 0}, randBytes(rng, 5)...))}
		}
		return Op{Kind: "q", Client: client, Entry: entry, Proto: proto, Q: q, Role: role}
	}
	probes := []string{"ecs", "ecs", "cd", "ecs+cd", "ecs-odd", "ecs-junk", "ecs", "cd"}
	add := func(op Op) { sc.Ops = append(sc.Ops, op) }

	for k := 0; k < 3; k++ {
		z := zone(k)
		dead := label("dead") + "." + z
		// creation probes first: nothing is shared yet for this zone
		for i := 0; i < 3; i++ {
			add(mk(pick(rng, probes), label("c")+"."+label("dead")+"."+z))
		}
		al := label("al") + "." + z
		sc.CNAME[al] = label("t") + "." + label("dead") + "." + z
		add(mk(pick(rng, []string{"ecs", "cd", "ecs+cd"}), al))
		// a plain client admits the shared state …
		add(mk("plain", label("p")+"."+dead))
		// … and consumes it (subtree cut, then the zone-wide proof)
		add(mk("plain", label("p")+"."+dead))
		add(mk("plain", label("mx")+"."+z))
		// probes under the cut and under the proof
		for i := 0; i < 4; i++ {
			add(mk(pick(rng, probes), label("e")+"."+dead))
		}
		for i := 0; i < 2; i++ {
			add(mk(pick(rng, probes), label("mx")+"."+z))
		}
		// alias chases into the denied subtree
		al2 := label("al") + "." + z
		sc.CNAME[al2] = label("t") + "." + dead
		add(mk(pick(rng, []string{"ecs", "cd", "ecs+cd", "ecs-odd"}), al2))
		al3 := label("al") + "." + z
		sc.CNAME[al3] = label("t") + "." + dead
		add(mk("plain", al3))
		// the resolver's internal read path
		for _, g := range []struct {
			mark, cd, raw bool
		}{{false, false, false}, {true, false, false}, {false, true, false}, {false, false, true}} {
			op := Op{Kind: "get", MarkECS: g.mark, Q: QSpec{Name: label("g") + "." + dead, Qtype: dns.TypeDS, CD: g.cd, EDNS: true}}
			if g.raw {
				op.Q.Opts = []OptSpec{optHex(dns.EDNS0SUBNET, []byte{0, 1, 24, 0, 198, 51, 100})}
			}
			add(op)
		}
	}
	// background refresh of an exact negative entry triggered by an ECS hit
	if p.Prefetch > 0 {
		z := zone(9)
		name := label("r") + "." + label("dead") + "." + z
		first := mk("ecs", name)
		first.Q.Qtype = dns.TypeA
		add(first)
		add(Op{Kind: "adv", AdvSec: 450})
		again := mk("ecs", name)
		again.Q.Qtype = dns.TypeA
		add(again)
	}
	return sc
}

func wellFormedSubnet(rng *rand.Rand, m *model) []byte {
	if rng.IntN(2) == 0 {
		bits := rng.IntN(33)
		return append([]byte{0, 1, byte(bits), 0}, randBytes(rng, 4)...)
	}
	bits := rng.IntN(129)
	return append([]byte{0, 2, byte(bits), 0}, append([]byte{0x20, 0x01}, randBytes(rng, 14)...)...)
}

func runPartC(r *vlib.Run) {
	nSc := r.N(30, 500)
	for i := 0; i < nSc; i++ {
		runScenario(r, genScenarioC(r, i))
		r.Progress("part C scenario %d/%d", i+1, nSc)
	}
	r.Note("part_c", fmt.Sprintf("%d scenarios x 3 zones", nSc))
}
