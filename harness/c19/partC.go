package main

import (
	"time"

	"github.com/semihalev/sdns/zzverif/vlib"
)

func secs(n int) time.Duration { return time.Duration(n) * time.Second }

type denialSnap struct{ cuts, proofs int }
type denialState struct{ e *env }

func newDenialState(e *env) *denialState                                   { return &denialState{e: e} }
func (d *denialState) snap() denialSnap                                    { return denialSnap{} }
func (d *denialState) storeGet(idx int, op *Op)                            {}
func (d *denialState) judge(idx int, op *Op, out *outcome, pre denialSnap) {}
func runPartC(r *vlib.Run)                                                 {}
