package main

// Part D — the REAL resolver. Parts A–C end the pipeline in a scripted stub;
// here the full production chain (defaults.Register: … edns … cache …
// resolver) resolves against a scripted universe (harness/authsim):
//
//	.                signed, one server
//	<tld>.           signed, one server        (<tld> = "c19d<pid>", see below)
//	geo.<tld>.       unsigned, one ECS-aware tailoring authority
//	gl.<tld>.        unsigned, delegated WITHOUT glue to nsgl.geo.<tld>. (an
//	                 NS-address helper lookup is needed to reach it); same
//	                 tailoring behaviour
//
// The tailoring authority answers A/AAAA/TXT for "d<sc>x<ep>-<fields>.<zone>"
// with a provenance marker of a fresh generation and, when the query carried a
// subnet option, echoes family/source/address with the SCOPE the name's fields
// ask for (sd<n> source+n, sm<n> source-n, sa<n> absolute, sn no option in the
// answer, none = scope 0); t<n> = TTL; nd = a tailored NODATA whose SOA serial
// is the marker (the resolver relays negative answers with the authority's own
// OPT, so these DO reach the cache with their scope). Every generation is logged with the
// subnet the authority saw and the scope it declared, so a client reply tells
// which upstream exchange its data came from.
//
// Oracle (judgeD.go):
//
//	(i)   every query any authority received (packet log, raw OPT bytes) carries
//	      no client-supplied option and no ECS unless the policy allows it for
//	      that client — then exactly (family, min(source, ceiling), masked
//	      address, scope 0);
//	(ii)  a reply carrying the marker of an answer declared for S/L (L > 0) is
//	      legal only for a client whose forwarded identity lies inside
//	      S/min(L, forwarded, floor);
//	(iii) no ECS option in any client reply;
//	(iv)  scoped answers served from cache respect cache_limit_ttl under
//	      virtual time and a hit on them starts no upstream refresh.
//
// The TLD label carries the process id: a datagram of another harness process
// that reaches one of this universe's sockets through port reuse is outside
// the namespace and is counted, never judged. Scenario files use the
// placeholder "test."; it is mapped to the live TLD at execution.

import (
	"context"
	"fmt"
	"math/rand/v2"
	"net"
	"os"
	"regexp"
	"strconv"
	"strings"
	"sync"
	"time"

	"github.com/miekg/dns"

	"github.com/semihalev/sdns/config"
	"github.com/semihalev/sdns/server"
	"github.com/semihalev/sdns/zzverif/authsim"
	"github.com/semihalev/sdns/zzverif/stack"
	"github.com/semihalev/sdns/zzverif/vlib"
	zm "github.com/semihalev/sdns/zzverif/zonemodel"
)

// dOp is one step of a part-D scenario: an Op, or (Kind "pair") two queries
// for the same name released together at the authority's gate.
type dOp struct {
	Op
	Second *Op `json:"second,omitempty"`
}

type dScenario struct {
	Part   string     `json:"part"` // "D"
	Index  int        `json:"index"`
	Policy PolicySpec `json:"policy"`
	Ops    []dOp      `json:"ops"`
}

// dseen is one answer of the tailoring authority.
type dseen struct {
	Gen      uint32
	Name     string // lower case, live namespace
	Qtype    uint16
	Server   string
	Req      *ecsVal // subnet the authority saw (nil: none / unreadable)
	Decl     *ecsVal // scope it declared (nil: none / 0)
	TTL      uint32
	Negative bool // a tailored NODATA (marker = SOA serial)
	Win      int  // window (op index) during which it was produced
	AdvAt    time.Duration
	q        *dns.Msg
}

type dWorld struct {
	u       *authsim.Universe
	tld     string // live TLD, e.g. "c19d1a2b."
	geoApex string
	glApex  string
	geo, gl *authsim.Server
	mu      sync.Mutex
	cur     *denv
	// parkMisses counts pairs whose clients were never seen parked in the
	// shared lookup (after two, later pairs are only paced)
	parkMisses int
	// barrier: the harness's own socket and sequence for sentinel datagrams
	bconn *net.UDPConn
	bseq  int
}

const dPlaceholderTLD = "test."

var dTailoredLabel = regexp.MustCompile(`^d[0-9]+x[0-9]+`)

func newDWorld() (*dWorld, error) {
	w := &dWorld{u: authsim.New()}
	w.tld = "c19d" + strconv.FormatInt(int64(os.Getpid()), 36) + "."
	w.geoApex, w.glApex = "geo."+w.tld, "gl."+w.tld
	u := w.u
	sr, st := u.AddServer("root"), u.AddServer("tld")
	w.geo, w.gl = u.AddServer("geo"), u.AddServer("gl")
	root := u.AddZone(zm.Spec{Apex: ".", Signed: true}, sr)
	tz := u.AddZone(zm.Spec{Apex: w.tld, Signed: true}, st)
	u.Delegate(root, tz, authsim.DelegOpts{})
	gz := u.AddZone(zm.Spec{Apex: w.geoApex}, w.geo)
	u.Delegate(tz, gz, authsim.DelegOpts{})
	host := "nsgl." + w.geoApex
	lz := u.AddZone(zm.Spec{Apex: w.glApex, NSHosts: []string{host}}, w.gl)
	u.Delegate(tz, lz, authsim.DelegOpts{NS: []zm.NSHost{{Name: host}}})
	for _, a := range w.gl.Addrs {
		gz.AddAddr(host, net.IP(a.AsSlice()), 300)
	}
	if err := u.Start(); err != nil {
		return nil, err
	}
	bc, err := net.ListenUDP("udp4", &net.UDPAddr{IP: net.IPv4(127, 0, 0, 1)})
	if err != nil {
		u.Close()
		return nil, err
	}
	w.bconn = bc
	go func() { // discard the servers' replies to the sentinels
		buf := make([]byte, 2048)
		for {
			if _, _, err := bc.ReadFromUDP(buf); err != nil {
				return
			}
		}
	}()
	return w, nil
}

func (w *dWorld) close() {
	if w.bconn != nil {
		_ = w.bconn.Close()
	}
	w.u.Close()
}

const dBarrierZone = "c19d-barrier.invalid."

// barrier makes the packet log complete up to now: a datagram the resolver
// has already sent may still sit in an authority's socket buffer when the
// resolver has gone quiet (the authority's reader goroutine has not been
// scheduled yet). Each authority reads and logs its socket sequentially, so
// once a sentinel sent NOW shows up in the log, everything sent to that
// socket before it has been logged too. false = timed out (inconclusive).
func (w *dWorld) barrier(from int) bool {
	w.bseq++
	name := fmt.Sprintf("b%d.%s", w.bseq, dBarrierZone)
	m := new(dns.Msg)
	m.SetQuestion(name, dns.TypeTXT)
	pkt, err := m.Pack()
	if err != nil {
		return false
	}
	servers := []*authsim.Server{w.u.Server("root"), w.u.Server("tld"), w.geo, w.gl}
	for _, s := range servers {
		ua, err := net.ResolveUDPAddr("udp4", s.Addr())
		if err != nil {
			return false
		}
		if _, err := w.bconn.WriteToUDP(pkt, ua); err != nil {
			return false
		}
	}
	deadline := time.Now().Add(10 * time.Second)
	for {
		got := map[string]bool{}
		for _, p := range w.u.Log.Since(from) {
			if p.QNameL == name {
				got[p.Server] = true
			}
		}
		if len(got) >= len(servers) {
			return true
		}
		if time.Now().After(deadline) {
			return false
		}
		time.Sleep(100 * time.Microsecond)
	}
}

// live maps a scenario name (placeholder TLD) to the live namespace.
func (w *dWorld) live(name string) string {
	if strings.HasSuffix(strings.ToLower(name), "."+dPlaceholderTLD) {
		return name[:len(name)-len(dPlaceholderTLD)] + w.tld
	}
	return name
}

func (w *dWorld) inNamespace(qnameLower string) bool {
	return qnameLower == "." || dns.IsSubDomain(w.tld, qnameLower)
}

func isTailoredPacket(p *authsim.Packet) bool {
	if p.QType != dns.TypeA && p.QType != dns.TypeAAAA && p.QType != dns.TypeTXT {
		return false
	}
	l := dns.SplitDomainName(p.QNameL)
	return len(l) > 0 && dTailoredLabel.MatchString(l[0])
}

// script (re)installs the authority behaviour: gated tailoring for the names
// of the scenario's concurrent pairs, plain tailoring for everything else.
func (w *dWorld) script(gates map[string]*authsim.Gate) {
	for _, s := range []*authsim.Server{w.geo, w.gl} {
		s.ClearScript(false)
		for name, g := range gates {
			s.AddRule(authsim.Rule{Name: name, Match: isTailoredPacket, Action: authsim.Tamper("tailor+gate", w.tailor).Gated(g)})
		}
	}
	w.geo.AddRule(authsim.Rule{Name: "*." + w.geoApex, Match: isTailoredPacket, Action: authsim.Tamper("tailor", w.tailor)})
	w.gl.AddRule(authsim.Rule{Name: "*." + w.glApex, Match: isTailoredPacket, Action: authsim.Tamper("tailor", w.tailor)})
}

// tailor is the ECS-aware authority.
func (w *dWorld) tailor(q, honest *dns.Msg) *dns.Msg {
	w.mu.Lock()
	e := w.cur
	w.mu.Unlock()
	if e == nil || len(q.Question) != 1 {
		return honest
	}
	qu := q.Question[0]
	ru := parseRule(qu.Name)
	var sub *dns.EDNS0_SUBNET
	qopt := q.IsEdns0()
	if qopt != nil {
		for _, o := range qopt.Option {
			if s, ok := o.(*dns.EDNS0_SUBNET); ok {
				sub = s
				break
			}
		}
	}
	s := &dseen{Name: strings.ToLower(qu.Name), Qtype: qu.Qtype, TTL: ru.ttl, q: q, Req: subnetVal(sub), Negative: isNegativeName(qu.Name)}
	switch {
	case dns.IsSubDomain(w.glApex, s.Name):
		s.Server = "gl"
	default:
		s.Server = "geo"
	}

	m := new(dns.Msg)
	m.SetReply(q)
	m.Authoritative = true
	m.RecursionAvailable = false
	if qopt != nil {
		m.SetEdns0(1232, qopt.Do())
	}
	if s.Req != nil && ru.mode != "n" {
		scope := 0
		switch ru.mode {
		case "d":
			scope = s.Req.Bits + ru.val
		case "m":
			scope = s.Req.Bits - ru.val
		case "a":
			scope = ru.val
		}
		scope = clampInt(scope, 0, s.Req.famBits())
		// RFC 7871 §7.2.1: FAMILY, SOURCE PREFIX-LENGTH and ADDRESS echo the query
		echo := &dns.EDNS0_SUBNET{Code: dns.EDNS0SUBNET, Family: uint16(s.Req.Fam), SourceNetmask: uint8(s.Req.Bits),
			SourceScope: uint8(scope), Address: net.IP(append([]byte(nil), s.Req.Addr...))}
		if opt := m.IsEdns0(); opt != nil {
			opt.Option = append(opt.Option, echo)
		}
		if scope > 0 {
			s.Decl = newECSVal(s.Req.Fam, scope, maskBytes(s.Req.Addr, scope))
		}
	}
	e.mu.Lock()
	e.gen++
	s.Gen, s.Win, s.AdvAt = e.gen, e.win, e.adv
	e.gens[s.Gen] = s
	e.byQ[q] = s
	e.seen = append(e.seen, s)
	e.mu.Unlock()
	if s.Negative {
		// a tailored NODATA: the SOA serial is the provenance marker
		apex := w.geoApex
		if s.Server == "gl" {
			apex = w.glApex
		}
		m.Ns = []dns.RR{&dns.SOA{Hdr: dns.RR_Header{Name: apex, Rrtype: dns.TypeSOA, Class: dns.ClassINET, Ttl: ru.ttl},
			Ns: "ns1." + apex, Mbox: dNegMarkerMbox + apex, Serial: s.Gen, Refresh: 3600, Retry: 600, Expire: 86400, Minttl: ru.ttl}}
		return m
	}
	if rr := stack.MarkerRR(s.Gen, qu.Name, qu.Qtype, ru.ttl); rr != nil {
		m.Answer = []dns.RR{rr}
	}
	return m
}

const dNegMarkerMbox = "c19d-marker."

// isNegativeName: the first label asks for a tailored NODATA ("nd" field).
func isNegativeName(name string) bool {
	l := dns.SplitDomainName(strings.ToLower(name))
	if len(l) == 0 {
		return false
	}
	for _, f := range strings.Split(l[0], "-") {
		if f == "nd" {
			return true
		}
	}
	return false
}

// markersD returns the provenance generations a reply carries: marker
// records in the answer section, or (negative reply) the marker SOA in the
// authority section.
func markersD(m *dns.Msg) (gens []uint32, ttls []uint32, negative bool) {
	if m == nil {
		return
	}
	gens, ttls = markers(m)
	if len(gens) > 0 {
		return
	}
	for _, rr := range m.Ns {
		if soa, ok := rr.(*dns.SOA); ok && strings.HasPrefix(strings.ToLower(soa.Mbox), dNegMarkerMbox) {
			gens = append(gens, soa.Serial)
			ttls = append(ttls, soa.Hdr.Ttl)
			negative = true
		}
	}
	return
}

// ------------------------------------------------------------------ env

type denv struct {
	r     *vlib.Run
	w     *dWorld
	sc    *dScenario
	pol   PolicySpec
	m     *model
	rs    *authsim.RStack
	mu    sync.Mutex
	gen   uint32
	gens  map[uint32]*dseen
	byQ   map[*dns.Msg]*dseen
	seen  []*dseen
	win   int
	adv   time.Duration
	gates map[string]*authsim.Gate
	// winFrom: packet-log position where the current window started
	winFrom int
}

func newDEnv(r *vlib.Run, w *dWorld, sc *dScenario) (*denv, error) {
	e := &denv{r: r, w: w, sc: sc, pol: sc.Policy, m: newModel(sc.Policy), gens: map[uint32]*dseen{}, byQ: map[*dns.Msg]*dseen{}, win: -1}
	gates := map[string]*authsim.Gate{}
	for i := range sc.Ops {
		if sc.Ops[i].Kind == "pair" {
			gates[strings.ToLower(w.live(sc.Ops[i].Q.Name))] = authsim.NewGate()
		}
	}
	e.gates = gates
	w.script(gates)
	w.mu.Lock()
	w.cur = e
	w.mu.Unlock()
	p := sc.Policy
	rs, err := w.u.NewResolverStack(func(cfg *config.Config) {
		cfg.ECS.Enabled = p.Enabled
		cfg.ECS.ForwardV4Max, cfg.ECS.ForwardV6Max = p.V4, p.V6
		cfg.ECS.MinScopeV4, cfg.ECS.MinScopeV6 = p.MinV4, p.MinV6
		cfg.ECS.ClientNetworks = append([]string(nil), p.Networks...)
		cfg.ECS.CacheLimitTTL.Duration = time.Duration(p.CapSec) * time.Second
		cfg.Prefetch = uint32(p.Prefetch)
		cfg.RateLimit, cfg.ClientRateLimit = 0, 0
		cfg.AccessList = []string{"0.0.0.0/0", "::0/0"}
		cfg.NSID = "verif-c19d"
	})
	if err != nil {
		return nil, err
	}
	e.rs = rs
	return e, nil
}

func (e *denv) gateFor(name string) *authsim.Gate {
	return e.gates[strings.ToLower(e.w.live(name))]
}

func (e *denv) close() {
	e.w.mu.Lock()
	e.w.cur = nil
	e.w.mu.Unlock()
	if e.rs != nil {
		e.rs.Close()
		e.rs = nil
	}
}

// dOut is the outcome of one client exchange.
type dOut struct {
	Sent    bool
	Skipped string
	Wrote   bool
	Writes  int
	Raw     []byte
	Msg     *dns.Msg
	Panic   any
}

// serve runs one client query through the decoded entry (Server.ServeMsg)
// or the strict wire entry (Server.ServeRaw with a VerifStrictJob) under the
// op's synthetic client address.
func (e *denv) serve(op *Op) (out dOut) {
	q := op.Q
	q.Name = e.w.live(q.Name)
	pkt, perr := q.wire()
	var raws [][]byte
	defer func() {
		if p := recover(); p != nil {
			out.Panic = p
		}
		out.Writes = len(raws)
		if len(raws) > 0 {
			out.Wrote = true
			out.Raw = raws[len(raws)-1]
			if out.Raw != nil {
				m := new(dns.Msg)
				if m.Unpack(out.Raw) == nil {
					out.Msg = m
				}
			}
		}
	}()
	switch op.Entry {
	case "raw":
		if perr != nil {
			out.Skipped = "unpackable spec: " + perr.Error()
			return
		}
		proto := op.Proto
		if proto != "udp" {
			proto = "tcp"
		}
		job := server.VerifNewStrictJob(stack.ParseAddr(proto, op.Client))
		out.Sent = true
		e.rs.Server.ServeRaw(job, pkt, time.Now())
		raws = job.Writes
	case "msgwire":
		if perr != nil {
			out.Skipped = "unpackable spec: " + perr.Error()
			return
		}
		m := new(dns.Msg)
		if err := m.Unpack(pkt); err != nil {
			out.Skipped = "undecodable (a DoH/DoQ front end refuses it)"
			return
		}
		t := authsim.NewRecTransport(op.Proto, op.Client)
		out.Sent = true
		e.rs.Server.ServeMsg(context.Background(), t, m)
		t.Replies()
		raws = t.Raws
	default: // msgstruct
		m, err := q.structMsg()
		if err != nil {
			out.Skipped = "struct build: " + err.Error()
			return
		}
		t := authsim.NewRecTransport(op.Proto, op.Client)
		out.Sent = true
		e.rs.Server.ServeMsg(context.Background(), t, m)
		t.Replies()
		raws = t.Raws
	}
	return
}

// quiet: no upstream lookup, probe or resolution holds a limiter slot and the
// prefetch queue is empty, on three consecutive polls. The detached IPv6
// name-server enrichment jobs are NOT waited for: each sleeps 2 s before it
// does anything (resolver.lookupV6Nss), carries no client data, and whatever
// it sends later is judged in the window it falls into.
func (e *denv) quiet(timeout time.Duration) bool {
	deadline := time.Now().Add(timeout)
	stable := 0
	for {
		a, b, c, _ := e.rs.Handler.VerifSlots()
		idle := a+b+c == 0
		if idle {
			if ch := e.rs.Cache(); ch != nil && ch.VerifStackPrefetchBacklog() != 0 {
				idle = false
			}
		}
		if idle {
			stable++
			if stable >= 3 {
				return true
			}
		} else {
			stable = 0
		}
		if time.Now().After(deadline) {
			return false
		}
		time.Sleep(300 * time.Microsecond)
	}
}

// settle: nothing runs on behalf of the exchange any more (quiet, and no
// cache entry holds a background-refresh claim). A timeout is inconclusive,
// never a verdict.
func (e *denv) settle() bool {
	if !e.settleQuiet() {
		return false
	}
	return e.w.barrier(e.winFrom)
}

func (e *denv) settleQuiet() bool {
	deadline := time.Now().Add(20 * time.Second)
	for {
		if !e.quiet(15 * time.Second) {
			return false
		}
		if e.pol.Prefetch == 0 {
			return true
		}
		claimed := false
		if c := e.rs.Cache(); c != nil {
			for _, d := range c.VerifStore().VerifDump() {
				if d.Prefetch {
					claimed = true
					break
				}
			}
		}
		if !claimed {
			return e.quiet(15 * time.Second)
		}
		if time.Now().After(deadline) {
			return false
		}
		time.Sleep(200 * time.Microsecond)
	}
}

func (e *denv) advance(d time.Duration) {
	if !e.settle() {
		e.r.Inconclusive("part D: pipeline did not quiesce before a clock advance")
		return
	}
	e.rs.Advance(d)
	e.mu.Lock()
	e.adv += d
	e.mu.Unlock()
}

func (e *denv) nextWindow(idx int) int {
	e.mu.Lock()
	e.win = idx
	e.mu.Unlock()
	e.winFrom = e.w.u.Log.Len()
	return e.winFrom
}

func caseOfD(e *denv, idx int, extra map[string]any) map[string]any {
	c := map[string]any{"part": "D", "index": e.sc.Index, "policy": e.pol, "op_index": idx,
		"ops": e.sc.Ops[:min(idx+1, len(e.sc.Ops))], "live_tld": e.w.tld}
	for k, v := range extra {
		c[k] = v
	}
	return c
}

func runScenarioD(r *vlib.Run, w *dWorld, sc *dScenario) {
	defer func() {
		if p := recover(); p != nil {
			r.Violation("panic/scenario-D", fmt.Sprintf("scenario D/%d panicked: %v", sc.Index, p),
				map[string]any{"part": "D", "index": sc.Index, "policy": sc.Policy, "ops": sc.Ops})
		}
	}()
	start := w.u.Log.Len()
	e, err := newDEnv(r, w, sc)
	if err != nil {
		r.Inconclusive("harness (part D): " + err.Error())
		return
	}
	e.winFrom = start
	defer e.close()
	r.Count("d_scenarios", 1)
	switch {
	case !e.m.enabled:
		r.Count("d_policies_disabled", 1)
	case !e.m.valid:
		r.Count("d_policies_invalid", 1)
	default:
		r.Count("d_policies_enabled_valid", 1)
		if sc.Policy.V4 == 0 && sc.Policy.V6 == 0 {
			r.Count("d_policies_default_ceilings", 1)
		}
		if len(sc.Policy.Networks) > 0 {
			r.Count("d_policies_restrictive_networks", 1)
		}
	}
	if !e.settle() {
		r.Inconclusive("part D: resolver did not quiesce after start-up")
		return
	}
	// start-up traffic (root priming, trust anchor refresh): no client exists
	e.judgePackets(-1, nil, w.u.Log.Since(start))
	for i := range sc.Ops {
		op := &sc.Ops[i]
		switch op.Kind {
		case "adv":
			from := w.u.Log.Len()
			e.winFrom = from
			e.advance(secs(op.AdvSec))
			r.Count("d_clock_advances", 1)
			e.judgePackets(i, nil, w.u.Log.Since(from))
		case "pair":
			e.runPair(i, op)
		default:
			from := e.nextWindow(i)
			t0 := time.Now()
			out := e.serve(&op.Op)
			t1 := time.Now()
			if !e.settle() {
				r.Inconclusive("part D: pipeline did not quiesce after an exchange")
				return
			}
			r.Count("d_exchanges", 1)
			pk := w.u.Log.Since(from)
			if os.Getenv("C19_DEBUG") != "" && time.Since(t0) > 200*time.Millisecond {
				fmt.Fprintf(os.Stderr, "slow op D/%d/%d %s %s role=%s serve=%v settle=%v\n", sc.Index, i, op.Q.Name, op.Client, op.Role, t1.Sub(t0), time.Since(t1))
				for _, l := range describePackets(e, pk) {
					fmt.Fprintln(os.Stderr, "   ", l)
				}
			}
			e.judgeReply(i, &op.Op, &out)
			e.judgePackets(i, []*Op{&op.Op}, pk)
			e.judgeAudience(i, &op.Op, &out, pk, nil)
			if out.Sent && out.Msg != nil && r.Counter("d_exchanges")%53 == 1 {
				r.Sample(map[string]any{"part": "D", "policy": sc.Policy.String(), "client": op.Client, "entry": op.Entry + "/" + op.Proto,
					"name": op.Q.Name, "client_opts": op.Q.Opts, "upstream": describePackets(e, pk), "reply": replyClass(out.Msg),
					"markers": fmt.Sprint(markersOf(out.Msg))})
			}
		}
	}
}

// runPair: two clients ask the same (cold) name; the first query's upstream
// exchange is held at the authority's gate until the second client is in
// flight, then both are released together. The waits only pace the schedule;
// what was shared is observed from the packet log and the markers.
func (e *denv) runPair(idx int, op *dOp) {
	r := e.r
	if op.Second == nil {
		return
	}
	g := e.gateFor(op.Q.Name)
	if g == nil {
		r.Inconclusive("part D: pair op without a gate")
		return
	}
	from := e.nextWindow(idx)
	var outA, outB dOut
	doneA, doneB := make(chan struct{}), make(chan struct{})
	go func() { defer close(doneA); outA = e.serve(&op.Op) }()
	finished := func(c chan struct{}) bool {
		select {
		case <-c:
			return true
		default:
			return false
		}
	}
	deadline := time.Now().Add(3 * time.Second)
	for g.Waiting() == 0 && !finished(doneA) && time.Now().Before(deadline) {
		time.Sleep(200 * time.Microsecond)
	}
	held := g.Waiting() > 0 && !finished(doneA)
	go func() { defer close(doneB); outB = e.serve(op.Second) }()
	// Both clients parked inside the resolver's shared-lookup group
	// (Resolver.groupLookup -> TimedDoChanWithRole)? Observed from the
	// goroutine stacks: a client that waits there passed the cache while
	// nothing was stored yet, so whatever it receives came from the shared
	// upstream exchange, not from a cache entry.
	parked := false
	idKey := func(o *Op) string {
		if v := identitiesOf(e.m, o); len(v) > 0 {
			return v[0].String()
		}
		return "none"
	}
	// Clients of one audience (same forwarded subnet, or none) are already
	// collapsed by the cache's own miss de-duplication and never meet in the
	// resolver; only clients of different audiences can.
	if held && idKey(&op.Op) != idKey(op.Second) && e.w.parkMisses < 3 {
		deadline = time.Now().Add(800 * time.Millisecond)
		for !finished(doneA) && !finished(doneB) && time.Now().Before(deadline) {
			if goroutinesIn("TimedDoChanWithRole") >= 2 {
				parked = true
				break
			}
			time.Sleep(time.Millisecond)
		}
		if !parked {
			e.w.parkMisses++
			if os.Getenv("C19_DEBUG") != "" {
				fmt.Fprintf(os.Stderr, "park miss D/%d/%d doneA=%v doneB=%v waiting=%d n=%d\n", e.sc.Index, idx, finished(doneA), finished(doneB), g.Waiting(), goroutinesIn("TimedDoChanWithRole"))
			}
		}
	} else {
		time.Sleep(30 * time.Millisecond)
	}
	bothInFlight := held && !finished(doneA) && !finished(doneB)
	parked = parked && bothInFlight
	g.Release()
	<-doneA
	<-doneB
	if !e.settle() {
		r.Inconclusive("part D: pipeline did not quiesce after a concurrent pair")
		return
	}
	r.Count("d_exchanges", 2)
	if bothInFlight {
		r.Count("d_concurrent_pairs", 1)
	} else {
		r.Count("d_concurrent_pairs_not_overlapping", 1)
	}
	if parked {
		r.Count("d_concurrent_pairs_both_parked_in_shared_lookup", 1)
	}
	pk := e.w.u.Log.Since(from)
	ops := []*Op{&op.Op, op.Second}
	e.judgeReply(idx, &op.Op, &outA)
	e.judgeReply(idx, op.Second, &outB)
	e.judgePackets(idx, ops, pk)
	e.judgeAudienceP(idx, &op.Op, &outA, pk, op.Second, parked)
	e.judgeAudienceP(idx, op.Second, &outB, pk, &op.Op, parked)
	e.judgePairSharing(idx, op, &outA, &outB, pk, bothInFlight)
}

// ------------------------------------------------------------ generation

func dName(sc, ep int, fields, zone string) string {
	l := fmt.Sprintf("d%dx%d", sc, ep)
	if fields != "" {
		l += "-" + fields
	}
	return l + "." + zone + "." + dPlaceholderTLD
}

// differentSubnet picks an identity whose forwarded subnet differs from a's
// (nil when there is none).
func differentSubnet(rng *rand.Rand, m *model, ids []ident, a ident) *ident {
	ida := identitiesOf(m, &Op{Client: a.client, Entry: a.entry, Q: QSpec{EDNS: a.edns, Opts: a.opts}})
	perm := rng.Perm(len(ids))
	for _, k := range perm {
		b := ids[k]
		idb := identitiesOf(m, &Op{Client: b.client, Entry: b.entry, Q: QSpec{EDNS: b.edns, Opts: b.opts}})
		if len(ida) == 0 || len(idb) == 0 {
			continue
		}
		if idb[0].Fam == ida[0].Fam && idb[0].Hex != ida[0].Hex {
			return &ids[k]
		}
	}
	return nil
}

func genScenarioD(r *vlib.Run, idx int) *dScenario {
	rng := r.RandN("D", idx)
	kind := []int{1, 1, 1, 0, 1, 1, 2, 1}[idx%8]
	p := genPolicy(rng, kind)
	if kind == 1 {
		switch idx % 3 {
		case 0: // the documented defaults
			p.V4, p.V6, p.MinV4, p.MinV6 = 0, 0, 0, 0
		}
		if idx%4 != 1 {
			p.Networks = nil
		} else if len(p.Networks) == 0 {
			p.Networks = []string{pick(rng, netPool), pick(rng, netPool)}
		}
	}
	p.CapSec = []int{60, 20, 0, 60}[idx%4]
	p.Prefetch = []int{50, 0, 50, 80}[(idx/2)%4]
	p.DNSSEC = true
	sc := &dScenario{Part: "D", Index: idx, Policy: p}
	m := newModel(p)

	var ids []ident
	if kind == 1 {
		ids = genIdents(rng, p)
	} else {
		// forwarding is off (disabled / invalid): every client sends a subnet
		// option all the same
		q := p
		q.Enabled, q.V4, q.V6, q.MinV4, q.MinV6, q.Networks = true, 0, 0, 0, 0, nil
		ids = genIdents(rng, q)
		for i := range ids {
			ids[i].client = genClient(rng, p)
		}
	}
	if len(ids) == 0 {
		return sc
	}
	var ecsIDs, plainIDs []ident
	for _, id := range ids {
		if id.edns && len(identitiesOf(m, &Op{Client: id.client, Entry: id.entry, Q: QSpec{EDNS: true, Opts: id.opts}})) > 0 {
			ecsIDs = append(ecsIDs, id)
		} else {
			plainIDs = append(plainIDs, id)
		}
	}
	fl := m.f4
	fields := []string{"sd0-t300", "sd0-t300", "sd8-t3600", "sd1-t300", "sm1-t300", "sm2-t3600", fmt.Sprintf("sa%d-t300", fl), fmt.Sprintf("sa%d-t300", fl+1),
		fmt.Sprintf("sa%d-t300", max(fl-1, 1)), fmt.Sprintf("sa%d-t3600", max(min(m.c4, fl)-3, 1)), "sn-t300", "t300", "sa0-t300",
		fmt.Sprintf("sa%d-t300", m.f6), fmt.Sprintf("sa%d-t300", max(min(m.c6, m.f6)-5, 1)), "sd8-t40", "sa1-t300"}
	fields = append(fields, "sd0-nd-t300", "sd0-nd-t300", fmt.Sprintf("sa%d-nd-t300", fl), "sm1-nd-t300", "sd8-nd-t3600", fmt.Sprintf("sa%d-nd-t300", m.f6),
		"nd-t300", fmt.Sprintf("sa%d-nd-t300", max(min(m.c4, fl)-3, 1)), "sa1-nd-t300")
	add := func(id ident, name string, qtype uint16, role string) {
		op := id.query(rng, name, qtype)
		op.Role = role
		sc.Ops = append(sc.Ops, dOp{Op: op})
	}
	nEp := 4
	for ep := 0; ep < nEp; ep++ {
		zone := "geo"
		if ep == 2 {
			zone = "gl" // reached through an NS-address helper lookup
		}
		name := dName(idx, ep, pick(rng, fields), zone)
		qtype := pick(rng, []uint16{dns.TypeA, dns.TypeA, dns.TypeAAAA, dns.TypeTXT})
		ru := parseRule(name)
		life := int(ru.ttl)
		scoped := ru.mode != "" && ru.mode != "n" && !(ru.mode == "a" && ru.val == 0)
		if scoped && kind == 1 && p.CapSec > 0 && p.CapSec < life {
			life = p.CapSec
		}
		prim := pick(rng, ids)
		if len(ecsIDs) > 0 {
			prim = pick(rng, ecsIDs)
		}
		add(prim, name, qtype, "cold")
		add(prim, name, qtype, "again")
		if o := differentSubnet(rng, m, ecsIDs, prim); o != nil {
			add(*o, name, qtype, "other-subnet")
		}
		if len(plainIDs) > 0 {
			add(pick(rng, plainIDs), name, qtype, "no-subnet")
		}
		add(pick(rng, ids), name, qtype, "any")
		sc.Ops = append(sc.Ops, dOp{Op: Op{Kind: "adv", AdvSec: life * 7 / 10}})
		add(prim, name, qtype, "in-refresh-window")
		add(pick(rng, ids), name, qtype, "any")
		add(prim, name, qtype, "after-refresh")
		sc.Ops = append(sc.Ops, dOp{Op: Op{Kind: "adv", AdvSec: life*3/10 + 1}})
		add(prim, name, qtype, "expired")
		if len(plainIDs) > 0 {
			add(pick(rng, plainIDs), name, qtype, "no-subnet")
		}

		if ep == 0 || ep == 3 {
			// a concurrent pair on a fresh name of the (now warm) zone
			pname := dName(idx, 10+ep, pick(rng, []string{"sd0-t300", "sd0-t300", "sd1-t300", "sm1-t300"}), zone)
			a := prim
			var b ident
			switch {
			case ep == 3 && len(plainIDs) > 0 && rng.IntN(2) == 0:
				b = pick(rng, plainIDs)
			default:
				if o := differentSubnet(rng, m, ecsIDs, a); o != nil {
					b = *o
				} else {
					b = pick(rng, ids)
				}
			}
			if rng.IntN(2) == 0 {
				a, b = b, a
			}
			qa, qb := a.query(rng, pname, dns.TypeA), b.query(rng, pname, dns.TypeA)
			qa.Kind, qa.Role, qb.Role = "pair", "pair-first", "pair-second"
			sc.Ops = append(sc.Ops, dOp{Op: qa, Second: &qb})
			add(pick(rng, ids), pname, dns.TypeA, "after-pair")
			if len(plainIDs) > 0 {
				add(pick(rng, plainIDs), pname, dns.TypeA, "no-subnet")
			}
		}
	}
	// hostile option shapes (part A's generator): leak side only
	for i := 0; i < 6; i++ {
		entry, proto := genEntry(rng)
		name := dName(idx, 20+i, pick(rng, []string{"", "sd0", "sa8", "sn"}), "geo")
		op := Op{Kind: "q", Client: genClient(rng, p), Entry: entry, Proto: proto, Role: "hostile"}
		op.Q = genQuery(rng, m, name, entry, 85)
		op.Q.RD = true
		sc.Ops = append(sc.Ops, dOp{Op: op})
	}
	return sc
}

func runPartD(r *vlib.Run) {
	w, err := newDWorld()
	if err != nil {
		r.Inconclusive("harness (part D): " + err.Error())
		return
	}
	defer func() {
		w.close()
		time.Sleep(50 * time.Millisecond)
		authsim.SweepTemp()
	}()
	nSc := r.N(32, 400)
	for i := 0; i < nSc; i++ {
		runScenarioD(r, w, genScenarioD(r, i))
		r.Progress("part D scenario %d/%d", i+1, nSc)
	}
	r.Note("part_d", fmt.Sprintf("%d scenarios (real resolver on an authsim universe, TLD %s)", nSc, w.tld))
}

func replayScenarioD(r *vlib.Run, sc *dScenario) {
	w, err := newDWorld()
	if err != nil {
		r.Inconclusive("harness (part D): " + err.Error())
		return
	}
	defer func() {
		w.close()
		time.Sleep(50 * time.Millisecond)
		authsim.SweepTemp()
	}()
	runScenarioD(r, w, sc)
}
