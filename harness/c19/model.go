package main

// The oracle's own model of an [ecs] policy, of a client-supplied subnet
// option and of "what may leave sdns". Nothing here calls into
// internal/ecs: every value is recomputed from the configuration primitives
// and the raw option bytes with plain byte arithmetic.

import (
	"encoding/hex"
	"fmt"
	"net/netip"
	"strconv"
	"strings"
)

// PolicySpec is the serialisable configuration of one Stack.
type PolicySpec struct {
	Enabled  bool     `json:"enabled"`
	V4       uint8    `json:"forward_v4"`
	V6       uint8    `json:"forward_v6"`
	MinV4    uint8    `json:"min_scope_v4"`
	MinV6    uint8    `json:"min_scope_v6"`
	Networks []string `json:"client_networks"`
	CapSec   int      `json:"cache_limit_ttl_s"`
	Prefetch int      `json:"prefetch"`
	DNSSEC   bool     `json:"dnssec_on"`
	// CookieLimit > 0 switches the client rate limiter on (it answers
	// cookie-less / wrong-cookie clients with BADCOOKIE ahead of edns).
	CookieLimit int `json:"client_rate_limit,omitempty"`
}

func (p PolicySpec) String() string {
	return fmt.Sprintf("en=%v v4=%d v6=%d min=%d/%d nets=%v cap=%d pf=%d", p.Enabled, p.V4, p.V6, p.MinV4, p.MinV6, p.Networks, p.CapSec, p.Prefetch)
}

// model is the oracle's reading of a PolicySpec (documented semantics of the
// [ecs] block: 0 = default 24/56 for the ceilings, floors default to the
// ceilings, any out-of-range number or unparsable CIDR invalidates the whole
// block, empty client_networks = every client).
type model struct {
	enabled bool
	valid   bool
	why     string
	c4, c6  int // forwarding ceilings
	f4, f6  int // scope floors ("never more specific than")
	nets    []netip.Prefix
	capSec  int
}

func newModel(p PolicySpec) *model {
	m := &model{enabled: p.Enabled, valid: true, capSec: p.CapSec}
	m.c4, m.c6, m.f4, m.f6 = int(p.V4), int(p.V6), int(p.MinV4), int(p.MinV6)
	if m.c4 == 0 {
		m.c4 = 24
	}
	if m.c6 == 0 {
		m.c6 = 56
	}
	if m.f4 == 0 {
		m.f4 = m.c4
	}
	if m.f6 == 0 {
		m.f6 = m.c6
	}
	bad := func(why string) {
		if m.valid {
			m.valid, m.why = false, why
		}
	}
	if m.c4 > 32 {
		bad("forward_v4")
	}
	if m.c6 > 128 {
		bad("forward_v6")
	}
	if m.f4 > 32 {
		bad("min_scope_v4")
	}
	if m.f6 > 128 {
		bad("min_scope_v6")
	}
	for _, s := range p.Networks {
		pf, ok := parseCIDR(s)
		if !ok {
			bad("client_networks")
			continue
		}
		m.nets = append(m.nets, pf)
	}
	return m
}

// parseCIDR is a deliberately plain CIDR parser (address "/" decimal length,
// length within the family) so the oracle does not lean on the parser sdns
// uses. The generator only emits entries that are unambiguously valid or
// unambiguously invalid.
func parseCIDR(s string) (netip.Prefix, bool) {
	i := strings.LastIndexByte(s, '/')
	if i <= 0 || i == len(s)-1 {
		return netip.Prefix{}, false
	}
	a, err := netip.ParseAddr(s[:i])
	if err != nil || a.Zone() != "" {
		return netip.Prefix{}, false
	}
	for _, c := range s[i+1:] {
		if c < '0' || c > '9' {
			return netip.Prefix{}, false
		}
	}
	n, err := strconv.Atoi(s[i+1:])
	if err != nil || n < 0 || n > a.BitLen() {
		return netip.Prefix{}, false
	}
	return netip.PrefixFrom(a, n), true
}

// prefixHas: does addr/bits (raw bytes, possibly with host bits set) contain b?
func prefixHas(addr []byte, bits int, b []byte) bool {
	if len(addr) != len(b) || bits > len(addr)*8 {
		return false
	}
	for i := 0; i < bits; i++ {
		m := byte(0x80 >> (i % 8))
		if addr[i/8]&m != b[i/8]&m {
			return false
		}
	}
	return true
}

func maskBytes(addr []byte, bits int) []byte {
	out := make([]byte, len(addr))
	for i := 0; i < bits && i < len(addr)*8; i++ {
		m := byte(0x80 >> (i % 8))
		out[i/8] |= addr[i/8] & m
	}
	return out
}

// clientIP extracts the (unmapped) address of an "ip:port" client string.
func clientIP(client string) (netip.Addr, bool) {
	ap, err := netip.ParseAddrPort(client)
	if err != nil {
		return netip.Addr{}, false
	}
	return ap.Addr().Unmap().WithZone(""), true
}

// eligible: may client subnet data of this client leave sdns at all?
func (m *model) eligible(client string) bool {
	if !m.enabled || !m.valid {
		return false
	}
	a, ok := clientIP(client)
	if !ok {
		return false
	}
	if len(m.nets) == 0 {
		return true
	}
	ab := a.AsSlice()
	for _, n := range m.nets {
		nb := n.Addr().Unmap().AsSlice()
		if prefixHas(nb, n.Bits(), ab) {
			return true
		}
	}
	return false
}

// ecsVal is a subnet value: family 1/2, prefix length, address bytes of the
// family's length (4 / 16).
type ecsVal struct {
	Fam  int    `json:"family"`
	Bits int    `json:"bits"`
	Addr []byte `json:"-"`
	Hex  string `json:"addr"`
}

func newECSVal(fam, bits int, addr []byte) *ecsVal {
	return &ecsVal{Fam: fam, Bits: bits, Addr: addr, Hex: hex.EncodeToString(addr)}
}

func (e *ecsVal) String() string {
	if e == nil {
		return "none"
	}
	a, _ := netip.AddrFromSlice(e.Addr)
	return fmt.Sprintf("fam%d:%s/%d", e.Fam, a, e.Bits)
}

func (e *ecsVal) famBits() int {
	if e.Fam == 1 {
		return 32
	}
	return 128
}

// contains: is the subnet o entirely inside e (same family)?
func (e *ecsVal) contains(o *ecsVal) bool {
	if e == nil || o == nil || e.Fam != o.Fam || e.Bits > o.Bits {
		return false
	}
	return prefixHas(e.Addr, e.Bits, o.Addr)
}

// OptSpec is one client-supplied EDNS option: code + raw payload.
type OptSpec struct {
	Code uint16 `json:"code"`
	Data string `json:"data"` // hex
}

func (o OptSpec) bytes() []byte { b, _ := hex.DecodeString(o.Data); return b }

// clientSubnet interprets one client-supplied option-8 payload. wire=true:
// the option travelled as bytes (RFC 7871 layout: family, source, scope,
// address octets — fewer than the family's length are zero-padded, more are
// cut). wire=false: the decoded entry was handed the struct directly and the
// address bytes are the net.IP as given (4 bytes = IPv4, 16 bytes = IPv6 or
// IPv4-mapped IPv4).
//
// ok=false means "no well-formed reading exists": nothing may be forwarded
// on its behalf.
func clientSubnet(data []byte, wire bool) (v *ecsVal, ok bool) {
	if len(data) < 4 {
		return nil, false
	}
	fam := int(data[0])<<8 | int(data[1])
	bits := int(data[2])
	addr := data[4:]
	if fam != 1 && fam != 2 {
		return nil, false
	}
	n := 4
	if fam == 2 {
		n = 16
	}
	if wire {
		if bits > n*8 || int(data[3]) > n*8 {
			return nil, false // not decodable: the query is owed a FORMERR
		}
		full := make([]byte, n)
		copy(full, addr)
		return newECSVal(fam, bits, full), true
	}
	switch {
	case len(addr) == 4 && fam == 1:
		return newECSVal(1, bits, append([]byte(nil), addr...)), true
	case len(addr) == 16:
		mapped := true
		for i := 0; i < 10; i++ {
			mapped = mapped && addr[i] == 0
		}
		mapped = mapped && addr[10] == 0xff && addr[11] == 0xff
		if fam == 1 && mapped {
			return newECSVal(1, bits, append([]byte(nil), addr[12:]...)), true
		}
		if fam == 2 {
			return newECSVal(2, bits, append([]byte(nil), addr...)), true
		}
	}
	return nil, false
}

// expectedUpstream: the only subnet option that may accompany an upstream
// query made on behalf of this client option.
func (m *model) expectedUpstream(client string, v *ecsVal) *ecsVal {
	if v == nil || !m.eligible(client) {
		return nil
	}
	ceil := m.c4
	if v.Fam == 2 {
		ceil = m.c6
	}
	bits := v.Bits
	if ceil < bits {
		bits = ceil
	}
	if bits > v.famBits() {
		bits = v.famBits()
	}
	return newECSVal(v.Fam, bits, maskBytes(v.Addr, bits))
}

func (m *model) floor(fam int) int {
	if fam == 1 {
		return m.f4
	}
	return m.f6
}
