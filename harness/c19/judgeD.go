package main

// Judgements of part D (real resolver): upstream leak from the raw bytes of
// every query the authorities received, audience / TTL cap / refresh from
// provenance markers, no ECS in client replies.
//
// Reading chosen for "which upstream queries may carry ECS": the statement
// restricts WHEN (forwarding enabled, client eligible) and WHAT (clamped,
// masked, scope 0) may leave sdns, not to WHOM. The unchanged tree hands the
// normalised request OPT to every server on the descent of the client's own
// question (root and TLD see it on the minimised queries) and builds its
// helper queries (DS, DNSKEY, NS addresses) from scratch. Both are legal
// here: any upstream query made during a client's exchange may carry exactly
// the option the policy permits for that client, or none; which kind of query
// carried it is counted (zone authority / ancestor servers / helper queries).

import (
	"encoding/binary"
	"encoding/hex"
	"fmt"
	"net/netip"
	"runtime"
	"strings"
	"time"

	"github.com/miekg/dns"

	mcache "github.com/semihalev/sdns/middleware/cache"
	"github.com/semihalev/sdns/zzverif/authsim"
	"github.com/semihalev/sdns/zzverif/stack"
)

type rawOption struct {
	Code uint16
	Data []byte
}

// parseRawOPT walks a DNS message and returns the options of every OPT
// record in it, as bytes (the library's typed form re-masks ECS addresses).
func parseRawOPT(msg []byte) (opts []rawOption, hasOPT bool, err error) {
	if len(msg) < 12 {
		return nil, false, fmt.Errorf("short header")
	}
	qd := int(binary.BigEndian.Uint16(msg[4:]))
	rrs := int(binary.BigEndian.Uint16(msg[6:])) + int(binary.BigEndian.Uint16(msg[8:])) + int(binary.BigEndian.Uint16(msg[10:]))
	off := 12
	skipName := func() bool {
		for {
			if off >= len(msg) {
				return false
			}
			c := int(msg[off])
			switch {
			case c == 0:
				off++
				return true
			case c&0xC0 == 0xC0:
				off += 2
				return off <= len(msg)
			case c&0xC0 != 0:
				return false
			default:
				off += 1 + c
			}
		}
	}
	for i := 0; i < qd; i++ {
		if !skipName() || off+4 > len(msg) {
			return nil, false, fmt.Errorf("bad question")
		}
		off += 4
	}
	for i := 0; i < rrs; i++ {
		if !skipName() || off+10 > len(msg) {
			return nil, hasOPT, fmt.Errorf("bad record header")
		}
		typ := binary.BigEndian.Uint16(msg[off:])
		rdlen := int(binary.BigEndian.Uint16(msg[off+8:]))
		off += 10
		if off+rdlen > len(msg) {
			return nil, hasOPT, fmt.Errorf("bad rdlength")
		}
		if typ == dns.TypeOPT {
			hasOPT = true
			rd := msg[off : off+rdlen]
			for len(rd) >= 4 {
				code := binary.BigEndian.Uint16(rd)
				l := int(binary.BigEndian.Uint16(rd[2:]))
				if 4+l > len(rd) {
					return opts, hasOPT, fmt.Errorf("bad option length")
				}
				opts = append(opts, rawOption{Code: code, Data: append([]byte(nil), rd[4:4+l]...)})
				rd = rd[4+l:]
			}
		}
		off += rdlen
	}
	return opts, hasOPT, nil
}

// identitiesOf: the subnets this client is known by upstream (nil: none).
func identitiesOf(m *model, op *Op) []*ecsVal {
	if !op.Q.EDNS {
		return nil
	}
	var out []*ecsVal
	for _, o := range op.Q.Opts {
		if o.Code != dns.EDNS0SUBNET {
			continue
		}
		if v, ok := clientSubnet(o.bytes(), op.Entry != "msgstruct"); ok {
			if x := m.expectedUpstream(op.Client, v); x != nil {
				out = append(out, x)
			}
		}
	}
	return out
}

// effectiveOf: the audience of an authority answer (nil = everyone): the
// declared scope, never more specific than what was forwarded or than the
// configured floor.
func effectiveOf(m *model, s *dseen) *ecsVal {
	if s == nil || s.Decl == nil || s.Req == nil {
		return nil
	}
	bits := min(s.Decl.Bits, s.Req.Bits, m.floor(s.Decl.Fam))
	if bits <= 0 {
		return nil
	}
	return newECSVal(s.Decl.Fam, bits, maskBytes(s.Decl.Addr, bits))
}

func markersOf(m *dns.Msg) []uint32 { g, _, _ := markersD(m); return g }

func describePackets(e *denv, pk []authsim.Packet) []string {
	var out []string
	for i := range pk {
		p := &pk[i]
		if p.Sink || !e.w.inNamespace(p.QNameL) {
			continue
		}
		raw, _ := hex.DecodeString(p.RawHex)
		opts, _, _ := parseRawOPT(raw)
		var os []string
		for _, o := range opts {
			os = append(os, fmt.Sprintf("%d:%x", o.Code, o.Data))
		}
		out = append(out, fmt.Sprintf("%s/%s %s %s opts=%v", p.Server, p.Transport, p.QNameL, dns.TypeToString[p.QType], os))
		if len(out) >= 12 {
			break
		}
	}
	return out
}

// ------------------------------------------------------------- replies

func (e *denv) judgeReply(idx int, op *Op, out *dOut) {
	r := e.r
	if !out.Sent {
		r.Count("d_exchanges_skipped_undecodable", 1)
		return
	}
	if out.Panic != nil {
		r.Violation("panic/serve-D-"+op.Entry, fmt.Sprintf("server entry panicked: %v", out.Panic), caseOfD(e, idx, nil))
		return
	}
	if !out.Wrote {
		r.Count("d_exchanges_no_reply", 1)
		return
	}
	r.Count("d_replies_judged", 1)
	r.Count("d_replies_via_"+op.Entry, 1)
	if out.Writes > 1 {
		r.Count("d_replies_multiple_writes", 1)
	}
	if out.Raw == nil {
		r.Count("d_replies_undecodable", 1)
		return
	}
	r.Eval(1)
	cls := replyClass(out.Msg)
	r.Count("d_reply_class_"+cls, 1)
	opts, _, err := parseRawOPT(out.Raw)
	if err != nil {
		r.Count("d_replies_undecodable", 1)
		return
	}
	for _, o := range opts {
		if o.Code == dns.EDNS0SUBNET {
			r.Violation("resolver/ecs-in-reply/"+cls,
				fmt.Sprintf("client %s (%s/%s) received a %s reply from the full pipeline carrying an EDNS Client Subnet option %x; policy %s",
					op.Client, op.Entry, op.Proto, strings.ToUpper(cls), o.Data, e.pol),
				caseOfD(e, idx, map[string]any{"reply_hex": hex.EncodeToString(out.Raw)}))
			break
		}
	}
}

// ------------------------------------------------------------ upstream

type dExpect struct {
	op         *Op
	name       string // live, lower case
	clientSent bool
	exp        []*ecsVal
	codes      map[uint16]bool
	wentUp     bool
	anyECS     bool
	anyOther   bool
}

func (e *denv) expectOf(op *Op) *dExpect {
	x := &dExpect{op: op, name: strings.ToLower(e.w.live(op.Q.Name)), codes: map[uint16]bool{}}
	if !op.Q.EDNS {
		return x
	}
	wire := op.Entry != "msgstruct"
	for _, o := range op.Q.Opts {
		if o.Code != dns.EDNS0SUBNET {
			x.codes[o.Code] = true
			continue
		}
		x.clientSent = true
		if v, ok := clientSubnet(o.bytes(), wire); ok {
			if u := e.m.expectedUpstream(op.Client, v); u != nil {
				x.exp = append(x.exp, u)
			}
		}
	}
	return x
}

// ecsLegal: "" when the raw subnet option is exactly what the policy permits
// for this client, else the signature suffix.
func (e *denv) ecsLegal(x *dExpect, data []byte) string {
	switch {
	case !x.clientSent:
		return "ecs-without-client-option"
	case !e.m.enabled:
		return "ecs-when-disabled"
	case !e.m.valid:
		return "ecs-under-invalid-config"
	case !e.m.eligible(x.op.Client):
		return "ecs-client-not-in-networks"
	case len(x.exp) == 0:
		return "ecs-from-malformed-option"
	}
	if len(data) < 4 {
		return "ecs-mismatch/malformed"
	}
	fam := int(binary.BigEndian.Uint16(data))
	src, scope, addr := int(data[2]), int(data[3]), data[4:]
	why := ""
	for _, u := range x.exp {
		n := len(u.Addr)
		switch {
		case fam != u.Fam:
			why = "ecs-mismatch/family"
			continue
		case src > u.Bits:
			why = "ecs-mismatch/wider-than-ceiling"
			continue
		case src < u.Bits:
			why = "ecs-mismatch/source-length"
			continue
		case scope != 0:
			why = "ecs-mismatch/scope-nonzero"
			continue
		case len(addr) > n:
			why = "ecs-mismatch/address-length"
			continue
		}
		full := make([]byte, n)
		copy(full, addr)
		if hex.EncodeToString(full) == u.Hex {
			return ""
		}
		if hex.EncodeToString(maskBytes(full, u.Bits)) == u.Hex {
			why = "ecs-mismatch/host-bits"
		} else {
			why = "ecs-mismatch/address"
		}
	}
	return why
}

// judgePackets inspects every query the authorities received during one
// window. ops = the client exchanges of the window (none: start-up or clock
// advance, nobody's subnet may appear).
func (e *denv) judgePackets(idx int, ops []*Op, pk []authsim.Packet) {
	r := e.r
	var xs []*dExpect
	for _, op := range ops {
		xs = append(xs, e.expectOf(op))
	}
	for i := range pk {
		p := &pk[i]
		if p.Sink {
			r.Count("d_sink_packets", 1)
			continue
		}
		if dns.IsSubDomain(dBarrierZone, p.QNameL) {
			continue // the harness's own sentinel
		}
		if p.ParseErr != "" || !e.w.inNamespace(p.QNameL) {
			r.Count("d_stray_packets_ignored", 1)
			continue
		}
		raw, herr := hex.DecodeString(p.RawHex)
		opts, hasOPT, err := parseRawOPT(raw)
		if herr != nil || err != nil {
			r.Count("d_upstream_unparsable", 1)
			continue
		}
		r.Count("d_upstream_packets_inspected", 1)
		r.Count("d_upstream_packets_at_"+p.Server, 1)
		r.Eval(1)
		if !hasOPT {
			r.Count("d_upstream_without_opt", 1)
		}
		// what kind of query is it, relative to the window's client question(s)
		kind := "helper"
		for _, x := range xs {
			if p.QType == x.op.Q.Qtype && dns.IsSubDomain(p.QNameL, x.name) {
				x.wentUp = true
				if p.QNameL == x.name {
					kind = "zone-authority"
				} else if kind != "zone-authority" {
					kind = "ancestor"
				}
			}
		}
		if len(xs) == 0 {
			kind = "no-client"
		}
		var ecs []rawOption
		for _, o := range opts {
			if o.Code == dns.EDNS0SUBNET {
				ecs = append(ecs, o)
				continue
			}
			sent := false
			for _, x := range xs {
				sent = sent || x.codes[o.Code]
			}
			if sent && !(o.Code == dns.EDNS0TCPKEEPALIVE && p.Transport == "tcp") {
				for _, x := range xs {
					x.anyOther = true
				}
				r.Violation(fmt.Sprintf("resolver/upstream/client-option-forwarded/%d", o.Code),
					fmt.Sprintf("the query %s %s received by authority %q carried EDNS option code %d (%x), a code the client sent; every client-supplied option must be removed before any upstream query",
						p.QNameL, dns.TypeToString[p.QType], p.Server, o.Code, o.Data),
					caseOfD(e, idx, map[string]any{"packet_hex": p.RawHex, "server": p.Server}))
			} else {
				r.Count("d_upstream_own_options", 1)
			}
		}
		if len(ecs) == 0 {
			if kind == "helper" {
				r.Count("d_helper_queries_without_ecs", 1)
			}
			if kind == "zone-authority" {
				for _, x := range xs {
					if len(x.exp) > 0 && p.QNameL == x.name {
						r.Count("d_upstream_ecs_absent_though_permitted", 1)
					}
				}
			}
			continue
		}
		for _, x := range xs {
			x.anyECS = true
		}
		r.Count("d_upstream_with_ecs", 1)
		if len(ecs) > 1 {
			r.Violation("resolver/upstream/multiple-ecs", fmt.Sprintf("the query %s %s received by %q carried %d subnet options", p.QNameL, dns.TypeToString[p.QType], p.Server, len(ecs)),
				caseOfD(e, idx, map[string]any{"packet_hex": p.RawHex}))
		}
		reason := "ecs-without-client-option"
		var okFor *dExpect
		for k, x := range xs {
			why := e.ecsLegal(x, ecs[0].Data)
			if why == "" {
				okFor = x
				break
			}
			if k == 0 {
				reason = why
			}
		}
		if okFor == nil {
			var exp []string
			var clients []string
			for _, x := range xs {
				exp = append(exp, fmt.Sprint(x.exp))
				clients = append(clients, x.op.Client)
			}
			r.Violation("resolver/upstream/"+reason,
				fmt.Sprintf("the query %s %s received by authority %q (%s) carried subnet option %x; policy (%s) permits %v for client(s) %v",
					p.QNameL, dns.TypeToString[p.QType], p.Server, kind, ecs[0].Data, e.pol, exp, clients),
				caseOfD(e, idx, map[string]any{"packet_hex": p.RawHex, "server": p.Server, "query_kind": kind}))
			continue
		}
		fam, src := int(binary.BigEndian.Uint16(ecs[0].Data)), int(ecs[0].Data[2])
		r.Count("d_upstream_ecs_matches_expected", 1)
		r.Count(fmt.Sprintf("d_upstream_ecs_matches_expected_fam%d", fam), 1)
		r.Count("d_upstream_ecs_to_"+kind, 1)
		if src < firstClientBits(okFor.op, okFor.op.Entry != "msgstruct") {
			r.Count("d_upstream_ecs_clamped_by_ceiling", 1)
		}
		r.Distinct(fmt.Sprintf("dfwd/f%d/%d/c%d-%d/%s/%s", fam, src, e.m.c4, e.m.c6, okFor.op.Entry, kind))
	}
	for _, x := range xs {
		if !x.wentUp {
			continue
		}
		r.Count("d_exchanges_that_went_upstream", 1)
		if x.clientSent && !x.anyECS {
			switch {
			case !e.m.enabled:
				r.Count("d_disabled_policy_ecs_queries", 1)
			case !e.m.valid:
				r.Count("d_invalid_policy_ecs_queries", 1)
			case !e.m.eligible(x.op.Client):
				r.Count("d_stripped_ecs_not_eligible", 1)
			case len(x.exp) == 0:
				r.Count("d_stripped_ecs_malformed", 1)
			}
		}
		if len(x.codes) > 0 && !x.anyOther {
			r.Count("d_stripped_other_options", 1)
		}
	}
}

// ------------------------------------------------------------ audience

// entryKind tells where the cache keeps the answer for a question after the
// window: "shared-entry" (only an unscoped entry), "scoped-entry" (only
// scoped ones), "mixed-entries", "no-entry".
func (e *denv) entryKind(name string, qtype uint16, cd bool) string {
	c := e.rs.Cache()
	if c == nil {
		return "no-cache"
	}
	shared, scoped := 0, 0
	for _, d := range c.VerifStore().VerifDump() {
		if d.Qtype != qtype || d.CD != cd || !strings.EqualFold(d.Question, name) {
			continue
		}
		if d.Scope == "" {
			shared++
		} else {
			scoped++
		}
	}
	switch {
	case shared > 0 && scoped == 0:
		return "shared-entry"
	case shared == 0 && scoped > 0:
		return "scoped-entry"
	case shared > 0:
		return "mixed-entries"
	}
	return "no-entry"
}

func containsAny(eff *ecsVal, ids []*ecsVal) bool {
	for _, id := range ids {
		if eff.contains(id) {
			return true
		}
	}
	return false
}

// judgeAudience: partner != nil in a concurrent pair (the other client);
// parked tells whether both clients were observed waiting inside the
// resolver's shared-lookup group before the authority released its answer.
func (e *denv) judgeAudience(idx int, op *Op, out *dOut, pk []authsim.Packet, partner *Op) {
	e.judgeAudienceP(idx, op, out, pk, partner, false)
}

func (e *denv) judgeAudienceP(idx int, op *Op, out *dOut, pk []authsim.Packet, partner *Op, parked bool) {
	r := e.r
	if !out.Sent || !out.Wrote || out.Msg == nil {
		return
	}
	ids := identitiesOf(e.m, op)
	name := strings.ToLower(e.w.live(op.Q.Name))
	qt := op.Q.Qtype

	// probes: was a scoped answer for this question live, declared for an
	// audience this client is outside of? (evidence; the outcome is judged
	// below from the markers)
	e.mu.Lock()
	for _, s := range e.seen {
		if s.Win >= idx || s.Name != name || s.Qtype != qt {
			continue
		}
		eff := effectiveOf(e.m, s)
		if eff == nil || e.adv-s.AdvAt >= time.Duration(s.TTL)*time.Second || containsAny(eff, ids) {
			continue
		}
		r.Count("d_outside_scope_probes", 1)
		if len(ids) == 0 {
			r.Count("d_non_ecs_probes", 1)
		} else {
			r.Count("d_other_subnet_probes", 1)
		}
		break
	}
	e.mu.Unlock()

	gens, ttls, negative := markersD(out.Msg)
	// the defect recorded for positive answers in resolver mode (scope lost in
	// Resolver.clearAdditional) does not apply to negative answers, which the
	// resolver relays with the authority's OPT: they keep their own signatures
	what := "scoped-answer"
	if negative {
		what = "scoped-negative-answer"
		r.Count("d_negative_replies_with_marker", 1)
	}
	servedScopedFromCache := false
	var scopedGen *dseen
	servedFromCache := false
	for i, g := range gens {
		e.mu.Lock()
		s := e.gens[g]
		e.mu.Unlock()
		if s == nil {
			r.Count("d_markers_unknown", 1)
			continue
		}
		if s.Name != name || s.Qtype != qt {
			r.Count("d_markers_of_another_question", 1)
			continue
		}
		r.Eval(1)
		fromCache := s.Win < idx
		if fromCache {
			r.Count("d_answers_from_cache", 1)
			servedFromCache = true
		} else {
			r.Count("d_answers_direct", 1)
		}
		eff := effectiveOf(e.m, s)
		if eff == nil {
			r.Count("d_serves_of_global_answers", 1)
			continue
		}
		r.Count("d_scoped_answers_served", 1)
		if negative {
			r.Count("d_scoped_negative_answers_served", 1)
		}
		kind := e.entryKind(name, qt, op.Q.CD)
		ex := map[string]any{"generation": g, "made_in_op": s.Win, "authority_saw": s.Req.String(), "declared": s.Decl.String(),
			"audience": eff.String(), "client_identities": fmt.Sprint(ids), "cache_after": kind, "upstream": describePackets(e, pk)}
		if containsAny(eff, ids) {
			r.Count("d_scoped_serves_inside_scope", 1)
			if negative && fromCache {
				r.Count("d_scoped_negative_cache_serves_inside_scope", 1)
				r.Count("d_scoped_negative_cache_serves_from_"+kind, 1)
			}
			r.Count(fmt.Sprintf("d_scoped_serves_inside_scope_fam%d", eff.Fam), 1)
			if fromCache {
				r.Count("d_scoped_cache_serves_inside_scope", 1)
			}
			r.Distinct(fmt.Sprintf("daud/f%d/decl%d/src%d/eff%d/%v", eff.Fam, s.Decl.Bits, s.Req.Bits, eff.Bits, fromCache))
		} else {
			var sig, how string
			switch {
			case !fromCache && partner != nil && parked:
				sig = "resolver/scoped-answer-shared-by-singleflight"
				how = "both clients were waiting in the resolver's shared-lookup group when the authority answered: one upstream exchange served both"
			case !fromCache && partner != nil:
				sig = "resolver/" + what + "-served-outside-scope/" + kind
				how = "concurrent pair, second client not observed inside the shared lookup before the release"
			case !fromCache:
				sig = "resolver/" + what + "-served-outside-scope/direct"
				how = "answered by this client's own upstream exchange"
			default:
				sig = "resolver/" + what + "-served-outside-scope/" + kind
				how = "served from cache"
			}
			who := "sent no (permitted) subnet option"
			if len(ids) > 0 {
				who = fmt.Sprintf("is known upstream as %v", ids)
			}
			r.Violation(sig,
				fmt.Sprintf("client %s (%s) received generation %d of %s %s: the authority %q answered it for %s and declared scope %s (audience %s), made in op %d; %s; the cache now holds this question as %s",
					op.Client, who, g, name, dns.TypeToString[qt], s.Server, s.Req, s.Decl, eff, s.Win, how, kind),
				caseOfD(e, idx, ex))
		}
		if !fromCache {
			continue
		}
		servedScopedFromCache = true
		scopedGen = s
		if e.m.capSec > 0 {
			r.Count("d_scoped_cache_serves_ttl_judged", 1)
			if negative {
				r.Count("d_scoped_negative_cache_serves_ttl_judged", 1)
			}
			age := e.adv - s.AdvAt
			capD := time.Duration(e.m.capSec) * time.Second
			if age >= capD {
				r.Violation("resolver/"+what+"-served-past-ttl-cap/"+kind,
					fmt.Sprintf("scoped generation %d of %s served %v (virtual) after it was obtained; cache_limit_ttl is %ds (cache holds the question as %s)", g, name, age, e.m.capSec, kind),
					caseOfD(e, idx, ex))
			} else {
				r.Count("d_scoped_serves_within_cap", 1)
			}
			if int(ttls[i]) > e.m.capSec {
				r.Violation("resolver/"+what+"-ttl-above-cap/"+kind,
					fmt.Sprintf("scoped generation %d of %s served from cache with TTL %d > cache_limit_ttl %ds (cache holds the question as %s)", g, name, ttls[i], e.m.capSec, kind),
					caseOfD(e, idx, ex))
			}
		}
	}
	if partner != nil {
		return
	}
	// background refresh: the client was answered from cache, yet its window
	// shows upstream queries for the very question
	if servedFromCache {
		refreshed := 0
		for i := range pk {
			p := &pk[i]
			if !p.Sink && p.QNameL == name && p.QType == qt && (p.Server == "geo" || p.Server == "gl") {
				refreshed++
			}
		}
		if servedScopedFromCache {
			r.Count("d_scoped_hits_checked_for_refresh", 1)
			if negative {
				r.Count("d_scoped_negative_hits_checked_for_refresh", 1)
			}
			r.Eval(1)
		}
		if refreshed > 0 {
			if servedScopedFromCache {
				kind := e.entryKind(name, qt, op.Q.CD)
				r.Violation("resolver/"+what+"-background-refresh/"+kind,
					fmt.Sprintf("a cache hit on scoped generation %d of %s (client %s) started a background refresh: %d upstream queries for the question in the window (cache holds the question as %s)",
						scopedGen.Gen, name, op.Client, refreshed, kind),
					caseOfD(e, idx, map[string]any{"upstream": describePackets(e, pk)}))
			} else {
				r.Count("d_background_refreshes_of_global_entries", 1)
			}
		}
	}
}

// goroutinesIn counts goroutines whose stack shows a call frame of fn itself
// ("fn(" — not a closure "fn.func1(" defined inside it).
func goroutinesIn(fn string) int {
	fn += "("
	buf := make([]byte, 1<<20)
	for {
		n := runtime.Stack(buf, true)
		if n < len(buf) {
			buf = buf[:n]
			break
		}
		buf = make([]byte, 2*len(buf))
	}
	c := 0
	for _, g := range strings.Split(string(buf), "\n\n") {
		if strings.Contains(g, fn) {
			c++
		}
	}
	return c
}

// judgePairSharing: evidence on what the two clients of a concurrent pair
// shared upstream.
func (e *denv) judgePairSharing(idx int, op *dOp, outA, outB *dOut, pk []authsim.Packet, overlapped bool) {
	r := e.r
	name := strings.ToLower(e.w.live(op.Q.Name))
	ia, ib := identitiesOf(e.m, &op.Op), identitiesOf(e.m, op.Second)
	key := func(v []*ecsVal) string {
		if len(v) == 0 {
			return "none"
		}
		return v[0].String()
	}
	sawIDs := map[string]bool{}
	e.mu.Lock()
	for _, s := range e.seen {
		if s.Win == idx && s.Name == name {
			sawIDs[s.Req.String()] = true
		}
	}
	e.mu.Unlock()
	switch {
	case key(ia) == key(ib):
		r.Count("d_pairs_same_audience", 1)
	case len(sawIDs) == 1:
		r.Count("d_pairs_one_upstream_identity_for_two_audiences", 1)
	default:
		r.Count("d_pairs_separate_upstream_exchanges", 1)
	}
	ga, gb := markersOf(outA.Msg), markersOf(outB.Msg)
	if len(ga) > 0 && len(gb) > 0 && ga[0] == gb[0] {
		r.Count("d_pairs_same_generation_to_both", 1)
	}
	_ = overlapped
}

var _ = netip.Addr{}
var _ = mcache.VerifC04Counters
var _ = stack.ParseMarker
