// C19 — client subnet data is neither leaked upstream nor across audiences.
//
// The real pipeline (recovery … edns … cache) terminated by a scripted stub
// (harness/stack) is driven with generated (policy, client, option, authority
// scope, history) tuples. Oracle = independent re-computation (model.go):
//
//	part A  forwarding / stripping: what the stub was handed vs. what the
//	        policy permits; no subnet option in any client reply (BADVERS too)
//	part B  audiences: scoped answers served only inside their (widened)
//	        scope, scoped TTL cap under virtual time, no background refresh
//	part C  shared synthesised denials are neither consumed nor created by
//	        ECS/CD request trees (alias chases, internal sub-queries, Store)
//	part D  the same audience / leak / reply clauses with the REAL resolver:
//	        full production chain on an authsim universe with an ECS-aware
//	        tailoring authority (partD.go, judgeD.go)
//
// Every part runs scenarios (one Stack + an op list); a scenario is the
// replay unit (--replay re-executes the recorded op prefix).
package main

import (
	"encoding/json"
	"fmt"
	"os"
	"strings"

	"github.com/semihalev/sdns/zzverif/vlib"
)

func runScenario(r *vlib.Run, sc *Scenario) {
	defer func() {
		if p := recover(); p != nil {
			r.Violation("panic/scenario-"+sc.Part, fmt.Sprintf("scenario %s/%d panicked: %v", sc.Part, sc.Index, p),
				map[string]any{"part": sc.Part, "scenario": sc.Index, "policy": sc.Policy, "cname": sc.CNAME, "ops": sc.Ops})
		}
	}()
	e, err := newEnv(r, sc)
	if err != nil {
		r.Inconclusive("harness: " + err.Error())
		return
	}
	defer e.close()
	r.Count("scenarios_"+sc.Part, 1)
	switch {
	case !e.m.enabled:
		r.Count("policies_disabled", 1)
	case !e.m.valid:
		r.Count("policies_invalid", 1)
		r.DistinctIn("invalid_policy_reasons", e.m.why)
	default:
		r.Count("policies_enabled_valid", 1)
	}
	var dn *denialState
	if sc.Part == "C" {
		dn = newDenialState(e)
	}
	for i := range sc.Ops {
		op := &sc.Ops[i]
		switch op.Kind {
		case "adv":
			e.advance(secs(op.AdvSec))
			r.Count("clock_advances", 1)
		case "get":
			dn.storeGet(i, op)
		default:
			var pre denialSnap
			if dn != nil {
				pre = dn.snap()
			}
			out := e.run(i, op)
			r.Count("exchanges", 1)
			e.judgeReply(i, op, &out)
			e.judgeUpstream(i, op, &out)
			e.judgeAudience(i, op, &out)
			e.judgeStored(i, op, &out)
			if dn != nil {
				dn.judge(i, op, &out, pre)
			}
			if out.Sent && len(out.Seen) > 0 && r.Counter("exchanges")%97 == 1 {
				s := out.Seen[0]
				r.Sample(map[string]any{"part": sc.Part, "policy": sc.Policy.String(), "client": op.Client, "entry": op.Entry + "/" + op.Proto,
					"client_opts": op.Q.Opts, "upstream_codes": s.Codes, "upstream_ecs": s.Req.String(), "declared": s.Decl.String(),
					"reply": replyClass(out.Res.Msg)})
			}
		}
	}
}

func main() {
	r := vlib.Start("C19", "exploration")
	r.Assume("upstream = the request handed to the terminal stub that replaces failover/resolver (harness/stack); the resolver's own packing of that OPT is not observed")
	r.Assume("virtual time = (*Cache).VerifAdvance rewriting stored instants at quiescent points")
	r.Assume("part D: the real resolver resolves against scripted authorities (harness/authsim); upstream = raw bytes of every query those authorities received; virtual time = cache VerifAdvance + delegation-cache VerifAdvance")
	r.Assume("part D reading: any upstream query made during a client's exchange may carry exactly the option the policy permits for that client (the tree sends it to every server on the descent of the client's question, not on helper queries); the statement restricts when and what, not to whom")
	r.Assume("validated-denial provenance is injected by the stub through middleware.MarkValidatedNegativeProofResponse (structurally complete, unsigned proofs)")

	if raw := r.ReplayCase(); raw != nil {
		var head struct {
			Part string `json:"part"`
		}
		_ = json.Unmarshal(raw, &head)
		if head.Part == "D" {
			var sc dScenario
			if err := json.Unmarshal(raw, &sc); err != nil || len(sc.Ops) == 0 {
				r.Fatalf("replay: cannot decode part D scenario: %v", err)
			}
			replayScenarioD(r, &sc)
			r.Finish("replay of one recorded part D scenario prefix (real resolver)")
			return
		}
		var sc Scenario
		if err := json.Unmarshal(raw, &sc); err != nil || len(sc.Ops) == 0 {
			r.Fatalf("replay: cannot decode scenario: %v", err)
		}
		runScenario(r, &sc)
		r.Finish("replay of one recorded scenario prefix")
		return
	}

	// C19_PARTS (development aid): run only the listed parts, e.g. "D"
	parts := os.Getenv("C19_PARTS")
	want := func(p string) bool { return parts == "" || strings.Contains(parts, p) }
	if want("A") {
		runPartA(r)
	}
	if want("B") {
		runPartB(r)
	}
	if want("C") {
		runPartC(r)
	}
	if want("D") {
		runPartD(r)
	}

	// paths the verdict depends on
	r.Require("upstream_requests_inspected", 1500)
	r.Require("replies_judged", 1500)
	r.Require("replies_via_raw", 300)
	r.Require("replies_via_msgwire", 200)
	r.Require("replies_via_msgstruct", 200)
	r.Require("upstream_ecs_matches_expected_fam1", 50)
	r.Require("upstream_ecs_matches_expected_fam2", 50)
	r.Require("upstream_ecs_clamped_by_ceiling", 30)
	r.Require("stripped_ecs_not_eligible", 100)
	r.Require("stripped_other_options", 300)
	r.Require("policies_invalid", 5)
	r.Require("invalid_policy_ecs_queries", 50)
	r.Require("badvers_with_permitted_ecs", 3)
	r.Require("badcookie_with_client_ecs", 3)
	r.Require("reply_class_servfail-after-panic", 10)
	r.Require("denial_creation_probes_background-refresh", 3)
	r.Require("denial_creation_probes_alias-chase", 10)
	r.Require("scoped_serves_inside_scope_fam1", 20)
	r.Require("scoped_serves_inside_scope_fam2", 20)
	r.Require("scoped_refusals_outside_scope", 20)
	r.Require("scoped_serves_within_cap", 10)
	r.Require("scoped_expiry_probes_after_cap", 10)
	r.Require("scoped_hits_checked_for_refresh", 20)
	r.Require("background_refreshes_of_shared_entries", 5)
	r.Require("scoped_entries_inspected", 50)
	r.Require("denial_plain_consumed_shared", 10)
	r.Require("denial_ecs_cd_probes_bypassed", 30)
	r.Require("denial_plain_created_shared", 10)
	r.Require("denial_ecs_cd_creation_probes", 30)
	r.Require("denial_alias_probes", 10)
	r.Require("denial_store_get_plain_hits", 5)
	r.Require("denial_store_get_marked_misses", 5)

	// part D (real resolver on an authsim universe)
	if want("D") {
		r.Require("d_upstream_packets_inspected", 500)
		r.Require("d_upstream_ecs_matches_expected", 150) // upstream queries with ECS observed (raw bytes, exact match)
		r.Require("d_upstream_ecs_matches_expected_fam1", 40)
		r.Require("d_upstream_ecs_matches_expected_fam2", 40)
		r.Require("d_upstream_ecs_clamped_by_ceiling", 30)
		r.Require("d_helper_queries_without_ecs", 60) // DS / DNSKEY / NS-address helpers inspected
		r.Require("d_stripped_other_options", 100)
		r.Require("d_stripped_ecs_not_eligible", 5)
		r.Require("d_disabled_policy_ecs_queries", 10)
		r.Require("d_invalid_policy_ecs_queries", 10)
		r.Require("d_replies_judged", 800)
		r.Require("d_replies_via_raw", 150)
		r.Require("d_replies_via_msgwire", 150)
		r.Require("d_replies_via_msgstruct", 100)
		r.Require("d_scoped_answers_served", 200) // replies carrying the marker of an answer with a declared scope > 0
		r.Require("d_scoped_serves_inside_scope_fam1", 40)
		r.Require("d_scoped_serves_inside_scope_fam2", 40)
		r.Require("d_outside_scope_probes", 100) // a client outside a live scoped answer's audience asked the name
		r.Require("d_other_subnet_probes", 40)
		r.Require("d_non_ecs_probes", 50)
		r.Require("d_concurrent_pairs", 30)
		r.Require("d_concurrent_pairs_both_parked_in_shared_lookup", 10)
		r.Require("d_scoped_cache_serves_ttl_judged", 60)
		r.Require("d_scoped_hits_checked_for_refresh", 80)
		r.Require("d_background_refreshes_of_global_entries", 10)
		// tailored NODATA answers: the path on which the authority's scope does reach the cache
		r.Require("d_scoped_negative_answers_served", 60)
		r.Require("d_scoped_negative_cache_serves_inside_scope", 30)
		r.Require("d_scoped_negative_cache_serves_ttl_judged", 25)
		r.Require("d_scoped_negative_hits_checked_for_refresh", 30)
	}

	r.Finish("distinct = (family, forwarded length, ceilings, entry) forwarding shapes whose upstream option matched the recomputation + (family, declared, forwarded, effective) scoped cache serves inside the audience; part D adds the same two classes observed at the real authorities (dfwd/…, daud/…)")
}
