package main

// Part A — forwarding / stripping and client replies, over generated
// policies (disabled / valid / invalid), clients of both families inside and
// outside the configured networks, and hostile option sets.

import (
	"fmt"

	"github.com/semihalev/sdns/zzverif/vlib"
)

func genScenarioA(r *vlib.Run, idx int, nOps int) *Scenario {
	rng := r.RandN("A", idx)
	kind := []int{1, 1, 1, 1, 1, 0, 0, 2, 2, 1}[idx%10]
	sc := &Scenario{Part: "A", Index: idx, Policy: genPolicy(rng, kind)}
	sc.Policy.Prefetch = 0
	m := newModel(sc.Policy)
	var names []string
	for i := 0; i < nOps; i++ {
		entry, proto := genEntry(rng)
		name := uname("a", idx, i, pick(rng, ruleFields), "a.c19.test.")
		if len(names) > 0 && rng.IntN(6) == 0 {
			name = pick(rng, names) // a second client on a name already cached
		} else {
			names = append(names, name)
		}
		op := Op{Kind: "q", Client: genClient(rng, sc.Policy), Entry: entry, Proto: proto}
		op.Q = genQuery(rng, m, name, entry, 75)
		sc.Ops = append(sc.Ops, op)
	}
	return sc
}

func runPartA(r *vlib.Run) {
	nSc := r.N(40, 600)
	nOps := r.N(80, 120)
	for i := 0; i < nSc; i++ {
		runScenario(r, genScenarioA(r, i, nOps))
		r.Progress("part A scenario %d/%d", i+1, nSc)
	}
	r.Note("part_a", fmt.Sprintf("%d scenarios x %d exchanges", nSc, nOps))
}
