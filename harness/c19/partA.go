package main

// Part A — forwarding / stripping and client replies, over generated
// policies (disabled / valid / invalid), clients of both families inside and
// outside the configured networks, and hostile option sets.

import (
	"fmt"
	"math/rand/v2"

	"github.com/miekg/dns"

	"github.com/semihalev/sdns/zzverif/vlib"
)

func genScenarioA(r *vlib.Run, idx int, nOps int) *Scenario {
	rng := r.RandN("A", idx)
	kind := []int{1, 1, 1, 1, 1, 0, 0, 2, 2, 1}[idx%10]
	sc := &Scenario{Part: "A", Index: idx, Policy: genPolicy(rng, kind)}
	sc.Policy.Prefetch = 0
	if idx%10 == 4 || idx%10 == 6 {
		sc.Policy.CookieLimit = 6000
	}
	m := newModel(sc.Policy)
	var names []string
	for i := 0; i < nOps; i++ {
		entry, proto := genEntry(rng)
		name := uname("a", idx, i, pick(rng, ruleFields), "a.c19.test.")
		if len(names) > 0 && rng.IntN(6) == 0 {
			name = pick(rng, names) // a second client on a name already cached
		} else {
			names = append(names, name)
		}
		op := Op{Kind: "q", Client: genClient(rng, sc.Policy), Entry: entry, Proto: proto}
		op.Q = genQuery(rng, m, name, entry, 75)
		if sc.Policy.CookieLimit > 0 && i%4 == 3 && len(sc.Ops) > 0 {
			// a returning client whose cookie the limiter does not know:
			// over UDP that is answered BADCOOKIE ahead of edns
			prev := &sc.Ops[len(sc.Ops)-1]
			withCookieAndSubnet(rng, m, &prev.Q, prev.Entry)
			op.Client, op.Proto = prev.Client, "udp"
			withCookieAndSubnet(rng, m, &op.Q, entry)
		}
		sc.Ops = append(sc.Ops, op)
	}
	return sc
}

func runPartA(r *vlib.Run) {
	nSc := r.N(40, 600)
	nOps := r.N(80, 120)
	for i := 0; i < nSc; i++ {
		runScenario(r, genScenarioA(r, i, nOps))
		r.Progress("part A scenario %d/%d", i+1, nSc)
	}
	r.Note("part_a", fmt.Sprintf("%d scenarios x %d exchanges", nSc, nOps))
}

// withCookieAndSubnet makes q a version-0 EDNS query carrying a fresh client
// cookie and a subnet option.
func withCookieAndSubnet(rng *rand.Rand, m *model, q *QSpec, entry string) {
	q.EDNS, q.Version = true, 0
	if q.UDPSize == 0 {
		q.UDPSize = 1232
	}
	var opts []OptSpec
	hasECS := false
	for _, o := range q.Opts {
		if o.Code == dns.EDNS0COOKIE {
			continue
		}
		hasECS = hasECS || o.Code == dns.EDNS0SUBNET
		opts = append(opts, o)
	}
	opts = append(opts, optHex(dns.EDNS0COOKIE, randBytes(rng, 8)))
	if !hasECS {
		opts = append(opts, optHex(dns.EDNS0SUBNET, wellFormedSubnet(rng, m)))
	}
	q.Opts = opts
}
