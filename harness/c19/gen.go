package main

// Generators: policies, client addresses, client-supplied options.
// Every random choice comes from the *rand.Rand handed in (r.RandN streams).

import (
	"encoding/hex"
	"fmt"
	"math/rand/v2"
	"net/netip"

	"github.com/miekg/dns"
)

var netPool = []string{
	"10.0.0.0/8", "192.0.2.0/24", "198.51.100.128/25", "203.0.113.7/32", "10.1.2.3/8",
	"172.16.0.0/12", "100.64.0.0/10", "2001:db8::/32", "2001:db8:aa::/48", "fd00::/8",
	"2001:db8:0:1::/64", "2001:db8:ffff:ffff:ffff:ffff:ffff:fffe/127",
}

var badNets = []string{"10.0.0.0/33", "not-a-cidr", "10.1.2.3", "2001:db8::/129", "", " ", "\t", "192.0.2.0/-1", "192.0.2.0/2x"}

// blankNets are entries a lenient parser might "skip": a list made only of them must not read as
// the empty list (= every client); like any unparsable entry they invalidate the block.
var blankNets = []string{"", " ", "  ", "\t"}

func pick[T any](rng *rand.Rand, xs []T) T { return xs[rng.IntN(len(xs))] }

// genPolicy: kind 0 disabled, 1 enabled+valid, 2 enabled+invalid.
func genPolicy(rng *rand.Rand, kind int) PolicySpec {
	p := PolicySpec{Enabled: kind != 0}
	ceil4 := []uint8{0, 0, 1, 7, 8, 9, 15, 16, 17, 20, 23, 24, 24, 25, 31, 32}
	ceil6 := []uint8{0, 0, 1, 8, 32, 47, 48, 49, 56, 56, 57, 63, 64, 65, 96, 127, 128}
	p.V4, p.V6 = pick(rng, ceil4), pick(rng, ceil6)
	if rng.IntN(4) == 0 {
		p.V4 = uint8(rng.IntN(33))
	}
	if rng.IntN(4) == 0 {
		p.V6 = uint8(rng.IntN(129))
	}
	if rng.IntN(2) == 0 {
		p.MinV4 = uint8(rng.IntN(33))
		p.MinV6 = uint8(rng.IntN(129))
	}
	switch rng.IntN(5) {
	case 0, 1: // everyone
	default:
		n := 1 + rng.IntN(4)
		for i := 0; i < n; i++ {
			p.Networks = append(p.Networks, pick(rng, netPool))
		}
	}
	p.CapSec = pick(rng, []int{0, 20, 60, 300})
	switch kind {
	case 0:
		// a disabled block ignores every other field, even nonsense
		if rng.IntN(3) == 0 {
			p.V4 = 200
			p.Networks = append(p.Networks, pick(rng, badNets))
		}
	case 2:
		switch rng.IntN(8) {
		case 6: // nothing but blank entries
			p.Networks = nil
			for n := 1 + rng.IntN(3); n > 0; n-- {
				p.Networks = append(p.Networks, pick(rng, blankNets))
			}
		case 7: // a blank entry among valid ones
			at := rng.IntN(len(p.Networks) + 1)
			ns := append([]string(nil), p.Networks[:at]...)
			ns = append(ns, pick(rng, blankNets))
			p.Networks = append(ns, p.Networks[at:]...)
		case 0:
			p.V4 = uint8(33 + rng.IntN(223))
		case 1:
			p.V6 = uint8(129 + rng.IntN(127))
		case 2:
			p.MinV4 = uint8(33 + rng.IntN(223))
		case 3:
			p.MinV6 = uint8(129 + rng.IntN(127))
		default:
			at := rng.IntN(len(p.Networks) + 1)
			ns := append([]string(nil), p.Networks[:at]...)
			ns = append(ns, pick(rng, badNets))
			p.Networks = append(ns, p.Networks[at:]...)
		}
	}
	return p
}

func randBytes(rng *rand.Rand, n int) []byte {
	b := make([]byte, n)
	for i := range b {
		b[i] = byte(rng.UintN(256))
	}
	return b
}

// genClient returns "ip:port"; biased towards the boundaries of the
// configured client networks.
func genClient(rng *rand.Rand, p PolicySpec) string {
	port := 1024 + rng.IntN(60000)
	var a netip.Addr
	pool := netPool
	if len(p.Networks) > 0 && rng.IntN(3) > 0 {
		pool = p.Networks
	}
	pf, ok := parseCIDR(pick(rng, pool))
	switch {
	case ok && rng.IntN(10) < 7:
		b := pf.Addr().AsSlice()
		bits := pf.Bits()
		h := randBytes(rng, len(b))
		switch rng.IntN(4) {
		case 0: // inside, random host bits
			for i := bits; i < len(b)*8; i++ {
				m := byte(0x80 >> (i % 8))
				b[i/8] = b[i/8]&^m | h[i/8]&m
			}
		case 1: // just outside: flip the last network bit
			if bits > 0 {
				b[(bits-1)/8] ^= byte(0x80 >> ((bits - 1) % 8))
			}
		case 2: // inside, all host bits set
			for i := bits; i < len(b)*8; i++ {
				b[i/8] |= byte(0x80 >> (i % 8))
			}
		default: // flip one random network bit
			if bits > 0 {
				k := rng.IntN(bits)
				b[k/8] ^= byte(0x80 >> (k % 8))
			}
		}
		a, _ = netip.AddrFromSlice(b)
	case rng.IntN(2) == 0:
		a = netip.AddrFrom4([4]byte(randBytes(rng, 4)))
	default:
		a = netip.AddrFrom16([16]byte(randBytes(rng, 16)))
	}
	if a.Is4() && rng.IntN(8) == 0 {
		a = netip.AddrFrom16(a.As16()) // v4-mapped remote, as a dual-stack socket reports it
	}
	if a.IsUnspecified() {
		a = netip.MustParseAddr("192.0.2.77")
	}
	return netip.AddrPortFrom(a, uint16(port)).String()
}

// genSubnetData builds the payload of one client option 8.
// structMode allows shapes the wire cannot carry.
func genSubnetData(rng *rand.Rand, m *model, structMode bool) []byte {
	fam := 1 + rng.IntN(2)
	n := 4
	ceil := m.c4
	if fam == 2 {
		n, ceil = 16, m.c6
	}
	if ceil > n*8 {
		ceil = n * 8
	}
	var bits int
	switch rng.IntN(8) {
	case 0:
		bits = 0
	case 1:
		bits = n * 8
	case 2, 3:
		bits = ceil - 1 + rng.IntN(3)
	case 4:
		bits = ceil + rng.IntN(n*8-ceil+1)
	default:
		bits = rng.IntN(n*8 + 1)
	}
	if bits < 0 {
		bits = 0
	}
	if bits > n*8 {
		bits = n * 8
	}
	addr := randBytes(rng, n)
	switch rng.IntN(4) {
	case 0: // every host bit set
		for i := bits; i < n*8; i++ {
			addr[i/8] |= byte(0x80 >> (i % 8))
		}
	case 1: // a single host bit right after the prefix / after the ceiling
		k := bits
		if rng.IntN(2) == 0 {
			k = ceil
		}
		for i := k; i < n*8; i++ {
			addr[i/8] &^= byte(0x80 >> (i % 8))
		}
		if k < n*8 {
			addr[k/8] |= byte(0x80 >> (k % 8))
		}
	case 2: // documentation space, so prefixes of different clients nest
		if fam == 1 {
			copy(addr, []byte{198, 51, 100})
		} else {
			copy(addr, []byte{0x20, 0x01, 0x0d, 0xb8, 0, byte(rng.IntN(2))})
		}
	}
	scope := byte(0)
	if rng.IntN(10) == 0 {
		scope = byte(rng.IntN(n*8 + 1))
	}
	famField := fam
	// address octets actually present
	alen := n
	switch rng.IntN(12) {
	case 0:
		alen = (bits + 7) / 8 // minimal, RFC 7871 form
	case 1:
		alen = rng.IntN(n + 1) // short
	case 2:
		alen = n + 1 + rng.IntN(4) // long
		addr = append(addr, randBytes(rng, alen-n)...)
	case 3: // family / address-length mismatch
		if fam == 1 {
			addr, alen = randBytes(rng, 16), 16
			if structMode && rng.IntN(2) == 0 { // IPv4 in its 16-byte form
				addr = append([]byte{0, 0, 0, 0, 0, 0, 0, 0, 0, 0, 0xff, 0xff}, randBytes(rng, 4)...)
			}
		} else {
			addr, alen = randBytes(rng, 4), 4
			if rng.IntN(2) == 0 { // v4-mapped bytes under family 2
				addr, alen = append([]byte{0, 0, 0, 0, 0, 0, 0, 0, 0, 0, 0xff, 0xff}, randBytes(rng, 4)...), 16
			}
		}
	case 4:
		famField = pick(rng, []int{0, 0, 3, 0xffff, 0x0100})
		if famField == 0 && rng.IntN(2) == 0 {
			bits, alen = 0, 0
		}
	}
	if structMode && rng.IntN(12) == 0 {
		bits = n*8 + 1 + rng.IntN(255-n*8) // only a hand-built struct can say this
	}
	if alen > len(addr) {
		alen = len(addr)
	}
	d := []byte{byte(famField >> 8), byte(famField), byte(bits), scope}
	return append(d, addr[:alen]...)
}

func optHex(code uint16, data []byte) OptSpec {
	return OptSpec{Code: code, Data: hex.EncodeToString(data)}
}

// genOtherOpts: cookie, NSID request, padding, keepalive, unknown codes.
func genOtherOpts(rng *rand.Rand) []OptSpec {
	var out []OptSpec
	if rng.IntN(3) == 0 {
		n := 8
		if rng.IntN(3) == 0 {
			n = 16 + rng.IntN(17)
		}
		out = append(out, optHex(dns.EDNS0COOKIE, randBytes(rng, n)))
	}
	if rng.IntN(4) == 0 {
		out = append(out, optHex(dns.EDNS0NSID, nil))
	}
	if rng.IntN(4) == 0 {
		out = append(out, optHex(dns.EDNS0PADDING, make([]byte, rng.IntN(48))))
	}
	if rng.IntN(6) == 0 {
		if rng.IntN(2) == 0 {
			out = append(out, optHex(dns.EDNS0TCPKEEPALIVE, nil))
		} else {
			out = append(out, optHex(dns.EDNS0TCPKEEPALIVE, randBytes(rng, 2)))
		}
	}
	if rng.IntN(4) == 0 {
		switch rng.IntN(6) {
		case 0:
			out = append(out, optHex(uint16(65001+rng.IntN(533)), randBytes(rng, rng.IntN(24))))
		case 1:
			out = append(out, optHex(dns.EDNS0DAU, randBytes(rng, 1+rng.IntN(4))))
		case 2:
			out = append(out, optHex(dns.EDNS0EXPIRE, nil))
		case 3:
			out = append(out, optHex(dns.EDNS0EDE, append([]byte{0, byte(rng.IntN(30))}, []byte("client-ede")...)))
		case 4:
			out = append(out, optHex(uint16(20+rng.IntN(2000)), randBytes(rng, rng.IntN(16))))
		default:
			out = append(out, optHex(14, randBytes(rng, 2*(1+rng.IntN(3))))) // edns-key-tag
		}
	}
	return out
}

var ruleFields = []string{"", "", "sd0", "sd1", "sd8", "sm1", "sm4", "sm9", "sa0", "sa8", "sa24", "sa48", "sn", "sf16", "sf24", "pn"}

// genQuery builds a client query; ecsProb in percent.
func genQuery(rng *rand.Rand, m *model, name string, entry string, ecsProb int) QSpec {
	q := QSpec{Name: name, Qtype: pick(rng, []uint16{dns.TypeA, dns.TypeA, dns.TypeAAAA, dns.TypeTXT}),
		ID: uint16(rng.UintN(65536)), RD: rng.IntN(25) != 0, CD: rng.IntN(8) == 0, AD: rng.IntN(8) == 0}
	q.EDNS = rng.IntN(12) != 0
	if !q.EDNS {
		return q
	}
	q.UDPSize = pick(rng, []uint16{0, 512, 1232, 1232, 4096, 65535})
	q.DO = rng.IntN(3) == 0
	if rng.IntN(12) == 0 {
		q.Version = uint8(1 + rng.IntN(255))
	}
	opts := genOtherOpts(rng)
	if rng.IntN(100) < ecsProb {
		n := 1
		if rng.IntN(25) == 0 {
			n = 2
		}
		for i := 0; i < n; i++ {
			o := optHex(dns.EDNS0SUBNET, genSubnetData(rng, m, entry == "msgstruct"))
			at := rng.IntN(len(opts) + 1)
			opts = append(opts[:at], append([]OptSpec{o}, opts[at:]...)...)
		}
	}
	q.Opts = opts
	return q
}

func genEntry(rng *rand.Rand) (entry, proto string) {
	switch rng.IntN(10) {
	case 0, 1, 2, 3:
		return "raw", pick(rng, []string{"udp", "udp", "tcp"})
	case 4, 5, 6:
		return "msgwire", pick(rng, []string{"doh", "doq", "tcp", "udp"})
	}
	return "msgstruct", pick(rng, []string{"doh", "doq", "tcp", "udp"})
}

func uname(part string, sc, i int, fields string, zone string) string {
	l := fmt.Sprintf("%s%dx%d", part, sc, i)
	if fields != "" {
		l += "-" + fields
	}
	return l + "." + zone
}
