package main

import "github.com/semihalev/sdns/zzverif/vlib"

func runPartB(r *vlib.Run) {}
