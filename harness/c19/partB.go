package main

// Part B — audiences. Under an enabled, valid policy a handful of client
// identities whose subnets differ at bit positions around the forwarding
// ceiling and the scope floor query a handful of names whose scripted
// authority declares scopes from 0 to source+8 (also for a foreign address,
// also none). Episodes: fill, re-ask from inside and outside the audience,
// advance virtual time into the prefetch window, re-ask, advance past the
// scoped TTL cap, re-ask. The judgements are the shared ones in judge.go.

import (
	"fmt"
	"math/rand/v2"
	"net/netip"

	"github.com/miekg/dns"

	"github.com/semihalev/sdns/zzverif/vlib"
)

type ident struct {
	client string
	opts   []OptSpec
	edns   bool
	entry  string
	proto  string
}

func flip(b []byte, pos int) {
	if pos >= 0 && pos < len(b)*8 {
		b[pos/8] ^= byte(0x80 >> (pos % 8))
	}
}

func clampInt(v, lo, hi int) int {
	if v < lo {
		return lo
	}
	if v > hi {
		return hi
	}
	return v
}

func eligibleClient(rng *rand.Rand, p PolicySpec, want bool) string {
	m := newModel(p)
	for i := 0; i < 200; i++ {
		c := genClient(rng, p)
		if m.eligible(c) == want {
			return c
		}
	}
	return ""
}

func genIdents(rng *rand.Rand, p PolicySpec) []ident {
	m := newModel(p)
	var out []ident
	for fam := 1; fam <= 2; fam++ {
		n, ceil, floor := 4, m.c4, m.f4
		if fam == 2 {
			n, ceil, floor = 16, m.c6, m.f6
		}
		nb := n * 8
		base := randBytes(rng, n)
		if rng.IntN(2) == 0 {
			if fam == 1 {
				copy(base, []byte{198, 51, 100})
			} else {
				copy(base, []byte{0x20, 0x01, 0x0d, 0xb8})
			}
		}
		eff := min(ceil, floor)
		pos := []int{ceil - 1, ceil, ceil + 1, floor - 1, floor, floor + 1, eff - 1, eff - 2, eff - 4, eff - 9, 0, 1, nb - 1}
		for k := 0; k < 6; k++ {
			a := append([]byte(nil), base...)
			switch k {
			case 0:
			case 1:
				flip(a, clampInt(ceil+rng.IntN(nb-ceil+1), 0, nb-1)) // beyond the ceiling: same forwarded prefix (unless ceil == nb)
			default:
				flip(a, clampInt(pick(rng, pos), 0, nb-1))
				if rng.IntN(3) == 0 {
					flip(a, clampInt(pick(rng, pos), 0, nb-1))
				}
			}
			mask := clampInt(pick(rng, []int{ceil, ceil, ceil + 3, nb, nb, ceil - 2, floor, eff, eff - 1, rng.IntN(nb + 1)}), 0, nb)
			// host bits beyond the mask: set them (must never matter)
			if rng.IntN(2) == 0 {
				for i := mask; i < nb; i++ {
					a[i/8] |= byte(0x80 >> (i % 8))
				}
			}
			d := append([]byte{0, byte(fam), byte(mask), 0}, a...)
			entry, proto := genEntry(rng)
			id := ident{client: eligibleClient(rng, p, true), edns: true, entry: entry, proto: proto}
			if id.client == "" {
				continue
			}
			id.opts = append(genOtherOpts(rng), optHex(dns.EDNS0SUBNET, d))
			out = append(out, id)
		}
	}
	// a client that sends no subnet option, one without EDNS, and (when the
	// policy restricts networks) one that is not eligible but sends one
	e1, p1 := genEntry(rng)
	if c := eligibleClient(rng, p, true); c != "" {
		out = append(out, ident{client: c, edns: true, entry: e1, proto: p1, opts: genOtherOpts(rng)})
		out = append(out, ident{client: c, edns: false, entry: "msgwire", proto: "udp"})
	}
	if c := eligibleClient(rng, p, false); c != "" && len(out) > 0 {
		donor := out[rng.IntN(min(len(out), 12))]
		out = append(out, ident{client: c, edns: true, entry: e1, proto: p1, opts: donor.opts})
	}
	return out
}

func (id ident) query(rng *rand.Rand, name string, qtype uint16) Op {
	q := QSpec{Name: name, Qtype: qtype, ID: uint16(rng.UintN(65536)), RD: true, EDNS: id.edns}
	if id.edns {
		q.UDPSize = 1232
		q.DO = rng.IntN(4) == 0
		q.Opts = id.opts
	}
	return Op{Kind: "q", Client: id.client, Entry: id.entry, Proto: id.proto, Q: q}
}

func genScenarioB(r *vlib.Run, idx int) *Scenario {
	rng := r.RandN("B", idx)
	p := genPolicy(rng, 1)
	if idx%3 != 0 {
		p.Networks = nil
	}
	p.CapSec = []int{0, 20, 60, 60}[idx%4]
	p.Prefetch = []int{50, 0, 50, 80, 20}[idx%5]
	sc := &Scenario{Part: "B", Index: idx, Policy: p}
	m := newModel(p)
	ids := genIdents(rng, p)
	if len(ids) == 0 {
		return sc
	}
	fl := m.f4
	fields := []string{"sd0-t300", "sd8-t3600", "sd1-t300", "sm1-t300", "sm2-t3600", fmt.Sprintf("sa%d-t300", fl), fmt.Sprintf("sa%d-t300", fl+1),
		fmt.Sprintf("sa%d-t300", max(fl-1, 1)), fmt.Sprintf("sa%d-t3600", max(min(m.c4, fl)-3, 1)), "sn-t300", "t300", "sa0-t300",
		fmt.Sprintf("sf%d-t300", min(m.c4, fl)), fmt.Sprintf("sa%d-t300", m.f6), fmt.Sprintf("sa%d-t300", max(min(m.c6, m.f6)-5, 1)), "sd8-t40", "sa1-t300"}
	nEp := 7
	for ep := 0; ep < nEp; ep++ {
		f := pick(rng, fields)
		name := uname("b", idx, ep, f, "b.c19.test.")
		qtype := pick(rng, []uint16{dns.TypeA, dns.TypeA, dns.TypeAAAA, dns.TypeTXT})
		ru := parseRule(name)
		life := int(ru.ttl)
		scoped := ru.mode != "" && ru.mode != "n" && !(ru.mode == "a" && ru.val == 0)
		if scoped && p.CapSec > 0 && p.CapSec < life {
			life = p.CapSec
		}
		prim := ids[rng.IntN(min(len(ids), 12))]
		add := func(id ident) { sc.Ops = append(sc.Ops, id.query(rng, name, qtype)) }
		add(prim)
		add(prim)
		for k := 0; k < 3; k++ {
			add(pick(rng, ids))
		}
		sc.Ops = append(sc.Ops, Op{Kind: "adv", AdvSec: life * 7 / 10})
		add(prim)
		add(pick(rng, ids))
		add(prim)
		sc.Ops = append(sc.Ops, Op{Kind: "adv", AdvSec: life*3/10 + 1})
		add(prim)
		add(pick(rng, ids))
	}
	return sc
}

func runPartB(r *vlib.Run) {
	nSc := r.N(40, 700)
	for i := 0; i < nSc; i++ {
		runScenario(r, genScenarioB(r, i))
		r.Progress("part B scenario %d/%d", i+1, nSc)
	}
	r.Note("part_b", fmt.Sprintf("%d scenarios x 7 episodes", nSc))
}

var _ = netip.Addr{}
