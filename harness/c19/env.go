package main

// One live Stack (real pipeline recovery…edns…cache + scripted stub), the
// scripted "authority" (the stub) and the execution of one client exchange
// through the decoded entry (Server.ServeMsg) or the strict wire entry
// (Server.ServeRaw).

import (
	"context"
	"encoding/hex"
	"fmt"
	"net"
	"os"
	"strconv"
	"strings"
	"sync"
	"time"

	"github.com/miekg/dns"

	"github.com/semihalev/sdns/middleware"
	"github.com/semihalev/sdns/zzverif/replycontract"
	"github.com/semihalev/sdns/zzverif/stack"
	"github.com/semihalev/sdns/zzverif/vlib"
)

// QSpec is a serialisable client query.
type QSpec struct {
	Name    string    `json:"name"`
	Qtype   uint16    `json:"qtype"`
	ID      uint16    `json:"id"`
	RD      bool      `json:"rd"`
	CD      bool      `json:"cd,omitempty"`
	AD      bool      `json:"ad,omitempty"`
	EDNS    bool      `json:"edns"`
	UDPSize uint16    `json:"udpsize,omitempty"`
	DO      bool      `json:"do,omitempty"`
	Version uint8     `json:"version,omitempty"`
	Opts    []OptSpec `json:"opts,omitempty"`
}

// Op is one step of a scenario.
type Op struct {
	Kind   string `json:"kind"`             // "q" query | "adv" advance virtual time | "get" Store.GetWithContext
	Client string `json:"client,omitempty"` // ip:port
	Entry  string `json:"entry,omitempty"`  // raw | msgwire | msgstruct
	Proto  string `json:"proto,omitempty"`  // udp tcp doh doq
	Q      QSpec  `json:"q,omitempty"`
	AdvSec int    `json:"adv_s,omitempty"`
	// get: context marks
	MarkECS bool   `json:"mark_ecs,omitempty"`
	Role    string `json:"role,omitempty"` // generator's intent, evidence only
}

// Scenario is a replayable unit: one configuration, a script of exceptions
// to the name-encoded stub rules, and an op list.
type Scenario struct {
	Part   string            `json:"part"`
	Index  int               `json:"index"`
	Policy PolicySpec        `json:"policy"`
	CNAME  map[string]string `json:"cname,omitempty"` // owner -> target (any qtype but CNAME)
	Ops    []Op              `json:"ops"`
}

func (q QSpec) hasOpt(code uint16) bool {
	for _, o := range q.Opts {
		if o.Code == code {
			return true
		}
	}
	return false
}

func (q QSpec) header(m *dns.Msg) {
	m.Id = q.ID
	m.RecursionDesired = q.RD
	m.CheckingDisabled = q.CD
	m.AuthenticatedData = q.AD
	m.Question = []dns.Question{{Name: q.Name, Qtype: q.Qtype, Qclass: dns.ClassINET}}
}

func (q QSpec) opt(skipECS bool) *dns.OPT {
	o := &dns.OPT{Hdr: dns.RR_Header{Name: ".", Rrtype: dns.TypeOPT}}
	o.SetUDPSize(q.UDPSize)
	o.SetVersion(q.Version)
	if q.DO {
		o.SetDo()
	}
	for _, s := range q.Opts {
		if skipECS && s.Code == dns.EDNS0SUBNET {
			continue
		}
		o.Option = append(o.Option, &dns.EDNS0_LOCAL{Code: s.Code, Data: s.bytes()})
	}
	return o
}

// wire packs the query exactly as specified (every option as raw bytes).
func (q QSpec) wire() ([]byte, error) {
	m := new(dns.Msg)
	q.header(m)
	if q.EDNS {
		m.Extra = []dns.RR{q.opt(false)}
	}
	return m.Pack()
}

// structMsg builds the message the decoded entry is handed when an embedder
// constructs it directly: non-ECS options in their typed form, every ECS
// option as an EDNS0_SUBNET whose Address is the given bytes verbatim.
func (q QSpec) structMsg() (*dns.Msg, error) {
	m := new(dns.Msg)
	q.header(m)
	if !q.EDNS {
		return m, nil
	}
	m.Extra = []dns.RR{q.opt(true)}
	b, err := m.Pack()
	if err != nil {
		return nil, err
	}
	m = new(dns.Msg)
	if err := m.Unpack(b); err != nil {
		return nil, err
	}
	opt := m.IsEdns0()
	if opt == nil {
		return nil, fmt.Errorf("OPT lost")
	}
	typed := opt.Option
	opt.Option = nil
	ti := 0
	for _, s := range q.Opts {
		if s.Code != dns.EDNS0SUBNET {
			if ti < len(typed) {
				opt.Option = append(opt.Option, typed[ti])
				ti++
			}
			continue
		}
		d := s.bytes()
		e := &dns.EDNS0_SUBNET{Code: dns.EDNS0SUBNET}
		if len(d) >= 4 {
			e.Family = uint16(d[0])<<8 | uint16(d[1])
			e.SourceNetmask, e.SourceScope = d[2], d[3]
			if len(d) > 4 {
				e.Address = net.IP(append([]byte(nil), d[4:]...))
			}
		}
		opt.Option = append(opt.Option, e)
	}
	return m, nil
}

// ------------------------------------------------------------------ stub

// rule is the scripted authority behaviour for one owner name, decoded from
// the first label (fields separated by '-'): sd<n> scope = source+n, sm<n>
// scope = source-n, sa<n> absolute scope, sn no subnet option in the answer,
// sf<n> scope n declared for a foreign address, (default) the request OPT
// echoed; t<n> TTL; nx = validated NXDOMAIN.
type rule struct {
	mode  string // "" echo | d | m | a | n | f
	val   int
	ttl   uint32
	nx    bool
	panic bool // the "resolver" panics: the recovery handler answers SERVFAIL
}

func parseRule(name string) rule {
	r := rule{ttl: 300}
	labels := dns.SplitDomainName(strings.ToLower(name))
	if len(labels) == 0 {
		return r
	}
	for _, l := range labels {
		if strings.HasPrefix(l, "dead") {
			r.nx = true
		}
	}
	if strings.HasPrefix(labels[0], "mx") {
		r.nx = true // a non-existent name directly under the apex
	}
	for _, f := range strings.Split(labels[0], "-") {
		switch {
		case f == "sn":
			r.mode = "n"
		case f == "nx":
			r.nx = true
		case f == "pn":
			r.panic = true
		case len(f) > 2 && f[0] == 's' && strings.ContainsRune("dmaf", rune(f[1])):
			if n, err := strconv.Atoi(f[2:]); err == nil {
				r.mode, r.val = string(f[1]), n
			}
		case len(f) > 1 && f[0] == 't':
			if n, err := strconv.Atoi(f[1:]); err == nil {
				r.ttl = uint32(n)
			}
		}
	}
	return r
}

// seen is one request the stub was handed — "what went upstream".
type seen struct {
	Seq      uint64
	OpIdx    int
	Name     string
	Qtype    uint16
	Internal bool
	Mark     bool // middleware.HasClientECS(ctx)
	CD       bool
	HasOPT   bool
	Codes    []uint16
	ECS      []*dns.EDNS0_SUBNET
	Gen      uint32
	Decl     *ecsVal // scope the answer declared (nil: none / global)
	Req      *ecsVal // subnet the request carried, as the stub read it (nil: none or unreadable)
	AdvAt    time.Duration
	NX       bool
}

type env struct {
	r     *vlib.Run
	sc    *Scenario
	pol   PolicySpec
	m     *model
	st    *stack.Stack
	mu    sync.Mutex
	log   []*seen
	gens  map[uint32]*seen
	gen   uint32
	opIdx int
	adv   time.Duration
	cname map[string]string
}

func subnetVal(e *dns.EDNS0_SUBNET) *ecsVal {
	if e == nil {
		return nil
	}
	switch e.Family {
	case 1:
		if ip := e.Address.To4(); ip != nil {
			return newECSVal(1, int(e.SourceNetmask), append([]byte(nil), ip...))
		}
	case 2:
		if len(e.Address) == 16 {
			return newECSVal(2, int(e.SourceNetmask), append([]byte(nil), e.Address...))
		}
	}
	return nil
}

func fakeSig(owner string, covered uint16, zone string, ttl uint32) *dns.RRSIG {
	return &dns.RRSIG{
		Hdr:         dns.RR_Header{Name: owner, Rrtype: dns.TypeRRSIG, Class: dns.ClassINET, Ttl: ttl},
		TypeCovered: covered, Algorithm: dns.ECDSAP256SHA256, Labels: uint8(dns.CountLabel(owner)),
		OrigTtl: ttl, Expiration: uint32(time.Now().Add(240 * time.Hour).Unix()),
		Inception: uint32(time.Now().Add(-24 * time.Hour).Unix()), KeyTag: 4711, SignerName: zone,
		Signature: "dmVyaWYtYzE5LW5vdC1hLXJlYWwtc2lnbmF0dXJlLWJ1dC1sb25nLWVub3VnaC10by1sb29rLWxpa2Utb25l",
	}
}

// zoneOf: the scripted zones are the last three labels of a name.
func zoneOf(name string) string {
	l := dns.SplitDomainName(name)
	if len(l) <= 3 {
		return dns.Fqdn(strings.ToLower(name))
	}
	return strings.ToLower(strings.Join(l[len(l)-3:], ".")) + "."
}

// deniedName: from the label starting with "dead" to the end.
func deniedName(name string) string {
	l := dns.SplitDomainName(strings.ToLower(name))
	for i, x := range l {
		if strings.HasPrefix(x, "dead") {
			return strings.Join(l[i:], ".") + "."
		}
	}
	return dns.Fqdn(strings.ToLower(name))
}

func (e *env) stub(ctx context.Context, req *stack.StubRequest) *stack.StubReply {
	e.mu.Lock()
	e.gen++
	s := &seen{Seq: req.Seq, OpIdx: e.opIdx, Name: strings.ToLower(req.Q.Name), Qtype: req.Q.Qtype,
		Internal: req.Internal, Mark: req.ClientECS, CD: req.CD, HasOPT: req.OPT != nil,
		Codes: req.Codes, Gen: e.gen, AdvAt: e.adv}
	if req.OPT != nil {
		for _, o := range req.OPT.Option {
			if sub, ok := o.(*dns.EDNS0_SUBNET); ok {
				s.ECS = append(s.ECS, sub)
			}
		}
	}
	if len(s.ECS) > 0 {
		s.Req = subnetVal(s.ECS[0])
	}
	e.log = append(e.log, s)
	e.gens[s.Gen] = s
	target := e.cname[s.Name]
	e.mu.Unlock()

	ru := parseRule(req.Q.Name)
	m := new(dns.Msg)
	rep := &stack.StubReply{Msg: m}

	// response OPT: the resolver hands the request OPT back (clearAdditional),
	// a tailoring authority's subnet option replaces the query's.
	var opt *dns.OPT
	if req.OPT != nil {
		opt = dns.Copy(req.OPT).(*dns.OPT)
		keep := opt.Option[:0]
		for _, o := range opt.Option {
			if _, isECS := o.(*dns.EDNS0_SUBNET); isECS && ru.mode != "" {
				continue
			}
			keep = append(keep, o)
		}
		opt.Option = keep
	}
	if s.Req != nil && ru.mode != "" && ru.mode != "n" {
		scope := 0
		addr := s.Req.Addr
		switch ru.mode {
		case "d":
			scope = s.Req.Bits + ru.val
		case "m":
			scope = s.Req.Bits - ru.val
		case "a":
			scope = ru.val
		case "f":
			scope = ru.val
			addr = append([]byte(nil), addr...)
			addr[0] ^= 0x55
			addr[len(addr)-1] ^= 0xff
		}
		if scope < 0 {
			scope = 0
		}
		if scope > s.Req.famBits() {
			scope = s.Req.famBits()
		}
		sub := &dns.EDNS0_SUBNET{Code: dns.EDNS0SUBNET, Family: uint16(s.Req.Fam),
			SourceNetmask: uint8(s.Req.Bits), SourceScope: uint8(scope), Address: net.IP(append([]byte(nil), addr...))}
		if opt == nil {
			opt = &dns.OPT{Hdr: dns.RR_Header{Name: ".", Rrtype: dns.TypeOPT}}
			opt.SetUDPSize(1232)
		}
		opt.Option = append(opt.Option, sub)
		if scope > 0 {
			s.Decl = newECSVal(s.Req.Fam, scope, maskBytes(addr, scope))
		}
	}
	if opt != nil {
		m.Extra = append(m.Extra, opt)
	}

	if ru.panic {
		rep.Panic = "c19: scripted resolver panic"
		return rep
	}
	switch {
	case ru.nx:
		s.NX = true
		zone := zoneOf(s.Name)
		dn := deniedName(s.Name)
		m.Rcode = dns.RcodeNameError
		m.AuthenticatedData = true
		soa := &dns.SOA{Hdr: dns.RR_Header{Name: zone, Rrtype: dns.TypeSOA, Class: dns.ClassINET, Ttl: 600},
			Ns: "ns." + zone, Mbox: "h." + zone, Serial: 1, Refresh: 3600, Retry: 600, Expire: 86400, Minttl: 600}
		// one NSEC from the apex to "zz.<zone>": covers the denied name, its
		// subtree and the wildcard at the apex (closest encloser = apex).
		n1 := &dns.NSEC{Hdr: dns.RR_Header{Name: zone, Rrtype: dns.TypeNSEC, Class: dns.ClassINET, Ttl: 600},
			NextDomain: "zz." + zone, TypeBitMap: []uint16{dns.TypeNS, dns.TypeSOA, dns.TypeRRSIG, dns.TypeNSEC, dns.TypeDNSKEY}}
		m.Ns = []dns.RR{soa, fakeSig(zone, dns.TypeSOA, zone, 600), n1, fakeSig(zone, dns.TypeNSEC, zone, 600)}
		rep.Negative = &middleware.ValidatedNegativeProof{Subject: dn, Zone: zone,
			Kind: middleware.ValidatedNegativeProofNSEC, Aggressive: true}
	case target != "" && req.Q.Qtype != dns.TypeCNAME:
		m.Answer = []dns.RR{&dns.CNAME{Hdr: dns.RR_Header{Name: req.Q.Name, Rrtype: dns.TypeCNAME, Class: dns.ClassINET, Ttl: ru.ttl}, Target: target}}
	default:
		if rr := stack.MarkerRR(s.Gen, req.Q.Name, req.Q.Qtype, ru.ttl); rr != nil {
			m.Answer = []dns.RR{rr}
		}
	}
	return rep
}

func newEnv(r *vlib.Run, sc *Scenario) (*env, error) {
	e := &env{r: r, sc: sc, pol: sc.Policy, m: newModel(sc.Policy), gens: map[uint32]*seen{}, cname: map[string]string{}}
	for k, v := range sc.CNAME {
		e.cname[strings.ToLower(k)] = v
	}
	cfg := stack.DefaultConfig()
	p := sc.Policy
	cfg.ECS.Enabled = p.Enabled
	cfg.ECS.ForwardV4Max, cfg.ECS.ForwardV6Max = p.V4, p.V6
	cfg.ECS.MinScopeV4, cfg.ECS.MinScopeV6 = p.MinV4, p.MinV6
	cfg.ECS.ClientNetworks = append([]string(nil), p.Networks...)
	cfg.ECS.CacheLimitTTL.Duration = time.Duration(p.CapSec) * time.Second
	cfg.Prefetch = uint32(p.Prefetch)
	cfg.NSID = "verif-c19"
	cfg.CookieSecret = "c19-secret"
	if p.DNSSEC {
		cfg.DNSSEC = "on"
	}
	if p.CookieLimit > 0 {
		cfg.ClientRateLimit = p.CookieLimit
	}
	st, err := stack.New(stack.Options{Config: cfg, Stub: e.stub})
	if err != nil {
		return nil, err
	}
	e.st = st
	return e, nil
}

func (e *env) close() {
	if e.st != nil {
		e.st.Close()
		e.st = nil
	}
}

// outcome of one client exchange.
type outcome struct {
	Sent    bool // the query reached a server entry
	Res     stack.Result
	Query   []byte // packed query (for the reply contract), may be nil
	Seen    []*seen
	Skipped string
}

func (e *env) logSince(n int) []*seen {
	e.mu.Lock()
	defer e.mu.Unlock()
	return append([]*seen(nil), e.log[n:]...)
}

func (e *env) logLen() int {
	e.mu.Lock()
	defer e.mu.Unlock()
	return len(e.log)
}

// run executes one query op and waits for the pipeline (prefetch workers
// included) to go idle.
func (e *env) run(idx int, op *Op) (out outcome) {
	e.mu.Lock()
	e.opIdx = idx
	e.mu.Unlock()
	before := e.logLen()
	pkt, perr := op.Q.wire()
	switch op.Entry {
	case "raw":
		if perr != nil {
			out.Skipped = "unpackable spec: " + perr.Error()
			return
		}
		out.Query = pkt
		proto := op.Proto
		if proto != "udp" {
			proto = "tcp"
		}
		out.Res = e.st.ServeRaw(op.Client, proto, pkt)
		out.Sent = true
	case "msgwire":
		if perr != nil {
			out.Skipped = "unpackable spec: " + perr.Error()
			return
		}
		m := new(dns.Msg)
		if err := m.Unpack(pkt); err != nil {
			out.Skipped = "undecodable (a DoH/DoQ front end refuses it)"
			return
		}
		out.Query = pkt
		out.Res = e.st.ServeMsg(op.Client, op.Proto, m)
		out.Sent = true
	default: // msgstruct
		m, err := op.Q.structMsg()
		if err != nil {
			out.Skipped = "struct build: " + err.Error()
			return
		}
		if b, err := m.Copy().Pack(); err == nil {
			out.Query = b
		}
		out.Res = e.st.ServeMsg(op.Client, op.Proto, m)
		out.Sent = true
	}
	if !e.settle() {
		e.r.Inconclusive("pipeline did not quiesce after an exchange")
	}
	out.Seen = e.logSince(before)
	return
}

// settle waits until nothing runs on behalf of the exchange: the stack is
// quiescent AND no cache entry still holds a background-refresh claim (a
// prefetch worker that has dequeued its item but not yet reached the stub is
// invisible to Stack.Quiesce; the claim is released only when the refresh has
// completed). A timeout is inconclusive, never a verdict.
func (e *env) settle() bool {
	deadline := time.Now().Add(15 * time.Second)
	for {
		if !e.st.Quiesce(10 * time.Second) {
			return false
		}
		if e.pol.Prefetch == 0 {
			return true
		}
		claimed := false
		for _, d := range e.st.Cache().VerifStore().VerifDump() {
			if d.Prefetch {
				claimed = true
				break
			}
		}
		if !claimed {
			return e.st.Quiesce(10 * time.Second)
		}
		if time.Now().After(deadline) {
			return false
		}
		time.Sleep(200 * time.Microsecond)
	}
}

func (e *env) advance(d time.Duration) {
	if !e.settle() {
		e.r.Inconclusive("pipeline did not quiesce before a clock advance")
		return
	}
	e.st.Cache().VerifAdvance(d)
	e.mu.Lock()
	e.adv += d
	e.mu.Unlock()
}

// ---------------------------------------------------------- common judges

func replyClass(m *dns.Msg) string {
	if m == nil {
		return "undecodable"
	}
	rc := m.Rcode // the library folds the OPT's extended rcode in on unpack
	if rc == dns.RcodeBadVers {
		return "badvers"
	}
	if rc == dns.RcodeBadCookie {
		return "badcookie"
	}
	if s, ok := dns.RcodeToString[rc]; ok {
		return strings.ToLower(s)
	}
	return "rcode" + strconv.Itoa(rc)
}

func caseOf(e *env, idx int, op *Op, extra map[string]any) map[string]any {
	c := map[string]any{"part": e.sc.Part, "scenario": e.sc.Index, "policy": e.pol, "cname": e.sc.CNAME,
		"op_index": idx, "ops": e.sc.Ops[:min(idx+1, len(e.sc.Ops))]}
	if op != nil {
		if b, err := op.Q.wire(); err == nil {
			c["query_hex"] = hex.EncodeToString(b)
		}
	}
	for k, v := range extra {
		c[k] = v
	}
	return c
}

// judgeReply: no subnet option may ever be returned to a client; the reply
// is also passed through the shared C06 contract (informational count).
func (e *env) judgeReply(idx int, op *Op, out *outcome) {
	r := e.r
	if !out.Sent {
		r.Count("exchanges_skipped_undecodable", 1)
		return
	}
	if out.Res.Panic != nil {
		r.Violation("panic/serve-"+op.Entry, fmt.Sprintf("server entry panicked: %v", out.Res.Panic), caseOf(e, idx, op, nil))
		return
	}
	if !out.Res.Wrote {
		r.Count("exchanges_no_reply", 1)
		return
	}
	r.Count("replies_judged", 1)
	r.Count("replies_via_"+op.Entry, 1)
	if out.Res.Writes > 1 {
		r.Count("replies_multiple_writes", 1)
	}
	m := out.Res.Msg
	if m == nil {
		r.Count("replies_undecodable", 1)
		return
	}
	r.Eval(1)
	cls := replyClass(m)
	if cls == "servfail" && parseRule(op.Q.Name).panic {
		cls = "servfail-after-panic"
	}
	r.Count("reply_class_"+cls, 1)
	if cls == "badvers" && len(e.identities(op)) > 0 {
		r.Count("badvers_with_permitted_ecs", 1)
	}
	if cls == "badcookie" && carriesECS(op.Q) {
		r.Count("badcookie_with_client_ecs", 1)
	}
	if opt := m.IsEdns0(); opt != nil {
		for _, o := range opt.Option {
			if o.Option() == dns.EDNS0SUBNET {
				what := fmt.Sprintf("client %s (%s/%s) received a %s reply carrying an EDNS Client Subnet option %v; policy %s",
					op.Client, op.Entry, op.Proto, strings.ToUpper(cls), o, e.pol)
				r.Violation("ecs-in-reply/"+cls, what, caseOf(e, idx, op, map[string]any{"reply_hex": hex.EncodeToString(out.Res.Raw)}))
				r.Count("replies_with_ecs", 1)
				break
			}
		}
	}
	if out.Query != nil {
		ip, _ := clientIP(op.Client)
		tr := op.Proto
		br := replycontract.Check(tr, out.Query, out.Res.Raw, replycontract.Options{NSID: "verif-c19",
			CookieSecret: "c19-secret", ClientIP: ip.String(), ECSEnabled: e.pol.Enabled})
		for _, b := range br {
			if !b.Info {
				if os.Getenv("C19_DEBUG") != "" {
					fmt.Fprintf(os.Stderr, "breach: %s\n", b)
				}
				r.Count("contract_breaches", 1)
				r.DistinctIn("contract_breach_rules", b.Rule)
			}
		}
	}
}

// judgeUpstream checks every request the stub was handed during one client
// exchange against what the client sent.
func (e *env) judgeUpstream(idx int, op *Op, out *outcome) {
	r := e.r
	wire := op.Entry != "msgstruct"
	var exp []*ecsVal // acceptable upstream subnet options
	clientSent := false
	for _, o := range op.Q.Opts {
		if o.Code != dns.EDNS0SUBNET || !op.Q.EDNS {
			continue
		}
		clientSent = true
		if v, ok := clientSubnet(o.bytes(), wire); ok {
			if x := e.m.expectedUpstream(op.Client, v); x != nil {
				exp = append(exp, x)
			}
		}
	}
	if len(out.Seen) > 0 {
		anyECS, anyOther := false, false
		for _, s := range out.Seen {
			anyECS = anyECS || len(s.ECS) > 0
			for _, c := range s.Codes {
				anyOther = anyOther || c != dns.EDNS0SUBNET
			}
		}
		if clientSent && !anyECS && !e.m.eligible(op.Client) {
			r.Count("stripped_ecs_not_eligible", 1)
		}
		if clientSent && !anyECS && e.m.enabled && !e.m.valid {
			r.Count("invalid_policy_ecs_queries", 1)
		}
		if clientSent && !anyECS && e.m.eligible(op.Client) && len(exp) == 0 {
			r.Count("stripped_ecs_malformed", 1)
		}
		nOther := 0
		for _, o := range op.Q.Opts {
			if o.Code != dns.EDNS0SUBNET {
				nOther++
			}
		}
		if op.Q.EDNS && nOther > 0 && !anyOther {
			r.Count("stripped_other_options", 1)
		}
	}
	for _, s := range out.Seen {
		r.Count("upstream_requests_inspected", 1)
		if s.Internal {
			r.Count("upstream_internal_requests", 1)
		}
		r.Eval(1)
		// every option other than a subnet option
		for _, c := range s.Codes {
			if c == dns.EDNS0SUBNET {
				continue
			}
			if op.Q.EDNS && op.Q.hasOpt(c) {
				r.Violation(fmt.Sprintf("upstream/client-option-forwarded/%d", c),
					fmt.Sprintf("upstream query for %s carried client-supplied EDNS option code %d (options seen upstream: %v)", s.Name, c, s.Codes),
					caseOf(e, idx, op, map[string]any{"upstream_codes": s.Codes}))
			} else {
				r.Count("upstream_foreign_options", 1)
			}
		}
		if len(s.ECS) == 0 {
			if len(exp) > 0 && !s.Internal {
				r.Count("upstream_ecs_absent_though_permitted", 1)
				r.DistinctIn("absent_though_permitted", fmt.Sprintf("%s/%v", op.Entry, exp))
				if os.Getenv("C19_DEBUG") != "" {
					fmt.Fprintf(os.Stderr, "absent: %s %s opts=%v exp=%v\n", op.Entry, op.Client, op.Q.Opts, exp)
				}
			}
			continue
		}
		r.Count("upstream_with_ecs", 1)
		got := s.ECS[0]
		desc := fmt.Sprintf("family=%d source=%d scope=%d addr=%s", got.Family, got.SourceNetmask, got.SourceScope, got.Address)
		ex := map[string]any{"upstream_ecs": desc, "upstream_name": s.Name, "internal": s.Internal}
		switch {
		case !clientSent:
			r.Violation("upstream/ecs-without-client-option",
				fmt.Sprintf("upstream query for %s carried a subnet option (%s) although client %s sent none", s.Name, desc, op.Client), caseOf(e, idx, op, ex))
			continue
		case !e.m.enabled:
			r.Violation("upstream/ecs-when-disabled", fmt.Sprintf("ECS is disabled but the upstream query for %s carried %s", s.Name, desc), caseOf(e, idx, op, ex))
			continue
		case !e.m.valid:
			r.Violation("upstream/ecs-under-invalid-config", fmt.Sprintf("[ecs] is invalid (%s) but the upstream query for %s carried %s", e.m.why, s.Name, desc), caseOf(e, idx, op, ex))
			continue
		case !e.m.eligible(op.Client):
			r.Violation("upstream/ecs-client-not-in-networks", fmt.Sprintf("client %s is outside client_networks %v but the upstream query for %s carried %s", op.Client, e.pol.Networks, s.Name, desc), caseOf(e, idx, op, ex))
			continue
		case len(exp) == 0:
			r.Violation("upstream/ecs-from-malformed-option", fmt.Sprintf("no well-formed reading of the client's option exists but the upstream query for %s carried %s", s.Name, desc), caseOf(e, idx, op, ex))
			continue
		}
		if len(s.ECS) > 1 {
			r.Violation("upstream/multiple-ecs", fmt.Sprintf("upstream query for %s carried %d subnet options", s.Name, len(s.ECS)), caseOf(e, idx, op, ex))
		}
		// compare with the independent recomputation
		gv := subnetVal(got)
		okAny := false
		var why string
		for _, x := range exp {
			switch {
			case int(got.Family) != x.Fam || gv == nil:
				why = "family"
			case int(got.SourceNetmask) > x.Bits:
				why = "wider-than-ceiling"
			case int(got.SourceNetmask) < x.Bits:
				why = "source-length"
			case got.SourceScope != 0:
				why = "scope-nonzero"
			case hex.EncodeToString(gv.Addr) != x.Hex:
				if hex.EncodeToString(maskBytes(gv.Addr, x.Bits)) == x.Hex {
					why = "host-bits"
				} else {
					why = "address"
				}
			default:
				okAny = true
			}
			if okAny {
				break
			}
		}
		if okAny {
			r.Count("upstream_ecs_matches_expected", 1)
			r.Count(fmt.Sprintf("upstream_ecs_matches_expected_fam%d", got.Family), 1)
			if int(got.SourceNetmask) < firstClientBits(op, wire) {
				r.Count("upstream_ecs_clamped_by_ceiling", 1)
			}
			r.Distinct(fmt.Sprintf("fwd/f%d/%d/c%d-%d/%s", got.Family, got.SourceNetmask, e.m.c4, e.m.c6, op.Entry))
		} else {
			ex["expected"] = exp
			r.Violation("upstream/ecs-mismatch/"+why,
				fmt.Sprintf("upstream query for %s carried %s; the policy (%s) permits only %v for client %s", s.Name, desc, e.pol, exp, op.Client),
				caseOf(e, idx, op, ex))
		}
	}
}

func firstClientBits(op *Op, wire bool) int {
	for _, o := range op.Q.Opts {
		if o.Code == dns.EDNS0SUBNET {
			if v, ok := clientSubnet(o.bytes(), wire); ok {
				return v.Bits
			}
		}
	}
	return 0
}

// markers returns the provenance generations found in a reply's answer.
func markers(m *dns.Msg) (gens []uint32, ttls []uint32) {
	if m == nil {
		return
	}
	for _, rr := range m.Answer {
		if g, _, ok := stack.ParseMarker(rr); ok {
			gens = append(gens, g)
			ttls = append(ttls, rr.Header().Ttl)
		}
	}
	return
}
