package main

import (
	"fmt"

	"github.com/miekg/dns"
	"github.com/semihalev/sdns/zzverif/replycontract"
	"github.com/semihalev/sdns/zzverif/stack"
)

func main() {
	cfg := stack.DefaultConfig()
	cfg.ECS.Enabled = true
	cfg.ClientRateLimit = 100
	cfg.NSID = "nsid-x"
	st := stack.MustNew(stack.Options{Config: cfg})
	defer st.Close()
	// finding 4
	q := new(dns.Msg)
	q.SetQuestion("a.example.", dns.TypeA)
	q.SetEdns0(1232, false)
	opt := q.IsEdns0()
	opt.SetVersion(1)
	opt.Option = append(opt.Option, &dns.EDNS0_SUBNET{Code: dns.EDNS0SUBNET, Family: 1, SourceNetmask: 32, Address: []byte{198, 51, 100, 7}})
	pkt, _ := q.Pack()
	for _, e := range []string{"msg", "raw"} {
		var r stack.Result
		if e == "msg" {
			r = st.ServeMsg("203.0.113.9:4000", "udp", q.Copy())
		} else {
			r = st.ServeRaw("203.0.113.9:4000", "udp", pkt)
		}
		fmt.Println(e, "badvers:", replycontract.Class(r.Raw), replycontract.Check("udp", pkt, r.Raw, replycontract.Options{}))
	}
	// finding 5
	mk := func(cookie string) []byte {
		q := new(dns.Msg)
		q.SetQuestion("b.example.", dns.TypeA)
		q.SetEdns0(1232, false)
		o := q.IsEdns0()
		o.Option = append(o.Option, &dns.EDNS0_COOKIE{Code: dns.EDNS0COOKIE, Cookie: cookie},
			&dns.EDNS0_SUBNET{Code: dns.EDNS0SUBNET, Family: 1, SourceNetmask: 24, Address: []byte{198, 51, 100, 0}},
			&dns.EDNS0_PADDING{Padding: []byte("CCCCCC")}, &dns.EDNS0_NSID{Code: dns.EDNS0NSID})
		p, _ := q.Pack()
		return p
	}
	job := stack.NewJob("203.0.113.77:4000", "udp")
	p1 := mk("0102030405060708")
	r := st.ServeRawJob(job, stack.RawServe, p1)
	fmt.Println("first:", replycontract.Class(r.Raw), replycontract.Check("udp", p1, r.Raw, replycontract.Options{NSID: "nsid-x"}), r.Msg.IsEdns0())
	p2 := mk("0102030405060708" + "aaaaaaaaaaaaaaaaaaaaaaaaaaaaaaaa")
	r = st.ServeRawJob(job, stack.RawServe, p2)
	fmt.Println("second:", replycontract.Class(r.Raw), r.Msg)
	for _, b := range replycontract.Check("udp", p2, r.Raw, replycontract.Options{NSID: "nsid-x", VerifyCookie: true, ClientIP: "203.0.113.77"}) {
		fmt.Println("   ", b)
	}
}
