// Package replycontract is the C06 reply contract as a pure function over
// bytes: Check(transport, query, reply, options) returns every rule of the
// property statement the (query, reply) pair breaks. It is an always-on
// online monitor: every check that observes replies can pass them through it.
//
// The rules are exactly the C06 statement (see /verif/properties.jsonl):
//
//	qr                   reply has QR clear
//	id                   reply ID != query ID (DoQ: != 0)
//	opcode               reply opcode != query opcode
//	answered-response    a packet with QR=1 got a reply (udp/tcp/dot only)
//	rcode-expected       on udp/tcp/dot: non-query opcode → NOTIMP, bad section
//	                     counts / undecodable body → FORMERR, EDNS version != 0 →
//	                     BADVERS (when several apply, any of their rcodes; a UDP
//	                     query carrying a COOKIE may be met by BADCOOKIE first)
//	-- every reply other than a bare-header FORMERR/NOTIMP rejection: --
//	question             question section does not echo the query's
//	opt-unsolicited      OPT in the reply, none in the query
//	dnssec-rr            RRSIG/NSEC/NSEC3 in answer/authority, DO clear, qtype != RRSIG
//	ad                   AD set although the client set CD, or neither DO nor AD
//	reflect-ecs          a client-subnet option in the reply
//	keepalive-unsolicited  edns-tcp-keepalive on a non-stream transport or not asked for
//	keepalive-foreign    … on a stream but not the server's own timeout
//	cookie-unsolicited   COOKIE in the reply, no client cookie in the query
//	cookie-unbound       COOKIE not starting with the client cookie sent / wrong server part
//	reflect-option       an option of the query mirrored byte for byte (padding, NSID
//	                     request, unknown codes …)
//	udp-size             UDP reply longer than max(512, min(adv,1232)) and not a
//	                     TC=1 reply holding only question and OPT
//	-- informational (Breach.Info, never a verdict): --
//	upstream-option      an option that is neither the server's own (cookie, NSID,
//	                     keepalive), an EDE, nor sent by the client — i.e. passed
//	                     through from the upstream response
//	unparseable          the reply does not unpack (rules needing sections skipped)
package replycontract

import (
	"bytes"
	"crypto/sha256"
	"encoding/binary"
	"encoding/hex"
	"fmt"

	"github.com/miekg/dns"
)

// Options carries what the server under test was configured with.
type Options struct {
	// NSID is the configured server id ("" = none). Only used to tell the
	// server's own NSID from a foreign one (informational rule).
	NSID string
	// VerifyCookie makes cookie-unbound also verify the server half:
	// sha256(ClientIP-text || hex(client cookie) || CookieSecret), which is
	// what sdns emits whether or not a secret is configured.
	VerifyCookie bool
	CookieSecret string
	ClientIP     string
	// KeepaliveUnits is the idle timeout (100 ms units) the server
	// advertises to stream clients; 0 = do not check the value.
	// sdns: edns.TCPKeepaliveTimeout = 8 s → 80.
	KeepaliveUnits uint16
	// ECSEnabled records the [ecs] policy; no rule depends on it (ECS is
	// never allowed in a reply), it is carried for evidence only.
	ECSEnabled bool
}

// Breach is one broken rule. Rule is a stable id (see package doc).
type Breach struct {
	Rule   string `json:"rule"`
	Detail string `json:"detail"`
	// Info marks an informational observation that is NOT part of the
	// property statement's verdict.
	Info bool `json:"info,omitempty"`
	// OptCode / OptHex identify the offending reply option for the option
	// rules (so a monitor that knows the upstream response can attribute it).
	OptCode uint16 `json:"opt_code,omitempty"`
	OptHex  string `json:"opt_hex,omitempty"`
}

func (b Breach) String() string { return b.Rule + ": " + b.Detail }

// Transport canonicalises a transport name to one of udp tcp dot doh doq.
func Transport(t string) string {
	switch t {
	case "udp", "tcp", "dot", "doh", "doq":
		return t
	case "tls":
		return "dot"
	case "doh-get", "doh-post", "doh3":
		return "doh"
	}
	return t
}

type header struct {
	id               uint16
	flags            uint16
	qd, an, ns, ar   uint16
	qr, tc, ad, cd   bool
	opcode, rcodeLow int
}

func parseHeader(b []byte) (h header, ok bool) {
	if len(b) < 12 {
		return h, false
	}
	h.id = binary.BigEndian.Uint16(b[0:])
	h.flags = binary.BigEndian.Uint16(b[2:])
	h.qd = binary.BigEndian.Uint16(b[4:])
	h.an = binary.BigEndian.Uint16(b[6:])
	h.ns = binary.BigEndian.Uint16(b[8:])
	h.ar = binary.BigEndian.Uint16(b[10:])
	h.qr = h.flags&0x8000 != 0
	h.opcode = int(h.flags>>11) & 0xF
	h.tc = h.flags&0x0200 != 0
	h.ad = h.flags&0x0020 != 0
	h.cd = h.flags&0x0010 != 0
	h.rcodeLow = int(h.flags & 0xF)
	return h, true
}

// QueryFacts is what the contract derives from the query packet.
type QueryFacts struct {
	HeaderOK   bool
	QR         bool
	Opcode     int
	BadCounts  bool // QDCOUNT != 1 || ANCOUNT > 1 || NSCOUNT > 1 || ARCOUNT > 2
	Decodable  bool
	Msg        *dns.Msg
	HasOPT     bool
	Version    uint8
	DO, AD, CD bool
	Adv        int // advertised UDP size (512 without OPT)
	Options    []dns.EDNS0
}

// Facts parses the query.
func Facts(query []byte) QueryFacts {
	var f QueryFacts
	h, ok := parseHeader(query)
	if !ok {
		return f
	}
	f.HeaderOK = true
	f.QR = h.qr
	f.Opcode = h.opcode
	f.AD, f.CD = h.ad, h.cd
	f.BadCounts = h.qd != 1 || h.an > 1 || h.ns > 1 || h.ar > 2
	f.Adv = dns.MinMsgSize
	m := new(dns.Msg)
	if err := m.Unpack(query); err != nil {
		return f
	}
	f.Decodable = true
	f.Msg = m
	if opt := m.IsEdns0(); opt != nil {
		f.HasOPT = true
		f.Version = opt.Version()
		f.DO = opt.Do()
		f.Adv = int(opt.UDPSize())
		f.Options = opt.Option
	}
	return f
}

// UDPLimit is max(512, min(adv, 1232)).
func UDPLimit(adv int) int {
	l := adv
	if l > 1232 {
		l = 1232
	}
	if l < 512 {
		l = 512
	}
	return l
}

func optData(o dns.EDNS0) []byte {
	// Re-pack one option through a scratch OPT: miekg keeps several option
	// kinds in text form, so the wire payload is the only canonical form.
	opt := &dns.OPT{Hdr: dns.RR_Header{Name: ".", Rrtype: dns.TypeOPT}}
	opt.Option = []dns.EDNS0{o}
	m := new(dns.Msg)
	m.Extra = []dns.RR{opt}
	b, err := m.Pack()
	if err != nil || len(b) < 12+11+4 {
		return nil
	}
	// header(12) + root(1) type(2) class(2) ttl(4) rdlen(2) + code(2) len(2) + data
	return b[12+11+4:]
}

func replyOptions(m *dns.Msg) (opts []dns.EDNS0, n int) {
	for _, rr := range m.Extra {
		if o, ok := rr.(*dns.OPT); ok {
			n++
			opts = append(opts, o.Option...)
		}
	}
	return
}

func hasOption(opts []dns.EDNS0, code uint16) bool {
	for _, o := range opts {
		if o.Option() == code {
			return true
		}
	}
	return false
}

func firstDNSSEC(secs ...[]dns.RR) dns.RR {
	for _, sec := range secs {
		for _, rr := range sec {
			if isDNSSECRR(rr) {
				return rr
			}
		}
	}
	return nil
}

func isDNSSECRR(rr dns.RR) bool {
	switch rr.Header().Rrtype {
	case dns.TypeRRSIG, dns.TypeNSEC, dns.TypeNSEC3:
		return true
	}
	return false
}

// ServerCookie is the cookie sdns derives for a client cookie (16 hex chars).
func ServerCookie(secret, clientIP, clientCookieHex string) string {
	h := sha256.New()
	h.Write([]byte(clientIP))
	h.Write([]byte(clientCookieHex))
	h.Write([]byte(secret))
	return clientCookieHex + hex.EncodeToString(h.Sum(nil))
}

// Class names the reply for counters and violation signatures.
func Class(reply []byte) string {
	h, ok := parseHeader(reply)
	if !ok {
		return "short"
	}
	bare := h.qd == 0 && h.an == 0 && h.ns == 0 && h.ar == 0
	rcode := h.rcodeLow
	m := new(dns.Msg)
	if m.Unpack(reply) == nil {
		rcode = m.Rcode
	}
	switch {
	case bare && rcode == dns.RcodeFormatError:
		return "bare-formerr"
	case bare && rcode == dns.RcodeNotImplemented:
		return "bare-notimp"
	case rcode == dns.RcodeBadVers:
		return "badvers"
	case rcode == dns.RcodeBadCookie:
		return "badcookie"
	case h.tc:
		return "truncated"
	case rcode == dns.RcodeSuccess && h.an > 0:
		return "noerror-answer"
	case rcode == dns.RcodeSuccess:
		return "noerror-nodata"
	case rcode == dns.RcodeNameError:
		return "nxdomain"
	case rcode == dns.RcodeServerFailure:
		return "servfail"
	case rcode == dns.RcodeRefused:
		return "refused"
	case rcode == dns.RcodeFormatError:
		return "formerr"
	case rcode == dns.RcodeNotImplemented:
		return "notimp"
	}
	return "rcode-" + fmt.Sprint(rcode)
}

// Check returns every contract rule the reply breaks. reply == nil (no reply
// observed) breaks nothing: the contract constrains replies, it does not
// demand them.
func Check(transport string, query, reply []byte, o Options) []Breach {
	if reply == nil {
		return nil
	}
	tr := Transport(transport)
	plain := tr == "udp" || tr == "tcp" || tr == "dot"
	var out []Breach
	add := func(rule, format string, a ...any) {
		out = append(out, Breach{Rule: rule, Detail: fmt.Sprintf(format, a...)})
	}
	info := func(rule, format string, a ...any) {
		out = append(out, Breach{Rule: rule, Detail: fmt.Sprintf(format, a...), Info: true})
	}

	q := Facts(query)
	rh, ok := parseHeader(reply)
	if !ok {
		add("qr", "reply shorter than a DNS header (%d bytes)", len(reply))
		return out
	}

	// ---- every reply -------------------------------------------------
	if !rh.qr {
		add("qr", "QR clear in reply")
	}
	if q.HeaderOK {
		qh, _ := parseHeader(query)
		if tr == "doq" {
			if rh.id != 0 {
				add("id", "DoQ reply id %d, want 0", rh.id)
			}
		} else if rh.id != qh.id {
			add("id", "reply id %d, query id %d", rh.id, qh.id)
		}
		if rh.opcode != qh.opcode {
			add("opcode", "reply opcode %d, query opcode %d", rh.opcode, qh.opcode)
		}
	}
	if plain && q.HeaderOK && q.QR {
		add("answered-response", "a packet with QR=1 was answered (%d bytes)", len(reply))
	}

	rm := new(dns.Msg)
	parsed := rm.Unpack(reply) == nil
	rcode := rh.rcodeLow
	if parsed {
		rcode = rm.Rcode
	} else {
		info("unparseable", "reply does not unpack")
	}

	// ---- header-level classes on the datagram and stream listeners ----
	if plain && q.HeaderOK && !q.QR {
		allowed := map[int]bool{}
		var why []string
		if q.Opcode != dns.OpcodeQuery {
			allowed[dns.RcodeNotImplemented] = true
			why = append(why, fmt.Sprintf("opcode %d → NOTIMP", q.Opcode))
		}
		if q.BadCounts {
			allowed[dns.RcodeFormatError] = true
			why = append(why, "bad section counts → FORMERR")
		} else if !q.Decodable {
			allowed[dns.RcodeFormatError] = true
			why = append(why, "undecodable body → FORMERR")
		}
		if q.Decodable && q.HasOPT && q.Version != 0 {
			allowed[dns.RcodeBadVers] = true
			why = append(why, fmt.Sprintf("EDNS version %d → BADVERS", q.Version))
		}
		// A stale-cookie rejection by the rate limiter legitimately comes
		// first (ratelimit sits ahead of edns): BADCOOKIE answers a UDP query
		// that carries a COOKIE option whatever else is wrong with it.
		if tr == "udp" && rcode == dns.RcodeBadCookie && q.Decodable && hasOption(q.Options, dns.EDNS0COOKIE) {
			allowed[rcode] = true
		}
		if len(allowed) > 0 && !allowed[rcode] {
			add("rcode-expected", "rcode %s, but %v", dns.RcodeToString[rcode], why)
		}
	}

	// ---- bare-header FORMERR / NOTIMP rejections are exempt from the rest
	bare := rh.qd == 0 && rh.an == 0 && rh.ns == 0 && rh.ar == 0 &&
		(rcode == dns.RcodeFormatError || rcode == dns.RcodeNotImplemented)

	if !bare && parsed {
		// question echo
		switch {
		case q.Decodable && len(q.Msg.Question) > 0:
			want := q.Msg.Question[0]
			if len(rm.Question) != 1 || rm.Question[0] != want {
				add("question", "reply question %v, query question %v", rm.Question, want)
			}
		case q.Decodable && len(rm.Question) > 0:
			add("question", "reply question %v, query had none", rm.Question)
		}

		ropts, nopt := replyOptions(rm)
		if q.Decodable {
			if nopt > 0 && !q.HasOPT {
				add("opt-unsolicited", "OPT in reply (%d options) but none in query", len(ropts))
			}
			// DNSSEC records
			qtype := uint16(0)
			if len(q.Msg.Question) > 0 {
				qtype = q.Msg.Question[0].Qtype
			}
			if !q.DO && qtype != dns.TypeRRSIG {
				if rr := firstDNSSEC(rm.Answer, rm.Ns); rr != nil {
					add("dnssec-rr", "%s %s in reply although DO clear and qtype %s",
						rr.Header().Name, dns.TypeToString[rr.Header().Rrtype], dns.TypeToString[qtype])
				}
			}
		}
		// AD discipline (flags come from the query header even when the
		// body is undecodable; DO needs the OPT, so only when decodable).
		if rh.ad && q.HeaderOK && (q.CD || (q.Decodable && !q.DO && !q.AD)) {
			add("ad", "AD set in reply; query CD=%v DO=%v AD=%v", q.CD, q.DO, q.AD)
		}

		// options
		if q.Decodable {
			checkOptions(tr, q, ropts, o, add, info, func(code uint16, data []byte) {
				out[len(out)-1].OptCode, out[len(out)-1].OptHex = code, hex.EncodeToString(data)
			})
		}
	}

	// ---- UDP size ------------------------------------------------------
	if tr == "udp" {
		limit := UDPLimit(q.Adv)
		if len(reply) > limit {
			minimal := rh.tc && rh.an == 0 && rh.ns == 0
			if minimal && parsed {
				for _, rr := range rm.Extra {
					if _, isOPT := rr.(*dns.OPT); !isOPT {
						minimal = false
					}
				}
			} else if minimal && rh.ar > 1 {
				minimal = false
			}
			if !minimal {
				add("udp-size", "UDP reply %d bytes > limit %d (advertised %d) tc=%v an=%d ns=%d ar=%d",
					len(reply), limit, q.Adv, rh.tc, rh.an, rh.ns, rh.ar)
			}
		}
	}
	return out
}

func checkOptions(tr string, q QueryFacts, ropts []dns.EDNS0, o Options,
	add func(string, string, ...any), info func(string, string, ...any), stamp func(uint16, []byte)) {
	type qopt struct {
		code uint16
		data []byte
	}
	var qopts []qopt
	var clientCookies [][]byte
	askedKeepalive, askedNSID := false, false
	for _, qo := range q.Options {
		d := optData(qo)
		qopts = append(qopts, qopt{qo.Option(), d})
		switch qo.Option() {
		case dns.EDNS0COOKIE:
			if len(d) >= 8 {
				clientCookies = append(clientCookies, d[:8])
			}
		case dns.EDNS0TCPKEEPALIVE:
			askedKeepalive = true
		case dns.EDNS0NSID:
			askedNSID = true
		}
	}
	stream := tr == "tcp" || tr == "dot"

	for _, ro := range ropts {
		code := ro.Option()
		data := optData(ro)
		add := func(rule, format string, a ...any) { add(rule, format, a...); stamp(code, data) }
		info := func(rule, format string, a ...any) { info(rule, format, a...); stamp(code, data) }
		switch code {
		case dns.EDNS0SUBNET:
			add("reflect-ecs", "client-subnet option in reply: %s", ro.String())
			continue
		case dns.EDNS0TCPKEEPALIVE:
			switch {
			case !stream:
				add("keepalive-unsolicited", "edns-tcp-keepalive over %s", tr)
			case !askedKeepalive:
				add("keepalive-unsolicited", "edns-tcp-keepalive in reply, none in query")
			case o.KeepaliveUnits != 0 && (len(data) != 2 || binary.BigEndian.Uint16(data) != o.KeepaliveUnits):
				add("keepalive-foreign", "edns-tcp-keepalive payload %x, server advertises %d", data, o.KeepaliveUnits)
			}
			continue
		case dns.EDNS0COOKIE:
			if len(clientCookies) == 0 {
				add("cookie-unsolicited", "COOKIE %x in reply, no client cookie in query", data)
				continue
			}
			bound := false
			for _, cc := range clientCookies {
				if len(data) > 8 && bytes.Equal(data[:8], cc) {
					bound = true
					if o.VerifyCookie {
						want, _ := hex.DecodeString(ServerCookie(o.CookieSecret, o.ClientIP, hex.EncodeToString(cc)))
						bound = bytes.Equal(data, want)
					}
				}
				if bound {
					break
				}
			}
			if !bound {
				add("cookie-unbound", "COOKIE %x in reply is not a server cookie for the client cookie sent", data)
			}
			continue
		}
		mirrored := false
		for _, qo := range qopts {
			if qo.code == code && bytes.Equal(qo.data, data) {
				mirrored = true
				break
			}
		}
		if mirrored {
			add("reflect-option", "query option code %d (%d bytes) mirrored in reply", code, len(data))
			continue
		}
		switch code {
		case dns.EDNS0EDE:
			// the server's own diagnostics
		case dns.EDNS0NSID:
			if !(askedNSID && o.NSID != "" && string(data) == o.NSID) {
				info("upstream-option", "NSID %q in reply (asked=%v configured=%q)", data, askedNSID, o.NSID)
			}
		default:
			info("upstream-option", "option code %d (%d bytes) in reply, not sent by the client", code, len(data))
		}
	}
}
