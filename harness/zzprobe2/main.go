package main

import (
	"fmt"
	"os"
	"runtime"
	"time"

	"github.com/miekg/dns"
	"github.com/semihalev/sdns/zzverif/authsim"
	zm "github.com/semihalev/sdns/zzverif/zonemodel"
)

func build(n3 *zm.NSEC3Params) *authsim.Universe {
	u := authsim.New()
	sr := u.AddServer("root")
	st := u.AddServer("tld")
	sz := u.AddServer("zone")
	sz2 := u.AddServer("zone2")
	si := u.AddServer("insec")
	root := u.AddZone(zm.Spec{Apex: ".", Signed: true, NSEC3: n3}, sr)
	tld := u.AddZone(zm.Spec{Apex: "test.", Signed: true, NSEC3: n3}, st)
	zone := u.AddZone(zm.Spec{Apex: "example.test.", Signed: true, NSEC3: n3, SplitKeys: true}, sz, sz2)
	other := u.AddZone(zm.Spec{Apex: "other.test.", Signed: true, Algorithm: 15}, st) // shares server with parent
	ins := u.AddZone(zm.Spec{Apex: "insecure.test.", Signed: false}, si)
	u.Delegate(root, tld, authsim.DelegOpts{})
	u.Delegate(tld, zone, authsim.DelegOpts{})
	u.Delegate(tld, other, authsim.DelegOpts{})
	u.Delegate(tld, ins, authsim.DelegOpts{})
	zone.AddMarked("www.example.test.", dns.TypeA, 300)
	zone.AddMarked("*.wild.example.test.", dns.TypeA, 300)
	zone.AddMarked("a.b.c.example.test.", dns.TypeTXT, 300)
	zone.AddCNAME("alias.example.test.", "www.other.test.", 300)
	zone.AddDNAME("dn.example.test.", "other.test.", 300)
	other.AddMarked("www.other.test.", dns.TypeA, 300)
	ins.AddMarked("www.insecure.test.", dns.TypeA, 300)
	return u
}

func main() {
	if len(os.Args) > 1 && os.Args[1] == "leak" {
		var ms runtime.MemStats
		for i := 0; i < 3; i++ {
			t0 := time.Now()
			u := build(nil)
			t1 := time.Now()
			st, err := u.NewResolverStack()
			if err != nil {
				panic(err)
			}
			q := new(dns.Msg)
			q.SetQuestion("www.example.test.", dns.TypeA)
			q.SetEdns0(1232, true)
			t2 := time.Now()
			r := st.Query("127.0.0.1", q)
			t3 := time.Now()
			{
				a, b, c, d := st.Handler.VerifSlots()
				fmt.Println("slots after query", a, b, c, d, "backlog", st.Cache().VerifStackPrefetchBacklog())
			}
			qok := st.Quiesce(2 * time.Second)
			for _, p := range u.Log.All() {
				fmt.Println("   ", p.String())
			}
			t4 := time.Now()
			st.Close()
			t5 := time.Now()
			u.Close()
			fmt.Printf("new=%v query=%v quiesce=%v(%v) close=%v uclose=%v ", t2.Sub(t1), t3.Sub(t2), t4.Sub(t3), qok, t5.Sub(t4), time.Since(t5))
			a, b, c, d := st.Handler.VerifSlots()
			fmt.Println(a, b, c, d)
			runtime.GC()
			runtime.ReadMemStats(&ms)
			fmt.Printf("build=%v stack+q+close=%v ", t1.Sub(t0), time.Since(t1))
			fmt.Printf("iter %d rcode=%d ad=%v goroutines=%d heap=%dMB\n", i, r.Rcode, r.AuthenticatedData, runtime.NumGoroutine(), ms.HeapAlloc>>20)
		}
		return
	}
	for _, n3 := range []*zm.NSEC3Params{nil, {Salt: "aabb", Iterations: 1}, {OptOut: true}} {
		u := build(n3)
		st, err := u.NewResolverStack()
		if err != nil {
			panic(err)
		}
		fmt.Printf("=== nsec3=%v\n", n3)
		for _, qq := range []struct {
			n string
			t uint16
		}{{"www.example.test.", dns.TypeA}, {"www.example.test.", dns.TypeAAAA}, {"x.wild.example.test.", dns.TypeA}, {"x.wild.example.test.", dns.TypeMX},
			{"b.c.example.test.", dns.TypeA}, {"nope.example.test.", dns.TypeA}, {"alias.example.test.", dns.TypeA}, {"www.dn.example.test.", dns.TypeA},
			{"www.insecure.test.", dns.TypeA}, {"nope.insecure.test.", dns.TypeA}, {"example.test.", dns.TypeDS}, {"insecure.test.", dns.TypeDS}, {"example.test.", dns.TypeDNSKEY},
			{"nope.test.", dns.TypeA}, {"nope.", dns.TypeA}, {"www.other.test.", dns.TypeA}} {
			q := new(dns.Msg)
			q.SetQuestion(qq.n, qq.t)
			q.SetEdns0(1232, true)
			from := u.Log.Len()
			t0 := time.Now()
			r := st.Query("127.0.0.1", q)
			want := u.NS.Resolve(qq.n, qq.t)
			diff := ""
			if r != nil {
				diff = zm.AnswerMatches(r.Answer, want.Answer)
			}
			if r == nil {
				fmt.Printf("%-28s %-6s NO REPLY\n", qq.n, dns.TypeToString[qq.t])
				continue
			}
			fmt.Printf("%-28s %-6s rcode=%-8s ad=%-5v ans=%d ns=%d pk=%d %4dms | want %s rcode=%s status=%s optout=%v diff=%q\n", qq.n, dns.TypeToString[qq.t],
				dns.RcodeToString[r.Rcode], r.AuthenticatedData, len(r.Answer), len(r.Ns), u.Log.Len()-from, time.Since(t0).Milliseconds(),
				want.Final.Kind, dns.RcodeToString[want.Rcode], want.Status, want.OptOut, diff)
			if r.Rcode == dns.RcodeServerFailure || os.Getenv("V") != "" {
				fmt.Println(r)
				for _, p := range u.Log.Since(from) {
					fmt.Println("   ", p.String())
				}
			}
		}
		st.Close()
		u.Close()
	}
}
