package main

// History generator. Everything is drawn from one PCG stream per history
// (r.RandN("hist", index)), so a history is a pure function of (seed, index).
//
// The generator keeps a rough model of when the entries it creates will die, so
// that clock steps land shortly before and shortly after interesting deadlines
// (TTL, 5 s floor, RRSIG end, SOA minimum, ECS cap, lease, inherited deadline of
// a chased piece, prefetch threshold). The model only steers coverage: the
// verdict never depends on it — the oracle is computed at run time from what the
// stub really sent and from measured call windows.

import (
	"math"
	"math/rand/v2"
	"sort"

	"github.com/miekg/dns"
)

var (
	ttlChoices   = []uint32{1, 2, 3, 4, 5, 6, 8, 12, 20, 30, 45, 60, 120, 300, 900, 3600, 7200, 43200, 86400, 90000, 100000}
	leaseChoices = []float64{1, 1.5, 2, 3, 4, 4.5, 6, 9, 15, 40, 120, 600, 3600, 20000, 46800}
	sigChoices   = []uint32{2, 3, 4, 6, 9, 20, 60, 600, 7200, 90000, 172800}
	routes       = []string{"msg-udp", "msg-tcp", "msg-doh", "wire-udp", "wire-udp", "wire-tcp", "engine", "engine"}
)

func pickTTL(rng *rand.Rand) uint32 {
	// bias towards the short end (floor / lease interplay) without starving the caps
	if rng.IntN(100) < 45 {
		return ttlChoices[rng.IntN(9)]
	}
	return ttlChoices[rng.IntN(len(ttlChoices))]
}

func pickLease(rng *rand.Rand, pNone int) float64 {
	if rng.IntN(100) < pNone {
		return 0
	}
	l := leaseChoices[rng.IntN(len(leaseChoices))]
	if rng.IntN(4) == 0 {
		l += float64(rng.IntN(9)) / 10
	}
	return l
}

func pickSig(rng *rand.Rand, pNone int) uint32 {
	if rng.IntN(100) < pNone {
		return 0
	}
	return sigChoices[rng.IntN(len(sigChoices))]
}

func genParams(rng *rand.Rand, kind string, n int) []param {
	out := make([]param, n)
	for i := range out {
		p := &out[i]
		switch kind {
		case kindPos, kindECS:
			p.TTL = pickTTL(rng)
			if rng.IntN(3) == 0 {
				p.TTL2 = pickTTL(rng)
			}
			p.SigExp = pickSig(rng, 55)
			p.Lease = pickLease(rng, 45)
			if kind == kindECS {
				p.SigExp = 0
				if p.TTL < 20 && rng.IntN(2) == 0 {
					p.TTL = 300 // let the ECS cap be the binding bound often enough
				}
			}
		case kindAlias:
			p.TTL = pickTTL(rng)
			if p.TTL < 30 && rng.IntN(2) == 0 {
				p.TTL = 300 // aliases that outlive their targets are the interesting ones
			}
			p.SigExp = pickSig(rng, 70)
			p.Lease = pickLease(rng, 60)
		case kindNXD, kindNoData:
			p.SOATTL = pickTTL(rng)
			p.SOAMin = pickTTL(rng)
			p.Lease = pickLease(rng, 50)
		case kindZone:
			p.SOATTL = pickTTL(rng)
			p.SOAMin = pickTTL(rng)
			p.TTL2 = pickTTL(rng)
			p.SigExp = pickSig(rng, 0)
			p.SigExp2 = pickSig(rng, 0)
			if rng.IntN(2) == 0 { // keep a good share of proofs alive long enough to be reused
				p.SigExp, p.SigExp2 = 7200, 7200
			}
			p.Lease = pickLease(rng, 40)
		}
	}
	return out
}

// qdesc is something the generator may ask.
type qdesc struct {
	Name  string
	Qtype uint16
	ECS   bool
}

type gmodel struct {
	h     *history
	rng   *rand.Rand
	now   float64
	calls map[string]int     // spec name -> stub calls so far
	exp   map[string]float64 // qdesc key -> modelled expiry of the exact entry
	orig  map[string]float64 // qdesc key -> modelled lifetime at admission
	extra map[string]float64 // other modelled deadlines (cut/<subject>, soa/<zone>) -> expiry
	extraQ map[string]qdesc  // what to ask to observe that deadline
	pool  []qdesc
}

func (d qdesc) key() string {
	k := qk(d.Name, d.Qtype)
	if d.ECS {
		k += "+ecs"
	}
	return k
}

func clampL(sec float64) float64 {
	if sec < 5 {
		return 5
	}
	if sec > 86400 {
		return 86400
	}
	return sec
}

func (g *gmodel) spec(name string) *nameSpec {
	name = dns.CanonicalName(name)
	for i := range g.h.Names {
		s := &g.h.Names[i]
		if s.Kind == kindZone {
			if dns.IsSubDomain(s.Name, name) {
				return s
			}
			continue
		}
		if s.Name == name {
			return s
		}
	}
	return nil
}

// ask models one query and returns the modelled expiry of what answers it.
func (g *gmodel) ask(d qdesc, depth int) float64 {
	k := d.key()
	if e := g.exp[k]; e > g.now {
		return e
	}
	s := g.spec(d.Name)
	if s == nil || depth > 4 {
		return g.now + 5
	}
	if s.Kind == kindZone {
		subj := subjectOf(d.Name, s.Name)
		if e := g.extra["cut/"+subj]; e > g.now && dns.CanonicalName(d.Name) != "m."+s.Name {
			return e
		}
	}
	p := s.Params[g.calls[s.Name]%len(s.Params)]
	g.calls[s.Name]++
	min := func(a float64, b uint32) float64 {
		if float64(b) < a {
			return float64(b)
		}
		return a
	}
	raw := math.Inf(1)
	switch s.Kind {
	case kindPos, kindECS, kindAlias:
		raw = min(raw, p.TTL)
		if p.TTL2 > 0 && s.Kind != kindAlias {
			raw = min(raw, p.TTL2)
		}
		if p.SigExp > 0 {
			raw = min(raw, p.SigExp)
		}
	case kindNXD, kindNoData:
		raw = min(min(raw, p.SOATTL), p.SOAMin)
	case kindZone:
		raw = min(min(min(min(min(raw, p.SOATTL), p.SOAMin), p.TTL2), p.SigExp), p.SigExp2)
	}
	life := clampL(raw)
	if s.Kind == kindECS && d.ECS && float64(g.h.ECSCap) < life {
		life = float64(g.h.ECSCap)
	}
	if p.Lease > 0 && p.Lease < life {
		life = p.Lease
	}
	e := g.now + life
	if s.Kind == kindAlias {
		if te := g.ask(qdesc{Name: s.Target, Qtype: d.Qtype}, depth+1); te < e {
			e = te
		}
	}
	if s.Kind == kindZone {
		cut := raw
		if p.Lease > 0 && p.Lease < cut {
			cut = p.Lease
		}
		if cut > 600 {
			cut = 600
		}
		if dns.CanonicalName(d.Name) != "m."+s.Name {
			subj := subjectOf(d.Name, s.Name)
			g.extra["cut/"+subj] = g.now + cut
			g.extraQ["cut/"+subj] = qdesc{Name: "n" + string(rune('2'+g.rng.IntN(7))) + "." + subj, Qtype: dns.TypeA}
		}
		g.extra["soa/"+s.Name] = g.now + cut
		g.extraQ["soa/"+s.Name] = qdesc{Name: "e" + string(rune('2'+g.rng.IntN(7))) + "." + s.Name, Qtype: dns.TypeAAAA}
	}
	g.exp[k] = e
	g.orig[k] = e - g.now
	return e
}

func (g *gmodel) route(d qdesc) string {
	r := routes[g.rng.IntN(len(routes))]
	if d.ECS && r == "engine" {
		r = "wire-udp"
	}
	return r
}

func (g *gmodel) q(d qdesc, why string) {
	g.ask(d, 0)
	g.h.Ops = append(g.h.Ops, op{Kind: "q", Name: d.Name, Qtype: d.Qtype, ECS: d.ECS, Route: g.route(d), DO: g.rng.IntN(2) == 0, Why: why})
}

func (g *gmodel) adv(sec float64, why string) {
	if sec < 0.05 {
		return
	}
	sec = math.Round(sec*1000) / 1000
	g.now += sec
	g.h.Ops = append(g.h.Ops, op{Kind: "adv", Adv: sec, Why: why})
}

// deadlines lists modelled live deadlines with the question that observes them.
func (g *gmodel) deadlines() (ks []string, at []float64, qs []qdesc) {
	for _, d := range g.pool {
		if e := g.exp[d.key()]; e > g.now {
			ks = append(ks, d.key())
		}
	}
	sort.Strings(ks)
	byKey := map[string]qdesc{}
	for _, d := range g.pool {
		byKey[d.key()] = d
	}
	for _, k := range ks {
		at = append(at, g.exp[k])
		qs = append(qs, byKey[k])
	}
	var xs []string
	for k, e := range g.extra {
		if e > g.now {
			xs = append(xs, k)
		}
	}
	sort.Strings(xs)
	for _, k := range xs {
		ks = append(ks, k)
		at = append(at, g.extra[k])
		qs = append(qs, g.extraQ[k])
	}
	return
}

var nearDeltas = []float64{-1.3, -0.6, 0.3, 1.2, 2.6}

func genHistory(rng *rand.Rand, index int, seed uint64) *history {
	h := &history{Index: index, Seed: seed}
	h.Prefetch = []int{0, 0, 10, 30, 50, 80}[rng.IntN(6)]
	h.ECSCap = []int{3, 7, 30, 120, 1800}[rng.IntN(5)]

	np := 4 + rng.IntN(3)
	add := func(s nameSpec) { s.Params = genParams(rng, s.Kind, np); h.Names = append(h.Names, s) }
	p1 := "hostalphabravo1." + posZone
	p2 := "hostcharliedelta2." + posZone
	al1 := "aliasfoxtrotgolf1." + posZone
	al2 := "aliashotelindia2." + posZone
	alz := "aliasjulietkilo3." + posZone
	zone := "z1.c04.test."
	under := "xtargetundercut.d1." + zone
	t1 := []uint16{dns.TypeA, dns.TypeA, dns.TypeTXT}[rng.IntN(3)]

	add(nameSpec{Kind: kindPos, Name: p1, Qtype: t1})
	pool := []qdesc{{Name: p1, Qtype: t1}}
	hasAl1 := rng.IntN(100) < 65
	if hasAl1 {
		add(nameSpec{Kind: kindAlias, Name: al1, Qtype: t1, Target: p1})
		pool = append(pool, qdesc{Name: al1, Qtype: t1}, qdesc{Name: al1, Qtype: t1})
	}
	hasZone := rng.IntN(100) < 55
	if hasAl1 && rng.IntN(100) < 40 && len(h.Names) < 5 {
		add(nameSpec{Kind: kindAlias, Name: al2, Qtype: t1, Target: al1})
		pool = append(pool, qdesc{Name: al2, Qtype: t1})
	}
	if rng.IntN(100) < 40 {
		add(nameSpec{Kind: kindPos, Name: p2, Qtype: dns.TypeTXT})
		pool = append(pool, qdesc{Name: p2, Qtype: dns.TypeTXT})
	}
	if hasZone {
		add(nameSpec{Kind: kindZone, Name: zone, Qtype: dns.TypeA})
		pool = append(pool,
			qdesc{Name: "n1.d1." + zone, Qtype: dns.TypeA},
			qdesc{Name: "n2.d1." + zone, Qtype: dns.TypeA},
			qdesc{Name: "d1." + zone, Qtype: dns.TypeTXT},
			qdesc{Name: "e5." + zone, Qtype: dns.TypeA},
			qdesc{Name: "e6." + zone, Qtype: dns.TypeAAAA},
			qdesc{Name: "q7." + zone, Qtype: dns.TypeA},
			qdesc{Name: "m." + zone, Qtype: dns.TypeAAAA},
			qdesc{Name: "m." + zone, Qtype: dns.TypeTXT},
		)
		if rng.IntN(100) < 60 && len(h.Names) < 6 {
			add(nameSpec{Kind: kindAlias, Name: alz, Qtype: dns.TypeA, Target: under})
			pool = append(pool, qdesc{Name: alz, Qtype: dns.TypeA}, qdesc{Name: alz, Qtype: dns.TypeA})
		}
	}
	if rng.IntN(100) < 35 && len(h.Names) < 6 {
		k := []string{kindNXD, kindNoData}[rng.IntN(2)]
		n := "gone." + negZone
		add(nameSpec{Kind: k, Name: n, Qtype: dns.TypeA})
		pool = append(pool, qdesc{Name: n, Qtype: dns.TypeA})
	}
	if rng.IntN(100) < 35 && len(h.Names) < 6 {
		n := "geo." + posZone
		add(nameSpec{Kind: kindECS, Name: n, Qtype: dns.TypeA})
		pool = append(pool, qdesc{Name: n, Qtype: dns.TypeA, ECS: true}, qdesc{Name: n, Qtype: dns.TypeA, ECS: true}, qdesc{Name: n, Qtype: dns.TypeA})
	}

	g := &gmodel{h: h, rng: rng, calls: map[string]int{}, exp: map[string]float64{}, orig: map[string]float64{},
		extra: map[string]float64{}, extraQ: map[string]qdesc{}, pool: pool}
	want := 20 + rng.IntN(21)
	// start by touching two or three things so there is state to age
	for i := 0; i < 2+rng.IntN(2); i++ {
		g.q(pool[rng.IntN(len(pool))], "warm")
	}
	for len(h.Ops) < want {
		switch c := rng.IntN(100); {
		case c < 30:
			g.q(pool[rng.IntN(len(pool))], "any")
		case c < 68:
			ks, at, qs := g.deadlines()
			if len(ks) == 0 {
				g.q(pool[rng.IntN(len(pool))], "any")
				continue
			}
			i := rng.IntN(len(ks))
			delta := nearDeltas[rng.IntN(len(nearDeltas))]
			g.adv(at[i]+delta-g.now, "near "+ks[i])
			g.q(qs[i], "at-deadline "+ks[i])
			if rng.IntN(2) == 0 {
				g.adv(0.4+float64(rng.IntN(25))/10, "step")
				g.q(qs[i], "after-step "+ks[i])
			}
		case c < 76:
			// log-uniform 0.5 s .. 25 h
			sec := 0.5 * math.Pow(25*3600/0.5, rng.Float64())
			g.adv(sec, "random")
		case c < 83:
			d := pool[rng.IntN(len(pool))]
			h.Ops = append(h.Ops, op{Kind: "purge", Name: d.Name, Qtype: d.Qtype, Why: "purge"})
			delete(g.exp, d.key())
			delete(g.exp, qdesc{Name: d.Name, Qtype: d.Qtype, ECS: !d.ECS}.key())
			if s := g.spec(d.Name); s != nil && s.Kind == kindZone {
				for k := range g.extra {
					delete(g.extra, k)
				}
			}
			if rng.IntN(3) > 0 {
				g.q(d, "after-purge")
			}
		default:
			// keep-hot burst: bring an entry to its prefetch threshold and hit it
			if h.Prefetch == 0 {
				g.q(pool[rng.IntN(len(pool))], "any")
				continue
			}
			d := pool[rng.IntN(len(pool))]
			if d.ECS {
				d.ECS = false
			}
			e := g.ask(d, 0)
			life := g.orig[d.key()]
			if life <= 0 {
				life = e - g.now
			}
			due := e - life*float64(h.Prefetch)/100 + 0.3
			if due > g.now {
				g.adv(due-g.now, "to-prefetch-threshold "+d.key())
			}
			for i := 0; i < 2+rng.IntN(3); i++ {
				h.Ops = append(h.Ops, op{Kind: "q", Name: d.Name, Qtype: d.Qtype, Route: []string{"msg-udp", "msg-tcp", "msg-doh", "wire-udp", "engine"}[rng.IntN(5)], DO: rng.IntN(2) == 0, Why: "hot"})
				if rng.IntN(3) == 0 {
					g.adv(0.2+float64(rng.IntN(8))/10, "hot-step")
				}
			}
			// the refresh (if any) re-admitted the entry: forget the old model
			delete(g.exp, d.key())
		}
	}
	return h
}
