package main

// Clause (e), part 2: the deterministic pipeline scenario. A name is kept hot
// until a hit queues a background refresh; the stub GATES that refresh (blocks
// it on a channel) while newer state lands for the same key; then the gate is
// released. The stale refresh must not overwrite the newer state.
//
// Two dimensions are crossed (gatePlans):
//
// what lands while the refresh is parked (Variant)
//
//	0  purge + client re-query (a newer generation is admitted)
//	1  purge only (the key is withdrawn: the refresh must not resurrect it)
//	2  a client-path write lands directly (Store.SetFromResponseWithKey)
//	3  control: nothing intervenes — with a live claim the refresh must be
//	   applied, which shows the scenario really exercises a write-back
//	4  a client query alone: the claimed entry has run out, so the query
//	   misses, re-resolves and admits a newer generation (no purge)
//	5  a withdrawal lands directly (NXDOMAIN through SetFromResponseWithKey)
//	6  a client re-query that upstream now answers NXDOMAIN
//
// what happens to the CLAIMED entry while the refresh is parked (Fate)
//
//	live    it still has lifetime left when the refresh completes
//	ttl     its TTL runs out in flight (the clock steps while the one refresh
//	        sits inside the stub: no cache code is running)
//	lease   its delegation lease (BoundCutFor) runs out in flight, TTL left
//
// The property does not condition the no-overwrite clause on the state of the
// entry the refresh set out to replace: whatever was stored for the key after
// the refresh started must still be there when it completes.

import (
	"context"
	"fmt"
	"sync"
	"time"

	"github.com/miekg/dns"
	"github.com/semihalev/sdns/middleware/cache"
	"github.com/semihalev/sdns/zzverif/stack"
	"github.com/semihalev/sdns/zzverif/vlib"
)

type gateCase struct {
	Mode    string `json:"mode"`
	Index   int    `json:"index"`
	Variant int    `json:"variant"`
	Fate    string `json:"fate,omitempty"`
}

const (
	fateLive  = "live"
	fateTTL   = "ttl"
	fateLease = "lease"
)

type gatePlan struct {
	Variant int
	Fate    string
}

// gatePlans is the cross product the scenario index walks through. Variant 4
// needs an expired claim (a live entry would simply be hit); "purge only" is
// judged with a live claim only (with an expired claim and an empty slot there
// is no newer data the statement protects).
var gatePlans = func() []gatePlan {
	var out []gatePlan
	for _, v := range []int{0, 1, 2, 3, 5, 6} {
		out = append(out, gatePlan{v, fateLive})
	}
	for _, f := range []string{fateTTL, fateLease} {
		for _, v := range []int{0, 2, 3, 4, 5, 6} {
			out = append(out, gatePlan{v, f})
		}
	}
	return out
}()

func replyGen(m *dns.Msg) uint32 {
	if m == nil {
		return 0
	}
	for _, rr := range m.Answer {
		if g, _, ok := stack.ParseMarker(rr); ok {
			return g
		}
	}
	return 0
}

func gateNXDomain(name string, serial uint32) *dns.Msg {
	m := new(dns.Msg)
	m.Rcode = dns.RcodeNameError
	m.Ns = []dns.RR{&dns.SOA{Hdr: dns.RR_Header{Name: "c04.test.", Rrtype: dns.TypeSOA, Class: dns.ClassINET, Ttl: 30},
		Ns: "ns.c04.test.", Mbox: "h.c04.test.", Serial: serial, Refresh: 7200, Retry: 900, Expire: 86400, Minttl: 30}}
	return m
}

func runGateScenario(r *vlib.Run, idx int) {
	rng := r.RandN("gate", idx)
	plan := gatePlans[idx%len(gatePlans)]
	variant, fate := plan.Variant, plan.Fate
	name := fmt.Sprintf("hot-%d.c04.test.", idx)
	q := dns.Question{Name: name, Qtype: dns.TypeA, Qclass: dns.ClassINET}

	// first admission: plain TTL, or a long TTL under a short delegation lease
	ttl1 := uint32(20)
	var lease time.Duration
	if fate == fateLease {
		ttl1 = uint32(60 + rng.IntN(240))
		lease = time.Duration(8+rng.IntN(7)) * time.Second
	}

	var mu sync.Mutex
	gen := uint32(0)
	var staleGen uint32
	var refreshErr error
	refreshDone := false
	withdrawn := false // upstream answers NXDOMAIN to client queries from now on
	gate := make(chan struct{})
	entered := make(chan struct{}, 4)

	cfg := stack.DefaultConfig()
	cfg.Prefetch = 50
	st, err := stack.New(stack.Options{Config: cfg, Stub: func(_ context.Context, req *stack.StubRequest) *stack.StubReply {
		mu.Lock()
		defer mu.Unlock()
		gen++
		g := gen
		if withdrawn && !req.Internal {
			return &stack.StubReply{Msg: gateNXDomain(req.Q.Name, g)}
		}
		m := new(dns.Msg)
		rep := &stack.StubReply{Msg: m}
		if g == 1 {
			m.Answer = []dns.RR{stack.MarkerRR(g, req.Q.Name, dns.TypeA, ttl1)}
			if lease > 0 {
				rep.CutUntil, rep.CutKey = time.Now().Add(lease), 0xC04
			}
			return rep
		}
		m.Answer = []dns.RR{stack.MarkerRR(g, req.Q.Name, dns.TypeA, 20)}
		if req.Internal && staleGen == 0 {
			staleGen = g
			rep.Gate = gate
			rep.After = func(ctx context.Context, _ *dns.Msg) {
				mu.Lock()
				refreshErr, refreshDone = ctx.Err(), true
				mu.Unlock()
			}
			entered <- struct{}{}
		}
		return rep
	}})
	if err != nil {
		r.Inconclusive("gate: stack.New: " + err.Error())
		return
	}
	defer st.Close()
	released := false
	release := func() {
		if !released {
			released = true
			close(gate)
		}
	}
	defer release()

	ask := func() *dns.Msg {
		m := new(dns.Msg)
		m.SetQuestion(name, dns.TypeA)
		m.SetEdns0(1232, false)
		return st.ServeMsg("203.0.113.7:5300", "udp", m).Msg
	}
	store := st.Cache().VerifStore()
	key := cache.CacheKey{Question: q}.Hash()
	lookup := func() (*cache.CacheEntry, bool) {
		req := new(dns.Msg)
		req.Question = []dns.Question{q}
		return store.Lookup(req)
	}

	g1 := replyGen(ask())
	e1, ok := lookup()
	if g1 == 0 || !ok {
		r.Inconclusive(fmt.Sprintf("gate %d: first admission not observed", idx))
		return
	}
	if !st.Quiesce(5 * time.Second) {
		r.Inconclusive(fmt.Sprintf("gate %d: no quiescent point", idx))
		return
	}
	// bring the entry to its refresh threshold; left = lifetime it then has
	var left time.Duration
	if fate == fateLease {
		pre := time.Duration(rng.IntN(4)) * time.Second
		st.Cache().VerifAdvance(pre)
		left = lease - pre
	} else {
		pre := time.Duration(11+rng.IntN(5)) * time.Second
		st.Cache().VerifAdvance(pre)
		left = time.Duration(ttl1)*time.Second - pre
	}
	if g := replyGen(ask()); g != g1 {
		r.Count("gate_unexpected_second_reply", 1)
		return
	}
	select {
	case <-entered:
	case <-time.After(3 * time.Second):
		r.Count("gate_refresh_not_started", 1)
		return
	}
	if rng.IntN(2) == 0 {
		time.Sleep(time.Duration(rng.IntN(300)) * time.Microsecond)
	}
	if fate != fateLive {
		// the claimed entry runs out while its refresh is parked in the stub
		st.Cache().VerifAdvance(left + time.Second + time.Duration(rng.IntN(20000))*time.Millisecond)
	}
	var newer uint32
	newerNXD := false
	switch variant {
	case 0:
		st.Cache().Purge(q)
		newer = replyGen(ask())
	case 1:
		st.Cache().Purge(q)
	case 2:
		mu.Lock()
		gen++
		newer = gen
		mu.Unlock()
		m := new(dns.Msg)
		m.Question = []dns.Question{q}
		m.Response, m.RecursionDesired, m.RecursionAvailable = true, true, true
		m.Answer = []dns.RR{stack.MarkerRR(newer, name, dns.TypeA, 20)}
		store.SetFromResponseWithKey(key, m, time.Time{}, 0)
	case 4:
		newer = replyGen(ask())
		if newer == 0 || newer == g1 {
			r.Count("gate_vacuous_no_client_miss", 1)
			return
		}
	case 5:
		mu.Lock()
		gen++
		serial := gen
		mu.Unlock()
		m := gateNXDomain(name, serial)
		m.Question = []dns.Question{q}
		m.Response, m.RecursionDesired, m.RecursionAvailable = true, true, true
		store.SetFromResponseWithKey(key, m, time.Time{}, 0)
		newerNXD = true
	case 6:
		mu.Lock()
		withdrawn = true
		mu.Unlock()
		if fate == fateLive {
			st.Cache().Purge(q)
		}
		if m := ask(); m == nil || m.Rcode != dns.RcodeNameError {
			r.Count("gate_vacuous_no_withdrawal_reply", 1)
			return
		}
		newerNXD = true
	}
	if newerNXD {
		// the withdrawal must be what the store holds before the refresh returns
		if e, ok := lookup(); !ok || e == e1 {
			r.Count("gate_vacuous_withdrawal_not_stored", 1)
			return
		}
	}
	if rng.IntN(2) == 0 {
		time.Sleep(time.Duration(rng.IntN(300)) * time.Microsecond)
	}
	// the fate the plan asked for must be what the claimed entry shows now
	if e1.IsExpired() != (fate != fateLive) {
		r.Count("gate_vacuous_claim_fate_not_reached", 1)
		return
	}
	release()
	deadline := time.Now().Add(6 * time.Second)
	for cache.VerifC04PrefetchClaimed(e1) {
		if time.Now().After(deadline) {
			r.Inconclusive(fmt.Sprintf("gate %d: refresh worker did not finish", idx))
			return
		}
		time.Sleep(100 * time.Microsecond)
	}
	mu.Lock()
	stale, done, rerr := staleGen, refreshDone, refreshErr
	mu.Unlock()
	if !done || rerr != nil {
		r.Count("gate_vacuous_refresh_cancelled", 1)
		return
	}
	r.Eval(1)
	r.Count("gate_scenarios", 1)
	r.Count(fmt.Sprintf("gate_scenarios_variant%d", variant), 1)
	r.Count("gate_scenarios_claim_"+fate, 1)
	var stored uint32
	if e, ok := lookup(); ok {
		stored = entryGenA(e, q)
	}
	final := ask()
	served := replyGen(final)
	gc := gateCase{Mode: "gate", Index: idx, Variant: variant, Fate: fate}
	if idx < len(gatePlans) {
		r.Sample(map[string]any{"gate_scenario": gc, "first_generation": g1, "refresh_generation": stale, "newer_generation": newer,
			"newer_is_withdrawal": newerNXD, "stored_after": stored, "served_after": served})
	}
	switch {
	case variant == 3 && fate == fateLive:
		if stored == stale && served == stale {
			r.Count("gate_control_refresh_applied", 1)
		} else {
			r.Count("gate_control_refresh_not_applied", 1)
		}
	case variant == 3:
		// nothing newer landed and the claim ran out: applying the refresh or
		// dropping it are both within the statement
		if stored == stale {
			r.Count("gate_expired_control_refresh_applied", 1)
		} else {
			r.Count("gate_expired_control_refresh_dropped", 1)
		}
	default:
		if stored == stale || served == stale {
			sig := vlib.Sig("C04", "late-refresh", "stale-refresh-overwrote-newer", fmt.Sprintf("variant%d", variant))
			what := "still live"
			if fate != fateLive {
				sig = vlib.Sig(sig, "claim-expired-"+fate)
				what = "expired in flight (" + fate + ")"
			}
			r.Violation(sig,
				fmt.Sprintf("background refresh (generation %d) started on generation %d and completed after newer state landed for the key (variant %d, newer generation %d, withdrawal=%v; the claimed entry was %s), yet the store holds generation %d and the next reply served generation %d",
					stale, g1, variant, newer, newerNXD, what, stored, served), gc)
			return
		}
		switch {
		case newerNXD:
			if final != nil && final.Rcode == dns.RcodeNameError {
				r.Count("gate_newer_withdrawal_survived", 1)
			}
		case variant == 1:
			if stored == 0 {
				r.Count("gate_withdrawal_survived", 1)
			}
		case served == newer:
			r.Count("gate_newer_data_survived", 1)
		}
		if fate != fateLive {
			r.Count("gate_expired_claim_judged", 1)
			r.Count("gate_expired_claim_judged_"+fate, 1)
		}
		r.Distinct(fmt.Sprintf("gate-v%d-%s", variant, fate))
	}
}

func entryGenA(e *cache.CacheEntry, q dns.Question) uint32 {
	req := new(dns.Msg)
	req.Question = []dns.Question{q}
	req.RecursionDesired = true
	return replyGen(e.ToMsg(req))
}
