package main

// Clause (e), part 2: the deterministic pipeline scenario. A name is kept hot
// until a hit queues a background refresh; the stub GATES that refresh (blocks
// it on a channel) while newer state lands for the same key; then the gate is
// released. The stale refresh must not overwrite the newer state.
//
//	variant 0  purge + client re-query (a newer generation is admitted)
//	variant 1  purge only (the key is withdrawn: the refresh must not resurrect it)
//	variant 2  a client-path write lands directly (Store.SetFromResponseWithKey)
//	variant 3  control: nothing intervenes — the refresh must be applied, which
//	           shows the scenario really exercises a write-back

import (
	"context"
	"fmt"
	"sync"
	"time"

	"github.com/miekg/dns"
	"github.com/semihalev/sdns/middleware/cache"
	"github.com/semihalev/sdns/zzverif/stack"
	"github.com/semihalev/sdns/zzverif/vlib"
)

type gateCase struct {
	Mode    string `json:"mode"`
	Index   int    `json:"index"`
	Variant int    `json:"variant"`
}

func replyGen(m *dns.Msg) uint32 {
	if m == nil {
		return 0
	}
	for _, rr := range m.Answer {
		if g, _, ok := stack.ParseMarker(rr); ok {
			return g
		}
	}
	return 0
}

func runGateScenario(r *vlib.Run, idx int) {
	rng := r.RandN("gate", idx)
	variant := idx % 4
	name := fmt.Sprintf("hot-%d.c04.test.", idx)
	q := dns.Question{Name: name, Qtype: dns.TypeA, Qclass: dns.ClassINET}

	var mu sync.Mutex
	gen := uint32(0)
	var staleGen uint32
	var refreshErr error
	refreshDone := false
	gate := make(chan struct{})
	entered := make(chan struct{}, 4)

	cfg := stack.DefaultConfig()
	cfg.Prefetch = 50
	st, err := stack.New(stack.Options{Config: cfg, Stub: func(_ context.Context, req *stack.StubRequest) *stack.StubReply {
		mu.Lock()
		defer mu.Unlock()
		gen++
		g := gen
		m := new(dns.Msg)
		m.Answer = []dns.RR{stack.MarkerRR(g, req.Q.Name, dns.TypeA, 20)}
		rep := &stack.StubReply{Msg: m}
		if req.Internal && staleGen == 0 {
			staleGen = g
			rep.Gate = gate
			rep.After = func(ctx context.Context, _ *dns.Msg) {
				mu.Lock()
				refreshErr, refreshDone = ctx.Err(), true
				mu.Unlock()
			}
			entered <- struct{}{}
		}
		return rep
	}})
	if err != nil {
		r.Inconclusive("gate: stack.New: " + err.Error())
		return
	}
	defer st.Close()
	released := false
	release := func() {
		if !released {
			released = true
			close(gate)
		}
	}
	defer release()

	ask := func() *dns.Msg {
		m := new(dns.Msg)
		m.SetQuestion(name, dns.TypeA)
		m.SetEdns0(1232, false)
		return st.ServeMsg("203.0.113.7:5300", "udp", m).Msg
	}
	store := st.Cache().VerifStore()
	lookup := func() (*cache.CacheEntry, bool) {
		req := new(dns.Msg)
		req.Question = []dns.Question{q}
		return store.Lookup(req)
	}

	g1 := replyGen(ask())
	e1, ok := lookup()
	if g1 == 0 || !ok {
		r.Inconclusive(fmt.Sprintf("gate %d: first admission not observed", idx))
		return
	}
	if !st.Quiesce(5 * time.Second) {
		r.Inconclusive(fmt.Sprintf("gate %d: no quiescent point", idx))
		return
	}
	st.Cache().VerifAdvance(time.Duration(11+rng.IntN(5)) * time.Second)
	if g := replyGen(ask()); g != g1 {
		r.Count("gate_unexpected_second_reply", 1)
		return
	}
	select {
	case <-entered:
	case <-time.After(3 * time.Second):
		r.Count("gate_refresh_not_started", 1)
		return
	}
	if rng.IntN(2) == 0 {
		time.Sleep(time.Duration(rng.IntN(300)) * time.Microsecond)
	}
	var newer uint32
	switch variant {
	case 0:
		st.Cache().Purge(q)
		newer = replyGen(ask())
	case 1:
		st.Cache().Purge(q)
	case 2:
		mu.Lock()
		gen++
		newer = gen
		mu.Unlock()
		m := new(dns.Msg)
		m.Question = []dns.Question{q}
		m.Response, m.RecursionDesired, m.RecursionAvailable = true, true, true
		m.Answer = []dns.RR{stack.MarkerRR(newer, name, dns.TypeA, 20)}
		store.SetFromResponseWithKey(cache.CacheKey{Question: q}.Hash(), m, time.Time{}, 0)
	}
	if rng.IntN(2) == 0 {
		time.Sleep(time.Duration(rng.IntN(300)) * time.Microsecond)
	}
	release()
	deadline := time.Now().Add(6 * time.Second)
	for cache.VerifC04PrefetchClaimed(e1) {
		if time.Now().After(deadline) {
			r.Inconclusive(fmt.Sprintf("gate %d: refresh worker did not finish", idx))
			return
		}
		time.Sleep(100 * time.Microsecond)
	}
	mu.Lock()
	stale, done, rerr := staleGen, refreshDone, refreshErr
	mu.Unlock()
	if !done || rerr != nil {
		r.Count("gate_vacuous_refresh_cancelled", 1)
		return
	}
	r.Eval(1)
	r.Count("gate_scenarios", 1)
	r.Count(fmt.Sprintf("gate_scenarios_variant%d", variant), 1)
	var stored uint32
	if e, ok := lookup(); ok {
		stored = entryGenA(e, q)
	}
	served := replyGen(ask())
	gc := gateCase{Mode: "gate", Index: idx, Variant: variant}
	switch variant {
	case 3:
		if stored == stale && served == stale {
			r.Count("gate_control_refresh_applied", 1)
		} else {
			r.Count("gate_control_refresh_not_applied", 1)
		}
	default:
		if stored == stale || served == stale {
			r.Violation(vlib.Sig("C04", "late-refresh", "stale-refresh-overwrote-newer", fmt.Sprintf("variant%d", variant)),
				fmt.Sprintf("background refresh (generation %d) started on generation %d and completed after newer state landed for the key (variant %d, newer generation %d), yet the store holds generation %d and the next reply served generation %d",
					stale, g1, variant, newer, stored, served), gc)
			return
		}
		if variant != 1 && served == newer {
			r.Count("gate_newer_data_survived", 1)
		}
		if variant == 1 && stored == 0 {
			r.Count("gate_withdrawal_survived", 1)
		}
		r.Distinct(fmt.Sprintf("gate-v%d", variant))
	}
}

func entryGenA(e *cache.CacheEntry, q dns.Question) uint32 {
	req := new(dns.Msg)
	req.Question = []dns.Question{q}
	req.RecursionDesired = true
	return replyGen(e.ToMsg(req))
}
