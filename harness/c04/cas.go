package main

// Clause (e), part 1: the pointer-CAS late-write guard, decided by porcupine.
//
// Several goroutines drive the real Store concurrently on a few keys:
//
//	Set     Store.SetFromResponseWithKey(key, resp(new generation))     client-path write
//	CAS     Store.ReplaceIfCurrent(key, expected entry, resp(new gen))   background refresh write-back
//	Lookup  Store.Lookup(question) -> generation of the live entry       read
//	Purge   Store.Purge(question)                                         operator purge
//
// Every write carries a unique generation (TXT provenance marker). The recorded
// history (call/return stamps from one monotonic clock) must be linearizable
// against a per-key register with compare-and-swap: CAS(expected -> new)
// succeeds iff the current generation is the expected one. A refresh that
// overwrites newer data shows up as a successful CAS whose expected generation
// was no longer current.

import (
	"fmt"
	"hash/fnv"
	"sort"
	"sync"
	"sync/atomic"
	"time"

	"github.com/anishathalye/porcupine"
	"github.com/miekg/dns"
	"github.com/semihalev/sdns/middleware/cache"
	"github.com/semihalev/sdns/zzverif/stack"
	"github.com/semihalev/sdns/zzverif/vlib"
)

const (
	casSet = iota
	casCAS
	casLookup
	casPurge
)

type casIn struct {
	Op  int    `json:"op"`
	Key int    `json:"key"`
	Exp uint32 `json:"exp,omitempty"` // CAS: generation of the expected entry
	New uint32 `json:"new,omitempty"` // Set / CAS: generation written
}

type casOut struct {
	OK  bool   `json:"ok,omitempty"`  // CAS result
	Gen uint32 `json:"gen,omitempty"` // Lookup result (0 = miss)
}

type casEvent struct {
	Client int    `json:"c"`
	In     casIn  `json:"in"`
	Out    casOut `json:"out"`
	Call   int64  `json:"call"`
	Ret    int64  `json:"ret"`
}

var casModel = porcupine.Model{
	Partition: func(h []porcupine.Operation) [][]porcupine.Operation {
		by := map[int][]porcupine.Operation{}
		for _, o := range h {
			k := o.Input.(casIn).Key
			by[k] = append(by[k], o)
		}
		keys := make([]int, 0, len(by))
		for k := range by {
			keys = append(keys, k)
		}
		sort.Ints(keys)
		out := make([][]porcupine.Operation, 0, len(by))
		for _, k := range keys {
			out = append(out, by[k])
		}
		return out
	},
	Init: func() any { return uint32(0) },
	Step: func(state, input, output any) (bool, any) {
		cur := state.(uint32)
		in, out := input.(casIn), output.(casOut)
		switch in.Op {
		case casSet:
			return true, in.New
		case casCAS:
			if out.OK {
				return cur == in.Exp, in.New
			}
			return cur != in.Exp, cur
		case casLookup:
			return out.Gen == cur, cur
		case casPurge:
			return true, uint32(0)
		}
		return false, cur
	},
	Equal: func(a, b any) bool { return a.(uint32) == b.(uint32) },
	DescribeOperation: func(input, output any) string {
		in, out := input.(casIn), output.(casOut)
		switch in.Op {
		case casSet:
			return fmt.Sprintf("set(k%d,g%d)", in.Key, in.New)
		case casCAS:
			return fmt.Sprintf("cas(k%d,g%d->g%d)=%v", in.Key, in.Exp, in.New, out.OK)
		case casLookup:
			return fmt.Sprintf("lookup(k%d)=g%d", in.Key, out.Gen)
		}
		return fmt.Sprintf("purge(k%d)", in.Key)
	},
}

type casSeen struct {
	e   *cache.CacheEntry
	gen uint32
}

func casResp(q dns.Question, gen uint32) *dns.Msg {
	m := new(dns.Msg)
	m.Question = []dns.Question{q}
	m.Response, m.RecursionDesired, m.RecursionAvailable = true, true, true
	m.Answer = []dns.RR{stack.MarkerRR(gen, q.Name, dns.TypeTXT, 300)}
	return m
}

func entryGen(e *cache.CacheEntry, q dns.Question) uint32 {
	req := new(dns.Msg)
	req.Question = []dns.Question{q}
	req.RecursionDesired = true
	m := e.ToMsg(req)
	if m == nil {
		return 0
	}
	for _, rr := range m.Answer {
		if g, _, ok := stack.ParseMarker(rr); ok {
			return g
		}
	}
	return 0
}

// runCASHistory runs one concurrent history against store and returns it.
func runCASHistory(r *vlib.Run, store *cache.Store, idx, goroutines, opsEach int) []casEvent {
	nkeys := 1 + int(r.RandN("cas-keys", idx).IntN(3))
	qs := make([]dns.Question, nkeys)
	keys := make([]uint64, nkeys)
	for k := range qs {
		qs[k] = dns.Question{Name: fmt.Sprintf("cas-h%d-k%d.c04.test.", idx, k), Qtype: dns.TypeTXT, Qclass: dns.ClassINET}
		keys[k] = cache.CacheKey{Question: qs[k]}.Hash()
	}
	var gen atomic.Uint32
	base := time.Now()
	events := make([][]casEvent, goroutines)
	var wg sync.WaitGroup
	startGate := make(chan struct{})
	for c := 0; c < goroutines; c++ {
		wg.Add(1)
		go func(c int) {
			defer wg.Done()
			rng := r.RandN(fmt.Sprintf("cas-%d", idx), c)
			seen := make([]casSeen, nkeys)
			<-startGate
			for n := 0; n < opsEach; n++ {
				k := rng.IntN(nkeys)
				q := qs[k]
				var ev casEvent
				ev.Client = c
				ev.In.Key = k
				pick := rng.IntN(100)
				switch {
				case pick < 22:
					ev.In.Op = casSet
					ev.In.New = gen.Add(1)
					resp := casResp(q, ev.In.New)
					ev.Call = time.Since(base).Nanoseconds()
					store.SetFromResponseWithKey(keys[k], resp, time.Time{}, 0)
					ev.Ret = time.Since(base).Nanoseconds()
				case pick < 60 && seen[k].e != nil:
					ev.In.Op = casCAS
					ev.In.Exp = seen[k].gen
					ev.In.New = gen.Add(1)
					resp := casResp(q, ev.In.New)
					ev.Call = time.Since(base).Nanoseconds()
					ev.Out.OK = store.ReplaceIfCurrent(keys[k], seen[k].e, resp, time.Time{}, 0)
					ev.Ret = time.Since(base).Nanoseconds()
					seen[k] = casSeen{} // a refresh claims an entry once
				case pick < 92:
					ev.In.Op = casLookup
					req := new(dns.Msg)
					req.Question = []dns.Question{q}
					ev.Call = time.Since(base).Nanoseconds()
					e, ok := store.Lookup(req)
					ev.Ret = time.Since(base).Nanoseconds()
					if ok && e != nil {
						ev.Out.Gen = entryGen(e, q)
						seen[k] = casSeen{e: e, gen: ev.Out.Gen}
					}
				default:
					ev.In.Op = casPurge
					ev.Call = time.Since(base).Nanoseconds()
					store.Purge(q)
					ev.Ret = time.Since(base).Nanoseconds()
				}
				events[c] = append(events[c], ev)
				if rng.IntN(8) == 0 {
					time.Sleep(time.Duration(rng.IntN(20)) * time.Microsecond)
				}
			}
		}(c)
	}
	close(startGate)
	wg.Wait()
	var all []casEvent
	for _, e := range events {
		all = append(all, e...)
	}
	sort.Slice(all, func(i, j int) bool { return all[i].Call < all[j].Call })
	for _, q := range qs {
		store.Purge(q)
	}
	return all
}

func judgeCASHistory(r *vlib.Run, idx int, evs []casEvent) {
	ops := make([]porcupine.Operation, len(evs))
	casOK, casFail, overlaps := 0, 0, 0
	for i, e := range evs {
		ops[i] = porcupine.Operation{ClientId: e.Client, Input: e.In, Call: e.Call, Output: e.Out, Return: e.Ret}
		if e.In.Op == casCAS {
			if e.Out.OK {
				casOK++
			} else {
				casFail++
			}
		}
		if i > 0 && e.Call < evs[i-1].Ret && e.In.Key == evs[i-1].In.Key {
			overlaps++
		}
	}
	res := porcupine.CheckOperationsTimeout(casModel, ops, 20*time.Second)
	r.Eval(1)
	r.Count("cas_histories", 1)
	r.Count("cas_ops", len(evs))
	r.Count("cas_success", casOK)
	r.Count("cas_refused", casFail)
	switch res {
	case porcupine.Ok:
		r.Count("cas_histories_ok", 1)
	case porcupine.Unknown:
		r.Count("cas_histories_unknown", 1)
	case porcupine.Illegal:
		r.Violation("C04/late-refresh/cas-history-not-linearizable",
			fmt.Sprintf("concurrent Store history %d (%d ops) is not linearizable against a register whose ReplaceIfCurrent succeeds only on the current generation", idx, len(evs)),
			map[string]any{"mode": "cas", "index": idx, "events": evs})
	}
	// interleaving identity: the order of call/return events
	type pt struct {
		t  int64
		id int
	}
	pts := make([]pt, 0, 2*len(evs))
	for i, e := range evs {
		pts = append(pts, pt{e.Call, i*2 + 1}, pt{e.Ret, i*2 + 2})
	}
	sort.Slice(pts, func(i, j int) bool { return pts[i].t < pts[j].t })
	h := fnv.New64a()
	for _, p := range pts {
		e := evs[(p.id-1)/2]
		fmt.Fprintf(h, "%d.%d.%d.%d|", e.Client, e.In.Op, e.In.Key, p.id%2)
	}
	r.DistinctIn("interleavings", fmt.Sprintf("%x", h.Sum64()))
	if casOK > 0 && casFail > 0 && overlaps > 0 {
		r.Distinct(fmt.Sprintf("cas-%d", idx))
	}
	if idx == 0 && len(evs) > 12 {
		r.Sample(map[string]any{"cas_history_prefix": evs[:12]})
	}
}
