package main

// Clause (e), part 1: the pointer-CAS late-write guard, decided by porcupine.
//
// Several goroutines drive the real Store concurrently on a few keys:
//
//	Set     Store.SetFromResponseWithKey(key, resp(new generation))     client-path write
//	CAS     Store.ReplaceIfCurrent(key, expected entry, resp(new gen))   background refresh write-back
//	Lookup  Store.Lookup(question) -> generation of the live entry       read
//	Purge   Store.Purge(question)                                         operator purge
//
// Every write carries a unique generation (TXT provenance marker). The recorded
// history (call/return stamps from one monotonic clock) must be linearizable
// against a per-key register with compare-and-swap: CAS(expected -> new)
// succeeds iff the current generation is the expected one. A refresh that
// overwrites newer data shows up as a successful CAS whose expected generation
// was no longer current.
//
// Lifetimes take part: a share of the writes carry a delegation lease of well
// under a few milliseconds (real time), so entries run out in the middle of a
// history. That puts claims that expire while their refresh is "in flight"
// (Lookup ... CAS on the remembered entry) under every interleaving with client
// writes. The model allows what expiry allows and nothing else: a Lookup may
// miss on a short-lived generation (the reader then drops the entry, unless a
// concurrent writer already replaced it — both outcomes are kept, the state is
// a set of possible registers), and a CAS on an expired claim may succeed or
// be refused exactly as on a live one: only while the claim is still the
// current generation.

import (
	"fmt"
	"hash/fnv"
	"sort"
	"sync"
	"sync/atomic"
	"time"

	"github.com/anishathalye/porcupine"
	"github.com/miekg/dns"
	"github.com/semihalev/sdns/middleware/cache"
	"github.com/semihalev/sdns/zzverif/stack"
	"github.com/semihalev/sdns/zzverif/vlib"
)

const (
	casSet = iota
	casCAS
	casLookup
	casPurge
)

type casIn struct {
	Op  int    `json:"op"`
	Key int    `json:"key"`
	Exp uint32 `json:"exp,omitempty"` // CAS: generation of the expected entry
	New uint32 `json:"new,omitempty"` // Set / CAS: generation written
	// Short: the entry written carries a sub-millisecond-scale lease and may
	// run out at any later point of the history
	Short bool `json:"short,omitempty"`
}

type casOut struct {
	OK  bool   `json:"ok,omitempty"`  // CAS result
	Gen uint32 `json:"gen,omitempty"` // Lookup result (0 = miss)
}

type casEvent struct {
	Client int    `json:"c"`
	In     casIn  `json:"in"`
	Out    casOut `json:"out"`
	Call   int64  `json:"call"`
	Ret    int64  `json:"ret"`
	// ClaimExpired (CAS only, not an input of the model): the remembered entry
	// had already run out when the write-back was issued
	ClaimExpired bool `json:"claim_expired,omitempty"`
}

var casModel = porcupine.Model{
	Partition: func(h []porcupine.Operation) [][]porcupine.Operation {
		by := map[int][]porcupine.Operation{}
		for _, o := range h {
			k := o.Input.(casIn).Key
			by[k] = append(by[k], o)
		}
		keys := make([]int, 0, len(by))
		for k := range by {
			keys = append(keys, k)
		}
		sort.Ints(keys)
		out := make([][]porcupine.Operation, 0, len(by))
		for _, k := range keys {
			out = append(out, by[k])
		}
		return out
	},
	Init: func() any { return casState{0} },
	Step: func(state, input, output any) (bool, any) {
		in, out := input.(casIn), output.(casOut)
		var next casState
		for _, c := range state.(casState) {
			cur, short := uint32(c>>1), c&1 == 1
			switch in.Op {
			case casSet:
				next = next.with(casCode(in.New, in.Short))
			case casCAS:
				if out.OK && cur == in.Exp {
					next = next.with(casCode(in.New, in.Short))
				}
				if !out.OK && cur != in.Exp {
					next = next.with(c)
				}
			case casLookup:
				if out.Gen == cur {
					next = next.with(c)
				}
				if out.Gen == 0 && cur != 0 && short {
					// ran out: dropped by this reader, or replaced under it
					next = next.with(0).with(c)
				}
			case casPurge:
				next = next.with(0)
			}
		}
		return len(next) > 0, next
	},
	Equal: func(a, b any) bool {
		x, y := a.(casState), b.(casState)
		if len(x) != len(y) {
			return false
		}
		for i := range x {
			if x[i] != y[i] {
				return false
			}
		}
		return true
	},
	DescribeOperation: func(input, output any) string {
		in, out := input.(casIn), output.(casOut)
		switch in.Op {
		case casSet:
			return fmt.Sprintf("set(k%d,g%d)", in.Key, in.New)
		case casCAS:
			return fmt.Sprintf("cas(k%d,g%d->g%d)=%v", in.Key, in.Exp, in.New, out.OK)
		case casLookup:
			return fmt.Sprintf("lookup(k%d)=g%d", in.Key, out.Gen)
		}
		return fmt.Sprintf("purge(k%d)", in.Key)
	},
}

// casState is the set of registers the key may hold (sorted, unique); a
// register is generation<<1 | short-lived.
type casState []uint64

func casCode(gen uint32, short bool) uint64 {
	c := uint64(gen) << 1
	if short && gen != 0 {
		c |= 1
	}
	return c
}

func (s casState) with(c uint64) casState {
	i := sort.Search(len(s), func(i int) bool { return s[i] >= c })
	if i < len(s) && s[i] == c {
		return s
	}
	out := make(casState, 0, len(s)+1)
	out = append(out, s[:i]...)
	out = append(out, c)
	return append(out, s[i:]...)
}

type casSeen struct {
	e   *cache.CacheEntry
	gen uint32
}

func casResp(q dns.Question, gen uint32) *dns.Msg {
	m := new(dns.Msg)
	m.Question = []dns.Question{q}
	m.Response, m.RecursionDesired, m.RecursionAvailable = true, true, true
	m.Answer = []dns.RR{stack.MarkerRR(gen, q.Name, dns.TypeTXT, 300)}
	return m
}

func entryGen(e *cache.CacheEntry, _ dns.Question) uint32 {
	m := cache.VerifC04EntryMsg(e)
	if m == nil {
		return 0
	}
	for _, rr := range m.Answer {
		if g, _, ok := stack.ParseMarker(rr); ok {
			return g
		}
	}
	return 0
}

// casLease draws the lease of one write: none, or one that ends within the
// history.
func casLease(rng interface{ IntN(int) int }) (time.Time, uint64, bool) {
	if rng.IntN(100) >= 35 {
		return time.Time{}, 0, false
	}
	return time.Now().Add(time.Duration(30+rng.IntN(1500)) * time.Microsecond), 0xC04, true
}

// runCASHistory runs one concurrent history against store and returns it.
func runCASHistory(r *vlib.Run, store *cache.Store, idx, goroutines, opsEach int) []casEvent {
	nkeys := 1 + int(r.RandN("cas-keys", idx).IntN(3))
	qs := make([]dns.Question, nkeys)
	keys := make([]uint64, nkeys)
	for k := range qs {
		qs[k] = dns.Question{Name: fmt.Sprintf("cas-h%d-k%d.c04.test.", idx, k), Qtype: dns.TypeTXT, Qclass: dns.ClassINET}
		keys[k] = cache.CacheKey{Question: qs[k]}.Hash()
	}
	var gen atomic.Uint32
	base := time.Now()
	events := make([][]casEvent, goroutines)
	var wg sync.WaitGroup
	startGate := make(chan struct{})
	for c := 0; c < goroutines; c++ {
		wg.Add(1)
		go func(c int) {
			defer wg.Done()
			rng := r.RandN(fmt.Sprintf("cas-%d", idx), c)
			seen := make([]casSeen, nkeys)
			<-startGate
			for n := 0; n < opsEach; n++ {
				k := rng.IntN(nkeys)
				q := qs[k]
				var ev casEvent
				ev.Client = c
				ev.In.Key = k
				pick := rng.IntN(100)
				switch {
				case pick < 22:
					ev.In.Op = casSet
					ev.In.New = gen.Add(1)
					resp := casResp(q, ev.In.New)
					cutUntil, cutKey, short := casLease(rng)
					ev.In.Short = short
					ev.Call = time.Since(base).Nanoseconds()
					store.SetFromResponseWithKey(keys[k], resp, cutUntil, cutKey)
					ev.Ret = time.Since(base).Nanoseconds()
				case pick < 60 && seen[k].e != nil:
					ev.In.Op = casCAS
					ev.In.Exp = seen[k].gen
					ev.In.New = gen.Add(1)
					resp := casResp(q, ev.In.New)
					ev.ClaimExpired = seen[k].e.IsExpired()
					cutUntil, cutKey, short := casLease(rng)
					ev.In.Short = short
					ev.Call = time.Since(base).Nanoseconds()
					ev.Out.OK = store.ReplaceIfCurrent(keys[k], seen[k].e, resp, cutUntil, cutKey)
					ev.Ret = time.Since(base).Nanoseconds()
					seen[k] = casSeen{} // a refresh claims an entry once
				case pick < 92:
					ev.In.Op = casLookup
					req := new(dns.Msg)
					req.Question = []dns.Question{q}
					ev.Call = time.Since(base).Nanoseconds()
					e, ok := store.Lookup(req)
					ev.Ret = time.Since(base).Nanoseconds()
					if ok && e != nil {
						ev.Out.Gen = entryGen(e, q)
						seen[k] = casSeen{e: e, gen: ev.Out.Gen}
					}
				default:
					ev.In.Op = casPurge
					ev.Call = time.Since(base).Nanoseconds()
					store.Purge(q)
					ev.Ret = time.Since(base).Nanoseconds()
				}
				events[c] = append(events[c], ev)
				if rng.IntN(8) == 0 {
					time.Sleep(time.Duration(rng.IntN(20)) * time.Microsecond)
				}
			}
		}(c)
	}
	close(startGate)
	wg.Wait()
	var all []casEvent
	for _, e := range events {
		all = append(all, e...)
	}
	sort.Slice(all, func(i, j int) bool { return all[i].Call < all[j].Call })
	for _, q := range qs {
		store.Purge(q)
	}
	return all
}

func judgeCASHistory(r *vlib.Run, idx int, evs []casEvent) {
	ops := make([]porcupine.Operation, len(evs))
	casOK, casFail, overlaps := 0, 0, 0
	for i, e := range evs {
		ops[i] = porcupine.Operation{ClientId: e.Client, Input: e.In, Call: e.Call, Output: e.Out, Return: e.Ret}
		if e.In.Op == casCAS {
			if e.Out.OK {
				casOK++
			} else {
				casFail++
			}
			if e.ClaimExpired {
				if e.Out.OK {
					r.Count("cas_expired_claim_success", 1)
				} else {
					r.Count("cas_expired_claim_refused", 1)
				}
			}
		}
		if e.In.Short {
			r.Count("cas_short_lived_writes", 1)
		}
		if i > 0 && e.Call < evs[i-1].Ret && e.In.Key == evs[i-1].In.Key {
			overlaps++
		}
	}
	res := porcupine.CheckOperationsTimeout(casModel, ops, 20*time.Second)
	r.Eval(1)
	r.Count("cas_histories", 1)
	r.Count("cas_ops", len(evs))
	r.Count("cas_success", casOK)
	r.Count("cas_refused", casFail)
	switch res {
	case porcupine.Ok:
		r.Count("cas_histories_ok", 1)
	case porcupine.Unknown:
		r.Count("cas_histories_unknown", 1)
	case porcupine.Illegal:
		r.Violation("C04/late-refresh/cas-history-not-linearizable",
			fmt.Sprintf("concurrent Store history %d (%d ops) is not linearizable against a register whose ReplaceIfCurrent succeeds only on the current generation", idx, len(evs)),
			map[string]any{"mode": "cas", "index": idx, "events": evs})
	}
	// interleaving identity: the order of call/return events
	type pt struct {
		t  int64
		id int
	}
	pts := make([]pt, 0, 2*len(evs))
	for i, e := range evs {
		pts = append(pts, pt{e.Call, i*2 + 1}, pt{e.Ret, i*2 + 2})
	}
	sort.Slice(pts, func(i, j int) bool { return pts[i].t < pts[j].t })
	h := fnv.New64a()
	for _, p := range pts {
		e := evs[(p.id-1)/2]
		fmt.Fprintf(h, "%d.%d.%d.%d|", e.Client, e.In.Op, e.In.Key, p.id%2)
	}
	r.DistinctIn("interleavings", fmt.Sprintf("%x", h.Sum64()))
	if casOK > 0 && casFail > 0 && overlaps > 0 {
		r.Distinct(fmt.Sprintf("cas-%d", idx))
	}
	if idx == 0 && len(evs) > 12 {
		r.Sample(map[string]any{"cas_history_prefix": evs[:12]})
	}
}
