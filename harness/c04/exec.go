package main

// History runner and judge.
//
// One history = one fresh Stack (edns + cache + scripted stub, DNSSEC "on" so
// subtree cuts and RFC 8198 proofs are admitted, optional prefetch, ECS policy
// on). Ops run strictly one at a time; after every query the runner waits for
// the quiescent point (no serve running, stub idle, prefetch queue empty, no
// entry holding a refresh claim), so clock steps never straddle an admission or
// an observation.

import (
	"context"
	"fmt"
	"math"
	"net"
	"sort"
	"strings"
	"sync"
	"time"

	"github.com/miekg/dns"
	"github.com/semihalev/sdns/config"
	"github.com/semihalev/sdns/middleware"
	"github.com/semihalev/sdns/middleware/cache"
	"github.com/semihalev/sdns/zzverif/replycontract"
	"github.com/semihalev/sdns/zzverif/stack"
	"github.com/semihalev/sdns/zzverif/vlib"
)

// observer sits directly in front of the cache on the client pipeline only
// (ClientOnly: excluded from sub-query and prefetch pipelines). After the rest
// of the chain has run it reads the request tree's lifetime bound — the value
// anything derived from this reply would inherit. It never touches the request.
type observer struct{ x **hrun }

func (observer) Name() string     { return "verif-c04-observer" }
func (observer) ClientOnly() bool { return true }
func (o observer) ServeDNS(ctx context.Context, ch *middleware.Chain) {
	ch.Next(ctx)
	x := *o.x
	if x == nil {
		return
	}
	x.obsSeen = true
	x.obsCalls++
	x.obsUndecoded = ch.Request != nil && ch.Request.Undecoded()
	x.obsCut = time.Time{}
	if m := middleware.ResponseMetaFrom(ctx); m != nil {
		x.obsCut, _ = m.Cut()
	}
}

type hrun struct {
	r  *vlib.Run
	h  *history
	st *stack.Stack

	start time.Time
	mu    sync.Mutex
	sumD  time.Duration
	gen   uint32
	calls map[string]int
	opIdx int

	pieces   map[uint32]*piece
	opPieces []*piece
	unknown  int

	latest  map[string]*piece // question key (+scope) -> last top-level admission
	purged  map[string]bool
	lastTTL map[string]uint32

	obsSeen bool
	obsCalls int
	// obsUndecoded: the request was still wire-form when the chain returned, i.e.
	// it was answered (or dropped) without ever being materialised.
	obsUndecoded bool
	obsCut  time.Time

	aborted bool
}

func (x *hrun) vnowLocked() vt { return time.Since(x.start) + x.sumD }
func (x *hrun) vnow() vt {
	x.mu.Lock()
	defer x.mu.Unlock()
	return x.vnowLocked()
}

var curRun *hrun // the observer's window onto the live history

func newStack(x *hrun) (*stack.Stack, error) {
	cfg := stack.DefaultConfig()
	cfg.DNSSEC = "on"
	cfg.Prefetch = uint32(x.h.Prefetch)
	cfg.ECS.Enabled = true
	cfg.ECS.CacheLimitTTL.Duration = time.Duration(x.h.ECSCap) * time.Second
	return stack.New(stack.Options{
		Config: cfg,
		Stub:   x.stub,
		Before: func() {
			middleware.RegisterBefore("verif-c04-observer", func(*config.Config) middleware.Handler { return observer{x: &curRun} }, "cache")
		},
	})
}

func (x *hrun) snapshotEntries() []*cache.CacheEntry {
	var out []*cache.CacheEntry
	x.st.Cache().VerifStore().ForEach(func(_ bool, _ uint64, e *cache.CacheEntry) bool {
		out = append(out, e)
		return true
	})
	return out
}

// quiesce waits for the point where nothing of the op is still running.
func (x *hrun) quiesce(before []*cache.CacheEntry) bool {
	deadline := time.Now().Add(12 * time.Second)
	for {
		if !x.st.Quiesce(10 * time.Second) {
			return false
		}
		busy := false
		for _, e := range before {
			if cache.VerifC04PrefetchClaimed(e) {
				busy = true
			}
		}
		if !busy {
			for _, e := range x.snapshotEntries() {
				if cache.VerifC04PrefetchClaimed(e) {
					busy = true
				}
			}
		}
		if !busy {
			return true
		}
		if time.Now().After(deadline) {
			return false
		}
		time.Sleep(200 * time.Microsecond)
	}
}

func buildQuery(o op, id uint16) *dns.Msg {
	m := new(dns.Msg)
	m.SetQuestion(o.Name, o.Qtype)
	m.Id = id
	m.SetEdns0(1232, o.DO)
	if o.ECS {
		m.IsEdns0().Option = append(m.IsEdns0().Option, &dns.EDNS0_SUBNET{
			Code: dns.EDNS0SUBNET, Family: 1, SourceNetmask: 24, Address: net.ParseIP(ecsNet).To4()})
	}
	return m
}

type recInfo struct {
	rr    dns.RR
	sec   string
	gen   uint32
	role  string // ans | soa | nsec/<owner>
	ok    bool
	fresh bool
	pc    *piece
	d     vt
	store string
}

func attribute(m *dns.Msg) []recInfo {
	var out []recInfo
	nsecGen := map[string]uint32{}
	for _, sec := range [][]dns.RR{m.Answer, m.Ns, m.Extra} {
		for _, rr := range sec {
			if s, ok := rr.(*dns.RRSIG); ok && s.TypeCovered == dns.TypeNSEC {
				nsecGen[dns.CanonicalName(s.Hdr.Name)] = uint32(s.KeyTag)
			}
		}
	}
	add := func(sec string, rrs []dns.RR) {
		for _, rr := range rrs {
			ri := recInfo{rr: rr, sec: sec}
			switch v := rr.(type) {
			case *dns.OPT:
				continue
			case *dns.CNAME:
				ri.gen, ri.ok = decodeGenCase(v.Target)
				ri.role = "ans"
			case *dns.SOA:
				ri.gen, ri.ok, ri.role = v.Serial, true, "soa"
			case *dns.RRSIG:
				ri.gen, ri.ok = uint32(v.KeyTag), true
				switch v.TypeCovered {
				case dns.TypeSOA:
					ri.role = "soa"
				case dns.TypeNSEC:
					ri.role = "nsec/" + dns.CanonicalName(v.Hdr.Name)
				default:
					ri.role = "ans"
				}
			case *dns.NSEC:
				o := dns.CanonicalName(v.Hdr.Name)
				ri.gen, ri.ok = nsecGen[o]
				ri.role = "nsec/" + o
			default:
				if g, _, ok := stack.ParseMarker(rr); ok {
					ri.gen, ri.ok, ri.role = g, true, "ans"
				}
			}
			out = append(out, ri)
		}
	}
	add("an", m.Answer)
	add("ns", m.Ns)
	add("ar", m.Extra)
	return out
}

func ceilSec(d time.Duration) int64 {
	if d <= 0 {
		return 0
	}
	return int64((d + time.Second - 1) / time.Second)
}

func (x *hrun) violation(sig, what string, opIndex int, extra map[string]any) {
	c := map[string]any{"mode": "history", "history": x.h, "failed_op": opIndex}
	for k, v := range extra {
		c[k] = v
	}
	x.r.Violation(sig, what, c)
}

// runHistory executes h and judges every reply. It returns false when the
// history could not be completed (harness problem: inconclusive, no verdict).
func runHistory(r *vlib.Run, h *history) bool {
	x := &hrun{r: r, h: h, calls: map[string]int{}, pieces: map[uint32]*piece{},
		latest: map[string]*piece{}, purged: map[string]bool{}, lastTTL: map[string]uint32{}}
	st, err := newStack(x)
	if err != nil {
		r.Inconclusive("stack.New: " + err.Error())
		return false
	}
	x.st = st
	x.start = time.Now()
	curRun = x
	defer func() { curRun = nil; st.Close() }()
	if st.Cache() == nil {
		r.Inconclusive("no cache in chain")
		return false
	}
	rng := r.RandN("exec", h.Index)
	nontrivial := map[string]bool{}
	for i, o := range h.Ops {
		x.mu.Lock()
		x.opIdx = i
		x.opPieces = nil
		x.mu.Unlock()
		switch o.Kind {
		case "adv":
			d := time.Duration(o.Adv * float64(time.Second))
			st.Cache().VerifAdvance(d)
			x.mu.Lock()
			x.sumD += d
			x.mu.Unlock()
			r.Count("clock_steps", 1)
		case "purge":
			st.Cache().Purge(dns.Question{Name: dns.CanonicalName(o.Name), Qtype: o.Qtype, Qclass: dns.ClassINET})
			x.purged[qk(o.Name, o.Qtype)] = true
			x.purged[qk(o.Name, o.Qtype)+"+scoped"] = true
			r.Count("purges", 1)
		case "q":
			if !x.query(i, o, uint16(rng.IntN(65536)), nontrivial) {
				return false
			}
		}
		if x.aborted {
			return false
		}
	}
	if x.unknown > 0 {
		r.Count("stub_unknown_questions", x.unknown)
	}
	r.Count("histories", 1)
	r.Count("ops", len(h.Ops))
	if len(nontrivial) >= 2 {
		ks := make([]string, 0, len(nontrivial))
		for k := range nontrivial {
			ks = append(ks, k)
		}
		sort.Strings(ks)
		r.Distinct(fmt.Sprintf("h%d:%s", h.Index, strings.Join(ks, ",")))
	}
	return true
}

func (x *hrun) query(i int, o op, id uint16, nontrivial map[string]bool) bool {
	r, st := x.r, x.st
	qm := buildQuery(o, id)
	pkt, err := qm.Pack()
	if err != nil {
		r.Inconclusive("pack query: " + err.Error())
		return false
	}
	client := "203.0.113.9:4000"
	before := x.snapshotEntries()
	c0 := cache.VerifC04Counters()
	x.obsSeen, x.obsCut, x.obsCalls = false, time.Time{}, 0
	o0 := x.vnow()

	var res stack.Result
	transport, wireBorn := "udp", false
	switch o.Route {
	case "msg-udp":
		res = st.ServeMsg(client, "udp", qm)
	case "msg-tcp":
		transport = "tcp"
		res = st.ServeMsg(client, "tcp", qm)
	case "msg-doh":
		transport = "doh"
		res = st.ServeMsg(client, "doh", qm)
	case "wire-tcp":
		transport, wireBorn = "tcp", true
		res = st.ServeRaw(client, "tcp", pkt)
	case "engine":
		wireBorn = true
		res, _ = st.ServeRawLikeEngine(stack.NewJob(client, "udp"), pkt)
	default:
		wireBorn = true
		res = st.ServeRaw(client, "udp", pkt)
	}
	obsCut := x.obsCut
	obsSeen := x.obsSeen
	undecoded := x.obsUndecoded
	if !x.quiesce(before) {
		r.Inconclusive(fmt.Sprintf("history %d op %d: no quiescent point reached", x.h.Index, i))
		return false
	}
	o1 := x.vnow()
	c1 := cache.VerifC04Counters()
	d := func(k string) int64 { return c1[k] - c0[k] }

	x.mu.Lock()
	fresh := append([]*piece(nil), x.opPieces...)
	x.mu.Unlock()

	if res.Panic != nil {
		x.violation("C04/panic/serve", fmt.Sprintf("panic while serving: %v", res.Panic), i, nil)
		return false
	}
	r.Count("queries", 1)
	if !res.Wrote || res.Msg == nil {
		r.Count("queries_without_reply", 1)
		x.finalize(fresh, nil, o, o1)
		return true
	}
	if res.Writes > 1 {
		r.Count("multi_write_replies", 1)
	}
	if br := replycontract.Check(transport, pkt, res.Raw, replycontract.Options{}); len(br) > 0 {
		for _, b := range br {
			if !b.Info {
				r.Count("contract_breaches", 1)
			}
		}
	}
	reply := res.Msg
	if reply.Truncated {
		r.Count("truncated_replies", 1)
		x.finalize(fresh, nil, o, o1)
		return true
	}

	// ---- route attribution from the cache's own counters
	cutHit := d("cut_hits") > 0
	proofHit := d("proof_nsec_nx")+d("proof_nsec_nodata") > 0
	// served by the wire ladder proper: the request never left its wire form
	wireServed := wireBorn && undecoded && d("wire_served")+d("wire_chase_served")+d("wire_cut_served") > 0

	recs := attribute(reply)
	isFresh := map[uint32]bool{}
	for _, p := range fresh {
		isFresh[p.Gen] = true
	}
	var top *piece
	for k := range recs {
		ri := &recs[k]
		if !ri.ok {
			r.Count("unattributed_records", 1)
			continue
		}
		ri.pc = x.pieces[ri.gen]
		if ri.pc == nil {
			ri.ok = false
			r.Count("unattributed_records", 1)
			continue
		}
		ri.fresh = isFresh[ri.gen]
		if top == nil && ri.sec == "an" {
			top = ri.pc
		}
	}

	// ---- deadline of every cached record, judged against its own piece
	qkey := qk(o.Name, o.Qtype)
	if o.ECS {
		qkey += "+ecs"
	}
	cached := 0
	minD := vt(math.MaxInt64)
	routeClass := "miss"
	for k := range recs {
		ri := &recs[k]
		if !ri.ok || ri.fresh {
			continue
		}
		pc := ri.pc
		switch {
		case ri.role == "ans":
			ri.d, ri.store = pc.exactD(), "exact"
		case cutHit:
			ri.d, ri.store = pc.cutD(), "cut"
		case proofHit && ri.role == "soa":
			ri.d, ri.store = pc.soaD(), "proof"
		case proofHit:
			ri.d, ri.store = pc.nsecD(strings.TrimPrefix(ri.role, "nsec/")), "proof"
		default:
			// negative records out of an answer-cache entry: the entry is the
			// question's own (a re-cached composition carries the terminal's SOA)
			// or the terminal's own exact entry — take the later of the two.
			ri.d, ri.store = pc.exactD(), "exact"
			if top != nil && top != pc && !isFresh[top.Gen] {
				if td := top.exactD(); td > ri.d {
					ri.d = td
				}
				ri.store = "recached"
			}
		}
		cached++
		if ri.d < minD {
			minD = ri.d
		}
		ttl := ri.rr.Header().Ttl
		what := fmt.Sprintf("%s %s gen %d (%s, %s store) in reply to %s via %s", dns.TypeToString[ri.rr.Header().Rrtype], ri.rr.Header().Name, ri.gen, pc.Kind, ri.store, qkey, o.Route)
		r.Eval(1)
		r.Count("records_judged_"+ri.store, 1)
		if o0 >= ri.d {
			x.violation(vlib.Sig("C04", "served-past-lifetime", ri.store, pc.Kind),
				fmt.Sprintf("%s served at virtual %.3fs, %.3fs after the latest instant its lifetime allows (%.3fs)", what, o0.Seconds(), (o0-ri.d).Seconds(), ri.d.Seconds()),
				i, map[string]any{"record": ri.rr.String(), "deadline_s": ri.d.Seconds(), "observed_s": o0.Seconds()})
		} else if int64(ttl) > ceilSec(ri.d-o0) {
			x.violation(vlib.Sig("C04", "ttl-exceeds-remaining", ri.store, pc.Kind),
				fmt.Sprintf("%s shown with TTL %d but at most %d s remain (deadline %.3fs, observed from %.3fs)", what, ttl, ceilSec(ri.d-o0), ri.d.Seconds(), o0.Seconds()),
				i, map[string]any{"record": ri.rr.String(), "deadline_s": ri.d.Seconds(), "observed_s": o0.Seconds()})
		}
		mk := fmt.Sprintf("%s|%s|%d|%s|%s", qkey, ri.store, ri.gen, ri.role, dns.TypeToString[ri.rr.Header().Rrtype])
		if ri.store == "recached" {
			// the stored entry is the question's own composition: same terminal
			// generation under a different alias generation is a different entry
			mk += fmt.Sprintf("|top%d", top.Gen)
		}
		if last, ok := x.lastTTL[mk]; ok {
			r.Count("ttl_pairs_compared", 1)
			if ttl > last {
				x.violation(vlib.Sig("C04", "ttl-grew", ri.store, pc.Kind),
					fmt.Sprintf("%s shown with TTL %d after an earlier hit on the same stored generation showed %d", what, ttl, last), i,
					map[string]any{"record": ri.rr.String()})
			}
		}
		x.lastTTL[mk] = ttl
		r.Count("ttl_observations", 1)
		if pc.HasLease && pc.Lease < pc.A1+clampDur(pc.RawL) {
			r.Count("lease_bounded_serves", 1)
			r.Count("lease_bounded_serves_"+ri.store, 1)
		}
		if pc.HasHard && (!pc.HasLease || pc.Hard < pc.Lease) && pc.Hard < pc.A1+clampDur(pc.RawL) {
			r.Count("inherited_deadline_bounded_serves", 1)
		}
		if pc.ECSCap > 0 && pc.ECSCap < clampDur(pc.RawL) {
			r.Count("ecs_cap_bounded_serves", 1)
		}
		if pc.RawL < floorTTL {
			r.Count("floored_entry_serves", 1)
		}
	}

	// ---- which route produced the reply
	hasCNAME := false
	gens := map[uint32]bool{}
	for _, ri := range recs {
		if ri.ok && !ri.fresh {
			gens[ri.gen] = true
		}
		if _, ok := ri.rr.(*dns.CNAME); ok {
			hasCNAME = true
		}
	}
	switch {
	case cached == 0:
		routeClass = "miss"
	case wireServed && d("wire_chase_served") > 0:
		routeClass = "chase-wire"
	case wireServed && d("wire_cut_served") > 0:
		routeClass = "cut-wire"
	case wireServed:
		routeClass = "exact-wire"
	case cutHit && !hasCNAME:
		routeClass = "cut-msg"
	case proofHit && !hasCNAME:
		routeClass = "proof-msg"
	case hasCNAME && (cutHit || proofHit):
		routeClass = "chase-into-denial"
	case hasCNAME && len(gens) >= 2:
		routeClass = "chase-msg"
	case hasCNAME && len(fresh) > 0:
		routeClass = "chase-msg-partial"
	case d("wire_served") > 0:
		routeClass = "exact-msg-bytes" // decoded request, stored bytes written through WriteWire
	default:
		routeClass = "exact-msg"
	}
	r.Count("replies_"+routeClass, 1)
	if wireBorn {
		r.Count("replies_wire_born", 1)
	}
	if o.Route == "engine" && wireServed {
		r.Count("replies_engine_inline", 1)
	}
	if cached > 0 {
		r.Count("replies_judged", 1)
		nontrivial[routeClass] = true
		for _, ri := range recs {
			if ri.ok && !ri.fresh && ri.store == "recached" {
				r.Count("replies_from_recached_composition", 1)
				nontrivial["recached"] = true
				break
			}
		}
	}

	// ---- request-tree bound: whatever is derived from this reply inherits at
	// most the shortest lifetime among the cached pieces it was built from.
	// Observable on decoded-born requests and on wire-born requests that were
	// answered without materialising (afterwards the chain continues on a
	// detached copy of the meta the observer cannot see).
	if cached > 0 && obsSeen && (!wireBorn || wireServed) {
		r.Count("request_bounds_checked", 1)
		r.Count("request_bounds_checked_"+routeClass, 1)
		x.mu.Lock()
		sum := x.sumD
		x.mu.Unlock()
		if obsCut.IsZero() {
			x.violation(vlib.Sig("C04", "lineage", "request-unbounded", routeClass),
				fmt.Sprintf("reply to %s via %s was built from cached pieces but left the request tree without a lifetime bound: anything derived from it would outlive them", qkey, o.Route), i, nil)
		} else if bv := obsCut.Sub(x.start) + sum; bv > minD {
			x.violation(vlib.Sig("C04", "lineage", "request-bound-exceeds-piece", routeClass),
				fmt.Sprintf("reply to %s via %s: request-tree bound %.3fs is later than the shortest cached piece's deadline %.3fs", qkey, o.Route, bv.Seconds(), minD.Seconds()), i, nil)
		}
	}

	x.finalize(fresh, recs, o, o1)

	// ---- bookkeeping: expired-entry misses
	lk := qk(o.Name, o.Qtype)
	if top != nil && isFresh[top.Gen] || (top == nil && len(fresh) > 0 && !fresh[0].Internal) {
		for _, k := range []string{lk, lk + "+scoped"} {
			if prev := x.latest[k]; prev != nil && !x.purged[k] && prev.Final && o0 >= prev.exactD() {
				r.Count("expired_entry_misses", 1)
				nontrivial["expired-miss"] = true
				break
			}
		}
	}
	for _, p := range fresh {
		if p.QName == dns.CanonicalName(o.Name) && p.QType == o.Qtype {
			k := lk
			if p.ECSCap > 0 {
				k += "+scoped"
			}
			x.latest[k] = p
			delete(x.purged, k)
		}
	}
	return true
}

// finalize closes the admission window of every piece issued during the op and
// folds in what it inherits: its own lease, the lease of everything freshly
// resolved downstream of it, and the deadline of every cached piece downstream.
func (x *hrun) finalize(fresh []*piece, recs []recInfo, o op, o1 vt) {
	if len(fresh) == 0 {
		return
	}
	r := x.r
	pos := map[uint32]int{} // generation -> index of its first record in the reply
	for k, ri := range recs {
		if ri.ok {
			if _, seen := pos[ri.gen]; !seen {
				pos[ri.gen] = k
			}
		}
	}
	var scopedNames map[string]bool
	for _, p := range fresh {
		p.A1 = o1
		hard, has := vt(0), false
		fold := func(d vt) {
			if !has || d < hard {
				hard, has = d, true
			}
		}
		if p.HasLease {
			fold(p.Lease)
		}
		if first, in := pos[p.Gen]; in {
			for k := first; k < len(recs); k++ {
				ri := recs[k]
				if !ri.ok || ri.gen == p.Gen {
					continue
				}
				if ri.fresh {
					if ri.pc.HasLease {
						fold(ri.pc.Lease)
					}
				} else {
					fold(ri.d)
				}
			}
		} else {
			p.Internal = true
			r.Count("admissions_background_refresh", 1)
		}
		p.Hard, p.HasHard = hard, has
		if p.SawECS {
			if scopedNames == nil {
				scopedNames = map[string]bool{}
				for _, e := range x.st.Cache().VerifStore().VerifDump() {
					if e.Scope != "" {
						scopedNames[dns.CanonicalName(e.Question)] = true
					}
				}
			}
			if scopedNames[p.QName] {
				p.ECSCap = time.Duration(x.h.ECSCap) * time.Second
				r.Count("admissions_scoped", 1)
			}
		}
		p.Final = true
		r.Count("admissions", 1)
		kind := p.Kind
		if p.Kind == kindZone {
			kind = "zone-nodata"
			if p.NX {
				kind = "zone-nxdomain"
			}
		}
		r.Count("admissions_"+kind, 1)
		if p.HasLease {
			r.Count("admissions_with_lease", 1)
		}
		if has && (!p.HasLease || hard < p.Lease) {
			r.Count("admissions_inheriting_cached_piece", 1)
		}
	}
	_ = o
}
