package main

// The scripted upstream of a history and the oracle's record of what it sent.
// Every stub answer is one generation; the piece records, from the bytes the
// stub built, every bound the property lets the cache apply to it.

import (
	"context"
	"math"
	"strings"
	"time"

	"github.com/miekg/dns"
	"github.com/semihalev/sdns/middleware"
	"github.com/semihalev/sdns/zzverif/stack"
)

// vt is virtual time: monotonic real time since the history started plus the sum
// of all clock steps.
type vt = time.Duration

const (
	floorTTL = 5 * time.Second
	capTTL   = 24 * time.Hour
)

type piece struct {
	Gen      uint32
	Kind     string
	QName    string // canonical question name the stub answered
	QType    uint16
	Internal bool // sub-query or background refresh
	SawECS   bool // the stub saw (and scoped) a client subnet
	Op       int  // op index during which it was issued
	A0, A1   vt   // admission window
	Final    bool

	RawL     time.Duration // min(record TTLs, RRSIG time-to-end, SOA negative TTL) as sent, unclamped
	HasLease bool
	Lease    vt            // virtual instant the delegation lease ends
	HasHard  bool          // lease and inherited deadlines folded (set when the op ends)
	Hard     vt            //
	ECSCap   time.Duration // >0 when the entry was stored under a client-subnet scope

	// validated denial (signed zone)
	Proof   bool
	NX      bool
	Zone    string
	Subject string
	SOAL    time.Duration            // SOA + its RRSIG
	NSECL   map[string]time.Duration // per NSEC owner: SOA part + that NSEC RRset + its RRSIG
	CutL    time.Duration            // everything in the proof
}

func clampDur(d time.Duration) time.Duration {
	if d < floorTTL {
		return floorTTL
	}
	if d > capTTL {
		return capTTL
	}
	return d
}

func minDur(a, b time.Duration) time.Duration {
	if b < a {
		return b
	}
	return a
}

func secs(n uint32) time.Duration { return time.Duration(n) * time.Second }

// exactD: deadline of the answer-cache entry admitted from this piece.
func (p *piece) exactD() vt {
	l := clampDur(p.RawL)
	if p.ECSCap > 0 && p.ECSCap < l {
		l = p.ECSCap
	}
	d := p.A1 + l
	if p.HasHard && p.Hard < d {
		d = p.Hard
	}
	return d
}

// lease-only bound (cuts and proofs: no floor, no inheritance needed for an upper bound)
func (p *piece) leased(d vt) vt {
	if p.HasLease && p.Lease < d {
		return p.Lease
	}
	return d
}

func (p *piece) cutD() vt { return p.leased(p.A1 + p.CutL) }
func (p *piece) soaD() vt { return p.leased(p.A1 + p.SOAL) }
func (p *piece) nsecD(owner string) vt {
	l, ok := p.NSECL[owner]
	if !ok {
		l = p.CutL
	}
	return p.leased(p.A1 + l)
}

func mkSig(owner string, covered uint16, ttl uint32, signer string, gen uint32, endsIn uint32) *dns.RRSIG {
	now := time.Now()
	return &dns.RRSIG{
		Hdr:         dns.RR_Header{Name: owner, Rrtype: dns.TypeRRSIG, Class: dns.ClassINET, Ttl: ttl},
		TypeCovered: covered, Algorithm: 13, Labels: uint8(dns.CountLabel(owner)), OrigTtl: ttl,
		Expiration: uint32(now.Unix()) + endsIn, Inception: uint32(now.Add(-time.Hour).Unix()),
		KeyTag: uint16(gen), SignerName: signer, Signature: "c2lnbmF0dXJl",
	}
}

func (x *hrun) findSpec(name string) *nameSpec {
	for i := range x.h.Names {
		s := &x.h.Names[i]
		if s.Kind == kindZone {
			if dns.IsSubDomain(s.Name, name) {
				return s
			}
			continue
		}
		if s.Name == name {
			return s
		}
	}
	return nil
}

// stub answers one request that fell off the end of the chain.
func (x *hrun) stub(_ context.Context, req *stack.StubRequest) *stack.StubReply {
	x.mu.Lock()
	defer x.mu.Unlock()
	name := dns.CanonicalName(req.Q.Name)
	spec := x.findSpec(name)
	if spec == nil || req.Q.Qclass != dns.ClassINET {
		x.unknown++
		return &stack.StubReply{Rcode: dns.RcodeRefused}
	}
	x.gen++
	g := x.gen
	p := spec.Params[x.calls[spec.Name]%len(spec.Params)]
	x.calls[spec.Name]++
	pc := &piece{Gen: g, Kind: spec.Kind, QName: name, QType: req.Q.Qtype, Internal: req.Internal, Op: x.opIdx, A0: x.vnowLocked()}
	raw := time.Duration(math.MaxInt64)
	bound := func(d time.Duration) {
		if d < raw {
			raw = d
		}
	}
	m := new(dns.Msg)
	rep := &stack.StubReply{Msg: m}
	owner := req.Q.Name // keep the asker's spelling, like a resolver echoing the question
	switch spec.Kind {
	case kindPos, kindECS:
		if rr := stack.MarkerRR(g, owner, req.Q.Qtype, p.TTL); rr != nil {
			m.Answer = append(m.Answer, rr)
			bound(secs(p.TTL))
			if p.SigExp > 0 {
				m.Answer = append(m.Answer, mkSig(owner, req.Q.Qtype, p.TTL, posZone, g, p.SigExp))
				bound(secs(p.SigExp))
				m.AuthenticatedData = true
			}
			if p.TTL2 > 0 {
				m.Extra = append(m.Extra, stack.MarkerRR(g, "glue-"+owner, dns.TypeA, p.TTL2))
				bound(secs(p.TTL2))
			}
		} else {
			bound(floorTTL) // empty NOERROR: the cache keeps it for its minimum
		}
		if spec.Kind == kindECS && req.ECS != nil {
			rep.HasECSScope, rep.ECSScope = true, 24
			pc.SawECS = true
		}
	case kindAlias:
		m.Answer = append(m.Answer, &dns.CNAME{
			Hdr:    dns.RR_Header{Name: owner, Rrtype: dns.TypeCNAME, Class: dns.ClassINET, Ttl: p.TTL},
			Target: encodeGenCase(spec.Target, g)})
		bound(secs(p.TTL))
		if p.SigExp > 0 {
			m.Answer = append(m.Answer, mkSig(owner, dns.TypeCNAME, p.TTL, posZone, g, p.SigExp))
			bound(secs(p.SigExp))
		}
	case kindNXD, kindNoData:
		if spec.Kind == kindNXD {
			m.Rcode = dns.RcodeNameError
		}
		m.Ns = append(m.Ns, &dns.SOA{Hdr: dns.RR_Header{Name: negZone, Rrtype: dns.TypeSOA, Class: dns.ClassINET, Ttl: p.SOATTL},
			Ns: "ns." + negZone, Mbox: "h." + negZone, Serial: g, Refresh: 7200, Retry: 900, Expire: 86400, Minttl: p.SOAMin})
		bound(secs(p.SOATTL))
		bound(secs(p.SOAMin))
	case kindZone:
		zone := spec.Name
		mname := "m." + zone
		soa := &dns.SOA{Hdr: dns.RR_Header{Name: zone, Rrtype: dns.TypeSOA, Class: dns.ClassINET, Ttl: p.SOATTL},
			Ns: "ns." + zone, Mbox: "h." + zone, Serial: g, Refresh: 7200, Retry: 900, Expire: 86400, Minttl: p.SOAMin}
		s0 := &dns.NSEC{Hdr: dns.RR_Header{Name: zone, Rrtype: dns.TypeNSEC, Class: dns.ClassINET, Ttl: p.TTL2}, NextDomain: mname,
			TypeBitMap: []uint16{dns.TypeNS, dns.TypeSOA, dns.TypeRRSIG, dns.TypeNSEC, dns.TypeDNSKEY}}
		s1 := &dns.NSEC{Hdr: dns.RR_Header{Name: mname, Rrtype: dns.TypeNSEC, Class: dns.ClassINET, Ttl: p.TTL2}, NextDomain: zone,
			TypeBitMap: []uint16{dns.TypeA, dns.TypeRRSIG, dns.TypeNSEC}}
		m.Ns = append(m.Ns, soa, mkSig(zone, dns.TypeSOA, p.SOATTL, zone, g, p.SigExp))
		pc.Proof, pc.Zone = true, zone
		pc.SOAL = minDur(minDur(secs(p.SOATTL), secs(p.SOAMin)), secs(p.SigExp))
		nsecL := minDur(pc.SOAL, minDur(secs(p.TTL2), secs(p.SigExp2)))
		pc.NSECL = map[string]time.Duration{}
		addNSEC := func(n *dns.NSEC) {
			m.Ns = append(m.Ns, n, mkSig(n.Hdr.Name, dns.TypeNSEC, p.TTL2, zone, g, p.SigExp2))
			pc.NSECL[n.Hdr.Name] = nsecL
		}
		if name == mname {
			pc.Subject = name
			addNSEC(s1)
		} else {
			m.Rcode = dns.RcodeNameError
			pc.NX = true
			pc.Subject = subjectOf(name, zone)
			first := strings.TrimSuffix(pc.Subject, "."+zone)
			if first > "m" {
				addNSEC(s1)
			}
			addNSEC(s0)
		}
		pc.CutL = nsecL
		bound(nsecL)
		m.AuthenticatedData = true
		rep.Negative = &middleware.ValidatedNegativeProof{Subject: pc.Subject, Zone: zone,
			Kind: middleware.ValidatedNegativeProofNSEC, Aggressive: true}
	}
	pc.RawL = raw
	if p.Lease > 0 {
		d := time.Duration(p.Lease * float64(time.Second))
		now := time.Now()
		rep.CutUntil = now.Add(d)
		rep.CutKey = uint64(g)
		pc.HasLease = true
		pc.Lease = now.Sub(x.start) + x.sumD + d
	}
	if req.OPT != nil {
		// echo the OPT like the resolver does, minus the client-subnet option
		// (the stack library answers that one itself, with the scope)
		opt := dns.Copy(req.OPT).(*dns.OPT)
		kept := opt.Option[:0]
		for _, o := range opt.Option {
			if _, isECS := o.(*dns.EDNS0_SUBNET); !isECS {
				kept = append(kept, o)
			}
		}
		opt.Option = kept
		m.Extra = append(m.Extra, opt)
	}
	x.pieces[g] = pc
	x.opPieces = append(x.opPieces, pc)
	return rep
}
