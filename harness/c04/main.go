package main

import (
	"context"
	"fmt"
	"time"

	"github.com/miekg/dns"
	"github.com/semihalev/sdns/config"
	"github.com/semihalev/sdns/middleware"
	"github.com/semihalev/sdns/middleware/cache"
	"github.com/semihalev/sdns/zzverif/stack"
)

type obs struct{}

func (obs) Name() string     { return "verif-c04-obs" }
func (obs) ClientOnly() bool { return true }

var lastCut time.Time
var lastHas bool

func (obs) ServeDNS(ctx context.Context, ch *middleware.Chain) {
	ch.Next(ctx)
	m := middleware.ResponseMetaFrom(ctx)
	lastHas = m != nil
	if m != nil {
		lastCut, _ = m.Cut()
	}
}

func q(name string, t uint16, do bool) *dns.Msg {
	m := new(dns.Msg)
	m.SetQuestion(name, t)
	m.SetEdns0(1232, do)
	return m
}

func show(tag string, r stack.Result) {
	fmt.Printf("== %s wrote=%v strict=%v handled=%v cut=%v has=%v\n", tag, r.Wrote, r.Strict, r.Handled, lastCut.Sub(time.Now()), lastHas)
	if r.Msg != nil {
		fmt.Println(r.Msg.String())
	}
	fmt.Println(cache.VerifC04Counters())
}


func sig(owner string, covered uint16, ttl uint32, zone string, gen uint16, exp time.Duration) *dns.RRSIG {
	now := time.Now()
	return &dns.RRSIG{Hdr: dns.RR_Header{Name: owner, Rrtype: dns.TypeRRSIG, Class: 1, Ttl: ttl}, TypeCovered: covered, Algorithm: 13,
		Labels: uint8(dns.CountLabel(owner)), OrigTtl: ttl, Expiration: uint32(now.Add(exp).Unix()), Inception: uint32(now.Add(-time.Hour).Unix()),
		KeyTag: gen, SignerName: zone, Signature: "AAAA"}
}

func main() {
	cfg := stack.DefaultConfig()
	cfg.DNSSEC = "on"
	cfg.ECS.Enabled = true
	cfg.ECS.CacheLimitTTL.Duration = 30 * time.Second
	gen := uint32(0)
	zone := "z1.test."
	st := stack.MustNew(stack.Options{Config: cfg,
		Before: func() {
			middleware.RegisterBefore("verif-c04-obs", func(*config.Config) middleware.Handler { return obs{} }, "cache")
		},
		Stub: func(ctx context.Context, req *stack.StubRequest) *stack.StubReply {
			gen++
			fmt.Printf("STUB %s type %d internal=%v do=%v id=%d ecs=%v\n", req.Q.Name, req.Q.Qtype, req.Internal, req.DO, req.ID, req.ECS)
			m := new(dns.Msg)
			name := dns.CanonicalName(req.Q.Name)
			if dns.IsSubDomain(zone, name) {
				g := uint16(gen)
				soa := &dns.SOA{Hdr: dns.RR_Header{Name: zone, Rrtype: dns.TypeSOA, Class: 1, Ttl: 100}, Ns: "ns." + zone, Mbox: "h." + zone, Serial: gen, Refresh: 1, Retry: 1, Expire: 1, Minttl: 60}
				n0 := &dns.NSEC{Hdr: dns.RR_Header{Name: zone, Rrtype: dns.TypeNSEC, Class: 1, Ttl: 40}, NextDomain: "m." + zone, TypeBitMap: []uint16{dns.TypeNS, dns.TypeSOA, dns.TypeRRSIG, dns.TypeNSEC, dns.TypeDNSKEY}}
				n1 := &dns.NSEC{Hdr: dns.RR_Header{Name: "m." + zone, Rrtype: dns.TypeNSEC, Class: 1, Ttl: 30}, NextDomain: zone, TypeBitMap: []uint16{dns.TypeA, dns.TypeRRSIG, dns.TypeNSEC}}
				m.Ns = []dns.RR{soa, sig(zone, dns.TypeSOA, 100, zone, g, time.Hour), n0, sig(zone, dns.TypeNSEC, 40, zone, g, time.Hour)}
				m.AuthenticatedData = true
				if name == "m."+zone {
					m.Ns = []dns.RR{soa, sig(zone, dns.TypeSOA, 100, zone, g, time.Hour), n1, sig("m."+zone, dns.TypeNSEC, 30, zone, g, time.Hour)}
					return &stack.StubReply{Msg: m, Negative: &middleware.ValidatedNegativeProof{Subject: name, Zone: zone, Kind: middleware.ValidatedNegativeProofNSEC, Aggressive: true}}
				}
				m.Rcode = dns.RcodeNameError
				labels := dns.SplitDomainName(name)
				subj := labels[len(labels)-3] + "." + zone
				if name > "m."+zone {
					m.Ns = append(m.Ns, n1, sig("m."+zone, dns.TypeNSEC, 30, zone, g, time.Hour))
				}
				return &stack.StubReply{Msg: m, CutUntil: time.Now().Add(25 * time.Second), Negative: &middleware.ValidatedNegativeProof{Subject: subj, Zone: zone, Kind: middleware.ValidatedNegativeProofNSEC, Aggressive: true}}
			}
			if name == "ecs.pos.test." {
				m.Answer = []dns.RR{stack.MarkerRR(gen, req.Q.Name, req.Q.Qtype, 200)}
				return &stack.StubReply{Msg: m, HasECSScope: true, ECSScope: 24}
			}
			return nil
		}})
	defer st.Close()
	r := st.ServeMsg("203.0.113.9:4000", "udp", q("x.d1.z1.test.", dns.TypeA, true))
	show("admit nx d1", r)
	r = st.ServeMsg("203.0.113.9:4000", "udp", q("y.d1.z1.test.", dns.TypeA, true))
	show("cut hit msg", r)
	pkt, _ := q("w.D1.z1.test.", dns.TypeA, false).Pack()
	r = st.ServeRaw("203.0.113.9:4000", "udp", pkt)
	show("cut hit wire do=0", r)
	r = st.ServeMsg("203.0.113.9:4000", "udp", q("e5.z1.test.", dns.TypeA, true))
	show("proof nx", r)
	r = st.ServeMsg("203.0.113.9:4000", "udp", q("m.z1.test.", dns.TypeAAAA, true))
	show("admit nodata m", r)
	r = st.ServeMsg("203.0.113.9:4000", "udp", q("m.z1.test.", dns.TypeTXT, true))
	show("proof nodata", r)
	r = st.ServeMsg("203.0.113.9:4000", "udp", q("q7.z1.test.", dns.TypeTXT, false))
	show("proof nx via two nsec do=0", r)
	pkt, _ = q("q8.z1.test.", dns.TypeA, true).Pack()
	r = st.ServeRaw("203.0.113.9:4000", "udp", pkt)
	show("proof nx wire", r)
	e := q("ecs.pos.test.", dns.TypeA, false)
	e.IsEdns0().Option = append(e.IsEdns0().Option, &dns.EDNS0_SUBNET{Code: dns.EDNS0SUBNET, Family: 1, SourceNetmask: 24, Address: []byte{198, 51, 100, 0}})
	r = st.ServeMsg("203.0.113.9:4000", "udp", e.Copy())
	show("ecs admit", r)
	r = st.ServeMsg("203.0.113.9:4000", "udp", e.Copy())
	show("ecs hit", r)
	for _, e := range st.Cache().VerifStore().VerifDump() {
		fmt.Printf("%+v\n", e)
	}
}
