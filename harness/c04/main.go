// C04 — nothing is served past its lifetime; composed answers inherit the
// shortest part; a late background refresh never overwrites newer data.
//
// Entry binary (plain): generated virtual-time histories against the real
// edns + cache pipeline with a scripted stub upstream (exec.go, stub.go, gen.go).
// Race child (this same package built with -race, C04_PHASE=race): concurrent
// Store histories judged by porcupine (cas.go) and the gated-prefetch pipeline
// scenario (gate.go).
package main

import (
	"encoding/json"
	"fmt"
	"os"
	"time"

	"github.com/semihalev/sdns/middleware/cache"
	"github.com/semihalev/sdns/zzverif/stack"
	"github.com/semihalev/sdns/zzverif/vlib"
)

const rule = "distinct_nontrivial = histories in which replies built from cached pieces were judged on at least two different routes/outcomes (exact msg/wire, chase msg/wire, cut msg/wire, proof, re-cached composition, expired-entry miss), plus concurrent Store histories with overlapping operations and both a successful and a refused ReplaceIfCurrent, plus gated-refresh scenario (intervention, claimed-entry fate) combinations that completed and were judged; interleavings = distinct call/return event orders of the concurrent histories"

func main() {
	r := vlib.Start("C04", "exploration")
	r.Assume("virtual time = monotonic real time + sum of clock steps; a step shifts every stored instant of the cache middleware back (hooks/middleware/cache/zz_verif_clock.go) and happens only at quiescent points")
	r.Assume("RRSIG validity windows are relative to the real clock at admission; the bound they impose is captured as a TTL at admission and aged by shifting")
	r.Assume("sub-second errors are not judged: a reply is a violation only if observed after a1+L, a TTL only if above ceil(a1+L-o0)")
	r.Assume("gated-refresh scenarios with an expiring claim step the clock while exactly one background refresh is parked inside the stub (harness code); no cache code runs during that step")
	r.Assume("the stub stands in for the resolver: leases are attached through ResponseMeta.BoundCutFor, validated-denial provenance through MarkValidatedNegativeProofResponse; signatures are not cryptographically valid (the cache never checks them)")

	if rc := r.ReplayCase(); rc != nil {
		replay(r, rc)
		r.Finish(rule)
	}
	switch os.Getenv("C04_PHASE") {
	case "race":
		phaseRace(r)
	case "histories":
		phaseHistories(r)
	default:
		parent(r)
	}
	r.Finish(rule)
}

func parent(r *vlib.Run) {
	// the race child runs beside the in-process histories
	done := make(chan struct{})
	pfx := r.RacePrefix("race")
	go func() {
		defer close(done)
		timeout := time.Duration(r.N(170, 1500)) * time.Second
		res := r.Child("race", nil, vlib.BinPath("c04", "race"), nil, []string{vlib.RaceEnv(pfx), "C04_PHASE=race"}, timeout)
		switch {
		case res.TimedOut:
			r.Inconclusive(fmt.Sprintf("race child hit the %v watchdog (log %s)", timeout, res.Output))
		case !res.HasState:
			r.Inconclusive(fmt.Sprintf("race child ended without reporting (exit %d, log %s)", res.ExitCode, res.Output))
		}
	}()
	phaseHistories(r)
	<-done
	r.Count("race_reports", r.ScanRaceLogs(pfx))

	for _, c := range []string{"histories", "replies_judged", "ttl_observations", "ttl_pairs_compared", "clock_steps", "purges"} {
		r.Require(c, int64(r.N(100, 2000)))
	}
	// every serving route the verdict speaks about must have been judged
	for _, c := range []string{"replies_exact-msg", "replies_exact-wire", "replies_chase-msg", "replies_chase-wire",
		"replies_cut-msg", "replies_cut-wire", "replies_proof-msg", "replies_chase-into-denial", "replies_from_recached_composition",
		"replies_engine_inline", "records_judged_exact", "records_judged_cut", "records_judged_proof", "records_judged_recached"} {
		r.Require(c, int64(r.N(10, 200)))
	}
	for _, c := range []string{"admissions_pos", "admissions_alias", "admissions_zone-nxdomain", "admissions_zone-nodata", "admissions_ecs",
		"admissions_scoped", "admissions_with_lease", "admissions_background_refresh", "admissions_inheriting_cached_piece"} {
		r.Require(c, int64(r.N(10, 200)))
	}
	r.Require("admissions_nxd", int64(r.N(5, 100)))
	r.Require("admissions_nodata", int64(r.N(5, 100)))
	for _, c := range []string{"lease_bounded_serves", "lease_bounded_serves_exact", "lease_bounded_serves_cut", "lease_bounded_serves_proof",
		"inherited_deadline_bounded_serves", "ecs_cap_bounded_serves", "floored_entry_serves", "expired_entry_misses", "request_bounds_checked",
		"request_bounds_checked_exact-wire", "request_bounds_checked_chase-wire", "request_bounds_checked_cut-wire"} {
		r.Require(c, int64(r.N(5, 100)))
	}
	r.Require("cas_histories_ok", int64(r.N(100, 2000)))
	r.Require("cas_success", int64(r.N(200, 4000)))
	r.Require("cas_refused", int64(r.N(200, 4000)))
	// lifetimes inside the concurrent histories: entries that run out mid-history
	// and write-backs issued on a claim that had already run out
	r.Require("cas_short_lived_writes", int64(r.N(2000, 40000)))
	r.Require("cas_expired_claim_refused", int64(r.N(150, 3000)))
	r.Require("gate_scenarios", int64(r.N(100, 2000)))
	for v := 0; v < 7; v++ {
		r.Require(fmt.Sprintf("gate_scenarios_variant%d", v), int64(r.N(5, 100)))
	}
	r.Require("gate_control_refresh_applied", int64(r.N(5, 100)))
	// the claimed entry's fate while its refresh is in flight: still live, TTL
	// ran out, delegation lease ran out — each must have been driven and judged
	for _, f := range []string{"live", "ttl", "lease"} {
		r.Require("gate_scenarios_claim_"+f, int64(r.N(20, 400)))
	}
	r.Require("gate_expired_claim_judged_ttl", int64(r.N(15, 300)))
	r.Require("gate_expired_claim_judged_lease", int64(r.N(15, 300)))
	r.Require("gate_newer_data_survived", int64(r.N(20, 400)))
	r.Require("gate_newer_withdrawal_survived", int64(r.N(20, 400)))
}

func phaseHistories(r *vlib.Run) {
	n := r.N(300, 6000)
	for i := 0; i < n; i++ {
		h := genHistory(r.RandN("hist", i), i, r.Seed)
		if i < 2 {
			r.Sample(map[string]any{"history": h.Index, "names": h.Names, "ops": h.Ops})
		}
		if !runHistory(r, h) {
			r.Count("histories_aborted", 1)
			if r.Counter("histories_aborted") > 5 {
				r.Inconclusive("too many histories could not be completed")
				return
			}
		}
		r.Progress("histories %d/%d", i+1, n)
	}
}

func phaseRace(r *vlib.Run) {
	cfg := stack.DefaultConfig()
	c := cache.New(cfg)
	store := c.VerifStore()
	n := r.N(200, 4000)
	for i := 0; i < n; i++ {
		evs := runCASHistory(r, store, i, 8, 50)
		judgeCASHistory(r, i, evs)
		r.Progress("cas histories %d/%d", i+1, n)
	}
	c.Stop()
	m := r.N(144, 2880)
	for i := 0; i < m; i++ {
		runGateScenario(r, i)
		r.Progress("gate scenarios %d/%d", i+1, m)
	}
}

func replay(r *vlib.Run, rc json.RawMessage) {
	var head struct {
		Mode    string   `json:"mode"`
		Index   int      `json:"index"`
		History *history `json:"history"`
	}
	if err := json.Unmarshal(rc, &head); err != nil {
		r.Fatalf("replay: %v", err)
	}
	switch head.Mode {
	case "history":
		if head.History == nil {
			r.Fatalf("replay: no history in case")
		}
		runHistory(r, head.History)
	case "gate":
		runGateScenario(r, head.Index)
	case "cas":
		// a concurrent history cannot be re-executed move by move: re-judge the
		// recorded one and run a fresh history with the same index
		var c struct {
			Events []casEvent `json:"events"`
		}
		_ = json.Unmarshal(rc, &c)
		if len(c.Events) > 0 {
			judgeCASHistory(r, head.Index, c.Events)
		}
		cc := cache.New(stack.DefaultConfig())
		judgeCASHistory(r, head.Index, runCASHistory(r, cc.VerifStore(), head.Index, 8, 50))
		cc.Stop()
	default:
		r.Fatalf("replay: unknown mode %q", head.Mode)
	}
}
