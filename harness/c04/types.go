package main

// Case types of the virtual-time histories (all JSON-serialisable: a history is
// its own replay case) and the naming scheme of the scripted universe.
//
//	pos.c04.test.   unsigned zone: positive names, aliases, ECS-tailored names
//	neg.c04.test.   unsigned zone: plain NXDOMAIN / NODATA names (SOA only)
//	z<k>.c04.test.  "signed" zone with a two-record NSEC chain
//	                  z<k> NSEC m.z<k>  (NS SOA RRSIG NSEC DNSKEY)
//	                  m.z<k> NSEC z<k>  (A RRSIG NSEC)
//	                every other name in it is denied with locally-validated
//	                provenance, so the cache admits subtree cuts and RFC 8198 proofs.
//
// Provenance: every stub answer belongs to one generation g (1..4095 within a
// history): marker A/TXT records carry g (stack.MarkerRR), SOA carries g as its
// serial, every RRSIG carries g as its key tag, and a CNAME carries g in the
// letter case of the first 12 letters of its target's first label.

import (
	"strings"

	"github.com/miekg/dns"
)

const (
	kindPos    = "pos"    // positive marker answer
	kindAlias  = "alias"  // CNAME link to another name
	kindNXD    = "nxd"    // NXDOMAIN + SOA, no proof provenance
	kindNoData = "nodata" // NOERROR/empty + SOA, no proof provenance
	kindZone   = "zone"   // signed zone: validated NXDOMAIN / NODATA proofs
	kindECS    = "ecs"    // positive answer tailored to the client subnet
)

// param scripts one stub answer. Durations are whole seconds unless noted.
type param struct {
	TTL     uint32  `json:"ttl"`               // marker / CNAME TTL
	TTL2    uint32  `json:"ttl2,omitempty"`    // additional-section marker (pos) / NSEC TTL (zone); 0 = absent (pos)
	SigExp  uint32  `json:"sig_exp,omitempty"` // RRSIG window ends this many seconds after the answer is built; 0 = unsigned (pos/alias)
	SigExp2 uint32  `json:"sig_exp2,omitempty"`
	SOATTL  uint32  `json:"soa_ttl,omitempty"`
	SOAMin  uint32  `json:"soa_min,omitempty"`
	Lease   float64 `json:"lease,omitempty"` // delegation lease in seconds (fractional allowed); 0 = none
}

type nameSpec struct {
	Kind   string  `json:"kind"`
	Name   string  `json:"name"`             // canonical owner (zone apex for kindZone)
	Qtype  uint16  `json:"qtype"`            // type this name is asked for
	Target string  `json:"target,omitempty"` // alias target (first label carries the generation in its case)
	Params []param `json:"params"`           // used round-robin, one per stub call for this name (zone: per call in the zone)
}

type op struct {
	Kind  string  `json:"kind"`            // "q" | "adv" | "purge"
	Name  string  `json:"name,omitempty"`  // question name
	Qtype uint16  `json:"qtype,omitempty"` //
	Route string  `json:"route,omitempty"` // msg-udp msg-tcp msg-doh wire-udp wire-tcp engine
	DO    bool    `json:"do,omitempty"`
	ECS   bool    `json:"ecs,omitempty"`
	Adv   float64 `json:"adv,omitempty"` // seconds
	Why   string  `json:"why,omitempty"` // generator's intent (evidence only)
}

type history struct {
	Index    int        `json:"index"`
	Seed     uint64     `json:"seed"`
	Prefetch int        `json:"prefetch"` // cfg.Prefetch (percent, 0 = off)
	ECSCap   int        `json:"ecs_cap"`  // cfg.ECS.CacheLimitTTL seconds
	Names    []nameSpec `json:"names"`
	Ops      []op       `json:"ops"`
}

const (
	posZone = "pos.c04.test."
	negZone = "neg.c04.test."
	ecsNet  = "198.51.100.0" // client subnet used by ECS queries (/24)
)

func qk(name string, qtype uint16) string {
	return dns.CanonicalName(name) + "/" + dns.TypeToString[qtype]
}

// caseLetters returns the indices (within label) of its first 12 ASCII letters.
func caseLetters(label string) []int {
	var idx []int
	for i := 0; i < len(label) && len(idx) < 12; i++ {
		c := label[i]
		if (c >= 'a' && c <= 'z') || (c >= 'A' && c <= 'Z') {
			idx = append(idx, i)
		}
	}
	return idx
}

// encodeGenCase spells name with generation g encoded in the case of the first
// 12 letters of its first label (bit i set = upper case). The first label must
// have at least 12 letters.
func encodeGenCase(name string, g uint32) string {
	name = strings.ToLower(name)
	dot := strings.IndexByte(name, '.')
	if dot < 0 {
		return name
	}
	label := []byte(name[:dot])
	idx := caseLetters(name[:dot])
	if len(idx) < 12 {
		return name
	}
	for bit, i := range idx {
		if g&(1<<uint(bit)) != 0 {
			label[i] -= 'a' - 'A'
		}
	}
	return string(label) + name[dot:]
}

// decodeGenCase is the inverse; ok is false when the label is too short.
func decodeGenCase(name string) (g uint32, ok bool) {
	dot := strings.IndexByte(name, '.')
	if dot < 0 {
		return 0, false
	}
	idx := caseLetters(name[:dot])
	if len(idx) < 12 {
		return 0, false
	}
	for bit, i := range idx {
		if c := name[i]; c >= 'A' && c <= 'Z' {
			g |= 1 << uint(bit)
		}
	}
	return g, true
}

// zoneOf returns the signed zone a name lives in ("" if none).
func zoneOf(name string, names []nameSpec) string {
	name = dns.CanonicalName(name)
	for i := range names {
		if names[i].Kind == kindZone && dns.IsSubDomain(names[i].Name, name) {
			return names[i].Name
		}
	}
	return ""
}

// subjectOf is the denied name the stub reports for an NXDOMAIN in zone: the
// label directly below the apex (QNAME-minimised denial).
func subjectOf(name, zone string) string {
	name = dns.CanonicalName(name)
	rest := strings.TrimSuffix(name, zone)
	rest = strings.TrimSuffix(rest, ".")
	if i := strings.LastIndexByte(rest, '.'); i >= 0 {
		rest = rest[i+1:]
	}
	return rest + "." + zone
}
