// C06 — every reply respects what the client sent and negotiated.
//
// Runtime monitor: generated (query, upstream response) pairs are pushed
// through the REAL sdns pipeline (production chain up to and including the
// cache, scripted stub as resolver) over real UDP/TCP/DoT/DoH/DoQ sockets and
// over the in-process entries (decoded ServeMsg, strict-job ServeRaw /
// inline+replay) with synthetic client addresses; every reply is judged by
// replycontract.Check against the query that produced it.
//
// Each configuration runs on two stacks: the full-featured one (views,
// blocklist, rate limits: every local-answer class, but every request is
// decoded ahead of the cache) and a second one on which wire-born requests
// reach the cache undecoded — there the same pairs are answered by the cache's
// byte ladder, and multi-step cache-state SEQUENCES (seq.go) make it compose
// replies from several cached pieces for every client flag combination.
package main

import (
	"context"
	"encoding/hex"
	"encoding/json"
	"errors"
	"fmt"
	"math/rand/v2"
	"net"
	"os"
	"strings"
	"sync"
	"time"

	"github.com/miekg/dns"

	"github.com/semihalev/sdns/config"
	"github.com/semihalev/sdns/middleware"
	"github.com/semihalev/sdns/server"
	rc "github.com/semihalev/sdns/zzverif/replycontract"
	"github.com/semihalev/sdns/zzverif/stack"
	"github.com/semihalev/sdns/zzverif/vlib"
)

// ---------------------------------------------------------------------
// Configurations: NSID / cookie secret / ECS policy on and off
// ---------------------------------------------------------------------

type confSpec struct {
	NSID   string
	Secret string
	ECS    bool
}

var confs = []confSpec{
	{"", "", false},
	{"verif-ns1", "6c6f6f6b61686172646c6f6f6b6168617264", true},
	{"verif-ns2", "", true},
	{"", "73656372657473656372657473656372", false},
}

const (
	clientRate   = 30 // per-client queries/minute (burst 30) for non-loopback clients
	deniedNet    = "192.0.2.0/24"
	viewNet      = "198.51.100.0/24"
	blockedName  = "blocked.c06.test."
	keepaliveU16 = 80 // edns.TCPKeepaliveTimeout (8 s) in 100 ms units
)

func buildConfig(c confSpec) *config.Config {
	cfg := stack.DefaultConfig()
	cfg.NSID = c.NSID
	cfg.CookieSecret = c.Secret
	cfg.ECS.Enabled = c.ECS
	cfg.ClientRateLimit = clientRate
	// everything except TEST-NET-1 may query
	cfg.AccessList = []string{"0.0.0.0/1", "128.0.0.0/2", "192.0.0.0/23", "192.0.3.0/24", "192.0.4.0/22", "192.0.8.0/21",
		"192.0.16.0/20", "192.0.32.0/19", "192.0.64.0/18", "192.0.128.0/17", "192.1.0.0/16", "192.2.0.0/15", "192.4.0.0/14",
		"192.8.0.0/13", "192.16.0.0/12", "192.32.0.0/11", "192.64.0.0/10", "192.128.0.0/9", "193.0.0.0/8", "194.0.0.0/7",
		"196.0.0.0/6", "200.0.0.0/5", "208.0.0.0/4", "224.0.0.0/3", "::/0"}
	cfg.Blocklist = []string{blockedName}
	cfg.Views = []config.ViewConfig{{Zone: "c06view", Networks: []string{viewNet},
		Answers: []string{"view.c06.test. 60 IN A 10.9.9.9", "*.wild.c06.test. 60 IN TXT \"view\""}}}
	return cfg
}

// ---------------------------------------------------------------------
// The scripted upstream
// ---------------------------------------------------------------------

type upstream struct {
	hex    string
	reqOPT bool
	neg    *NegSpec
}

type upstreams struct{ m sync.Map }

func ukey(name string, qtype uint16) string {
	return fmt.Sprintf("%s/%d", dns.CanonicalName(name), qtype)
}

func (u *upstreams) set(c *Case) {
	if c.UpstreamHex != "" {
		u.m.Store(ukey(c.QName, c.QType), &upstream{c.UpstreamHex, c.UpstreamReqOPT, nil})
	}
}
func (u *upstreams) del(c *Case) { u.m.Delete(ukey(c.QName, c.QType)) }

// skey: a sequence script may be bound to the request's CD bit.
func skey(s *Script) string {
	k := ukey(s.Name, s.Type)
	if s.CD != "" {
		k += "/cd" + s.CD
	}
	return k
}
func (u *upstreams) setScript(s *Script) { u.m.Store(skey(s), &upstream{s.Hex, s.ReqOPT, s.Neg}) }
func (u *upstreams) delScript(s *Script) { u.m.Delete(skey(s)) }

func (u *upstreams) stub(_ context.Context, req *stack.StubRequest) *stack.StubReply {
	k := ukey(req.Q.Name, req.Q.Qtype)
	cdk := k + "/cd0"
	if req.CD {
		cdk = k + "/cd1"
	}
	v, ok := u.m.Load(cdk)
	if !ok {
		v, ok = u.m.Load(k)
	}
	if !ok {
		return nil // default marker answer (CNAME-chase targets, special names)
	}
	up := v.(*upstream)
	b, _ := hex.DecodeString(up.hex)
	m := new(dns.Msg)
	if err := m.Unpack(b); err != nil {
		return &stack.StubReply{Rcode: dns.RcodeServerFailure}
	}
	m.Question = nil // stamped from the live request (keeps the client's case)
	if up.reqOPT {
		var extra []dns.RR
		for _, rr := range m.Extra {
			if _, isOPT := rr.(*dns.OPT); !isOPT {
				extra = append(extra, rr)
			}
		}
		m.Extra = extra
		if opt := req.Live.IsEdns0(); opt != nil {
			m.Extra = append(m.Extra, opt) // pointer identity, like resolver.clearAdditional
		}
	}
	rep := &stack.StubReply{Msg: m}
	if up.neg != nil {
		// what the real resolver attaches after validating the denial
		kind := middleware.ValidatedNegativeProofNSEC
		if up.neg.NSEC3 {
			kind = middleware.ValidatedNegativeProofNSEC3
		}
		rep.Negative = &middleware.ValidatedNegativeProof{Subject: up.neg.Subject, Zone: up.neg.Zone, Kind: kind, Aggressive: true}
	}
	return rep
}

// ---------------------------------------------------------------------
// Monitor
// ---------------------------------------------------------------------

type monitor struct {
	r   *vlib.Run
	st  *stack.Stack
	ups *upstreams
	cs  confSpec
	ci  int
}

func (mo *monitor) options(clientIP string) rc.Options {
	return rc.Options{NSID: mo.cs.NSID, VerifyCookie: true, CookieSecret: mo.cs.Secret, ClientIP: clientIP,
		KeepaliveUnits: keepaliveU16, ECSEnabled: mo.cs.ECS}
}

func hostOf(addr string) string {
	h := addr
	if hh, _, err := net.SplitHostPort(addr); err == nil {
		h = hh
	}
	if ip := net.ParseIP(h); ip != nil {
		return ip.String() // canonical text form: what the server hashes into the cookie
	}
	return h
}

// judge runs the contract on one observed exchange of a probe-list case.
func (mo *monitor) judge(c *Case, pi int, transport string, clientIP string, query, reply []byte) {
	mo.judgeWith(c, func() any {
		wit := *c
		wit.Probes = append([]Probe(nil), c.Probes[:pi+1]...)
		return wit
	}, pi, transport, clientIP, query, reply, c.UpstreamDesc)
}

// judgeWith is judge with a caller-built witness (the serialisable replay
// case) and the description the distinct-case key uses.
func (mo *monitor) judgeWith(c *Case, witness func() any, pi int, transport string, clientIP string, query, reply []byte, desc string) {
	r := mo.r
	tr := rc.Transport(transport)
	if reply == nil {
		r.Count("noreply/"+tr, 1)
		return
	}
	class := rc.Class(reply)
	r.Eval(1)
	r.Count("replies", 1)
	r.Count("transport/"+tr, 1)
	r.Count("class/"+class, 1)
	r.Max("reply_len_max", int64(len(reply)))
	qf := rc.Facts(query)
	shape := fmt.Sprintf("%s|%s|opt=%v do=%v cd=%v ad=%v nopt=%d", tr, class, qf.HasOPT, qf.DO, qf.CD, qf.AD, len(qf.Options))
	// queries carrying options the server has no rule for, by the reply class
	// that answered them (the "foreign options never reflected" clause is only
	// exercised by a reply to such a query)
	nForeign := 0
	for _, qo := range qf.Options {
		if !knownClientOption(qo.Option()) {
			nForeign++
			r.DistinctIn("foreign_opt_codes", fmt.Sprintf("%d", qo.Option()))
		}
	}
	if nForeign > 0 {
		r.Count("foreign-opt/"+class, 1)
		r.Count("foreign-opt/transport/"+tr, 1)
		r.DistinctIn("foreign_opt_shapes", fmt.Sprintf("%s|%s|%s", strings.SplitN(c.Kind, "/", 2)[0], tr, class))
		shape += fmt.Sprintf(" foreign=%d", nForeign)
	}
	r.DistinctIn("shapes", shape)
	r.Distinct(fmt.Sprintf("%s|%s|%d|%s", c.Kind, shape, len(reply)/256, desc))
	if tr == "udp" && len(reply) > 0 {
		h := reply[2]
		if h&0x02 != 0 {
			r.Count("udp_tc_replies", 1)
		}
		if len(reply) > 512 {
			r.Count("udp_replies_over_512", 1)
		}
	}
	for _, b := range rc.Check(transport, query, reply, mo.options(clientIP)) {
		if b.Info {
			r.Count(fmt.Sprintf("info/%s/code%d", b.Rule, b.OptCode), 1)
			continue
		}
		sig := b.Rule + "/" + class
		// Attribution: a COOKIE in the reply that is byte-for-byte the COOKIE
		// option of the scripted upstream response is the upstream's option
		// passed through, not a cookie this server minted.
		if (b.Rule == "cookie-unsolicited" || b.Rule == "cookie-unbound") && c.upstreamHasOption(b.OptCode, b.OptHex) {
			sig = "upstream-cookie-passthrough"
		}
		r.Count("breach/"+sig, 1)
		wit := witness()
		r.Violation(sig, fmt.Sprintf("%s over %s (conf nsid=%q secret=%v ecs=%v): %s; query=%x reply=%x",
			c.Kind, transport, mo.cs.NSID, mo.cs.Secret != "", mo.cs.ECS, b.Detail, query, reply),
			map[string]any{"case": wit, "probe": pi, "breach": b, "conf": mo.cs})
	}
}

// upstreamHasOption reports whether the scripted upstream response's own OPT
// carries exactly this option (never true when the request OPT is re-attached).
func (c *Case) upstreamHasOption(code uint16, dataHex string) bool {
	for _, s := range c.allScripts() {
		if !s.ReqOPT && hexHasOption(s.Hex, code, dataHex) {
			return true
		}
	}
	if c.UpstreamHex == "" || c.UpstreamReqOPT {
		return false
	}
	return hexHasOption(c.UpstreamHex, code, dataHex)
}

func hexHasOption(upstreamHex string, code uint16, dataHex string) bool {
	b, _ := hex.DecodeString(upstreamHex)
	m := new(dns.Msg)
	if m.Unpack(b) != nil {
		return false
	}
	opt := m.IsEdns0()
	if opt == nil {
		return false
	}
	for _, o := range opt.Option {
		if o.Option() != code {
			continue
		}
		one := &dns.OPT{Hdr: dns.RR_Header{Name: ".", Rrtype: dns.TypeOPT}, Option: []dns.EDNS0{o}}
		mm := &dns.Msg{Extra: []dns.RR{one}}
		if pb, err := mm.Pack(); err == nil && len(pb) >= 27 && hex.EncodeToString(pb[27:]) == dataHex {
			return true
		}
	}
	return false
}

// exec performs one probe and returns the raw reply (nil = none).
func (mo *monitor) exec(p *Probe, query []byte, cl *stack.Client, jobs map[string]*server.VerifStrictJob) (reply []byte, note string) {
	switch p.Entry {
	case "sock":
		to := cl.Timeout
		if p.Silent {
			cl.Timeout = 300 * time.Millisecond
		}
		out, err := cl.Exchange(p.Transport, query)
		cl.Timeout = to
		if err != nil {
			var hs *stack.DoHStatusError
			switch {
			case errors.Is(err, stack.ErrNoReply):
				return nil, "timeout"
			case errors.As(err, &hs):
				return nil, fmt.Sprintf("http-%d", hs.Status)
			}
			return nil, "error"
		}
		return out, ""
	case "msg":
		m := new(dns.Msg)
		if err := m.Unpack(query); err != nil {
			return nil, "undecodable"
		}
		res := mo.st.ServeMsg(p.Client, p.Transport, m)
		return mo.inproc(res)
	case "raw", "engine":
		key := p.Client + "/" + p.Transport
		job := jobs[key]
		if job == nil {
			job = stack.NewJob(p.Client, p.Transport)
			jobs[key] = job
		}
		var res stack.Result
		if p.Entry == "engine" {
			var inline bool
			res, inline = mo.st.ServeRawLikeEngine(job, query)
			if inline && res.Wrote {
				mo.r.Count("inline_served", 1)
			}
		} else {
			res = mo.st.ServeRawJob(job, stack.RawServe, query)
		}
		if res.Strict {
			mo.r.Count("strict_branch", 1)
		}
		return mo.inproc(res)
	}
	return nil, "bad-entry"
}

func (mo *monitor) inproc(res stack.Result) ([]byte, string) {
	if res.Panic != nil {
		mo.r.Violation("panic/server-entry", fmt.Sprintf("panic escaped the server entry: %v", res.Panic), nil)
		return nil, "panic"
	}
	if res.Writes > 1 {
		mo.r.Count("info/multiple-writes", 1)
	}
	if !res.Wrote {
		if !res.Handled {
			return nil, "unhandled"
		}
		return nil, "silent"
	}
	return res.Raw, ""
}

// serverCookieFrom extracts the COOKIE option payload of a reply.
func serverCookieFrom(reply []byte) string {
	m := new(dns.Msg)
	if reply == nil || m.Unpack(reply) != nil {
		return ""
	}
	if opt := m.IsEdns0(); opt != nil {
		for _, o := range opt.Option {
			if c, ok := o.(*dns.EDNS0_COOKIE); ok {
				return c.Cookie
			}
		}
	}
	return ""
}

func (mo *monitor) runCase(c *Case, cl *stack.Client) {
	mo.ups.set(c)
	defer mo.ups.del(c)
	jobs := map[string]*server.VerifStrictJob{}
	lastCookie := ""
	for i := range c.Probes {
		p := &c.Probes[i]
		var query []byte
		if p.Q != nil {
			q := p.Q
			if p.CookieEcho && lastCookie != "" {
				q = q.clone()
				if o := q.opt(dns.EDNS0COOKIE); o != nil {
					o.Hex = lastCookie
				}
			}
			query = q.pack()
			p.QueryHex = hex.EncodeToString(query)
		} else {
			query, _ = hex.DecodeString(p.QueryHex)
		}
		reply, note := mo.exec(p, query, cl, jobs)
		if note != "" {
			mo.r.Count("outcome/"+p.Entry+"/"+note, 1)
		}
		clientIP := p.Client
		if p.Entry != "sock" {
			clientIP = hostOf(p.Client)
		}
		tr := p.Transport
		mo.r.Count("probes/"+p.Entry, 1)
		if strings.HasPrefix(c.Kind, "hdr/") {
			cls := "none"
			if reply != nil {
				cls = rc.Class(reply)
			}
			mo.r.Count(fmt.Sprintf("%s/%s=%s", c.Kind, rc.Transport(tr), cls), 1)
		}
		mo.judge(c, i, tr, clientIP, query, reply)
		if ck := serverCookieFrom(reply); ck != "" {
			lastCookie = ck
		}
	}
}

// ---------------------------------------------------------------------
// Case generation
// ---------------------------------------------------------------------

// ipFor derives a per-case non-loopback client address a.x.y.z from the case
// index (unique within one configuration's stack: < 2^24 cases).
func ipFor(a byte, idx int) string {
	li := idx % 10_000_000
	return fmt.Sprintf("%d.%d.%d.%d", a, li>>16&0xff, li>>8&0xff, li&0xff)
}

var sockTransports = []string{"udp", "tcp", "dot", "doh-get", "doh-post", "doq"}
var qtypes = []uint16{dns.TypeA, dns.TypeA, dns.TypeA, dns.TypeAAAA, dns.TypeTXT, dns.TypeMX, dns.TypeRRSIG, dns.TypeDNSKEY, dns.TypeNSEC, dns.TypeDS}

func isStream(tr string) bool { return tr == "tcp" || tr == "dot" }

// genPairCase: one upstream response, 2–4 probes of the same question with
// independently drawn client flags / EDNS / options, mixing entries. The
// first probe is a miss; later ones hit the cache (or miss again under a
// different CD key).
func genPairCase(rng *rand.Rand, idx, ci int, worker int) *Case {
	qtype := qtypes[rng.IntN(len(qtypes))]
	name := fmt.Sprintf("c%d-%d.pair.test.", idx, ci)
	c := &Case{Index: idx, Kind: "pair", Config: ci, QName: name, QType: qtype}
	up, reqOPT, desc := genUpstream(rng, name, qtype)
	b, err := up.Pack()
	if err != nil {
		// an unpackable script (too large): shrink by dropping sections
		up.Extra, up.Ns = nil, nil
		if b, err = up.Pack(); err != nil {
			up.Answer = up.Answer[:1]
			b, _ = up.Pack()
		}
		desc += " shrunk"
	}
	c.UpstreamHex, c.UpstreamReqOPT, c.UpstreamDesc = hex.EncodeToString(b), reqOPT, desc

	n := 2 + rng.IntN(3)
	inprocIP := ipFor(11, idx)
	if ci%2 == 1 {
		li := idx % 10_000_000
		inprocIP = fmt.Sprintf("2001:db8:c06::%x:%x", li>>16, li&0xffff)
	}
	for i := 0; i < n; i++ {
		var p Probe
		switch rng.IntN(10) {
		case 0, 1, 2, 3, 4, 5:
			p.Entry = "sock"
			p.Transport = sockTransports[rng.IntN(len(sockTransports))]
			p.Client = fmt.Sprintf("127.66.%d.1", worker)
		case 6:
			p.Entry = "msg"
			p.Transport = []string{"udp", "tcp", "doh", "doq"}[rng.IntN(4)]
		case 7, 8:
			p.Entry = "raw"
			p.Transport = []string{"udp", "udp", "tcp"}[rng.IntN(3)]
		default:
			p.Entry = "engine"
			p.Transport = "udp"
		}
		if p.Entry != "sock" {
			if strings.Contains(inprocIP, ":") {
				p.Client = fmt.Sprintf("[%s]:%d", inprocIP, 1024+rng.IntN(60000))
			} else {
				p.Client = fmt.Sprintf("%s:%d", inprocIP, 1024+rng.IntN(60000))
			}
		}
		p.Q = genQuery(rng, name, qtype, dns.ClassINET, isStream(p.Transport))
		if p.Q.opt(dns.EDNS0COOKIE) != nil && p.Entry != "sock" {
			// non-loopback clients meet the ratelimit cookie check: mostly
			// behave like an RFC 7873 client (echo the server cookie) so the
			// pair reaches the cache; the stale-cookie path has its own kind.
			p.CookieEcho = rng.IntN(4) != 0
		}
		c.Probes = append(c.Probes, p)
	}
	return c
}

// genSpecialCase: names answered by the local-answer middlewares ahead of
// the cache (chaos, as112, blocklist, views) — replies that never saw the
// stub but pass the same edns writer.
func genSpecialCase(rng *rand.Rand, idx, ci, worker int) *Case {
	c := &Case{Index: idx, Kind: "special", Config: ci}
	type spec struct {
		name   string
		t, cls uint16
		view   bool
	}
	specs := []spec{
		{"version.bind.", dns.TypeTXT, dns.ClassCHAOS, false},
		{"hostname.bind.", dns.TypeTXT, dns.ClassCHAOS, false},
		{"id.server.", dns.TypeTXT, dns.ClassCHAOS, false},
		{"1.0.0.10.in-addr.arpa.", dns.TypePTR, dns.ClassINET, false},
		{"10.in-addr.arpa.", dns.TypeSOA, dns.ClassINET, false},
		{blockedName, dns.TypeA, dns.ClassINET, false},
		{"www." + blockedName, dns.TypeAAAA, dns.ClassINET, false},
		{"view.c06.test.", dns.TypeA, dns.ClassINET, true},
		{"x.wild.c06.test.", dns.TypeTXT, dns.ClassINET, true},
	}
	s := specs[rng.IntN(len(specs))]
	c.Kind = "special"
	c.QName, c.QType = s.name, s.t
	c.UpstreamDesc = s.name
	for i := 0; i < 2; i++ {
		var p Probe
		if s.view || rng.IntN(3) == 0 {
			p.Entry = []string{"msg", "raw", "engine"}[rng.IntN(3)]
			p.Transport = "udp"
			if p.Entry == "msg" {
				p.Transport = []string{"udp", "tcp", "doh", "doq"}[rng.IntN(4)]
			}
			ip := ipFor(15, idx)
			if s.view {
				ip = fmt.Sprintf("198.51.100.%d", 1+idx%250)
			}
			p.Client = fmt.Sprintf("%s:%d", ip, 2000+rng.IntN(50000))
		} else {
			p.Entry = "sock"
			p.Transport = sockTransports[rng.IntN(len(sockTransports))]
			p.Client = fmt.Sprintf("127.66.%d.1", worker)
		}
		p.Q = genQuery(rng, s.name, s.t, s.cls, isStream(p.Transport))
		p.Q.opt(0)
		if o := p.Q.opt(dns.EDNS0COOKIE); o != nil && p.Entry != "sock" {
			p.CookieEcho = true
		}
		c.Probes = append(c.Probes, p)
	}
	return c
}

// genSizeCase: the UDP size/TC rule — a response of a chosen size asked for
// over UDP (socket and strict job) with every advertised size class.
func genSizeCase(rng *rand.Rand, idx, ci, worker int) *Case {
	name := fmt.Sprintf("c%d-%d.size.test.", idx, ci)
	qtype := []uint16{dns.TypeTXT, dns.TypeA, dns.TypeMX}[rng.IntN(3)]
	c := &Case{Index: idx, Kind: "size", Config: ci, QName: name, QType: qtype}
	m := new(dns.Msg)
	m.Response = true
	target := []int{300, 480, 505, 520, 700, 1000, 1200, 1225, 1240, 1500, 3000, 4200, 9000, 30000, 60000}[rng.IntN(15)]
	where := rng.IntN(3)
	m.Answer = append(m.Answer, dataRR(rng, name, qtype, 0))
	for i := 1; m.Len() < target && i < 6000; i++ {
		switch where {
		case 0:
			m.Answer = append(m.Answer, dataRR(rng, name, qtype, i))
		case 1:
			m.Extra = append(m.Extra, dataRR(rng, fmt.Sprintf("g%d.size.test.", i), dns.TypeA, i))
		default:
			m.Ns = append(m.Ns, dataRR(rng, "size.test.", dns.TypeNS, i))
		}
	}
	if rng.IntN(3) == 0 {
		m.Answer = append(m.Answer, rrsig(name, qtype, rng))
	}
	b, err := m.Pack()
	if err != nil {
		m.Answer = m.Answer[:len(m.Answer)/2]
		m.Extra = m.Extra[:len(m.Extra)/2]
		m.Ns = m.Ns[:len(m.Ns)/2]
		b, _ = m.Pack()
	}
	c.UpstreamHex = hex.EncodeToString(b)
	c.UpstreamReqOPT = rng.IntN(2) == 0
	c.UpstreamDesc = fmt.Sprintf("size~%d in %s", len(b), []string{"answer", "additional", "authority"}[where])
	n := 3 + rng.IntN(3)
	for i := 0; i < n; i++ {
		var p Probe
		switch rng.IntN(4) {
		case 0:
			p.Entry, p.Transport = "raw", "udp"
		case 1:
			p.Entry, p.Transport = "engine", "udp"
		default:
			p.Entry, p.Transport = "sock", "udp"
		}
		if i == n-1 && rng.IntN(2) == 0 {
			p.Entry, p.Transport = "sock", []string{"tcp", "dot", "doq", "doh-post"}[rng.IntN(4)]
		}
		if p.Entry == "sock" {
			p.Client = fmt.Sprintf("127.66.%d.1", worker)
		} else {
			p.Client = fmt.Sprintf("%s:%d", ipFor(12, idx), 3000+rng.IntN(5000))
		}
		p.Q = genQuery(rng, name, qtype, dns.ClassINET, isStream(p.Transport))
		p.Q.CD = false // stay on one cache key so hits are exercised at every size
		if o := p.Q.opt(dns.EDNS0COOKIE); o != nil && p.Entry != "sock" {
			p.CookieEcho = true
		}
		c.Probes = append(c.Probes, p)
	}
	return c
}

// genCookieCase: the ratelimit BADCOOKIE class — a non-loopback UDP client
// that does NOT echo the server cookie on its second query (stale / client-
// only cookie), with other options riding along. In-process only: the class
// is unreachable from loopback sockets.
func genCookieCase(rng *rand.Rand, idx, ci int) *Case {
	name := fmt.Sprintf("c%d-%d.cookie.test.", idx, ci)
	c := &Case{Index: idx, Kind: "badcookie", Config: ci, QName: name, QType: dns.TypeA}
	ip := ipFor(13, idx)
	entry := []string{"raw", "engine", "msg"}[rng.IntN(3)]
	for i := 0; i < 3; i++ {
		p := Probe{Entry: entry, Transport: "udp", Client: fmt.Sprintf("%s:%d", ip, 4000+i)}
		q := &QSpec{Name: name, Type: dns.TypeA, Class: dns.ClassINET, ID: uint16(1 + rng.UintN(65535)), RD: true,
			EDNS: true, UDPSize: 1232, DO: rng.IntN(2) == 0}
		ck := randBytes(rng, 8)
		if i > 0 && rng.IntN(2) == 0 {
			ck = append(ck, randBytes(rng, 8+rng.IntN(25))...) // stale server half
		}
		q.Opts = append(q.Opts, OptSpec{dns.EDNS0COOKIE, hex.EncodeToString(ck)})
		switch rng.IntN(7) {
		case 0:
		case 1:
			q.Opts = append(q.Opts, ecsOption(rng, 0))
		case 2:
			q.Opts = append(q.Opts, OptSpec{dns.EDNS0PADDING, hex.EncodeToString(append([]byte("C"), randBytes(rng, 9)...))})
		case 3:
			q.Opts = append(q.Opts, ecsOption(rng, 0), OptSpec{dns.EDNS0NSID, ""},
				OptSpec{dns.EDNS0PADDING, hex.EncodeToString(append([]byte("C"), randBytes(rng, 5)...))})
		case 4: // options the server has no rule for (LLQ, EXPIRE, DAU, unknown codes, …)
			q.Opts = append(q.Opts, foreignOptions(rng)...)
		case 5:
			q.Opts = append(q.Opts, foreignOptions(rng)...)
			q.Opts = append(q.Opts, ecsOption(rng, 0))
		default: // … next to every option it does have a rule for
			q.Opts = append(q.Opts, foreignOptions(rng)...)
			q.Opts = append(q.Opts, clientOptionsExcept(rng, false, dns.EDNS0COOKIE)...)
		}
		rng.Shuffle(len(q.Opts), func(a, b int) { q.Opts[a], q.Opts[b] = q.Opts[b], q.Opts[a] })
		p.Q = q
		c.Probes = append(c.Probes, p)
	}
	return c
}

// genDeniedCase / genFloodCase: access-denied and rate-limited classes.
func genDeniedCase(rng *rand.Rand, idx, ci int) *Case {
	name := fmt.Sprintf("c%d-%d.denied.test.", idx, ci)
	c := &Case{Index: idx, Kind: "access-denied", Config: ci, QName: name, QType: dns.TypeA}
	for i := 0; i < 3; i++ {
		p := Probe{Entry: []string{"raw", "msg", "engine"}[i], Transport: "udp",
			Client: fmt.Sprintf("192.0.2.%d:%d", 1+rng.IntN(250), 5000+i), Silent: true}
		p.Q = genQuery(rng, name, dns.TypeA, dns.ClassINET, false)
		c.Probes = append(c.Probes, p)
	}
	return c
}

func genFloodCase(rng *rand.Rand, idx, ci int) *Case {
	name := fmt.Sprintf("c%d-%d.flood.test.", idx, ci)
	c := &Case{Index: idx, Kind: "rate-limited", Config: ci, QName: name, QType: dns.TypeA}
	ip := ipFor(14, idx)
	for i := 0; i < clientRate+25; i++ {
		p := Probe{Entry: []string{"raw", "msg"}[i%2], Transport: []string{"udp", "tcp"}[rng.IntN(2)],
			Client: fmt.Sprintf("%s:%d", ip, 6000+i)}
		p.Q = genQuery(rng, name, dns.TypeA, dns.ClassINET, false)
		if o := p.Q.opt(dns.EDNS0COOKIE); o != nil {
			// keep the cookie branch out of the way: this class is about the
			// plain token bucket
			var keep []OptSpec
			for _, x := range p.Q.Opts {
				if x.Code != dns.EDNS0COOKIE {
					keep = append(keep, x)
				}
			}
			p.Q.Opts = keep
		}
		c.Probes = append(c.Probes, p)
	}
	return c
}

// genHeaderCase wraps the raw hostile packets as single-probe cases.
func genHeaderCases2(rng *rand.Rand, idx *int, ci int, ecs bool) []*Case {
	var out []*Case
	for _, tr := range []string{"udp", "tcp", "dot", "doh-post", "doq"} {
		for _, rcase := range genHeaderCases(rng, tr, ecs) {
			*idx++
			c := &Case{Index: *idx, Kind: "hdr/" + rcase.Kind, Config: ci, UpstreamDesc: rcase.Kind}
			c.Probes = []Probe{{Entry: "sock", Transport: tr, QueryHex: hex.EncodeToString(rcase.Pkt), Silent: rcase.Silent || tr == "doh-post" || tr == "doq"}}
			out = append(out, c)
		}
	}
	// BADVERS under the ECS policy from a NON-loopback client too (strict job + decoded entry)
	for i, rcase := range genHeaderCases(rng, "inproc", ecs) {
		if !strings.HasPrefix(rcase.Kind, "badvers") {
			continue
		}
		*idx++
		c := &Case{Index: *idx, Kind: "hdr/" + rcase.Kind, Config: ci, UpstreamDesc: rcase.Kind}
		c.Probes = []Probe{{Entry: []string{"raw", "msg"}[i%2], Transport: "udp",
			Client: ipFor(16, *idx) + ":5353", QueryHex: hex.EncodeToString(rcase.Pkt)}}
		out = append(out, c)
	}
	return out
}

// ---------------------------------------------------------------------

const workers = 8

func (mo *monitor) runAll(cases []*Case) {
	ch := make(chan *Case)
	var wg sync.WaitGroup
	for w := 0; w < workers; w++ {
		wg.Add(1)
		go func(w int) {
			defer wg.Done()
			cl := mo.st.NewClient(fmt.Sprintf("127.66.%d.1", w))
			cl.Timeout = 4 * time.Second
			defer cl.Close()
			for c := range ch {
				// the probes carry the worker's source address
				for i := range c.Probes {
					if c.Probes[i].Entry == "sock" {
						c.Probes[i].Client = cl.SrcIP
					}
				}
				func() {
					defer func() {
						if p := recover(); p != nil {
							mo.r.Violation("panic/harness-or-sdns", fmt.Sprintf("panic while running case %d (%s): %v", c.Index, c.Kind, p), c)
						}
					}()
					mo.runCase(c, cl)
				}()
				mo.r.Progress("conf %d: case %d (%s)", mo.ci, c.Index, c.Kind)
			}
		}(w)
	}
	for _, c := range cases {
		ch <- c
	}
	close(ch)
	wg.Wait()
}

// seqDNSSEC: the sequence stacks run with local validation "on" (what admits
// RFC 8020 subtree cuts and RFC 8198 proofs into the cache) except under the
// last configuration, so alias chases are also composed with it off.
func seqDNSSEC(ci int) string {
	if ci%len(confs) == len(confs)-1 {
		return "off"
	}
	return "on"
}

func newMonitor(r *vlib.Run, ci int, seq bool) (*monitor, error) {
	cs := confs[ci%len(confs)]
	ups := &upstreams{}
	// A listener that cannot start is an environment failure — a port taken
	// by another process between the stack picking it and the server binding
	// it, or the box out of inotify instances (the TLS listeners' certificate
	// watcher) while another check holds them: build the stack again a little
	// later, on freshly picked ports. Still failing = inconclusive.
	var st *stack.Stack
	var err error
	for attempt := 0; attempt < 4; attempt++ {
		if attempt > 0 {
			time.Sleep(time.Duration(attempt*2) * time.Second)
		}
		cfg := buildConfig(cs)
		if seq {
			cfg.DNSSEC = seqDNSSEC(ci)
			// views and a non-empty blocklist decode every request ahead of the
			// cache; without them a wire-born request reaches the cache undecoded
			// and its byte ladder (exact copy, alias-chase composition, subtree
			// cut, cached failure) answers
			cfg.Views, cfg.Blocklist = nil, nil
		}
		st, err = stack.New(stack.Options{Config: cfg, Stub: ups.stub,
			Listen: stack.Listen{Plain: true, DoT: true, DoH: true, DoQ: true}})
		if err == nil {
			break
		}
		r.Count("stack_retries", 1)
	}
	if err != nil {
		return nil, err
	}
	return &monitor{r: r, st: st, ups: ups, cs: cs, ci: ci}, nil
}

func main() {
	r := vlib.Start("C06", "exploration")
	r.Assume("the scripted stub stands in for the resolver/forwarder: anything a dns.Msg can express may come back from upstream")
	r.Assume("replycontract classifies 'undecodable' with the same library decoder (miekg/dns) the server falls back to")
	r.Assume("reply classes that need a non-loopback client (BADCOOKIE, rate-limited, access-denied, views) are driven through the in-process entries with synthetic client addresses")
	r.Assume("sequences: virtual time = (*Cache).VerifAdvance rewriting stored instants at quiescent points (one request at a time); an operator purge = Cache.Purge; validated-negative provenance is attached by the stub as the resolver would (MarkValidatedNegativeProofResponse), signatures are placeholders the cache never checks")

	if raw := r.ReplayCase(); raw != nil {
		replay(r, raw)
		r.Finish("replay of one recorded case")
		return
	}

	total := 0
	for ci := range confs {
		mo, err := newMonitor(r, ci, false)
		if err != nil {
			r.Fatalf("stack: %v", err)
		}
		before := mo.st.Counters()
		batches := r.N(1, 100)
		for batch := 0; batch < batches; batch++ {
			rng := r.RandN("cases", ci*1000+batch)
			idx := ci*10_000_000 + batch*50_000
			var cases []*Case
			nPair, nSize, nSpecial, nCookie := 900, 180, 100, 40
			for i := 0; i < nPair; i++ {
				idx++
				cases = append(cases, genPairCase(rng, idx, ci, i%workers))
			}
			for i := 0; i < nSize; i++ {
				idx++
				cases = append(cases, genSizeCase(rng, idx, ci, i%workers))
			}
			for i := 0; i < nSpecial; i++ {
				idx++
				cases = append(cases, genSpecialCase(rng, idx, ci, i%workers))
			}
			for i := 0; i < nCookie; i++ {
				idx++
				cases = append(cases, genCookieCase(rng, idx, ci))
			}
			for i := 0; i < 3; i++ {
				idx++
				cases = append(cases, genDeniedCase(rng, idx, ci))
			}
			idx++
			cases = append(cases, genFloodCase(rng, idx, ci))
			cases = append(cases, genHeaderCases2(rng, &idx, ci, mo.cs.ECS)...)
			rng.Shuffle(len(cases), func(i, j int) { cases[i], cases[j] = cases[j], cases[i] })
			if ci == 0 && batch == 0 && len(cases) > 3 {
				for _, c := range cases[:3] {
					r.Sample(map[string]any{"kind": c.Kind, "upstream": c.UpstreamDesc, "probes": len(c.Probes), "first": c.Probes[0]})
				}
			}
			mo.runAll(cases)
			total += len(cases)
		}
		if !mo.st.Quiesce(5 * time.Second) {
			r.Inconclusive("stack did not quiesce")
		}
		after := mo.st.Counters()
		r.Count("server/udp_drop_ignored", int(after["udp_drop_ignored"]-before["udp_drop_ignored"]))
		r.Count("server/tcp_drop_ignored", int(after["tcp_drop_ignored"]-before["tcp_drop_ignored"]))
		r.Count("server/udp_inline_served", int(after["udp_inline_served"]-before["udp_inline_served"]))
		r.Count("stub_calls", int(mo.st.Stub().Total()))
		mo.st.Close()

		total += runSequences(r, ci)
	}
	r.Count("cases", total)
	r.Note("configs", confs)

	// every transport and every reply class the verdict speaks about
	for _, tr := range []string{"udp", "tcp", "dot", "doh", "doq"} {
		r.Require("transport/"+tr, int64(r.N(600, 60000)))
	}
	for cls, min := range map[string]int64{
		"noerror-answer": 1500, "noerror-nodata": 150, "nxdomain": 150, "servfail": 100, "truncated": 200,
		"badvers": 60, "badcookie": 30, "bare-formerr": 100, "bare-notimp": 100,
	} {
		r.Require("class/"+cls, min)
	}
	// queries with options outside COOKIE/NSID/ECS/keepalive/padding, per reply
	// class written by a different piece of code: the edns writer (answers,
	// negative, failures, truncation), and the rcode-only replies written
	// outside it (BADVERS; BADCOOKIE ahead of the edns middleware)
	for cls, min := range map[string]int64{
		"noerror-answer": 500, "noerror-nodata": 80, "nxdomain": 150, "servfail": 100, "truncated": 100,
		"badvers": 24, "badcookie": 60,
	} {
		r.Require("foreign-opt/"+cls, min)
	}
	for _, tr := range []string{"udp", "tcp", "dot", "doh", "doq"} {
		r.Require("foreign-opt/transport/"+tr, 80)
	}
	r.Require("udp_replies_over_512", 100)
	r.Require("noreply/udp", 10)            // QR=1 / denied / rate-limited packets went unanswered
	r.Require("server/udp_drop_ignored", 8) // … and the engine counted the QR=1 ones as ignored
	r.Require("server/tcp_drop_ignored", 8)
	r.Require("outcome/raw/silent", 10) // access-denied + rate-limited via strict job
	r.Require("strict_branch", 1000)
	r.Require("inline_served", 30)
	requireSequences(r)
	r.Finish("every reply observed on every transport/entry is judged by replycontract.Check (the C06 statement) against the exact query bytes that produced it; distinct = (case kind, transport, reply class, client EDNS shape, size bucket, upstream shape; for sequences: chain shape, stored AD bits of the cached hops, serving rung)")
}

func replay(r *vlib.Run, raw json.RawMessage) {
	var doc struct {
		Case Case `json:"case"`
	}
	if err := json.Unmarshal(raw, &doc); err != nil || len(doc.Case.Probes)+len(doc.Case.Steps) == 0 {
		fmt.Fprintln(os.Stderr, "replay: not a C06 case:", err)
		r.Inconclusive("replay file is not a C06 case")
		return
	}
	c := doc.Case
	mo, err := newMonitor(r, c.Config, len(c.Steps) > 0)
	if err != nil {
		r.Fatalf("stack: %v", err)
	}
	defer mo.st.Close()
	cl := mo.st.NewClient("127.66.0.1")
	defer cl.Close()
	if len(c.Steps) > 0 {
		mo.runSeq(&c, cl)
		return
	}
	for i := range c.Probes {
		if c.Probes[i].Entry == "sock" {
			c.Probes[i].Client = cl.SrcIP
		}
	}
	mo.runCase(&c, cl)
}
