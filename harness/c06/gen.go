package main

import (
	"encoding/hex"
	"fmt"
	"math/rand/v2"
	"net"
	"strings"

	"github.com/miekg/dns"
)

// ---------------------------------------------------------------------
// Serialisable case model
// ---------------------------------------------------------------------

// OptSpec is one EDNS option as raw bytes.
type OptSpec struct {
	Code uint16 `json:"code"`
	Hex  string `json:"hex"`
}

// QSpec describes one client query (the packed form is what is sent; the
// spec is kept so a replay file is readable).
type QSpec struct {
	Name    string    `json:"name"`
	Type    uint16    `json:"type"`
	Class   uint16    `json:"class"`
	ID      uint16    `json:"id"`
	RD      bool      `json:"rd"`
	CD      bool      `json:"cd"`
	AD      bool      `json:"ad"`
	EDNS    bool      `json:"edns"`
	Version uint8     `json:"version,omitempty"`
	UDPSize uint16    `json:"udpsize,omitempty"`
	DO      bool      `json:"do,omitempty"`
	Opts    []OptSpec `json:"opts,omitempty"`
}

// Probe is one client exchange of a case.
type Probe struct {
	Entry     string `json:"entry"`     // sock | msg | raw | engine
	Transport string `json:"transport"` // sock: udp tcp dot doh-get doh-post doq; msg: udp tcp doh doq; raw/engine: udp tcp
	Client    string `json:"client"`    // sock: source IP; in-process: ip:port
	Q         *QSpec `json:"q,omitempty"`
	QueryHex  string `json:"query_hex"` // the exact packet (filled at execution when CookieEcho rewrites it)
	// CookieEcho: replace the cookie option by the full server cookie the
	// previous reply of this case carried (a well-behaved RFC 7873 client).
	CookieEcho bool `json:"cookie_echo,omitempty"`
	// Silent marks a probe no reply is expected for (short read timeout).
	Silent bool `json:"silent,omitempty"`
	// Sequence cases, filled at execution: State = stored AD bit of every
	// chain hop cached under the probe's CD key just before the probe ('-' =
	// not cached); Rung = the cache rung that produced the reply.
	State string `json:"state,omitempty"`
	Rung  string `json:"rung,omitempty"`
}

// Case is one (upstream response, probes…) scenario under one configuration.
type Case struct {
	Index  int    `json:"index"`
	Kind   string `json:"kind"`
	Config int    `json:"config"`
	QName  string `json:"qname"`
	QType  uint16 `json:"qtype"`
	// UpstreamHex is the packed scripted upstream response ("" = the stub's
	// default marker answer). UpstreamReqOPT replaces its OPT by the live
	// request's own OPT (pointer identity, as resolver.clearAdditional does).
	UpstreamHex    string  `json:"upstream_hex,omitempty"`
	UpstreamReqOPT bool    `json:"upstream_req_opt,omitempty"`
	UpstreamDesc   string  `json:"upstream_desc,omitempty"`
	Probes         []Probe `json:"probes"`
	// Sequence cases (seq.go): the alias chain's names and the operations.
	Chain []string `json:"chain,omitempty"`
	Steps []Step   `json:"steps,omitempty"`
}

// ---------------------------------------------------------------------
// Query packets
// ---------------------------------------------------------------------

func (q *QSpec) msg() *dns.Msg {
	m := new(dns.Msg)
	m.Id = q.ID
	m.RecursionDesired = q.RD
	m.CheckingDisabled = q.CD
	m.AuthenticatedData = q.AD
	m.Question = []dns.Question{{Name: q.Name, Qtype: q.Type, Qclass: q.Class}}
	if q.EDNS {
		opt := &dns.OPT{Hdr: dns.RR_Header{Name: ".", Rrtype: dns.TypeOPT}}
		opt.SetUDPSize(q.UDPSize)
		opt.SetVersion(q.Version)
		if q.DO {
			opt.SetDo()
		}
		for _, o := range q.Opts {
			b, _ := hex.DecodeString(o.Hex)
			opt.Option = append(opt.Option, &dns.EDNS0_LOCAL{Code: o.Code, Data: b})
		}
		m.Extra = append(m.Extra, opt)
	}
	return m
}

func (q *QSpec) pack() []byte {
	b, err := q.msg().Pack()
	if err != nil {
		panic(fmt.Sprintf("c06: query pack: %v (%+v)", err, q))
	}
	return b
}

func (q *QSpec) clone() *QSpec {
	c := *q
	c.Opts = append([]OptSpec(nil), q.Opts...)
	return &c
}

func (q *QSpec) opt(code uint16) *OptSpec {
	for i := range q.Opts {
		if q.Opts[i].Code == code {
			return &q.Opts[i]
		}
	}
	return nil
}

var udpSizes = []uint16{0, 100, 511, 512, 513, 700, 1000, 1231, 1232, 1233, 1400, 4096, 65535}

func randBytes(rng *rand.Rand, n int) []byte {
	b := make([]byte, n)
	for i := range b {
		b[i] = byte(rng.UintN(256))
	}
	return b
}

func ecsOption(rng *rand.Rand, scope uint8) OptSpec {
	// well-formed RFC 7871 option: family, source prefix, scope, address
	if rng.IntN(4) == 0 {
		bits := []int{0, 32, 48, 56, 64, 128}[rng.IntN(6)]
		addr := append([]byte{0x20, 0x01, 0x0d, 0xb8}, randBytes(rng, 12)...)
		n := (bits + 7) / 8
		a := append([]byte(nil), addr[:n]...)
		if bits%8 != 0 && n > 0 {
			a[n-1] &= 0xFF << (8 - bits%8)
		}
		return OptSpec{dns.EDNS0SUBNET, hex.EncodeToString(append([]byte{0, 2, byte(bits), scope}, a...))}
	}
	bits := []int{0, 8, 16, 20, 24, 25, 32}[rng.IntN(7)]
	addr := []byte{198, 51, byte(rng.UintN(256)), byte(rng.UintN(256))}
	n := (bits + 7) / 8
	a := append([]byte(nil), addr[:n]...)
	if bits%8 != 0 && n > 0 {
		a[n-1] &= 0xFF << (8 - bits%8)
	}
	return OptSpec{dns.EDNS0SUBNET, hex.EncodeToString(append([]byte{0, 1, byte(bits), scope}, a...))}
}

// knownClientOption: the option codes the server has a rule of its own for
// (cookie, NSID request, client subnet, keepalive, padding). Everything else
// a client may put into its OPT is "foreign" to the server: it must ignore it
// and never send it back.
func knownClientOption(code uint16) bool {
	switch code {
	case dns.EDNS0COOKIE, dns.EDNS0NSID, dns.EDNS0SUBNET, dns.EDNS0TCPKEEPALIVE, dns.EDNS0PADDING:
		return true
	}
	return false
}

// foreignOptions draws 1–3 well-formed client options OUTSIDE the five codes
// the server handles: the registered ones no recursive server answers (LLQ,
// UL, DAU/DHU/N3U, EXPIRE, CHAIN, KEY-TAG, a client-sent EDE, client/server
// tag, report-channel, zoneversion), reserved / unassigned registry codes and
// the local/experimental range. Every payload has the length its decoder
// demands (LLQ 18, UL 4|8, EXPIRE 0|4, EDE >= 2) so the packet stays valid
// for every decoder; free-form payloads start with 'C' like the client's
// padding, so they never equal an upstream-style option of the same code.
func foreignOptions(rng *rand.Rand) []OptSpec {
	free := func(n int) []byte { return append([]byte("C"), randBytes(rng, n)...) }
	one := func() OptSpec {
		var code uint16
		var data []byte
		switch rng.IntN(14) {
		case 0: // LLQ (RFC 8764): version, opcode, error, id, lease
			code, data = dns.EDNS0LLQ, randBytes(rng, 18)
		case 1: // update lease
			code, data = dns.EDNS0UL, randBytes(rng, []int{4, 8}[rng.IntN(2)])
		case 2: // DAU / DHU / N3U (RFC 6975): algorithm list
			code, data = []uint16{dns.EDNS0DAU, dns.EDNS0DHU, dns.EDNS0N3U}[rng.IntN(3)], randBytes(rng, 1+rng.IntN(6))
		case 3: // EXPIRE (RFC 7314): empty in a query, or a stray value
			code = dns.EDNS0EXPIRE
			if rng.IntN(2) == 0 {
				data = randBytes(rng, 4)
			}
		case 4: // CHAIN (RFC 7901): closest trust point
			code, data = 13, wireName(fmt.Sprintf("c%d.chain.test.", rng.IntN(1000)))
		case 5: // KEY-TAG (RFC 8145)
			code, data = 14, randBytes(rng, 2*(1+rng.IntN(4)))
		case 6: // an EDE sent BY the client (info-code the server never uses, 'C…' text)
			code, data = dns.EDNS0EDE, append([]byte{0xC0, byte(rng.UintN(256))}, free(rng.IntN(20))...)
		case 7: // client-tag / server-tag
			code, data = uint16(16+rng.IntN(2)), randBytes(rng, 2)
		case 8: // report-channel (RFC 9567) / zoneversion (RFC 9660)
			if rng.IntN(2) == 0 {
				code, data = 18, wireName("C-agent.report.test.")
			} else { // label count, type, version (the decoder in use wants >= 2 bytes)
				code, data = 19, append([]byte{byte(rng.UintN(4)), 0}, randBytes(rng, 4)...)
			}
		case 9: // reserved / unassigned registry codes
			code, data = []uint16{0, 4, 20, 21, 26, 100, 4096, 20292, 26946, 65000, 65535}[rng.IntN(11)], free(rng.IntN(24))
		default: // local / experimental use
			code, data = uint16(65001+rng.IntN(534)), free(rng.IntN(40))
		}
		return OptSpec{code, hex.EncodeToString(data)}
	}
	var out []OptSpec
	seen := map[uint16]bool{}
	for n := 1 + rng.IntN(3); len(out) < n; {
		o := one()
		if seen[o.Code] {
			continue
		}
		seen[o.Code] = true
		out = append(out, o)
	}
	return out
}

// clientOptions draws a set of client-side EDNS options (each code at most
// once; all well-formed so that every decoder agrees the packet is valid).
func clientOptions(rng *rand.Rand, stream bool) []OptSpec {
	var out []OptSpec
	if rng.IntN(5) == 0 { // options the server has no rule for, riding along with any of the others
		out = append(out, foreignOptions(rng)...)
	}
	if rng.IntN(3) == 0 { // cookie: client-only, or with a (bogus) server part
		n := 8
		switch rng.IntN(4) {
		case 0:
			n = 16
		case 1:
			n = 8 + 8 + rng.IntN(25) // 16..40
		}
		out = append(out, OptSpec{dns.EDNS0COOKIE, hex.EncodeToString(randBytes(rng, n))})
	}
	if rng.IntN(3) == 0 {
		out = append(out, OptSpec{dns.EDNS0NSID, ""})
	}
	if rng.IntN(3) == 0 {
		out = append(out, ecsOption(rng, 0))
	}
	if rng.IntN(4) == 0 || (stream && rng.IntN(2) == 0) {
		h := ""
		if rng.IntN(3) == 0 {
			h = hex.EncodeToString([]byte{0, byte(1 + rng.UintN(250))})
		}
		out = append(out, OptSpec{dns.EDNS0TCPKEEPALIVE, h})
	}
	if rng.IntN(3) == 0 { // padding; client paddings start with 'C' so they never equal an upstream one
		out = append(out, OptSpec{dns.EDNS0PADDING, hex.EncodeToString(append([]byte("C"), randBytes(rng, rng.IntN(40))...))})
	}
	rng.Shuffle(len(out), func(i, j int) { out[i], out[j] = out[j], out[i] })
	return out
}

// clientOptionsExcept is clientOptions without one code.
func clientOptionsExcept(rng *rand.Rand, stream bool, code uint16) []OptSpec {
	var out []OptSpec
	for _, o := range clientOptions(rng, stream) {
		if o.Code != code {
			out = append(out, o)
		}
	}
	return out
}

// mixCase flips letter case at random (0x20 encoding).
func mixCase(rng *rand.Rand, name string) string {
	b := []byte(name)
	for i, c := range b {
		if c >= 'a' && c <= 'z' && rng.IntN(2) == 0 {
			b[i] = c - 32
		}
	}
	return string(b)
}

func genQuery(rng *rand.Rand, name string, qtype, qclass uint16, stream bool) *QSpec {
	q := &QSpec{Name: name, Type: qtype, Class: qclass, ID: uint16(rng.UintN(65536)), RD: rng.IntN(10) != 0}
	if q.ID == 0 {
		q.ID = 1
	}
	q.CD = rng.IntN(4) == 0
	q.AD = rng.IntN(4) == 0
	if rng.IntN(3) == 0 {
		q.Name = mixCase(rng, name)
	}
	if rng.IntN(4) != 0 {
		q.EDNS = true
		q.UDPSize = udpSizes[rng.IntN(len(udpSizes))]
		q.DO = rng.IntN(2) == 0
		if rng.IntN(3) != 0 {
			q.Opts = clientOptions(rng, stream)
		}
	}
	return q
}

// ---------------------------------------------------------------------
// Upstream responses
// ---------------------------------------------------------------------

func rrsig(owner string, covered uint16, rng *rand.Rand) dns.RR {
	return &dns.RRSIG{
		Hdr:         dns.RR_Header{Name: owner, Rrtype: dns.TypeRRSIG, Class: dns.ClassINET, Ttl: 300},
		TypeCovered: covered, Algorithm: dns.ECDSAP256SHA256, Labels: uint8(dns.CountLabel(owner)),
		OrigTtl: 300, Expiration: 2000000000, Inception: 1700000000, KeyTag: uint16(rng.UintN(65536)),
		SignerName: "test.", Signature: "c2lnbmF0dXJlLXBsYWNlaG9sZGVyLXNpZ25hdHVyZS1wbGFjZWhvbGRlci1zaWduYXR1cmUtcGxhY2Vob2xkZXI=",
	}
}

func dataRR(rng *rand.Rand, owner string, qtype uint16, i int) dns.RR {
	hdr := dns.RR_Header{Name: owner, Rrtype: qtype, Class: dns.ClassINET, Ttl: uint32(30 + rng.IntN(3000))}
	switch qtype {
	case dns.TypeA:
		return &dns.A{Hdr: hdr, A: net.IPv4(10, byte(i>>16), byte(i>>8), byte(i)).To4()}
	case dns.TypeAAAA:
		ip := net.ParseIP("2001:db8::")
		ip[13], ip[14], ip[15] = byte(i>>16), byte(i>>8), byte(i)
		return &dns.AAAA{Hdr: hdr, AAAA: ip}
	case dns.TypeMX:
		return &dns.MX{Hdr: hdr, Preference: uint16(i), Mx: fmt.Sprintf("mx%d.%s", i, owner)}
	case dns.TypeTXT:
		return &dns.TXT{Hdr: hdr, Txt: []string{fmt.Sprintf("t%d-%s", i, strings.Repeat("x", 20+rng.IntN(200)))}}
	case dns.TypeNS:
		return &dns.NS{Hdr: hdr, Ns: fmt.Sprintf("ns%d.%s", i, owner)}
	case dns.TypeRRSIG:
		return rrsig(owner, dns.TypeA, rng)
	case dns.TypeDNSKEY:
		return &dns.DNSKEY{Hdr: hdr, Flags: 256, Protocol: 3, Algorithm: dns.ECDSAP256SHA256,
			PublicKey: "GojIhhXUN/u4v54ZQqGSnyhWJwaubCvTmeexv7bR6edbkrSqQpF64cYbcB7wNcP+e+MAnLr+Wi9xMWyQLc8NAA=="}
	}
	hdr.Rrtype = dns.TypeTXT
	return &dns.TXT{Hdr: hdr, Txt: []string{"other"}}
}

func soaRR(zone string) dns.RR {
	return &dns.SOA{Hdr: dns.RR_Header{Name: zone, Rrtype: dns.TypeSOA, Class: dns.ClassINET, Ttl: 300},
		Ns: "ns." + zone, Mbox: "root." + zone, Serial: 1, Refresh: 3600, Retry: 600, Expire: 86400, Minttl: 60}
}

func nsecRR(owner, next string) dns.RR {
	return &dns.NSEC{Hdr: dns.RR_Header{Name: owner, Rrtype: dns.TypeNSEC, Class: dns.ClassINET, Ttl: 60},
		NextDomain: next, TypeBitMap: []uint16{dns.TypeA, dns.TypeRRSIG, dns.TypeNSEC}}
}

func nsec3RR(zone string, rng *rand.Rand) dns.RR {
	h := strings.ToLower(dns.HashName(fmt.Sprintf("x%d.%s", rng.IntN(1000), zone), dns.SHA1, 0, ""))
	return &dns.NSEC3{Hdr: dns.RR_Header{Name: h + "." + zone, Rrtype: dns.TypeNSEC3, Class: dns.ClassINET, Ttl: 60},
		Hash: dns.SHA1, Flags: 0, Iterations: 0, SaltLength: 0, Salt: "", HashLength: 20,
		NextDomain: h, TypeBitMap: []uint16{dns.TypeA, dns.TypeRRSIG}}
}

// upstreamOptions draws upstream-style options for the response OPT.
// Upstream paddings / unknown payloads start with 'U'.
func upstreamOptions(rng *rand.Rand) (opts []dns.EDNS0, desc []string) {
	if rng.IntN(3) == 0 {
		o := ecsOption(rng, uint8(rng.IntN(33)))
		b, _ := hex.DecodeString(o.Hex)
		opts = append(opts, &dns.EDNS0_LOCAL{Code: dns.EDNS0SUBNET, Data: b})
		desc = append(desc, "ecs")
	}
	if rng.IntN(4) == 0 {
		opts = append(opts, &dns.EDNS0_LOCAL{Code: dns.EDNS0COOKIE, Data: randBytes(rng, 16+rng.IntN(17))})
		desc = append(desc, "cookie")
	}
	if rng.IntN(3) == 0 {
		opts = append(opts, &dns.EDNS0_LOCAL{Code: dns.EDNS0TCPKEEPALIVE, Data: []byte{byte(rng.UintN(4)), byte(rng.UintN(256))}})
		desc = append(desc, "keepalive")
	}
	if rng.IntN(4) == 0 {
		opts = append(opts, &dns.EDNS0_LOCAL{Code: dns.EDNS0PADDING, Data: append([]byte("U"), randBytes(rng, rng.IntN(60))...)})
		desc = append(desc, "padding")
	}
	if rng.IntN(5) == 0 {
		opts = append(opts, &dns.EDNS0_LOCAL{Code: uint16(65001 + rng.IntN(500)), Data: append([]byte("U"), randBytes(rng, rng.IntN(12))...)})
		desc = append(desc, "unknown")
	}
	if rng.IntN(6) == 0 {
		opts = append(opts, &dns.EDNS0_LOCAL{Code: dns.EDNS0NSID, Data: []byte("upstream-nsid")})
		desc = append(desc, "nsid")
	}
	if rng.IntN(5) == 0 {
		opts = append(opts, &dns.EDNS0_EDE{InfoCode: uint16(rng.IntN(25)), ExtraText: "upstream says hi"})
		desc = append(desc, "ede")
	}
	return
}

// sizeClass picks the approximate packed size the response should reach.
func sizeClass(rng *rand.Rand) (name string, target int) {
	switch rng.IntN(10) {
	case 0, 1, 2, 3:
		return "small", 0
	case 4, 5:
		return "mid", 400 + rng.IntN(900) // around 512 … 1232
	case 6, 7:
		return "large", 1200 + rng.IntN(3000)
	case 8:
		return "big", 4000 + rng.IntN(12000)
	}
	return "huge", 20000 + rng.IntN(40000)
}

// genUpstream builds the scripted upstream response for (qname, qtype).
func genUpstream(rng *rand.Rand, qname string, qtype uint16) (m *dns.Msg, reqOPT bool, desc string) {
	m = new(dns.Msg)
	m.Response = true
	m.RecursionAvailable = true
	m.AuthenticatedData = rng.IntN(2) == 0
	m.Authoritative = rng.IntN(5) == 0
	var d []string
	zone := "test."
	signed := rng.IntN(2) == 0
	rtype := qtype
	if rtype == dns.TypeANY || rtype == dns.TypeDS || rtype == dns.TypeNSEC {
		rtype = dns.TypeTXT
	}

	kind := rng.IntN(20)
	switch {
	case kind < 11: // positive answer
		d = append(d, "answer")
		owner := qname
		if rng.IntN(5) == 0 && qtype != dns.TypeCNAME { // CNAME chain inside the response
			target := "t-" + qname
			m.Answer = append(m.Answer, &dns.CNAME{Hdr: dns.RR_Header{Name: owner, Rrtype: dns.TypeCNAME, Class: dns.ClassINET, Ttl: 120}, Target: target})
			if signed {
				m.Answer = append(m.Answer, rrsig(owner, dns.TypeCNAME, rng))
			}
			owner = target
			d = append(d, "cname")
		}
		n := 1 + rng.IntN(3)
		for i := 0; i < n; i++ {
			m.Answer = append(m.Answer, dataRR(rng, owner, rtype, i))
		}
		if signed && rtype != dns.TypeRRSIG {
			m.Answer = append(m.Answer, rrsig(owner, rtype, rng))
			d = append(d, "signed")
		}
		if rng.IntN(4) == 0 {
			m.Ns = append(m.Ns, dataRR(rng, zone, dns.TypeNS, 1))
			if signed {
				m.Ns = append(m.Ns, rrsig(zone, dns.TypeNS, rng))
			}
			m.Extra = append(m.Extra, dataRR(rng, "ns1."+zone, dns.TypeA, 7))
		}
	case kind < 14: // NODATA
		d = append(d, "nodata")
		m.Ns = append(m.Ns, soaRR(zone))
		if signed {
			m.Ns = append(m.Ns, rrsig(zone, dns.TypeSOA, rng), nsecRR(qname, "z."+zone), rrsig(qname, dns.TypeNSEC, rng))
			d = append(d, "signed")
		}
	case kind < 17: // NXDOMAIN
		d = append(d, "nxdomain")
		m.Rcode = dns.RcodeNameError
		m.Ns = append(m.Ns, soaRR(zone))
		if signed {
			m.Ns = append(m.Ns, rrsig(zone, dns.TypeSOA, rng))
			if rng.IntN(2) == 0 {
				m.Ns = append(m.Ns, nsecRR("a."+zone, "z."+zone), rrsig("a."+zone, dns.TypeNSEC, rng))
			} else {
				n3 := nsec3RR(zone, rng)
				m.Ns = append(m.Ns, n3, rrsig(n3.Header().Name, dns.TypeNSEC3, rng))
			}
			d = append(d, "signed")
		}
	case kind < 18:
		d = append(d, "servfail")
		m.Rcode = dns.RcodeServerFailure
	case kind < 19:
		d = append(d, "refused")
		m.Rcode = dns.RcodeRefused
	default:
		rc := []int{dns.RcodeNotImplemented, dns.RcodeFormatError, dns.RcodeNotAuth, dns.RcodeYXDomain}[rng.IntN(4)]
		m.Rcode = rc
		d = append(d, "rcode-"+dns.RcodeToString[rc])
	}

	// size padding (only meaningful for positive answers / nodata)
	cls, target := sizeClass(rng)
	if target > 0 && m.Rcode == dns.RcodeSuccess {
		d = append(d, cls)
		where := rng.IntN(3) // 0 answer, 1 additional, 2 authority
		if len(m.Answer) == 0 {
			where = 1 + rng.IntN(2)
		}
		owner := qname
		if len(m.Answer) > 0 {
			owner = m.Answer[len(m.Answer)-1].Header().Name
		}
		for i := 100; m.Len() < target && i < 5000; i++ {
			switch where {
			case 0:
				t := rtype
				if t == dns.TypeRRSIG || t == dns.TypeDNSKEY {
					t = dns.TypeTXT
				}
				m.Answer = append(m.Answer, dataRR(rng, owner, t, i))
			case 1:
				m.Extra = append(m.Extra, dataRR(rng, fmt.Sprintf("g%d.%s", i, zone), dns.TypeTXT, i))
			default:
				m.Ns = append(m.Ns, dataRR(rng, zone, dns.TypeNS, i))
			}
		}
	}
	if rng.IntN(12) == 0 {
		m.Truncated = true
		d = append(d, "tc")
	}

	// OPT
	switch rng.IntN(10) {
	case 0, 1, 2:
		d = append(d, "noopt")
	case 3, 4, 5, 6:
		reqOPT = true
		d = append(d, "reqopt")
	default:
		opt := &dns.OPT{Hdr: dns.RR_Header{Name: ".", Rrtype: dns.TypeOPT}}
		opt.SetUDPSize([]uint16{512, 1232, 4096}[rng.IntN(3)])
		if rng.IntN(2) == 0 {
			opt.SetDo()
		}
		var od []string
		opt.Option, od = upstreamOptions(rng)
		m.Extra = append(m.Extra, opt)
		d = append(d, "opt["+strings.Join(od, ",")+"]")
	}
	return m, reqOPT, strings.Join(d, " ")
}

// ---------------------------------------------------------------------
// Raw hostile packets for the header-level classes
// ---------------------------------------------------------------------

func hdr(id uint16, flags uint16, qd, an, ns, ar uint16) []byte {
	b := make([]byte, 12)
	b[0], b[1] = byte(id>>8), byte(id)
	b[2], b[3] = byte(flags>>8), byte(flags)
	b[4], b[5] = byte(qd>>8), byte(qd)
	b[6], b[7] = byte(an>>8), byte(an)
	b[8], b[9] = byte(ns>>8), byte(ns)
	b[10], b[11] = byte(ar>>8), byte(ar)
	return b
}

func wireName(name string) []byte {
	var out []byte
	for _, l := range dns.SplitDomainName(name) {
		out = append(out, byte(len(l)))
		out = append(out, l...)
	}
	return append(out, 0)
}

func question(name string, qtype, qclass uint16) []byte {
	b := wireName(name)
	return append(b, byte(qtype>>8), byte(qtype), byte(qclass>>8), byte(qclass))
}

type rawCase struct {
	Kind   string
	Pkt    []byte
	Silent bool
}

// genHeaderCases builds the header-level reject packets for one listener
// round: responses (QR=1), non-query opcodes, bad section counts,
// undecodable bodies, EDNS version != 0.
func genHeaderCases(rng *rand.Rand, tag string, ecs bool) []rawCase {
	var out []rawCase
	id := func() uint16 { return uint16(1 + rng.UintN(65535)) }
	name := func(k string) string {
		return mixCase(rng, fmt.Sprintf("%s-%s-%d.hdr.test.", k, tag, rng.UintN(1<<30)))
	}
	rd := func() uint16 { return uint16(rng.UintN(2)) << 8 }

	// packets that are themselves responses: never answered
	for i := 0; i < 3; i++ {
		flags := uint16(0x8000) | rd() | uint16(rng.UintN(16)) // QR + random rcode
		if i == 1 {
			flags |= uint16(1+rng.UintN(5)) << 11 // and a foreign opcode
		}
		p := append(hdr(id(), flags, 1, 0, 0, 0), question(name("qr"), dns.TypeA, dns.ClassINET)...)
		if i == 2 {
			p = hdr(id(), flags, 0, 0, 0, 0) // bare response header
		}
		out = append(out, rawCase{"qr1", p, true})
	}
	// non-query opcodes (1..15): NOTIMP
	for _, op := range []uint16{1, 2, 3, 4, 5, 6, uint16(7 + rng.UintN(9))} {
		flags := op<<11 | rd()
		p := append(hdr(id(), flags, 1, 0, 0, 0), question(name("op"), dns.TypeA, dns.ClassINET)...)
		if op == 5 && rng.IntN(2) == 0 { // UPDATE-shaped: zone + an update RR
			p = append(hdr(id(), flags, 1, 0, 1, 0), question("hdr.test.", dns.TypeSOA, dns.ClassINET)...)
			p = append(p, wireName("u.hdr.test.")...)
			p = append(p, 0, 1, 0, 1, 0, 0, 0, 60, 0, 4, 10, 0, 0, 1)
		}
		out = append(out, rawCase{fmt.Sprintf("opcode%d", op), p, false})
	}
	// bad section counts: FORMERR
	q1 := question(name("cnt"), dns.TypeA, dns.ClassINET)
	aRR := append(wireName("x.hdr.test."), 0, 1, 0, 1, 0, 0, 0, 60, 0, 4, 10, 0, 0, 1)
	out = append(out,
		rawCase{"qd0", hdr(id(), rd(), 0, 0, 0, 0), false},
		rawCase{"qd2", append(append(hdr(id(), rd(), 2, 0, 0, 0), q1...), question(name("cnt2"), dns.TypeA, dns.ClassINET)...), false},
		rawCase{"qd2-short", append(hdr(id(), rd(), 2, 0, 0, 0), q1...), false},
		rawCase{"an2", append(append(append(hdr(id(), rd(), 1, 2, 0, 0), q1...), aRR...), aRR...), false},
		rawCase{"ns2", append(append(append(hdr(id(), rd(), 1, 0, 2, 0), q1...), aRR...), aRR...), false},
		rawCase{"ar3", append(append(append(append(hdr(id(), rd(), 1, 0, 0, 3), q1...), aRR...), aRR...), aRR...), false},
		rawCase{"qd65535", append(hdr(id(), rd(), 65535, 0, 0, 0), q1...), false},
	)
	// acceptable header, undecodable body: FORMERR
	out = append(out,
		rawCase{"ptr-loop", append(hdr(id(), rd(), 1, 0, 0, 0), 0xC0, 0x0C, 0, 1, 0, 1), false},
		rawCase{"short-question", append(hdr(id(), rd(), 1, 0, 0, 0), 3, 'a', 'b'), false},
		rawCase{"no-question", hdr(id(), rd(), 1, 0, 0, 0), false},
		rawCase{"label-overrun", append(hdr(id(), rd(), 1, 0, 0, 0), 63, 'a', 'b', 'c', 0, 0, 1, 0, 1), false},
		rawCase{"rdlen-overrun", append(append(hdr(id(), rd(), 1, 0, 0, 1), q1...), 0, 0, 41, 4, 208, 0, 0, 0, 0, 0, 200, 1, 2), false},
		rawCase{"missing-ar", append(hdr(id(), rd(), 1, 0, 0, 1), q1...), false},
	)
	// EDNS version != 0: BADVERS
	for i := 0; i < 7; i++ {
		q := &QSpec{Name: name("vers"), Type: dns.TypeA, Class: dns.ClassINET, ID: id(), RD: true,
			EDNS: true, Version: uint8(1 + rng.UintN(255)), UDPSize: udpSizes[rng.IntN(len(udpSizes))], DO: rng.IntN(2) == 0}
		switch i {
		case 1, 2:
			q.Opts = append(q.Opts, ecsOption(rng, 0)) // known finding (4) when [ecs] is on
		case 3:
			q.Opts = clientOptions(rng, true)
		case 4:
			q.Opts = append(q.Opts, OptSpec{dns.EDNS0PADDING, hex.EncodeToString([]byte("Cpadpad"))}, OptSpec{dns.EDNS0NSID, ""})
		case 5:
			q.Opts = foreignOptions(rng)
		case 6:
			q.Opts = append(foreignOptions(rng), OptSpec{dns.EDNS0COOKIE, hex.EncodeToString(randBytes(rng, 8))})
		}
		k := "badvers"
		if q.opt(dns.EDNS0SUBNET) != nil {
			k = "badvers-ecs"
		}
		out = append(out, rawCase{k, q.pack(), false})
	}
	_ = ecs
	return out
}
