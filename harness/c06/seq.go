package main

// Cache-state SEQUENCES: replies composed from several cached pieces.
//
// A pair case (main.go) is one upstream response and a few probes of the same
// question. A sequence case scripts a small zone of its own — an alias chain
// of 0–3 CNAME hops ending in data / NODATA / NXDOMAIN / SERVFAIL, every hop
// with its own AD bit, signedness, TTL, EDE — and walks the cache through
// three phases:
//
//	admit   the hops are admitted (top-down through the cache's own chase, or
//	        bottom-up one question at a time with virtual time passing in
//	        between), under the CD=0 and the CD=1 key;
//	mutate  ONE hop is replaced: Cache.Purge (the API purge) or virtual-time
//	        expiry (VerifAdvance past that hop's TTL), the upstream now
//	        answering with other bits / another shape; the hop is re-admitted
//	        by a direct question, or left for the next alias hit to fetch;
//	warm    the alias (and descendants of a denied name) is asked with EVERY
//	        client flag combination (OPT × DO × AD × CD = 12) on the UDP, TCP
//	        and DoT sockets and through the strict-job entry, plus a few
//	        decoded-entry / DoH / DoQ probes.
//
// Every reply is judged by the unchanged reply contract. The phase runs on a
// stack of its own, one request at a time, so virtual time only moves at
// quiescent points and the cache's wire-ladder counters attribute each reply
// to the rung that produced it (exact copy, alias-chase composition, subtree
// cut, cached failure, decoded path).

import (
	"encoding/hex"
	"fmt"
	"math/rand/v2"
	"runtime"
	"strings"
	"time"

	"github.com/miekg/dns"

	"github.com/semihalev/sdns/middleware/cache"
	"github.com/semihalev/sdns/server"
	rc "github.com/semihalev/sdns/zzverif/replycontract"
	"github.com/semihalev/sdns/zzverif/stack"
	"github.com/semihalev/sdns/zzverif/vlib"
)

// NegSpec attaches resolver-validated negative provenance to a scripted
// answer (stack.StubReply.Negative): what the real resolver does after it
// validated an NXDOMAIN / NODATA proof. It is what admits RFC 8020 subtree
// cuts and RFC 8198 proofs (only on a stack with DNSSEC on).
type NegSpec struct {
	Subject string `json:"subject"`
	Zone    string `json:"zone"`
	NSEC3   bool   `json:"nsec3,omitempty"`
}

// Script is one scripted upstream answer of a sequence case.
type Script struct {
	Name string `json:"name"`
	Type uint16 `json:"type"`
	// CD: "" = any request; "0" / "1" = only requests carrying that CD bit
	// (an upstream may answer a checking-disabled question differently).
	CD     string   `json:"cd,omitempty"`
	Hex    string   `json:"hex"`
	ReqOPT bool     `json:"req_opt,omitempty"`
	Neg    *NegSpec `json:"neg,omitempty"`
	Desc   string   `json:"desc,omitempty"`
}

// Step is one operation of a sequence case.
type Step struct {
	Phase  string  `json:"phase"` // admit | mutate | warm
	Op     string  `json:"op"`    // script | purge | advance | probe
	Script *Script `json:"script,omitempty"`
	Name   string  `json:"name,omitempty"` // purge
	Type   uint16  `json:"type,omitempty"`
	Secs   int     `json:"secs,omitempty"` // advance
	Probe  *Probe  `json:"probe,omitempty"`
}

// ---------------------------------------------------------------------
// Scripted answers
// ---------------------------------------------------------------------

// ansSpec describes one hop's upstream answer.
type ansSpec struct {
	Kind    string // cname | data | nodata | nxdomain | servfail
	Target  string
	AD      bool
	Signed  bool
	TTL     uint32
	EDE     int  // -1 = none
	Baggage bool // authority NS + additional glue (the chase composer declines such hops)
	NSEC3   bool
	Neg     bool // validated-negative provenance (negative kinds only)
	OptMode int  // 0 no OPT, 1 the request's own OPT, 2 an OPT of its own
	NRR     int
}

func (a ansSpec) desc() string {
	var d []string
	d = append(d, a.Kind, fmt.Sprintf("ad=%v", a.AD), fmt.Sprintf("ttl=%d", a.TTL))
	if a.Signed {
		d = append(d, "signed")
	}
	if a.EDE >= 0 {
		d = append(d, fmt.Sprintf("ede%d", a.EDE))
	}
	if a.Baggage {
		d = append(d, "baggage")
	}
	if a.Neg {
		d = append(d, "validated")
	}
	if a.NSEC3 {
		d = append(d, "nsec3")
	}
	d = append(d, []string{"noopt", "reqopt", "ownopt"}[a.OptMode])
	return strings.Join(d, " ")
}

func seqSig(owner string, covered uint16, zone string, ttl uint32, rng *rand.Rand) dns.RR {
	return &dns.RRSIG{
		Hdr:         dns.RR_Header{Name: owner, Rrtype: dns.TypeRRSIG, Class: dns.ClassINET, Ttl: ttl},
		TypeCovered: covered, Algorithm: dns.ECDSAP256SHA256, Labels: uint8(dns.CountLabel(owner)),
		OrigTtl: ttl, Expiration: 2000000000, Inception: 1700000000, KeyTag: uint16(rng.UintN(65536)),
		SignerName: zone, Signature: "c2VxdWVuY2Utc2lnbmF0dXJlLXBsYWNlaG9sZGVyLXNlcXVlbmNlLXNpZ25hdHVyZS1wbGFjZWhvbGRlci0wMDAwMDAwMA==",
	}
}

func withTTL(rr dns.RR, ttl uint32) dns.RR { rr.Header().Ttl = ttl; return rr }

// buildScript renders the answer of one hop as a packed response.
func buildScript(rng *rand.Rand, name string, qtype uint16, a ansSpec, cd string) *Script {
	// every scripted name is <label>.<its zone>
	_, zone, _ := strings.Cut(strings.ToLower(name), ".")
	m := new(dns.Msg)
	m.Response = true
	m.RecursionAvailable = true
	m.AuthenticatedData = a.AD
	sign := func(sec *[]dns.RR, owner string, covered uint16, ttl uint32) {
		if a.Signed {
			*sec = append(*sec, seqSig(owner, covered, zone, ttl, rng))
		}
	}
	negative := func(rcode int) {
		m.Rcode = rcode
		soa := withTTL(soaRR(zone), a.TTL)
		soa.(*dns.SOA).Minttl = a.TTL
		m.Ns = append(m.Ns, soa)
		sign(&m.Ns, zone, dns.TypeSOA, a.TTL)
		if !a.Signed {
			return
		}
		// DNSSEC records in the authority section only
		if a.NSEC3 {
			for i := 0; i < 2; i++ {
				n3 := withTTL(nsec3RR(zone, rng), a.TTL)
				m.Ns = append(m.Ns, n3)
				sign(&m.Ns, n3.Header().Name, dns.TypeNSEC3, a.TTL)
			}
			return
		}
		lname := strings.ToLower(name)
		first, rest, _ := strings.Cut(lname, ".")
		if rcode == dns.RcodeNameError {
			// (first~' , first!) covers the name and everything below it;
			// the apex NSEC covers the source of synthesis *.zone
			prev := first[:len(first)-1] + string(first[len(first)-1]-1) + "~." + rest
			n := &dns.NSEC{Hdr: dns.RR_Header{Name: prev, Rrtype: dns.TypeNSEC, Class: dns.ClassINET, Ttl: a.TTL},
				NextDomain: first + "!." + rest, TypeBitMap: []uint16{dns.TypeA, dns.TypeRRSIG, dns.TypeNSEC}}
			m.Ns = append(m.Ns, n)
			sign(&m.Ns, prev, dns.TypeNSEC, a.TTL)
			apex := &dns.NSEC{Hdr: dns.RR_Header{Name: zone, Rrtype: dns.TypeNSEC, Class: dns.ClassINET, Ttl: a.TTL},
				NextDomain: "+." + zone, TypeBitMap: []uint16{dns.TypeNS, dns.TypeSOA, dns.TypeRRSIG, dns.TypeNSEC, dns.TypeDNSKEY}}
			m.Ns = append(m.Ns, apex)
			sign(&m.Ns, zone, dns.TypeNSEC, a.TTL)
			return
		}
		// NODATA: the name's own NSEC without the asked type
		types := []uint16{dns.TypeHINFO, dns.TypeRRSIG, dns.TypeNSEC}
		n := &dns.NSEC{Hdr: dns.RR_Header{Name: lname, Rrtype: dns.TypeNSEC, Class: dns.ClassINET, Ttl: a.TTL},
			NextDomain: first + "!." + rest, TypeBitMap: types}
		m.Ns = append(m.Ns, n)
		sign(&m.Ns, lname, dns.TypeNSEC, a.TTL)
	}

	var neg *NegSpec
	switch a.Kind {
	case "cname":
		m.Answer = append(m.Answer, &dns.CNAME{Hdr: dns.RR_Header{Name: name, Rrtype: dns.TypeCNAME, Class: dns.ClassINET, Ttl: a.TTL}, Target: a.Target})
		sign(&m.Answer, name, dns.TypeCNAME, a.TTL)
	case "data":
		n := a.NRR
		if n < 1 {
			n = 1
		}
		for i := 0; i < n; i++ {
			m.Answer = append(m.Answer, withTTL(dataRR(rng, name, qtype, 40+i), a.TTL))
		}
		sign(&m.Answer, name, m.Answer[0].Header().Rrtype, a.TTL)
	case "nodata":
		negative(dns.RcodeSuccess)
	case "nxdomain":
		negative(dns.RcodeNameError)
	case "servfail":
		m.Rcode = dns.RcodeServerFailure
	}
	if a.Neg && (a.Kind == "nodata" || a.Kind == "nxdomain") && a.Signed {
		neg = &NegSpec{Subject: strings.ToLower(name), Zone: zone, NSEC3: a.NSEC3}
	}
	if a.Baggage && m.Rcode == dns.RcodeSuccess && len(m.Answer) > 0 {
		m.Ns = append(m.Ns, withTTL(dataRR(rng, zone, dns.TypeNS, 1), a.TTL))
		sign(&m.Ns, zone, dns.TypeNS, a.TTL)
		m.Extra = append(m.Extra, withTTL(dataRR(rng, "ns1."+zone, dns.TypeA, 9), a.TTL))
	}
	reqOPT := false
	switch a.OptMode {
	case 1:
		reqOPT = true
	case 2:
		opt := &dns.OPT{Hdr: dns.RR_Header{Name: ".", Rrtype: dns.TypeOPT}}
		opt.SetUDPSize(1232)
		opt.SetDo()
		if a.EDE >= 0 {
			opt.Option = append(opt.Option, &dns.EDNS0_EDE{InfoCode: uint16(a.EDE), ExtraText: fmt.Sprintf("scripted ede %d", a.EDE)})
		}
		if rng.IntN(4) == 0 {
			more, _ := upstreamOptions(rng)
			for _, o := range more {
				if _, isEDE := o.(*dns.EDNS0_EDE); !isEDE {
					opt.Option = append(opt.Option, o)
				}
			}
		}
		m.Extra = append(m.Extra, opt)
	}
	b, err := m.Pack()
	if err != nil {
		panic(fmt.Sprintf("c06: sequence script pack: %v", err))
	}
	return &Script{Name: name, Type: qtype, CD: cd, Hex: hex.EncodeToString(b), ReqOPT: reqOPT, Neg: neg, Desc: a.desc()}
}

// ---------------------------------------------------------------------
// Client shapes
// ---------------------------------------------------------------------

type flagCombo struct{ OPT, DO, AD, CD bool }

func (f flagCombo) String() string {
	b := func(v bool) byte {
		if v {
			return '1'
		}
		return '0'
	}
	return fmt.Sprintf("opt%c-do%c-ad%c-cd%c", b(f.OPT), b(f.DO), b(f.AD), b(f.CD))
}

// flagCombos: every DO/AD/CD combination with an OPT, every AD/CD one without.
var flagCombos = func() []flagCombo {
	var out []flagCombo
	for i := 0; i < 4; i++ {
		out = append(out, flagCombo{OPT: false, AD: i&1 != 0, CD: i&2 != 0})
	}
	for i := 0; i < 8; i++ {
		out = append(out, flagCombo{OPT: true, DO: i&1 != 0, AD: i&2 != 0, CD: i&4 != 0})
	}
	return out
}()

// seqEntries are the four byte-path entry classes every warm round covers.
var seqEntries = []string{"udp", "tcp", "dot", "job"}

func seqProbe(rng *rand.Rand, idx int, name string, qtype uint16, fc flagCombo, entry string) Probe {
	var p Probe
	switch entry {
	case "udp", "tcp", "dot":
		p.Entry, p.Transport = "sock", entry
	case "job":
		p.Entry = []string{"raw", "raw", "engine"}[rng.IntN(3)]
		p.Transport = "udp"
		if p.Entry == "raw" && rng.IntN(3) == 0 {
			p.Transport = "tcp"
		}
		// a loopback-range synthetic client: outside the per-client limiter,
		// so a long warm round is never answered by silence
		p.Client = fmt.Sprintf("127.77.%d.%d:%d", idx>>8&0xff, idx&0xff, 1024+rng.IntN(60000))
	case "msg":
		p.Entry = "msg"
		p.Transport = []string{"udp", "tcp", "doh", "doq"}[rng.IntN(4)]
		p.Client = fmt.Sprintf("127.77.%d.%d:%d", idx>>8&0xff, idx&0xff, 1024+rng.IntN(60000))
	default: // doh-get doh-post doq
		p.Entry, p.Transport = "sock", entry
	}
	q := &QSpec{Name: name, Type: qtype, Class: dns.ClassINET, ID: uint16(1 + rng.UintN(65535)),
		RD: rng.IntN(20) != 0, CD: fc.CD, AD: fc.AD}
	if rng.IntN(4) == 0 {
		q.Name = mixCase(rng, name)
	}
	if fc.OPT {
		q.EDNS = true
		q.DO = fc.DO
		q.UDPSize = []uint16{1232, 1232, 4096, 4096, 512, 0, 700, 1400, 65535}[rng.IntN(9)]
		if rng.IntN(2) == 0 {
			for _, o := range clientOptions(rng, isStream(p.Transport)) {
				// a client-subnet option takes the request off the byte path
				// (pair cases cover it); keep it rare here
				if o.Code == dns.EDNS0SUBNET && rng.IntN(5) != 0 {
					continue
				}
				q.Opts = append(q.Opts, o)
			}
		}
	}
	p.Q = q
	return p
}

// ---------------------------------------------------------------------
// Generator
// ---------------------------------------------------------------------

var seqQtypes = []uint16{dns.TypeA, dns.TypeA, dns.TypeA, dns.TypeAAAA, dns.TypeAAAA, dns.TypeTXT, dns.TypeTXT, dns.TypeMX}

func pickTTL(rng *rand.Rand, short bool) uint32 {
	if short {
		return uint32(6 + rng.IntN(15)) // 6..20 s: above the cache's 5 s floor
	}
	return []uint32{60, 120, 300, 600, 3600}[rng.IntN(5)]
}

func randSpec(rng *rand.Rand, kind, target string) ansSpec {
	a := ansSpec{Kind: kind, Target: target, AD: rng.IntN(4) != 0, Signed: rng.IntN(10) < 3, TTL: pickTTL(rng, false),
		EDE: -1, NRR: 1 + rng.IntN(2)}
	if kind == "nodata" || kind == "nxdomain" {
		a.Signed = rng.IntN(5) != 0
		a.NSEC3 = rng.IntN(4) == 0
		a.Neg = rng.IntN(2) == 0
	}
	a.OptMode = []int{0, 1, 1, 2}[rng.IntN(4)]
	if rng.IntN(6) == 0 {
		a.EDE = []int{3, 6, 9, 10, 13, 18, 22, 24}[rng.IntN(8)]
		a.OptMode = 2
	}
	if kind == "servfail" && rng.IntN(2) == 0 {
		a.EDE = []int{6, 7, 9, 22, 23}[rng.IntN(5)]
		a.OptMode = 2
	}
	a.Baggage = (kind == "cname" || kind == "data") && rng.IntN(12) == 0
	return a
}

// genSeqCase builds one sequence. flavour biases the shape:
//
//	alias     1–3 CNAME hops, data at the end (mostly)
//	negative  no alias; signed NXDOMAIN / NODATA (DNSSEC records in authority only)
//	cut       no alias; validated NXDOMAIN, descendants asked (RFC 8020 subtree cut)
//	ede       no alias; an EDE-bearing answer of any kind
//	failure   SERVFAIL at the end of 0–1 hops (RFC 9520 failure cache)
func genSeqCase(rng *rand.Rand, idx, ci int, flavour string) *Case {
	zone := fmt.Sprintf("z%d-%d.seq.test.", idx, ci)
	qtype := seqQtypes[rng.IntN(len(seqQtypes))]
	c := &Case{Index: idx, Kind: "seq/" + flavour, Config: ci, QType: qtype}

	k := 0
	termKind := "data"
	switch flavour {
	case "alias":
		k = 1 + rng.IntN(3)
		switch rng.IntN(12) {
		case 0:
			termKind = "nodata"
		case 1:
			termKind = "nxdomain"
		}
	case "negative":
		termKind = []string{"nodata", "nxdomain"}[rng.IntN(2)]
	case "cut":
		termKind = "nxdomain"
	case "ede":
		termKind = []string{"data", "data", "nodata", "nxdomain"}[rng.IntN(4)]
	case "failure":
		k = rng.IntN(2)
		termKind = "servfail"
	}
	names := make([]string, k+1)
	for i := range names {
		names[i] = fmt.Sprintf("h%d.%s", i, zone)
	}
	if k > 0 && rng.IntN(4) == 0 {
		names[k] = fmt.Sprintf("h%d.z%d-%d.far.test.", k, idx, ci) // out-of-zone target
	}
	c.QName = names[0]
	c.Chain = names

	specs := make([]ansSpec, k+1)
	for i := 0; i < k; i++ {
		specs[i] = randSpec(rng, "cname", names[i+1])
	}
	specs[k] = randSpec(rng, termKind, "")
	switch flavour {
	case "negative":
		specs[k].Signed = true
	case "cut":
		specs[k].Signed, specs[k].Neg, specs[k].NSEC3, specs[k].AD = true, true, rng.IntN(5) == 0, true
	case "ede":
		specs[k].EDE, specs[k].OptMode = []int{3, 6, 9, 10, 18, 22, 24}[rng.IntN(7)], 2
	}
	if rng.IntN(3) == 0 {
		// a uniformly signed / unsigned chain
		s := rng.IntN(2) == 0
		for i := range specs {
			if specs[i].Kind == "cname" || specs[i].Kind == "data" {
				specs[i].Signed = s
			}
		}
	}

	// which hop is replaced, and how
	j := rng.IntN(k + 1)
	mode := []string{"purge", "purge", "expire", "expire", "none"}[rng.IntN(5)]
	if rng.IntN(12) != 0 && mode == "none" {
		mode = "purge"
	}
	if mode == "expire" {
		for i := range specs {
			if i == j {
				specs[i].TTL = pickTTL(rng, true)
			} else if specs[i].TTL < 60 {
				specs[i].TTL = 60
			}
		}
	}

	step := func(phase, op string) *Step {
		c.Steps = append(c.Steps, Step{Phase: phase, Op: op})
		return &c.Steps[len(c.Steps)-1]
	}
	script := func(phase string, i int, a ansSpec) {
		step(phase, "script").Script = buildScript(rng, names[i], qtype, a, "")
		if rng.IntN(4) == 0 {
			// the upstream answers checking-disabled questions with another AD bit
			b := a
			b.AD = !a.AD
			step(phase, "script").Script = buildScript(rng, names[i], qtype, b, "1")
		}
	}
	anyEntry := func() string {
		return []string{"udp", "tcp", "dot", "job", "job", "msg", "doh-post", "doq"}[rng.IntN(8)]
	}
	// admit asks one name under both CD keys with otherwise random flags
	admit := func(phase string, i int) {
		order := []bool{false, true}
		if rng.IntN(2) == 0 {
			order[0], order[1] = true, false
		}
		for _, cd := range order {
			fc := flagCombo{OPT: rng.IntN(4) != 0, AD: rng.IntN(3) == 0, CD: cd}
			fc.DO = fc.OPT && rng.IntN(2) == 0
			p := seqProbe(rng, idx, names[i], qtype, fc, anyEntry())
			p.Q.RD = true
			step(phase, "probe").Probe = &p
		}
	}

	// ---- admit ----
	for i := range specs {
		script("admit", i, specs[i])
	}
	if k == 0 || rng.IntN(2) == 0 {
		admit("admit", 0) // top-down: the cache's own chase fetches every hop
	} else {
		for i := k; i >= 0; i-- { // bottom-up, the hops get different ages
			admit("admit", i)
			if i > 0 && mode != "expire" && rng.IntN(2) == 0 {
				step("admit", "advance").Secs = 1 + rng.IntN(3)
			}
		}
	}

	rounds := 1
	if rng.IntN(4) == 0 {
		rounds = 2
	}
	extra := k
	for round := 0; round < rounds; round++ {
		// ---- mutate ----
		if round > 0 {
			j = rng.IntN(k + 1)
			mode = "purge"
		}
		if mode != "none" {
			old := specs[j]
			kind, target := old.Kind, old.Target
			if rng.IntN(6) == 0 {
				// the hop changes shape
				if j < k {
					kind, target = []string{"data", "nodata", "nxdomain", "servfail"}[rng.IntN(4)], ""
				} else {
					switch rng.IntN(5) {
					case 0:
						extra++
						nn := fmt.Sprintf("h%d.%s", extra, zone)
						names = append(names, nn)
						c.Chain = names
						specs = append(specs, randSpec(rng, "data", ""))
						step("mutate", "script").Script = buildScript(rng, nn, qtype, specs[len(specs)-1], "")
						kind, target = "cname", nn
					case 1:
						kind = "nodata"
					case 2:
						kind = "nxdomain"
					case 3:
						kind = "servfail"
					default:
						kind = "data"
					}
				}
			}
			nw := randSpec(rng, kind, target)
			if rng.IntN(5) != 0 {
				nw.AD = !old.AD // usually the replacement's AD differs
			} else {
				nw.AD = rng.IntN(2) == 0
			}
			if rng.IntN(2) == 0 && (kind == "cname" || kind == "data") {
				nw.Signed = old.Signed
			}
			if flavour == "negative" && (kind == "nodata" || kind == "nxdomain") {
				nw.Signed = true
			}
			specs[j] = nw
			script("mutate", j, nw)
			switch mode {
			case "purge":
				s := step("mutate", "purge")
				s.Name, s.Type = names[j], qtype
			case "expire":
				step("mutate", "advance").Secs = int(old.TTL) + 1 + rng.IntN(4)
			}
			if rng.IntN(10) < 7 {
				admit("mutate", j) // re-admitted by a direct question …
			} // … or left for the next alias hit to fetch
		}

		// ---- warm ----
		var warm []Probe
		for _, e := range seqEntries {
			for _, fc := range flagCombos {
				warm = append(warm, seqProbe(rng, idx, names[0], qtype, fc, e))
			}
		}
		for i := 0; i < 3; i++ {
			warm = append(warm, seqProbe(rng, idx, names[0], qtype, flagCombos[rng.IntN(len(flagCombos))],
				[]string{"msg", "doh-get", "doh-post", "doq"}[rng.IntN(4)]))
		}
		for i := 0; i < 4 && k > 0; i++ { // intermediate hops and the target itself
			warm = append(warm, seqProbe(rng, idx, names[1+rng.IntN(k)], qtype, flagCombos[rng.IntN(len(flagCombos))],
				seqEntries[rng.IntN(len(seqEntries))]))
		}
		// descendants of a denied name: the RFC 8020 subtree cut / RFC 8198 proofs
		for i := range specs {
			if specs[i].Kind != "nxdomain" || i >= len(names) {
				continue
			}
			n := 6
			if flavour == "cut" {
				n = 30
			}
			for x := 0; x < n; x++ {
				below := fmt.Sprintf("d%d.%s", rng.IntN(4), names[i])
				if rng.IntN(2) == 0 {
					below = "www." + below
				}
				qt := []uint16{dns.TypeA, dns.TypeAAAA, dns.TypeTXT, dns.TypeMX, dns.TypeRRSIG, qtype}[rng.IntN(6)]
				warm = append(warm, seqProbe(rng, idx, below, qt, flagCombos[(x+rng.IntN(2))%len(flagCombos)],
					seqEntries[rng.IntN(len(seqEntries))]))
			}
		}
		rng.Shuffle(len(warm), func(a, b int) { warm[a], warm[b] = warm[b], warm[a] })
		for i := range warm {
			p := warm[i]
			step("warm", "probe").Probe = &p
		}
	}

	var d []string
	for i := range specs {
		d = append(d, specs[i].Kind)
	}
	c.UpstreamDesc = fmt.Sprintf("k=%d %s replace=%s@%d", k, strings.Join(d, ">"), mode, j)
	return c
}

// allScripts lists every scripted answer of a sequence case.
func (c *Case) allScripts() []*Script {
	var out []*Script
	for i := range c.Steps {
		if c.Steps[i].Script != nil {
			out = append(out, c.Steps[i].Script)
		}
	}
	return out
}

// ---------------------------------------------------------------------
// Executor
// ---------------------------------------------------------------------

// chainState reads, without touching anything, the stored AD bit of every
// chain hop cached under (hop, qtype, cd): '1' / '0', '-' when not cached.
func (mo *monitor) chainState(c *Case, cd bool) string {
	st := mo.st.Cache().VerifStore()
	b := make([]byte, len(c.Chain))
	for i, n := range c.Chain {
		req := new(dns.Msg)
		req.SetQuestion(n, c.QType)
		req.CheckingDisabled = cd
		b[i] = '-'
		if e, ok := st.Lookup(req); ok && e != nil && !e.IsExpired() {
			if w, _ := cache.VerifC15EntryWire(e); len(w) >= 12 {
				b[i] = '0'
				if w[3]&0x20 != 0 {
					b[i] = '1'
				}
			}
		}
	}
	return string(b)
}

// mixedAD: at least two cached hops, with different stored AD bits.
func mixedAD(state string) bool {
	return strings.Contains(state, "1") && strings.Contains(state, "0")
}

// settle waits until the listeners' slabs are back (the handler has returned
// and its counters are final). Never a verdict: a slow server only blurs the
// per-rung attribution of one probe.
func (mo *monitor) settle() {
	for i := 0; i < 2000; i++ {
		if mo.st.Server.Quiesced() {
			return
		}
		if i < 200 {
			runtime.Gosched()
		} else {
			time.Sleep(20 * time.Microsecond)
		}
	}
}

func rungOf(before, after map[string]int64) string {
	d := func(k string) int64 { return after[k] - before[k] }
	switch {
	case d("chase_served") > 0:
		return "chase"
	case d("cut_served") > 0:
		return "cut"
	case d("failure_served") > 0:
		return "failure"
	case d("served") > 0:
		return "exact"
	}
	return "decoded"
}

func entryTag(p *Probe) string {
	switch p.Entry {
	case "sock":
		return p.Transport
	case "raw", "engine":
		return "job-" + p.Transport
	}
	return "msg"
}

// runSeq executes one sequence case. Sequences run one at a time on a stack
// of their own (seqShapes is not locked).
func (mo *monitor) runSeq(c *Case, cl *stack.Client) {
	r := mo.r
	var set []*Script
	defer func() {
		for _, s := range set {
			mo.ups.delScript(s)
		}
	}()
	jobs := map[string]*server.VerifStrictJob{}
	lastCookie := ""
	for si := range c.Steps {
		s := &c.Steps[si]
		switch s.Op {
		case "script":
			mo.ups.setScript(s.Script)
			set = append(set, s.Script)
		case "purge":
			if !mo.st.Quiesce(5 * time.Second) {
				r.Inconclusive("stack did not quiesce before a purge")
				return
			}
			mo.st.Cache().Purge(dns.Question{Name: s.Name, Qtype: s.Type, Qclass: dns.ClassINET})
			r.Count("seq/ops/purge", 1)
		case "advance":
			if !mo.st.Quiesce(5 * time.Second) {
				r.Inconclusive("stack did not quiesce before a clock advance")
				return
			}
			mo.st.Cache().VerifAdvance(time.Duration(s.Secs) * time.Second)
			r.Count("seq/ops/advance", 1)
		case "probe":
			p := s.Probe
			if p.Entry == "sock" {
				p.Client = cl.SrcIP
			}
			q := p.Q
			if p.CookieEcho && lastCookie != "" {
				q = q.clone()
				if o := q.opt(dns.EDNS0COOKIE); o != nil {
					o.Hex = lastCookie
				}
			}
			query := q.pack()
			p.QueryHex = hex.EncodeToString(query)
			p.State = mo.chainState(c, q.CD)
			before := cache.VerifC05WireCounters()
			reply, note := mo.exec(p, query, cl, jobs)
			if p.Entry == "sock" {
				mo.settle()
			}
			after := cache.VerifC05WireCounters()
			p.Rung = rungOf(before, after)
			if note != "" {
				r.Count("outcome/"+p.Entry+"/"+note, 1)
			}
			clientIP := p.Client
			if p.Entry != "sock" {
				clientIP = hostOf(p.Client)
			}
			r.Count("probes/seq", 1)
			r.Count("seq/phase/"+s.Phase, 1)
			if reply != nil {
				tag := entryTag(p)
				fc := flagCombo{OPT: q.EDNS, DO: q.EDNS && q.DO, AD: q.AD, CD: q.CD}
				r.Count("seq/rung/"+p.Rung, 1)
				r.Count("seq/rung/"+p.Rung+"/"+tag, 1)
				if s.Phase == "warm" {
					r.Count("seq/warm/"+p.Rung, 1)
				}
				r.DistinctIn("seq_states", fmt.Sprintf("%s|%s|%s", c.Kind, p.State, p.Rung))
				if p.Rung != "decoded" {
					cls := strings.TrimPrefix(tag, "job-")
					if strings.HasPrefix(tag, "job-") {
						cls = "job"
					}
					mo.seqShape(p.Rung + "|" + cls + "|" + fc.String())
					r.DistinctIn("seq_wire_shapes", fmt.Sprintf("%s|%s|%s|%s", p.Rung, tag, fc, rc.Class(reply)))
				}
				if p.Rung == "chase" {
					if mixedAD(p.State) {
						r.Count("seq/chase_mixed_ad", 1)
						if !fc.CD && !fc.DO && !fc.AD {
							r.Count("seq/chase_mixed_ad/plain-client", 1)
						}
					}
					if strings.Contains(p.State, "1") && !strings.Contains(p.State, "0") {
						r.Count("seq/chase_all_ad", 1)
					}
				}
				if p.Rung == "exact" && s.Phase == "warm" && len(reply) > 3 && reply[3]&0x0f == dns.RcodeNameError {
					r.Count("seq/exact_nxdomain", 1)
				}
			}
			mo.judgeWith(c, func() any {
				wit := *c
				wit.Steps = append([]Step(nil), c.Steps[:si+1]...)
				return wit
			}, si, p.Transport, clientIP, query, reply, fmt.Sprintf("%s %s %s", c.UpstreamDesc, p.State, p.Rung))
			if ck := serverCookieFrom(reply); ck != "" {
				lastCookie = ck
			}
		}
	}
}

// seqShapes: distinct (rung, entry class, client flag combination) served from
// bytes, over all configurations (sequences run one at a time).
var seqShapes = map[string]bool{}

func (mo *monitor) seqShape(k string) { seqShapes[k] = true }

func countSeqShapes(rung string) int {
	n := 0
	for k := range seqShapes {
		if strings.HasPrefix(k, rung+"|") {
			n++
		}
	}
	return n
}

// ---------------------------------------------------------------------
// The sequence phase of one configuration
// ---------------------------------------------------------------------

// seqPlan is the fixed number of sequence cases per flavour and batch.
var seqPlan = []struct {
	flavour string
	n       int
}{{"alias", 48}, {"negative", 12}, {"cut", 12}, {"ede", 8}, {"failure", 6}}

// runSequences builds the sequence stack of configuration ci, runs the
// generated sequences one at a time and returns how many cases ran.
func runSequences(r *vlib.Run, ci int) int {
	mo, err := newMonitor(r, ci, true)
	if err != nil {
		r.Fatalf("sequence stack: %v", err)
	}
	defer mo.st.Close()
	cl := mo.st.NewClient("127.67.0.1")
	cl.Timeout = 4 * time.Second
	defer cl.Close()
	total := 0
	batches := r.N(1, 40)

	// Wire-born pairs first: the ordinary (query, upstream response) pairs and
	// UDP size cases, eight clients at once, on this stack — where nothing
	// decodes a request ahead of the cache, so repeated questions are answered
	// by the cache's byte ladder with whatever the upstream response held.
	wire0 := cache.VerifC05WireCounters()
	for batch := 0; batch < batches; batch++ {
		rng := r.RandN("wireborn", ci*1000+batch)
		idx := ci*10_000_000 + 7_000_000 + batch*1000
		var cases []*Case
		for i := 0; i < 260; i++ {
			idx++
			cases = append(cases, genPairCase(rng, idx, ci, i%workers))
		}
		for i := 0; i < 60; i++ {
			idx++
			cases = append(cases, genSizeCase(rng, idx, ci, i%workers))
		}
		for _, c := range cases {
			c.Kind = "wireborn/" + c.Kind
		}
		mo.runAll(cases)
		total += len(cases)
	}
	if !mo.st.Quiesce(5 * time.Second) {
		r.Inconclusive("sequence stack did not quiesce after the wire-born pairs")
	}
	wireMid := cache.VerifC05WireCounters()
	for _, k := range []string{"served", "chase_served", "fallback", "skip_chase", "skip_dnssec", "skip_size", "skip_entry", "skip_writer"} {
		r.Count("wireborn/cache_wire/"+k, int(wireMid[k]-wire0[k]))
	}

	wire0 = cache.VerifC05WireCounters()
	for batch := 0; batch < batches; batch++ {
		rng := r.RandN("sequences", ci*1000+batch)
		idx := ci*10_000_000 + 5_000_000 + batch*1000
		var cases []*Case
		for _, pl := range seqPlan {
			for i := 0; i < pl.n; i++ {
				idx++
				cases = append(cases, genSeqCase(rng, idx, ci, pl.flavour))
			}
		}
		rng.Shuffle(len(cases), func(i, j int) { cases[i], cases[j] = cases[j], cases[i] })
		if ci == 0 && batch == 0 {
			c := cases[0]
			r.Sample(map[string]any{"kind": c.Kind, "sequence": c.UpstreamDesc, "chain": c.Chain, "steps": len(c.Steps)})
		}
		for _, c := range cases {
			func() {
				defer func() {
					if p := recover(); p != nil {
						r.Violation("panic/harness-or-sdns", fmt.Sprintf("panic while running sequence %d (%s): %v", c.Index, c.Kind, p), c)
					}
				}()
				mo.runSeq(c, cl)
			}()
			r.Count("seq/cases/"+strings.TrimPrefix(c.Kind, "seq/"), 1)
			r.Progress("conf %d: sequence %d (%s)", ci, c.Index, c.Kind)
		}
		total += len(cases)
	}
	if !mo.st.Quiesce(5 * time.Second) {
		r.Inconclusive("sequence stack did not quiesce")
	}
	wire1 := cache.VerifC05WireCounters()
	for _, k := range []string{"served", "chase_served", "cut_served", "failure_served", "fallback",
		"skip_chase", "skip_dnssec", "skip_size", "skip_build", "skip_entry", "skip_writer"} {
		r.Count("seq/cache_wire/"+k, int(wire1[k]-wire0[k]))
	}
	r.Count("seq/stub_calls", int(mo.st.Stub().Total()))
	return total
}

// requireSequences: the verdict speaks about composed replies only if they
// were really produced on the byte path, for every client shape.
func requireSequences(r *vlib.Run) {
	for _, rung := range []string{"chase", "exact", "cut", "failure"} {
		r.Count("seq/shapes/"+rung, countSeqShapes(rung))
	}
	// the cache's own counters (process-global deltas over the sequence stacks)
	r.Require("wireborn/cache_wire/served", 400)
	r.Require("seq/cache_wire/chase_served", 1000)
	r.Require("seq/cache_wire/served", 1500)
	r.Require("seq/cache_wire/cut_served", 60)
	r.Require("seq/cache_wire/failure_served", 40)
	// per-probe attribution: alias-chase compositions on every byte entry
	for _, tag := range []string{"udp", "tcp", "dot", "job-udp"} {
		r.Require("seq/rung/chase/"+tag, 200)
		r.Require("seq/rung/exact/"+tag, 200)
	}
	// compositions whose cached hops carry DIFFERENT stored AD bits, also for
	// the client that set neither DO nor AD nor CD
	r.Require("seq/chase_mixed_ad", 300)
	r.Require("seq/chase_mixed_ad/plain-client", 40)
	r.Require("seq/chase_all_ad", 30)
	// (rung, entry class udp/tcp/dot/job, flag combination): 48 per rung
	r.Require("seq/shapes/chase", 44)
	r.Require("seq/shapes/exact", 44)
	r.Require("seq/shapes/cut", 16) // CD=1 never takes the subtree-cut rung: 24 possible
	r.Require("seq/exact_nxdomain", 100)
	r.Require("seq/ops/purge", 100)
	r.Require("seq/ops/advance", 60)
}
