package main

import (
	"encoding/base64"
	"fmt"
	"math/rand/v2"
	"net"
	"strings"

	"github.com/miekg/dns"
	"github.com/semihalev/sdns/zzverif/authsim"
	zm "github.com/semihalev/sdns/zzverif/zonemodel"
)

// Topology kinds. Every kind is generated at every seed (kind = index mod
// len(kinds)); the parameters come from the per-index PRNG.
var kinds = []string{
	"cname-cycle", "cname-chain", "dname-cycle", "dname-chain",
	"ns-cycle", "ns-chain", "fanout", "fanout2",
	"deep-infinite", "deep-chain", "lame", "self-referral",
	"huge-ns", "huge-ds", "huge-dnskey", "huge-rrsig",
	"keycrowd", "nsec3-iter", "nsec3-deep",
	// kinds that make the resolver restart / re-enter resolution inside one
	// request tree (restart.go)
	"qmin-parent", "qmin-fallback", "cached-cut", "alias-restart",
}

// QuerySpec is one client question.
type QuerySpec struct {
	Name string `json:"name"`
	Type uint16 `json:"type"`
	EDNS bool   `json:"edns"`
	DO   bool   `json:"do"`
	CD   bool   `json:"cd,omitempty"`
}

func (q QuerySpec) msg(id uint16) *dns.Msg {
	m := new(dns.Msg)
	m.SetQuestion(q.Name, q.Type)
	m.Id = id
	m.CheckingDisabled = q.CD
	if q.EDNS {
		m.SetEdns0(1232, q.DO)
	}
	return m
}

func (q QuerySpec) String() string {
	f := ""
	if q.EDNS {
		f += "E"
	}
	if q.DO {
		f += "D"
	}
	if q.CD {
		f += "C"
	}
	return fmt.Sprintf("%s %s [%s]", q.Name, dns.TypeToString[q.Type], f)
}

// TopoSpec is the serialisable description of one generated topology. It is a
// pure function of (VERIF_SEED, Index).
type TopoSpec struct {
	Index   int    `json:"index"`
	Kind    string `json:"kind"`
	Variant string `json:"variant,omitempty"`
	// Len: cycle / chain length, fan-out width, delegation depth, set size,
	// crowd size — whatever the kind's main size parameter is.
	Len int `json:"len"`
	// Len2: second-level fan-out (fanout2), number of zones a cycle is spread
	// over (cname/dname kinds).
	Len2 int `json:"len2,omitempty"`
	// Signed: the sub-tree below the TLD is DNSSEC-signed with a secure chain
	// from the root; otherwise the TLD is an insecure delegation.
	Signed bool `json:"signed"`
	// NSEC3 / Iter: denial flavour of the attack zones.
	NSEC3 bool   `json:"nsec3,omitempty"`
	Iter  uint16 `json:"iter,omitempty"`
	// TCAll: every scripted server answers TC=1 over UDP, so each lookup costs
	// a UDP and a TCP attempt.
	TCAll bool `json:"tc_all,omitempty"`
	// ChaseOff: authoritative servers do not follow in-zone aliases.
	ChaseOff bool `json:"chase_off,omitempty"`
	// Lame: per-server behaviours of the lame kind.
	Lame []string `json:"lame,omitempty"`
	// Slow: the topology contains servers that never answer (timeouts).
	Slow bool `json:"slow,omitempty"`
	// QMin is the resolver's qname_min_level for every stack of the topology.
	QMin int `json:"qmin"`
	// Restart: parameters of the restart kinds (restart.go).
	Restart *RestartSpec `json:"restart,omitempty"`

	Question QuerySpec `json:"question"`

	// Resolvable: every scripted server is honest and the unconstrained
	// outcome is an answer / authenticated denial, never a failure; no genuine
	// shared failure state can arise, so any SERVFAIL under enforce is the
	// budget's doing.
	Resolvable bool `json:"resolvable"`
	// Deterministic: the client-visible outcome is a function of the data
	// (no races between differently behaving servers, no timeouts).
	Deterministic bool `json:"deterministic"`
}

func (t *TopoSpec) shape() string {
	s := fmt.Sprintf("%s/%s/len%d/%d/signed=%v/nsec3=%v/tc=%v/qmin=%d", t.Kind, t.Variant, t.Len, t.Len2, t.Signed, t.NSEC3, t.TCAll, t.QMin)
	if t.Restart != nil {
		s += "/" + t.Restart.shape()
	}
	return s
}

func pick[T any](rng *rand.Rand, xs ...T) T { return xs[rng.IntN(len(xs))] }

// genTopo draws the topology for one index.
func genTopo(rng *rand.Rand, index int) *TopoSpec {
	t := &TopoSpec{Index: index, Kind: kinds[index%len(kinds)]}
	t.Signed = rng.IntN(2) == 0
	t.QMin = pick(rng, 0, 0, 3, 3, 5, 12)
	t.TCAll = rng.IntN(6) == 0
	t.Deterministic = true
	tld := fmt.Sprintf("t%d.", index)
	q := QuerySpec{Type: dns.TypeA, EDNS: rng.IntN(5) != 0}
	q.DO = q.EDNS && rng.IntN(3) != 0
	switch t.Kind {
	case "cname-cycle", "cname-chain":
		t.Len = 1 + rng.IntN(8)
		t.Len2 = 1 + rng.IntN(3)
		t.ChaseOff = rng.IntN(2) == 0
		t.Resolvable = t.Kind == "cname-chain"
		q.Name = "c0.z0." + tld
	case "dname-cycle", "dname-chain":
		t.Len = 1 + rng.IntN(8)
		t.Resolvable = t.Kind == "dname-chain"
		if t.Kind == "dname-cycle" && t.Len == 1 {
			t.Variant = pick(rng, "self", "grow")
		}
		q.Name = "w.x.d0." + tld
	case "ns-cycle", "ns-chain":
		t.Len = 1 + rng.IntN(8)
		t.Resolvable = t.Kind == "ns-chain"
		q.Name = "www.g0." + tld
	case "fanout":
		t.Len = 2 + rng.IntN(30)
		t.Len2 = 1 + rng.IntN(3) // pool zones
		t.Variant = pick(rng, "good", "good", "nx", "mixed")
		t.Resolvable = t.Variant == "good"
		q.Name = "www.victim." + tld
	case "fanout2":
		t.Len = 2 + rng.IntN(6)
		t.Len2 = 2 + rng.IntN(6)
		t.Variant = pick(rng, "good", "nx")
		t.Resolvable = t.Variant == "good"
		q.Name = "www.victim." + tld
	case "deep-infinite":
		t.Len = 36 + rng.IntN(10) // servers; more than maxdepth
		t.Signed = false
		q.Name = strings.Repeat("a.", 50+rng.IntN(20)) + "deep." + tld
	case "deep-chain":
		t.Len = 2 + rng.IntN(11)
		t.Signed = false
		t.Resolvable = true
		q.Name = strings.Repeat("a.", t.Len) + "deep." + tld
	case "lame":
		n := 1 + rng.IntN(4)
		fast := []string{"refused", "servfail", "notimp", "upward", "self", "tcrst", "malformed", "other", "formerr"}
		for i := 0; i < n; i++ {
			t.Lame = append(t.Lame, pick(rng, fast...))
		}
		if rng.IntN(3) == 0 {
			t.Lame[rng.IntN(n)] = pick(rng, "drop", "tcstall", "sinkaddr")
			t.Slow = true
		}
		t.Len = n
		t.Deterministic = false
		q.Name = "www.lame." + tld
	case "self-referral":
		t.Len = 1 + rng.IntN(3)
		t.Variant = pick(rng, "self", "sibling-loop")
		t.Signed = false
		q.Name = "www.loop." + tld
	case "huge-ns":
		t.Len = 20 + rng.IntN(40)
		t.Resolvable = true
		q.Name = "www.huge." + tld
	case "huge-ds":
		t.Len = 10 + rng.IntN(50)
		t.Signed = true
		t.Variant = pick(rng, "same-tag", "random-tag")
		t.Resolvable = true
		q.Name = "www.huge." + tld
	case "huge-dnskey":
		t.Len = 10 + rng.IntN(40)
		t.Signed = true
		t.Resolvable = true
		q.Name = "www.huge." + tld
	case "huge-rrsig":
		t.Len = 3 + rng.IntN(30)
		t.Signed = true
		t.Resolvable = true
		q.Name = "www.huge." + tld
	case "keycrowd":
		t.Len = 2 + rng.IntN(12)
		t.Signed = true
		t.Resolvable = true
		q.Name = "www.crowd." + tld
	case "nsec3-iter":
		t.Signed = true
		t.NSEC3 = true
		t.Iter = pick(rng, uint16(0), 1, 10, 50, 150, 150, 151, 151, 500, 2500)
		t.Resolvable = t.Iter <= 150
		q.Name = "nx.n3." + tld
		if rng.IntN(4) == 0 {
			q.Name = "www.n3." + tld
			q.Type = dns.TypeAAAA // NODATA
		}
	case "nsec3-deep":
		// a name many labels below the closest encloser: the closest-encloser
		// walk hashes every ancestor, each at Iter iterations
		t.Signed = true
		t.NSEC3 = true
		t.Iter = pick(rng, uint16(0), 5, 50, 150)
		t.Len = 2 + rng.IntN(44)
		t.Resolvable = true
		q.Name = strings.Repeat("a.", t.Len) + "nx.n3." + tld
	case "qmin-parent", "qmin-fallback", "cached-cut", "alias-restart":
		genRestart(rng, t, tld, &q)
	}
	if t.Kind != "nsec3-iter" && t.Kind != "nsec3-deep" && t.Signed && rng.IntN(4) == 0 {
		t.NSEC3 = true
		t.Iter = pick(rng, uint16(0), 0, 5, 20)
	}
	t.Question = q
	return t
}

// world is one built topology.
type world struct {
	spec *TopoSpec
	u    *authsim.Universe
	tld  *zm.Zone
	root *zm.Zone
	// pool: the scripted open recursive server named by `fallbackservers` on
	// the pool stacks (pool.go); nil until the first of them is built
	pool *authsim.Server
}

func (w *world) close() { w.u.Close() }

// owns reports whether a name logged at one of the scripted servers can have
// been asked by THIS case's resolver: the root, the root's name servers, or
// anything below the case's own TLD (every generated name lives there).
func (w *world) owns(qnameLower string) bool {
	if qnameLower == "." || qnameLower == "" {
		return true
	}
	if dns.IsSubDomain(w.tld.Apex(), qnameLower) {
		return true
	}
	for _, h := range w.u.NSHosts(".") {
		if strings.EqualFold(h.Name, qnameLower) {
			return true
		}
	}
	return false
}

func (w *world) zspec(apex string) zm.Spec {
	s := zm.Spec{Apex: apex, Signed: w.spec.Signed}
	if w.spec.Signed && w.spec.NSEC3 {
		s.NSEC3 = &zm.NSEC3Params{Salt: "c12a", Iterations: w.spec.Iter}
	}
	return s
}

func (w *world) dopts() authsim.DelegOpts {
	if w.spec.Signed {
		return authsim.DelegOpts{}
	}
	return authsim.DelegOpts{DS: authsim.DSNone}
}

// addZone creates apex on servers and delegates it from the TLD with glue.
func (w *world) addZone(apex string, servers ...*authsim.Server) *zm.Zone {
	z := w.u.AddZone(w.zspec(apex), servers...)
	w.u.Delegate(w.tld, z, w.dopts())
	if w.spec.ChaseOff {
		z.ChaseInZone = false
	}
	return z
}

func referral(q *dns.Msg, zone, nsName string, glue ...net.IP) *dns.Msg {
	m := new(dns.Msg)
	m.SetReply(q)
	m.Authoritative = false
	m.Ns = []dns.RR{&dns.NS{Hdr: dns.RR_Header{Name: zone, Rrtype: dns.TypeNS, Class: dns.ClassINET, Ttl: 300}, Ns: nsName}}
	for _, ip := range glue {
		if v4 := ip.To4(); v4 != nil {
			m.Extra = append(m.Extra, &dns.A{Hdr: dns.RR_Header{Name: nsName, Rrtype: dns.TypeA, Class: dns.ClassINET, Ttl: 300}, A: v4})
		} else {
			m.Extra = append(m.Extra, &dns.AAAA{Hdr: dns.RR_Header{Name: nsName, Rrtype: dns.TypeAAAA, Class: dns.ClassINET, Ttl: 300}, AAAA: ip})
		}
	}
	if opt := q.IsEdns0(); opt != nil {
		m.SetEdns0(1232, opt.Do())
	}
	return m
}

func addrIPs(s *authsim.Server) []net.IP {
	var out []net.IP
	for _, a := range s.Addrs {
		out = append(out, net.IP(a.AsSlice()))
	}
	return out
}

// cloneKeys returns n DNSKEYs with the owner, flags, protocol, algorithm and
// KEY TAG of k but pairwise different key material (nobody holds their private
// halves). The key tag is a 16-bit sum over the RDATA in which bytes of equal
// parity have equal weight, so +1 / -1 on two bytes of the same parity keeps it.
func cloneKeys(k *dns.DNSKEY, n int) []*zm.Key {
	raw0, err := base64.StdEncoding.DecodeString(k.PublicKey)
	if err != nil || len(raw0) < 16 {
		panic("c12: cannot clone key")
	}
	var out []*zm.Key
	seen := map[string]bool{k.PublicKey: true}
	for i := len(raw0) - 1; i >= 6 && len(out) < n; i-- {
		for j := i - 2; j >= 4 && len(out) < n; j -= 2 {
			raw := append([]byte(nil), raw0...)
			if raw[i] == 255 || raw[j] == 0 {
				continue
			}
			raw[i]++
			raw[j]--
			c := dns.Copy(k).(*dns.DNSKEY)
			c.PublicKey = base64.StdEncoding.EncodeToString(raw)
			if c.KeyTag() != k.KeyTag() || seen[c.PublicKey] {
				continue
			}
			seen[c.PublicKey] = true
			out = append(out, &zm.Key{DNSKEY: c})
		}
	}
	if len(out) < n {
		panic("c12: not enough same-tag clones")
	}
	return out
}

// unownedAddr is a documentation address no server owns (the universe's sink
// receives, logs and never answers traffic sent there).
func unownedAddr(i int) net.IP { return net.IPv4(203, 0, 113, byte(200+i%50)) }

func buildWorld(t *TopoSpec) *world {
	w := &world{spec: t, u: authsim.New()}
	u := w.u
	idx := t.Index
	tldName := fmt.Sprintf("t%d.", idx)
	sr, st := u.AddServer("root"), u.AddServer("tld")
	w.root = u.AddZone(zm.Spec{Apex: ".", Signed: true}, sr)
	w.tld = u.AddZone(zm.Spec{Apex: tldName, Signed: t.Signed}, st)
	if t.Signed {
		u.Delegate(w.root, w.tld, authsim.DelegOpts{})
	} else {
		u.Delegate(w.root, w.tld, authsim.DelegOpts{DS: authsim.DSNone})
	}

	switch t.Kind {
	case "cname-cycle", "cname-chain":
		m := t.Len2
		if m > t.Len {
			m = t.Len
		}
		var zs []*zm.Zone
		for i := 0; i < m; i++ {
			s := u.AddServer(fmt.Sprintf("z%d", i))
			zs = append(zs, w.addZone(fmt.Sprintf("z%d.%s", i, tldName), s))
		}
		name := func(i int) string { return fmt.Sprintf("c%d.z%d.%s", i, i%m, tldName) }
		for i := 0; i < t.Len; i++ {
			last := i == t.Len-1
			switch {
			case last && t.Kind == "cname-chain":
				zs[i%m].AddMarked(name(i), dns.TypeA, 300)
			case last:
				zs[i%m].AddCNAME(name(i), name(0), 300)
			default:
				zs[i%m].AddCNAME(name(i), name(i+1), 300)
			}
		}

	case "dname-cycle", "dname-chain":
		n := t.Len
		var zs []*zm.Zone
		total := n
		if t.Kind == "dname-chain" {
			total = n + 1
		}
		for i := 0; i < total; i++ {
			s := u.AddServer(fmt.Sprintf("d%d", i))
			zs = append(zs, w.addZone(fmt.Sprintf("d%d.%s", i, tldName), s))
		}
		owner := func(i int) string { return fmt.Sprintf("x.d%d.%s", i, tldName) }
		for i := 0; i < n; i++ {
			switch {
			case t.Kind == "dname-chain":
				if i == n-1 {
					zs[i].AddDNAME(owner(i), fmt.Sprintf("y.d%d.%s", n, tldName), 300)
				} else {
					zs[i].AddDNAME(owner(i), owner(i+1), 300)
				}
			case n == 1 && t.Variant == "grow":
				zs[0].AddDNAME(owner(0), "y."+owner(0), 300)
			default:
				zs[i].AddDNAME(owner(i), owner((i+1)%n), 300)
			}
		}
		if t.Kind == "dname-chain" {
			zs[n].AddMarked(fmt.Sprintf("w.y.d%d.%s", n, tldName), dns.TypeA, 300)
		}

	case "ns-cycle", "ns-chain":
		// zone g<i> is delegated, without glue, to the single name
		// nsx.g<i+1>, which is published INSIDE zone g<i+1> and carries the
		// addresses of the server that hosts g<i>: reaching g<i> needs a
		// lookup in g<i+1>, which needs one in g<i+2>, ... The chain ends in
		// a zone with ordinary glue; the cycle closes on g0 and has no way in.
		n := t.Len
		zones := make([]*zm.Zone, n)
		servers := make([]*authsim.Server, n)
		dep := make([]string, n) // dep[i]: the NS name zone g<i> is delegated to ("" = glue)
		for i := 0; i < n; i++ {
			apex := fmt.Sprintf("g%d.%s", i, tldName)
			s := u.AddServer(fmt.Sprintf("g%d", i))
			servers[i] = s
			last := i == n-1
			if last && t.Kind == "ns-chain" {
				z := w.addZone(apex, s)
				z.AddMarked("www."+apex, dns.TypeA, 300)
				zones[i] = z
				continue
			}
			next := (i + 1) % n
			nsName := fmt.Sprintf("nsx.g%d.%s", next, tldName)
			if n == 1 {
				nsName = "nsx." + apex // in-bailiwick, but the parent gives no glue
			}
			dep[i] = nsName
			sp := w.zspec(apex)
			sp.NSHosts = []string{nsName}
			z := u.AddZone(sp, s)
			z.AddMarked("www."+apex, dns.TypeA, 300)
			zones[i] = z
			o := w.dopts()
			o.NS = []zm.NSHost{{Name: nsName}}
			o.NoGlue = true
			u.Delegate(w.tld, z, o)
		}
		for i := 0; i < n; i++ {
			if dep[i] == "" {
				continue
			}
			holder := zones[(i+1)%n]
			if holder.RRset(dep[i], dns.TypeA) != nil {
				continue
			}
			for _, ip := range addrIPs(servers[i]) {
				holder.AddAddr(dep[i], ip, 300)
			}
		}

	case "fanout", "fanout2":
		vs := u.AddServer("victim")
		var pools []*zm.Zone
		nPools := t.Len2
		if t.Kind == "fanout2" {
			nPools = t.Len
		}
		if t.Kind == "fanout2" {
			// pool zone p<j> is itself delegated gluelessly to Len2 names of base.
			bs := u.AddServer("base")
			base := w.addZone("base."+tldName, bs)
			ps := u.AddServer("pools")
			for j := 0; j < nPools; j++ {
				apex := fmt.Sprintf("p%d.%s", j, tldName)
				var hosts []zm.NSHost
				var names []string
				for k := 0; k < t.Len2; k++ {
					hn := fmt.Sprintf("n%d-%d.base.%s", j, k, tldName)
					hosts = append(hosts, zm.NSHost{Name: hn})
					names = append(names, hn)
					if t.Variant == "good" {
						for _, ip := range addrIPs(ps) {
							base.AddAddr(hn, ip, 300)
						}
					}
				}
				sp := w.zspec(apex)
				sp.NSHosts = names
				pz := u.AddZone(sp, ps)
				o := w.dopts()
				o.NS = hosts
				o.NoGlue = true
				u.Delegate(w.tld, pz, o)
				pools = append(pools, pz)
			}
		} else {
			for j := 0; j < nPools; j++ {
				ps := u.AddServer(fmt.Sprintf("pool%d", j))
				pools = append(pools, w.addZone(fmt.Sprintf("p%d.%s", j, tldName), ps))
			}
		}
		apex := "victim." + tldName
		var hosts []zm.NSHost
		var names []string
		nNames := t.Len
		for k := 0; k < nNames; k++ {
			pz := pools[k%len(pools)]
			hn := fmt.Sprintf("n%d.%s", k, pz.Apex())
			hosts = append(hosts, zm.NSHost{Name: hn})
			names = append(names, hn)
			good := t.Variant == "good" || (t.Variant == "mixed" && k%3 == 2)
			if good {
				for _, ip := range addrIPs(vs) {
					pz.AddAddr(hn, ip, 300)
				}
			}
		}
		sp := w.zspec(apex)
		sp.NSHosts = names
		vz := u.AddZone(sp, vs)
		vz.AddMarked("www."+apex, dns.TypeA, 300)
		o := w.dopts()
		o.NS = hosts
		o.NoGlue = true
		u.Delegate(w.tld, vz, o)

	case "deep-infinite", "deep-chain":
		base := "deep." + tldName
		n := t.Len
		if t.Kind == "deep-chain" {
			n = t.Len + 1
		}
		servers := make([]*authsim.Server, n)
		for i := range servers {
			servers[i] = u.AddServer(fmt.Sprintf("lvl%d", i))
		}
		// parent side: an insecure delegation of deep.<tld> to level 0
		w.tld.Delegate(zm.DelegationSpec{Child: base, NS: []zm.NSHost{{Name: "ns." + base, Addrs: addrIPs(servers[0])}}, NSTTL: 300})
		baseLabels := dns.CountLabel(base)
		for i := range servers {
			lvl := i
			next := servers[(i+1)%n]
			finite := t.Kind == "deep-chain"
			servers[i].SetDefault(authsim.Tamper(fmt.Sprintf("deeper-%d", lvl), func(q, _ *dns.Msg) *dns.Msg {
				qn := strings.ToLower(q.Question[0].Name)
				extra := dns.CountLabel(qn) - baseLabels
				if !dns.IsSubDomain(base, qn) || extra < 0 {
					m := new(dns.Msg)
					m.SetRcode(q, dns.RcodeRefused)
					return m
				}
				if extra > lvl && !(finite && lvl == n-1) {
					// refer one label deeper than the zone this level serves
					labels := dns.SplitDomainName(qn)
					child := strings.Join(labels[len(labels)-baseLabels-lvl-1:], ".") + "."
					return referral(q, child, "ns."+child, addrIPs(next)...)
				}
				m := new(dns.Msg)
				m.SetReply(q)
				m.Authoritative = true
				if q.Question[0].Qtype == dns.TypeA {
					m.Answer = []dns.RR{&dns.A{Hdr: dns.RR_Header{Name: q.Question[0].Name, Rrtype: dns.TypeA, Class: dns.ClassINET, Ttl: 300}, A: net.IPv4(10, 99, 0, byte(lvl))}}
				} else {
					labels := dns.SplitDomainName(qn)
					zone := strings.Join(labels[len(labels)-baseLabels-min(lvl, extra):], ".") + "."
					m.Ns = []dns.RR{&dns.SOA{Hdr: dns.RR_Header{Name: zone, Rrtype: dns.TypeSOA, Class: dns.ClassINET, Ttl: 300}, Ns: "ns." + zone, Mbox: "h." + zone, Serial: 1, Refresh: 3600, Retry: 600, Expire: 86400, Minttl: 60}}
				}
				if opt := q.IsEdns0(); opt != nil {
					m.SetEdns0(1232, opt.Do())
				}
				return m
			}))
		}

	case "lame":
		apex := "lame." + tldName
		var servers []*authsim.Server
		for i := range t.Lame {
			servers = append(servers, u.AddServer(fmt.Sprintf("lame%d", i)))
		}
		z := u.AddZone(w.zspec(apex), servers...)
		z.AddMarked("www."+apex, dns.TypeA, 300)
		o := w.dopts()
		hosts := u.NSHosts(apex)
		for i, b := range t.Lame {
			if b == "sinkaddr" {
				hosts[i].Addrs = []net.IP{unownedAddr(i)}
			}
		}
		o.NS = hosts
		u.Delegate(w.tld, z, o)
		for i, b := range t.Lame {
			s := servers[i]
			self := addrIPs(s)
			switch b {
			case "refused":
				s.SetDefault(authsim.Rcode(dns.RcodeRefused))
			case "servfail":
				s.SetDefault(authsim.Rcode(dns.RcodeServerFailure))
			case "notimp":
				s.SetDefault(authsim.Rcode(dns.RcodeNotImplemented))
			case "formerr":
				s.SetDefault(authsim.Rcode(dns.RcodeFormatError))
			case "drop":
				s.SetDefault(authsim.Drop())
			case "tcstall":
				s.SetDefault(authsim.Truncate(authsim.TCPStall))
			case "tcrst":
				s.SetDefault(authsim.Truncate(authsim.TCPReset))
			case "malformed":
				s.SetDefault(authsim.Malformed())
			case "other":
				s.SetDefault(authsim.AnswerOther("www.elsewhere."+tldName, dns.TypeA))
			case "upward":
				s.SetDefault(authsim.Tamper("upward-referral", func(q, _ *dns.Msg) *dns.Msg {
					return referral(q, ".", "ns1.", addrIPs(sr)...)
				}))
			case "self":
				s.SetDefault(authsim.Tamper("self-referral", func(q, _ *dns.Msg) *dns.Msg {
					return referral(q, apex, "ns1."+apex, self...)
				}))
			}
		}

	case "self-referral":
		// servers that refer the resolver back to the zone it is already in
		// ("self") or to each other's zones in a ring ("sibling-loop").
		n := t.Len
		if t.Variant == "sibling-loop" && n < 2 {
			n = 2
		}
		servers := make([]*authsim.Server, n)
		for i := range servers {
			servers[i] = u.AddServer(fmt.Sprintf("loop%d", i))
		}
		apex := "loop." + tldName
		var hosts []zm.NSHost
		for i, s := range servers {
			hosts = append(hosts, zm.NSHost{Name: fmt.Sprintf("ns%d.%s", i+1, apex), Addrs: addrIPs(s)})
		}
		w.tld.Delegate(zm.DelegationSpec{Child: apex, NS: hosts, NSTTL: 300})
		for i, s := range servers {
			i := i
			s.SetDefault(authsim.Tamper("loop-referral", func(q, _ *dns.Msg) *dns.Msg {
				if t.Variant == "self" {
					return referral(q, apex, fmt.Sprintf("ns%d.%s", i+1, apex), addrIPs(servers[i])...)
				}
				// refer to a child zone served by the next server, which refers
				// to a sibling served by this one, and so on
				qn := strings.ToLower(q.Question[0].Name)
				child := "www." + apex
				if !dns.IsSubDomain(child, qn) {
					child = apex
				}
				nx := servers[(i+1)%n]
				return referral(q, child, "ns."+child, addrIPs(nx)...)
			}))
		}

	case "huge-ns":
		// one zone, Len NS names, every name with glue; the addresses belong to
		// two real servers (a server may be advertised under many addresses)
		apex := "huge." + tldName
		var addrsA, addrsB []string
		for i := 0; i < t.Len; i++ {
			a := fmt.Sprintf("198.51.100.%d", 10+i)
			if i%2 == 0 {
				addrsA = append(addrsA, a)
			} else {
				addrsB = append(addrsB, a)
			}
		}
		sa := u.AddServer("hugeA", addrsA...)
		var servers = []*authsim.Server{sa}
		if len(addrsB) > 0 {
			servers = append(servers, u.AddServer("hugeB", addrsB...))
		}
		var hosts []zm.NSHost
		var names []string
		for i := 0; i < t.Len; i++ {
			hn := fmt.Sprintf("ns%d.%s", i+1, apex)
			hosts = append(hosts, zm.NSHost{Name: hn, Addrs: []net.IP{net.ParseIP(fmt.Sprintf("198.51.100.%d", 10+i))}})
			names = append(names, hn)
		}
		sp := w.zspec(apex)
		sp.NSHosts = names
		z := u.AddZone(sp, servers...)
		for _, h := range hosts {
			z.Remove(h.Name, dns.TypeA) // AddZone published every address of the server under ns1/ns2
			z.AddAddr(h.Name, h.Addrs[0], 300)
		}
		z.AddMarked("www."+apex, dns.TypeA, 300)
		o := w.dopts()
		o.NS = hosts
		u.Delegate(w.tld, z, o)

	case "huge-ds":
		apex := "huge." + tldName
		s := u.AddServer("huge")
		z := u.AddZone(w.zspec(apex), s)
		z.AddMarked("www."+apex, dns.TypeA, 300)
		w.u.Delegate(w.tld, z, authsim.DelegOpts{})
		good := z.DS(0)
		ds := append([]dns.RR(nil), good...)
		g := good[0].(*dns.DS)
		for i := 0; i < t.Len; i++ {
			d := dns.Copy(g).(*dns.DS)
			// a digest that matches no key
			d.Digest = fmt.Sprintf("%064x", uint64(i)+1)
			if t.Variant == "random-tag" {
				d.KeyTag = uint16(1000 + 7*i)
			}
			ds = append(ds, d)
		}
		w.tld.SetDS(apex, ds, 300)

	case "huge-dnskey":
		apex := "huge." + tldName
		s := u.AddServer("huge")
		z := u.AddZone(w.zspec(apex), s)
		z.AddMarked("www."+apex, dns.TypeA, 300)
		keys := z.Keys()
		for i := 0; i < t.Len; i++ {
			other := zm.New(zm.Spec{Apex: apex, Signed: true})
			k := other.Keys()[0]
			keys = append(keys, &zm.Key{DNSKEY: k.DNSKEY}) // published, never signs
		}
		z.SetKeys(keys)
		w.u.Delegate(w.tld, z, authsim.DelegOpts{})

	case "huge-rrsig":
		apex := "huge." + tldName
		s := u.AddServer("huge")
		z := w.addZone(apex, s)
		z.AddMarked("www."+apex, dns.TypeA, 300)
		n := t.Len
		s.SetDefault(authsim.Tamper("many-rrsigs", func(q, honest *dns.Msg) *dns.Msg {
			add := func(section []dns.RR) []dns.RR {
				var out []dns.RR
				for _, rr := range section {
					out = append(out, rr)
					sig, ok := rr.(*dns.RRSIG)
					if !ok {
						continue
					}
					for i := 0; i < n; i++ {
						c := dns.Copy(sig).(*dns.RRSIG)
						raw, err := base64.StdEncoding.DecodeString(c.Signature)
						if err != nil || len(raw) < 8 {
							continue
						}
						raw[i%len(raw)] ^= byte(1 + i/len(raw))
						raw[(i*7+3)%len(raw)] ^= 0x55
						c.Signature = base64.StdEncoding.EncodeToString(raw)
						if c.Signature != sig.Signature {
							out = append(out, c)
						}
					}
				}
				return out
			}
			honest.Answer = add(honest.Answer)
			honest.Ns = add(honest.Ns)
			return honest
		}))

	case "keycrowd":
		apex := "crowd." + tldName
		s := u.AddServer("crowd")
		z := u.AddZone(w.zspec(apex), s)
		z.AddMarked("www."+apex, dns.TypeA, 300)
		keys := z.Keys()
		keys = append(keys, cloneKeys(keys[0].DNSKEY, t.Len)...)
		z.SetKeys(keys)
		w.u.Delegate(w.tld, z, authsim.DelegOpts{})

	case "nsec3-iter", "nsec3-deep":
		apex := "n3." + tldName
		s := u.AddServer("n3")
		z := w.addZone(apex, s)
		z.AddMarked("www."+apex, dns.TypeA, 300)
		z.AddMarked("zzz."+apex, dns.TypeA, 300)

	case "qmin-parent", "qmin-fallback", "alias-restart":
		buildRestart(w, st)
	case "cached-cut":
		buildCachedCut(w)
	case "v6-burst":
		buildV6Burst(w)
	}

	if t.TCAll {
		for _, s := range u.Servers() {
			s.AddRule(authsim.Rule{Transport: "udp", Action: authsim.Truncate(authsim.TCPAnswer)})
		}
	}
	return w
}
