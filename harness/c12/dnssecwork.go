package main

// DNSSEC-operation budgets observed at the dnssec package API.
//
// The resolver hands the pure validation code a "work" object
// (dnssec.SignatureWork / DSDigestWork / NSEC3Work) that it must consult
// immediately before every expensive operation. This part of the monitor
// drives the REAL validation functions with generated hostile inputs (same-tag
// key crowds, many signatures per RRset, many DS records, NSEC3 proofs with low
// and over-the-cap iteration counts) and a counting work object that announces
// limits exactly like the request-tree ledger does (CheckLocal: used >= limit
// is refused; Begin*: the limit+1-th operation is refused), and judges
//
//   - calls begun never exceed the announced limits, and every expensive
//     operation was preceded by the limit checks that belong to it;
//   - the first refusal ABORTS: no further work call, the function returns a
//     work error (dnssec.IsWorkError) and does not report success;
//   - every granted operation is released exactly once;
//   - the limited run is the unlimited run cut at the first refusal (the
//     operation sequence is a function of the input), and an unlimited work
//     object changes nothing compared with no work object at all;
//   - NSEC3 records above the iteration cap cost no hash at all.

import (
	"encoding/base64"
	"errors"
	"fmt"
	"math/rand/v2"
	"strings"

	"github.com/miekg/dns"
	"github.com/semihalev/sdns/middleware/resolver/dnssec"
	zm "github.com/semihalev/sdns/zzverif/zonemodel"
)

const unlimited = ^uint32(0)

var errC12WorkRefused = errors.New("c12: work budget refused")

type workEvent struct {
	Op      string `json:"op"` // cand | rrset | sig | ds | n3
	Used    uint32 `json:"used"`
	Granted bool   `json:"granted"`
}

func (e workEvent) String() string {
	g := "ok"
	if !e.Granted {
		g = "REFUSED"
	}
	return fmt.Sprintf("%s(%d)%s", e.Op, e.Used, g)
}

// WorkLimits are the limits a counting work object announces.
type WorkLimits struct {
	Cand  uint32 `json:"dnskey_candidates"`
	RRset uint32 `json:"rrset_signature_checks"`
	Sig   uint32 `json:"signature_checks"`
	DS    uint32 `json:"ds_digests"`
	N3    uint32 `json:"nsec3_hashes"`
}

var noLimits = WorkLimits{unlimited, unlimited, unlimited, unlimited, unlimited}

// countingWork implements dnssec.SignatureWork, DSDigestWork and NSEC3Work
// with the ledger's refusal rules. It deliberately does not implement
// NSEC3HashMemoProvider: every hash must come and ask.
type countingWork struct {
	lim          WorkLimits
	trace        []workEvent
	begun        map[string]uint32
	outstanding  int
	doubleRel    int
	refused      bool
	afterRefusal int
}

func newCountingWork(l WorkLimits) *countingWork {
	return &countingWork{lim: l, begun: map[string]uint32{}}
}

func (w *countingWork) note(op string, used uint32, ok bool) error {
	if w.refused {
		w.afterRefusal++
	}
	w.trace = append(w.trace, workEvent{op, used, ok})
	if !ok {
		w.refused = true
		return errC12WorkRefused
	}
	return nil
}

func (w *countingWork) CheckDNSKEYCandidate(used uint32) error {
	return w.note("cand", used, used < w.lim.Cand)
}

func (w *countingWork) CheckRRsetSignature(used uint32) error {
	return w.note("rrset", used, used < w.lim.RRset)
}

func (w *countingWork) begin(op string, limit uint32) (func(), error) {
	n := w.begun[op]
	if err := w.note(op, n, n < limit); err != nil {
		return nil, err
	}
	w.begun[op] = n + 1
	w.outstanding++
	released := false
	return func() {
		if released {
			w.doubleRel++
			return
		}
		released = true
		w.outstanding--
	}, nil
}

func (w *countingWork) BeginSignature() (func(), error) { return w.begin("sig", w.lim.Sig) }
func (w *countingWork) BeginDSDigest() (func(), error)  { return w.begin("ds", w.lim.DS) }
func (w *countingWork) BeginNSEC3Hash() (func(), error) { return w.begin("n3", w.lim.N3) }

// WorkCase is one serialisable DNSSEC work-API case (a function of seed+index
// except for the key material, which zonemodel draws from crypto/rand).
type WorkCase struct {
	Index   int        `json:"index"`
	Kind    string     `json:"kind"` // rrsig-answer | rrsig-negative | ds | nsec3-nxdomain | nsec3-nodata
	Clones  int        `json:"same_tag_clone_keys"`
	Bogus   int        `json:"bogus_signatures_per_rrset_or_ds"`
	Iter    uint16     `json:"nsec3_iterations"`
	Split   bool       `json:"split_keys"`
	Limits  WorkLimits `json:"limits"`
	MsgHex  string     `json:"message_hex,omitempty"`
	Keys    []string   `json:"dnskeys,omitempty"`
	DSSet   []string   `json:"ds,omitempty"`
	Unlim   []string   `json:"unlimited_trace,omitempty"`
	Limited []string   `json:"limited_trace,omitempty"`
}

type workResult struct {
	ok  bool
	err error
}

func (a workResult) same(b workResult) bool {
	if a.ok != b.ok || (a.err == nil) != (b.err == nil) {
		return false
	}
	return a.err == nil || a.err.Error() == b.err.Error()
}

func (a workResult) String() string { return fmt.Sprintf("(%v, %v)", a.ok, a.err) }

func traceStrings(t []workEvent) []string {
	out := make([]string, 0, len(t))
	for _, e := range t {
		out = append(out, e.String())
	}
	return out
}

// predict cuts the unlimited trace at the first event the limits refuse.
func predict(unl []workEvent, l WorkLimits) (want []workEvent, refusal bool) {
	for i, e := range unl {
		ok := true
		switch e.Op {
		case "cand":
			ok = e.Used < l.Cand
		case "rrset":
			ok = e.Used < l.RRset
		case "sig":
			ok = e.Used < l.Sig
		case "ds":
			ok = e.Used < l.DS
		case "n3":
			ok = e.Used < l.N3
		}
		if !ok {
			want = append(append([]workEvent(nil), unl[:i]...), workEvent{e.Op, e.Used, false})
			return want, true
		}
	}
	return unl, false
}

func pickLimit(rng *rand.Rand, xs ...uint32) uint32 { return xs[rng.IntN(len(xs))] }

func keyMapOf(keys []*dns.DNSKEY) map[uint16][]*dns.DNSKEY {
	m := map[uint16][]*dns.DNSKEY{}
	for _, k := range keys {
		m[dnssec.KeyTag(k)] = append(m[dnssec.KeyTag(k)], k)
	}
	return m
}

// bogusSigs returns n copies of sig with pairwise different, wrong signatures.
func bogusSigs(sig *dns.RRSIG, n int) []dns.RR {
	var out []dns.RR
	raw0, err := base64.StdEncoding.DecodeString(sig.Signature)
	if err != nil || len(raw0) < 8 {
		return nil
	}
	for i := 0; i < n; i++ {
		raw := append([]byte(nil), raw0...)
		raw[i%len(raw)] ^= byte(1 + i/len(raw))
		raw[(i*7+3)%len(raw)] ^= 0x55
		c := dns.Copy(sig).(*dns.RRSIG)
		c.Signature = base64.StdEncoding.EncodeToString(raw)
		if c.Signature != sig.Signature {
			out = append(out, c)
		}
	}
	return out
}

func addBogus(section []dns.RR, n int) []dns.RR {
	var out []dns.RR
	for _, rr := range section {
		out = append(out, rr)
		if sig, ok := rr.(*dns.RRSIG); ok {
			out = append(out, bogusSigs(sig, n)...)
		}
	}
	return out
}

func countRRsets(m *dns.Msg) int {
	seen := map[string]bool{}
	for si, sec := range [][]dns.RR{m.Answer, m.Ns} {
		for _, rr := range sec {
			h := rr.Header()
			if h.Rrtype == dns.TypeRRSIG || (si == 1 && h.Rrtype == dns.TypeNS) {
				continue
			}
			seen[fmt.Sprintf("%s/%d", strings.ToLower(h.Name), h.Rrtype)] = true
		}
	}
	return len(seen)
}

var workKinds = []string{"rrsig-answer", "rrsig-negative", "ds", "nsec3-nxdomain", "nsec3-nodata", "rrsig-answer"}

func (run *runner) workAPI(lo, hi int) {
	for i := lo; i < hi; i++ {
		run.workCase(i)
	}
}

func (run *runner) workCase(index int) {
	r := run.r
	rng := r.RandN("workapi", index)
	c := &WorkCase{Index: index, Kind: workKinds[index%len(workKinds)]}
	c.Clones = pickInt(rng, 0, 0, 1, 2, 3, 5, 8, 12)
	c.Bogus = pickInt(rng, 0, 0, 1, 2, 4, 8, 16)
	c.Split = rng.IntN(2) == 0
	c.Limits = WorkLimits{
		Cand:  pickLimit(rng, 1, 2, 3, 4, unlimited, unlimited),
		RRset: pickLimit(rng, 1, 2, 4, 8, unlimited, unlimited),
		Sig:   pickLimit(rng, 1, 2, 3, 5, 8, 16, unlimited),
		DS:    pickLimit(rng, 1, 2, 4, 8, unlimited),
		N3:    pickLimit(rng, 1, 2, 3, 4, 6, 8, unlimited),
	}
	apex := fmt.Sprintf("w%d.test.", index)
	spec := zm.Spec{Apex: apex, Signed: true, SplitKeys: c.Split}
	if strings.HasPrefix(c.Kind, "nsec3") {
		c.Iter = pickU16(rng, 0, 0, 1, 5, 20, 150, 150, 151, 500, 2500)
		spec.NSEC3 = &zm.NSEC3Params{Salt: "c12b", Iterations: c.Iter}
	} else if c.Kind == "rrsig-negative" && rng.IntN(2) == 0 {
		spec.NSEC3 = &zm.NSEC3Params{Salt: "", Iterations: 0}
	}
	z := zm.New(spec)
	z.AddMarked("www."+apex, dns.TypeA, 300)
	z.AddMarked("mail."+apex, dns.TypeA, 300)
	z.AddMarked("a.b."+apex, dns.TypeTXT, 300)

	var keys []*dns.DNSKEY
	for _, k := range z.Keys() {
		keys = append(keys, k.DNSKEY)
		for _, cl := range cloneKeys(k.DNSKEY, c.Clones) {
			keys = append(keys, cl.DNSKEY)
		}
	}
	// deterministic shuffle: candidate order must not depend on input order
	rng.Shuffle(len(keys), func(a, b int) { keys[a], keys[b] = keys[b], keys[a] })
	for _, k := range keys {
		c.Keys = append(c.Keys, k.String())
	}

	ask := func(name string, t uint16) *dns.Msg {
		q := new(dns.Msg)
		q.SetQuestion(name, t)
		q.SetEdns0(1232, true)
		return z.Respond(q)
	}

	var call func(w *countingWork) workResult
	singleRRset := false
	aboveCap := false
	switch c.Kind {
	case "rrsig-answer", "rrsig-negative":
		var m *dns.Msg
		if c.Kind == "rrsig-answer" {
			m = ask("www."+apex, dns.TypeA)
		} else {
			m = ask("nx."+apex, dns.TypeA)
		}
		m.Answer = addBogus(m.Answer, c.Bogus)
		m.Ns = addBogus(m.Ns, c.Bogus)
		singleRRset = countRRsets(m) == 1
		if b, err := m.Pack(); err == nil {
			c.MsgHex = fmt.Sprintf("%x", b)
		}
		km := keyMapOf(keys)
		call = func(w *countingWork) workResult {
			var ok bool
			var err error
			if w == nil {
				ok, err = dnssec.VerifyRRSIG(apex, km, m)
			} else {
				ok, err = dnssec.VerifyRRSIGWithWork(apex, km, m, w)
			}
			return workResult{ok, err}
		}
	case "ds":
		good := z.DS(300)
		ds := append([]dns.RR(nil), good...)
		g := good[0].(*dns.DS)
		for i := 0; i < c.Bogus; i++ {
			d := dns.Copy(g).(*dns.DS)
			d.Digest = fmt.Sprintf("%064x", uint64(i)+1)
			ds = append(ds, d)
		}
		if rng.IntN(4) == 0 {
			// nothing matches: every candidate of every DS is tried
			ds = ds[len(good):]
			if len(ds) == 0 {
				d := dns.Copy(g).(*dns.DS)
				d.Digest = fmt.Sprintf("%064x", 0xdead)
				ds = append(ds, d)
			}
		}
		rng.Shuffle(len(ds), func(a, b int) { ds[a], ds[b] = ds[b], ds[a] })
		for _, d := range ds {
			c.DSSet = append(c.DSSet, d.String())
		}
		km := keyMapOf(keys)
		call = func(w *countingWork) workResult {
			var ok bool
			var err error
			if w == nil {
				ok, err = dnssec.VerifyDS(km, ds)
			} else {
				ok, err = dnssec.VerifyDSWithWork(km, ds, w)
			}
			return workResult{ok, err}
		}
	case "nsec3-nxdomain", "nsec3-nodata":
		var m *dns.Msg
		if c.Kind == "nsec3-nxdomain" {
			m = ask(pickStr(rng, "nx.", "x.y.z.", "zz.b.")+apex, dns.TypeA)
		} else {
			m = ask(pickStr(rng, "www.", "b.", "a.b.")+apex, dns.TypeAAAA)
		}
		var n3 []dns.RR
		for _, rr := range m.Ns {
			if rr.Header().Rrtype == dns.TypeNSEC3 {
				n3 = append(n3, rr)
			}
		}
		if b, err := m.Pack(); err == nil {
			c.MsgHex = fmt.Sprintf("%x", b)
		}
		aboveCap = c.Iter > 150
		nx := c.Kind == "nsec3-nxdomain"
		call = func(w *countingWork) workResult {
			var ok bool
			var err error
			var work dnssec.NSEC3Work
			if w != nil {
				work = w
			}
			if nx {
				ok, err = dnssec.VerifyNameErrorForZoneWithWork(m, n3, apex, work)
			} else {
				ok, err = dnssec.VerifyNODATAForZoneWithWork(m, n3, apex, work)
			}
			return workResult{ok, err}
		}
	}

	guard := func(name string, w *countingWork) (res workResult, panicked bool) {
		defer func() {
			if p := recover(); p != nil {
				panicked = true
				r.Violation("panic/dnssec-work-api", fmt.Sprintf("%s case %d: %s panicked: %v", c.Kind, index, name, p), run.workReplay(c))
			}
		}()
		return call(w), false
	}

	rA, p1 := guard("verification without a work object", nil)
	wB := newCountingWork(noLimits)
	rB, p2 := guard("verification with an unlimited work object", wB)
	wC := newCountingWork(c.Limits)
	rC, p3 := guard("verification with a limited work object", wC)
	if p1 || p2 || p3 {
		return
	}
	c.Unlim = traceStrings(wB.trace)
	c.Limited = traceStrings(wC.trace)
	r.Eval(1)
	r.Count("workapi_cases", 1)
	r.Count("workapi_kind/"+c.Kind, 1)
	ops := 0
	for _, e := range wB.trace {
		if e.Op == "sig" || e.Op == "ds" || e.Op == "n3" {
			ops++
		}
	}
	r.Max("workapi_max_expensive_ops_unlimited", int64(ops))
	if ops > 0 {
		r.Count("workapi_cases_with_expensive_ops", 1)
		r.DistinctIn("workapi_shapes", fmt.Sprintf("%s/c%d/b%d/i%d/ops%d", c.Kind, c.Clones, c.Bogus, c.Iter, ops))
	}
	rc := run.workReplay(c)

	// (1) an unlimited work object changes nothing
	if !rA.same(rB) {
		r.Violation("workapi/unlimited-work-changes-result", fmt.Sprintf("%s case %d: without a work object the verification returned %s, with an unlimited one %s", c.Kind, index, rA, rB), rc)
	} else {
		r.Count("workapi_unlimited_agreement", 1)
	}
	if rB.err != nil && dnssec.IsWorkError(rB.err) {
		r.Violation("workapi/work-error-without-refusal", fmt.Sprintf("%s case %d: the unlimited work object refused nothing, yet the result is the work error %v", c.Kind, index, rB.err), rc)
	}

	// (2) protocol of the unlimited run: checks precede every expensive
	// operation and report honest "used" counts
	prevCand, prevRRset := int64(-1), int64(-1)
	sawCand, sawRRset := false, false
	sigs := uint32(0)
	for _, e := range wB.trace {
		switch e.Op {
		case "cand":
			if !(e.Used == 0 || int64(e.Used) == prevCand+1) {
				r.Violation("workapi/candidate-count-not-monotone", fmt.Sprintf("%s case %d: CheckDNSKEYCandidate(%d) after (%d); trace %v", c.Kind, index, e.Used, prevCand, c.Unlim), rc)
			}
			prevCand, sawCand = int64(e.Used), true
		case "rrset":
			if !(e.Used == 0 || int64(e.Used) == prevRRset+1) {
				r.Violation("workapi/rrset-signature-count-not-monotone", fmt.Sprintf("%s case %d: CheckRRsetSignature(%d) after (%d); trace %v", c.Kind, index, e.Used, prevRRset, c.Unlim), rc)
			}
			if singleRRset && e.Used != sigs {
				r.Violation("workapi/rrset-signature-count-understated", fmt.Sprintf("%s case %d: one RRset, %d signature operations begun so far, but CheckRRsetSignature(%d); trace %v", c.Kind, index, sigs, e.Used, c.Unlim), rc)
			}
			prevRRset, sawRRset = int64(e.Used), true
		case "sig":
			if !sawCand || !sawRRset {
				r.Violation("workapi/signature-begun-without-limit-checks", fmt.Sprintf("%s case %d: BeginSignature #%d not preceded by CheckDNSKEYCandidate and CheckRRsetSignature; trace %v", c.Kind, index, e.Used, c.Unlim), rc)
			}
			sawCand, sawRRset = false, false
			sigs++
		case "ds":
			if !sawCand {
				r.Violation("workapi/ds-digest-begun-without-limit-check", fmt.Sprintf("%s case %d: BeginDSDigest #%d not preceded by CheckDNSKEYCandidate; trace %v", c.Kind, index, e.Used, c.Unlim), rc)
			}
			sawCand = false
		}
	}
	if aboveCap {
		r.Count("workapi_nsec3_above_iteration_cap_cases", 1)
		if wB.begun["n3"] > 0 {
			r.Violation("workapi/nsec3-hashed-above-iteration-cap", fmt.Sprintf("%s case %d: NSEC3 records with %d iterations caused %d hash operations (cap 150)", c.Kind, index, c.Iter, wB.begun["n3"]), rc)
		}
		if rB.err == nil {
			r.Violation("workapi/nsec3-above-iteration-cap-accepted", fmt.Sprintf("%s case %d: a denial proof with %d NSEC3 iterations was accepted", c.Kind, index, c.Iter), rc)
		}
	} else if strings.HasPrefix(c.Kind, "nsec3") {
		r.Count("workapi_nsec3_within_cap_cases", 1)
		if wB.begun["n3"] > 0 {
			r.Count("workapi_nsec3_within_cap_hashed", 1)
		}
	}

	// (3) the limited run
	want, refusal := predict(wB.trace, c.Limits)
	for _, w := range []*countingWork{wB, wC} {
		if w.outstanding != 0 || w.doubleRel != 0 {
			r.Violation("workapi/release-imbalance", fmt.Sprintf("%s case %d: %d granted operations never released, %d released twice", c.Kind, index, w.outstanding, w.doubleRel), rc)
		}
	}
	if wC.begun["sig"] > c.Limits.Sig || wC.begun["ds"] > c.Limits.DS || wC.begun["n3"] > c.Limits.N3 {
		r.Violation("workapi/begun-exceeds-limit", fmt.Sprintf("%s case %d: begun %v with limits %+v", c.Kind, index, wC.begun, c.Limits), rc)
	}
	if wC.afterRefusal > 0 {
		r.Violation("workapi/work-continued-after-refusal", fmt.Sprintf("%s case %d: %d further work calls after the work object refused; limited trace %v", c.Kind, index, wC.afterRefusal, c.Limited), rc)
	}
	if wC.refused {
		r.Count("workapi_refusals_observed", 1)
		switch {
		case rC.err == nil || rC.ok:
			r.Violation("workapi/refusal-did-not-abort", fmt.Sprintf("%s case %d: the work object refused (%v) but the verification returned %s", c.Kind, index, c.Limited[len(c.Limited)-1], rC), rc)
		case !dnssec.IsWorkError(rC.err) || !errors.Is(rC.err, errC12WorkRefused):
			r.Violation("workapi/refusal-not-reported-as-work-error", fmt.Sprintf("%s case %d: the work object refused (%v) but the verification returned %s, which is not a work error — the caller would treat it as an ordinary validation failure", c.Kind, index, c.Limited[len(c.Limited)-1], rC), rc)
		default:
			r.Count("workapi_aborts_checked", 1)
		}
	}
	same := len(want) == len(wC.trace)
	for i := 0; same && i < len(want); i++ {
		same = want[i] == wC.trace[i]
	}
	switch {
	case !same:
		r.Violation("workapi/limited-run-is-not-the-unlimited-run-cut-at-the-limit", fmt.Sprintf("%s case %d limits %+v: expected %v, observed %v", c.Kind, index, c.Limits, traceStrings(want), c.Limited), rc)
	case !refusal:
		r.Count("workapi_limited_runs_within_limits", 1)
		if !rC.same(rB) {
			r.Violation("workapi/within-limits-result-differs", fmt.Sprintf("%s case %d: nothing was refused, yet the limited run returned %s and the unlimited one %s", c.Kind, index, rC, rB), rc)
		}
	}
	if index < 2 {
		r.Sample(map[string]any{"dnssec_work_api_case": c.Kind, "index": index, "same_tag_clones": c.Clones, "bogus": c.Bogus, "nsec3_iterations": c.Iter,
			"limits": fmt.Sprintf("%+v", c.Limits), "no_work": rA.String(), "unlimited": rB.String(), "limited": rC.String(),
			"unlimited_trace_len": len(wB.trace), "limited_trace_tail": tail(c.Limited, 4)})
	}
}

func tail(s []string, n int) []string {
	if len(s) > n {
		return s[len(s)-n:]
	}
	return s
}

func pickInt(rng *rand.Rand, xs ...int) int       { return xs[rng.IntN(len(xs))] }
func pickU16(rng *rand.Rand, xs ...uint16) uint16 { return xs[rng.IntN(len(xs))] }
func pickStr(rng *rand.Rand, xs ...string) string { return xs[rng.IntN(len(xs))] }

func (run *runner) workReplay(c *WorkCase) ReplayCase {
	return ReplayCase{Seed: run.r.Seed, Index: c.Index, Topology: &TopoSpec{Index: c.Index, Kind: "dnssec-work-api", Variant: c.Kind}, Extra: c}
}
