package main

func (run *runner) workAPI(lo, hi int) {}
