package main

import (
	"fmt"
	"math/rand/v2"
	"os"
	"sort"
	"strings"

	"github.com/miekg/dns"
)

// terminationMarginMs is how much later than the configured per-query timeout a
// reply may arrive before it is judged a violation of bounded progress (the
// machine is shared and heavily loaded; the timeout itself is sdns's promise).
const terminationMarginMs = 45_000

var smallBudgets = []uint32{1, 1, 2, 2, 3, 3, 4, 5, 6, 7, 8, 10, 12}
var midBudgets = []uint32{14, 18, 24, 32, 48, 64, 96}

func dnssecKind(k string) bool {
	switch k {
	case "huge-ds", "huge-dnskey", "huge-rrsig", "keycrowd", "nsec3-iter":
		return true
	}
	return false
}

// stackConfigs is the list of resolver configurations run, one after the
// other on fresh stacks, against one topology.
func stackConfigs(rng *rand.Rand, t *TopoSpec) []StackCfg {
	base := StackCfg{QMin: t.QMin, TimeoutMs: 2000, QueryTimeoutMs: 15000}
	if t.Slow {
		// servers that never answer: keep the case short. Nothing judged on
		// such a topology depends on a timeout being long enough.
		base.TimeoutMs = 400
		base.QueryTimeoutMs = 5000
	}
	pairV6 := !t.Slow && t.Index%8 == 3
	off := base
	off.Label, off.Mode, off.V6 = "off", "off", pairV6
	sh := base
	sh.Label, sh.Mode, sh.V6 = "shadow", "shadow", pairV6
	// shadow gets tiny budgets, so crossings happen and must stay invisible
	sh.MaxOutbound = pick(rng, smallBudgets...)
	sh.MaxInternal = pick(rng, uint32(1), 1, 2, 4)
	sh.MaxSigs = pick(rng, uint32(1), 2, 4)
	sh.MaxDS = pick(rng, uint32(1), 2)
	sh.MaxN3 = pick(rng, uint32(1), 2, 4)
	sh.MaxCandidates = pick(rng, uint32(1), 2)
	sh.MaxRRsetSigs = pick(rng, uint32(1), 2)

	es := base
	es.Label, es.Mode = "enforce-small", "enforce"
	es.MaxOutbound = pick(rng, smallBudgets...)

	em := base
	em.Label, em.Mode = "enforce-mid", "enforce"
	em.MaxOutbound = pick(rng, midBudgets...)
	em.V6 = !t.Slow && t.Index%2 == 0
	if rng.IntN(3) == 0 {
		em.MaxInternal = pick(rng, uint32(1), 2, 3, 5, 8)
	}

	ed := base
	ed.Label, ed.Mode = "enforce-default", "enforce"
	if dnssecKind(t.Kind) || (t.Signed && rng.IntN(3) == 0) {
		ed.Label = "enforce-dnssec"
		ed.MaxSigs = pick(rng, uint32(1), 2, 4, 8, 0)
		ed.MaxDS = pick(rng, uint32(1), 2, 4, 0)
		ed.MaxN3 = pick(rng, uint32(1), 2, 4, 8, 0)
		ed.MaxCandidates = pick(rng, uint32(1), 2, 0)
		ed.MaxRRsetSigs = pick(rng, uint32(1), 2, 0)
	}
	return []StackCfg{off, sh, es, em, ed}
}

type stackResult struct {
	cfg    StackCfg
	q1, q2 *QueryObs
}

func sameCodes(a, b []uint16) bool {
	x := append([]uint16(nil), a...)
	y := append([]uint16(nil), b...)
	sort.Slice(x, func(i, j int) bool { return x[i] < x[j] })
	sort.Slice(y, func(i, j int) bool { return y[i] < y[j] })
	if len(x) != len(y) {
		return false
	}
	for i := range x {
		if x[i] != y[i] {
			return false
		}
	}
	return true
}

// topology runs and judges one generated topology.
func (run *runner) topology(index int) {
	r := run.r
	rng := r.RandN("topo", index)
	spec := genTopo(rng, index)
	w := buildWorld(spec)
	defer w.close()
	r.Count("topologies", 1)
	r.Count("kind/"+spec.Kind, 1)
	r.DistinctIn("topology_shapes", spec.shape())
	if debug {
		fmt.Fprintf(os.Stderr, "T%d %s resolvable=%v deterministic=%v q=%s lame=%v\n", index, spec.shape(), spec.Resolvable, spec.Deterministic, spec.Question, spec.Lame)
	}

	cfgs := stackConfigs(rng, spec)
	results := map[string]*stackResult{}
	for _, cfg := range cfgs {
		st := run.startStack(w, cfg)
		if st == nil {
			return
		}
		res := &stackResult{cfg: cfg}
		res.q1 = st.ask("127.0.0.1:40001", spec.Question)
		if !res.q1.Watchdog {
			// the identical question from another client
			res.q2 = st.ask("127.0.0.2:40002", spec.Question)
		}
		run.judgeStack(st, res)
		st.close()
		results[cfg.Label] = res
		r.Count("stacks/"+cfg.Mode, 1)
		if res.q1.Watchdog || (res.q2 != nil && res.q2.Watchdog) {
			return // a wedged pipeline: nothing more can be learnt in this process state
		}
	}

	off, sh := results["off"], results["shadow"]
	if off == nil || sh == nil || off.q1.reply == nil {
		return
	}
	// what the data "really" resolves to
	resolvable := spec.Resolvable && !off.q1.servfail()
	if spec.Resolvable && off.q1.servfail() {
		r.Count("unexpected_unresolvable/"+spec.Kind, 1)
		if debug {
			fmt.Fprintf(os.Stderr, "T%d NOTE: resolvable topology answered SERVFAIL with the firewall off: %v\n", index, off.q1.EDE)
		}
	}

	// ---- metamorphic: shadow == off --------------------------------------
	if spec.Deterministic {
		pairs := [][2]*QueryObs{{off.q1, sh.q1}, {off.q2, sh.q2}}
		compared := false
		for i, p := range pairs {
			a, b := p[0], p[1]
			if a == nil || b == nil || a.reply == nil || b.reply == nil {
				continue
			}
			compared = true
			r.Eval(1)
			r.Count("off_shadow_queries_compared", 1)
			if a.outcome() != b.outcome() || !sameCodes(a.edeCodes, b.edeCodes) {
				c := ReplayCase{Seed: r.Seed, Index: index, Topology: spec, Stack: &sh.cfg, Obs: b, Ref: a}
				r.Violation("metamorphic/shadow-reply-differs-from-off",
					fmt.Sprintf("query %d of %s: firewall off gave [%s ede=%v], shadow gave [%s ede=%v]", i+1, spec.shape(), a.outcome(), a.EDE, b.outcome(), b.EDE), c)
			}
		}
		if compared {
			r.Count("off_shadow_pairs_compared", 1)
		}
	}
	if len(sh.q1.Exhausted) > 0 || (sh.q2 != nil && len(sh.q2.Exhausted) > 0) {
		r.Count("shadow_stacks_with_budget_crossing", 1)
	}

	// ---- enforce: the budget may only turn the outcome into SERVFAIL(+EDE),
	//      and that failure is the request's own ----------------------------
	for _, label := range []string{"enforce-small", "enforce-mid", "enforce-default", "enforce-dnssec"} {
		e := results[label]
		if e == nil || e.q1.reply == nil {
			continue
		}
		for qi, pair := range [][2]*QueryObs{{off.q1, e.q1}, {off.q2, e.q2}} {
			ref, obs := pair[0], pair[1]
			if ref == nil || obs == nil || obs.reply == nil || ref.reply == nil {
				continue
			}
			over := false
			if spec.Deterministic {
				r.Eval(1)
				r.Count("enforce_vs_off_compared", 1)
				if obs.outcome() != ref.outcome() {
					why := ""
					switch {
					case !obs.servfail():
						why = "it is not SERVFAIL"
					case len(obs.reply.Answer) > 0:
						why = "it carries answer records"
					case len(obs.Exhausted) == 0:
						why = "no budget of the request tree was crossed"
					case spec.Question.EDNS && len(obs.edeCodes) == 0:
						why = "it carries no Extended DNS Error although the client used EDNS"
					}
					if why != "" {
						c := ReplayCase{Seed: r.Seed, Index: index, Topology: spec, Stack: &e.cfg, Obs: obs, Ref: ref}
						sig := "enforce/over-budget-reply-not-servfail"
						switch {
						case strings.HasPrefix(why, "no budget"):
							sig = "enforce/reply-changed-without-budget-crossing"
						case strings.HasPrefix(why, "it carries no Extended"):
							sig = "enforce/over-budget-servfail-without-ede"
						}
						r.Violation(sig, fmt.Sprintf("query %d of %s under %s (outbound budget %d): unconstrained outcome [%s], enforce outcome [%s ede=%v exhausted=%v] — enforce may only replace the outcome by the over-budget SERVFAIL, but %s",
							qi+1, spec.shape(), label, e.cfg.outboundBudget(), ref.outcome(), obs.outcome(), obs.EDE, obs.Exhausted, why), c)
					} else {
						over = true
					}
				} else if obs.servfail() && obs.budgetEDE {
					over = true // same rcode as unconstrained, but it is the budget speaking
				}
			} else if obs.servfail() && obs.budgetEDE {
				over = true
			}
			if over {
				r.Count("over_budget_servfails", 1)
				if len(obs.edeCodes) > 0 {
					r.Count("over_budget_servfails_with_ede", 1)
				}
				if !spec.Question.EDNS {
					r.Count("over_budget_servfails_non_edns_client", 1)
				}
				dn := false
				for _, x := range obs.Exhausted {
					if x != "outbound_queries" && x != "internal_queries" {
						dn = true
					}
					r.Count("over_budget_reason/"+x, 1)
				}
				if dn {
					r.Count("enforce_dnssec_budget_servfails", 1)
				}
			}
			// follow-up: only where no genuine shared failure can exist
			if qi == 0 && over && resolvable && e.q2 != nil && e.q2.reply != nil && e.q2.Quiesced {
				f := e.q2
				r.Eval(1)
				r.Count("followup_checks", 1)
				c := ReplayCase{Seed: r.Seed, Index: index, Topology: spec, Stack: &e.cfg, Obs: f, Ref: obs}
				if f.hasEDE(dns.ExtendedErrorCodeCachedError) {
					r.Violation("enforce/over-budget-servfail-served-from-failure-cache",
						fmt.Sprintf("%s under %s: the first client got the over-budget SERVFAIL %v; the identical question from another client was answered %s with EDE 13 (Cached Error) %v, upstream packets %d", spec.shape(), label, obs.EDE, f.Rcode, f.EDE, f.Packets), c)
				} else if f.Packets == 0 {
					r.Violation("enforce/over-budget-servfail-followup-not-resolved-again",
						fmt.Sprintf("%s under %s: the first client got the over-budget SERVFAIL %v; the identical question from another client was answered [%s ede=%v] without a single upstream packet", spec.shape(), label, obs.EDE, f.outcome(), f.EDE), c)
				} else {
					r.Count("followup_resolved_again_upstream", 1)
					if !f.servfail() {
						r.Count("followup_succeeded_with_warm_caches", 1)
					}
				}
			}
		}
	}
	if spec.Index%11 == 0 {
		s := map[string]any{"topology": spec.shape(), "question": spec.Question.String()}
		for l, res := range results {
			s[l] = fmt.Sprintf("budget=%d v6=%v q1[%s ede=%v pkts=%d debits=%d exh=%v] q2[%s pkts=%d]", res.cfg.outboundBudget(), res.cfg.V6,
				res.q1.outcome(), res.q1.EDE, res.q1.Packets, res.q1.Debits, res.q1.Exhausted, obsOutcome(res.q2), obsPackets(res.q2))
		}
		r.Sample(s)
	}
}

func obsOutcome(o *QueryObs) string {
	if o == nil {
		return "-"
	}
	return o.outcome()
}

func obsPackets(o *QueryObs) int {
	if o == nil {
		return 0
	}
	return o.Packets
}

// judgeStack applies the per-reply checks that need no reference run.
func (run *runner) judgeStack(st *stackRun, res *stackResult) {
	r := run.r
	spec := st.w.spec
	cfg := res.cfg
	for qi, obs := range []*QueryObs{res.q1, res.q2} {
		if obs == nil || obs.Watchdog {
			continue
		}
		r.Eval(1)
		r.Count("replies_judged", 1)
		r.Count("contract_breaches", len(obs.ContractBreak))
		for _, b := range obs.ContractBreak {
			r.Count("contract_breach/"+strings.SplitN(b, ":", 2)[0], 1)
		}
		c := st.caseFor(obs)

		// -- bounded progress: an answer or SERVFAIL, in time -----------------
		switch {
		case obs.Replies == 0:
			r.Violation("termination/no-reply", fmt.Sprintf("%s under %s: the pipeline returned without writing a reply to %s", spec.shape(), cfg.Label, obs.Query), c)
			continue
		case obs.reply == nil:
			r.Count("reply_unparsable", 1)
			continue
		}
		if obs.Replies > 1 {
			r.Count("multiple_replies", 1)
		}
		if obs.ElapsedMs > int64(cfg.QueryTimeoutMs+terminationMarginMs) {
			r.Violation("termination/late-reply", fmt.Sprintf("%s under %s: reply to %s after %d ms (querytimeout %d ms + %d ms margin)", spec.shape(), cfg.Label, obs.Query, obs.ElapsedMs, cfg.QueryTimeoutMs, terminationMarginMs), c)
		}
		r.Max("max_reply_ms", obs.ElapsedMs)
		r.Count("rcode/"+cfg.Mode+"/"+obs.Rcode, 1)
		switch obs.reply.Rcode {
		case dns.RcodeSuccess, dns.RcodeNameError, dns.RcodeServerFailure, dns.RcodeYXDomain:
		default:
			r.Count("unusual_rcode/"+obs.Rcode, 1)
		}
		if obs.Packets > 0 {
			r.Distinct(fmt.Sprintf("%s|%s|%d", spec.shape(), cfg.Mode, cfg.outboundBudget()))
		}
		if obs.Trees > 1 {
			r.Count("queries_with_more_than_one_ledger", 1)
		}
		if cfg.Mode != "off" && int64(obs.Packets) > obs.Debits {
			// informational: the statement bounds attempts by the budget, it
			// does not promise that the ledger counter covers every packet
			r.Count("packets_exceed_ledger_debits", 1)
		}

		// -- shadow / off never surface the limit -----------------------------
		if cfg.Mode != "enforce" {
			if obs.budgetEDE {
				r.Violation(cfg.Mode+"/work-limit-error-returned", fmt.Sprintf("%s under %s: reply to %s carries the work-budget EDE %v although budgets are not enforced", spec.shape(), cfg.Label, obs.Query, obs.EDE), c)
			}
			continue
		}

		// -- enforce: packets at the servers never exceed the budget ----------
		if !obs.Quiesced {
			r.Inconclusive(fmt.Sprintf("topology %d %s: stack did not quiesce after %s; packet count not judged", spec.Index, cfg.Label, obs.Query))
			continue
		}
		budget := int(cfg.outboundBudget())
		r.Count("enforce_queries_counted", 1)
		if obs.Packets > 0 {
			r.Count("enforce_queries_with_upstream_packets", 1)
		}
		if obs.Packets == budget {
			r.Count("enforce_budget_fully_spent", 1)
		}
		r.Count("enforce_tcp_packets", obs.TCPPackets)
		r.Count("enforce_packets_after_reply", obs.AfterReply)
		r.Count("enforce_sink_packets", obs.SinkPackets)
		r.Max("max_packets_per_query_pct_of_budget", int64(100*obs.Packets/budget))
		if budget >= 128 {
			r.Max("max_packets_per_query_default_budget", int64(obs.Packets))
		}
		if obs.Packets > budget {
			r.Violation("enforce/outbound-packets-exceed-budget",
				fmt.Sprintf("%s under %s: query %d (%s) caused %d packets at the scripted servers (tcp %d, after the reply %d) with max_outbound_queries=%d; ledger debits %d",
					spec.shape(), cfg.Label, qi+1, obs.Query, obs.Packets, obs.TCPPackets, obs.AfterReply, budget, obs.Debits), c)
		}
		if obs.budgetEDE && (!obs.servfail() || len(obs.reply.Answer) > 0) {
			r.Violation("enforce/over-budget-reply-not-servfail", fmt.Sprintf("%s under %s: reply to %s carries the work-budget EDE but is [%s]", spec.shape(), cfg.Label, obs.Query, obs.outcome()), c)
		}
	}
}
