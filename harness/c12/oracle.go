package main

import (
	"fmt"
	"math/rand/v2"
	"os"
	"sort"
	"strings"

	"github.com/miekg/dns"
	"github.com/semihalev/sdns/config"
)

// terminationMarginMs is how much later than the configured per-query timeout a
// reply may arrive before it is judged a violation of bounded progress (the
// machine is shared and heavily loaded; the timeout itself is sdns's promise).
const terminationMarginMs = 45_000

var smallBudgets = []uint32{1, 1, 2, 2, 3, 3, 4, 5, 6, 7, 8, 10, 12}
var midBudgets = []uint32{14, 18, 24, 32, 48, 64, 96}

func dnssecKind(k string) bool {
	switch k {
	case "huge-ds", "huge-dnskey", "huge-rrsig", "keycrowd", "nsec3-iter", "nsec3-deep":
		return true
	}
	return false
}

// classOf groups the topology kinds into the classes the statement names.
func classOf(kind string) string {
	switch kind {
	case "cname-cycle", "dname-cycle", "ns-cycle", "self-referral":
		return "cycle"
	case "cname-chain", "dname-chain", "ns-chain":
		return "chain"
	case "fanout", "fanout2":
		return "fanout"
	case "deep-infinite", "deep-chain":
		return "deep-referral"
	case "lame":
		return "lame"
	case "huge-ns", "huge-ds", "huge-dnskey", "huge-rrsig", "keycrowd":
		return "huge-set"
	case "nsec3-iter", "nsec3-deep":
		return "nsec3-iterations"
	case "qmin-parent", "qmin-fallback", "cached-cut", "alias-restart":
		return "restart"
	}
	return "other"
}

var classes = []string{"cycle", "chain", "fanout", "deep-referral", "lame", "huge-set", "nsec3-iterations", "restart"}

// restartFamilies are the restart / re-entry events recognised in the packet
// log (restart.go).
var restartFamilies = []string{"parent", "fallback", "cached"}

// placeBudgetsAroundRestart: the firewall-off stack has shown after how many
// packets the request tree restarted (pre) and how many it needs in all before
// the client is answered (total). Outbound budgets in [pre, total-1] let the
// restart happen before the budget is crossed and make the work that remains
// after it cross it. Applied to the shadow stack and the two outbound-limited
// enforce stacks; the draw is a function of (seed, index) and of what the off
// stack observed.
func placeBudgetsAroundRestart(rng *rand.Rand, off *stackResult, cfgs []StackCfg) bool {
	o := off.q1
	if o == nil || o.Restart == nil || o.Restart.Pre <= 0 || o.Restart.PreReply <= o.Restart.Pre {
		return false
	}
	pre, total := o.Restart.Pre, o.Restart.PreReply
	for i := range cfgs {
		switch cfgs[i].Label {
		case "shadow", "enforce-small", "enforce-mid":
			// mostly past the restart's first packet; sometimes exactly
			// spent when the restart is decided
			b := pre + rng.IntN(total-pre)
			if total-pre > 1 && rng.IntN(4) != 0 {
				b = pre + 1 + rng.IntN(total-pre-1)
			}
			cfgs[i].MaxOutbound = uint32(b)
		}
	}
	return true
}

// countRestarts publishes what one stack's packet logs show about restarts.
// Stacks with ipv6access on are left out: once a server is known under two
// addresses the resolver races them, and a question that arrives twice no
// longer proves a restart.
func (run *runner) countRestarts(spec *TopoSpec, res *stackResult) {
	if spec.Restart == nil || res.cfg.V6 {
		return
	}
	r := run.r
	for qi, obs := range []*QueryObs{res.q1, res.q2} {
		if obs == nil || obs.Restart == nil || obs.Watchdog {
			continue
		}
		for fam, n := range obs.Restart.Events {
			r.Count("restart/"+fam+"/events", n)
			r.Count("restart/"+fam+"/queries", 1)
			r.Count("restart/"+fam+"/"+res.cfg.Mode+"_queries", 1)
			if spec.Restart.Via != "" {
				r.Count("restart/"+fam+"/queries_via_"+spec.Restart.Via, 1)
				r.Count("restart/"+fam+"/queries_via_alias", 1)
			}
			if spec.TCAll {
				r.Count("restart/"+fam+"/queries_tc_all", 1)
			}
			r.Count(fmt.Sprintf("restart/%s/queries_qmin_%d", fam, spec.QMin), 1)
			if fam != "cached" {
				r.Count("restart/"+fam+"/queries_place_"+spec.Restart.Place, 1)
			}
			r.DistinctIn("restart_shapes/"+fam, spec.Restart.shape()+fmt.Sprintf("/qmin=%d", spec.QMin))
			crossed := false
			for _, x := range obs.Exhausted {
				if x == "outbound_queries" {
					crossed = true
				}
			}
			if res.cfg.Mode != "off" && crossed {
				// the restart was reached within the budget and the budget
				// was crossed in the same tree: by the work after it
				r.Count("restart/"+fam+"/"+res.cfg.Mode+"_queries_budget_crossed_after_restart", 1)
				if res.cfg.Mode == "enforce" && obs.servfail() && (obs.budgetEDE || !spec.Question.EDNS) {
					r.Count("restart/"+fam+"/enforce_over_budget_servfail_after_restart", 1)
				}
			}
			if res.cfg.Mode == "enforce" && qi == 0 && obs.Packets == int(res.cfg.outboundBudget()) {
				r.Count("restart/"+fam+"/enforce_budget_fully_spent_after_restart", 1)
			}
		}
	}
}

// stackConfigs is the list of resolver configurations run, one after the
// other on fresh stacks, against one topology.
func stackConfigs(rng *rand.Rand, t *TopoSpec) []StackCfg {
	base := StackCfg{QMin: t.QMin, TimeoutMs: 2000, QueryTimeoutMs: 15000}
	if t.Slow {
		// servers that never answer: keep the case short. Nothing judged on
		// such a topology depends on a timeout being long enough.
		base.TimeoutMs = 400
		base.QueryTimeoutMs = 5000
	}
	pairV6 := !t.Slow && t.Index%8 == 3
	if t.Restart != nil {
		// the budgets of the restart kinds are placed from what the off stack
		// observed; with ipv6access on every lookup races two addresses of the
		// same server and the counts are not comparable
		pairV6 = false
	}
	off := base
	off.Label, off.Mode, off.V6 = "off", "off", pairV6
	sh := base
	sh.Label, sh.Mode, sh.V6 = "shadow", "shadow", pairV6
	// shadow gets tiny budgets, so crossings happen and must stay invisible
	sh.MaxOutbound = pick(rng, smallBudgets...)
	sh.MaxInternal = pick(rng, uint32(1), 1, 2, 4)
	sh.MaxSigs = pick(rng, uint32(1), 2, 4)
	sh.MaxDS = pick(rng, uint32(1), 2)
	sh.MaxN3 = pick(rng, uint32(1), 2, 4)
	sh.MaxCandidates = pick(rng, uint32(1), 2)
	sh.MaxRRsetSigs = pick(rng, uint32(1), 2)

	es := base
	es.Label, es.Mode = "enforce-small", "enforce"
	es.MaxOutbound = pick(rng, smallBudgets...)

	em := base
	em.Label, em.Mode = "enforce-mid", "enforce"
	em.MaxOutbound = pick(rng, midBudgets...)
	em.V6 = !t.Slow && t.Index%2 == 0 && t.Restart == nil
	if rng.IntN(3) == 0 {
		em.MaxInternal = pick(rng, uint32(1), 2, 3, 5, 8)
	}

	ed := base
	ed.Label, ed.Mode = "enforce-default", "enforce"
	// (restart kinds: the detached IPv6 jobs run with the default budget)
	ed.V6 = !t.Slow && t.Index%2 == 0 && t.Restart != nil
	if dnssecKind(t.Kind) || (t.Signed && rng.IntN(2) == 0) {
		// constrain ONE DNSSEC dimension (the others keep their defaults, so
		// that its crossing is not masked by another one that comes first);
		// the kind built to stress a dimension mostly gets that dimension
		ed.Label = "enforce-dnssec"
		dim := pick(rng, "sigs", "ds", "n3", "candidates", "rrset")
		if rng.IntN(3) != 0 {
			switch t.Kind {
			case "nsec3-iter", "nsec3-deep":
				dim = "n3"
			case "keycrowd":
				dim = "candidates"
			case "huge-rrsig":
				dim = "rrset"
			case "huge-ds":
				dim = pick(rng, "ds", "candidates")
			case "huge-dnskey":
				dim = pick(rng, "sigs", "ds")
			}
		}
		switch dim {
		case "sigs":
			ed.MaxSigs = pick(rng, uint32(1), 2, 3)
		case "ds":
			ed.MaxDS = pick(rng, uint32(1), 2, 4)
		case "n3":
			ed.MaxN3 = pick(rng, uint32(1), 2)
		case "candidates":
			ed.MaxCandidates = pick(rng, uint32(1), 2)
		case "rrset":
			ed.MaxRRsetSigs = pick(rng, uint32(1), 2)
		}
	}
	if t.Restart != nil && t.Restart.Via != "" && ed.Label == "enforce-default" {
		// alias kinds: a small internal-query budget with every other budget
		// at its default — the alias chase (on the miss path for the first
		// client, on the cache-hit path for the second) is what crosses it
		ed.Label = "enforce-internal"
		ed.MaxInternal = pick(rng, uint32(1), 1, 2, 3)
	}
	return []StackCfg{off, sh, es, em, ed}
}

type stackResult struct {
	cfg    StackCfg
	q1, q2 *QueryObs
	// overrun: queries of this run whose packet count exceeded the budget
	overrun []*QueryObs
	// fw: the effective (normalised) firewall configuration of the stack
	fw config.RecursionFirewallConfig
}

func (s *stackResult) watchdog() bool {
	return s.q1 == nil || s.q1.Watchdog || (s.q2 != nil && s.q2.Watchdog)
}

func sameCodes(a, b []uint16) bool {
	x := dedupCodes(a)
	y := dedupCodes(b)
	if len(x) != len(y) {
		return false
	}
	for i := range x {
		if x[i] != y[i] {
			return false
		}
	}
	return true
}

// dedupCodes is the sorted SET of EDE info codes (sdns attaches the same
// option twice on some paths; that is not what this property is about).
func dedupCodes(a []uint16) []uint16 {
	x := append([]uint16(nil), a...)
	sort.Slice(x, func(i, j int) bool { return x[i] < x[j] })
	out := x[:0]
	for i, c := range x {
		if i == 0 || c != x[i-1] {
			out = append(out, c)
		}
	}
	return out
}

// runStack builds a fresh stack for cfg, asks the topology's question as two
// different clients, one after the other, and closes the stack. nil = the
// stack could not be brought up (already recorded as inconclusive).
func (run *runner) runStack(w *world, cfg StackCfg) *stackResult {
	st := run.startStack(w, cfg)
	if st == nil {
		return nil
	}
	defer st.close()
	res := &stackResult{cfg: cfg, fw: st.rs.Cfg.RecursionFirewall}
	res.q1 = st.ask("127.0.0.1:40001", w.spec.Question)
	if !res.q1.Watchdog {
		// the identical question from another client
		res.q2 = st.ask("127.0.0.2:40002", w.spec.Question)
	}
	run.r.Count("stacks/"+cfg.Mode, 1)
	return res
}

// replyDiff compares what the property calls "the reply" — rcode, answer
// multiset, AD, EDE info codes — of the same query on two stacks. "" = equal.
func replyDiff(a, b *stackResult) string {
	for i, p := range [][2]*QueryObs{{a.q1, b.q1}, {a.q2, b.q2}} {
		x, y := p[0], p[1]
		if x == nil || y == nil || x.reply == nil || y.reply == nil {
			if (x == nil || x.reply == nil) != (y == nil || y.reply == nil) {
				return fmt.Sprintf("query %d: one stack replied, the other did not", i+1)
			}
			continue
		}
		if x.outcome() != y.outcome() || !sameCodes(x.edeCodes, y.edeCodes) {
			return fmt.Sprintf("query %d: [%s ede=%v] vs [%s ede=%v]", i+1, x.outcome(), x.EDE, y.outcome(), y.EDE)
		}
	}
	return ""
}

// topology runs and judges one generated topology.
func (run *runner) topology(index int) {
	r := run.r
	rng := r.RandN("topo", index)
	spec := genTopo(rng, index)
	w := buildWorld(spec)
	defer w.close()
	class := classOf(spec.Kind)
	r.Count("topologies", 1)
	r.Count("kind/"+spec.Kind, 1)
	r.Count("class/"+class+"/topologies", 1)
	r.DistinctIn("topology_shapes", spec.shape())
	if debug {
		fmt.Fprintf(os.Stderr, "T%d %s resolvable=%v deterministic=%v q=%s lame=%v\n", index, spec.shape(), spec.Resolvable, spec.Deterministic, spec.Question, spec.Lame)
	}

	cfgs := stackConfigs(rng, spec)
	results := map[string]*stackResult{}
	var order []*stackResult
	for i := range cfgs {
		cfg := cfgs[i]
		res := run.runStack(w, cfg)
		if res == nil {
			return
		}
		results[cfg.Label] = res
		order = append(order, res)
		run.judgeReplies(w, res, nil)
		run.countRestarts(spec, res)
		if cfg.Label == "off" && spec.Restart != nil && !res.watchdog() {
			if placeBudgetsAroundRestart(rng, res, cfgs) {
				r.Count("restart/budgets_placed_around_restart", 1)
			} else {
				r.Count("restart/no_restart_seen_with_firewall_off", 1)
			}
		}
		if res.watchdog() {
			return // a wedged pipeline: nothing more can be learnt in this process state
		}
		if len(res.overrun) > 0 {
			// More packets than the budget allows. The servers listen on
			// loopback ports of a shared machine, so before this is called a
			// violation the same configuration is run once more on a fresh
			// stack: a missing debit reproduces, a stray datagram does not.
			r.Count("enforce_packet_overruns_rechecked", 1)
			again := run.runStack(w, cfg)
			if again == nil || again.watchdog() {
				return
			}
			run.judgeReplies(w, again, res)
			if len(again.overrun) == 0 {
				o := res.overrun[0]
				r.Inconclusive(fmt.Sprintf("topology %d %s: %d packets for a budget of %d were logged once and not again on a fresh stack (first run upstream log: %v)", index, cfg.Label, o.Packets, cfg.outboundBudget(), o.Upstream))
			}
		}
	}

	// the same topology next to a configured fallback pool (pool.go); the
	// results join the list, so every enforce verdict below applies to them too
	poolResults, ok := run.poolStacks(w, results["off"])
	for _, res := range poolResults {
		results[res.cfg.Label] = res
		order = append(order, res)
	}
	if !ok {
		return
	}

	off, sh := results["off"], results["shadow"]
	if off == nil || sh == nil || off.q1.reply == nil {
		return
	}
	// Is the generator's claim "this data resolves" true for this resolver
	// when nothing is budgeted? (classification of the TOPOLOGY; it decides
	// only where the follow-up and EDE checks are applicable, never whether a
	// budget was crossed in some other run)
	resolvable := spec.Resolvable && !off.q1.servfail()
	if spec.Resolvable && off.q1.servfail() {
		r.Count("unexpected_unresolvable/"+spec.Kind, 1)
		if debug {
			fmt.Fprintf(os.Stderr, "T%d NOTE: resolvable topology answered SERVFAIL with the firewall off: %v\n", index, off.q1.EDE)
		}
	}
	if resolvable {
		r.Count("resolvable_topologies", 1)
	}

	// ---- metamorphic: shadow == off ------------------------------------------
	if len(sh.q1.Exhausted) > 0 || (sh.q2 != nil && len(sh.q2.Exhausted) > 0) {
		r.Count("shadow_stacks_with_budget_crossing", 1)
	}
	raced := func(rs ...*stackResult) bool {
		for _, x := range rs {
			if x == nil {
				continue
			}
			if x.q1.AbandonedTC > 0 || (x.q2 != nil && x.q2.AbandonedTC > 0) {
				return true
			}
		}
		return false
	}
	if spec.Deterministic && raced(off, sh) {
		// sdns races two servers per lookup and one of them may be an
		// exploration probe that stops at a truncated UDP reply; whichever
		// reply comes first is taken. When the packet log shows a truncated
		// exchange that was never carried over to TCP the client-visible
		// reply depends on that race, with the firewall in any mode.
		r.Count("off_shadow_pairs_excluded_abandoned_truncated_exchange", 1)
	} else if spec.Deterministic {
		r.Eval(1)
		r.Count("off_shadow_pairs_compared", 1)
		if sh.q1.reply != nil {
			r.Count("off_shadow_queries_compared", 1)
		}
		if sh.q2 != nil && sh.q2.reply != nil && off.q2 != nil && off.q2.reply != nil {
			r.Count("off_shadow_queries_compared", 1)
		}
		if len(sh.q1.Exhausted) > 0 {
			r.Count("off_shadow_pairs_compared_with_shadow_crossing", 1)
		}
		if d := replyDiff(off, sh); d != "" {
			// The resolver races servers and detached helpers; before calling
			// a difference a violation, separate noise from a persistent
			// difference: run both configurations again on fresh stacks.
			r.Count("off_shadow_differences_rechecked", 1)
			off2 := run.runStack(w, off.cfg)
			var sh2 *stackResult
			if off2 != nil && !off2.watchdog() {
				sh2 = run.runStack(w, sh.cfg)
			}
			switch {
			case off2 == nil || sh2 == nil || off2.watchdog() || sh2.watchdog():
				// already inconclusive
			case raced(off2, sh2):
				r.Count("off_shadow_pairs_excluded_abandoned_truncated_exchange", 1)
			case replyDiff(off, off2) == "" && replyDiff(sh, sh2) == "" && replyDiff(off2, sh2) != "":
				c := ReplayCase{Seed: r.Seed, Index: index, Topology: spec, Stack: &sh.cfg, Obs: sh.q1, Ref: off.q1,
					Extra: map[string]any{"difference": d, "difference_on_rerun": replyDiff(off2, sh2), "off_q2": off.q2, "shadow_q2": sh.q2}}
				r.Violation("metamorphic/shadow-reply-differs-from-off",
					fmt.Sprintf("%s: firewall off and shadow (outbound budget %d) reply differently, reproducibly on fresh stacks — %s", spec.shape(), sh.cfg.outboundBudget(), d), c)
			default:
				r.Count("off_shadow_nondeterministic_difference_discarded", 1)
				if debug {
					fmt.Fprintf(os.Stderr, "T%d NOTE: off/shadow difference not reproducible: %s\n", index, d)
				}
			}
		}
	}

	// ---- enforce: what happens when THIS request tree crossed a budget ---------
	for _, e := range order {
		if e.cfg.Mode != "enforce" {
			continue
		}
		for qi, obs := range []*QueryObs{e.q1, e.q2} {
			if obs == nil || obs.reply == nil || !obs.Quiesced {
				continue
			}
			crossed := len(obs.Exhausted) > 0
			if !crossed {
				continue
			}
			r.Count("enforce_budget_crossed_runs", 1)
			r.Count("class/"+class+"/enforce_budget_crossed_runs", 1)
			for _, x := range obs.Exhausted {
				r.Count("crossed_reason/"+x, 1)
			}
			if !obs.servfail() {
				// an optional branch (DebitBestEffort: detached IPv6
				// enrichment, …) stopped at the cap; the required work was
				// done within the budget and the client got its answer
				// (or a detached exploration probe was refused after the
				// client had been answered)
				r.Count("enforce_crossed_only_optional_work_reply_not_servfail", 1)
				if e.cfg.V6 {
					r.Count("enforce_crossed_only_optional_work_reply_not_servfail_ipv6access_on", 1)
				}
				continue
			}
			c := ReplayCase{Seed: r.Seed, Index: index, Topology: spec, Stack: &e.cfg, Obs: obs}
			r.Eval(1)
			over := obs.budgetEDE || !spec.Question.EDNS
			if spec.Question.EDNS && len(obs.edeCodes) == 0 && resolvable && !e.cfg.V6 {
				// (with ipv6access off there is no optional work: the crossing
				// is a refused REQUIRED debit)
				// honest servers, resolvable data: this SERVFAIL is the
				// budget's doing, and the client negotiated EDNS
				sig, how := "enforce/over-budget-servfail-without-ede", ""
				if qi == 1 && obs.QuestionAsked == 0 && hasAlias(e.q1) {
					// known finding #1 (FINDINGS.md): the alias was answered
					// from the cache (the question itself never went
					// upstream) and the budget was crossed by the chase of
					// its target on the cache-hit path
					sig += "/cached-alias-chase"
					how = " — the alias itself came from the cache (the first client's reply carried it; the question was not asked upstream again), the budget was crossed while its target was chased"
				}
				r.Violation(sig,
					fmt.Sprintf("%s under %s (outbound budget %d, internal budget %d): query %d crossed %v and was answered SERVFAIL without any Extended DNS Error although the client used EDNS%s", spec.shape(), e.cfg.Label, e.cfg.outboundBudget(), e.cfg.MaxInternal, qi+1, obs.Exhausted, how), c)
			}
			if !over {
				r.Count("enforce_crossed_servfail_with_other_ede", 1)
				continue
			}
			r.Count("over_budget_servfails", 1)
			if obs.budgetEDE {
				r.Count("over_budget_servfails_with_ede", 1)
			}
			if !spec.Question.EDNS {
				r.Count("over_budget_servfails_non_edns_client", 1)
			}
			dn := false
			for _, x := range obs.Exhausted {
				if x != "outbound_queries" && x != "internal_queries" {
					dn = true
				}
			}
			if dn && obs.hasEDE(dns.ExtendedErrorCodeDNSSECIndeterminate) {
				r.Count("enforce_dnssec_budget_servfails", 1)
			}

			// follow-up: the identical question from another client. Only
			// where no genuine shared failure can exist (honest, resolvable).
			if qi != 0 || !resolvable || e.q2 == nil || e.q2.reply == nil || !e.q2.Quiesced {
				continue
			}
			f := e.q2
			r.Eval(1)
			r.Count("followup_checks", 1)
			sig, what := run.followupVerdict(spec, e)
			if sig != "" {
				// a real upstream time-out on this loaded machine would be a
				// genuine, cacheable failure: confirm on a second fresh stack
				r.Count("followup_failures_rechecked", 1)
				again := run.runStack(w, e.cfg)
				if again == nil || again.watchdog() {
					return
				}
				sig2, _ := run.followupVerdict(spec, again)
				if sig2 == sig {
					fc := ReplayCase{Seed: r.Seed, Index: index, Topology: spec, Stack: &e.cfg, Obs: f, Ref: obs,
						Extra: map[string]any{"confirmation_first_client": again.q1, "confirmation_second_client": again.q2}}
					r.Violation(sig, what+" — reproduced on a second fresh stack", fc)
				} else {
					r.Inconclusive(fmt.Sprintf("topology %d %s: %s seen once (%s) and not again on a fresh stack", index, e.cfg.Label, sig, what))
				}
				continue
			}
			if f.Packets > 0 {
				r.Count("followup_resolved_again_upstream", 1)
			}
			if !f.servfail() {
				r.Count("followup_succeeded_with_warm_caches", 1)
			} else if len(f.Exhausted) > 0 {
				r.Count("followup_crossed_its_own_budget", 1)
			}
		}
	}

	// informational only (the statement does not relate enforce to off):
	// an enforce first query whose tree crossed nothing, same IPv6 setting
	for _, e := range order {
		if e.cfg.Mode != "enforce" || e.cfg.Pool || !spec.Deterministic || e.cfg.V6 != off.cfg.V6 || e.q1.reply == nil || len(e.q1.Exhausted) > 0 {
			continue
		}
		if e.q1.outcome() == off.q1.outcome() {
			r.Count("info_enforce_uncrossed_first_query_equals_off", 1)
		} else {
			r.Count("info_enforce_uncrossed_first_query_differs_from_off", 1)
		}
	}

	s := map[string]any{"topology": spec.shape(), "index": index, "question": spec.Question.String()}
	for l, res := range results {
		s[l] = fmt.Sprintf("budget=%d v6=%v q1[%s ede=%v pkts=%d tcp=%d debits=%d crossed=%v] q2[%s ede=%v pkts=%d crossed=%v]", res.cfg.outboundBudget(), res.cfg.V6,
			short(res.q1.outcome()), res.q1.EDE, res.q1.Packets, res.q1.TCPPackets, res.q1.Debits, res.q1.Exhausted,
			short(obsOutcome(res.q2)), obsEDE(res.q2), obsPackets(res.q2), obsExhausted(res.q2))
	}
	r.Sample(s)
}

// hasAlias: the reply carries a CNAME or DNAME in its answer section.
func hasAlias(o *QueryObs) bool {
	if o == nil || o.reply == nil {
		return false
	}
	for _, rr := range o.reply.Answer {
		switch rr.Header().Rrtype {
		case dns.TypeCNAME, dns.TypeDNAME:
			return true
		}
	}
	return false
}

func short(s string) string {
	if len(s) > 160 {
		return s[:160] + "…"
	}
	return s
}

func obsOutcome(o *QueryObs) string {
	if o == nil {
		return "-"
	}
	return o.outcome()
}

func obsEDE(o *QueryObs) []string {
	if o == nil {
		return nil
	}
	return o.EDE
}

func obsExhausted(o *QueryObs) []string {
	if o == nil {
		return nil
	}
	return o.Exhausted
}

func obsPackets(o *QueryObs) int {
	if o == nil {
		return 0
	}
	return o.Packets
}

// judgeReplies applies the per-reply checks that need no other run.
// prior is nil on the first run of a configuration and the first run's result
// when this is the confirmation run after a packet overrun.
func (run *runner) judgeReplies(w *world, res *stackResult, prior *stackResult) {
	r := run.r
	spec := w.spec
	cfg := res.cfg
	class := classOf(spec.Kind)
	for qi, obs := range []*QueryObs{res.q1, res.q2} {
		if obs == nil || obs.Watchdog {
			continue
		}
		r.Eval(1)
		r.Count("replies_judged", 1)
		r.Count("contract_breaches", len(obs.ContractBreak))
		for _, b := range obs.ContractBreak {
			r.Count("contract_breach/"+strings.SplitN(b, ":", 2)[0], 1)
		}
		cc := cfg
		c := ReplayCase{Seed: r.Seed, Index: spec.Index, Topology: spec, Stack: &cc, Obs: obs}

		// -- bounded progress: an answer or SERVFAIL, in time -----------------
		switch {
		case obs.Replies == 0:
			r.Violation("termination/no-reply", fmt.Sprintf("%s under %s: the pipeline returned without writing a reply to %s", spec.shape(), cfg.Label, obs.Query), c)
			continue
		case obs.reply == nil:
			r.Count("reply_unparsable", 1)
			continue
		}
		if obs.Replies > 1 {
			r.Count("multiple_replies", 1)
		}
		if obs.ElapsedMs > int64(cfg.QueryTimeoutMs+terminationMarginMs) {
			r.Violation("termination/late-reply", fmt.Sprintf("%s under %s: reply to %s after %d ms (querytimeout %d ms + %d ms margin)", spec.shape(), cfg.Label, obs.Query, obs.ElapsedMs, cfg.QueryTimeoutMs, terminationMarginMs), c)
		}
		r.Count("terminated_in_time", 1)
		r.Max("max_reply_ms", obs.ElapsedMs)
		r.Count("rcode/"+cfg.Mode+"/"+obs.Rcode, 1)
		switch obs.reply.Rcode {
		case dns.RcodeSuccess, dns.RcodeNameError, dns.RcodeServerFailure, dns.RcodeYXDomain:
		default:
			r.Count("unusual_rcode/"+obs.Rcode, 1)
		}
		if obs.Packets > 0 {
			if cfg.Pool {
				r.Distinct(fmt.Sprintf("%s|%s|%d|pool/%s", spec.shape(), cfg.Mode, cfg.outboundBudget(), cfg.PoolDim))
			} else {
				r.Distinct(fmt.Sprintf("%s|%s|%d", spec.shape(), cfg.Mode, cfg.outboundBudget()))
			}
		}
		if cfg.Mode == "off" {
			r.Max("max_packets_per_query_firewall_off", int64(obs.Packets))
			r.Max("class/"+class+"/max_packets_firewall_off", int64(obs.Packets))
		}
		if obs.Trees > 1 {
			r.Count("queries_with_more_than_one_ledger", 1)
		}
		if cfg.Mode != "off" && int64(obs.Packets) > obs.Debits {
			// informational: the statement bounds attempts by the budget, it
			// does not promise that the ledger counter covers every packet
			r.Count("packets_exceed_ledger_debits", 1)
		}

		// -- shadow / off never surface the limit -----------------------------
		if cfg.Mode != "enforce" {
			if obs.budgetEDE {
				r.Violation(cfg.Mode+"/work-limit-error-returned", fmt.Sprintf("%s under %s: reply to %s carries the work-budget EDE %v although budgets are not enforced", spec.shape(), cfg.Label, obs.Query, obs.EDE), c)
			}
			continue
		}

		// -- enforce: packets at the servers never exceed the budget ----------
		if !obs.Quiesced {
			r.Inconclusive(fmt.Sprintf("topology %d %s: stack did not quiesce after %s; packet count not judged", spec.Index, cfg.Label, obs.Query))
			continue
		}
		budget := int(cfg.outboundBudget())
		r.Count("enforce_queries_counted", 1)
		if obs.Packets > 0 {
			r.Count("enforce_queries_with_upstream_packets", 1)
			r.Count("class/"+class+"/enforce_queries_with_upstream_packets", 1)
		}
		if obs.Packets == budget {
			r.Count("enforce_budget_fully_spent", 1)
		}
		r.Count("enforce_tcp_packets", obs.TCPPackets)
		if obs.TCPPackets > 0 {
			r.Count("enforce_queries_with_tcp_fallback", 1)
		}
		r.Count("enforce_packets_after_reply", obs.AfterReply)
		if obs.AfterReply > 0 {
			r.Count("enforce_queries_with_detached_packets_after_reply", 1)
		}
		r.Count("enforce_sink_packets", obs.SinkPackets)
		r.Max("max_packets_per_query_pct_of_budget", int64(100*obs.Packets/budget))
		if budget >= 128 {
			r.Max("max_packets_per_query_default_budget", int64(obs.Packets))
		}
		r.Count("foreign_packets_ignored", obs.Foreign)
		if obs.Packets > budget {
			res.overrun = append(res.overrun, obs)
		}
		if obs.Packets > budget && prior != nil {
			c.Ref = prior.overrun[0]
			r.Violation("enforce/outbound-packets-exceed-budget",
				fmt.Sprintf("%s under %s: query %d (%s) caused %d packets at the scripted servers (tcp %d, after the reply %d) with max_outbound_queries=%d; ledger debits %d",
					spec.shape(), cfg.Label, qi+1, obs.Query, obs.Packets, obs.TCPPackets, obs.AfterReply, budget, obs.Debits)+
					fmt.Sprintf(" — confirmed: the previous fresh stack with the same configuration logged %d packets for %s", prior.overrun[0].Packets, prior.overrun[0].Query), c)
		}
		// the DNSSEC operations the tree's ledger accepted (its own count,
		// published on release) against the configured aggregate budgets;
		// only when exactly one ledger was published in the window
		if obs.Trees == 1 {
			// the transport attempts the tree's one ledger ACCEPTED (its own
			// count, published on release; attempts that were debited and then
			// abandoned before a datagram left never reach the packet log)
			r.Count("enforce_trees_ledger_outbound_count_judged", 1)
			effective := int64(budget)
			if res.fw.MaxOutboundQueries > 0 {
				effective = int64(res.fw.MaxOutboundQueries)
			}
			if obs.Debits > effective {
				r.Violation("enforce/ledger-accepted-outbound-debits-exceed-budget", fmt.Sprintf("%s under %s: the one ledger published for query %d (%s) accepted %d transport attempts with max_outbound_queries=%d (packets at the scripted servers: %d, after the reply %d)", spec.shape(), cfg.Label, qi+1, obs.Query, obs.Debits, effective, obs.Packets, obs.AfterReply), c)
			}
			fw := res.fw
			for op, lim := range map[string]uint32{"signature_checks": fw.MaxSignatureChecks, "ds_digests": fw.MaxDSDigests, "nsec3_hashes": fw.MaxNSEC3Hashes} {
				n := obs.DNSSECOps[op]
				if n > 0 {
					r.Count("enforce_trees_with_"+op, 1)
				}
				if lim > 0 {
					r.Max("max_"+op+"_pct_of_budget", 100*n/int64(lim))
					if n > int64(lim) {
						r.Violation("enforce/dnssec-ops-exceed-budget", fmt.Sprintf("%s under %s: the ledger of query %d (%s) accounted %d %s with a budget of %d", spec.shape(), cfg.Label, qi+1, obs.Query, n, op, lim), c)
					}
				}
			}
		}
		if obs.budgetEDE {
			if !obs.servfail() || len(obs.reply.Answer) > 0 {
				r.Violation("enforce/over-budget-reply-not-servfail", fmt.Sprintf("%s under %s: reply to %s carries the work-budget EDE but is [%s]", spec.shape(), cfg.Label, obs.Query, obs.outcome()), c)
			}
			if len(obs.Exhausted) == 0 {
				// the limit error reached a client whose own request tree
				// crossed nothing: the failure was shared
				r.Violation("enforce/budget-servfail-without-own-crossing", fmt.Sprintf("%s under %s: query %d (%s) was answered [%s ede=%v] although no ledger of its request tree recorded a crossed budget (upstream packets %d of %d)", spec.shape(), cfg.Label, qi+1, obs.Query, obs.outcome(), obs.EDE, obs.Packets, budget), c)
			}
		}
	}
}

// followupVerdict judges the "not cached for other clients" clause on one
// enforce stack: if the first client's reply is the over-budget SERVFAIL, the
// identical question from the second client must not be answered from shared
// failure state. "" = nothing to report (or not applicable to this run).
func (run *runner) followupVerdict(spec *TopoSpec, e *stackResult) (sig, what string) {
	o, f := e.q1, e.q2
	if o == nil || f == nil || o.reply == nil || f.reply == nil || !o.Quiesced || !f.Quiesced {
		return "", ""
	}
	if !(o.servfail() && len(o.Exhausted) > 0 && (o.budgetEDE || !spec.Question.EDNS)) {
		return "", ""
	}
	switch {
	case f.hasEDE(dns.ExtendedErrorCodeCachedError):
		return "enforce/over-budget-servfail-served-from-failure-cache",
			fmt.Sprintf("%s under %s: the first client got the over-budget SERVFAIL %v; the identical question from another client was answered %s with EDE 13 (Cached Error) %v, upstream packets %d", spec.shape(), e.cfg.Label, o.EDE, f.Rcode, f.EDE, f.Packets)
	case f.servfail() && f.Packets == 0 && len(f.Exhausted) == 0:
		return "enforce/over-budget-servfail-followup-not-resolved-again",
			fmt.Sprintf("%s under %s: the first client got the over-budget SERVFAIL %v; the identical question from another client was answered [%s ede=%v] without a single upstream packet and without crossing a budget of its own", spec.shape(), e.cfg.Label, o.EDE, f.outcome(), f.EDE)
	}
	return "", ""
}
