package main

// Topology kinds that make the resolver RESTART or RE-ENTER resolution inside
// one request tree. The statement bounds the work of the whole tree, so every
// place where the resolver builds a new resolution state, switches strategy or
// jumps through shared state in mid-descent must keep spending the same
// ledger:
//
//   - parent-detection restart (qmin-parent): with qname-minimisation on, an
//     authority answers the shorter minimised names with nothing (empty
//     NOERROR, NODATA, unsigned NXDOMAIN, REFUSED, SERVFAIL — each makes the
//     resolver go one label deeper) and then refers to a zone SHALLOWER than
//     the minimisation level reached: the resolver starts again from its
//     deepest cached cut with minimisation off;
//   - minimisation fallback (qmin-fallback): every attempt for a minimised
//     name fails on the wire (unparsable reply, TC=1 then TCP reset): the
//     resolver retries the full name at the same servers;
//   - cached delegation in mid-descent (cached-cut): one of the zone's NS
//     names has no glue and lives below a deeper cut on the path to the
//     question; its address lookup (same request tree) caches that cut, and
//     the main descent then jumps through the cached delegation instead of
//     using the referral it was just given;
//   - alias-restart: the client asks a CNAME / CNAME-chain / DNAME owner whose
//     target's own resolution goes through one of the first two.
//
// After the restart point there is always a tail of further delegations, so
// work remains to be done. The outbound budgets of the shadow / enforce stacks
// are placed, from what the firewall-off stack observed, between "packets sent
// before the restart" and "packets the whole tree needs": the restart happens
// before the budget is crossed and the remaining work crosses it.
//
// The resolver has no counter for these events; they are recognised in the
// packet log (restartEvidence) from behaviour that only a restart explains.

import (
	"fmt"
	"math/rand/v2"
	"net"
	"strings"

	"github.com/miekg/dns"
	"github.com/semihalev/sdns/zzverif/authsim"
	zm "github.com/semihalev/sdns/zzverif/zonemodel"
)

// RestartSpec are the parameters of one restart topology.
type RestartSpec struct {
	// Family: parent | fallback | cached
	Family string `json:"family"`
	// Place: which authority is scripted — the TLD's own server for one
	// sub-tree ("tld"), the server of a zone delegated from the TLD ("zone"),
	// or of a zone delegated from an honest zone below the TLD ("deep").
	Place string `json:"place,omitempty"`
	// Base is the zone the scripted authority speaks for, Sub the apex of the
	// scripted sub-tree (first label below Base).
	Base string `json:"base,omitempty"`
	Sub  string `json:"sub,omitempty"`
	// Empty: names with up to Empty labels below Base get the Style treatment;
	// longer names get a referral to the cut Cut labels below Base.
	Empty int    `json:"empty,omitempty"`
	Style string `json:"style,omitempty"`
	Cut   int    `json:"cut,omitempty"`
	// Tail: number of further one-label-deeper delegations below the cut.
	Tail int `json:"tail"`
	// Depth: labels of Target below Base.
	Depth int `json:"depth,omitempty"`
	// Target is the name whose resolution goes through the structure.
	Target string `json:"target"`
	// Via: "" (the client asks Target), cname, cname2, dname.
	Via string `json:"via,omitempty"`
	// Jump: labels between the zone with the glue-less NS name and the cut
	// that NS name's lookup caches (cached family).
	Jump int `json:"jump,omitempty"`
}

func (s *RestartSpec) shape() string {
	return fmt.Sprintf("%s/%s/%s/e%d/c%d/k%d/d%d/j%d/via=%s", s.Family, s.Place, s.Style, s.Empty, s.Cut, s.Tail, s.Depth, s.Jump, s.Via)
}

func (s *RestartSpec) errorStyle() bool { return s.Style == "malformed" || s.Style == "tcrst" }

func genRestart(rng *rand.Rand, t *TopoSpec, tld string, q *QuerySpec) {
	rs := &RestartSpec{}
	t.Restart = rs
	t.Resolvable = true
	switch t.Kind {
	case "qmin-parent":
		rs.Family = "parent"
	case "qmin-fallback":
		rs.Family = "fallback"
	case "cached-cut":
		rs.Family = "cached"
	case "alias-restart":
		// (by index, so that every seed has both families behind an alias)
		rs.Family = []string{"parent", "parent", "fallback"}[(t.Index/len(kinds))%3]
		rs.Via = pick(rng, "cname", "cname2", "dname")
	}
	if rs.Family == "cached" {
		// The address lookup and the main descent file the cut in the same
		// delegation-cache partition only if they agree on CD: a secure chain
		// (sub-lookups keep CD=0) or a client that sets CD itself.
		if !t.Signed {
			q.CD = true
		}
		rs.Jump = 1 + rng.IntN(2)
		rs.Tail = 1 + rng.IntN(3)
		name := "www."
		for i := rs.Tail; i >= 1; i-- {
			name += fmt.Sprintf("k%d.", i)
		}
		rs.Target = name + cachedCutName(rs.Jump, tld)
		q.Name = rs.Target
		// not A: the NS-address lookup asks A, and cc's server tells the two
		// apart by type (minimised names carry the asker's type)
		q.Type = pick(rng, dns.TypeTXT, dns.TypeAAAA)
		return
	}

	b := 1 + rng.IntN(3) // labels of Base
	switch rs.Family {
	case "parent":
		if rng.IntN(4) != 0 {
			// parameters for which the referral IS shallower than the level
			// the resolver has reached: min(qmin, b+Empty) > b+Cut
			t.QMin = pick(rng, 3, 4, 4, 5, 5, 5, 12)
			b = 1 + rng.IntN(min(3, t.QMin-2))
			maxC := min(t.QMin, b+4) - b - 1
			rs.Cut = 1 + rng.IntN(maxC)
			rs.Empty = rs.Cut + 1 + rng.IntN(4-rs.Cut)
		} else {
			// anything, including levels at which no restart is possible
			t.QMin = pick(rng, 1, 2, 3, 4, 5)
			rs.Empty = 1 + rng.IntN(4)
			rs.Cut = 1 + rng.IntN(rs.Empty)
		}
		rs.Style = pick(rng, "empty", "empty", "empty", "nodata-soa", "nxdomain-soa", "refused", "servfail")
	case "fallback":
		if rng.IntN(5) != 0 {
			// a minimised name is asked at the scripted authority
			t.QMin = pick(rng, 2, 3, 4, 5, 5, 12)
			b = 1 + rng.IntN(min(3, t.QMin-1))
		} else {
			t.QMin = pick(rng, 1, 2, 3, 4, 5)
		}
		rs.Empty = 1 + rng.IntN(3)
		rs.Cut = 1 + rng.IntN(3)
		rs.Style = pick(rng, "malformed", "malformed", "malformed", "tcrst", "tcrst", "servfail")
	}
	rs.Tail = 1 + rng.IntN(5)
	rs.Depth = max(rs.Empty+1, rs.Cut+rs.Tail+1) + rng.IntN(2)
	switch b {
	case 1:
		rs.Place, rs.Base = "tld", tld
		// the TLD's own server hands out the unsigned referrals: the TLD
		// cannot be a signed zone
		t.Signed = false
	case 2:
		rs.Place, rs.Base = "zone", "pd."+tld
	default:
		rs.Place, rs.Base = "deep", "pd.hz."+tld
	}
	name := ""
	for i := rs.Depth; i >= 1; i-- {
		name += fmt.Sprintf("n%d.", i)
	}
	rs.Target = name + rs.Base
	rs.Sub = "n1." + rs.Base
	switch rs.Via {
	case "":
		q.Name = rs.Target
	case "cname", "cname2":
		q.Name = "c0.al." + tld
	case "dname":
		q.Name = fmt.Sprintf("n%d.d.al.%s", rs.Depth, tld)
	}
}

func cachedCutName(jump int, tld string) string {
	if jump == 2 {
		return "m.j.cc." + tld
	}
	return "m.cc." + tld
}

func lastLabels(name string, n int) string {
	labels := dns.SplitDomainName(name)
	if n >= len(labels) {
		return strings.ToLower(dns.Fqdn(name))
	}
	return strings.ToLower(strings.Join(labels[len(labels)-n:], ".") + ".")
}

func emptyReply(q *dns.Msg, rcode int, soaZone string) *dns.Msg {
	m := new(dns.Msg)
	m.SetRcode(q, rcode)
	m.Authoritative = true
	if soaZone != "" {
		m.Ns = []dns.RR{&dns.SOA{Hdr: dns.RR_Header{Name: soaZone, Rrtype: dns.TypeSOA, Class: dns.ClassINET, Ttl: 300}, Ns: "ns." + soaZone, Mbox: "h." + soaZone, Serial: 1, Refresh: 3600, Retry: 600, Expire: 86400, Minttl: 60}}
	}
	if opt := q.IsEdns0(); opt != nil {
		m.SetEdns0(1232, opt.Do())
	}
	return m
}

const (
	labelReferral = "c12b-referral"
	labelPre      = "c12b-pre-"
	atkName       = "atk"
	cachedOnly    = "m1"
)

func (s *RestartSpec) preAction() authsim.Action {
	var a authsim.Action
	switch s.Style {
	case "empty":
		a = authsim.Tamper("", func(q, _ *dns.Msg) *dns.Msg { return emptyReply(q, dns.RcodeSuccess, "") })
	case "nodata-soa":
		a = authsim.Tamper("", func(q, _ *dns.Msg) *dns.Msg { return emptyReply(q, dns.RcodeSuccess, s.Base) })
	case "nxdomain-soa":
		a = authsim.Tamper("", func(q, _ *dns.Msg) *dns.Msg { return emptyReply(q, dns.RcodeNameError, s.Base) })
	case "refused":
		a = authsim.Rcode(dns.RcodeRefused)
	case "servfail":
		a = authsim.Rcode(dns.RcodeServerFailure)
	case "malformed":
		a = authsim.Malformed()
	case "tcrst":
		a = authsim.Truncate(authsim.TCPReset)
	default:
		panic("c12: unknown restart style " + s.Style)
	}
	a.Label = labelPre + s.Style
	return a
}

// buildRestart builds the parent / fallback families (and their alias
// wrappers). st is the TLD's server.
func buildRestart(w *world, st *authsim.Server) {
	t, rs, u := w.spec, w.spec.Restart, w.u
	tldName := w.tld.Apex()
	b := dns.CountLabel(rs.Base)

	var atk *authsim.Server
	nsOf := func(zone string, s *authsim.Server) []zm.NSHost {
		return []zm.NSHost{{Name: "ns." + zone, Addrs: addrIPs(s)}}
	}
	switch rs.Place {
	case "tld":
		atk = st
	case "zone":
		atk = u.AddServer(atkName)
		w.tld.Delegate(zm.DelegationSpec{Child: rs.Base, NS: nsOf(rs.Base, atk), NSTTL: 300})
	case "deep":
		hz := w.addZone("hz."+tldName, u.AddServer("host"))
		atk = u.AddServer(atkName)
		hz.Delegate(zm.DelegationSpec{Child: rs.Base, NS: nsOf(rs.Base, atk), NSTTL: 300})
	}

	// the tail: tails[0] serves the cut, tails[j] the zone j labels below it
	tails := make([]*authsim.Server, rs.Tail+1)
	for j := range tails {
		tails[j] = u.AddServer(fmt.Sprintf("tail%d", j))
	}
	cutLabels := b + rs.Cut
	for j := range tails {
		j := j
		zoneLabels := cutLabels + j
		tails[j].SetDefault(authsim.Tamper(fmt.Sprintf("c12b-tail-%d", j), func(q, _ *dns.Msg) *dns.Msg {
			qn := strings.ToLower(q.Question[0].Name)
			n := dns.CountLabel(qn)
			if !dns.IsSubDomain(rs.Sub, qn) || n < zoneLabels {
				m := new(dns.Msg)
				m.SetRcode(q, dns.RcodeRefused)
				return m
			}
			if n > zoneLabels && j < rs.Tail {
				child := lastLabels(qn, zoneLabels+1)
				return referral(q, child, "ns."+child, addrIPs(tails[j+1])...)
			}
			if q.Question[0].Qtype != dns.TypeA {
				return emptyReply(q, dns.RcodeSuccess, lastLabels(qn, zoneLabels))
			}
			m := emptyReply(q, dns.RcodeSuccess, "")
			m.Answer = []dns.RR{&dns.A{Hdr: dns.RR_Header{Name: q.Question[0].Name, Rrtype: dns.TypeA, Class: dns.ClassINET, Ttl: 300}, A: net.IPv4(10, 98, byte(j), 1)}}
			return m
		}))
	}

	// the scripted authority: rules for its sub-tree, first match wins
	sub := "*." + rs.Sub
	if t.TCAll {
		atk.AddRule(authsim.Rule{Name: sub, Transport: "udp", Action: authsim.Truncate(authsim.TCPAnswer)})
	}
	atk.AddRule(authsim.Rule{Name: sub, Match: func(p *authsim.Packet) bool { return dns.CountLabel(p.QNameL) <= b+rs.Empty }, Action: rs.preAction()})
	atk.AddRule(authsim.Rule{Name: sub, Action: authsim.Tamper(labelReferral, func(q, _ *dns.Msg) *dns.Msg {
		cut := lastLabels(q.Question[0].Name, cutLabels)
		return referral(q, cut, "ns."+cut, addrIPs(tails[0])...)
	})})
	if rs.Place != "tld" {
		atk.SetDefault(authsim.Rcode(dns.RcodeRefused))
	}

	if rs.Via != "" {
		al := w.addZone("al."+tldName, u.AddServer("alias"))
		switch rs.Via {
		case "cname":
			al.AddCNAME("c0.al."+tldName, rs.Target, 300)
		case "cname2":
			al.AddCNAME("c0.al."+tldName, "c1.al."+tldName, 300)
			al.AddCNAME("c1.al."+tldName, rs.Target, 300)
		case "dname":
			labels := dns.SplitDomainName(rs.Target)
			al.AddDNAME("d.al."+tldName, strings.Join(labels[1:], ".")+".", 300)
		}
	}
}

// buildCachedCut: zone cc.<tld> has two NS names — ns1 with glue and
// ns2.h.<m>, without glue, which lives below the cut <m> (1 or 2 labels below
// cc) on the path to the question. cc's server names a different server of
// <m> in its referral depending on who asks: "m1" for type A questions (the
// NS-address lookup, also when it asks minimised names), "m2" for everything
// else (the main descent: the client never asks A here). A question of the
// client's type for a name on the path to the target that arrives at m1 can
// therefore only come from a main descent that used the delegation the address
// lookup had cached.
func buildCachedCut(w *world) {
	t, rs, u := w.spec, w.spec.Restart, w.u
	tldName := w.tld.Apex()
	ccApex := "cc." + tldName
	mApex := cachedCutName(rs.Jump, tldName)
	hName := "ns2.h." + mApex

	sx := u.AddServer("cc")
	m1, m2 := u.AddServer(cachedOnly), u.AddServer("m2")

	sp := w.zspec(ccApex)
	sp.NSHosts = []string{"ns1." + ccApex, hName}
	cc := u.AddZone(sp, sx)
	o := w.dopts()
	o.NS = []zm.NSHost{{Name: "ns1." + ccApex, Addrs: addrIPs(sx)}, {Name: hName}}
	u.Delegate(w.tld, cc, o)

	mz := u.AddZone(w.zspec(mApex), m1, m2)
	u.Delegate(cc, mz, w.dopts())
	for _, ip := range addrIPs(sx) {
		mz.AddAddr(hName, ip, 300)
	}

	parent := mz
	apex := mApex
	for i := 1; i <= rs.Tail; i++ {
		apex = fmt.Sprintf("k%d.%s", i, apex)
		z := u.AddZone(w.zspec(apex), u.AddServer(fmt.Sprintf("k%d", i)))
		u.Delegate(parent, z, w.dopts())
		parent = z
	}
	parent.AddMarked(rs.Target, t.Question.Type, 300)

	keepNS := func(m *dns.Msg, keep string) *dns.Msg {
		isReferral := false
		for _, rr := range m.Ns {
			if ns, ok := rr.(*dns.NS); ok && strings.EqualFold(ns.Hdr.Name, mApex) {
				isReferral = true
			}
		}
		if !isReferral || len(m.Answer) > 0 {
			return m
		}
		var nsOut, exOut []dns.RR
		for _, rr := range m.Ns {
			if ns, ok := rr.(*dns.NS); ok && !strings.EqualFold(ns.Ns, keep) {
				continue
			}
			nsOut = append(nsOut, rr)
		}
		for _, rr := range m.Extra {
			switch rr.Header().Rrtype {
			case dns.TypeA, dns.TypeAAAA:
				if !strings.EqualFold(rr.Header().Name, keep) {
					continue
				}
			}
			exOut = append(exOut, rr)
		}
		m.Ns, m.Extra = nsOut, exOut
		return m
	}
	sx.SetDefault(authsim.Tamper("c12b-cc", func(q, honest *dns.Msg) *dns.Msg {
		if q.Question[0].Qtype == dns.TypeA {
			return keepNS(honest, "ns1."+mApex)
		}
		return keepNS(honest, "ns2."+mApex)
	}))
}

// RestartObs is what the packet log of one client query shows about restarts.
type RestartObs struct {
	// Events: family -> number of restarts recognised
	Events map[string]int `json:"events,omitempty"`
	// Pre: packets of this window logged before the first packet that only a
	// restart explains (0 = no restart recognised)
	Pre int `json:"packets_before_first_restart,omitempty"`
	// PreReply: packets logged before the client was answered
	PreReply int `json:"packets_before_reply,omitempty"`
}

// restartEvidence recognises restarts in the (owned, marker-free, ordered)
// packets of one client query.
//
//	parent:   the scripted authority answered a question with its referral and
//	          is then asked again (a descent that follows the referral never
//	          comes back to the server that gave it);
//	fallback: every attempt for a minimised name failed on the wire at the
//	          scripted authority, and the same authority is then asked a longer
//	          name (without the fallback the failed lookup ends the descent);
//	cached:   see buildCachedCut.
func (w *world) restartEvidence(ps []authsim.Packet) *RestartObs {
	rs := w.spec.Restart
	if rs == nil {
		return nil
	}
	o := &RestartObs{Events: map[string]int{}}
	note := func(fam string, before int) {
		o.Events[fam]++
		if o.Pre == 0 {
			o.Pre = before
		}
	}
	answered := func(p *authsim.Packet) bool { return strings.Contains(p.Outcome, "answered") }
	switch rs.Family {
	case "parent", "fallback":
		server := atkName
		if rs.Place == "tld" {
			server = "tld"
		}
		referred, failed := false, false
		for i := range ps {
			p := &ps[i]
			if p.Server != server || !dns.IsSubDomain(rs.Sub, p.QNameL) {
				continue
			}
			if referred {
				note("parent", i)
				referred = false
			}
			switch {
			case strings.HasPrefix(p.Action, labelPre) && rs.errorStyle():
				failed = true
			case p.Action == labelReferral && answered(p):
				if failed {
					note("fallback", i)
					failed = false
				}
				referred = true
			}
		}
	case "cached":
		mApex := cachedCutName(rs.Jump, w.tld.Apex())
		// (a descent that STARTS at the cached cut — the second client's —
		// is no jump in mid-descent: cc must have referred this descent first)
		referred := false
		for i := range ps {
			p := &ps[i]
			if p.QType != w.spec.Question.Type || !dns.IsSubDomain(p.QNameL, strings.ToLower(rs.Target)) {
				continue
			}
			if p.Server == "cc" && answered(p) {
				referred = true
			}
			if referred && p.Server == cachedOnly && dns.IsSubDomain(mApex, p.QNameL) {
				note("cached", i)
				break
			}
		}
	}
	return o
}

func (o *RestartObs) String() string {
	if o == nil || len(o.Events) == 0 {
		return "-"
	}
	return fmt.Sprintf("%v@%d/%d", o.Events, o.Pre, o.PreReply)
}
