package main

// Detached IPv6 NS-address jobs of ONE request tree debiting concurrently at
// the cap (socket level, real pipeline).
//
// With ipv6access on every referral whose NS names come without AAAA glue
// starts a detached job that shares the request tree's retained ledger, sleeps
// sdns's fixed 2 s and then looks up the AAAA of every NS name (best-effort
// debits: one internal query and one or two transport attempts per name). The
// "v6-burst" world is a chain of Len delegations below the TLD, every level
// delegated to Len2 in-zone NS names with IPv4 glue only: one client question
// starts Len such jobs within a few milliseconds, and they wake up together —
// long after the client was answered — and debit the same ledger in parallel
// (and validate, in signed worlds, denial proofs of the same zones against the
// request tree's shared NSEC3 hash memo).
//
// Budget placement is observed, not guessed: the firewall-off stack shows how
// many packets the tree needs before the reply (P) and in all (T); the
// enforce stacks get max_outbound_queries = P + r with a small r < T - P, so
// the client is answered and the detached jobs, between them, reach the cap.
// The verdicts are the unchanged per-query ones (judgeReplies): packets at the
// scripted servers <= budget, confirmed on a second fresh stack.

import (
	"fmt"
	"math/rand/v2"
	"net"
	"os"

	"github.com/miekg/dns"
	"github.com/semihalev/sdns/zzverif/authsim"
	zm "github.com/semihalev/sdns/zzverif/zonemodel"
)

const v6BurstBase = 900000

func genV6Burst(rng *rand.Rand, i int) *TopoSpec {
	t := &TopoSpec{Index: v6BurstBase + i, Kind: "v6-burst", Deterministic: true, Resolvable: true}
	t.Len = 2 + rng.IntN(3)  // delegation levels = detached jobs
	t.Len2 = 2 + rng.IntN(4) // NS names per level = AAAA look-ups per job
	t.Signed = rng.IntN(3) != 0
	if t.Signed && rng.IntN(2) == 0 {
		t.NSEC3 = true
		t.Iter = pick(rng, uint16(0), 5, 20)
	}
	t.Variant = pick(rng, "nodata", "nodata", "aaaa")
	apex := fmt.Sprintf("t%d.", t.Index)
	for k := 1; k <= t.Len; k++ {
		apex = fmt.Sprintf("b%d.%s", k, apex)
	}
	t.Question = QuerySpec{Name: "www." + apex, Type: dns.TypeA, EDNS: true, DO: rng.IntN(2) == 0}
	return t
}

func buildV6Burst(w *world) {
	t, u := w.spec, w.u
	parent := w.tld
	apex := w.tld.Apex()
	var z *zm.Zone
	for k := 1; k <= t.Len; k++ {
		apex = fmt.Sprintf("b%d.%s", k, apex)
		var addrs []string
		var hosts []zm.NSHost
		var names []string
		var v6 []net.IP
		for i := 0; i < t.Len2; i++ {
			a := fmt.Sprintf("198.51.100.%d", 10+(k-1)*8+i)
			addrs = append(addrs, a)
			hn := fmt.Sprintf("ns%d.%s", i+1, apex)
			hosts = append(hosts, zm.NSHost{Name: hn, Addrs: []net.IP{net.ParseIP(a)}})
			names = append(names, hn)
			if t.Variant == "aaaa" {
				a6 := fmt.Sprintf("2001:db8:c12::%x:%x", k, i+1)
				addrs = append(addrs, a6)
				v6 = append(v6, net.ParseIP(a6))
			}
		}
		s := u.AddServer(fmt.Sprintf("vb%d", k), addrs...)
		sp := w.zspec(apex)
		sp.NSHosts = names
		z = u.AddZone(sp, s)
		for i, h := range hosts {
			// AddZone published every address of the server under its default
			// host names; the NS names carry exactly one A (and, in the "aaaa"
			// variant, one AAAA the parent gives no glue for)
			z.Remove(h.Name, dns.TypeA)
			z.Remove(h.Name, dns.TypeAAAA)
			z.AddAddr(h.Name, h.Addrs[0], 300)
			if t.Variant == "aaaa" {
				z.AddAddr(h.Name, v6[i], 300)
			}
		}
		o := w.dopts()
		o.NS = hosts // IPv4 glue only
		u.Delegate(parent, z, o)
		parent = z
	}
	z.AddMarked("www."+apex, dns.TypeA, 300)
}

func hasReason(o *QueryObs, reason string) bool {
	for _, x := range o.Exhausted {
		if x == reason {
			return true
		}
	}
	return false
}

// v6burst runs and judges one v6-burst world.
func (run *runner) v6burst(i int) {
	r := run.r
	rng := r.RandN("v6burst", i)
	spec := genV6Burst(rng, i)
	w := buildWorld(spec)
	defer w.close()
	r.Count("v6burst/worlds", 1)
	r.DistinctIn("topology_shapes", spec.shape())
	if debug {
		fmt.Fprintf(os.Stderr, "V%d %s q=%s\n", i, spec.shape(), spec.Question)
	}
	base := StackCfg{QMin: 0, TimeoutMs: 2000, QueryTimeoutMs: 15000, V6: true}
	off := base
	off.Label, off.Mode = "off", "off"
	ro := run.runStack(w, off)
	if ro == nil {
		return
	}
	run.judgeReplies(w, ro, nil)
	if ro.watchdog() || ro.q1.reply == nil || !ro.q1.Quiesced {
		return
	}
	total := ro.q1.Packets
	pre := total - ro.q1.AfterReply
	if ro.q1.AfterReply > 0 {
		r.Count("v6burst/off_trees_with_detached_packets_after_reply", 1)
	}
	r.Max("v6burst/max_detached_packets_after_reply_firewall_off", int64(ro.q1.AfterReply))
	if ro.q1.servfail() || ro.q1.AfterReply < 3 {
		r.Count("v6burst/worlds_without_enough_detached_work", 1)
		return
	}
	room := ro.q1.AfterReply - 1
	if room > 5 {
		room = 5
	}
	seen := map[int]bool{}
	for n := 0; n < 2; n++ {
		extra := 1 + rng.IntN(room)
		if seen[extra] {
			extra = 1 + (extra % room)
		}
		seen[extra] = true
		cfg := base
		cfg.Label, cfg.Mode = fmt.Sprintf("enforce-v6burst+%d", extra), "enforce"
		cfg.MaxOutbound = uint32(pre + extra)
		res := run.runStack(w, cfg)
		if res == nil {
			return
		}
		run.judgeReplies(w, res, nil)
		if res.watchdog() {
			return
		}
		r.Count("v6burst/enforce_stacks", 1)
		if len(res.overrun) > 0 {
			// as for every packet overrun: the same configuration once more on
			// a fresh stack before it is called a violation
			r.Count("enforce_packet_overruns_rechecked", 1)
			again := run.runStack(w, cfg)
			if again == nil || again.watchdog() {
				return
			}
			run.judgeReplies(w, again, res)
			if len(again.overrun) == 0 {
				o := res.overrun[0]
				r.Inconclusive(fmt.Sprintf("v6-burst world %d %s: %d packets for a budget of %d were logged once and not again on a fresh stack (first run upstream log: %v)", i, cfg.Label, o.Packets, cfg.outboundBudget(), o.Upstream))
			}
		}
		o := res.q1
		if o.reply == nil || !o.Quiesced {
			continue
		}
		if hasReason(o, "outbound_queries") {
			r.Count("v6burst/enforce_trees_outbound_budget_crossed", 1)
			if !o.servfail() && o.AfterReply > 0 {
				// the client was answered within the budget; the detached jobs,
				// between them, stopped at the cap
				r.Count("v6burst/enforce_trees_cap_reached_by_detached_jobs_after_reply", 1)
			}
		}
		if o.Packets == int(cfg.outboundBudget()) {
			r.Count("v6burst/enforce_trees_budget_fully_spent", 1)
		}
		if o.AfterReply > 0 {
			r.Count("v6burst/enforce_trees_with_detached_packets_after_reply", 1)
		}
		if n == 0 {
			r.Sample(map[string]any{"v6_burst_world": spec.shape(), "question": spec.Question.String(),
				"off": fmt.Sprintf("pkts=%d after_reply=%d", total, ro.q1.AfterReply),
				cfg.Label: fmt.Sprintf("budget=%d [%s ede=%v pkts=%d after_reply=%d debits=%d crossed=%v]", cfg.outboundBudget(), short(o.outcome()), o.EDE, o.Packets, o.AfterReply, o.Debits, o.Exhausted)})
		}
	}
}

var _ = authsim.DelegOpts{}
