package main

// Concurrent debits and concurrent validations of ONE request tree.
//
// The statement quantifies over "concurrent debits from parallel lookups": a
// request tree is not one goroutine. NS-address lookups run in parallel, every
// referral starts a detached IPv6 job (best-effort debits) that shares the
// retained ledger with the client's own resolution, and sibling branches
// validate denial proofs of the same zone at the same time, sharing the
// request tree's NSEC3 hash memo, its ledger and the resolver-wide crypto gate.
// The socket-level part of this monitor asks one question at a time and sees
// whatever interleaving the network produces; the two parts below put the real
// objects under the schedules the statement names and judge them at their
// exported boundary.
//
// (A) ledger race. A real middleware.RecursionWorkLedger (enforce or shadow,
//     small generated budgets) is debited by G goroutines released together
//     from a spin barrier, through the same calls the resolver makes
//     (middleware.DebitRecursionWork on a context that carries the ledger;
//     optional branches on a context marked WithBestEffortRecursionWork).
//     Judged: per work kind, debits ACCEPTED (nil error) <= configured budget
//     and the ledger's own count <= budget in enforce mode; nothing refused in
//     shadow mode. Whether two debitors really overlapped is measured
//     (timestamps), so a run without real parallelism is inconclusive.
//
// (B) sibling validations. S goroutines of one request tree validate NSEC3
//     denial proofs of one signed zone with the REAL dnssec validators and the
//     REAL work governor of the resolver (hook VerifC12DNSSECWork: ledger debit
//     + resolver-wide crypto gate + request-tree hash memo), under generated
//     budgets and three fault plans at the governor's real suspension point
//     (the crypto gate): none (barrier-released race at the budget boundary),
//     gate saturated by "other request trees" (the harness holds the slots)
//     and then released, gate saturated and the request then cancelled.
//     Judged:
//       - TERMINATION, by a logical criterion: a tree is stuck when, in one
//         stop-the-world goroutine snapshot (runtime.Stack), every validation
//         that has not returned is parked in a wait only another goroutine can
//         end (channel receive/send, select, mutex, cond) while the gate is
//         free, nothing else has access to the tree's state, and the same
//         holds in later snapshots. No deadline takes part in this verdict; a
//         watchdog only makes the run inconclusive.
//       - hashes granted (counted at the work interface) and the ledger's own
//         count <= max_nsec3_hashes in enforce mode;
//       - shadow / off, and enforce trees in which nothing was refused, return
//         exactly what the validators return without any work object.

import (
	"context"
	"errors"
	"fmt"
	"math/rand/v2"
	"runtime"
	"sort"
	"strconv"
	"strings"
	"sync"
	"sync/atomic"
	"time"

	"github.com/miekg/dns"
	"github.com/semihalev/sdns/middleware"
	"github.com/semihalev/sdns/middleware/resolver"
	"github.com/semihalev/sdns/middleware/resolver/dnssec"
	zm "github.com/semihalev/sdns/zzverif/zonemodel"
)

// ------------------------------------------------------------ goroutine states

type gInfo struct {
	state string // header state without duration / extras
	block string
}

func curGID() uint64 {
	var b [64]byte
	n := runtime.Stack(b[:], false)
	s := strings.TrimPrefix(string(b[:n]), "goroutine ")
	if i := strings.IndexByte(s, ' '); i > 0 {
		id, _ := strconv.ParseUint(s[:i], 10, 64)
		return id
	}
	return 0
}

// goroutineSnapshot parses runtime.Stack(all): one consistent (stop-the-world)
// view of every goroutine of the process.
func goroutineSnapshot() map[uint64]gInfo {
	buf := make([]byte, 1<<18)
	for {
		n := runtime.Stack(buf, true)
		if n < len(buf) {
			buf = buf[:n]
			break
		}
		buf = make([]byte, 2*len(buf))
	}
	out := map[uint64]gInfo{}
	for _, blk := range strings.Split(string(buf), "\n\n") {
		if !strings.HasPrefix(blk, "goroutine ") {
			continue
		}
		hdr, _, _ := strings.Cut(blk, "\n")
		rest := strings.TrimPrefix(hdr, "goroutine ")
		i := strings.IndexByte(rest, ' ')
		if i <= 0 {
			continue
		}
		id, err := strconv.ParseUint(rest[:i], 10, 64)
		if err != nil {
			continue
		}
		st := strings.TrimPrefix(rest[i+1:], "[")
		if j := strings.IndexByte(st, ']'); j >= 0 {
			st = st[:j]
		}
		if j := strings.IndexByte(st, ','); j >= 0 {
			st = st[:j]
		}
		out[id] = gInfo{state: st, block: blk}
	}
	return out
}

// parked: the goroutine is in a wait that only another goroutine can end. A
// goroutine that is running, runnable (just woken), in a syscall, sleeping on a
// timer or waiting for I/O is never "parked".
func (g gInfo) parked() bool {
	for _, p := range []string{"chan receive", "chan send", "select", "sync.Mutex.Lock", "sync.RWMutex.", "sync.Cond.Wait", "sync.WaitGroup.Wait", "semacquire"} {
		if strings.HasPrefix(g.state, p) {
			return true
		}
	}
	return false
}

// topFrames returns the first n function lines of a goroutine block.
func topFrames(block string, n int) string {
	var out []string
	lines := strings.Split(block, "\n")
	for i := 1; i < len(lines) && len(out) < n; i += 2 {
		f := lines[i]
		if j := strings.LastIndexByte(f, '('); j > 0 {
			f = f[:j]
		}
		f = strings.TrimPrefix(f, "github.com/semihalev/sdns/")
		out = append(out, f)
	}
	return strings.Join(out, " < ")
}

// ------------------------------------------------------------ (A) ledger race

var aggKinds = []struct {
	name string
	kind middleware.RecursionWorkKind
}{
	{"outbound_queries", middleware.RecursionWorkOutboundQuery},
	{"internal_queries", middleware.RecursionWorkInternalQuery},
	{"signature_checks", middleware.RecursionWorkSignature},
	{"ds_digests", middleware.RecursionWorkDSDigest},
	{"nsec3_hashes", middleware.RecursionWorkNSEC3Hash},
}

type LedgerWorker struct {
	BestEffort bool  `json:"best_effort"`
	Debits     []int `json:"debits"` // indexes into the work kinds, in order
}

// LedgerRaceCase is one serialisable ledger-race case: a function of
// (seed, index). What the schedule does with it is not.
type LedgerRaceCase struct {
	Index   int            `json:"index"`
	Mode    string         `json:"mode"`
	Flavour string         `json:"flavour"` // besteffort-only | required-only | mixed
	Limits  []uint32       `json:"limits"`  // per work kind, order of Kinds
	Kinds   []string       `json:"kinds"`
	Hot     []int          `json:"hot_kinds"`
	Workers []LedgerWorker `json:"workers"`
	Reps    int            `json:"repetitions"`
	// filled in for a reported run
	Accepted []int64 `json:"accepted,omitempty"`
	Refused  []int64 `json:"refused,omitempty"`
	Counted  []int64 `json:"ledger_counts,omitempty"`
	Overlap  int     `json:"workers_overlapping_in_time,omitempty"`
}

func maxParallel() int {
	p := runtime.GOMAXPROCS(0) - 1
	if p > 10 {
		p = 10
	}
	if p < 2 {
		p = 2
	}
	return p
}

func genLedgerRace(rng *rand.Rand, index int) *LedgerRaceCase {
	c := &LedgerRaceCase{Index: index, Mode: "enforce", Reps: 6}
	if rng.IntN(6) == 0 {
		c.Mode = "shadow"
	}
	for _, k := range aggKinds {
		c.Kinds = append(c.Kinds, k.name)
		c.Limits = append(c.Limits, 100000)
	}
	nHot := 1 + rng.IntN(2)
	for len(c.Hot) < nHot {
		k := rng.IntN(len(aggKinds))
		if index%3 == 0 && len(c.Hot) == 0 {
			k = rng.IntN(2) // outbound / internal: what detached helper lookups debit
		}
		dup := false
		for _, h := range c.Hot {
			dup = dup || h == k
		}
		if !dup {
			c.Hot = append(c.Hot, k)
			c.Limits[k] = pick(rng, uint32(1), 1, 1, 2, 2, 3, 4, 6)
		}
	}
	c.Flavour = pick(rng, "besteffort-only", "besteffort-only", "required-only", "mixed", "mixed", "mixed")
	g := 2 + rng.IntN(maxParallel()-1)
	for i := 0; i < g; i++ {
		w := LedgerWorker{}
		switch c.Flavour {
		case "besteffort-only":
			w.BestEffort = true
		case "mixed":
			w.BestEffort = i%2 == 0
		}
		n := 1 + rng.IntN(4)
		for j := 0; j < n; j++ {
			w.Debits = append(w.Debits, c.Hot[(i+j)%len(c.Hot)])
		}
		c.Workers = append(c.Workers, w)
	}
	return c
}

func fullPolicy(mode string) middleware.RecursionWorkPolicy {
	p := middleware.RecursionWorkPolicy{
		MaxOutboundQueries: 100000, MaxInternalQueries: 100000, MaxDNSKEYCandidates: 100000,
		MaxRRsetSignatureChecks: 100000, MaxSignatureChecks: 100000, MaxDSDigests: 100000,
		MaxNSEC3Hashes: 100000, MaxConcurrentCrypto: 64,
	}
	switch mode {
	case "enforce":
		p.Mode = middleware.RecursionWorkEnforce
	case "shadow":
		p.Mode = middleware.RecursionWorkShadow
	}
	return p
}

func (c *LedgerRaceCase) policy() middleware.RecursionWorkPolicy {
	p := fullPolicy(c.Mode)
	p.MaxOutboundQueries = c.Limits[0]
	p.MaxInternalQueries = c.Limits[1]
	p.MaxSignatureChecks = c.Limits[2]
	p.MaxDSDigests = c.Limits[3]
	p.MaxNSEC3Hashes = c.Limits[4]
	return p
}

func snapshotCounts(s middleware.RecursionWorkSnapshot) []int64 {
	return []int64{int64(s.OutboundQueries), int64(s.InternalQueries), int64(s.SignatureChecks), int64(s.DSDigests), int64(s.NSEC3Hashes)}
}

func (run *runner) ledgerRace(lo, hi int) {
	for i := lo; i < hi; i++ {
		run.ledgerRaceCase(i)
	}
}

func (run *runner) ledgerRaceCase(index int) {
	r := run.r
	c := genLedgerRace(r.RandN("ledger-race", index), index)
	r.Count("ledger_race/cases", 1)
	nk := len(aggKinds)
	for rep := 0; rep < c.Reps; rep++ {
		ledger := middleware.NewRecursionWorkLedger(c.policy())
		base := middleware.WithRecursionWork(context.Background(), ledger)
		optional := middleware.WithBestEffortRecursionWork(base)
		g := len(c.Workers)
		acc := make([][]int64, g)
		ref := make([][]int64, g)
		odd := make([]error, g)
		t0 := make([]time.Time, g)
		t1 := make([]time.Time, g)
		var ready atomic.Int32
		var start atomic.Bool
		var wg sync.WaitGroup
		for i := range c.Workers {
			acc[i], ref[i] = make([]int64, nk), make([]int64, nk)
			wg.Add(1)
			go func(i int) {
				defer wg.Done()
				w := c.Workers[i]
				ctx := base
				if w.BestEffort {
					ctx = optional
				}
				ready.Add(1)
				for !start.Load() {
				}
				t0[i] = time.Now()
				for _, k := range w.Debits {
					err := middleware.DebitRecursionWork(ctx, aggKinds[k].kind)
					switch {
					case err == nil:
						acc[i][k]++
					case errors.Is(err, middleware.ErrRecursionWorkLimit):
						ref[i][k]++
					default:
						odd[i] = err
					}
				}
				t1[i] = time.Now()
			}(i)
		}
		for int(ready.Load()) < g {
			runtime.Gosched()
		}
		start.Store(true)
		wg.Wait()
		snap := ledger.Snapshot()

		accepted, refused, attempts := make([]int64, nk), make([]int64, nk), make([]int64, nk)
		beAtt, reqAtt := make([]int64, nk), make([]int64, nk)
		for i, w := range c.Workers {
			for k := 0; k < nk; k++ {
				accepted[k] += acc[i][k]
				refused[k] += ref[i][k]
			}
			for _, k := range w.Debits {
				attempts[k]++
				if w.BestEffort {
					beAtt[k]++
				} else {
					reqAtt[k]++
				}
			}
			if odd[i] != nil {
				r.Inconclusive(fmt.Sprintf("ledger race %d: a debit returned an error that is neither nil nor the work-limit error: %v", index, odd[i]))
			}
		}
		overlap := 0
		for i := 0; i < g; i++ {
			for j := 0; j < g; j++ {
				if i != j && t0[i].Before(t1[j]) && t0[j].Before(t1[i]) {
					overlap++
					break
				}
			}
		}
		counted := snapshotCounts(snap)
		r.Eval(1)
		r.Count("ledger_race/runs", 1)
		r.Count("ledger_race/runs/"+c.Mode, 1)
		r.Max("ledger_race/max_workers_overlapping_in_time", int64(overlap))
		if overlap >= 2 {
			r.Count("ledger_race/runs_with_debitors_overlapping_in_time", 1)
		}
		report := func(sig, what string) {
			cc := *c
			cc.Accepted, cc.Refused, cc.Counted, cc.Overlap = accepted, refused, counted, overlap
			r.Violation(sig, what, ReplayCase{Seed: r.Seed, Index: index, Topology: &TopoSpec{Index: index, Kind: "ledger-race", Variant: c.Flavour}, Extra: &cc})
		}
		for _, k := range c.Hot {
			limit := int64(c.Limits[k])
			who := "mixed"
			switch {
			case reqAtt[k] == 0:
				who = "besteffort-only"
			case beAtt[k] == 0:
				who = "required-only"
			}
			if c.Mode == "shadow" {
				if refused[k] > 0 {
					report("ledger/shadow-mode-refused-a-debit/"+aggKinds[k].name,
						fmt.Sprintf("ledger race %d: shadow mode, budget %d for %s: %d of %d concurrent debits were refused (shadow only counts)", index, limit, aggKinds[k].name, refused[k], attempts[k]))
				}
				continue
			}
			if attempts[k] > limit {
				r.Count("ledger_race/enforce_runs_cap_reached", 1)
				r.Count("ledger_race/enforce_runs_cap_reached/"+who, 1)
				if overlap >= 2 {
					r.Count("ledger_race/enforce_runs_cap_reached_debitors_overlapping", 1)
					r.Count("ledger_race/enforce_runs_cap_reached_debitors_overlapping/"+who, 1)
				}
				r.DistinctIn("ledger_race_shapes", fmt.Sprintf("%s/%s/g%d/limit%d/att%d", aggKinds[k].name, who, g, limit, attempts[k]))
			}
			if refused[k] > 0 {
				r.Count("ledger_race/refusals_observed", int(refused[k]))
			}
			if accepted[k] > limit || counted[k] > limit {
				report("ledger/accepted-debits-exceed-budget/"+aggKinds[k].name+"/"+who,
					fmt.Sprintf("ledger race %d: enforce mode, one request-tree ledger with a budget of %d %s accepted %d of %d concurrent debits (%d best-effort, %d required debitors' attempts; %d goroutines, %d overlapping in time); the ledger itself counts %d",
						index, limit, aggKinds[k].name, accepted[k], attempts[k], beAtt[k], reqAtt[k], g, overlap, counted[k]))
			} else {
				r.Count("ledger_race/enforce_runs_within_budget", 1)
			}
		}
		if index < 2 && rep == 0 {
			r.Sample(map[string]any{"ledger_race_case": index, "mode": c.Mode, "flavour": c.Flavour, "goroutines": g, "limits_hot": fmt.Sprint(c.Hot, c.Limits),
				"accepted": fmt.Sprint(accepted), "refused": fmt.Sprint(refused), "ledger_counts": fmt.Sprint(counted), "overlapping": overlap})
		}
	}
}

// ------------------------------------------------------------ (B) sibling validations

type SiblingSpec struct {
	Proof string `json:"proof"` // nx | nodata
	QName string `json:"qname"`
	QType uint16 `json:"qtype"`
	Role  string `json:"role"` // required | optional (reads the required memo, writes a private one)
}

type SiblingCase struct {
	Index    int           `json:"index"`
	Mode     string        `json:"mode"` // enforce | shadow | off
	MaxN3    uint32        `json:"max_nsec3_hashes"`
	Iter     uint16        `json:"nsec3_iterations"`
	Capacity uint32        `json:"max_concurrent_crypto"`
	Plan     string        `json:"plan"` // race | saturate-release | saturate-cancel
	Variant  string        `json:"variant"`
	Siblings []SiblingSpec `json:"siblings"`
	Reps     int           `json:"repetitions"`
	// filled in for a reported run
	Results    []string `json:"results,omitempty"`
	Reference  []string `json:"reference,omitempty"`
	Granted    int64    `json:"hashes_granted,omitempty"`
	Refusals   int64    `json:"hashes_refused,omitempty"`
	Counted    int64    `json:"ledger_nsec3_hashes,omitempty"`
	ParkedPre  string   `json:"parked_before_fault,omitempty"`
	StuckWhere []string `json:"stuck,omitempty"`
}

const sibApex = "sib.test."

type sibFixture struct {
	z     *zm.Zone
	resps map[string]*dns.Msg
}

var sibFixtures = map[uint16]*sibFixture{}

func sibFixtureFor(iter uint16) *sibFixture {
	if f := sibFixtures[iter]; f != nil {
		return f
	}
	z := zm.New(zm.Spec{Apex: sibApex, Signed: true, NSEC3: &zm.NSEC3Params{Salt: "c12c", Iterations: iter}})
	z.AddMarked("www."+sibApex, dns.TypeA, 300)
	z.AddMarked("mail."+sibApex, dns.TypeA, 300)
	z.AddMarked("a.b."+sibApex, dns.TypeTXT, 300)
	f := &sibFixture{z: z, resps: map[string]*dns.Msg{}}
	sibFixtures[iter] = f
	return f
}

func (f *sibFixture) response(name string, t uint16) *dns.Msg {
	key := fmt.Sprintf("%s/%d", name, t)
	if m := f.resps[key]; m != nil {
		return m.Copy()
	}
	q := new(dns.Msg)
	q.SetQuestion(name, t)
	q.SetEdns0(1232, true)
	m := f.z.Respond(q)
	f.resps[key] = m
	return m.Copy()
}

func genSiblings(rng *rand.Rand, index int) *SiblingCase {
	c := &SiblingCase{Index: index}
	c.Mode = pick(rng, "enforce", "enforce", "enforce", "enforce", "shadow", "off")
	c.MaxN3 = pick(rng, uint32(1), 1, 2, 2, 3, 4, 6, 64)
	c.Iter = pick(rng, uint16(0), 1, 5, 20, 150)
	c.Plan = pick(rng, "race", "race", "race", "saturate-cancel", "saturate-cancel", "saturate-release")
	c.Capacity = pick(rng, uint32(1), 2, 8)
	c.Reps = 1
	if c.Plan == "race" {
		c.Reps = 6
	} else {
		c.Capacity = pick(rng, uint32(1), 1, 2)
	}
	s := 2 + rng.IntN(maxParallel()-1)
	if s > 8 {
		s = 8
	}
	c.Variant = pick(rng, "same-question", "same-question", "sibling-names", "sibling-names", "mixed")
	nxNames := []string{"nx.", "x.y.z.", "zz.b."}
	same := SiblingSpec{Proof: "nx", QName: pick(rng, nxNames...) + sibApex, QType: dns.TypeA}
	if rng.IntN(3) == 0 {
		same = SiblingSpec{Proof: "nodata", QName: pick(rng, "www.", "b.", "a.b.") + sibApex, QType: dns.TypeAAAA}
	}
	for i := 0; i < s; i++ {
		var sp SiblingSpec
		switch c.Variant {
		case "same-question":
			// e.g. the A and AAAA look-ups of one name-server name, a question
			// and its repetition through an alias
			sp = same
		case "sibling-names":
			// the address look-ups of the NS names of one delegation: distinct
			// next-closer names, one closest encloser, one wildcard
			sp = SiblingSpec{Proof: "nx", QName: fmt.Sprintf("ns%d.%s", i+1, sibApex), QType: pick(rng, dns.TypeA, dns.TypeAAAA)}
		default:
			if rng.IntN(2) == 0 {
				sp = SiblingSpec{Proof: "nx", QName: pick(rng, nxNames...) + sibApex, QType: dns.TypeA}
			} else {
				sp = SiblingSpec{Proof: "nodata", QName: pick(rng, "www.", "mail.", "b.") + sibApex, QType: dns.TypeAAAA}
			}
		}
		sp.Role = "required"
		if i > 0 && rng.IntN(6) == 0 {
			sp.Role = "optional"
		}
		c.Siblings = append(c.Siblings, sp)
	}
	return c
}

// countedWork counts, at the dnssec work interface, what the real governor
// granted and refused. It forwards the request tree's memo unchanged.
type countedWork struct {
	inner    resolver.VerifC12Work
	grants   *atomic.Int64
	refusals *atomic.Int64
}

func (w countedWork) BeginNSEC3Hash() (func(), error) {
	rel, err := w.inner.BeginNSEC3Hash()
	if err != nil {
		w.refusals.Add(1)
	} else {
		w.grants.Add(1)
	}
	return rel, err
}

func (w countedWork) NSEC3HashMemos() dnssec.NSEC3HashMemoAccess { return w.inner.NSEC3HashMemos() }

// optionalWork is an optional reader of the request tree's required memo with
// a private write memo and a private allowance (the shape of the resolver's
// aggressive-proof work): it may join an in-flight required hash, never debits
// the ledger.
type optionalWork struct {
	read, write *dnssec.NSEC3HashMemo
	limit       uint32
	refusals    *atomic.Int64
}

func (w optionalWork) BeginNSEC3Hash() (func(), error) {
	if !w.write.TryReserveWork(w.limit) {
		w.refusals.Add(1)
		return nil, errC12WorkRefused
	}
	return func() {}, nil
}

func (w optionalWork) NSEC3HashMemos() dnssec.NSEC3HashMemoAccess {
	return dnssec.NSEC3HashMemoAccess{Read: w.read, Write: w.write}
}

func (run *runner) siblings(lo, hi int) {
	for i := lo; i < hi; i++ {
		run.siblingCase(i)
	}
}

type sibState struct {
	gids []atomic.Uint64
	done []atomic.Bool
}

// classify looks at every validation that has not returned in one snapshot.
// live: at least one of them can still make progress on its own. Otherwise
// recv / other are the parked ones (channel receive / any other wait).
func (st *sibState) classify() (pending int, live bool, recv, other int, where []string) {
	snap := goroutineSnapshot()
	for i := range st.gids {
		if st.done[i].Load() {
			continue
		}
		pending++
		g, ok := snap[st.gids[i].Load()]
		if !ok || !g.parked() {
			live = true
			continue
		}
		if strings.HasPrefix(g.state, "chan receive") {
			recv++
		} else {
			other++
		}
		where = append(where, fmt.Sprintf("validation %d [%s] %s", i, g.state, topFrames(g.block, 4)))
	}
	return
}

func (run *runner) siblingCase(index int) {
	r := run.r
	c := genSiblings(r.RandN("sibling-validations", index), index)
	fx := sibFixtureFor(c.Iter)
	r.Count("sibling/cases", 1)

	type result struct {
		ok  bool
		err error
	}
	verify := func(sp SiblingSpec, m *dns.Msg, work dnssec.NSEC3Work) result {
		var n3 []dns.RR
		for _, rr := range m.Ns {
			if rr.Header().Rrtype == dns.TypeNSEC3 {
				n3 = append(n3, rr)
			}
		}
		var ok bool
		var err error
		if sp.Proof == "nx" {
			ok, err = dnssec.VerifyNameErrorForZoneWithWork(m, n3, sibApex, work)
		} else {
			ok, err = dnssec.VerifyNODATAForZoneWithWork(m, n3, sibApex, work)
		}
		return result{ok, err}
	}
	show := func(x result) string { return fmt.Sprintf("(%v, %v)", x.ok, x.err) }
	same := func(a, b result) bool {
		if a.ok != b.ok || (a.err == nil) != (b.err == nil) {
			return false
		}
		return a.err == nil || a.err.Error() == b.err.Error()
	}
	s := len(c.Siblings)
	refs := make([]result, s)
	for i, sp := range c.Siblings {
		refs[i] = verify(sp, fx.response(sp.QName, sp.QType), nil)
	}

	for rep := 0; rep < c.Reps; rep++ {
		base, cancel := context.WithCancel(context.Background())
		ctx := base
		var ledger *middleware.RecursionWorkLedger
		if c.Mode != "off" {
			p := fullPolicy(c.Mode)
			p.MaxNSEC3Hashes = c.MaxN3
			p.MaxConcurrentCrypto = c.Capacity
			ledger = middleware.NewRecursionWorkLedger(p)
			ctx = middleware.WithRecursionWork(ctx, ledger)
		}
		ctx = dnssec.EnsureNSEC3HashMemo(ctx)
		limiter := dnssec.NewCryptoLimiter(c.Capacity)
		var held []func()
		if c.Plan != "race" {
			// other request trees occupy every crypto slot of the resolver
			for {
				rel, ok := limiter.TryAcquire()
				if !ok {
					break
				}
				held = append(held, rel)
			}
		}
		releaseHeld := func() {
			for _, rel := range held {
				rel()
			}
			held = nil
		}
		var grants, refusals, optRefusals atomic.Int64
		required := countedWork{inner: resolver.VerifC12DNSSECWork(ctx, limiter), grants: &grants, refusals: &refusals}
		optional := optionalWork{read: dnssec.NSEC3HashMemoFromContext(ctx), write: dnssec.NewNSEC3HashMemo(), limit: 4, refusals: &optRefusals}

		st := &sibState{gids: make([]atomic.Uint64, s), done: make([]atomic.Bool, s)}
		res := make([]result, s)
		panics := make([]any, s)
		msgs := make([]*dns.Msg, s)
		for i, sp := range c.Siblings {
			msgs[i] = fx.response(sp.QName, sp.QType)
		}
		var ready atomic.Int32
		var start atomic.Bool
		for i := range c.Siblings {
			go func(i int) {
				defer st.done[i].Store(true)
				defer func() {
					if p := recover(); p != nil {
						panics[i] = p
					}
				}()
				st.gids[i].Store(curGID())
				var work dnssec.NSEC3Work = required
				if c.Siblings[i].Role == "optional" {
					work = optional
				}
				ready.Add(1)
				for !start.Load() {
				}
				res[i] = verify(c.Siblings[i], msgs[i], work)
			}(i)
		}
		for int(ready.Load()) < s {
			runtime.Gosched()
		}
		start.Store(true)

		watchdog := time.Now().Add(60 * time.Second)
		inconclusive := ""
		preRecv, preOther := 0, 0
		if c.Plan != "race" {
			// wait until the tree is parked as a whole: every validation that
			// has not returned waits for a crypto slot or for a sibling's
			// in-flight hash
			for {
				pending, live, recv, other, _ := st.classify()
				if pending == 0 || !live {
					preRecv, preOther = recv, other
					break
				}
				if time.Now().After(watchdog) {
					inconclusive = "the tree never parked on the saturated crypto gate"
					break
				}
				time.Sleep(200 * time.Microsecond)
			}
			if c.Plan == "saturate-cancel" && inconclusive == "" {
				// the request is cancelled (client gone / deadline) while its
				// validations wait; the slots stay occupied until every waiter
				// for a slot has seen the cancellation
				cancel()
				for {
					pending, live, _, other, _ := st.classify()
					if pending == 0 || (other == 0 && !live) {
						break
					}
					if time.Now().After(watchdog) {
						inconclusive = "validations waiting for a crypto slot did not see the cancellation"
						break
					}
					time.Sleep(200 * time.Microsecond)
				}
			}
			releaseHeld()
		}

		// outcome: every validation returned, or the tree is stuck
		var stuck []string
		terminated := false
		for inconclusive == "" {
			pending, live, _, _, where := st.classify()
			if pending == 0 {
				terminated = true
				break
			}
			if !live {
				// every pending validation is parked, the gate is free, nobody
				// else can reach this tree's ledger, memo or gate: confirm the
				// snapshot is not a transient
				confirmed := true
				for k := 0; k < 4 && confirmed; k++ {
					time.Sleep(5 * time.Millisecond)
					runtime.Gosched()
					p2, live2, _, _, where2 := st.classify()
					if p2 != pending || live2 || strings.Join(where2, "|") != strings.Join(where, "|") {
						confirmed = false
					}
				}
				if confirmed {
					stuck = where
					break
				}
				continue
			}
			if time.Now().After(watchdog) {
				inconclusive = "validations still running after 60 s"
				break
			}
			time.Sleep(100 * time.Microsecond)
		}
		releaseHeld()
		if inconclusive != "" {
			cancel()
			r.Inconclusive(fmt.Sprintf("watchdog: sibling validations %d (%s, %s): %s", index, c.Plan, c.Mode, inconclusive))
			return
		}

		var counted int64
		if ledger != nil {
			counted = int64(ledger.Snapshot().NSEC3Hashes)
		}
		mk := func() ReplayCase {
			cc := *c
			for i := range res {
				if st.done[i].Load() {
					cc.Results = append(cc.Results, show(res[i]))
				} else {
					cc.Results = append(cc.Results, "never returned")
				}
				cc.Reference = append(cc.Reference, show(refs[i]))
			}
			cc.Granted, cc.Refusals, cc.Counted = grants.Load(), refusals.Load(), counted
			cc.ParkedPre = fmt.Sprintf("%d on a channel receive, %d elsewhere", preRecv, preOther)
			cc.StuckWhere = stuck
			return ReplayCase{Seed: r.Seed, Index: index, Topology: &TopoSpec{Index: index, Kind: "sibling-validations", Variant: c.Plan}, Extra: &cc}
		}
		r.Eval(1)
		r.Count("sibling/runs", 1)
		r.Count("sibling/runs/"+c.Plan, 1)
		r.Count("sibling/runs/mode/"+c.Mode, 1)
		r.DistinctIn("sibling_shapes", fmt.Sprintf("%s/%s/%s/s%d/n3=%d/iter%d/cap%d", c.Plan, c.Mode, c.Variant, s, c.MaxN3, c.Iter, c.Capacity))
		if preRecv > 0 {
			r.Count("sibling/runs_with_validations_parked_on_a_siblings_inflight_hash", 1)
			if c.Plan == "saturate-cancel" {
				r.Count("sibling/runs_producer_refused_while_siblings_parked_on_it", 1)
			}
		}
		if preOther > 0 {
			r.Count("sibling/runs_with_validations_parked_on_the_crypto_gate", 1)
		}
		for i, p := range panics {
			if p != nil {
				r.Violation("panic/sibling-validation", fmt.Sprintf("sibling validations %d: validation %d panicked: %v", index, i, p), mk())
			}
		}
		if !terminated {
			r.Count("sibling/runs_stuck/"+c.Plan, 1)
			r.Violation("termination/concurrent-validations-of-one-request-tree-never-return",
				fmt.Sprintf("sibling validations %d (%s, %s, max_nsec3_hashes %d, %d crypto slots): %d of %d concurrent validations of one request tree never return: each is parked in a wait that only another goroutine of the tree could end, every other validation has returned and the crypto gate is free — the request can produce neither an answer nor a SERVFAIL. %s",
					index, c.Plan, c.Mode, c.MaxN3, c.Capacity, len(stuck), s, strings.Join(stuck, "; ")), mk())
			cancel()
			continue
		}
		r.Count("sibling/runs_terminated", 1)
		cancel()

		refusedAny := refusals.Load() > 0
		if c.Mode == "enforce" {
			if refusedAny {
				r.Count("sibling/enforce_runs_with_refusals", 1)
				if c.Plan == "race" {
					r.Count("sibling/enforce_race_runs_with_budget_refusals", 1)
				}
			}
			if grants.Load() >= int64(c.MaxN3) {
				r.Count("sibling/enforce_runs_budget_fully_spent", 1)
			}
			if grants.Load() > int64(c.MaxN3) || counted > int64(c.MaxN3) {
				r.Violation("dnssec-budget/nsec3-hashes-beyond-budget-under-concurrent-validations",
					fmt.Sprintf("sibling validations %d (%s): %d concurrent validations of one enforce-mode request tree were granted %d NSEC3 hashes (ledger counts %d) with max_nsec3_hashes = %d", index, c.Plan, s, grants.Load(), counted, c.MaxN3), mk())
			} else {
				r.Count("sibling/enforce_runs_within_budget", 1)
			}
		}
		// off / shadow change nothing; neither does enforce when nothing was
		// refused (cancellation is a refusal of its own)
		if c.Plan != "saturate-cancel" && (c.Mode != "enforce" || !refusedAny) {
			for i := range res {
				if c.Siblings[i].Role == "optional" && optRefusals.Load() > 0 {
					continue
				}
				if !same(res[i], refs[i]) {
					r.Violation("concurrent-validation/result-differs-from-unlimited-validation/"+c.Mode,
						fmt.Sprintf("sibling validations %d (%s, %s): nothing was refused, yet validation %d (%s %s) returned %s where the validator without a work object returns %s", index, c.Plan, c.Mode, i, c.Siblings[i].Proof, c.Siblings[i].QName, show(res[i]), show(refs[i])), mk())
					break
				}
			}
			r.Count("sibling/runs_compared_with_unlimited_validation", 1)
		}
		if index < 3 && rep == 0 {
			var rs []string
			for i := range res {
				rs = append(rs, show(res[i]))
			}
			sort.Strings(rs)
			r.Sample(map[string]any{"sibling_validations_case": index, "plan": c.Plan, "mode": c.Mode, "variant": c.Variant, "validations": s, "max_nsec3_hashes": c.MaxN3,
				"granted": grants.Load(), "refused": refusals.Load(), "ledger_count": counted, "parked_before_fault": fmt.Sprintf("%d recv / %d gate", preRecv, preOther), "results": rs})
		}
	}
}
